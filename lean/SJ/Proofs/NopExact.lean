import SJ.Model.NopExact
import SJ.Proofs.SerdeRT
import SJ.Proofs.DecodeSound
/-
C17, last clause — "Deserialize reconstructs tapes … with NOP runs whose skip counts land exactly on the next
live entry": `nopsExact pj' = none` for every tape `pj'` obtained by deserializing a serialized well-formed
(possibly edited) tape.

Structure
  1. `Reach tp k`: the scan of `nopsExactFrom` started at word 0 arrives at word `k` with every NOP check passed
     (`reach_exact`: reaching the end of the tape means `nopsExactFrom … 0 = none`);
  2. `reach_fill`: a run `N, N-1, …, 1` of NOP words followed by a live word (or the end of the tape) extends `Reach`;
  3. `Flat T V`: the tag stream `T` / value-word stream `V` consist of the known tags with the right number of value
     words, string offsets below 2^56 and flagged-float words carrying the float tag; every coded stream
     (`SerdeRT.CodeRoots`, i.e. everything `serialize` emits for a well-formed tape) is `Flat`;
  4. the loop invariant `Inv` of `rebLoop` (the scan reaches `off`, and keeps doing so whatever is written at
     positions ≥ `off`), preserved by every successful `rebStep` on a `Flat` stream;
  5. the final flush, `deser_nops_exact`, and the companion example (the check is strictly stronger than `WF`).
-/
set_option linter.unusedSimpArgs false
set_option linter.unusedVariables false
namespace SJ.NopExact
open SJ SJ.Generated SJ.Layout SJ.Rebuild SJ.SerdeRT

-- 1. the scan as a relation --------------------------------------------------------------------------------------

/-- the skip count the scan demands of a NOP at `k` -/
def want (tp : Array UInt64) (k : Nat) : Nat :=
  if k + 1 < tp.size ∧ tagOf (tp.getD (k + 1) 0) == tagNop then (payloadOf (tp.getD (k + 1) 0)).toNat + 1 else 1

/-- the scan started at word 0 arrives at word `k`, every NOP it met being exact -/
inductive Reach (tp : Array UInt64) : Nat → Prop
  | zero : Reach tp 0
  | nop {k : Nat} : Reach tp k → k < tp.size → (tagOf (tp.getD k 0) == tagNop) = true →
      (payloadOf (tp.getD k 0)).toNat = want tp k → Reach tp (k + 1)
  | two {k : Nat} : Reach tp k → k < tp.size → (tagOf (tp.getD k 0) == tagNop) = false →
      twoWordTag (tagOf (tp.getD k 0)) = true → Reach tp (k + 2)
  | one {k : Nat} : Reach tp k → k < tp.size → (tagOf (tp.getD k 0) == tagNop) = false →
      twoWordTag (tagOf (tp.getD k 0)) = false → Reach tp (k + 1)

theorem scan_end (tp : Array UInt64) (fuel k : Nat) (h : tp.size ≤ k) : nopsExactFrom tp fuel k = none := by
  cases fuel with
  | zero => rfl
  | succ f => simp only [nopsExactFrom, ge_iff_le, h, if_true]

theorem scan_nop (tp : Array UInt64) (fuel k : Nat) (hk : k < tp.size) (ht : (tagOf (tp.getD k 0) == tagNop) = true)
    (hw : (payloadOf (tp.getD k 0)).toNat = want tp k) :
    nopsExactFrom tp (fuel + 1) k = nopsExactFrom tp fuel (k + 1) := by
  have hk' : ¬ (k ≥ tp.size) := by omega
  have hw' : ((payloadOf (tp.getD k 0)).toNat == want tp k) = true := by rw [hw]; exact beq_self_eq_true _
  unfold want at hw'
  simp only [nopsExactFrom, hk', if_false, ht, if_true, hw']

theorem scan_two (tp : Array UInt64) (fuel k : Nat) (hk : k < tp.size) (ht : (tagOf (tp.getD k 0) == tagNop) = false)
    (h2 : twoWordTag (tagOf (tp.getD k 0)) = true) :
    nopsExactFrom tp (fuel + 1) k = nopsExactFrom tp fuel (k + 2) := by
  have hk' : ¬ (k ≥ tp.size) := by omega
  simp only [nopsExactFrom, hk', if_false, ht, h2, if_true, Bool.false_eq_true]

theorem scan_one (tp : Array UInt64) (fuel k : Nat) (hk : k < tp.size) (ht : (tagOf (tp.getD k 0) == tagNop) = false)
    (h2 : twoWordTag (tagOf (tp.getD k 0)) = false) :
    nopsExactFrom tp (fuel + 1) k = nopsExactFrom tp fuel (k + 1) := by
  have hk' : ¬ (k ≥ tp.size) := by omega
  simp only [nopsExactFrom, hk', if_false, ht, h2, if_true, Bool.false_eq_true]

/-- if the scan arrives at `k` and finds nothing from `k` on, it finds nothing at all -/
theorem reach_exact {tp : Array UInt64} {k : Nat} (h : Reach tp k) :
    (∀ fuel, nopsExactFrom tp fuel k = none) → ∀ fuel, nopsExactFrom tp fuel 0 = none := by
  induction h with
  | zero => exact id
  | nop hr hk ht hw ih =>
    intro hf
    apply ih
    intro fuel
    cases fuel with
    | zero => rfl
    | succ f => rw [scan_nop tp f _ hk ht hw]; exact hf f
  | two hr hk ht h2 ih =>
    intro hf
    apply ih
    intro fuel
    cases fuel with
    | zero => rfl
    | succ f => rw [scan_two tp f _ hk ht h2]; exact hf f
  | one hr hk ht h2 ih =>
    intro hf
    apply ih
    intro fuel
    cases fuel with
    | zero => rfl
    | succ f => rw [scan_one tp f _ hk ht h2]; exact hf f

theorem reach_end {tp : Array UInt64} (h : Reach tp tp.size) (S m : Bytes) : nopsExact ⟨tp, S, m⟩ = none :=
  reach_exact h (fun fuel => scan_end tp fuel _ (Nat.le_refl _)) _

-- 2. NOP runs ------------------------------------------------------------------------------------------------------

theorem getD_of {tp : Array UInt64} {k : Nat} {w : UInt64} (h : tp[k]? = some w) : tp.getD k 0 = w := by
  simp [Array.getD_eq_getD_getElem?, h]

theorem lt_of_get {tp : Array UInt64} {k : Nat} {w : UInt64} (h : tp[k]? = some w) : k < tp.size :=
  (Array.getElem?_eq_some_iff.mp h).1

theorem nopW_tag (x : Nat) (h : x < 2^56) : (tagOf (nopW x) == tagNop) = true := by
  have hs : (UInt64.ofNat x).toNat = x := toNat_ofNat_lt (by omega)
  rw [show tagOf (nopW x) = tagNop from tagOf_mkWord _ _ (by rw [hs]; exact h)]
  rfl

theorem nopW_payload (x : Nat) (h : x < 2^56) : (payloadOf (nopW x)).toNat = x := by
  have hs : (UInt64.ofNat x).toNat = x := toNat_ofNat_lt (by omega)
  rw [show payloadOf (nopW x) = UInt64.ofNat x from payloadOf_mkWord _ _ (by rw [hs]; exact h), hs]

/-- a run `n, n-1, …, 1` of NOP words at `[k, k+n)` that is followed by a live word or by the end of the tape -/
theorem reach_fill (tp : Array UInt64) (k n : Nat) (hr : Reach tp k)
    (hfill : ∀ j, k ≤ j → j < k + n → tp[j]? = some (nopW (k + n - j)))
    (hend : ¬ (k + n < tp.size ∧ (tagOf (tp.getD (k + n) 0) == tagNop) = true)) (hs : tp.size < 2^56) :
    Reach tp (k + n) := by
  have main : ∀ i, i ≤ n → Reach tp (k + i) := by
    intro i
    induction i with
    | zero => intro _; exact hr
    | succ i ih =>
      intro hi
      have hw := hfill (k + i) (by omega) (by omega)
      have hlt := lt_of_get hw
      have hlast := lt_of_get (hfill (k + n - 1) (by omega) (by omega))
      have e0 : tp.getD (k + i) 0 = nopW (k + n - (k + i)) := getD_of hw
      suffices hp : (payloadOf (tp.getD (k + i) 0)).toNat = want tp (k + i) from
        Reach.nop (k := k + i) (ih (by omega)) hlt (by rw [e0]; exact nopW_tag _ (by omega)) hp
      rw [e0, nopW_payload _ (by omega)]
      unfold want
      by_cases hl : i + 1 < n
      · have hw1 := hfill (k + i + 1) (by omega) (by omega)
        have e1 : tp.getD (k + i + 1) 0 = nopW (k + n - (k + i + 1)) := getD_of hw1
        rw [e1, if_pos ⟨lt_of_get hw1, nopW_tag _ (by omega)⟩, nopW_payload _ (by omega)]
        omega
      · have e : k + i + 1 = k + n := by omega
        rw [e, if_neg hend]
        omega
  exact main n (Nat.le_refl _)

-- 3. one successful step of the reconstruction ----------------------------------------------------------------------

/-- the scan arrives at `k` on every tape that agrees with `tp` below `k` -/
def SReach (tp : Array UInt64) (k : Nat) : Prop :=
  ∀ tp' : Array UInt64, tp'.size = tp.size → (∀ j, j < k → tp'[j]? = tp[j]?) → Reach tp' k

/-- loop invariant of `rebLoop`: everything below `off` is final and scans without a finding -/
structure Inv (r : RebState) : Prop where
  le : r.off ≤ r.tape.size
  sz : r.tape.size < 2^56
  reach : SReach r.tape r.off

/-- effect of the dispatch of a live tag: `w` tape words, `nv` value words, nothing below `off` touched, and the word
    now at `off` is live and owns `w` words for the scan -/
structure Wrote (r1 r' : RebState) (w nv : Nat) : Prop where
  size : r'.tape.size = r1.tape.size
  off : r'.off = r1.off + w
  le : r'.off ≤ r'.tape.size
  vpos : r'.vpos = r1.vpos + 8 * nv
  frame : ∀ j, j < r1.off → r'.tape[j]? = r1.tape[j]?
  word : ∃ x, r'.tape[r1.off]? = some x ∧ (tagOf x == tagNop) = false ∧
    ((w = 1 ∧ twoWordTag (tagOf x) = false) ∨ (w = 2 ∧ twoWordTag (tagOf x) = true))

theorem inv_of_wrote {r r1 r' : RebState} {w nv : Nat} (hinv : Inv r) (hlt : r.off + r.nSkips < r.tape.size)
    (hf : Flushed r r1) (hw : Wrote r1 r' w nv) : Inv r' := by
  have h1 : r1.off = r.off + r.nSkips := hf.off
  refine ⟨hw.le, by rw [hw.size, hf.size]; exact hinv.sz, ?_⟩
  intro tp hsz hag
  have hsz' : tp.size = r.tape.size := by rw [hsz, hw.size, hf.size]
  obtain ⟨x, hx, hx1, hx2⟩ := hw.word
  have hwpos : 1 ≤ w := by rcases hx2 with ⟨h, _⟩ | ⟨h, _⟩ <;> omega
  have hxt : tp[r1.off]? = some x := by rw [hag _ (by rw [hw.off]; omega)]; exact hx
  have ex : tp.getD r1.off 0 = x := getD_of hxt
  have hxlt : r1.off < tp.size := lt_of_get hxt
  -- below `r.off`: the invariant
  have r0 : Reach tp r.off := hinv.reach tp hsz' (fun j hj => by
    rw [hag j (by rw [hw.off]; omega), hw.frame j (by omega), hf.frame j (Or.inl hj)])
  -- the flushed run
  have r1' : Reach tp (r.off + r.nSkips) := by
    refine reach_fill tp r.off r.nSkips r0 (fun j a b => ?_) ?_ (by rw [hsz']; exact hinv.sz)
    · rw [hag j (by rw [hw.off]; omega), hw.frame j (by omega), hf.fill j a (by omega), h1]
    · rw [← h1, ex, hx1]
      simp
  rw [← h1] at r1'
  rw [hw.off]
  rcases hx2 with ⟨rfl, h2⟩ | ⟨rfl, h2⟩
  · exact Reach.one r1' hxlt (by rw [ex]; exact hx1) (by rw [ex]; exact h2)
  · exact Reach.two r1' hxlt (by rw [ex]; exact hx1) (by rw [ex]; exact h2)

/-- a successful step on a live tag: the owed skips fit, are flushed, then the tag is dispatched -/
theorem step_inv (vals : Bytes) (r : RebState) (t : UInt8) (r' : RebState) (hle : r.off ≤ r.tape.size)
    (ht : t ≠ tagNop) (h : rebStep vals r t = .ok r') :
    r.off + r.nSkips < r.tape.size ∧ ∃ r1, Flushed r r1 ∧ dispatch vals t r1 = .ok r' := by
  by_cases hlt : r.off + r.nSkips < r.tape.size
  · obtain ⟨r1, hf, e1⟩ := flush_step vals r t (notNop_of ht) hlt
    exact ⟨hlt, r1, hf, by rw [← e1]; exact h⟩
  · exfalso
    rw [rebStep_eq] at h
    by_cases he : r.off = r.tape.size
    · have : (r.off == r.tape.size) = true := by simp [he]
      rw [this, if_pos rfl] at h
      cases h
    · have hne : (r.off == r.tape.size) = false := by simp [he]
      rw [hne] at h
      simp only [Bool.false_eq_true, if_false] at h
      have c1 : r.nSkips > 0 ∧ (!(inCase (caseOfSw swDeserialize 1 0) t)) = true := ⟨by omega, by simp [notNop_of ht]⟩
      unfold flushPhase at h
      rw [if_pos c1, if_pos (by omega)] at h
      cases h

theorem step_nop (vals : Bytes) (r r' : RebState) (hle : r.off ≤ r.tape.size) (h : rebStep vals r tagNop = .ok r') :
    r' = { r with nSkips := r.nSkips + 1 } := by
  by_cases he : r.off = r.tape.size
  · rw [rebStep_eq] at h
    have : (r.off == r.tape.size) = true := by simp [he]
    rw [this, if_pos rfl] at h
    cases h
  · rw [rebStep_nop vals r (by omega)] at h
    cases h
    rfl

-- the dispatch of each live tag, read off a successful run ----------------------------------------------------------

theorem two_guard (vals : Bytes) (t : UInt8) (r r' : RebState) (h2 : inCase (caseOfSw swDeserialize 0 0) t = true)
    (hd : dispatch vals t r = .ok r') : r.off + 1 < r.tape.size := by
  by_cases hg : r.off + 1 < r.tape.size
  · exact hg
  · exfalso
    have hc : inCase (caseOfSw swDeserialize 0 0) t = true ∧ r.off + 1 ≥ r.tape.size := ⟨h2, by omega⟩
    unfold dispatch at hd
    simp only [] at hd
    rw [if_pos hc] at hd
    cases hd

theorem wrote_atom (vals : Bytes) (r1 r' : RebState) (t : UInt8) (hc : t = tagNull ∨ t = tagBoolTrue ∨ t = tagBoolFalse)
    (h0 : r1.off < r1.tape.size) (hd : dispatch vals t r1 = .ok r') : Wrote r1 r' 1 0 := by
  obtain ⟨r'', e, ha, hw⟩ := dispatch_atom vals r1 t hc h0
  rw [e] at hd
  cases hd
  refine ⟨ha.size, ha.off, by rw [ha.off, ha.size]; omega, ha.vpos, fun j hj => by rw [hw j, if_neg (by omega)],
    mkWord t 0, by rw [hw, if_pos rfl], ?_, Or.inl ⟨rfl, ?_⟩⟩
  · rw [tagOf_mkWord0]; rcases hc with rfl | rfl | rfl <;> decide
  · rw [tagOf_mkWord0]; rcases hc with rfl | rfl | rfl <;> decide

theorem wrote_num (vals : Bytes) (r1 r' : RebState) (t : UInt8) (hc : t = tagFloat ∨ t = tagInteger ∨ t = tagUint)
    (hv : r1.vpos + 8 ≤ vals.size) (hd : dispatch vals t r1 = .ok r') : Wrote r1 r' 2 1 := by
  have hg := two_guard vals t r1 r' (by rcases hc with rfl | rfl | rfl <;> decide) hd
  obtain ⟨r'', e, ha, hw⟩ := dispatch_num vals r1 t hc hg hv
  rw [e] at hd
  cases hd
  refine ⟨ha.size, ha.off, by rw [ha.off, ha.size]; omega, ha.vpos,
    fun j hj => by rw [hw j, if_neg (by omega), if_neg (by omega)],
    mkWord t 0, by rw [hw, if_neg (by omega), if_pos rfl], ?_, Or.inr ⟨rfl, ?_⟩⟩
  · rw [tagOf_mkWord0]; rcases hc with rfl | rfl | rfl <;> decide
  · rw [tagOf_mkWord0]; rcases hc with rfl | rfl | rfl <;> decide

theorem wrote_str (vals : Bytes) (r1 r' : RebState) (hv : r1.vpos + 16 ≤ vals.size)
    (hx : (rdLE64 vals r1.vpos).toNat < 2^56) (hd : dispatch vals tagString r1 = .ok r') : Wrote r1 r' 2 2 := by
  have hg := two_guard vals tagString r1 r' (by decide) hd
  obtain ⟨r'', e, ha, hw⟩ := dispatch_str vals r1 hg hv
  rw [e] at hd
  cases hd
  refine ⟨ha.size, ha.off, by rw [ha.off, ha.size]; omega, ha.vpos,
    fun j hj => by rw [hw j, if_neg (by omega), if_neg (by omega)],
    mkWord tagString (rdLE64 vals r1.vpos), by rw [hw, if_neg (by omega), if_pos rfl], ?_, Or.inr ⟨rfl, ?_⟩⟩
  · rw [tagOf_mkWord _ _ hx]; decide
  · rw [tagOf_mkWord _ _ hx]; decide

theorem wrote_fflag (vals : Bytes) (r1 r' : RebState) (hv : r1.vpos + 16 ≤ vals.size)
    (hx : tagOf (rdLE64 vals r1.vpos) = tagFloat) (hd : dispatch vals tagFloatWithFlag r1 = .ok r') : Wrote r1 r' 2 2 := by
  have hg := two_guard vals tagFloatWithFlag r1 r' (by decide) hd
  obtain ⟨r'', e, ha, hw⟩ := dispatch_fflag vals r1 hg hv
  rw [e] at hd
  cases hd
  refine ⟨ha.size, ha.off, by rw [ha.off, ha.size]; omega, ha.vpos,
    fun j hj => by rw [hw j, if_neg (by omega), if_neg (by omega)],
    rdLE64 vals r1.vpos, by rw [hw, if_neg (by omega), if_pos rfl], ?_, Or.inr ⟨rfl, ?_⟩⟩
  · rw [hx]; decide
  · rw [hx]; decide

theorem open_guard (vals : Bytes) (t : UInt8) (r r' : RebState) (hc : t = tagObjectStart ∨ t = tagArrayStart)
    (hd : dispatch vals t r = .ok r') :
    (rdLE64 vals r.vpos + UInt64.ofNat r.off).toNat ≤ r.tape.size ∧
      r.off + 2 ≤ (rdLE64 vals r.vpos + UInt64.ofNat r.off).toNat := by
  rcases hc with rfl | rfl <;>
  · unfold dispatch at hd
    simp (decide := true) only [if_false, if_true, false_and, and_false] at hd
    split at hd
    · cases hd
    · split at hd
      · cases hd
      · omega

theorem root_guard (vals : Bytes) (r r' : RebState) (hd : dispatch vals tagRoot r = .ok r') :
    (rdLE64 vals r.vpos + UInt64.ofNat r.off).toNat ≤ r.tape.size := by
  unfold dispatch at hd
  simp (decide := true) only [if_false, if_true, false_and, and_false] at hd
  split at hd
  · cases hd
  · split at hd
    · cases hd
    · omega

theorem wrote_open (vals : Bytes) (r1 r' : RebState) (t : UInt8) (hc : t = tagObjectStart ∨ t = tagArrayStart)
    (hv : r1.vpos + 8 ≤ vals.size) (hs : r1.tape.size < 2^56) (hd : dispatch vals t r1 = .ok r') : Wrote r1 r' 1 1 := by
  obtain ⟨g1, g2⟩ := open_guard vals t r1 r' hc hd
  generalize hval : rdLE64 vals r1.vpos + UInt64.ofNat r1.off = val at g1 g2
  obtain ⟨c, hcc⟩ : ∃ c, t = tagObjectStart ∧ c = tagObjectEnd ∨ t = tagArrayStart ∧ c = tagArrayEnd := by
    rcases hc with rfl | rfl
    · exact ⟨tagObjectEnd, Or.inl ⟨rfl, rfl⟩⟩
    · exact ⟨tagArrayEnd, Or.inr ⟨rfl, rfl⟩⟩
  obtain ⟨r'', e, ha, hw⟩ := dispatch_open vals r1 t c val.toNat hcc hv (by rw [hval, UInt64.ofNat_toNat]) g1 g2 (by omega)
  rw [e] at hd
  cases hd
  have hx : (UInt64.ofNat val.toNat).toNat < 2^56 := by rw [UInt64.ofNat_toNat]; omega
  refine ⟨ha.size, ha.off, by rw [ha.off, ha.size]; omega, ha.vpos,
    fun j hj => by rw [hw j, if_neg (by omega), if_neg (by omega)],
    mkWord t (UInt64.ofNat val.toNat), by rw [hw, if_neg (by omega), if_pos rfl], ?_, Or.inl ⟨rfl, ?_⟩⟩
  · rw [tagOf_mkWord _ _ hx]; rcases hc with rfl | rfl <;> decide
  · rw [tagOf_mkWord _ _ hx]; rcases hc with rfl | rfl <;> decide

theorem wrote_root (vals : Bytes) (r1 r' : RebState) (h0 : r1.off < r1.tape.size)
    (hv : r1.vpos + 8 ≤ vals.size) (hs : r1.tape.size < 2^56) (hd : dispatch vals tagRoot r1 = .ok r') : Wrote r1 r' 1 1 := by
  have g1 := root_guard vals r1 r' hd
  generalize hval : rdLE64 vals r1.vpos + UInt64.ofNat r1.off = val at g1
  obtain ⟨r'', e, ha, hw⟩ := dispatch_root vals r1 val.toNat hv (by rw [hval, UInt64.ofNat_toNat]) g1 h0 (by omega)
  rw [e] at hd
  cases hd
  have hx : (UInt64.ofNat val.toNat).toNat < 2^56 := by rw [UInt64.ofNat_toNat]; omega
  refine ⟨ha.size, ha.off, by rw [ha.off, ha.size]; omega, ha.vpos,
    fun j hj => by rw [hw j, if_neg (by omega)],
    mkWord tagRoot (UInt64.ofNat val.toNat), by rw [hw, if_pos rfl], ?_, Or.inl ⟨rfl, ?_⟩⟩
  · rw [tagOf_mkWord _ _ hx]; decide
  · rw [tagOf_mkWord _ _ hx]; decide

/-- the tag check of the `}` / `]` case identifies the tag of the word -/
theorem tag_of_mask (w : UInt64) (t : UInt8) (h : w &&& wJSONTAGMASK = t.toUInt64 <<< 56) : tagOf w = t := by
  apply UInt8.toNat_inj.mp
  rw [tagOf_toNat]
  have h' := congrArg UInt64.toNat h
  rw [tagmask_toNat, ← mkWord_zero, mkWord_toNat t 0 (by decide)] at h'
  have : (0 : UInt64).toNat = 0 := rfl
  omega

theorem wrote_close (vals : Bytes) (r1 r' : RebState) (c : UInt8) (hc : c = tagObjectEnd ∨ c = tagArrayEnd)
    (h0 : r1.off < r1.tape.size) (hd : dispatch vals c r1 = .ok r') : Wrote r1 r' 1 0 := by
  have key : (r1.tape[r1.off] &&& wJSONTAGMASK = c.toUInt64 <<< 56) ∧ r' = { r1 with off := r1.off + 1 } := by
    rcases hc with rfl | rfl <;>
    · unfold dispatch at hd
      simp (decide := true) only [rd_ok _ _ h0, Res.bind_ok, if_false, if_true, false_and, and_false] at hd
      split at hd
      · cases hd
      · next hm =>
        cases hd
        exact ⟨by simpa using hm, rfl⟩
  obtain ⟨hm, rfl⟩ := key
  have ht := tag_of_mask _ _ hm
  refine ⟨rfl, rfl, by show r1.off + 1 ≤ r1.tape.size; omega, rfl, fun j hj => rfl,
    r1.tape[r1.off], by show r1.tape[r1.off]? = _; exact Array.getElem?_eq_getElem h0, ?_, Or.inl ⟨rfl, ?_⟩⟩
  · rw [ht]; rcases hc with rfl | rfl <;> decide
  · rw [ht]; rcases hc with rfl | rfl <;> decide

-- 4. flat streams and the loop -------------------------------------------------------------------------------------

/-- tag stream / value-word stream made of the known tags, each with its number of value words; string offsets fit
    the payload and the word of a flagged float carries the float tag -/
inductive Flat : List UInt8 → List UInt64 → Prop
  | nil : Flat [] []
  | nop {T V} : Flat T V → Flat (tagNop :: T) V
  | atom {T V} (t : UInt8) : t = tagNull ∨ t = tagBoolTrue ∨ t = tagBoolFalse → Flat T V → Flat (t :: T) V
  | close {T V} (t : UInt8) : t = tagObjectEnd ∨ t = tagArrayEnd → Flat T V → Flat (t :: T) V
  | num {T V} (t : UInt8) (v : UInt64) : t = tagFloat ∨ t = tagInteger ∨ t = tagUint → Flat T V → Flat (t :: T) (v :: V)
  | str {T V} (x l : UInt64) : x.toNat < 2^56 → Flat T V → Flat (tagString :: T) (x :: l :: V)
  | fflag {T V} (w b : UInt64) : tagOf w = tagFloat → Flat T V → Flat (tagFloatWithFlag :: T) (w :: b :: V)
  | opn {T V} (t : UInt8) (x : UInt64) : t = tagObjectStart ∨ t = tagArrayStart → Flat T V → Flat (t :: T) (x :: V)
  | root {T V} (x : UInt64) : Flat T V → Flat (tagRoot :: T) (x :: V)

theorem Flat.append {T1 V1 T2 V2} (h1 : Flat T1 V1) (h2 : Flat T2 V2) : Flat (T1 ++ T2) (V1 ++ V2) := by
  induction h1 with
  | nil => exact h2
  | nop _ ih => exact .nop ih
  | atom t hc _ ih => exact .atom t hc ih
  | close t hc _ ih => exact .close t hc ih
  | num t v hc _ ih => exact .num t v hc ih
  | str x l hx _ ih => exact .str x l hx ih
  | fflag w b hw _ ih => exact .fflag w b hw ih
  | opn t x hc _ ih => exact .opn t x hc ih
  | root x _ ih => exact .root x ih

theorem bind_ok_inv {α β} {x : Res α} {f : α → Res β} {b : β} (h : (x >>= f) = .ok b) : ∃ a, x = .ok a ∧ f a = .ok b := by
  cases x with
  | ok a => exact ⟨a, rfl, h⟩
  | error e => cases h
  | panic => cases h
  | diverge => cases h

theorem rebLoop_cons_inv {vals : Bytes} {r r' : RebState} {t : UInt8} {T : List UInt8}
    (h : rebLoop vals r (t :: T) = .ok r') : ∃ r1, rebStep vals r t = .ok r1 ∧ rebLoop vals r1 T = .ok r' := by
  simp only [rebLoop] at h
  exact bind_ok_inv h

/-- one live tag: the invariant survives and the value position advances -/
theorem live_step {vals : Bytes} {r r' : RebState} {t : UInt8} {w nv : Nat} (hinv : Inv r) (ht : t ≠ tagNop)
    (hs : rebStep vals r t = .ok r')
    (hw : ∀ r1, r1.off < r1.tape.size → r1.tape.size < 2^56 → r1.vpos = r.vpos → dispatch vals t r1 = .ok r' →
      Wrote r1 r' w nv) : Inv r' ∧ r'.vpos = r.vpos + 8 * nv := by
  obtain ⟨hlt, r1, hf, hd⟩ := step_inv vals r t r' hinv.le ht hs
  have hwr := hw r1 (by rw [hf.off, hf.size]; exact hlt) (by rw [hf.size]; exact hinv.sz) hf.vpos hd
  exact ⟨inv_of_wrote hinv hlt hf hwr, by rw [hwr.vpos, hf.vpos]⟩

/-- **the loop invariant.** Every successful run of `rebLoop` over a flat stream keeps `Inv`. -/
theorem loop_inv (vals : Bytes) {T : List UInt8} {V : List UInt64} (hf : Flat T V) :
    ∀ r r' : RebState, Inv r → ValsAt vals r.vpos V → rebLoop vals r T = .ok r' → Inv r' := by
  induction hf with
  | nil =>
    intro r r' hinv _ h
    cases h
    exact hinv
  | nop _ ih =>
    intro r r' hinv hv h
    obtain ⟨r1, hs, hl⟩ := rebLoop_cons_inv h
    have := step_nop vals r r1 hinv.le hs
    subst this
    exact ih { r with nSkips := r.nSkips + 1 } r' ⟨hinv.le, hinv.sz, hinv.reach⟩ hv hl
  | atom t hc _ ih =>
    intro r r' hinv hv h
    obtain ⟨r1, hs, hl⟩ := rebLoop_cons_inv h
    obtain ⟨i1, v1⟩ := live_step (w := 1) (nv := 0) hinv (by rcases hc with rfl | rfl | rfl <;> decide) hs
      (fun r0 h0 _ _ hd => wrote_atom vals r0 r1 t hc h0 hd)
    exact ih r1 r' i1 (by rw [v1]; exact hv) hl
  | close t hc _ ih =>
    intro r r' hinv hv h
    obtain ⟨r1, hs, hl⟩ := rebLoop_cons_inv h
    obtain ⟨i1, v1⟩ := live_step (w := 1) (nv := 0) hinv (by rcases hc with rfl | rfl <;> decide) hs
      (fun r0 h0 _ _ hd => wrote_close vals r0 r1 t hc h0 hd)
    exact ih r1 r' i1 (by rw [v1]; exact hv) hl
  | num t v hc _ ih =>
    intro r r' hinv hv h
    obtain ⟨r1, hs, hl⟩ := rebLoop_cons_inv h
    obtain ⟨hv1, hv2, hv3⟩ := valsAt_cons hv
    obtain ⟨i1, v1⟩ := live_step (w := 2) (nv := 1) hinv (by rcases hc with rfl | rfl | rfl <;> decide) hs
      (fun r0 h0 _ hp hd => wrote_num vals r0 r1 t hc (by rw [hp]; exact hv1) hd)
    exact ih r1 r' i1 (by rw [v1]; exact hv3) hl
  | str x l hx _ ih =>
    intro r r' hinv hv h
    obtain ⟨r1, hs, hl⟩ := rebLoop_cons_inv h
    obtain ⟨hv1, hv2, hv3⟩ := valsAt_cons hv
    obtain ⟨hv4, hv5, hv6⟩ := valsAt_cons hv3
    obtain ⟨i1, v1⟩ := live_step (w := 2) (nv := 2) hinv (by decide) hs
      (fun r0 h0 _ hp hd => wrote_str vals r0 r1 (by rw [hp]; omega) (by rw [hp, hv2]; exact hx) hd)
    exact ih r1 r' i1 (by rw [v1]; exact hv6) hl
  | fflag w b hw _ ih =>
    intro r r' hinv hv h
    obtain ⟨r1, hs, hl⟩ := rebLoop_cons_inv h
    obtain ⟨hv1, hv2, hv3⟩ := valsAt_cons hv
    obtain ⟨hv4, hv5, hv6⟩ := valsAt_cons hv3
    obtain ⟨i1, v1⟩ := live_step (w := 2) (nv := 2) hinv (by decide) hs
      (fun r0 h0 _ hp hd => wrote_fflag vals r0 r1 (by rw [hp]; omega) (by rw [hp, hv2]; exact hw) hd)
    exact ih r1 r' i1 (by rw [v1]; exact hv6) hl
  | opn t x hc _ ih =>
    intro r r' hinv hv h
    obtain ⟨r1, hs, hl⟩ := rebLoop_cons_inv h
    obtain ⟨hv1, hv2, hv3⟩ := valsAt_cons hv
    obtain ⟨i1, v1⟩ := live_step (w := 1) (nv := 1) hinv (by rcases hc with rfl | rfl <;> decide) hs
      (fun r0 h0 hz hp hd => wrote_open vals r0 r1 t hc (by rw [hp]; exact hv1) hz hd)
    exact ih r1 r' i1 (by rw [v1]; exact hv3) hl
  | root x _ ih =>
    intro r r' hinv hv h
    obtain ⟨r1, hs, hl⟩ := rebLoop_cons_inv h
    obtain ⟨hv1, hv2, hv3⟩ := valsAt_cons hv
    obtain ⟨i1, v1⟩ := live_step (w := 1) (nv := 1) hinv (by decide) hs
      (fun r0 h0 hz hp hd => wrote_root vals r0 r1 h0 (by rw [hp]; exact hv1) hz hd)
    exact ih r1 r' i1 (by rw [v1]; exact hv3) hl

/-- **Rebuilt tapes have exact NOP runs.** Whatever the prior content of the destination: if `rebuild` succeeds on
    a flat stream, the scan finds nothing. -/
theorem rebuild_exact (init : Array UInt64) (tags vals : Bytes) (V : List UInt64) (hn : init.size < 2^56)
    (hf : Flat tags.toList V) (hV : ValsAt vals 0 V) (tp : Array UInt64) (h : rebuild init tags vals = .ok tp) :
    Reach tp tp.size := by
  unfold rebuild at h
  obtain ⟨s, hl, h⟩ := bind_ok_inv h
  have hinv : Inv s := loop_inv vals hf { tape := init } s ⟨Nat.zero_le _, hn, fun _ _ _ => Reach.zero⟩ hV hl
  obtain ⟨⟨tp1, off1⟩, hfl, h⟩ := bind_ok_inv h
  simp only [] at h
  split at h
  · cases h
  · next hoff =>
    split at h
    · cases h
    · cases h
      have hoff' : off1 = tp.size := by simpa using hoff
      by_cases hk : s.nSkips > 0
      · rw [if_pos hk] at hfl
        split at hfl
        · cases hfl
        · next hgt =>
          obtain ⟨tp2, e2, z2, fill2, frame2⟩ := flushSkips_spec s.nSkips s.nSkips s.tape s.off (by omega)
          rw [e2] at hfl
          cases hfl
          have r0 : Reach tp s.off := hinv.reach tp z2 (fun j hj => frame2 j (Or.inl hj))
          have := reach_fill tp s.off s.nSkips r0 fill2 (by omega) (by rw [z2]; exact hinv.sz)
          rw [hoff'] at this
          exact this
      · rw [if_neg hk] at hfl
        cases hfl
        have := hinv.reach s.tape rfl (fun _ _ => rfl)
        rw [hoff'] at this
        exact this

-- 5. coded streams are flat ----------------------------------------------------------------------------------------

theorem flat_nops : ∀ n : Nat, Flat (nops n) []
  | 0 => .nil
  | n + 1 => .nop (flat_nops n)

theorem flat_str {m : Bytes} (hm : m.size < 2^55) {s : List UInt8} {p e : Nat} {T : List UInt8} {V : List UInt64}
    (h : CodeStr m s p e T V) : Flat T V := by
  obtain ⟨_, rfl, o, rfl, ho, _⟩ := h
  exact .str _ _ (by rw [toNat_ofNat_lt (by omega)]; omega) .nil

mutual
theorem flat_val {m : Bytes} (hm : m.size < 2^55) : ∀ (v : JVal) (p e : Nat) (T : List UInt8) (V : List UInt64),
    CodeV m v p e T V → Flat T V
  | .null, p, e, T, V, h => by
    simp only [CodeV] at h
    obtain ⟨_, rfl, rfl⟩ := h
    exact .atom _ (Or.inl rfl) .nil
  | .bool b, p, e, T, V, h => by
    simp only [CodeV] at h
    obtain ⟨_, rfl, rfl⟩ := h
    exact .atom _ (by cases b <;> simp) .nil
  | .int w, p, e, T, V, h => by
    simp only [CodeV] at h
    obtain ⟨_, rfl, rfl⟩ := h
    exact .num _ _ (Or.inr (Or.inl rfl)) .nil
  | .uint w, p, e, T, V, h => by
    simp only [CodeV] at h
    obtain ⟨_, rfl, rfl⟩ := h
    exact .num _ _ (Or.inr (Or.inr rfl)) .nil
  | .float b f, p, e, T, V, h => by
    simp only [CodeV] at h
    obtain ⟨_, ⟨_, rfl, rfl⟩ | ⟨w, hw1, _, rfl, rfl⟩⟩ := h
    · exact .num _ _ (Or.inl rfl) .nil
    · exact .fflag _ _ hw1 .nil
  | .str s, p, e, T, V, h => by
    simp only [CodeV] at h
    exact flat_str hm h
  | .arr es, p, e, T, V, h => by
    simp only [CodeV] at h
    obtain ⟨_, T', V', rfl, rfl, hin⟩ := h
    have := (flat_es hm es _ _ T' V' hin).append (.close tagArrayEnd (Or.inr rfl) .nil)
    rw [List.append_nil] at this
    exact .opn _ _ (Or.inr rfl) this
  | .obj ms, p, e, T, V, h => by
    simp only [CodeV] at h
    obtain ⟨_, T', V', rfl, rfl, hin⟩ := h
    have := (flat_ms hm ms _ _ T' V' hin).append (.close tagObjectEnd (Or.inl rfl) .nil)
    rw [List.append_nil] at this
    exact .opn _ _ (Or.inl rfl) this
theorem flat_es {m : Bytes} (hm : m.size < 2^55) : ∀ (vs : JVals) (lo hi : Nat) (T : List UInt8) (V : List UInt64),
    CodeEs m vs lo hi T V → Flat T V
  | .nil, lo, hi, T, V, h => by
    simp only [CodeEs] at h
    obtain ⟨_, rfl, rfl⟩ := h
    exact flat_nops _
  | .cons v vs, lo, hi, T, V, h => by
    simp only [CodeEs] at h
    obtain ⟨p, e, T1, V1, T2, V2, _, _, rfl, rfl, c1, c2⟩ := h
    have := ((flat_nops (p - lo)).append (flat_val hm v p e T1 V1 c1)).append (flat_es hm vs e hi T2 V2 c2)
    simpa using this
theorem flat_ms {m : Bytes} (hm : m.size < 2^55) : ∀ (ms : JMems) (lo hi : Nat) (T : List UInt8) (V : List UInt64),
    CodeMs m ms lo hi T V → Flat T V
  | .nil, lo, hi, T, V, h => by
    simp only [CodeMs] at h
    obtain ⟨_, rfl, rfl⟩ := h
    exact flat_nops _
  | .cons k v ms, lo, hi, T, V, h => by
    simp only [CodeMs] at h
    obtain ⟨pk, p, e, Tk, Vk, T1, V1, T2, V2, _, _, _, rfl, rfl, ck, c1, c2⟩ := h
    have := ((((flat_nops (pk - lo)).append (flat_str hm ck)).append (flat_nops (p - (pk + 2)))).append
      (flat_val hm v p e T1 V1 c1)).append (flat_ms hm ms e hi T2 V2 c2)
    simpa using this
end

theorem flat_root {m : Bytes} (hm : m.size < 2^55) {v : JVal} {p e : Nat} {T : List UInt8} {V : List UInt64}
    (h : CodeRoot m v p e T V) : Flat T V := by
  obtain ⟨_, T', V', rfl, rfl, hin⟩ := h
  exact .root _ ((flat_es hm _ _ _ T' V' hin).append (.root _ .nil))

theorem flat_roots {m : Bytes} (hm : m.size < 2^55) (n : Nat) : ∀ (d : List JVal) (p : Nat) (T : List UInt8)
    (V : List UInt64), CodeRoots m n d p T V → Flat T V
  | [], p, T, V, h => by
    simp only [CodeRoots] at h
    obtain ⟨_, rfl, rfl⟩ := h
    exact flat_nops _
  | v :: vs, p, T, V, h => by
    simp only [CodeRoots] at h
    obtain ⟨q, e, T1, V1, T2, V2, _, rfl, rfl, c1, c2⟩ := h
    have := ((flat_nops (q - p)).append (flat_root hm c1)).append (flat_roots hm n vs e T2 V2 c2)
    simpa using this

-- 6. the claim -----------------------------------------------------------------------------------------------------

open SJ.Layout in
/-- **C17, last clause.** Every tape obtained by deserializing the serialization of a tape that obeys the format
    (freshly parsed, edited, with NOP gaps of any legal shape left by deletions), for every string hash and every
    prior content of the destination: each NOP word's skip count is exactly the distance to the end of the maximal
    run of NOP words it belongs to — it lands on the next live entry (or on the end of the tape). -/
theorem deser_nops_exact (pj : PJ) (d : List JVal) (hash : Bytes → Nat) (hwf : WF pj d) (hsz : pj.tape.size < 2^56)
    (hb : pj.tape.size * max pj.msg.size pj.strings.size < 2^55) (sec : Sections) (hs : serialize pj hash = .ok sec)
    (init : Array UInt64) (hi : init.size = sec.tapeSize) (pj' : PJ) (hd : deserializeSections sec init = .ok pj') :
    nopsExact pj' = none := by
  obtain ⟨sec', T, V, h1, h2, h3, h4, h5, h6⟩ := serialize_coded pj d hash hwf
  rw [hs] at h1
  cases h1
  have hm : sec.msg.size < 2^55 :=
    Nat.lt_of_le_of_lt (serialize_msg_bound pj hash _ (Nat.le_max_left _ _) (Nat.le_max_right _ _) sec hs) hb
  have hflat : Flat sec.tags.toList V := by rw [h4]; exact flat_roots hm _ d 0 T V (h6 hm)
  have hv0 : ValsAt sec.values 0 V := ⟨[], [], by simp [h5], rfl⟩
  unfold deserializeSections at hd
  obtain ⟨tp, hr, hd⟩ := bind_ok_inv hd
  cases hd
  exact reach_end (rebuild_exact init sec.tags sec.values V (by omega) hflat hv0 tp hr) _ _

-- 7. the check is not vacuous and strictly stronger than the format ---------------------------------------------------

/-- `[<deleted two-word value> <deleted three words> 5]`: two adjacent deletions leave the gap `2,1,3,2,1` -/
def gapPJ : PJ :=
  { tape := #[mkWord tagRoot 11, mkWord tagArrayStart 10, mkWord tagNop 2, mkWord tagNop 1, mkWord tagNop 3, mkWord tagNop 2,
      mkWord tagNop 1, mkWord tagInteger 0, 5, mkWord tagArrayEnd 1, mkWord tagRoot 0], strings := #[], msg := #[] }

/-- the skip counts of the NOP words of a tape, in order of position (all words, for display) -/
def nopSkips (pj : PJ) : List Nat :=
  (pj.tape.toList.filter (fun w => tagOf w == tagNop)).map (fun w => (payloadOf w).toNat)

/-- what `Deserialize` makes of the serialized tape (`none` when either step fails) -/
def viaSerde (pj : PJ) : Option PJ :=
  match serialize pj (fun _ => 0) with
  | .ok sec =>
    match deserializeSections sec (Array.replicate sec.tapeSize 0) with
    | .ok pj' => some pj'
    | _ => none
  | _ => none

/-- the tape obeys the format (its gap is legal) … -/
theorem gapPJ_wf : ∃ d, WF gapPJ d := (DecodeSound.wfCheckD_iff gapPJ).mp (by decide +kernel)

/-- … but the scan objects: the NOP at word 3 (skip 1) is followed by a NOP and does not land on the next live entry -/
example : nopSkips gapPJ = [2, 1, 3, 2, 1] ∧ nopsExact gapPJ = some 3 := by decide +kernel

/-- after `Serialize` / `Deserialize` the run is `5,4,3,2,1` and the scan finds nothing -/
example : (viaSerde gapPJ).map nopSkips = some [5, 4, 3, 2, 1] ∧ (viaSerde gapPJ).map nopsExact = some none := by
  decide +kernel

/-- the same through the theorem -/
example (sec : Sections) (hs : serialize gapPJ (fun _ => 0) = .ok sec) (pj' : PJ)
    (hd : deserializeSections sec (Array.replicate sec.tapeSize 0) = .ok pj') : nopsExact pj' = none := by
  obtain ⟨d, hwf⟩ := gapPJ_wf
  exact deser_nops_exact gapPJ d _ hwf (by decide) (by decide) sec hs _ (by simp) pj' hd

end SJ.NopExact
