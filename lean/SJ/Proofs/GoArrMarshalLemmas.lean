import SJ.Proofs.GoMarshal
import SJ.Proofs.GoPJForEach
set_option linter.unusedVariables false
set_option linter.unusedSimpArgs false
/-
GoArrMarshalLemmas — groundwork for GoArrMarshal.lean (`Array.MarshalJSONBuffer`, parsed_array.go l.95, against
`View.arrMarshal` of `Model/Marshal.lean`).  Everything here is about the three CALLEES of the loop, seen from a caller
whose store is abstract.

1. Variables stay bound (`KL`, from GoPJForEach) for the statement forms of `Iter.MarshalJSONBuffer` that GoPJForEach did
   not need: `KS_callAssign` (generic in the callee: `callFun_post` — whatever the callee does, `callFun` writes the results
   into the CALLER's store), `KS_extAssign`, `KS_switch`/`KS_switchL`/`KC_*`, `KS_brkL`; `KL_marshal`.  Needed because
   `GoMarshal.marshal_sim` says nothing about the store in which `Iter.MarshalJSONBuffer` returns an ERROR, and `callFun`
   copies the receiver's fields back out of that store (an unbound field would be `.stuck`).
2. A variable keeps its VALUE (`PS`/`PL`): `PL_advanceIter` — `Iter.AdvanceIter` assigns to nothing but `i.*`, `dst.*`, `v`,
   `iEnd`, `typ`.  `callAssign_ai` (GoPJForEach) does not say what `Strings.B`/`Message` are after `i.AdvanceIter(&elem)`;
   `callAssign_ai_pres` does (they are copied into the callee's frame and back, unchanged).
3. `advanceIter_cur`: the element `AdvanceIter` hands out has `cur < 2^56` (it is `v & JSONVALUEMASK`), so the hypothesis
   `cur < 2^63` of GoMarshal is DISCHARGED for every element the array loop marshals.
4. `mj_exec`: the body of `Iter.MarshalJSONBuffer` on `initEnv`, re-assembled from `GoMarshal.pre_run`/`loop_sim`/`tail_run`
   with what a caller needs of the final store (`MJSim`); `callFun_mj`/`call_mj`: the statement
   `dst, err = elem.MarshalJSONBuffer(dst)` from any store holding `elem`, `dst` and the two buffers (`afterMJ`).
5. `marshalBuf_prefix`, `arrMarshalLoop_prefix`: the model only appends to `dst` (`pre`, `marshalStep_prefix` through
   `WalkSafe.keyPart`/`body`/`contF`).  The hand model `View.arrMarshal` has no `dst` parameter; this is what connects it to
   the Go function called with a non-empty buffer.
-/
namespace SJ.GoArrMarshal
open SJ SJ.GoSem SJ.Generated SJ.GoIter SJ.GoObject
open SJ.GoPJForEach (KS KL OutKeeps copyFields_keeps copyGlobals_keeps copyFields_defined copyGlobals_get_ne)

/-! ## variables stay bound: the remaining statement forms of `Iter.MarshalJSONBuffer` -/

theorem copyPtrsBack_keeps (callee : Env) : ∀ (as : List String) (ps : List (String × List String)) (caller e' : Env),
    copyPtrsBack callee caller as ps = some e' → GoPJForEach.Keeps caller e' := by
  intro as
  induction as with
  | nil =>
    intro ps caller e' h
    cases ps with
    | nil => simp only [copyPtrsBack, Option.some.injEq] at h; subst h; exact GoPJForEach.Keeps.refl _
    | cons p ps => simp [copyPtrsBack] at h
  | cons a as ih =>
    intro ps caller e' h
    cases ps with
    | nil => simp [copyPtrsBack] at h
    | cons p ps =>
      obtain ⟨p, fs⟩ := p
      rw [copyPtrsBack] at h
      split at h
      · next e2 he2 => exact (copyFields_keeps _ _ _ _ _ _ he2).trans (ih _ _ _ h)
      · cases h

theorem assignTargets_keeps : ∀ (ts : List String) (vs : List Val) (e e' : Env),
    assignTargets ts vs e = some e' → GoPJForEach.Keeps e e' := by
  intro ts
  induction ts with
  | nil =>
    intro vs e e' h
    cases vs with
    | nil => simp only [assignTargets, Option.some.injEq] at h; subst h; exact GoPJForEach.Keeps.refl _
    | cons v vs => simp [assignTargets] at h
  | cons t ts ih =>
    intro vs e e' h
    cases vs with
    | nil => simp [assignTargets] at h
    | cons v vs =>
      rw [assignTargets] at h
      split at h
      · exact ih _ _ _ h
      · exact (GoPJForEach.Keeps.set_self _ _ _).trans (ih _ _ _ h)

theorem OutKeeps_ofE (e : Env) (o : EOut) : OutKeeps e (ofE o) := by cases o <;> trivial

/-- `callFun` returns (`.ret`) or fails; what it returns keeps the caller's variables bound, whatever the callee does -/
def CFPost (e : Env) : Out → Prop
  | .ret s' _ => GoPJForEach.Keeps e s'.env
  | .panic | .diverge | .stuck _ => True
  | _ => False

theorem CFPost_ofE (e : Env) (o : EOut) : CFPost e (ofE o) := by cases o <;> trivial

theorem callFun_post (fuel : Nat) (recv fn : String) (ptrs : List String) (args : List Expr) (s : St) :
    CFPost s.env (callFun goFuns fuel recv fn ptrs args s) := by
  have hback : ∀ (s' : St) (fd : FunDef) (rs : List Val), CFPost s.env
      (match copyFields s'.env fd.recv s.env recv fd.fields with
       | some e2 =>
         (match copyPtrsBack s'.env e2 ptrs fd.ptrParams with
          | some e3 => .ret { env := copyGlobals s'.env e3 globalVars, tape := s'.tape } rs
          | none => .stuck "pointer arguments back")
       | none => .stuck "receiver back") := by
    intro s' fd rs
    split
    · next e2 he2 =>
      split
      · next e3 he3 =>
        exact ((copyFields_keeps _ _ _ _ _ _ he2).trans (copyPtrsBack_keeps _ _ _ _ _ he3)).trans
          (copyGlobals_keeps _ _ _)
      · trivial
    · trivial
  rw [callFun]
  split
  · trivial
  · split
    · exact CFPost_ofE _ _
    · split
      · trivial
      · split
        · trivial
        · split
          · trivial
          · generalize exec goFuns fuel _ _ = o
            cases o with
            | ret s' rs => exact hback s' _ rs
            | normal s' => exact hback s' _ []
            | brk _ => trivial
            | cont _ => trivial
            | panic => trivial
            | diverge => trivial
            | stuck _ => trivial

theorem KS_callAssign (ts : List String) (r f : String) (ps : List String) (as : List Expr) :
    KS (.callAssign ts r f ps as) := by
  intro fuel s
  cases fuel with
  | zero => rw [exec1]; trivial
  | succ fuel =>
    rw [exec1]
    have h := callFun_post fuel r f ps as s
    generalize callFun goFuns fuel r f ps as s = o at h
    cases o with
    | ret s' vs =>
      simp only []
      split
      · next e he => exact GoPJForEach.Keeps.trans h (assignTargets_keeps _ _ _ _ he)
      · trivial
    | normal _ => exact h.elim
    | brk _ => exact h.elim
    | cont _ => exact h.elim
    | panic => trivial
    | diverge => trivial
    | stuck _ => trivial

theorem KS_extAssign (ts : List String) (n : String) (as : List Expr) : KS (.extAssign ts n as) := by
  intro fuel s
  rw [exec1]
  split
  · exact OutKeeps_ofE _ _
  · split
    · trivial
    · split
      · next e he => exact assignTargets_keeps _ _ _ _ he
      · trivial

theorem KS_brkL (l : String) : KS (.brkL l) := by
  intro fuel s; rw [exec1]; exact GoPJForEach.Keeps.set_self _ _ _

/-- the cases of a `switch` keep the variables bound -/
def KC (cs : List (List Expr × List Stmt)) (d : List Stmt) : Prop :=
  ∀ fuel v s, OutKeeps s.env (execCases goFuns fuel v cs d s)

theorem KC_nil {d : List Stmt} (h : KL d) : KC [] d := by
  intro fuel v s; rw [execCases]; exact h fuel s

theorem KC_cons {ls : List Expr} {b : List Stmt} {cs : List (List Expr × List Stmt)} {d : List Stmt}
    (h1 : KL b) (h2 : KC cs d) : KC ((ls, b) :: cs) d := by
  intro fuel v s
  rw [execCases]
  split
  · split
    · exact h1 fuel s
    · exact h2 fuel v s
  · exact OutKeeps_ofE _ _

theorem KS_switch (e : Expr) {cs : List (List Expr × List Stmt)} {d : List Stmt} (h : KC cs d) : KS (.switch e cs d) := by
  intro fuel s
  rw [exec1]
  split
  · exact h fuel _ s
  · exact OutKeeps_ofE _ _

theorem KS_switchL (l : String) (e : Expr) {cs : List (List Expr × List Stmt)} {d : List Stmt} (h : KC cs d) :
    KS (.switchL l e cs d) := by
  intro fuel s
  rw [exec1]
  split
  · next v hv =>
    have := h fuel v s
    generalize execCases goFuns fuel v cs d s = o at this
    cases o with
    | brk s' =>
      simp only []
      split
      · exact GoPJForEach.Keeps.trans this (GoPJForEach.Keeps.set_self _ _ _)
      · exact this
    | normal _ => exact this
    | cont _ => exact this
    | ret _ _ => exact this
    | panic => trivial
    | diverge => trivial
    | stuck _ => trivial
  · exact OutKeeps_ofE _ _

theorem KL_marshal : KL goIter_MarshalJSONBuffer.body := by
  unfold goIter_MarshalJSONBuffer
  repeat (first
    | exact GoPJForEach.KL.nil
    | apply GoPJForEach.KL.cons
    | apply KC_nil | apply KC_cons
    | apply GoPJForEach.KS.assign | apply GoPJForEach.KS.ret | exact GoPJForEach.KS.brk | exact GoPJForEach.KS.cont
    | apply GoPJForEach.KS.call | apply GoPJForEach.KS.ite | apply GoPJForEach.KS.loop
    | apply KS_callAssign | apply KS_extAssign | apply KS_brkL | apply KS_switch | apply KS_switchL)


/-! ## a variable keeps its value: the statement forms of `Iter.AdvanceIter`

`callAssign_ai` (GoPJForEach) says nothing about the shared buffers after `i.AdvanceIter(&elem)` (`callFun` copies them
into the callee's frame and back); `Array.MarshalJSONBuffer` needs them afterwards (`elem.MarshalJSONBuffer` reads
`Strings.B`/`Message`).  No statement of `AdvanceIter` assigns to them: again a syntactic property. -/

def OutPres (k : String) (e : Env) : Out → Prop
  | .normal s' | .brk s' | .cont s' | .ret s' _ => s'.env.get k = e.get k
  | _ => True

theorem OutPres_ofE (k : String) (e : Env) (o : EOut) : OutPres k e (ofE o) := by cases o <;> trivial

theorem OutPres.mono {k : String} {a b : Env} (h : b.get k = a.get k) : ∀ {o : Out}, OutPres k b o → OutPres k a o
  | .normal _, h' | .brk _, h' | .cont _, h' | .ret _ _, h' => h'.trans h
  | .panic, _ | .diverge, _ | .stuck _, _ => trivial

def PS (k : String) (st : Stmt) : Prop := ∀ fuel s, OutPres k s.env (exec1 goFuns fuel st s)
def PL (k : String) (l : List Stmt) : Prop := ∀ fuel s, OutPres k s.env (exec goFuns fuel l s)

theorem PL_nil (k : String) : PL k [] := by intro fuel s; rw [exec]; exact rfl

theorem PL_cons {k : String} {st : Stmt} {rest : List Stmt} (h1 : PS k st) (h2 : PL k rest) : PL k (st :: rest) := by
  intro fuel s
  rw [exec]
  have := h1 fuel s
  revert this
  cases exec1 goFuns fuel st s <;> intro this <;> try exact this
  exact OutPres.mono this (h2 fuel _)

theorem PS_assign {k : String} (n : String) (e : Expr) (h : n ≠ k) : PS k (.assign n e) := by
  intro fuel s
  rw [exec1]
  split
  · exact Env.get_set_ne _ _ h
  · exact OutPres_ofE _ _ _

theorem PS_ret (k : String) (es : List Expr) : PS k (.ret es) := by
  intro fuel s
  rw [exec1]
  split
  · exact rfl
  · exact OutPres_ofE _ _ _

theorem PS_brk (k : String) : PS k .brk := by intro fuel s; rw [exec1]; exact rfl
theorem PS_cont (k : String) : PS k .cont := by intro fuel s; rw [exec1]; exact rfl

theorem PS_setLen {k : String} (b : String) (e : Expr) (h : b ++ ".lim" ≠ k) : PS k (.setLen b e) := by
  intro fuel s
  rw [exec1]
  split
  · split
    · split
      · exact Env.get_set_ne _ _ h
      · trivial
    · trivial
  · trivial
  · exact OutPres_ofE _ _ _

theorem copyFields_pres (k : String) (from_ : Env) (p q : String) : ∀ (fs : List String) (to e' : Env),
    copyFields from_ p to q fs = some e' → (∀ f ∈ fs, q ++ "." ++ f ≠ k) → e'.get k = to.get k := by
  intro fs
  induction fs with
  | nil => intro to e' h _; simp only [copyFields, Option.some.injEq] at h; subst h; rfl
  | cons f r ih =>
    intro to e' h hk
    rw [copyFields] at h
    split at h
    · rw [ih _ _ h (fun g hg => hk g (by simp [hg])), Env.get_set_ne _ _ (hk f (by simp))]
    · cases h

theorem PS_copyStruct {k : String} (d src : String) (h : ∀ f ∈ iterFields, d ++ "." ++ f ≠ k) :
    PS k (.copyStruct d src) := by
  intro fuel s
  rw [exec1]
  split
  · next e he => exact copyFields_pres k _ _ _ _ _ _ he h
  · trivial

theorem PS_call {k : String} (r f : String) (a : List Expr) (h : ∀ g ∈ iterFields, r ++ "." ++ g ≠ k) :
    PS k (.call r f a) := by
  intro fuel s
  cases fuel with
  | zero => rw [exec1]; trivial
  | succ fuel =>
    rw [exec1]
    split
    · trivial
    · split
      · exact OutPres_ofE _ _ _
      · split
        · trivial
        · split
          · trivial
          · generalize exec goFuns fuel _ _ = o
            cases o with
            | ret s' rs =>
              simp only []
              split
              · next e2 he2 => exact copyFields_pres k _ _ _ _ _ _ he2 h
              · trivial
            | normal s' =>
              simp only []
              split
              · next e2 he2 => exact copyFields_pres k _ _ _ _ _ _ he2 h
              · trivial
            | brk _ => trivial
            | cont _ => trivial
            | panic => trivial
            | diverge => trivial
            | stuck _ => trivial

theorem PS_ite {k : String} (c : Expr) {t e : List Stmt} (h1 : PL k t) (h2 : PL k e) : PS k (.ite c t e) := by
  intro fuel s
  rw [exec1]
  split
  · exact h1 fuel s
  · exact h2 fuel s
  · trivial
  · exact OutPres_ofE _ _ _

theorem PS_loop {k : String} {body : List Stmt} (h : PL k body) : PS k (.loop body) := by
  intro fuel
  induction fuel with
  | zero => intro s; rw [exec1]; trivial
  | succ fuel ih =>
    intro s
    rw [exec1]
    have := h fuel s
    revert this
    cases exec goFuns fuel body s <;> intro this <;> try exact this
    · exact OutPres.mono this (ih _)
    · exact OutPres.mono this (ih _)

/-- `AdvanceIter` assigns to no variable outside `i.*`, `dst.*`, `v`, `iEnd`, `typ` -/
theorem PL_advanceIter (k : String) (hk : k ∉ fieldsOf "i" ++ fieldsOf "dst" ++ ["v", "iEnd", "typ"]) :
    PL k goIter_AdvanceIter.body := by
  simp only [fieldsOf, List.mem_append, List.mem_cons, List.not_mem_nil, or_false, not_or, String.reduceAppend] at hk
  obtain ⟨⟨⟨a1, a2, a3, a4, a5⟩, b1, b2, b3, b4, b5⟩, c1, c2, c3⟩ := hk
  have hi : ∀ g ∈ iterFields, "i" ++ "." ++ g ≠ k := by
    intro g hg
    simp only [iterFields, List.mem_cons, List.not_mem_nil, or_false] at hg
    rcases hg with rfl | rfl | rfl | rfl | rfl <;> simp only [String.reduceAppend] <;> exact Ne.symm ‹_›
  have hd : ∀ g ∈ iterFields, "dst" ++ "." ++ g ≠ k := by
    intro g hg
    simp only [iterFields, List.mem_cons, List.not_mem_nil, or_false] at hg
    rcases hg with rfl | rfl | rfl | rfl | rfl <;> simp only [String.reduceAppend] <;> exact Ne.symm ‹_›
  unfold goIter_AdvanceIter
  repeat (first
    | exact PL_nil _
    | apply PL_cons
    | exact PS_assign _ _ (Ne.symm ‹_›)
    | apply PS_ret | exact PS_brk _ | exact PS_cont _
    | exact PS_setLen _ _ (Ne.symm b5)
    | exact PS_copyStruct _ _ hd
    | exact PS_call _ _ _ hi | exact PS_call _ _ _ hd
    | apply PS_ite | apply PS_loop)


/-! ## the element `AdvanceIter` hands out has a 56-bit `cur`

`Iter.MarshalJSONBuffer` needs `cur < 2^63` (GoMarshal: `int(i.cur)`); every element the loop of
`Array.MarshalJSONBuffer` marshals comes out of `AdvanceIter`, whose `cur` is `v & JSONVALUEMASK`. -/

theorem advanceIterLoop_cur (pj : PJ) (i : Iter) (off : Nat) (i1 : Iter)
    (h : Iter.advanceIterLoop pj i off = .ok (i1, true)) : i1.cur.toNat < 2^56 := by
  fun_induction Iter.advanceIterLoop pj i off with
  | case1 i => simp at h
  | case2 i off h1 h2 => cases h
  | case3 i off h1 h2 ih =>
    cases hr : Iter.rdT pj off with
    | ok v =>
      rw [hr] at h
      simp only [Res.bind_ok] at h
      split at h
      · split at h
        · cases h
        · exact ih v h
      · simp only [Res.ok.injEq, Prod.mk.injEq, and_true] at h
        subst h
        exact payload_lt v
    | error e => rw [hr] at h; cases h
    | panic => rw [hr] at h; cases h
    | diverge => rw [hr] at h; cases h

theorem advanceIter_cur (pj : PJ) (i d i2 d2 : Iter) (ty : UInt8) (h : i.advanceIter pj d = .ok (i2, d2, ty)) :
    d2 = d ∨ d2.cur.toNat < 2^56 := by
  unfold Iter.advanceIter at h
  cases hb : i.bump with
  | ok o =>
    rw [hb] at h
    simp only [Res.bind_ok] at h
    cases hl : Iter.advanceIterLoop pj i o with
    | ok r =>
      obtain ⟨i1, live⟩ := r
      rw [hl] at h
      simp only [Res.bind_ok] at h
      cases live with
      | false =>
        simp only [Bool.not_false, if_true, Res.ok.injEq, Prod.mk.injEq] at h
        exact Or.inl h.2.1.symm
      | true =>
        have hc := advanceIterLoop_cur pj i o i1 hl
        obtain ⟨c1, c2, c3, c4⟩ := WalkSafe.calcNext_fields i1 false
        obtain ⟨k1, k2, k3, k4⟩ := WalkSafe.calcNext_fields (i1.calcNext false) true
        simp only [Bool.not_true, Bool.false_eq_true, if_false] at h
        split at h
        · cases h
        · split at h
          · cases h
          · split at h
            · cases h
            · simp only [Res.ok.injEq, Prod.mk.injEq] at h
              obtain ⟨_, rfl, _⟩ := h
              right
              show ((i1.calcNext false).calcNext true).cur.toNat < 2^56
              rw [k3, c3]; exact hc
    | error e => rw [hl] at h; cases h
    | panic => rw [hl] at h; cases h
    | diverge => rw [hl] at h; cases h
  | error e => rw [hb] at h; cases h
  | panic => rw [hb] at h; cases h
  | diverge => rw [hb] at h; cases h


/-! ## the body of `Iter.MarshalJSONBuffer`, with what a CALLER needs of the final store

`GoMarshal.marshal_sim` relates `runFun` to the model and says nothing about the store the function returns in;
`callFun` copies the receiver's fields and the shared buffers back out of that store.  Same assembly as `marshal_sim`
(`pre_run`, `loop_sim`, `tail_run`), keeping `Rep` of the final store; for the error returns `KL_marshal`. -/

def MJSim (pj : PJ) (o : Out) : Res Bytes → Prop
  | .ok out => ∃ e', o = .ret ⟨e', pj.tape⟩ [.bytes out, .bool false] ∧ (∃ j, iterAt e' "i" = some j) ∧
      e'.get "Strings.B" = some (.bytes pj.strings) ∧ e'.get "Message" = some (.bytes pj.msg)
  | .error _ => ∃ st v, o = .ret st [v, .bool true] ∧ ∀ f ∈ iterFields, st.env.get ("i" ++ "." ++ f) ≠ none
  | .panic => o = .panic
  | .diverge => True

theorem initEnv_bound (pj : PJ) (i : Iter) (dst : Bytes) :
    ∀ f ∈ iterFields, (GoMarshal.initEnv pj i dst).get ("i" ++ "." ++ f) ≠ none := by
  intro f hf
  simp only [iterFields, List.mem_cons, List.not_mem_nil, or_false] at hf
  rcases hf with rfl | rfl | rfl | rfl | rfl <;> simp [GoMarshal.initEnv, envOf, Env.get]

theorem mj_exec (pj : PJ) (hb : BufOK pj) (i : Iter) (hl : i.lim ≤ pj.tape.size) (hcur : i.cur.toNat < 2^63)
    (dst : Bytes) (n F : Nat) (hF : n + i.lim + 9 ≤ F) :
    MJSim pj (exec goFuns F goIter_MarshalJSONBuffer.body ⟨GoMarshal.initEnv pj i dst, pj.tape⟩)
      (GoMarshal.marshalBufN pj i dst n) := by
  obtain ⟨e0, hpre, hR0⟩ := GoMarshal.pre_run pj i dst F
  have hI0 : GoMarshal.Inv pj { i := i, stack := #[stackNone], dst := dst } := ⟨hl, hcur, by simp [stackNone]⟩
  have hloop := GoMarshal.loop_sim pj hb n e0 _ F hR0 hI0 hF
  have hk := KL_marshal F ⟨GoMarshal.initEnv pj i dst, pj.tape⟩
  have hbound : ∀ st vs, exec goFuns F goIter_MarshalJSONBuffer.body ⟨GoMarshal.initEnv pj i dst, pj.tape⟩ = .ret st vs →
      ∀ f ∈ iterFields, st.env.get ("i" ++ "." ++ f) ≠ none := by
    intro st vs h f hf
    rw [h] at hk
    exact hk _ (initEnv_bound pj i dst f hf)
  revert hbound
  generalize hgo : exec goFuns F goIter_MarshalJSONBuffer.body ⟨GoMarshal.initEnv pj i dst, pj.tape⟩ = o
  intro hbound
  rw [GoMarshal.fn_eq, exec_append, hpre] at hgo
  simp only [] at hgo
  rw [exec] at hgo
  unfold GoMarshal.marshalBufN
  cases hr : Iter.marshalLoop pj { i := i, stack := #[stackNone], dst := dst } n with
  | ok s' =>
    rw [hr] at hloop
    obtain ⟨e', ho, hR', hI', _⟩ := hloop
    rw [ho] at hgo
    simp only [Res.bind_ok] at hgo ⊢
    obtain ⟨st', ht⟩ := GoMarshal.tail_run e' pj.tape F s'.stack s'.dst hR'.stack hR'.dst
    rw [ht] at hgo
    by_cases hsz : s'.stack.size > 1
    · simp only [hsz, if_true] at hgo ⊢
      exact ⟨_, _, hgo.symm, hbound _ _ hgo.symm⟩
    · simp only [hsz, if_false] at hgo ⊢
      exact ⟨e', hgo.symm, ⟨_, hR'.it⟩, hR'.strs, hR'.msg⟩
  | error er =>
    rw [hr] at hloop
    obtain ⟨st, v, ho⟩ := hloop
    rw [ho] at hgo
    simp only [] at hgo
    exact ⟨st, v, hgo.symm, hbound _ _ hgo.symm⟩
  | panic =>
    rw [hr] at hloop
    simp only [GoMarshal.LoopSim] at hloop
    rw [hloop] at hgo
    exact hgo.symm
  | diverge => trivial


/-! ## the call `dst, err = elem.MarshalJSONBuffer(dst)` from any store holding `elem`, `dst` and the buffers -/

def sMJ : Stmt := .callAssign ["dst", "err"] "elem" "Iter.MarshalJSONBuffer" [] [.v "dst"]

/-- `callFun`'s own code after the callee returned, for a receiver-only callee called on `elem` -/
def backMJ (e : Env) : Out → Out
  | .ret s' rs =>
    (match copyFields s'.env "i" e "elem" iterFields with
     | some e2 => .ret { env := copyGlobals s'.env e2 globalVars, tape := s'.tape } rs
     | none => .stuck "receiver back")
  | .normal s' =>
    (match copyFields s'.env "i" e "elem" iterFields with
     | some e2 => .ret { env := copyGlobals s'.env e2 globalVars, tape := s'.tape } []
     | none => .stuck "receiver back")
  | .brk _ | .cont _ => .stuck "break outside loop"
  | o => o

theorem callFun_mj (pj : PJ) (e : Env) (tape : Array UInt64) (f : Nat) (el : Iter) (d : Bytes)
    (hE : iterAt e "elem" = some el) (hD : e.get "dst" = some (.bytes d))
    (hS : e.get "Strings.B" = some (.bytes pj.strings)) (hM : e.get "Message" = some (.bytes pj.msg)) :
    callFun goFuns f "elem" "Iter.MarshalJSONBuffer" [] [.v "dst"] ⟨e, tape⟩ =
      backMJ e (exec goFuns f goIter_MarshalJSONBuffer.body ⟨GoMarshal.initEnv pj el d, tape⟩) := by
  obtain ⟨d1, d2, d3, d4, d5⟩ := iterAt_get _ _ _ hE
  simp only [String.reduceAppend] at d1 d2 d3 d4 d5
  have hfn : goFuns "Iter.MarshalJSONBuffer" =
      some { recv := "i", params := ["dst"], body := goIter_MarshalJSONBuffer.body } := rfl
  rw [callFun]
  simp [hfn, d1, d2, d3, d4, d5, hD, hS, hM, copyPtrs, copyPtrsBack, copyGlobals, globalVars, copyFields, bindParams,
    evalEs, evalE, iterFields, Env.set, Env.get, envOf, bufEnv, GoMarshal.initEnv, backMJ]
  generalize exec goFuns f _ _ = out
  cases out <;> rfl


/-- the caller's store after `dst, err = elem.MarshalJSONBuffer(dst)` returned `(out, nil)` with the receiver at `j` -/
def afterMJ (e : Env) (pj : PJ) (j : Iter) (out : Bytes) : Env :=
  ((((setIter e "elem" j).set "Strings.B" (.bytes pj.strings)).set "Message" (.bytes pj.msg)).set "dst"
    (.bytes out)).set "err" (.bool false)

/-- what the caller sees of `dst, err = elem.MarshalJSONBuffer(dst)` -/
def MJPost (pj : PJ) (e : Env) (o : Out) : Res Bytes → Prop
  | .ok out => ∃ j, o = .normal ⟨afterMJ e pj j out, pj.tape⟩
  | .error _ => ∃ e' tp, o = .normal ⟨e', tp⟩ ∧ e'.get "err" = some (.bool true)
  | .panic => o = .panic
  | .diverge => True

theorem call_mj (pj : PJ) (hb : BufOK pj) (e : Env) (F : Nat) (el : Iter) (d : Bytes)
    (hE : iterAt e "elem" = some el) (hD : e.get "dst" = some (.bytes d))
    (hS : e.get "Strings.B" = some (.bytes pj.strings)) (hM : e.get "Message" = some (.bytes pj.msg))
    (hl : el.lim ≤ pj.tape.size) (hcur : el.cur.toNat < 2^63) (hF : fuelOf pj + el.lim + 10 ≤ F) :
    MJPost pj e (exec1 goFuns F sMJ ⟨e, pj.tape⟩) (el.marshalBuf pj d) := by
  obtain ⟨f, rfl⟩ : ∃ f, F = f + 1 := ⟨F - 1, by omega⟩
  have hsim := mj_exec pj hb el hl hcur d (fuelOf pj) f (by omega)
  rw [← GoMarshal.marshalBuf_eq] at hsim
  rw [sMJ, exec1, callFun_mj pj e pj.tape f el d hE hD hS hM]
  generalize exec goFuns f goIter_MarshalJSONBuffer.body ⟨GoMarshal.initEnv pj el d, pj.tape⟩ = o at hsim ⊢
  cases hr : el.marshalBuf pj d with
  | ok out =>
    rw [hr] at hsim
    obtain ⟨e', rfl, ⟨j, hj⟩, hS', hM'⟩ := hsim
    obtain ⟨a1, a2, a3, a4, a5⟩ := iterAt_get_i _ _ hj
    refine ⟨j, ?_⟩
    simp [backMJ, copyFields, iterFields, a1, a2, a3, a4, a5, hS', hM', copyGlobals, globalVars, assignTargets, afterMJ,
      setIter]
  | error er =>
    rw [hr] at hsim
    obtain ⟨st, v, rfl, hbnd⟩ := hsim
    obtain ⟨e2, he2, _⟩ := copyFields_defined st.env "i" "elem" iterFields e hbnd
    refine ⟨((copyGlobals st.env e2 globalVars).set "dst" v).set "err" (.bool true), st.tape, ?_, by simp [Env.get_set]⟩
    simp [backMJ, he2, assignTargets]
  | panic =>
    rw [hr] at hsim
    simp only [MJSim] at hsim
    subst hsim
    rfl
  | diverge => trivial


/-! ## `t, err := i.AdvanceIter(&elem)` leaves the shared buffers alone -/

theorem copyGlobals_get_in (from_ : Env) (k : String) (x : Val) (hx : from_.get k = some x) :
    ∀ (gs : List String) (to : Env), k ∈ gs → (copyGlobals from_ to gs).get k = some x := by
  intro gs
  induction gs with
  | nil => intro to h; cases h
  | cons g r ih =>
    intro to hk
    by_cases hr : k ∈ r
    · rw [copyGlobals]
      split
      · exact ih _ hr
      · exact ih _ hr
    · have hg : g = k := by
        rcases List.mem_cons.mp hk with h | h
        · exact h.symm
        · exact absurd h hr
      subst hg
      rw [copyGlobals, hx]
      simp only []
      rw [copyGlobals_get_ne _ _ _ _ hr, Env.get_set_self]

theorem assignTargets_get_ne (k : String) : ∀ (ts : List String) (vs : List Val) (e e' : Env),
    assignTargets ts vs e = some e' → k ∉ ts → e'.get k = e.get k := by
  intro ts
  induction ts with
  | nil =>
    intro vs e e' h _
    cases vs with
    | nil => simp only [assignTargets, Option.some.injEq] at h; subst h; rfl
    | cons v vs => simp [assignTargets] at h
  | cons t ts ih =>
    intro vs e e' h hk
    have h1 : t ≠ k := fun hh => hk (by simp [hh])
    have h2 : k ∉ ts := fun hh => hk (by simp [hh])
    cases vs with
    | nil => simp [assignTargets] at h
    | cons v vs =>
      rw [assignTargets] at h
      split at h
      · exact ih _ _ _ h h2
      · rw [ih _ _ _ h h2, Env.get_set_ne _ _ h1]

theorem callAssign_ai_pres (k : String) (hk : k ∈ globalVars) (e : Env) (tape : Array UInt64) (F : Nat) (i elem : Iter)
    (hI : iterAt e "i" = some i) (hE : iterAt e "elem" = some elem) (x : Val) (hx : e.get k = some x)
    (e' : Env) (tp : Array UInt64)
    (h : exec1 goFuns F (.callAssign ["t", "err"] "i" "Iter.AdvanceIter" ["elem"] [(.bool true)]) ⟨e, tape⟩ =
      .normal ⟨e', tp⟩) : e'.get k = some x := by
  have hk2 : k = "Strings.B" ∨ k = "Message" := by simpa [globalVars] using hk
  cases F with
  | zero => rw [exec1] at h; cases h
  | succ f =>
    rw [exec1, GoPJForEach.callFun_ai e tape f i elem hI hE] at h
    have hp := PL_advanceIter k (by rcases hk2 with rfl | rfl <;> decide) f ⟨GoPJForEach.aiFrame e i elem, tape⟩
    have hfr : (GoPJForEach.aiFrame e i elem).get k = some x := by
      unfold GoPJForEach.aiFrame
      rw [Env.get_set_ne _ _ (by rcases hk2 with rfl | rfl <;> decide)]
      exact copyGlobals_get_in _ _ _ hx _ _ hk
    generalize exec goFuns f goIter_AdvanceIter.body ⟨GoPJForEach.aiFrame e i elem, tape⟩ = out at h hp
    have key : ∀ (s' : St) (rs : List Val), s'.env.get k = some x →
        (match (match copyFields s'.env "i" e "i" ["off", "addNext", "cur", "t", "lim"] with
          | some e2 =>
            (match copyPtrsBack s'.env e2 ["elem"] [("dst", ["off", "addNext", "cur", "t", "lim"])] with
             | some e3 => Out.ret { env := copyGlobals s'.env e3 globalVars, tape := s'.tape } rs
             | none => .stuck "pointer arguments back")
          | none => .stuck "receiver back") with
         | .ret s'' vs =>
           (match assignTargets ["t", "err"] vs s''.env with
            | some e => Out.normal { s'' with env := e }
            | none => .stuck "result arity")
         | o => o) = .normal ⟨e', tp⟩ → e'.get k = some x := by
      intro s' rs hs hh
      split at hh
      · next s'' vs heq =>
        split at hh
        · next e4 he4 =>
          injection hh with hh
          injection hh with hh1 hh2
          subst hh1
          rw [assignTargets_get_ne k _ _ _ _ he4 (by rcases hk2 with rfl | rfl <;> decide)]
          split at heq
          · split at heq
            · injection heq with h1 h2
              subst h1
              exact copyGlobals_get_in _ _ _ hs _ _ hk
            · cases heq
          · cases heq
        · cases hh
      · next o hno =>
        split at hh
        · split at hh
          · cases hh
          · cases hh
        · cases hh
    cases out with
    | ret s' rs => exact key s' rs (hp.trans hfr) h
    | normal s' => exact key s' [] (hp.trans hfr) h
    | brk _ => cases h
    | cont _ => cases h
    | panic => cases h
    | diverge => cases h
    | stuck _ => cases h


/-! ## `MarshalJSONBuffer` only appends to `dst`

The hand model `View.arrMarshal` has no destination parameter (it starts from `#[91]`, i.e. it is `a.MarshalJSON()` =
`a.MarshalJSONBuffer(nil)`); the Go function appends to the `dst` it is given.  `marshalBuf_prefix` /
`arrMarshalLoop_prefix`: the bytes already in `dst` are carried along unread. -/

def pre (p : Bytes) (s : MState) : MState := { s with dst := p ++ s.dst }
def preS (p : Bytes) : MState ⊕ MState → MState ⊕ MState
  | .inl s => .inl (pre p s)
  | .inr s => .inr (pre p s)

theorem escapeBytes_prefix (p d src : Bytes) : escapeBytes (p ++ d) src = p ++ escapeBytes d src := by
  unfold escapeBytes
  rw [← Array.foldl_toList, ← Array.foldl_toList]
  generalize src.toList = l
  induction l generalizing d with
  | nil => rfl
  | cons b r ih => simp only [List.foldl_cons, Array.append_assoc]; exact ih _

theorem quoted_prefix (p d sb : Bytes) : Iter.quoted (p ++ d) sb = p ++ Iter.quoted d sb := by
  unfold Iter.quoted
  rw [← Array.append_push, escapeBytes_prefix, Array.append_push]

theorem marshalPost_prefix (pj : PJ) (p : Bytes) (s : MState) :
    Iter.marshalPost pj (pre p s) = (Iter.marshalPost pj s >>= fun r => .ok (r.map (pre p))) := by
  unfold Iter.marshalPost
  show (do let nt ← s.i.peekNextTag pj; _) = _
  cases s.i.peekNextTag pj with
  | ok nt =>
    simp only [Res.bind_ok]
    split
    · rfl
    · show (do let x ← s.i.advanceInto pj; _) = _
      cases s.i.advanceInto pj with
      | ok r =>
        obtain ⟨i, t⟩ := r
        simp only [Res.bind_ok, Option.map, pre]
        congr 2
        simp only [MState.mk.injEq, true_and]
        by_cases h1 : (s.stack.back! == stackArray) = true <;> by_cases h2 : (i.t == Generated.tagArrayEnd) = true <;>
          by_cases h3 : (s.stack.back! == stackObject) = true <;> by_cases h4 : (i.t == Generated.tagObjectEnd) = true <;>
          simp only [h1, h2, h3, h4, if_true, if_false, Bool.false_eq_true, Array.append_push]
      | error e => rfl
      | panic => rfl
      | diverge => rfl
  | error e => rfl
  | panic => rfl
  | diverge => rfl


theorem contF_prefix (pj : PJ) (p : Bytes) (s : MState) (done : Bool) :
    WalkSafe.contF pj (pre p s) done = (WalkSafe.contF pj s done >>= fun r => .ok (preS p r)) := by
  unfold WalkSafe.contF
  by_cases h : done = true ∧ (s.stack.size == 1) = true
  · have h' : done = true ∧ ((pre p s).stack.size == 1) = true := h
    simp only [h, h', and_self, if_true]
    rfl
  · have h' : ¬ (done = true ∧ ((pre p s).stack.size == 1) = true) := h
    simp only [h, h', if_false]
    rw [marshalPost_prefix]
    cases Iter.marshalPost pj s with
    | ok r => cases r <;> rfl
    | error e => rfl
    | panic => rfl
    | diverge => rfl

theorem keyPart_prefix (pj : PJ) (p : Bytes) (s : MState) :
    WalkSafe.keyPart pj (pre p s) = (WalkSafe.keyPart pj s >>= fun r => .ok (pre p r)) := by
  unfold WalkSafe.keyPart
  by_cases h : (s.stack.back! == stackObject) = true ∧ (s.i.t != Generated.tagObjectEnd) = true
  · have h' : ((pre p s).stack.back! == stackObject) = true ∧ ((pre p s).i.t != Generated.tagObjectEnd) = true := h
    simp only [h, h', and_self, if_true]
    show (do let sb ← s.i.stringBytes pj; _) = _
    cases s.i.stringBytes pj with
    | ok sb =>
      simp only [Res.bind_ok]
      show (do let nt ← s.i.peekNextTag pj; _) = _
      cases s.i.peekNextTag pj with
      | ok nt =>
        simp only [Res.bind_ok]
        split
        · rfl
        · show (do let x ← s.i.advanceInto pj; _) = _
          cases s.i.advanceInto pj with
          | ok r =>
            obtain ⟨i, t⟩ := r
            simp only [Res.bind_ok, pre, quoted_prefix, Array.append_push]
          | error e => rfl
          | panic => rfl
          | diverge => rfl
      | error e => rfl
      | panic => rfl
      | diverge => rfl
    | error e => rfl
    | panic => rfl
    | diverge => rfl
  · have h' : ¬ (((pre p s).stack.back! == stackObject) = true ∧ ((pre p s).i.t != Generated.tagObjectEnd) = true) := h
    simp only [h, h', if_false]
    rfl


theorem body_prefix (pj : PJ) (p : Bytes) (s : MState) :
    WalkSafe.body pj (pre p s) = (WalkSafe.body pj s >>= fun r => .ok (preS p r)) := by
  have hc : ∀ (i : Iter) (st : Array UInt8) (d : Bytes) (done : Bool),
      WalkSafe.contF pj { i := i, stack := st, dst := p ++ d } done =
        (WalkSafe.contF pj { i := i, stack := st, dst := d } done >>= fun r => .ok (preS p r)) :=
    fun i st d done => contF_prefix pj p { i := i, stack := st, dst := d } done
  have hadv : ∀ (j : Iter) (st : Array UInt8) (d : Bytes),
      (do let x ← j.advanceInto pj; Res.ok (Sum.inl ({ i := x.fst, stack := st, dst := p ++ d } : MState)) :
        Res (MState ⊕ MState)) =
      ((do let x ← j.advanceInto pj; Res.ok (Sum.inl ({ i := x.fst, stack := st, dst := d } : MState))) >>=
        fun r => .ok (preS p r)) := by
    intro j st d
    cases j.advanceInto pj <;> rfl
  unfold WalkSafe.body
  simp only [pre]
  by_cases h1 : (s.i.t == Generated.tagRoot) = true
  · simp only [h1, if_true]
    by_cases h2 : s.stack.size > 1
    · simp only [h2, if_true]
      by_cases h3 : (s.i.cur.toNat : Int) > s.i.off
      · simp only [decide_eq_true_eq, h3, if_true]; rfl
      · simp only [decide_eq_true_eq, h3, Bool.false_eq_true, if_false]
        by_cases h4 : (s.stack.back! == stackRoot) = true
        · simp only [h4, if_true]
          cases s.i.peekNextTag pj with
          | ok nt =>
            simp only [Res.bind_ok]
            by_cases h5 : (nt != Generated.tagEnd) = true
            · simp only [h5, if_true, ← Array.append_push]; exact hc _ _ _ _
            · simp only [h5, Bool.false_eq_true, if_false]; exact hc _ _ _ _
          | error e => rfl
          | panic => rfl
          | diverge => rfl
        · simp only [h4, Bool.false_eq_true, if_false]
          by_cases h5 : (s.stack.back! == stackNone) = true
          · simp only [h5, if_true]; rfl
          · simp only [h5, Bool.false_eq_true, if_false]; rfl
    · simp only [h2, Bool.false_eq_true, if_false]
      exact hadv _ _ _
  simp only [h1, Bool.false_eq_true, if_false]
  by_cases h2 : (s.i.t == Generated.tagString) = true
  · simp only [h2, if_true]
    cases s.i.stringBytes pj with
    | ok sb => simp only [Res.bind_ok, quoted_prefix]; exact hc _ _ _ _
    | error e => rfl
    | panic => rfl
    | diverge => rfl
  simp only [h2, Bool.false_eq_true, if_false]
  by_cases h3 : (s.i.t == Generated.tagInteger) = true
  · simp only [h3, if_true]
    cases s.i.int pj with
    | ok v => simp only [Res.bind_ok, Array.append_assoc]; exact hc _ _ _ _
    | error e => rfl
    | panic => rfl
    | diverge => rfl
  simp only [h3, Bool.false_eq_true, if_false]
  by_cases h4 : (s.i.t == Generated.tagUint) = true
  · simp only [h4, if_true]
    cases s.i.uint pj with
    | ok v => simp only [Res.bind_ok, Array.append_assoc]; exact hc _ _ _ _
    | error e => rfl
    | panic => rfl
    | diverge => rfl
  simp only [h4, Bool.false_eq_true, if_false]
  by_cases h5 : (s.i.t == Generated.tagFloat) = true
  · simp only [h5, if_true]
    cases s.i.float pj with
    | ok v =>
      simp only [Res.bind_ok]
      cases FloatFmt.appendFloat v with
      | none => rfl
      | some b => simp only [Array.append_assoc]; exact hc _ _ _ _
    | error e => rfl
    | panic => rfl
    | diverge => rfl
  simp only [h5, Bool.false_eq_true, if_false]
  by_cases h6 : (s.i.t == Generated.tagNull) = true
  · simp only [h6, if_true, Array.append_assoc]; exact hc _ _ _ _
  simp only [h6, Bool.false_eq_true, if_false]
  by_cases h7 : (s.i.t == Generated.tagBoolTrue) = true
  · simp only [h7, if_true, Array.append_assoc]; exact hc _ _ _ _
  simp only [h7, Bool.false_eq_true, if_false]
  by_cases h8 : (s.i.t == Generated.tagBoolFalse) = true
  · simp only [h8, if_true, Array.append_assoc]; exact hc _ _ _ _
  simp only [h8, Bool.false_eq_true, if_false]
  by_cases h9 : (s.i.t == Generated.tagObjectStart) = true
  · simp only [h9, if_true, ← Array.append_push]; exact hadv _ _ _
  simp only [h9, Bool.false_eq_true, if_false]
  by_cases h10 : (s.i.t == Generated.tagObjectEnd) = true
  · simp only [h10, if_true]
    by_cases hh : (s.stack.back! != stackObject) = true
    · simp only [hh, if_true]; rfl
    · simp only [hh, Bool.false_eq_true, if_false, ← Array.append_push]; exact hc _ _ _ _
  simp only [h10, Bool.false_eq_true, if_false]
  by_cases h11 : (s.i.t == Generated.tagArrayStart) = true
  · simp only [h11, if_true, ← Array.append_push]; exact hadv _ _ _
  simp only [h11, Bool.false_eq_true, if_false]
  by_cases h12 : (s.i.t == Generated.tagArrayEnd) = true
  · simp only [h12, if_true]
    by_cases hh : (s.stack.back! != stackArray) = true
    · simp only [hh, if_true]; rfl
    · simp only [hh, Bool.false_eq_true, if_false, ← Array.append_push]; exact hc _ _ _ _
  simp only [h12, Bool.false_eq_true, if_false]
  by_cases h13 : (s.i.t == Generated.tagEnd) = true
  · simp only [h13, if_true]
    cases s.i.peekNextTag pj with
    | ok nt =>
      simp only [Res.bind_ok]
      by_cases hh : (nt == Generated.tagEnd) = true
      · simp only [hh, if_true]; rfl
      · simp only [hh, Bool.false_eq_true, if_false]; exact hadv _ _ _
    | error e => rfl
    | panic => rfl
    | diverge => rfl
  simp only [h13, Bool.false_eq_true, if_false]
  exact hc _ _ _ _


theorem marshalStep_prefix (pj : PJ) (p : Bytes) (s : MState) :
    Iter.marshalStep pj (pre p s) = (Iter.marshalStep pj s >>= fun r => .ok (preS p r)) := by
  rw [WalkSafe.marshalStep_eq, WalkSafe.marshalStep_eq, keyPart_prefix]
  cases WalkSafe.keyPart pj s with
  | ok s1 => simp only [Res.bind_ok]; exact body_prefix pj p s1
  | error e => rfl
  | panic => rfl
  | diverge => rfl

theorem marshalLoop_prefix (pj : PJ) (p : Bytes) : ∀ (n : Nat) (s : MState),
    Iter.marshalLoop pj (pre p s) n = (Iter.marshalLoop pj s n >>= fun r => .ok (pre p r)) := by
  intro n
  induction n with
  | zero => intro s; rfl
  | succ n ih =>
    intro s
    rw [Iter.marshalLoop, Iter.marshalLoop, marshalStep_prefix]
    cases Iter.marshalStep pj s with
    | ok r =>
      cases r with
      | inl s' => simp only [Res.bind_ok, preS]; exact ih s'
      | inr s' => rfl
    | error e => rfl
    | panic => rfl
    | diverge => rfl

/-- `MarshalJSONBuffer` only appends: what is already in `dst` is a prefix of the result and influences nothing -/
theorem marshalBuf_prefix (pj : PJ) (i : Iter) (p d : Bytes) :
    i.marshalBuf pj (p ++ d) = (i.marshalBuf pj d >>= fun o => .ok (p ++ o)) := by
  unfold Iter.marshalBuf
  have h := marshalLoop_prefix pj p (fuelOf pj) { i := i, stack := #[stackNone], dst := d }
  simp only [pre] at h
  rw [h]
  cases Iter.marshalLoop pj { i := i, stack := #[stackNone], dst := d } (fuelOf pj) with
  | ok s' =>
    simp only [Res.bind_ok]
    split <;> rfl
  | error e => rfl
  | panic => rfl
  | diverge => rfl


theorem arrMarshalLoop_prefix (pj : PJ) (p : Bytes) : ∀ (n : Nat) (i : Iter) (d : Bytes),
    View.arrMarshalLoop pj i (p ++ d) n = (View.arrMarshalLoop pj i d n >>= fun r => .ok (r.1, p ++ r.2)) := by
  intro n
  induction n with
  | zero => intro i d; rfl
  | succ n ih =>
    intro i d
    rw [View.arrMarshalLoop, View.arrMarshalLoop]
    cases i.peekNextTag pj with
    | ok nt0 =>
      simp only [Res.bind_ok]
      split
      · rfl
      · cases i.advanceIter pj default with
        | ok r =>
          obtain ⟨i', el, t⟩ := r
          simp only [Res.bind_ok]
          split
          · rfl
          · rw [marshalBuf_prefix]
            cases el.marshalBuf pj d with
            | ok o =>
              simp only [Res.bind_ok]
              cases i'.peekNextTag pj with
              | ok nt =>
                simp only [Res.bind_ok]
                split
                · rfl
                · rw [← Array.append_push]; exact ih i' _
              | error e => rfl
              | panic => rfl
              | diverge => rfl
            | error e => rfl
            | panic => rfl
            | diverge => rfl
        | error e => rfl
        | panic => rfl
        | diverge => rfl
    | error e => rfl
    | panic => rfl
    | diverge => rfl

end SJ.GoArrMarshal
