import SJ.Proofs.MachineSimWalk
set_option linter.unusedVariables false
set_option linter.unusedSimpArgs false
/-
C01 / C02 / C08 at the level of the models: the two-stage parser model (`parseMsg` = stage 1 + index buffers + stage 2)
accepts exactly the RFC 8259 container texts (`Spec.containerText`, resp. `Spec.ndText` line by line) and the ghost
document it builds is the value the grammar assigns.  The lexical facts (`ScanFacts`, `StrFacts`, `RoundsFacts`) are
hypotheses here; they are proved in `ScanLex`, `StrLex`, `Rounds`.
-/
namespace SJ.ParseSpec
open SJ SJ.ParseDefs SJ.Layout SJ.TokenSim SJ.MachineSim SJ.Generated

/-- no JSON white space at either end (what `bytes.TrimSpace` leaves) -/
def Trimmed (msg : Bytes) : Prop :=
  msg.size = 0 ∨ (Spec.isWs (msg.getD 0 0) = false ∧ Spec.isWs (msg.getD (msg.size - 1) 0) = false)

/-- the environment of one message -/
def mkEnv (SF : ∀ nd msg, ScanFacts nd msg) (STR : StrFacts) (RF : RoundsFacts) (cfg : Cfg) (nd : Bool) (msg : Bytes)
    (hsz : SizeOK msg) : Env :=
  { nd := nd, msg := msg, cfg := cfg, L := pairsOf (rounds msg (indices nd msg).toArray), SF := SF nd msg, STR := STR,
    PK := RF.peekOK msg (emit nd msg), hsz := hsz }

theorem stage2_eq (cfg : Cfg) (buf : Bytes) (bufs : Array (Array Nat)) :
    stage2 cfg buf bufs = (runM cfg buf M.init (pairsOf bufs)).bind M.finish := by
  unfold stage2
  cases runM cfg buf M.init (pairsOf bufs) <;> rfl

theorem init_root (E : Env) : RootSt E M.init {} 0 (ent 0 cretAddressStartConst) := by
  refine ⟨Or.inl rfl, rfl, ?_, ?_, fun _ => rfl⟩
  · rw [ent_loc (by decide) (by decide)]; decide
  · show 1 ≤ _; omega

theorem cnt_zero (E : Env) : E.c 0 = 0 := rfl
theorem err_zero (E : Env) : E.err 0 = false := rfl

/-- what a successful stage 1 gives -/
theorem glob_of_stage1 (E : Env) (idx : Array Nat) (h : stage1 E.nd E.msg = some idx) :
    Glob E ∧ idx = (indices E.nd E.msg).toArray := by
  obtain ⟨h1, h2, h3, h4, h5, h6⟩ := (E.SF.stage1_iff idx).mp h
  refine ⟨⟨h4, h5, h6⟩, ?_⟩
  rw [← h1]

theorem reject_of_dead (E : Env) (hL : E.L = pairsOf (rounds E.msg (indices E.nd E.msg).toArray))
    (hd : Dead E M.init 0) : parseMsg E.cfg E.nd E.msg = none := by
  unfold parseMsg
  cases hs : stage1 E.nd E.msg with
  | none => rfl
  | some idx =>
    obtain ⟨G, hidx⟩ := glob_of_stage1 E idx hs
    dsimp only
    rw [stage2_eq, hidx, ← hL]
    have := hd G
    rw [List.drop_zero] at this
    exact this

theorem reject_of_noidx (E : Env) (h : E.c E.msg.size = 0) : parseMsg E.cfg E.nd E.msg = none := by
  unfold parseMsg
  cases hs : stage1 E.nd E.msg with
  | none => rfl
  | some idx =>
    exfalso
    obtain ⟨h1, h2, h3, h4, h5, h6⟩ := (E.SF.stage1_iff idx).mp hs
    apply h3
    have : (indices E.nd E.msg).length = 0 := by rw [← E.SF.cnt_size]; exact h
    exact List.length_eq_zero_iff.mp this

theorem finish_ok (m : M) (x : UInt64) (hs : m.stack = [x]) (hx : locOf x < m.tape.size) : ∃ m2, m.finish = some m2 := by
  unfold M.finish
  rw [hs]
  simp only
  have hlt : (x >>> UInt64.ofNat cretAddressShift).toNat < (({ m with stack := [] } : M)).tape.size := hx
  simp only [M.annotate, dif_pos hlt]
  exact ⟨_, rfl⟩

/-- the whole message as a window -/
theorem win_all (E : Env) (hnd : E.nd = false) : Win E 0 E.msg.size :=
  ⟨Nat.zero_le _, Nat.le_refl _, Or.inl rfl, fun h => by rw [hnd] at h; cases h⟩

theorem seg_all (E : Env) : E.seg E.msg.size 0 = E.msg.toList := by
  rw [seg_full, List.drop_zero]

/-- what acceptance needs: stage 1 succeeds, the run over all pairs ends in a state `finish` accepts -/
theorem accept_of_run (E : Env) (hL : E.L = pairsOf (rounds E.msg (indices E.nd E.msg).toArray)) {m' : M} {g : Ghost}
    {ent0' : UInt64} (hrun : run E M.init {} 0 = run E m' g (E.c E.msg.size)) (hs : m'.stack = [ent0'])
    (hok : StkOK m') (hr : E.Rdy E.msg.size) (herr : E.err E.msg.size = false) (hlast : LastClose E E.msg.size) :
    ∃ idx m, stage1 E.nd E.msg = some idx ∧
      runMG E.cfg E.msg M.init {} (pairsOf (rounds E.msg idx)) = some (m', g) ∧ m'.finish = some m ∧
      parseMsg E.cfg E.nd E.msg = some m := by
  obtain ⟨qc, c1, c2, c3, c4, c5⟩ := hlast
  have hidx := E.SF.idx_at qc c2 c3
  have hlen : (indices E.nd E.msg).length = E.c qc + 1 := by rw [← E.SF.cnt_size]; exact c5
  have hs1 : stage1 E.nd E.msg = some (indices E.nd E.msg).toArray := by
    apply (E.SF.stage1_iff _).mpr
    refine ⟨by simp, by omega, ?_, herr, hr.notQ, ?_⟩
    · intro h; rw [h] at hlen; simp at hlen
    · rw [getLastD_of_get _ _ _ 0 hidx hlen]
      exact c4
  obtain ⟨m2, hm2⟩ := finish_ok m' ent0' hs (hok ent0' (by rw [hs]; simp))
  have hrunL : runMG E.cfg E.msg M.init {} E.L = some (m', g) := by
    have := hrun
    unfold run at this
    rw [List.drop_zero, drop_end] at this
    rw [this]; rfl
  refine ⟨_, m2, hs1, by rw [← hL]; exact hrunL, hm2, ?_⟩
  unfold parseMsg
  rw [hs1]
  dsimp only
  rw [stage2_eq, ← hL, ← runMG_fst E.cfg E.msg E.L M.init {}, hrunL]
  exact hm2

theorem accepts_env (E : Env) (hnd : E.nd = false) (hL : E.L = pairsOf (rounds E.msg (indices E.nd E.msg).toArray))
    (v : Spec.JVal) (h : Spec.containerText E.msg.toList = .accept v) :
    ∃ idx m' g m, stage1 E.nd E.msg = some idx ∧
      runMG E.cfg E.msg M.init {} (pairsOf (rounds E.msg idx)) = some (m', g) ∧ m'.finish = some m ∧
      parseMsg E.cfg E.nd E.msg = some m ∧ ∃ lv, g.roots = [lv] ∧ erase lv = ofSpec v := by
  have W := win_all E hnd
  rcases line_sim W E.SF.ready0 (init_root E) with ⟨h1, _⟩ | ⟨_, h2⟩
  · exfalso
    rw [seg_all] at h1
    unfold Spec.containerText at h
    rw [h1] at h
    cases h
  · rw [seg_all, h] at h2
    obtain ⟨m', lv, ent0', k1, k2, k3, k4, k5, k6, k7, k8, k9, k10⟩ := h2
    have hrg : rootGhost M.init {} = {} := by
      unfold rootGhost; exact if_pos (show M.init.st = St.rootStart from rfl)
    rw [hrg] at k1
    obtain ⟨idx, m, r1, r2, r3, r4⟩ := accept_of_run E hL k1 k6 k7 k3 (by rw [k4]; rfl) k10
    exact ⟨idx, m', _, m, r1, r2, r3, r4, lv, rfl, k2⟩

theorem rejects_env (E : Env) (hnd : E.nd = false) (hL : E.L = pairsOf (rounds E.msg (indices E.nd E.msg).toArray))
    (h : Spec.containerText E.msg.toList = .reject) : parseMsg E.cfg E.nd E.msg = none := by
  have W := win_all E hnd
  rcases line_sim W E.SF.ready0 (init_root E) with ⟨_, _, h1, _⟩ | ⟨_, h2⟩
  · exact reject_of_noidx E h1
  · rw [seg_all, h] at h2
    exact reject_of_dead E hL h2

theorem parseMsg_accepts (SF : ∀ nd msg, ScanFacts nd msg) (STR : StrFacts) (RF : RoundsFacts)
    (cfg : Cfg) (msg : Bytes) (hsz : SizeOK msg) (v : Spec.JVal)
    (h : Spec.containerText msg.toList = .accept v) :
    ∃ idx m' g m, stage1 false msg = some idx ∧
      runMG cfg msg M.init {} (pairsOf (rounds msg idx)) = some (m', g) ∧ m'.finish = some m ∧
      parseMsg cfg false msg = some m ∧ ∃ lv, g.roots = [lv] ∧ erase lv = ofSpec v :=
  accepts_env (mkEnv SF STR RF cfg false msg hsz) rfl rfl v h

theorem parseMsg_rejects (SF : ∀ nd msg, ScanFacts nd msg) (STR : StrFacts) (RF : RoundsFacts)
    (cfg : Cfg) (msg : Bytes) (hsz : SizeOK msg)
    (h : Spec.containerText msg.toList = .reject) : parseMsg cfg false msg = none :=
  rejects_env (mkEnv SF STR RF cfg false msg hsz) rfl rfl h

/-! ## ND mode -/

theorem ndText_eq (E : Env) :
    Spec.ndText E.msg.toList =
      if (nbLines E 0).isEmpty then .reject else Spec.ndText.go (nbLines E 0) [] false := by
  unfold Spec.ndText nbLines
  rw [splitLines_eq, List.drop_zero]

theorem nbLines_ne_nil (E : Env) (hnd : E.nd = true) (hs : 0 < E.msg.size) (hw : Spec.isWs (E.b 0) = false) :
    nbLines E 0 ≠ [] := by
  obtain ⟨e, W⟩ := exists_win hnd _ 0 rfl (Nat.zero_le _)
  rw [nbLines_win W hnd]
  have he : 0 < e := by
    apply Nat.pos_of_ne_zero
    intro h0
    rcases W.stop with h | ⟨_, h⟩
    · omega
    · rw [h0] at h; rw [h, ws_nl] at hw; cases hw
  have : Spec.skipWs (E.seg e 0) ≠ [] := by
    rw [seg_cons he W.he, skipWs_cons, if_neg (by rw [hw]; simp)]
    exact List.cons_ne_nil _ _
  rw [if_neg this]
  simp

theorem nd_top (E : Env) (hnd : E.nd = true) (OW : OutsideWalk E) (hs : 0 < E.msg.size)
    (hw0 : Spec.isWs (E.b 0) = false) (hw1 : Spec.isWs (E.b (E.msg.size - 1)) = false) :
    NDRes E 0 M.init {} (Spec.ndText E.msg.toList) := by
  rw [ndText_eq]
  have hne := nbLines_ne_nil E hnd hs hw0
  have : (nbLines E 0).isEmpty = false := by
    cases h : nbLines E 0 with
    | nil => exact absurd h hne
    | cons _ _ => rfl
  rw [this]
  simp only [Bool.false_eq_true, if_false]
  exact nd_sim hnd OW ⟨hs, hw1⟩ _ 0 M.init {} _ [] false rfl hs E.SF.ready0 (init_root E)
    (fun _ => ⟨hw0, rfl⟩) (fun _ => rfl)

theorem ndText_nil : Spec.ndText [] = .reject := rfl

theorem nd_accepts_env (E : Env) (hnd : E.nd = true) (OW : OutsideWalk E)
    (hL : E.L = pairsOf (rounds E.msg (indices E.nd E.msg).toArray)) (ht : Trimmed E.msg)
    (vs : List Spec.JVal) (h : Spec.ndText E.msg.toList = .accept (.arr vs)) :
    ∃ idx m' g m, stage1 E.nd E.msg = some idx ∧
      runMG E.cfg E.msg M.init {} (pairsOf (rounds E.msg idx)) = some (m', g) ∧ m'.finish = some m ∧
      parseMsg E.cfg E.nd E.msg = some m ∧ g.roots.map erase = vs.map ofSpec := by
  rcases ht with h0 | ⟨hw0, hw1⟩
  · exfalso
    have : E.msg.toList = [] := by
      apply List.eq_nil_of_length_eq_zero; simpa using h0
    rw [this, ndText_nil] at h
    cases h
  · have hs : 0 < E.msg.size := by
      apply Nat.pos_of_ne_zero
      intro h0
      have : E.msg.toList = [] := by
        apply List.eq_nil_of_length_eq_zero; simpa using h0
      rw [this, ndText_nil] at h
      cases h
    have hres := nd_top E hnd OW hs hw0 hw1
    rw [h] at hres
    obtain ⟨m', g', ent', k1, k2, k3, k4, k5, k6, vs', k7, k8⟩ := hres
    have hvs : vs = vs' := by injection k7
    subst hvs
    obtain ⟨idx, m, r1, r2, r3, r4⟩ := accept_of_run E hL k1 k2 k3 k4 (by rw [k5]; rfl) k6
    exact ⟨idx, m', g', m, r1, r2, r3, r4, k8⟩

theorem nd_rejects_env (E : Env) (hnd : E.nd = true) (OW : OutsideWalk E)
    (hL : E.L = pairsOf (rounds E.msg (indices E.nd E.msg).toArray)) (ht : Trimmed E.msg)
    (h : Spec.ndText E.msg.toList = .reject) : parseMsg E.cfg E.nd E.msg = none := by
  rcases ht with h0 | ⟨hw0, hw1⟩
  · unfold parseMsg
    cases hs : stage1 E.nd E.msg with
    | none => rfl
    | some idx =>
      exfalso
      obtain ⟨_, h2, _⟩ := (E.SF.stage1_iff idx).mp hs
      exact h2 h0
  · by_cases hs : 0 < E.msg.size
    · have hres := nd_top E hnd OW hs hw0 hw1
      rw [h] at hres
      exact reject_of_dead E hL hres
    · unfold parseMsg
      cases hs1 : stage1 E.nd E.msg with
      | none => rfl
      | some idx =>
        exfalso
        obtain ⟨_, h2, _⟩ := (E.SF.stage1_iff idx).mp hs1
        omega

theorem parseMsgND_accepts (SF : ∀ nd msg, ScanFacts nd msg) (STR : StrFacts) (RF : RoundsFacts)
    (cfg : Cfg) (msg : Bytes) (hsz : SizeOK msg) (ht : Trimmed msg)
    (vs : List Spec.JVal) (h : Spec.ndText msg.toList = .accept (.arr vs)) :
    ∃ idx m' g m, stage1 true msg = some idx ∧
      runMG cfg msg M.init {} (pairsOf (rounds msg idx)) = some (m', g) ∧ m'.finish = some m ∧
      parseMsg cfg true msg = some m ∧ g.roots.map erase = vs.map ofSpec :=
  nd_accepts_env (mkEnv SF STR RF cfg true msg hsz) rfl (outsideWalk _) rfl ht vs h

theorem parseMsgND_rejects (SF : ∀ nd msg, ScanFacts nd msg) (STR : StrFacts) (RF : RoundsFacts)
    (cfg : Cfg) (msg : Bytes) (hsz : SizeOK msg) (ht : Trimmed msg)
    (h : Spec.ndText msg.toList = .reject) : parseMsg cfg true msg = none :=
  nd_rejects_env (mkEnv SF STR RF cfg true msg hsz) rfl (outsideWalk _) rfl ht h

end SJ.ParseSpec
