import SJ.Proofs.RenderParseBase
/-
Helpers of `SJ/Proofs/RenderParse.lean`: the number leaves.  What the marshaller prints for an `int`, a `uint`
and (given `FloatRT`) a finite `float` is read by `Spec.value` as a number that is numerically the same
(`NumSame`) and that prints the same again (`NumRT`).
-/
set_option linter.unusedVariables false
set_option linter.unusedSimpArgs false
namespace SJ.RenderParse
open SJ SJ.Layout SJ.MarshalExact SJ.ParseDefs SJ.Tables
open SJ.NumberProofs (Lit sgn Dig NoCont)
open SJ.FloatFmtProofs (natDigits litValue natDigits_spec natToAscii_toList)

/-- numerically the same, and (unless the leaf is `-0.0`) printing the same text again -/
def NumRT (v : JVal) (n : Spec.Num) : Prop := NumSame v n ∧ (NoNegZero v → renderJ (ofNum n) = renderJ v)

/-! ## 1. A strict literal in value position -/

theorem num_start : ∀ c : UInt8, (c = 45 ∨ Spec.isDigit c = true) →
    (c == 0x7B) = false ∧ (c == 0x5B) = false ∧ (c == 0x22) = false ∧ (c == 0x74) = false ∧ (c == 0x66) = false ∧
      (c == 0x6E) = false ∧ ((c == 0x2D) = true ∨ Spec.isDigit c = true) :=
  forall_u8 (by decide +kernel)

theorem lit_head (x : Lit) (hx : x.Strict) (rest : List UInt8) :
    ∃ c t, x.render ++ rest = c :: t ∧ (c = 45 ∨ Spec.isDigit c = true) := by
  obtain ⟨neg, ip, fp, ex⟩ := x
  obtain ⟨hdig, hne, _, _, _⟩ := hx
  simp only at hdig hne
  cases neg with
  | true => exact ⟨45, _, rfl, Or.inl rfl⟩
  | false =>
    cases ip with
    | nil => exact absurd rfl hne
    | cons a ip' =>
      refine ⟨a, ip' ++ (NumberProofs.fracPart fp ++ NumberProofs.expPart ex) ++ rest, ?_, Or.inr (hdig a (by simp))⟩
      simp [Lit.render, sgn]

/-- a strict number literal followed by something that cannot continue a number, in value position -/
theorem value_lit (x : Lit) (hx : x.Strict) (rest : List UInt8) (hr : NoCont rest) (fuel : Nat) :
    Spec.value (fuel + 1) (x.render ++ rest) =
      match Spec.numValue x.toNumLit with
      | some n => .acc (.num n) rest
      | none => .rej := by
  obtain ⟨c, t, hct, hc⟩ := lit_head x hx rest
  obtain ⟨e1, e2, e3, e4, e5, e6, e7⟩ := num_start c hc
  have hlit := NumberProofs.spec_of_shape hx hr
  rw [hct] at hlit ⊢
  rw [Spec.value]
  simp only [e1, e2, e3, e4, e5, e6, Bool.false_eq_true, if_false, if_pos e7, hlit]
  rfl

/-! ## 2. Integers -/

theorem digitChar_sub : ∀ b : UInt8, Spec.isDigit b = true → FloatFmt.digitChar (b.toNat - 48) = b ∧ b.toNat - 48 < 10 :=
  forall_u8 (by decide +kernel)

/-- a digit string without a superfluous leading zero is the decimal text of its value -/
theorem natDigits_digitsVal : ∀ (n : Nat) (ip : List UInt8), ip.length = n →
    (∀ d ∈ ip, Spec.isDigit d = true) → ip ≠ [] → ¬ (ip.length > 1 ∧ ip.head? = some 48) →
    natDigits (Spec.digitsVal ip) = ip := by
  intro n
  induction n with
  | zero => intro ip hl _ hne; exact absurd (List.eq_nil_of_length_eq_zero hl) hne
  | succ n ih =>
    intro ip hl hdig hne hnlz
    rcases List.eq_nil_or_concat ip with rfl | ⟨L, b, rfl⟩
    · exact absurd rfl hne
    · rw [List.concat_eq_append] at hl hdig hnlz ⊢
      have hb := digitChar_sub b (hdig b (by simp))
      rw [FloatFmtProofs.digitsVal_append, FloatFmtProofs.digitsVal_cons]
      simp only [List.length_cons, List.length_nil, Nat.pow_zero, Nat.mul_one, FloatFmtProofs.digitsVal_nil,
        Nat.add_zero, Nat.zero_add, Nat.pow_one]
      cases L with
      | nil =>
        simp only [FloatFmtProofs.digitsVal_nil, Nat.zero_mul, Nat.zero_add]
        rw [FloatFmtProofs.natDigits_lt _ hb.2, hb.1]; rfl
      | cons a L' =>
        have ha : Spec.isDigit a = true := hdig a (by simp)
        have ha0 : a ≠ 48 := by
          intro h; apply hnlz; subst h
          simp
        have hlow : Spec.digitsVal (a :: L') ≥ 10 ^ L'.length := NumberProofs.digitsVal_lower ha ha0
        have hp : 0 < 10 ^ L'.length := Nat.pow_pos (by decide)
        have hge : 10 ≤ Spec.digitsVal (a :: L') * 10 + (b.toNat - 48) := by omega
        rw [FloatFmtProofs.natDigits_ge _ hge]
        have h1 : (Spec.digitsVal (a :: L') * 10 + (b.toNat - 48)) / 10 = Spec.digitsVal (a :: L') := by omega
        have h2 : (Spec.digitsVal (a :: L') * 10 + (b.toNat - 48)) % 10 = b.toNat - 48 := by omega
        rw [h1, h2, hb.1, ih (a :: L') (by simpa using hl) (fun d hd => hdig d (by
            rcases List.mem_cons.mp hd with h | h
            · simp [h]
            · simp [h])) (by simp)
          (by intro h; exact ha0 (by simpa using h.2))]

theorem toInt64_range (w : UInt64) : -(2^63 : Int) ≤ toInt64 w ∧ toInt64 w < 2^63 := by
  unfold toInt64
  have := w.toNat_lt
  split <;> omega

theorem toInt64_ofInt64 (z : Int) (h1 : -(2^63 : Int) ≤ z) (h2 : z < 2^63) : toInt64 (ofInt64 z) = z := by
  unfold toInt64 ofInt64
  have : (UInt64.ofNat (z % 2^64).toNat).toNat = (z % 2^64).toNat := by
    rw [UInt64.toNat_ofNat']; apply Nat.mod_eq_of_lt; omega
  rw [this]
  split <;> omega

theorem intToAscii_toList (z : Int) : (intToAscii z).toList = sgn (decide (z < 0)) ++ natDigits z.natAbs := by
  unfold intToAscii
  by_cases h : z < 0
  · simp [h, sgn, natToAscii_toList]
  · have : z.toNat = z.natAbs := by omega
    simp [h, sgn, natToAscii_toList, this]

/-- the literal `-`? followed by the decimal digits of `n` -/
def intLit (neg : Bool) (n : Nat) : Lit := ⟨neg, natDigits n, none, none⟩

theorem intLit_strict (neg : Bool) (n : Nat) : (intLit neg n).Strict := by
  obtain ⟨h1, h2, h3, h4⟩ := natDigits_spec n
  refine ⟨h1, h3, ?_, (by intro f hf; cases hf), trivial⟩
  rintro ⟨hlen, hhd⟩
  by_cases hn : 0 < n
  · exact h4 hn hhd
  · have : n = 0 := by omega
    subst this
    simp [intLit, FloatFmtProofs.natDigits_lt] at hlen

theorem intLit_render (neg : Bool) (n : Nat) : (intLit neg n).render = sgn neg ++ natDigits n := by
  simp [intLit, Lit.render, NumberProofs.fracPart, NumberProofs.expPart]

/-- `Spec.numValue` on a literal without fraction and exponent -/
theorem numValue_pure (neg : Bool) (ip : List UInt8) :
    Spec.numValue (Lit.toNumLit ⟨neg, ip, none, none⟩) =
      if -(2^63 : Int) ≤ (if neg then -(Spec.digitsVal ip : Int) else (Spec.digitsVal ip : Int)) ∧
          (if neg then -(Spec.digitsVal ip : Int) else (Spec.digitsVal ip : Int)) < 2^63
      then some (.int (if neg then -(Spec.digitsVal ip : Int) else (Spec.digitsVal ip : Int)))
      else if 0 ≤ (if neg then -(Spec.digitsVal ip : Int) else (Spec.digitsVal ip : Int)) ∧
          (if neg then -(Spec.digitsVal ip : Int) else (Spec.digitsVal ip : Int)) < 2^64
      then some (.uint (Spec.digitsVal ip))
      else (F64.roundDecimal neg (Spec.digitsVal ip) 0).map (.float · true) := rfl

theorem numValue_intLit_int (z : Int) (h1 : -(2^63 : Int) ≤ z) (h2 : z < 2^63) :
    Spec.numValue (intLit (decide (z < 0)) z.natAbs).toNumLit = some (.int z) := by
  unfold intLit
  rw [numValue_pure, (natDigits_spec _).2.1]
  have hz : (if decide (z < 0) = true then -(z.natAbs : Int) else (z.natAbs : Int)) = z := by
    by_cases h : z < 0
    · simp only [h, decide_true, if_true]; omega
    · simp only [h, decide_false, Bool.false_eq_true, if_false]; omega
  rw [hz, if_pos ⟨h1, h2⟩]

theorem numValue_intLit_nat (n : Nat) (h : n < 2^64) :
    Spec.numValue (intLit false n).toNumLit = some (if n < 2^63 then .int n else .uint n) := by
  unfold intLit
  rw [numValue_pure, (natDigits_spec _).2.1]
  simp only [Bool.false_eq_true, if_false]
  by_cases h63 : n < 2^63
  · rw [if_pos ⟨by omega, by omega⟩, if_pos h63]
  · rw [if_neg (by omega), if_pos ⟨by omega, by omega⟩, if_neg h63]

/-- the decimal text of an int64 is read back as that integer -/
theorem value_intText (z : Int) (h1 : -(2^63 : Int) ≤ z) (h2 : z < 2^63) (rest : List UInt8) (hr : Delim rest)
    (fuel : Nat) :
    Spec.value (fuel + 1) ((intToAscii z).toList ++ rest) = .acc (.num (.int z)) rest := by
  rw [intToAscii_toList, ← intLit_render, value_lit _ (intLit_strict _ _) rest hr.nocont fuel,
    numValue_intLit_int z h1 h2]

/-- the decimal text of a uint64 is read back as that integer (`.int` if it fits int64) -/
theorem value_natText (n : Nat) (h : n < 2^64) (rest : List UInt8) (hr : Delim rest) (fuel : Nat) :
    Spec.value (fuel + 1) ((FloatFmt.natToAscii n).toList ++ rest) =
      .acc (.num (if n < 2^63 then .int n else .uint n)) rest := by
  have : (FloatFmt.natToAscii n).toList = (intLit false n).render := by
    rw [intLit_render, natToAscii_toList]; rfl
  rw [this, value_lit _ (intLit_strict _ _) rest hr.nocont fuel, numValue_intLit_nat n h]

theorem intToAscii_nat (n : Nat) : intToAscii (n : Int) = FloatFmt.natToAscii n := by
  unfold intToAscii
  have : ¬ ((n : Int) < 0) := by omega
  simp [this]

/-- `int` leaves -/
theorem num_int (w : UInt64) (rest : List UInt8) (hr : Delim rest) (fuel : Nat) :
    ∃ n, Spec.value (fuel + 1) ((renderJ (.int w)).toList ++ rest) = .acc (.num n) rest ∧ NumRT (.int w) n := by
  have hz := toInt64_range w
  refine ⟨.int (toInt64 w), ?_, rfl, fun _ => ?_⟩
  · simp only [renderJ]
    exact value_intText _ hz.1 hz.2 rest hr fuel
  · simp only [ofNum, renderJ, toInt64_ofInt64 _ hz.1 hz.2]

/-- `uint` leaves -/
theorem num_uint (w : UInt64) (rest : List UInt8) (hr : Delim rest) (fuel : Nat) :
    ∃ n, Spec.value (fuel + 1) ((renderJ (.uint w)).toList ++ rest) = .acc (.num n) rest ∧ NumRT (.uint w) n := by
  have hw := w.toNat_lt
  refine ⟨if w.toNat < 2^63 then .int w.toNat else .uint w.toNat, ?_, rfl, fun _ => ?_⟩
  · simp only [renderJ]
    exact value_natText _ hw rest hr fuel
  · by_cases h : w.toNat < 2^63
    · simp only [h, if_true, ofNum, renderJ, toInt64_ofInt64 (w.toNat : Int) (by omega) (by omega), intToAscii_nat]
    · simp only [h, if_false, ofNum, renderJ, UInt64.ofNat_toNat]

/-! ## 3. Floats (given `FloatRT`) -/

theorem signBit_true : F64.signBit true = negZero := by decide

/-- `float` leaves -/
theorem num_float (frt : FloatRT) (bits fl : UInt64) (hfin : F64.isFinite bits = true) (rest : List UInt8)
    (hr : Delim rest) (fuel : Nat) :
    ∃ n, Spec.value (fuel + 1) ((renderJ (.float bits fl)).toList ++ rest) = .acc (.num n) rest ∧
      NumRT (.float bits fl) n := by
  obtain ⟨txt, l, happ, hlit, hround⟩ := frt bits hfin
  obtain ⟨x, hx, htxt, hl⟩ := NumberProofs.shape_of_spec hlit
  rw [List.append_nil] at htxt
  have hren : renderJ (.float bits fl) = txt := by simp [renderJ, happ]
  rw [hren, htxt, value_lit x hx rest hr.nocont fuel, hl]
  by_cases hpure : l.frac = none ∧ l.exp = none
  · obtain ⟨h1, h2⟩ := hpure
    rw [FloatFmtProofs.litValue_int l h1 h2] at hround
    simp only [] at hround
    obtain ⟨neg, ip, fp, ex⟩ := x
    have hfp : fp = none := by rw [← hl] at h1; exact h1
    have hex : ex = none := by
      rw [← hl] at h2
      cases ex with
      | none => rfl
      | some p => simp [Lit.toNumLit, NumberProofs.expOf] at h2
    subst hfp hex
    have hneg : l.neg = neg := by rw [← hl]; rfl
    have hint : l.int = ip := by rw [← hl]; rfl
    rw [hneg, hint] at hround
    have htl : txt.toList = sgn neg ++ ip := by
      rw [htxt]; simp [Lit.render, NumberProofs.fracPart, NumberProofs.expPart]
    have hip : natDigits (Spec.digitsVal ip) = ip :=
      natDigits_digitsVal ip.length ip rfl hx.dig hx.ne hx.nlz
    rw [← hl, numValue_pure]
    generalize hN : Spec.digitsVal ip = N at *
    by_cases hA : -(2^63 : Int) ≤ (if neg then -(N : Int) else (N : Int)) ∧ (if neg then -(N : Int) else (N : Int)) < 2^63
    · rw [if_pos hA]
      refine ⟨_, rfl, ?_, ?_⟩
      · -- numerically the same
        show F64.roundDecimal _ _ 0 = some bits ∨ _
        by_cases hz : neg = true ∧ N = 0
        · right
          obtain ⟨rfl, rfl⟩ := hz
          simp only [F64.roundDecimal, beq_self_eq_true, if_true, signBit_true, Option.some.injEq] at hround
          exact ⟨by simp, hround.symm⟩
        · left
          cases neg with
          | false =>
            have h1 : decide ((if false = true then -(N : Int) else (N : Int)) < 0) = false := by
              simp only [Bool.false_eq_true, if_false, decide_eq_false_iff_not]; omega
            have h2 : (if false = true then -(N : Int) else (N : Int)).natAbs = N := by
              simp only [Bool.false_eq_true, if_false]; omega
            rw [h1, h2]; exact hround
          | true =>
            have hN0 : N ≠ 0 := fun h => hz ⟨rfl, h⟩
            have h1 : decide ((if true = true then -(N : Int) else (N : Int)) < 0) = true := by
              simp only [if_true, decide_eq_true_eq]; omega
            have h2 : (if true = true then -(N : Int) else (N : Int)).natAbs = N := by
              simp only [if_true]; omega
            rw [h1, h2]; exact hround
      · -- the same text again
        intro hnz
        simp only [NoNegZero] at hnz
        have hnot : ¬ (neg = true ∧ N = 0) := by
          rintro ⟨rfl, rfl⟩
          simp only [F64.roundDecimal, beq_self_eq_true, if_true, signBit_true, Option.some.injEq] at hround
          exact hnz hround.symm
        simp only [ofNum, renderJ, toInt64_ofInt64 _ hA.1 hA.2]
        rw [happ, Option.getD_some]
        apply Array.toList_inj.mp
        rw [intToAscii_toList, htl]
        cases neg with
        | false =>
          have h1 : decide ((if false = true then -(N : Int) else (N : Int)) < 0) = false := by
            simp only [Bool.false_eq_true, if_false, decide_eq_false_iff_not]; omega
          have h2 : (if false = true then -(N : Int) else (N : Int)).natAbs = N := by
            simp only [Bool.false_eq_true, if_false]; omega
          rw [h1, h2, hip]
        | true =>
          have hN0 : N ≠ 0 := fun h => hnot ⟨rfl, h⟩
          have h1 : decide ((if true = true then -(N : Int) else (N : Int)) < 0) = true := by
            simp only [if_true, decide_eq_true_eq]; omega
          have h2 : (if true = true then -(N : Int) else (N : Int)).natAbs = N := by
            simp only [if_true]; omega
          rw [h1, h2, hip]
    · rw [if_neg hA]
      by_cases hB : 0 ≤ (if neg then -(N : Int) else (N : Int)) ∧ (if neg then -(N : Int) else (N : Int)) < 2^64
      · rw [if_pos hB]
        have hnegf : neg = false := by
          cases neg with
          | false => rfl
          | true => exfalso; apply hA; simp only [if_true] at hB ⊢; omega
        subst hnegf
        simp only [Bool.false_eq_true, if_false] at hB
        refine ⟨_, rfl, hround, fun _ => ?_⟩
        have hlt : N < 2^64 := by omega
        have hofn : (UInt64.ofNat N).toNat = N := by
          rw [UInt64.toNat_ofNat']; exact Nat.mod_eq_of_lt hlt
        simp only [ofNum, renderJ, hofn]
        rw [happ, Option.getD_some]
        apply Array.toList_inj.mp
        rw [natToAscii_toList, htl, hip]; rfl
      · rw [if_neg hB, hround]
        exact ⟨_, rfl, rfl, fun _ => by simp only [ofNum, renderJ]⟩
  · have hne : l.frac ≠ none ∨ l.exp ≠ none := by
      by_cases h : l.frac = none
      · right; intro h2; exact hpure ⟨h, h2⟩
      · left; exact h
    rw [FloatFmtProofs.numValue_float l hne, hround]
    exact ⟨_, rfl, rfl, fun _ => by simp only [ofNum, renderJ]⟩

end SJ.RenderParse
