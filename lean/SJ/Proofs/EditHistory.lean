import SJ.Proofs.Edit
import SJ.Proofs.EditString
import SJ.Proofs.Tight
set_option linter.unusedVariables false
/-
EditHistory — the single-step theorems about in-place edits (C13 `Set*`, C14 `SetNull` on a container) lifted
to ARBITRARY SEQUENCES of edits, by induction over operation lists.

* `EOp`        one edit: "stand on the node whose first word is at `q` and call `Set…`"
* `iterOn`     the iterator standing on the word at `q` (exactly the cursor `Advance` leaves there: `iterOn_eq`)
* `applyOp(s)` the model's function(s), the returned iterator dropped, stop at the first non-ok outcome
* `absOp(s)`   the effect on the located document: `substV q newLeaf`
* `Valid`      the node exists and the gate of the function accepts the tag of the tape word at `q`
* `history`    any valid sequence succeeds and the tape then holds `absOps v ops`; message and tape size never
               change, the string buffer only grows by the `SetString` arguments, `Tight` is kept
* `history_readback`  … and every reader then sees exactly `absOps v ops`
-/
namespace SJ.EditHistory
open SJ SJ.Generated SJ.Layout SJ.WalkLayout

/-! ## 1. Operations -/

/-- one edit: position the iterator on the node whose first word is at `q` and call the function -/
inductive EOp where
  | setInt (q : Nat) (z : Int)
  | setUInt (q : Nat) (w : UInt64)
  | setFloat (q : Nat) (bits : UInt64)
  | setBool (q : Nat) (b : Bool)
  | setNull (q : Nat)
  | setString (q : Nat) (s : Bytes)

/-- the addressed tape position -/
def EOp.pos : EOp → Nat
  | .setInt q _ | .setUInt q _ | .setFloat q _ | .setBool q _ | .setNull q | .setString q _ => q

/-- the bytes the operation appends to the string buffer -/
def EOp.appended : EOp → Bytes
  | .setString _ s => s
  | _ => #[]

/-! ## 2. Running operations on the model -/

/-- The iterator standing on the word at `q`: one past it, holding its tag and payload, `addNext` as `calcNext`
    sets it, the view being the whole tape.  (The `Set*` functions read `off`, `t`, — `SetNull` on a container —
    `cur`, and the view length `lim` as the bound of their index checks; any iterator on the word whose view contains
    the value gives the same tape: see `runOp_iter_indep`.) -/
def iterOn (pj : PJ) (q : Nat) : Iter :=
  ({ lim := pj.tape.size, off := q + 1, addNext := 0,
     cur := payloadOf ((word pj q).getD 0), t := tagOf ((word pj q).getD 0) } : Iter).calcNext false

/-- the tag the gate of an operation at `q` looks at -/
def tagAt (pj : PJ) (q : Nat) : UInt8 := tagOf ((word pj q).getD 0)

/-- drop the second component of a successful result -/
def fstR {α β : Type} : Res (α × β) → Res α
  | .ok (a, _) => .ok a
  | .error e => .error e
  | .panic => .panic
  | .diverge => .diverge

/-- the model's function for `op`, called on the iterator `i` -/
def runOp (pj : PJ) (i : Iter) : EOp → Res (PJ × Iter)
  | .setInt _ z => i.setInt pj z
  | .setUInt _ w => i.setUInt pj w
  | .setFloat _ b => i.setFloat pj b
  | .setBool _ b => i.setBool pj b
  | .setNull _ => i.setNull pj
  | .setString _ s => i.setStringBytes pj s

/-- position the iterator, run the function, drop the returned iterator -/
def applyOp (pj : PJ) (op : EOp) : Res PJ := fstR (runOp pj (iterOn pj op.pos) op)

/-- run a sequence, stopping at the first outcome that is not `ok` -/
def applyOps (pj : PJ) : List EOp → Res PJ
  | [] => .ok pj
  | op :: r => applyOp pj op >>= fun pj' => applyOps pj' r

/-! ## 3. The abstract effect -/

/-- the leaf the operation writes (for `SetNull` on a container: `null`; the rest of the container's words
    become a gap, which a located document does not record) -/
def newLeaf : EOp → LVal
  | .setInt q z => .int (ofInt64 z) q
  | .setUInt q w => .uint w q
  | .setFloat q b => .float b 0 q
  | .setBool q b => .bool b q
  | .setNull q => .null q
  | .setString q s => .str s.toList q

def absOp (v : LVal) (op : EOp) : LVal := substV op.pos (newLeaf op) v

def absOps (v : LVal) : List EOp → LVal
  | [] => v
  | op :: r => absOps (absOp v op) r

/-- everything the sequence appends to the string buffer, in order -/
def appendedAll : List EOp → Bytes
  | [] => #[]
  | op :: r => op.appended ++ appendedAll r

theorem newLeaf_pos (op : EOp) : (newLeaf op).pos = op.pos := by cases op <;> rfl
theorem newLeaf_tight (op : EOp) : Tight (newLeaf op) := by cases op <;> simp [newLeaf, Tight]

theorem absOp_tight (v : LVal) (op : EOp) (h : Tight v) : Tight (absOp v op) :=
  subst_tight op.pos (newLeaf op) (newLeaf_pos op) (newLeaf_tight op) v h
theorem absOp_pos (v : LVal) (op : EOp) : (absOp v op).pos = v.pos :=
  substV_pos op.pos (newLeaf op) (newLeaf_pos op) v
theorem absOps_pos (v : LVal) (ops : List EOp) : (absOps v ops).pos = v.pos := by
  induction ops generalizing v with
  | nil => rfl
  | cons op r ih => simp only [absOps]; rw [ih, absOp_pos]
theorem absOps_tight (v : LVal) (ops : List EOp) (h : Tight v) : Tight (absOps v ops) := by
  induction ops generalizing v with
  | nil => exact h
  | cons op r ih => exact ih _ (absOp_tight v op h)
theorem absOps_append (v : LVal) (a b : List EOp) : absOps v (a ++ b) = absOps (absOps v a) b := by
  induction a generalizing v with
  | nil => rfl
  | cons op r ih => simp only [List.cons_append, absOps]; exact ih _

/-! ## 4. Validity -/

/-- the type gate of each function, on the tag the iterator holds (the `switch i.t` of the source) -/
def gateOf : EOp → UInt8 → Bool
  | .setInt _ _, t => inCase (caseOf swSetInt 0) t
  | .setUInt _ _, t => inCase (caseOf swSetUInt 0) t
  | .setFloat _ _, t => inCase (caseOf swSetFloat 0) t
  | .setBool _ _, t => inCase (caseOf swSetBool 0) t
  | .setNull _, t => inCase (caseOf swSetNull 0) t || inCase (caseOf swSetNull 1) t || inCase (caseOf swSetNull 2) t
  | .setString _ _, t => inCase (caseOf swSetStringBytes 0) t

/-- size bounds of the step theorems: the string-buffer offset must fit below the flag bit; the skip counts of
    a nulled container must fit the payload -/
def side (pj : PJ) : EOp → Prop
  | .setString _ s => pj.strings.size + s.size < 2^55
  | .setNull q => inCase (caseOf swSetNull 2) (tagAt pj q) = true → pj.tape.size < 2^56
  | _ => True

/-- `op` is valid in the document `v` held by `pj`: a node starts at the addressed position, the gate accepts
    the tag of the tape word there, and the size bound holds -/
def Valid (pj : PJ) (v : LVal) (op : EOp) : Prop :=
  (∃ e, HasNode op.pos e v) ∧ gateOf op (tagAt pj op.pos) = true ∧ side pj op

/-- each operation is valid in the document as it is when the operation is applied -/
def ValidSeq (pj : PJ) (v : LVal) : List EOp → Prop
  | [] => True
  | op :: r => Valid pj v op ∧ ∀ pj', applyOp pj op = .ok pj' → ValidSeq pj' (absOp v op) r

/-! ### `iterOn` -/

theorem iterOn_fields (pj : PJ) (q : Nat) {w : UInt64} (hw : word pj q = some w) :
    (iterOn pj q).lim = pj.tape.size ∧ (iterOn pj q).off = q + 1 ∧ (iterOn pj q).cur = payloadOf w ∧
    (iterOn pj q).t = tagOf w := by
  unfold iterOn
  obtain ⟨a, b, c, d⟩ := SJ.WalkSafe.calcNext_fields
    ({ lim := pj.tape.size, off := q + 1, addNext := 0, cur := payloadOf ((word pj q).getD 0), t := tagOf ((word pj q).getD 0) } : Iter) false
  rw [a, b, c, d, hw]
  exact ⟨rfl, rfl, rfl, rfl⟩

theorem iterOn_off (pj : PJ) (q : Nat) : (iterOn pj q).off = q + 1 := by
  unfold iterOn
  rw [(SJ.WalkSafe.calcNext_fields _ false).2.1]

theorem iterOn_t (pj : PJ) (q : Nat) : (iterOn pj q).t = tagAt pj q := by
  unfold iterOn tagAt
  rw [(SJ.WalkSafe.calcNext_fields _ false).2.2.2]

theorem tagAt_of {pj : PJ} {q : Nat} {w : UInt64} (hw : word pj q = some w) : tagAt pj q = tagOf w := by
  unfold tagAt; rw [hw]; rfl

/-- `iterOn` on a node of the document is exactly the cursor `Advance` leaves on it (`WalkLayout.advance_node`),
    the view being the whole tape -/
theorem iterOn_eq (pj : PJ) (n : LVal) (hn : Ok pj n) :
    ∃ w, word pj n.pos = some w ∧ tagOf w = tagOfL n ∧
      iterOn pj n.pos = { lim := pj.tape.size, off := n.pos + 1, addNext := (n.fin : Int) - ((n.pos + 1 : Nat) : Int),
                          cur := payloadOf w, t := tagOf w } := by
  obtain ⟨w, hw, ht⟩ := ok_head pj n hn
  refine ⟨w, hw, ht, ?_⟩
  unfold iterOn
  rw [hw]
  exact (calcNext_of pj n hn { lim := pj.tape.size, off := n.pos + 1, addNext := 0, cur := payloadOf w, t := tagOf w }
    w hw rfl rfl rfl).1

/-! ### Nodes of a located document -/

mutual
/-- a node `[q, f)` of an `Ok` tree is itself an `Ok` tree with that extent -/
theorem node_sub (pj : PJ) (q f : Nat) : ∀ v : LVal, Ok pj v → HasNode q f v → ∃ n, Ok pj n ∧ n.pos = q ∧ n.fin = f
  | .null p, ho, h => by simp only [HasNode] at h; exact ⟨_, ho, h.1, h.2⟩
  | .bool b p, ho, h => by simp only [HasNode] at h; exact ⟨_, ho, h.1, h.2⟩
  | .int w p, ho, h => by simp only [HasNode] at h; exact ⟨_, ho, h.1, h.2⟩
  | .uint w p, ho, h => by simp only [HasNode] at h; exact ⟨_, ho, h.1, h.2⟩
  | .float b g p, ho, h => by simp only [HasNode] at h; exact ⟨_, ho, h.1, h.2⟩
  | .str s p, ho, h => by simp only [HasNode] at h; exact ⟨_, ho, h.1, h.2⟩
  | .arr p e es, ho, h => by
    simp only [HasNode] at h
    rcases h with h | h
    · exact ⟨_, ho, h.1, h.2⟩
    · simp only [Ok] at ho
      exact nodes_sub pj q f es _ _ ho.2.2.2 h
  | .obj p e ms, ho, h => by
    simp only [HasNode] at h
    rcases h with h | h
    · exact ⟨_, ho, h.1, h.2⟩
    · simp only [Ok] at ho
      exact nodesM_sub pj q f ms _ _ ho.2.2.2 h
theorem nodes_sub (pj : PJ) (q f : Nat) : ∀ (vs : LVals) (lo hi : Nat), OkElems pj vs lo hi → HasNodeVs q f vs →
    ∃ n, Ok pj n ∧ n.pos = q ∧ n.fin = f
  | .nil, _, _, _, h => by simp [HasNodeVs] at h
  | .cons v vs, lo, hi, ho, h => by
    simp only [OkElems] at ho
    simp only [HasNodeVs] at h
    rcases h with h | h
    · exact node_sub pj q f v ho.2.1 h
    · exact nodes_sub pj q f vs _ _ ho.2.2.2 h
theorem nodesM_sub (pj : PJ) (q f : Nat) : ∀ (ms : LMems) (lo hi : Nat), OkMems pj ms lo hi → HasNodeMs q f ms →
    ∃ n, Ok pj n ∧ n.pos = q ∧ n.fin = f
  | .nil, _, _, _, h => by simp [HasNodeMs] at h
  | .cons pk k v ms, lo, hi, ho, h => by
    simp only [OkMems] at ho
    simp only [HasNodeMs] at h
    rcases h with h | h
    · exact node_sub pj q f v ho.2.2.2.1 h
    · exact nodesM_sub pj q f ms _ _ ho.2.2.2.2.2 h
end

/-- the document is a node of itself -/
theorem hasNode_self (v : LVal) : HasNode v.pos v.fin v := by
  cases v <;> simp [HasNode, LVal.pos, LVal.fin]

/-- the three shapes a node can have, as `SetNull`'s three clauses see them -/
theorem node_kinds (pj : PJ) (n : LVal) (hn : Ok pj n) :
    (inCase (caseOf swSetNull 0) (tagOfL n) = true ∧ n.fin = n.pos + 1) ∨
    (inCase (caseOf swSetNull 0) (tagOfL n) = false ∧ inCase (caseOf swSetNull 1) (tagOfL n) = true ∧ n.fin = n.pos + 2) ∨
    (inCase (caseOf swSetNull 0) (tagOfL n) = false ∧ inCase (caseOf swSetNull 1) (tagOfL n) = false ∧
      inCase (caseOf swSetNull 2) (tagOfL n) = true ∧ n.pos + 2 ≤ n.fin ∧
      ∃ w, word pj n.pos = some w ∧ (payloadOf w).toNat = n.fin) := by
  cases n with
  | null p => refine Or.inl ⟨?_, rfl⟩; simp only [tagOfL]; decide
  | bool b p => cases b <;> refine Or.inl ⟨?_, rfl⟩ <;> simp only [tagOfL, if_true, Bool.false_eq_true, if_false] <;> decide
  | int w p => refine Or.inr (Or.inl ⟨?_, ?_, rfl⟩) <;> simp only [tagOfL] <;> decide
  | uint w p => refine Or.inr (Or.inl ⟨?_, ?_, rfl⟩) <;> simp only [tagOfL] <;> decide
  | float b g p => refine Or.inr (Or.inl ⟨?_, ?_, rfl⟩) <;> simp only [tagOfL] <;> decide
  | str s p => refine Or.inr (Or.inl ⟨?_, ?_, rfl⟩) <;> simp only [tagOfL] <;> decide
  | arr p e es =>
    simp only [Ok] at hn
    obtain ⟨h1, ⟨w, hw, _, hp⟩, _⟩ := hn
    refine Or.inr (Or.inr ⟨?_, ?_, ?_, h1, w, hw, hp⟩) <;> simp only [tagOfL] <;> decide
  | obj p e ms =>
    simp only [Ok] at hn
    obtain ⟨h1, ⟨w, hw, _, hp⟩, _⟩ := hn
    refine Or.inr (Or.inr ⟨?_, ?_, ?_, h1, w, hw, hp⟩) <;> simp only [tagOfL] <;> decide

/-- the constructor condition equivalent to each gate -/
def kindOK : EOp → LVal → Bool
  | .setInt _ _, n | .setUInt _ _, n | .setFloat _ _, n | .setString _ _, n =>
    match n with
    | .int _ _ | .uint _ _ | .float _ _ _ | .str _ _ => true
    | _ => false
  | .setBool _ _, n =>
    match n with
    | .null _ | .bool _ _ => true
    | _ => false
  | .setNull _, _ => true

/-- **The gates, on documents**: on the first word of a node the gate of each function accepts exactly —
    numbers and strings for `SetInt`/`SetUInt`/`SetFloat`/`SetString`, `true`/`false`/`null` for `SetBool`,
    every node for `SetNull`. -/
theorem gate_eq_kind (op : EOp) (n : LVal) : gateOf op (tagOfL n) = kindOK op n := by
  cases n with
  | bool b p =>
    cases b <;> cases op <;> simp only [gateOf, kindOK, tagOfL, if_true, Bool.false_eq_true, if_false] <;> decide
  | _ => cases op <;> simp only [gateOf, kindOK, tagOfL] <;> decide

/-- a node accepted by one of the two-word gates has two words; one accepted by `SetBool` has one -/
theorem fin_of_kind (op : EOp) (n : LVal) (h : kindOK op n = true) :
    match op with
    | .setBool _ _ => n.fin = n.pos + 1
    | .setNull _ => True
    | _ => n.fin = n.pos + 2 := by
  cases op <;> cases n <;> first | trivial | rfl | (simp [kindOK] at h)

/-! ## 5. One step -/

/-- what `Valid` gives about the addressed node -/
theorem valid_node (pj : PJ) (v : LVal) (hok : Ok pj v) (q e : Nat) (hnode : HasNode q e v) :
    ∃ n w, Ok pj n ∧ n.pos = q ∧ n.fin = e ∧ word pj q = some w ∧ tagAt pj q = tagOfL n ∧
      (iterOn pj q).off = q + 1 ∧ (iterOn pj q).t = tagOfL n ∧ (iterOn pj q).cur = payloadOf w := by
  obtain ⟨n, hn, hp, hf⟩ := node_sub pj q e v hok hnode
  obtain ⟨w, hw, ht⟩ := ok_head pj n hn
  rw [hp] at hw
  obtain ⟨_, a, b, c⟩ := iterOn_fields pj q hw
  exact ⟨n, w, hn, hp, hf, hw, by rw [tagAt_of hw, ht], a, by rw [c, ht], b⟩

/-- `Valid`, read on the document: the addressed node has an acceptable constructor (hence the extent `q + 2`
    resp. `q + 1` the single-step theorems ask for — `fin_of_kind`) -/
theorem valid_kind (pj : PJ) (v : LVal) (op : EOp) (hok : Ok pj v) (hv : Valid pj v op) :
    ∃ n, Ok pj n ∧ n.pos = op.pos ∧ HasNode op.pos n.fin v ∧ kindOK op n = true := by
  obtain ⟨⟨e, hnode⟩, hgate, _⟩ := hv
  obtain ⟨n, w, hn, hp, hf, _, hta, _⟩ := valid_node pj v hok op.pos e hnode
  rw [hta, gate_eq_kind] at hgate
  exact ⟨n, hn, hp, by rw [hf]; exact hnode, hgate⟩

/-- conversely the hypotheses of the single-step theorems (a node of the right extent, the gate on the tag at
    `q`, the size bound) are `Valid` -/
theorem valid_of_node (pj : PJ) (v : LVal) (op : EOp) (e : Nat) (hnode : HasNode op.pos e v)
    (hgate : gateOf op (tagAt pj op.pos) = true) (hside : side pj op) : Valid pj v op := ⟨⟨e, hnode⟩, hgate, hside⟩

/-- **One valid operation**: the model's function succeeds and the tape then holds the document with exactly the
    addressed node replaced. -/
theorem step (pj : PJ) (v : LVal) (op : EOp) (hok : Ok pj v) (hv : Valid pj v op) :
    ∃ pj', applyOp pj op = .ok pj' ∧ Ok pj' (absOp v op) ∧ pj'.strings = pj.strings ++ op.appended ∧
      pj'.msg = pj.msg ∧ pj'.tape.size = pj.tape.size := by
  obtain ⟨⟨e, hnode⟩, hgate, hside⟩ := hv
  obtain ⟨n, w, hn, hp, hf, hw, hta, hoff, ht, hcur⟩ := valid_node pj v hok op.pos e hnode
  rw [hta, gate_eq_kind] at hgate
  have hfin := fin_of_kind op n hgate
  -- the view of `iterOn` is the whole tape, and the node lies inside the tape
  have hlim := (iterOn_fields pj op.pos hw).1
  have hsz := node_in_tape pj op.pos e v hok hnode
  cases op with
  | setInt q z =>
    simp only [EOp.pos] at *
    have he : e = q + 2 := by rw [← hf, hfin, hp]
    subst he
    obtain ⟨pj', i', h1, h2, h3, h4, h5⟩ := setInt_doc pj v hok q hnode (iterOn pj q) hoff (by rw [hlim, hoff]; omega)
      (by rw [ht]; exact (gate_eq_kind (.setInt q z) n).trans hgate) z
    exact ⟨pj', by simp only [applyOp, runOp, EOp.pos, h1, fstR], h2, by simp [EOp.appended, h3], h4, h5⟩
  | setUInt q z =>
    simp only [EOp.pos] at *
    have he : e = q + 2 := by rw [← hf, hfin, hp]
    subst he
    obtain ⟨pj', i', h1, h2, h3, h4, h5⟩ := setUInt_doc pj v hok q hnode (iterOn pj q) hoff (by rw [hlim, hoff]; omega)
      (by rw [ht]; exact (gate_eq_kind (.setUInt q z) n).trans hgate) z
    exact ⟨pj', by simp only [applyOp, runOp, EOp.pos, h1, fstR], h2, by simp [EOp.appended, h3], h4, h5⟩
  | setFloat q z =>
    simp only [EOp.pos] at *
    have he : e = q + 2 := by rw [← hf, hfin, hp]
    subst he
    obtain ⟨pj', i', h1, h2, h3, h4, h5⟩ := setFloat_doc pj v hok q hnode (iterOn pj q) hoff (by rw [hlim, hoff]; omega)
      (by rw [ht]; exact (gate_eq_kind (.setFloat q z) n).trans hgate) z
    exact ⟨pj', by simp only [applyOp, runOp, EOp.pos, h1, fstR], h2, by simp [EOp.appended, h3], h4, h5⟩
  | setBool q b =>
    simp only [EOp.pos] at *
    have he : e = q + 1 := by rw [← hf, hfin, hp]
    subst he
    obtain ⟨pj', i', h1, h2, h3, h4, h5⟩ := setBool_doc pj v hok q hnode (iterOn pj q) hoff (by rw [hlim, hoff]; omega)
      (by rw [ht]; exact (gate_eq_kind (.setBool q b) n).trans hgate) b
    exact ⟨pj', by simp only [applyOp, runOp, EOp.pos, h1, fstR], h2, by simp [EOp.appended, h3], h4, h5⟩
  | setString q s =>
    simp only [EOp.pos] at *
    have he : e = q + 2 := by rw [← hf, hfin, hp]
    subst he
    obtain ⟨pj', i', h1, h2, h3, h4, h5⟩ := setString_doc pj v hok q hnode (iterOn pj q) hoff (by rw [hlim, hoff]; omega)
      (by rw [ht]; exact (gate_eq_kind (.setString q s) n).trans hgate) s hside
    exact ⟨pj', by simp only [applyOp, runOp, EOp.pos, h1, fstR], h2, by simp [EOp.appended, h3], h4, h5⟩
  | setNull q =>
    simp only [EOp.pos] at *
    rcases node_kinds pj n hn with ⟨k0, kf⟩ | ⟨k0, k1, kf⟩ | ⟨k0, k1, k2, kle, w', hw', hpay⟩
    · have he : e = q + 1 := by rw [← hf, kf, hp]
      subst he
      obtain ⟨pj', i', h1, h2, h3, h4, h5⟩ := setNull_word_doc pj v hok q hnode (iterOn pj q) hoff (by rw [hlim, hoff]; omega)
        (by rw [ht]; exact k0)
      exact ⟨pj', by simp only [applyOp, runOp, EOp.pos, h1, fstR], h2, by simp [EOp.appended, h3], h4, h5⟩
    · have he : e = q + 2 := by rw [← hf, kf, hp]
      subst he
      obtain ⟨pj', i', h1, h2, h3, h4, h5⟩ := setNull_scalar_doc pj v hok q hnode (iterOn pj q) hoff (by rw [hlim, hoff]; omega)
        (by rw [ht]; exact k0) (by rw [ht]; exact k1)
      exact ⟨pj', by simp only [applyOp, runOp, EOp.pos, h1, fstR], h2, by simp [EOp.appended, h3], h4, h5⟩
    · rw [hp] at hw'
      cases word_inj hw hw'
      obtain ⟨pj', i', h1, h2, h3, h4, h5⟩ := setNull_container_doc pj v hok q e hnode (by omega)
        (hside (by rw [hta]; exact k2)) (iterOn pj q) hoff (by rw [hcur, hpay, hf])
        (by rw [hcur, hpay, hf, hlim]; exact hsz)
        (by rw [ht]; exact k0) (by rw [ht]; exact k1) (by rw [ht]; exact k2)
      exact ⟨pj', by simp only [applyOp, runOp, EOp.pos, h1, fstR], h2, by simp [EOp.appended, h3], h4, h5⟩

/-! ## 6. Histories -/

/-- **Main theorem.** Every valid sequence of edits succeeds; the tape then holds the document with all the
    replacements made, in order; the document stays tight; the message and the tape size are those of the start;
    the string buffer has grown by exactly the `SetString` arguments. -/
theorem history : ∀ (ops : List EOp) (pj : PJ) (v : LVal), Ok pj v → Tight v → ValidSeq pj v ops →
    ∃ pj', applyOps pj ops = .ok pj' ∧ Ok pj' (absOps v ops) ∧ Tight (absOps v ops) ∧ pj'.msg = pj.msg ∧
      pj'.tape.size = pj.tape.size ∧ pj'.strings = pj.strings ++ appendedAll ops := by
  intro ops
  induction ops with
  | nil =>
    intro pj v hok ht _
    exact ⟨pj, rfl, hok, ht, rfl, rfl, by simp [appendedAll]⟩
  | cons op r ih =>
    intro pj v hok ht hv
    obtain ⟨hv1, hv2⟩ := hv
    obtain ⟨pj1, h1, h2, h3, h4, h5⟩ := step pj v op hok hv1
    obtain ⟨pj', g1, g2, g3, g4, g5, g6⟩ := ih pj1 (absOp v op) h2 (absOp_tight v op ht) (hv2 pj1 h1)
    refine ⟨pj', ?_, g2, g3, g4.trans h4, g5.trans h5, ?_⟩
    · simp only [applyOps, h1, Res.bind_ok]; exact g1
    · rw [g6, h3, appendedAll, Array.append_assoc]

/-! ## 7. Read-back -/

theorem iterOn_lim (pj : PJ) (q : Nat) : (iterOn pj q).lim = pj.tape.size := by
  unfold iterOn
  rw [(SJ.WalkSafe.calcNext_fields _ false).1]

/-- `iterOn` at the document's first word is a reader standing on the document -/
theorem iterOn_onNode (pj : PJ) (v : LVal) (hok : Ok pj v) : OnNode pj v (iterOn pj v.pos) := by
  obtain ⟨w, hw, ht, he⟩ := iterOn_eq pj v hok
  have hsz := node_in_tape pj v.pos v.fin v hok (hasNode_self v)
  have hpf := pos_lt_fin v pj hok
  rw [he]
  refine ⟨rfl, ⟨w, hw, rfl, rfl⟩, hsz, ?_⟩
  show ((v.pos + 1 : Nat) : Int) + ((v.fin : Int) - ((v.pos + 1 : Nat) : Int)) ≤ ((pj.tape.size : Nat) : Int)
  omega

/-- **Every reader sees exactly the edited document.** After any valid sequence, any iterator standing on the
    document in the final tape reads back, through the iterator API, the document with all replacements made. -/
theorem history_readback (ops : List EOp) (pj : PJ) (v : LVal) (hok : Ok pj v) (ht : Tight v)
    (hv : ValidSeq pj v ops) :
    ∃ pj', applyOps pj ops = .ok pj' ∧
      ∀ (j : Iter) (fuel : Nat), OnNode pj' (absOps v ops) j → 2 * (j.lim - j.off) + 2 < fuel →
        owalkValue pj' j fuel = .ok (toOVal (absOps v ops)) := by
  obtain ⟨pj', h1, h2, h3, _⟩ := history ops pj v hok ht hv
  exact ⟨pj', h1, fun j fuel hon hf => owalkValue_node pj' _ j fuel h2 h3 hon hf⟩

/-- … in particular the iterator `iterOn` puts on the document's first word (which has not moved), with the
    fuel the API wrappers use. -/
theorem history_readback_iterOn (ops : List EOp) (pj : PJ) (v : LVal) (hok : Ok pj v) (ht : Tight v)
    (hv : ValidSeq pj v ops) :
    ∃ pj', applyOps pj ops = .ok pj' ∧
      owalkValue pj' (iterOn pj' v.pos) (fuelOf pj') = .ok (toOVal (absOps v ops)) := by
  obtain ⟨pj', h1, h2, h3, _⟩ := history ops pj v hok ht hv
  refine ⟨pj', h1, ?_⟩
  have hon := iterOn_onNode pj' _ h2
  rw [absOps_pos] at hon
  exact owalkValue_node_fuelOf pj' _ _ h2 h3 hon (by rw [iterOn_lim]; exact Nat.le_refl _)

/-! ## 8. Any iterator on the node, with the node in its view, will do -/

theorem fstR_bind {α β γ : Type} (x : Res α) (f : α → Res (β × γ)) :
    fstR (x >>= f) = x >>= fun a => fstR (f a) := by cases x <;> rfl
theorem fstR_ok {α β : Type} (a : α) (b : β) : fstR (Res.ok (a, b)) = .ok a := rfl
theorem fstR_err {α β : Type} (e : Err) : fstR (Res.error e : Res (α × β)) = .error e := rfl
theorem fstR_panic {α β : Type} : fstR (Res.panic : Res (α × β)) = .panic := rfl
theorem fstR_ite {α β : Type} (c : Prop) [Decidable c] (a b : Res (α × β)) :
    fstR (if c then a else b) = if c then fstR a else fstR b := by split <;> rfl

/-- One past the last tape index a `Set*` function writes through `i`, as the iterator's own tag and payload tell:
    `off` for a one-word value, `off + 1` for a two-word value, `max off cur` for a container; 0 for a tag every gate
    refuses. -/
def valEnd (i : Iter) : Nat :=
  if inCase (caseOf swSetNull 0) i.t then i.off
  else if inCase (caseOf swSetNull 1) i.t then i.off + 1
  else if inCase (caseOf swSetNull 2) i.t then max i.off i.cur.toNat
  else 0

theorem wrV_eq_wr {lim k : Nat} (h : k < lim) (tape : Array UInt64) (v : UInt64) : Iter.wrV lim tape k v = wr tape k v := by
  simp only [Iter.wrV, h, if_true]

/-- the tags of the two-word gates are those of `SetNull`'s second clause, the tags of `SetBool` those of its first -/
theorem gate_class (t : UInt8) :
    (inCase (caseOf swSetInt 0) t = true ∨ inCase (caseOf swSetUInt 0) t = true ∨ inCase (caseOf swSetFloat 0) t = true ∨
      inCase (caseOf swSetStringBytes 0) t = true →
        inCase (caseOf swSetNull 0) t = false ∧ inCase (caseOf swSetNull 1) t = true) ∧
    (inCase (caseOf swSetBool 0) t = true → inCase (caseOf swSetNull 0) t = true) := by
  simp only [inCase]
  generalize t.toNat = n
  have e1 : caseOf swSetInt 0 = [100, 108, 117, 34] := rfl
  have e2 : caseOf swSetUInt 0 = [34, 100, 108, 117] := rfl
  have e3 : caseOf swSetFloat 0 = [100, 108, 117, 34] := rfl
  have e4 : caseOf swSetStringBytes 0 = [34, 100, 108, 117] := rfl
  have e5 : caseOf swSetBool 0 = [116, 102, 110] := rfl
  have e6 : caseOf swSetNull 0 = [116, 102, 110] := rfl
  have e7 : caseOf swSetNull 1 = [34, 100, 108, 117] := rfl
  rw [e1, e2, e3, e4, e5, e6, e7]
  simp only [List.contains_eq_mem, List.mem_cons, List.not_mem_nil, or_false, decide_eq_true_eq, decide_eq_false_iff_not]
  omega

theorem set2_view_indep (pj : PJ) (i j : Iter) (w0 w1 : UInt64) (ho : i.off = j.off) (hi : i.off < i.lim)
    (hj : j.off < j.lim) : Iter.set2 pj i w0 w1 = Iter.set2 pj j w0 w1 := by
  unfold Iter.set2
  rw [ho] at hi ⊢
  by_cases h0 : j.off = 0
  · simp only [h0, if_true]
  · simp only [h0, if_false, wrV_eq_wr hi, wrV_eq_wr hj, wrV_eq_wr (show j.off - 1 < i.lim by omega),
      wrV_eq_wr (show j.off - 1 < j.lim by omega)]

/-- The `Set*` functions read `off`, `t`, `cur` of the iterator and the length `lim` of its view (the bound of their
    index checks): two iterators agreeing on the first three, whose views both contain the value (`valEnd`), produce
    the same tape (the returned iterators differ in `lim`/`addNext`, which `fstR` drops).  The view hypotheses cannot
    be dropped: an iterator whose view ends inside the value panics where one with a longer view writes. -/
theorem runOp_iter_indep (pj : PJ) (i j : Iter) (op : EOp) (ho : i.off = j.off) (ht : i.t = j.t) (hc : i.cur = j.cur)
    (hi : valEnd i ≤ i.lim) (hj : valEnd j ≤ j.lim) :
    fstR (runOp pj i op) = fstR (runOp pj j op) := by
  have two : inCase (caseOf swSetNull 0) j.t = false → inCase (caseOf swSetNull 1) j.t = true →
      ∀ w0 w1, Iter.set2 pj i w0 w1 = Iter.set2 pj j w0 w1 := by
    intro k0 k1 w0 w1
    simp only [valEnd, ht, k0, k1, if_true, if_false, Bool.false_eq_true] at hi hj
    exact set2_view_indep pj i j w0 w1 ho (by omega) (by omega)
  have one : inCase (caseOf swSetNull 0) j.t = true → j.off ≠ 0 → ∀ v,
      Iter.wrV i.lim pj.tape (j.off - 1) v = Iter.wrV j.lim pj.tape (j.off - 1) v := by
    intro k0 h0 v
    simp only [valEnd, ht, k0, if_true] at hi hj
    rw [wrV_eq_wr (by omega), wrV_eq_wr (by omega)]
  have g := gate_class j.t
  cases op with
  | setInt q z =>
    simp only [runOp, Iter.setInt, ht, hc, ho]
    cases hg : inCase (caseOf swSetInt 0) j.t with
    | false => simp only [Bool.false_eq_true, if_false]
    | true =>
      obtain ⟨k0, k1⟩ := g.1 (Or.inl hg)
      simp only [if_true, two k0 k1, fstR_bind, fstR_ok]
  | setUInt q z =>
    simp only [runOp, Iter.setUInt, ht, hc, ho]
    cases hg : inCase (caseOf swSetUInt 0) j.t with
    | false => simp only [Bool.false_eq_true, if_false]
    | true =>
      obtain ⟨k0, k1⟩ := g.1 (Or.inr (Or.inl hg))
      simp only [if_true, two k0 k1, fstR_bind, fstR_ok]
  | setFloat q z =>
    simp only [runOp, Iter.setFloat, ht, hc, ho]
    cases hg : inCase (caseOf swSetFloat 0) j.t with
    | false => simp only [Bool.false_eq_true, if_false]
    | true =>
      obtain ⟨k0, k1⟩ := g.1 (Or.inr (Or.inr (Or.inl hg)))
      simp only [if_true, two k0 k1, fstR_bind, fstR_ok]
  | setString q sv =>
    simp only [runOp, Iter.setStringBytes, ht, hc, ho]
    cases hg : inCase (caseOf swSetStringBytes 0) j.t with
    | false => simp only [Bool.false_eq_true, if_false]
    | true =>
      obtain ⟨k0, k1⟩ := g.1 (Or.inr (Or.inr (Or.inr hg)))
      simp only [if_true, two k0 k1, fstR_bind, fstR_ok]
  | setBool q b =>
    simp only [runOp, Iter.setBool, ht, hc, ho]
    cases hg : inCase (caseOf swSetBool 0) j.t with
    | false => simp only [Bool.false_eq_true, if_false]
    | true =>
      by_cases h0 : j.off = 0
      · simp only [h0, if_true]
      · simp only [if_true, h0, if_false, one (g.2 hg) h0, fstR_bind, fstR_ok]
  | setNull q =>
    simp only [runOp, Iter.setNull, ht, hc, ho]
    cases k0 : inCase (caseOf swSetNull 0) j.t with
    | true =>
      by_cases h0 : j.off = 0
      · simp only [h0, if_true]
      · simp only [if_true, h0, if_false, one k0 h0, fstR_bind, fstR_ok]
    | false =>
      simp only [Bool.false_eq_true, if_false]
      cases k1 : inCase (caseOf swSetNull 1) j.t with
      | true => simp only [if_true, two k0 k1, fstR_bind, fstR_ok]
      | false =>
        simp only [Bool.false_eq_true, if_false]
        cases k2 : inCase (caseOf swSetNull 2) j.t with
        | false => simp only [Bool.false_eq_true, if_false]
        | true =>
          simp only [valEnd, ht, hc, ho, k0, k1, k2, if_true, if_false, Bool.false_eq_true] at hi hj
          by_cases h0 : j.off = 0
          · simp only [h0, if_true]
          · simp only [h0, if_true, if_false, wrV_eq_wr (show j.off - 1 < i.lim by omega),
              wrV_eq_wr (show j.off - 1 < j.lim by omega),
              nopFillV_eq_nopFill i.lim _ _ j.off j.cur.toNat rfl (by omega),
              nopFillV_eq_nopFill j.lim _ _ j.off j.cur.toNat rfl (by omega), fstR_bind, fstR_ok]

/-- hence `applyOp` is what the function does from ANY iterator standing on the word at `op.pos` whose view contains
    the value (`valEnd i ≤ i.lim`) and is a prefix of the tape — e.g. one reached by
    `Advance`/`AdvanceInto`/`AdvanceIter` in any restricted view -/
theorem applyOp_of_iter (pj : PJ) (i : Iter) (op : EOp) {w : UInt64} (hw : word pj op.pos = some w)
    (ho : i.off = op.pos + 1) (ht : i.t = tagOf w) (hc : i.cur = payloadOf w)
    (hv : valEnd i ≤ i.lim) (hl : i.lim ≤ pj.tape.size) :
    fstR (runOp pj i op) = applyOp pj op := by
  obtain ⟨l, a, b, c⟩ := iterOn_fields pj op.pos hw
  refine runOp_iter_indep pj i (iterOn pj op.pos) op (by rw [a, ho]) (by rw [c, ht]) (by rw [b, hc]) hv ?_
  have e : valEnd (iterOn pj op.pos) = valEnd i := by simp only [valEnd, a, b, c, ho, ht, hc]
  rw [e, l]; omega

/-- the value a reader stands on ends where its tag and payload say -/
theorem valEnd_onNode (pj : PJ) (n : LVal) (i : Iter) (hn : Ok pj n) (hon : OnNode pj n i) : valEnd i = n.fin := by
  obtain ⟨ho, ⟨w, hw, ht, hc⟩, _⟩ := hon
  obtain ⟨w', hw', ht'⟩ := ok_head pj n hn
  cases word_inj hw hw'
  rw [← ht] at ht'
  rcases node_kinds pj n hn with ⟨k0, kf⟩ | ⟨k0, k1, kf⟩ | ⟨k0, k1, k2, kle, w'', hw'', hpay⟩
  · simp only [valEnd, ht', k0, if_true, ho, kf]
  · simp only [valEnd, ht', k0, k1, if_true, if_false, Bool.false_eq_true, ho, kf]
  · cases word_inj hw hw''
    simp only [valEnd, ht', k0, k1, k2, if_true, if_false, Bool.false_eq_true, ho, hc, hpay]
    omega

theorem applyOp_of_onNode (pj : PJ) (n : LVal) (i : Iter) (op : EOp) (hn : Ok pj n) (hon : OnNode pj n i)
    (hl : i.lim ≤ pj.tape.size) (hp : op.pos = n.pos) :
    fstR (runOp pj i op) = applyOp pj op := by
  have hv : valEnd i ≤ i.lim := by rw [valEnd_onNode pj n i hn hon]; exact hon.2.2.1
  obtain ⟨ho, ⟨w, hw, ht, hc⟩, _⟩ := hon
  rw [← hp] at hw ho
  exact applyOp_of_iter pj i op hw ho ht hc hv hl

/-! ## 9. Refused operations -/

/-- **The gates, on operations**: an iterator whose tag the gate does not accept gets `error`. -/
theorem runOp_gate (pj : PJ) (i : Iter) (op : EOp) (h : gateOf op i.t = false) : runOp pj i op = .error .generic := by
  cases op with
  | setInt q z => exact setInt_gate pj i z h
  | setUInt q z => exact setUInt_gate pj i z h
  | setFloat q z => exact setFloat_gate pj i z h
  | setBool q b => exact setBool_gate pj i b h
  | setString q s => exact setString_gate pj i s h
  | setNull q =>
    simp only [gateOf, Bool.or_eq_false_iff] at h
    exact setNull_gate pj i h.1.1 h.1.2 h.2

theorem applyOp_gate (pj : PJ) (op : EOp) (h : gateOf op (tagAt pj op.pos) = false) : applyOp pj op = .error .generic := by
  unfold applyOp
  rw [runOp_gate pj _ op (by rw [iterOn_t]; exact h)]
  rfl

/-- no outcome of a write is an `error` (they are `ok` or an index panic) -/
def NoErr {α : Type} (r : Res α) : Prop := ∀ e, r ≠ .error e

theorem noErr_bind {α β : Type} {x : Res α} {f : α → Res β} (hx : NoErr x) (hf : ∀ a, NoErr (f a)) : NoErr (x >>= f) := by
  cases x with
  | ok a => exact hf a
  | error e => exact absurd rfl (hx e)
  | panic => intro e h; cases h
  | diverge => intro e h; cases h
theorem noErr_ok {α : Type} (a : α) : NoErr (Res.ok a) := fun e h => by cases h
theorem noErr_panic {α : Type} : NoErr (Res.panic : Res α) := fun e h => by cases h
theorem noErr_wr {α : Type} (a : Array α) (i : Nat) (v : α) : NoErr (wr a i v) := by
  unfold wr; split
  · exact noErr_ok _
  · exact noErr_panic
theorem noErr_wrV (lim : Nat) (a : Array UInt64) (i : Nat) (v : UInt64) : NoErr (Iter.wrV lim a i v) := by
  unfold Iter.wrV; split
  · exact noErr_wr _ _ _
  · exact noErr_panic
theorem noErr_set2 (pj : PJ) (i : Iter) (w0 w1 : UInt64) : NoErr (Iter.set2 pj i w0 w1) := by
  unfold Iter.set2; split
  · exact noErr_panic
  · exact noErr_bind (noErr_wrV _ _ _ _) fun t1 => noErr_bind (noErr_wrV _ _ _ _) fun t2 => noErr_ok _
theorem noErr_nopFill : ∀ (n : Nat) (tape : Array UInt64) (lo hi : Nat), hi - lo = n → NoErr (Iter.nopFill tape lo hi) := by
  intro n
  induction n with
  | zero =>
    intro tape lo hi h
    rw [Iter.nopFill]
    have : ¬ lo < hi := by omega
    simp only [this, dite_false]
    exact noErr_ok _
  | succ n ih =>
    intro tape lo hi h
    rw [Iter.nopFill]
    split
    · exact noErr_bind (noErr_wr _ _ _) fun t => ih t (lo + 1) hi (by omega)
    · exact noErr_ok _

theorem noErr_nopFillV (lim : Nat) : ∀ (n : Nat) (tape : Array UInt64) (lo hi : Nat), hi - lo = n →
    NoErr (Iter.nopFillV lim tape lo hi) := by
  intro n
  induction n with
  | zero =>
    intro tape lo hi h
    rw [Iter.nopFillV]
    have : ¬ lo < hi := by omega
    simp only [this, dite_false]
    exact noErr_ok _
  | succ n ih =>
    intro tape lo hi h
    rw [Iter.nopFillV]
    split
    · exact noErr_bind (noErr_wrV _ _ _ _) fun t => ih t (lo + 1) hi (by omega)
    · exact noErr_ok _

theorem noErr_runOp (pj : PJ) (i : Iter) (op : EOp) (h : gateOf op i.t = true) : NoErr (runOp pj i op) := by
  cases op with
  | setInt q z =>
    simp only [gateOf] at h
    simp only [runOp, Iter.setInt, h, if_true]
    exact noErr_bind (noErr_set2 _ _ _ _) fun _ => noErr_ok _
  | setUInt q z =>
    simp only [gateOf] at h
    simp only [runOp, Iter.setUInt, h, if_true]
    exact noErr_bind (noErr_set2 _ _ _ _) fun _ => noErr_ok _
  | setFloat q z =>
    simp only [gateOf] at h
    simp only [runOp, Iter.setFloat, h, if_true]
    exact noErr_bind (noErr_set2 _ _ _ _) fun _ => noErr_ok _
  | setString q s =>
    simp only [gateOf] at h
    simp only [runOp, Iter.setStringBytes, h, if_true]
    exact noErr_bind (noErr_set2 _ _ _ _) fun _ => noErr_ok _
  | setBool q b =>
    simp only [gateOf] at h
    simp only [runOp, Iter.setBool, h, if_true]
    split
    · exact noErr_panic
    · exact noErr_bind (noErr_wrV _ _ _ _) fun _ => noErr_ok _
  | setNull q =>
    simp only [gateOf, Bool.or_eq_true] at h
    simp only [runOp, Iter.setNull]
    split
    · split
      · exact noErr_panic
      · exact noErr_bind (noErr_wrV _ _ _ _) fun _ => noErr_ok _
    · split
      · exact noErr_bind (noErr_set2 _ _ _ _) fun _ => noErr_ok _
      · split
        · split
          · exact noErr_panic
          · exact noErr_bind (noErr_wrV _ _ _ _) fun _ => noErr_bind (noErr_nopFillV _ _ _ _ _ rfl) fun _ => noErr_ok _
        · rename_i h0 h1 h2
          rcases h with (h | h) | h
          · exact absurd h h0
          · exact absurd h h1
          · exact absurd h h2

theorem fstR_error {α β : Type} {r : Res (α × β)} {e : Err} (h : fstR r = .error e) : r = .error e := by
  cases r with
  | ok a => cases a; cases h
  | error e' => cases h; rfl
  | panic => cases h
  | diverge => cases h

/-- … so an `error` from `applyOp` is always the gate's refusal: `error` ⇔ the gate does not accept the tag. -/
theorem applyOp_error_iff (pj : PJ) (op : EOp) (e : Err) :
    applyOp pj op = .error e ↔ gateOf op (tagAt pj op.pos) = false ∧ e = .generic := by
  constructor
  · intro h
    cases hg : gateOf op (tagAt pj op.pos) with
    | false =>
      rw [applyOp_gate pj op hg] at h
      cases h
      exact ⟨rfl, rfl⟩
    | true =>
      exact absurd (fstR_error h) (noErr_runOp pj _ op (by rw [iterOn_t]; exact hg) e)
  · rintro ⟨hg, rfl⟩
    exact applyOp_gate pj op hg

/-- On a node of the document the refusal is decided by the node's constructor alone. -/
theorem applyOp_refused_iff_kind (pj : PJ) (v : LVal) (hok : Ok pj v) (op : EOp) (e : Nat) (hnode : HasNode op.pos e v) :
    ∃ n, Ok pj n ∧ n.pos = op.pos ∧ n.fin = e ∧ (applyOp pj op = .error .generic ↔ kindOK op n = false) := by
  obtain ⟨n, w, hn, hp, hf, hw, hta, _⟩ := valid_node pj v hok op.pos e hnode
  refine ⟨n, hn, hp, hf, ?_⟩
  rw [applyOp_error_iff, hta, gate_eq_kind]
  exact ⟨fun h => h.1, fun h => ⟨h, rfl⟩⟩

theorem applyOps_append (pj : PJ) (a b : List EOp) :
    applyOps pj (a ++ b) = applyOps pj a >>= fun pj' => applyOps pj' b := by
  induction a generalizing pj with
  | nil => rfl
  | cons op r ih =>
    simp only [List.cons_append, applyOps]
    cases applyOp pj op with
    | ok pj1 => exact ih pj1
    | error e => rfl
    | panic => rfl
    | diverge => rfl

/-- A refused operation yields no new tape (the model is functional: the only tape is the one passed in, which
    nothing has written to), and the rest of the sequence is not run. -/
theorem error_changes_nothing (pj : PJ) (op : EOp) (r : List EOp) (e : Err) (h : applyOp pj op = .error e) :
    (∀ pj', applyOp pj op ≠ .ok pj') ∧ applyOps pj (op :: r) = .error e ∧ (∀ pj', applyOps pj (op :: r) ≠ .ok pj') := by
  refine ⟨fun pj' h' => (by rw [h] at h'; cases h'), ?_, fun pj' h' => ?_⟩
  · simp only [applyOps, h]; rfl
  · simp only [applyOps, h] at h'; cases h'

/-- **After a valid history, a refused operation changes nothing.** If `ops` is valid and the gate of `op` does not
    accept the tag then found at `op.pos`, the call returns `error`, no tape other than the one reached by `ops`
    exists — it still holds `absOps v ops`, tight, same message and size — and the whole sequence reports that
    error without running `r`. -/
theorem history_error_changes_nothing (ops : List EOp) (pj : PJ) (v : LVal) (hok : Ok pj v) (ht : Tight v)
    (hv : ValidSeq pj v ops) (op : EOp) (r : List EOp)
    (hg : ∀ pjm, applyOps pj ops = .ok pjm → gateOf op (tagAt pjm op.pos) = false) :
    ∃ pjm, applyOps pj ops = .ok pjm ∧ applyOp pjm op = .error .generic ∧ (∀ pj', applyOp pjm op ≠ .ok pj') ∧
      Ok pjm (absOps v ops) ∧ Tight (absOps v ops) ∧ pjm.msg = pj.msg ∧ pjm.tape.size = pj.tape.size ∧
      applyOps pj (ops ++ op :: r) = .error .generic := by
  obtain ⟨pjm, h1, h2, h3, h4, h5, _⟩ := history ops pj v hok ht hv
  have he := applyOp_gate pjm op (hg pjm h1)
  obtain ⟨e1, e2, _⟩ := error_changes_nothing pjm op r .generic he
  refine ⟨pjm, h1, he, e1, h2, h3, h4, h5, ?_⟩
  rw [applyOps_append, h1]
  exact e2

/-! ## 10. Validity phrased on the document alone -/

mutual
/-- the node whose first word is at `q` (first in document order) -/
def findV (q : Nat) : LVal → Option LVal
  | .arr p e es => if p = q then some (.arr p e es) else findVs q es
  | .obj p e ms => if p = q then some (.obj p e ms) else findMs q ms
  | .null p => if p = q then some (.null p) else none
  | .bool b p => if p = q then some (.bool b p) else none
  | .int w p => if p = q then some (.int w p) else none
  | .uint w p => if p = q then some (.uint w p) else none
  | .float b f p => if p = q then some (.float b f p) else none
  | .str s p => if p = q then some (.str s p) else none
def findVs (q : Nat) : LVals → Option LVal
  | .nil => none
  | .cons v vs => match findV q v with
    | some n => some n
    | none => findVs q vs
def findMs (q : Nat) : LMems → Option LVal
  | .nil => none
  | .cons _ _ v ms => match findV q v with
    | some n => some n
    | none => findMs q ms
end

mutual
theorem find_sound (pj : PJ) (q : Nat) (n : LVal) : ∀ v : LVal, Ok pj v → findV q v = some n →
    Ok pj n ∧ n.pos = q ∧ HasNode q n.fin v
  | .null p, ho, h => by
    simp only [findV] at h; split at h
    · cases h; rename_i hp; exact ⟨ho, hp, by subst hp; exact hasNode_self (.null p)⟩
    · cases h
  | .bool b p, ho, h => by
    simp only [findV] at h; split at h
    · cases h; rename_i hp; exact ⟨ho, hp, by subst hp; exact hasNode_self (.bool b p)⟩
    · cases h
  | .int w p, ho, h => by
    simp only [findV] at h; split at h
    · cases h; rename_i hp; exact ⟨ho, hp, by subst hp; exact hasNode_self (.int w p)⟩
    · cases h
  | .uint w p, ho, h => by
    simp only [findV] at h; split at h
    · cases h; rename_i hp; exact ⟨ho, hp, by subst hp; exact hasNode_self (.uint w p)⟩
    · cases h
  | .float b g p, ho, h => by
    simp only [findV] at h; split at h
    · cases h; rename_i hp; exact ⟨ho, hp, by subst hp; exact hasNode_self (.float b g p)⟩
    · cases h
  | .str s p, ho, h => by
    simp only [findV] at h; split at h
    · cases h; rename_i hp; exact ⟨ho, hp, by subst hp; exact hasNode_self (.str s p)⟩
    · cases h
  | .arr p e es, ho, h => by
    simp only [findV] at h; split at h
    · cases h; rename_i hp; exact ⟨ho, hp, by simp only [HasNode]; exact Or.inl ⟨hp, rfl⟩⟩
    · simp only [Ok] at ho
      obtain ⟨a, b, c⟩ := finds_sound pj q n es _ _ ho.2.2.2 h
      exact ⟨a, b, by simp only [HasNode]; exact Or.inr c⟩
  | .obj p e ms, ho, h => by
    simp only [findV] at h; split at h
    · cases h; rename_i hp; exact ⟨ho, hp, by simp only [HasNode]; exact Or.inl ⟨hp, rfl⟩⟩
    · simp only [Ok] at ho
      obtain ⟨a, b, c⟩ := findsM_sound pj q n ms _ _ ho.2.2.2 h
      exact ⟨a, b, by simp only [HasNode]; exact Or.inr c⟩
theorem finds_sound (pj : PJ) (q : Nat) (n : LVal) : ∀ (vs : LVals) (lo hi : Nat), OkElems pj vs lo hi →
    findVs q vs = some n → Ok pj n ∧ n.pos = q ∧ HasNodeVs q n.fin vs
  | .nil, _, _, _, h => by simp [findVs] at h
  | .cons v vs, lo, hi, ho, h => by
    simp only [OkElems] at ho
    simp only [findVs] at h
    split at h
    · rename_i m hm
      cases h
      obtain ⟨a, b, c⟩ := find_sound pj q n v ho.2.1 hm
      exact ⟨a, b, by simp only [HasNodeVs]; exact Or.inl c⟩
    · obtain ⟨a, b, c⟩ := finds_sound pj q n vs _ _ ho.2.2.2 h
      exact ⟨a, b, by simp only [HasNodeVs]; exact Or.inr c⟩
theorem findsM_sound (pj : PJ) (q : Nat) (n : LVal) : ∀ (ms : LMems) (lo hi : Nat), OkMems pj ms lo hi →
    findMs q ms = some n → Ok pj n ∧ n.pos = q ∧ HasNodeMs q n.fin ms
  | .nil, _, _, _, h => by simp [findMs] at h
  | .cons pk k v ms, lo, hi, ho, h => by
    simp only [OkMems] at ho
    simp only [findMs] at h
    split at h
    · rename_i m hm
      cases h
      obtain ⟨a, b, c⟩ := find_sound pj q n v ho.2.2.2.1 hm
      exact ⟨a, b, by simp only [HasNodeMs]; exact Or.inl c⟩
    · obtain ⟨a, b, c⟩ := findsM_sound pj q n ms _ _ ho.2.2.2.2.2 h
      exact ⟨a, b, by simp only [HasNodeMs]; exact Or.inr c⟩
end

/-- the size bounds, on the node's constructor -/
def sideA (ssz tsz : Nat) : EOp → LVal → Prop
  | .setString _ s, _ => ssz + s.size < 2^55
  | .setNull _, .arr _ _ _ => tsz < 2^56
  | .setNull _, .obj _ _ _ => tsz < 2^56
  | _, _ => True

/-- validity of `op` in the document `v`, given only the sizes of the string buffer and the tape: a node starts
    at the addressed position and has an acceptable constructor -/
def ValidA (ssz tsz : Nat) (v : LVal) (op : EOp) : Prop :=
  ∃ n, findV op.pos v = some n ∧ kindOK op n = true ∧ sideA ssz tsz op n

/-- validity of a sequence, on documents: the string-buffer size is tracked, the tape size is constant -/
def ValidSeqA (ssz tsz : Nat) (v : LVal) : List EOp → Prop
  | [] => True
  | op :: r => ValidA ssz tsz v op ∧ ValidSeqA (ssz + op.appended.size) tsz (absOp v op) r

theorem validA_valid (pj : PJ) (v : LVal) (hok : Ok pj v) (op : EOp)
    (h : ValidA pj.strings.size pj.tape.size v op) : Valid pj v op := by
  obtain ⟨n, hfind, hkind, hside⟩ := h
  obtain ⟨hn, hp, hnode⟩ := find_sound pj op.pos n v hok hfind
  obtain ⟨w, hw, ht⟩ := ok_head pj n hn
  rw [hp] at hw
  have hta : tagAt pj op.pos = tagOfL n := by rw [tagAt_of hw, ht]
  refine ⟨⟨_, hnode⟩, by rw [hta, gate_eq_kind]; exact hkind, ?_⟩
  cases op with
  | setInt q z => trivial
  | setUInt q z => trivial
  | setFloat q z => trivial
  | setBool q b => trivial
  | setString q s => exact hside
  | setNull q =>
    simp only [side, EOp.pos] at hta ⊢
    rw [hta]
    intro h2
    cases n with
    | arr p e es => exact hside
    | obj p e ms => exact hside
    | bool b p => cases b <;> simp only [tagOfL, if_true, Bool.false_eq_true, if_false] at h2 <;> exact absurd h2 (by decide)
    | _ => simp only [tagOfL] at h2; exact absurd h2 (by decide)

theorem applyOp_det {pj : PJ} {op : EOp} {a b : PJ} (ha : applyOp pj op = .ok a) (hb : applyOp pj op = .ok b) : a = b := by
  rw [ha] at hb; cases hb; rfl

theorem validSeq_of_abs : ∀ (ops : List EOp) (pj : PJ) (v : LVal), Ok pj v →
    ValidSeqA pj.strings.size pj.tape.size v ops → ValidSeq pj v ops := by
  intro ops
  induction ops with
  | nil => intro pj v _ _; trivial
  | cons op r ih =>
    intro pj v hok hv
    obtain ⟨hv1, hv2⟩ := hv
    have hvalid := validA_valid pj v hok op hv1
    refine ⟨hvalid, fun pj' hp => ?_⟩
    obtain ⟨pj1, h1, h2, h3, h4, h5⟩ := step pj v op hok hvalid
    have hdet := applyOp_det h1 hp
    subst hdet
    apply ih pj1 _ h2
    rw [h3, h5, Array.size_append]
    exact hv2

/-- **Main theorem, validity on documents.** -/
theorem history_abs (ops : List EOp) (pj : PJ) (v : LVal) (hok : Ok pj v) (ht : Tight v)
    (hv : ValidSeqA pj.strings.size pj.tape.size v ops) :
    ∃ pj', applyOps pj ops = .ok pj' ∧ Ok pj' (absOps v ops) ∧ Tight (absOps v ops) ∧ pj'.msg = pj.msg ∧
      pj'.tape.size = pj.tape.size ∧ pj'.strings = pj.strings ++ appendedAll ops :=
  history ops pj v hok ht (validSeq_of_abs ops pj v hok hv)

/-! ## 11. Non-vacuity: a concrete tape and a four-step history -/

/-- the tape of `[1,"a",{"k":true}]` -/
def exPJ : PJ :=
  { tape := #[mkWord tagRoot 13, mkWord tagArrayStart 12, mkWord tagInteger 0, 1, mkWord tagString 0, 1,
              mkWord tagObjectStart 11, mkWord tagString 1, 1, mkWord tagBoolTrue 0, mkWord tagObjectEnd 6,
              mkWord tagArrayEnd 1, mkWord tagRoot 0],
    strings := #[], msg := #[97, 107] }

def exDoc : LVal :=
  .arr 1 12 (.cons (.int 1 2) (.cons (.str [97] 4) (.cons (.obj 6 11 (.cons 7 [107] (.bool true 9) .nil)) .nil)))

/-- `SetString("hi")` on the integer, `SetNull` on the object, `SetBool(true)` on the null just written,
    `SetInt(-7)` on the string -/
def exOps : List EOp := [.setString 2 #[104, 105], .setNull 6, .setBool 6 true, .setInt 4 (-7)]

/-- `["hi",-7,true]` at the old positions -/
def exDoc' : LVal :=
  .arr 1 12 (.cons (.str [104, 105] 2) (.cons (.int (ofInt64 (-7)) 4) (.cons (.bool true 6) .nil)))

def exPJ' : PJ :=
  { tape := #[mkWord tagRoot 13, mkWord tagArrayStart 12, mkWord tagString wSTRINGBUFBIT, 2, mkWord tagInteger 0, ofInt64 (-7),
              mkWord tagBoolTrue 0, mkWord tagNop 4, mkWord tagNop 3, mkWord tagNop 2, mkWord tagNop 1,
              mkWord tagArrayEnd 1, mkWord tagRoot 0],
    strings := #[104, 105], msg := #[97, 107] }

theorem exOk : Ok exPJ exDoc := by
  simp only [exDoc, Ok, OkElems, OkMems, StrAt, LVal.pos, LVal.fin]
  refine ⟨by omega, ⟨_, rfl, by decide, by decide⟩, ⟨_, rfl, by decide, by decide⟩,
    gap_refl _ _, ⟨_, rfl, by decide, rfl⟩, by omega,
    gap_refl _ _, ⟨_, _, rfl, rfl, by decide, rfl⟩, by omega,
    gap_refl _ _, ⟨by omega, ⟨_, rfl, by decide, by decide⟩, ⟨_, rfl, by decide, by decide⟩,
      gap_refl _ _, ⟨_, _, rfl, rfl, by decide, rfl⟩, gap_refl _ _, ⟨_, rfl, by decide⟩, by omega, gap_refl _ _⟩,
    by omega, gap_refl _ _⟩

theorem exTight : Tight exDoc := by simp [exDoc, Tight, TightVs, TightMs, LVal.pos]

theorem exAbs : absOps exDoc exOps = exDoc' := by rfl

theorem exValidA : ValidSeqA exPJ.strings.size exPJ.tape.size exDoc exOps :=
  And.intro ⟨_, rfl, rfl, by simp only [sideA]; decide⟩ <| And.intro ⟨_, rfl, rfl, by simp only [sideA]; decide⟩ <|
  And.intro ⟨_, rfl, rfl, trivial⟩ <| And.intro ⟨_, rfl, rfl, trivial⟩ trivial

theorem exValid : ValidSeq exPJ exDoc exOps := validSeq_of_abs exOps exPJ exDoc exOk exValidA

/-- Boolean comparison of an outcome with an expected tape (for `decide`) -/
def resIs (r : Res PJ) (p : PJ) : Bool :=
  match r with
  | .ok a => a.tape == p.tape && a.strings == p.strings && a.msg == p.msg
  | _ => false
theorem resIs_eq {r : Res PJ} {p : PJ} (h : resIs r p = true) : r = .ok p := by
  cases r with
  | ok a =>
    cases a; cases p
    simp only [resIs, Bool.and_eq_true, beq_iff_eq] at h
    obtain ⟨⟨h1, h2⟩, h3⟩ := h
    subst h1 h2 h3; rfl
  | error _ => cases h
  | panic => cases h
  | diverge => cases h

/-- the model, run on the concrete tape -/
theorem exRun : applyOps exPJ exOps = .ok exPJ' := resIs_eq (by decide +kernel)

/-- the hypotheses of `history` are satisfiable, and its conclusion is what the run shows -/
example : Ok exPJ' exDoc' ∧ Tight exDoc' ∧
    owalkValue exPJ' (iterOn exPJ' 1) (fuelOf exPJ') = .ok (.arr [.str #[104, 105], .int (-7), .bool true]) := by
  obtain ⟨pj', h1, h2, h3, _⟩ := history exOps exPJ exDoc exOk exTight exValid
  obtain ⟨pj'', g1, g2⟩ := history_readback_iterOn exOps exPJ exDoc exOk exTight exValid
  rw [exRun] at h1 g1
  cases h1; cases g1
  rw [exAbs] at h2 h3 g2
  exact ⟨h2, h3, g2⟩

def resIsErr (r : Res PJ) : Bool :=
  match r with
  | .error .generic => true
  | _ => false
theorem resIsErr_eq {r : Res PJ} (h : resIsErr r = true) : r = .error .generic := by
  cases r with
  | ok a => cases h
  | error e => cases e <;> first | rfl | cases h
  | panic => cases h
  | diverge => cases h

/-- a refused step: `SetBool` on the string at 4 — `error`, by the gate lemma and by running the model; the
    sequence stops there -/
example : applyOp exPJ (.setBool 4 false) = .error .generic ∧
    applyOps exPJ [.setInt 2 5, .setBool 4 false, .setNull 6] = .error .generic :=
  ⟨applyOp_gate _ _ (by decide), resIsErr_eq (by decide +kernel)⟩

end SJ.EditHistory
