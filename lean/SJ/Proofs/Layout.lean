import SJ.Model.Access
import SJ.Model.WF
import SJ.Proofs.Tables
/-
`Layout`: what it means for a region of a tape to *denote* a document value, with gaps (runs of
NOP entries) allowed before, between and after values.  The predicates are defined by structural
recursion on the document, so that induction over documents proves statements about every tape
reachable by parsing and editing.
-/
namespace SJ.Layout
open SJ SJ.Generated

mutual
/-- abstract documents (mutual inductive rather than nested `List`, so structural recursion works) -/
inductive JVal where
  | null
  | bool (b : Bool)
  | int (w : UInt64)                       -- the 64-bit value word (two's complement)
  | uint (w : UInt64)
  | float (bits : UInt64) (flags : UInt64) -- payload of the tag word = flags
  | str (s : List UInt8)
  | arr (es : JVals)
  | obj (ms : JMems)
inductive JVals where
  | nil
  | cons (v : JVal) (vs : JVals)
inductive JMems where
  | nil
  | cons (k : List UInt8) (v : JVal) (ms : JMems)
end

/-- the word at position `p`, if any -/
@[inline] def word (pj : PJ) (p : Nat) : Option UInt64 := pj.tape[p]?

/-- `[p, q)` consists of NOP entries whose skip counts are ≥ 1 and stay inside `[p, q]`:
    a walk that adds skip counts can enter anywhere in the gap and arrives exactly at `q`
    or at a later NOP of the same gap. -/
def Gap (pj : PJ) (p q : Nat) : Prop :=
  p ≤ q ∧ ∀ k, p ≤ k → k < q → ∃ w, word pj k = some w ∧ tagOf w = tagNop ∧ 1 ≤ (payloadOf w).toNat ∧ k + (payloadOf w).toNat ≤ q

/-- a string entry at `p` (tag word + length word) denoting the bytes `s` -/
def StrAt (pj : PJ) (s : List UInt8) (p : Nat) : Prop :=
  ∃ w len, word pj p = some w ∧ word pj (p + 1) = some len ∧ tagOf w = tagString ∧
    stringByteAt pj (payloadOf w) len = .ok s.toArray

mutual
/-- the words `[p, e)` are exactly the encoding of `v` (no gap at either end) -/
def ValAt (pj : PJ) : JVal → Nat → Nat → Prop
  | .null, p, e => e = p + 1 ∧ ∃ w, word pj p = some w ∧ tagOf w = tagNull
  | .bool b, p, e => e = p + 1 ∧ ∃ w, word pj p = some w ∧ tagOf w = (if b then tagBoolTrue else tagBoolFalse)
  | .int v, p, e => e = p + 2 ∧ ∃ w, word pj p = some w ∧ tagOf w = tagInteger ∧ word pj (p + 1) = some v
  | .uint v, p, e => e = p + 2 ∧ ∃ w, word pj p = some w ∧ tagOf w = tagUint ∧ word pj (p + 1) = some v
  | .float b f, p, e => e = p + 2 ∧ ∃ w, word pj p = some w ∧ tagOf w = tagFloat ∧ payloadOf w = f ∧ word pj (p + 1) = some b
  | .str s, p, e => e = p + 2 ∧ StrAt pj s p
  | .arr es, p, e => p + 2 ≤ e ∧ (∃ w, word pj p = some w ∧ tagOf w = tagArrayStart ∧ (payloadOf w).toNat = e) ∧
      (∃ c, word pj (e - 1) = some c ∧ tagOf c = tagArrayEnd ∧ (payloadOf c).toNat = p) ∧ ElemsAt pj es (p + 1) (e - 1)
  | .obj ms, p, e => p + 2 ≤ e ∧ (∃ w, word pj p = some w ∧ tagOf w = tagObjectStart ∧ (payloadOf w).toNat = e) ∧
      (∃ c, word pj (e - 1) = some c ∧ tagOf c = tagObjectEnd ∧ (payloadOf c).toNat = p) ∧ MemsAt pj ms (p + 1) (e - 1)
/-- `[lo, hi)` holds the values `vs` in order, with gaps before, between and after them -/
def ElemsAt (pj : PJ) : JVals → Nat → Nat → Prop
  | .nil, lo, hi => Gap pj lo hi
  | .cons v vs, lo, hi => ∃ p e, Gap pj lo p ∧ ValAt pj v p e ∧ e ≤ hi ∧ ElemsAt pj vs e hi
/-- `[lo, hi)` holds the members `ms` in order; a gap may also separate a key from its value -/
def MemsAt (pj : PJ) : JMems → Nat → Nat → Prop
  | .nil, lo, hi => Gap pj lo hi
  | .cons k v ms, lo, hi => ∃ pk p e, Gap pj lo pk ∧ StrAt pj k pk ∧ Gap pj (pk + 2) p ∧ ValAt pj v p e ∧ e ≤ hi ∧ MemsAt pj ms e hi
end

/-- roots: `r` word at `p` pointing one past the closing `r` word, which points back -/
def RootAt (pj : PJ) (v : JVal) (p e : Nat) : Prop :=
  p + 2 ≤ e ∧ (∃ w, word pj p = some w ∧ tagOf w = tagRoot ∧ (payloadOf w).toNat = e) ∧
  (∃ c, word pj (e - 1) = some c ∧ tagOf c = tagRoot ∧ (payloadOf c).toNat = p) ∧
  ∃ q f, Gap pj (p + 1) q ∧ ValAt pj v q f ∧ Gap pj f (e - 1)

/-- the tape denotes the list of root values `d` -/
def RootsAt (pj : PJ) : List JVal → Nat → Prop
  | [], p => Gap pj p pj.tape.size
  | v :: vs, p => ∃ q e, Gap pj p q ∧ RootAt pj v q e ∧ RootsAt pj vs e

def WF (pj : PJ) (d : List JVal) : Prop := RootsAt pj d 0

-- Frame: the predicates only look at the words of their range and at the strings they reference -----------

/-- `pj'` agrees with `pj` on the tape range `[lo, hi)` and resolves every string reference the same way -/
structure Agree (pj pj' : PJ) (lo hi : Nat) : Prop where
  words : ∀ k, lo ≤ k → k < hi → word pj' k = word pj k
  strs  : ∀ o l s, stringByteAt pj o l = .ok s → stringByteAt pj' o l = .ok s

theorem Agree.mono {pj pj' : PJ} {lo hi lo' hi' : Nat} (h : Agree pj pj' lo hi) (h1 : lo ≤ lo') (h2 : hi' ≤ hi) :
    Agree pj pj' lo' hi' :=
  ⟨fun k a b => h.words k (by omega) (by omega), h.strs⟩

theorem gap_frame {pj pj' : PJ} {lo hi p q : Nat} (h : Agree pj pj' lo hi) (hp : lo ≤ p) (hq : q ≤ hi) :
    Gap pj p q → Gap pj' p q := by
  rintro ⟨hpq, hg⟩
  refine ⟨hpq, fun k hk1 hk2 => ?_⟩
  obtain ⟨w, hw, r⟩ := hg k hk1 hk2
  exact ⟨w, by rw [h.words k (by omega) (by omega)]; exact hw, r⟩

theorem strAt_frame {pj pj' : PJ} {lo hi p : Nat} {s : List UInt8} (h : Agree pj pj' lo hi) (hp : lo ≤ p) (hq : p + 2 ≤ hi) :
    StrAt pj s p → StrAt pj' s p := by
  rintro ⟨w, len, h1, h2, h3, h4⟩
  exact ⟨w, len, by rw [h.words p hp (by omega)]; exact h1, by rw [h.words (p+1) (by omega) (by omega)]; exact h2, h3, h.strs _ _ _ h4⟩

theorem gap_refl (pj : PJ) (p : Nat) : Gap pj p p := ⟨Nat.le_refl _, fun k a b => by omega⟩

theorem gap_le {pj : PJ} {p q : Nat} (h : Gap pj p q) : p ≤ q := h.1

theorem gap_trans {pj : PJ} {p q r : Nat} (h1 : Gap pj p q) (h2 : Gap pj q r) : Gap pj p r := by
  refine ⟨Nat.le_trans h1.1 h2.1, fun k a b => ?_⟩
  by_cases hk : k < q
  · obtain ⟨w, hw, t, s1, s2⟩ := h1.2 k a hk
    exact ⟨w, hw, t, s1, Nat.le_trans s2 h2.1⟩
  · exact h2.2 k (by omega) b

theorem valAt_lo_le_hi {pj : PJ} {v : JVal} {p e : Nat} (h : ValAt pj v p e) : p < e := by
  cases v <;> simp only [ValAt] at h <;> omega

mutual
theorem valAt_frame {pj pj' : PJ} {lo hi : Nat} (h : Agree pj pj' lo hi) :
    ∀ (v : JVal) (p e : Nat), lo ≤ p → e ≤ hi → ValAt pj v p e → ValAt pj' v p e
  | .null, p, e, hp, he, hv => by
    simp only [ValAt] at hv ⊢
    obtain ⟨h1, w, h2, h3⟩ := hv
    exact ⟨h1, w, by rw [h.words p hp (by omega)]; exact h2, h3⟩
  | .bool b, p, e, hp, he, hv => by
    simp only [ValAt] at hv ⊢
    obtain ⟨h1, w, h2, h3⟩ := hv
    exact ⟨h1, w, by rw [h.words p hp (by omega)]; exact h2, h3⟩
  | .int v, p, e, hp, he, hv => by
    simp only [ValAt] at hv ⊢
    obtain ⟨h1, w, h2, h3, h4⟩ := hv
    exact ⟨h1, w, by rw [h.words p hp (by omega)]; exact h2, h3, by rw [h.words (p+1) (by omega) (by omega)]; exact h4⟩
  | .uint v, p, e, hp, he, hv => by
    simp only [ValAt] at hv ⊢
    obtain ⟨h1, w, h2, h3, h4⟩ := hv
    exact ⟨h1, w, by rw [h.words p hp (by omega)]; exact h2, h3, by rw [h.words (p+1) (by omega) (by omega)]; exact h4⟩
  | .float b f, p, e, hp, he, hv => by
    simp only [ValAt] at hv ⊢
    obtain ⟨h1, w, h2, h3, h4, h5⟩ := hv
    exact ⟨h1, w, by rw [h.words p hp (by omega)]; exact h2, h3, h4, by rw [h.words (p+1) (by omega) (by omega)]; exact h5⟩
  | .str s, p, e, hp, he, hv => by
    simp only [ValAt] at hv ⊢
    exact ⟨hv.1, strAt_frame h hp (by omega) hv.2⟩
  | .arr es, p, e, hp, he, hv => by
    simp only [ValAt] at hv ⊢
    obtain ⟨h1, ⟨w, h2, h3, h4⟩, ⟨c, h5, h6, h7⟩, h8⟩ := hv
    exact ⟨h1, ⟨w, by rw [h.words p hp (by omega)]; exact h2, h3, h4⟩,
      ⟨c, by rw [h.words (e-1) (by omega) (by omega)]; exact h5, h6, h7⟩,
      elemsAt_frame h es (p+1) (e-1) (by omega) (by omega) h8⟩
  | .obj ms, p, e, hp, he, hv => by
    simp only [ValAt] at hv ⊢
    obtain ⟨h1, ⟨w, h2, h3, h4⟩, ⟨c, h5, h6, h7⟩, h8⟩ := hv
    exact ⟨h1, ⟨w, by rw [h.words p hp (by omega)]; exact h2, h3, h4⟩,
      ⟨c, by rw [h.words (e-1) (by omega) (by omega)]; exact h5, h6, h7⟩,
      memsAt_frame h ms (p+1) (e-1) (by omega) (by omega) h8⟩
theorem elemsAt_frame {pj pj' : PJ} {lo hi : Nat} (h : Agree pj pj' lo hi) :
    ∀ (vs : JVals) (a b : Nat), lo ≤ a → b ≤ hi → ElemsAt pj vs a b → ElemsAt pj' vs a b
  | .nil, a, b, ha, hb, hv => by
    simp only [ElemsAt] at hv ⊢
    exact gap_frame h ha hb hv
  | .cons v vs, a, b, ha, hb, hv => by
    simp only [ElemsAt] at hv ⊢
    obtain ⟨p, e, g, hv1, he, rest⟩ := hv
    have hap := gap_le g
    have hpe := valAt_lo_le_hi hv1
    exact ⟨p, e, gap_frame h ha (by omega) g, valAt_frame h v p e (by omega) (by omega) hv1, he,
      elemsAt_frame h vs e b (by omega) hb rest⟩
theorem memsAt_frame {pj pj' : PJ} {lo hi : Nat} (h : Agree pj pj' lo hi) :
    ∀ (ms : JMems) (a b : Nat), lo ≤ a → b ≤ hi → MemsAt pj ms a b → MemsAt pj' ms a b
  | .nil, a, b, ha, hb, hv => by
    simp only [MemsAt] at hv ⊢
    exact gap_frame h ha hb hv
  | .cons k v ms, a, b, ha, hb, hv => by
    simp only [MemsAt] at hv ⊢
    obtain ⟨pk, p, e, g1, hs, g2, hv1, he, rest⟩ := hv
    have h1 := gap_le g1
    have h2 := gap_le g2
    have h3 := valAt_lo_le_hi hv1
    exact ⟨pk, p, e, gap_frame h ha (by omega) g1, strAt_frame h (by omega) (by omega) hs, gap_frame h (by omega) (by omega) g2,
      valAt_frame h v p e (by omega) (by omega) hv1, he, memsAt_frame h ms e b (by omega) hb rest⟩
end

end SJ.Layout
