import SJ.Proofs.F64RoundPos
/-
`roundDecimal` on decimals inside the rounding interval of a binary64 (`roundDecimal_of_inside`).

* `roundPos_int_inside`   : integers `N` inside the interval round to the float (`roundPos N 0 false`).
* `roundPos_frac_inside`  : fractions `d/D` inside the interval do, through the 70-extra-bits quotient and
                            the sticky bit, exactly as `roundDecimal` computes them (any denominator `D > 0`).
* `insideB`               : the Boolean `inside d k` of `shortestFrom`, as a top-level definition
                            (`shortestFrom_eq`: by `rfl`).
* `cmpScaled_shift`, `insideB_shift` : `(d·10^z, k)` and `(d, k+z)` compare alike.
* `roundDecimal_of_inside`.
-/
namespace SJ.F64Round
open SJ SJ.F64 SJ.Numeric SJ.FloatFmt

/-! ## 1. Integers and fractions inside the interval -/

/-- scale of the interval ends: `lo = loNum·2^shOf / 2^bjOf`, likewise `hi` -/
def shOf (ex : Nat) : Nat := (expOf ex - 2).toNat
def bjOf (ex : Nat) : Nat := (2 - expOf ex).toNat

theorem loNum_pos (ex fr : Nat) (hne : mantOf ex fr ≠ 0) : 2 ≤ loNum ex fr := by
  unfold loNum; split <;> omega

theorem hiNum_le (ex fr : Nat) (_hex : ex < 2047) (hfr : fr < 2 ^ 52) : hiNum ex fr < 2 ^ 55 := by
  unfold hiNum mantOf; split <;> omega

theorem expOf_bounds (ex : Nat) (hex : ex < 2047) : -1074 ≤ expOf ex ∧ expOf ex ≤ 971 := by
  unfold expOf; split <;> omega

theorem roundPos_int_inside (ex fr N : Nat) (hex : ex < 2047) (hfr : fr < 2 ^ 52) (hne : mantOf ex fr ≠ 0)
    (hlo : loNum ex fr * 2 ^ shOf ex ≤ N * 2 ^ bjOf ex)
    (hhi : N * 2 ^ bjOf ex ≤ hiNum ex fr * 2 ^ shOf ex)
    (hodd : mantOf ex fr % 2 = 1 →
      loNum ex fr * 2 ^ shOf ex < N * 2 ^ bjOf ex ∧ N * 2 ^ bjOf ex < hiNum ex fr * 2 ^ shOf ex) :
    roundPos N 0 false = some (bitsOf ex fr) := by
  have hN : N ≠ 0 := by
    intro h; subst h
    have h1 := loNum_pos ex fr hne
    have h2 : 1 * 1 ≤ loNum ex fr * 2 ^ shOf ex := Nat.mul_le_mul (by omega) (two_pow_pos _)
    omega
  rw [← roundPos_scale N (bjOf ex) 0 hN]
  apply roundPos_interval ex fr _ (shOf ex) _ hex hfr hne ?_ hlo hhi hodd
  unfold shOf bjOf; omega

theorem roundPos_frac_inside (ex fr d D : Nat) (hex : ex < 2047) (hfr : fr < 2 ^ 52)
    (hne : mantOf ex fr ≠ 0) (hD : 0 < D)
    (hlo : loNum ex fr * 2 ^ shOf ex * D ≤ d * 2 ^ bjOf ex)
    (hhi : d * 2 ^ bjOf ex ≤ hiNum ex fr * 2 ^ shOf ex * D)
    (hodd : mantOf ex fr % 2 = 1 →
      loNum ex fr * 2 ^ shOf ex * D < d * 2 ^ bjOf ex ∧ d * 2 ^ bjOf ex < hiNum ex fr * 2 ^ shOf ex * D) :
    roundPos (d * 2 ^ (D.log2 + 70) / D) (-((D.log2 + 70 : Nat) : Int)) (d * 2 ^ (D.log2 + 70) % D != 0) =
      some (bitsOf ex fr) := by
  have hD0 : D ≠ 0 := by omega
  obtain ⟨hD1, hD2⟩ := log2_bounds D hD0
  have hl2 := loNum_pos ex fr hne
  have hh55 := hiNum_le ex fr hex hfr
  obtain ⟨he1, he2⟩ := expOf_bounds ex hex
  have hd : 1 ≤ d := by
    have h2 : 1 * 1 * 1 ≤ loNum ex fr * 2 ^ shOf ex * D :=
      Nat.mul_le_mul (Nat.mul_le_mul (by omega) (two_pow_pos _)) hD
    rcases Nat.eq_zero_or_pos d with h | h
    · subst h; omega
    · exact h
  generalize hkk : D.log2 + 70 = kk at *
  generalize hnum : d * 2 ^ kk = num at *
  -- the quotient carries at least 70 bits
  have hn69 : 2 ^ 69 ≤ num / D := by
    rw [Nat.le_div_iff_mul_le hD]
    have h1 : 2 ^ 69 * D ≤ 2 ^ 69 * 2 ^ (D.log2 + 1) := Nat.mul_le_mul_left _ (Nat.le_of_lt hD2)
    rw [← Nat.pow_add] at h1
    have h2 : 69 + (D.log2 + 1) = kk := by omega
    rw [h2] at h1
    have h3 : 1 * 2 ^ kk ≤ d * 2 ^ kk := Nat.mul_le_mul_right _ hd
    omega
  have hn0 : num / D ≠ 0 := by omega
  have hlog : 69 ≤ (num / D).log2 := (Nat.le_log2 hn0).mpr hn69
  have het : -(kk : Int) < etOf (num / D) (-(kk : Int)) := by unfold etOf; omega
  rw [roundPos_sticky _ _ _ hn0 het]
  -- the exponent of the float is far above `-kk`
  have hek : 16 < expOf ex + (kk : Int) := by
    have h1 : 1 * 2 ^ bjOf ex ≤ d * 2 ^ bjOf ex := Nat.mul_le_mul_right _ hd
    have h2 : hiNum ex fr * 2 ^ shOf ex * D < 2 ^ 55 * 2 ^ shOf ex * 2 ^ (D.log2 + 1) := by
      have a1 : hiNum ex fr * 2 ^ shOf ex ≤ 2 ^ 55 * 2 ^ shOf ex := Nat.mul_le_mul_right _ (by omega)
      calc hiNum ex fr * 2 ^ shOf ex * D ≤ 2 ^ 55 * 2 ^ shOf ex * D := Nat.mul_le_mul_right _ a1
        _ < 2 ^ 55 * 2 ^ shOf ex * 2 ^ (D.log2 + 1) :=
            Nat.mul_lt_mul_of_pos_left hD2 (Nat.mul_pos (by decide) (two_pow_pos _))
    rw [← Nat.pow_add, ← Nat.pow_add] at h2
    have h3 : 2 ^ bjOf ex < 2 ^ (55 + shOf ex + (D.log2 + 1)) := by omega
    have h4 := (Nat.pow_lt_pow_iff_right (by decide : 1 < 2)).mp h3
    unfold shOf bjOf at h4
    omega
  obtain ⟨t, ht⟩ : ∃ t : Nat, (t : Int) = expOf ex + (kk : Int) - 2 := ⟨(expOf ex + (kk : Int) - 2).toNat, by omega⟩
  have hpw : 2 ^ shOf ex * 2 ^ kk = 2 ^ t * 2 ^ bjOf ex := by
    rw [← Nat.pow_add, ← Nat.pow_add]; congr 1
    unfold shOf bjOf; omega
  have hBpos := two_pow_pos (bjOf ex)
  -- the interval ends, scaled to units of `2^-kk`, are integers
  have key : ∀ c : Nat, c * 2 ^ shOf ex * D * 2 ^ kk = c * 2 ^ t * D * 2 ^ bjOf ex := by
    intro c
    calc c * 2 ^ shOf ex * D * 2 ^ kk = c * (2 ^ shOf ex * 2 ^ kk) * D := by ac_rfl
      _ = c * (2 ^ t * 2 ^ bjOf ex) * D := by rw [hpw]
      _ = c * 2 ^ t * D * 2 ^ bjOf ex := by ac_rfl
  have keyd : d * 2 ^ bjOf ex * 2 ^ kk = num * 2 ^ bjOf ex := by
    rw [← hnum]; ac_rfl
  have le_conv : ∀ c : Nat, c * 2 ^ shOf ex * D ≤ d * 2 ^ bjOf ex → c * 2 ^ t * D ≤ num := by
    intro c h
    have := Nat.mul_le_mul_right (2 ^ kk) h
    rw [key, keyd] at this
    exact Nat.le_of_mul_le_mul_right this hBpos
  have lt_conv : ∀ c : Nat, c * 2 ^ shOf ex * D < d * 2 ^ bjOf ex → c * 2 ^ t * D < num := by
    intro c h
    have := Nat.mul_lt_mul_of_pos_right h (two_pow_pos kk)
    rw [key, keyd] at this
    exact Nat.lt_of_mul_lt_mul_right this
  have ge_conv : ∀ c : Nat, d * 2 ^ bjOf ex ≤ c * 2 ^ shOf ex * D → num ≤ c * 2 ^ t * D := by
    intro c h
    have := Nat.mul_le_mul_right (2 ^ kk) h
    rw [key, keyd] at this
    exact Nat.le_of_mul_le_mul_right this hBpos
  have gt_conv : ∀ c : Nat, d * 2 ^ bjOf ex < c * 2 ^ shOf ex * D → num < c * 2 ^ t * D := by
    intro c h
    have := Nat.mul_lt_mul_of_pos_right h (two_pow_pos kk)
    rw [key, keyd] at this
    exact Nat.lt_of_mul_lt_mul_right this
  have hdm := Nat.div_add_mod num D
  have hr : num % D < D := Nat.mod_lt _ hD
  have hst : (num % D != 0).toNat = if num % D = 0 then 0 else 1 := by
    by_cases h : num % D = 0 <;> simp [h]
  have p1 : ∀ c : Nat, c * 2 ^ (t + 1) = 2 * (c * 2 ^ t) := by
    intro c; rw [Nat.pow_succ]; ac_rfl
  -- comparisons of the doubled quotient with the (integral) interval ends
  have lo_le : ∀ A : Nat, A * D ≤ num → 2 * A ≤ 2 * (num / D) + (num % D != 0).toNat := by
    intro A h
    have := (Nat.le_div_iff_mul_le hD).mpr h
    omega
  have lo_lt : ∀ A : Nat, A * D < num → 2 * A < 2 * (num / D) + (num % D != 0).toNat := by
    intro A h
    have h1 := (Nat.le_div_iff_mul_le hD).mpr (Nat.le_of_lt h)
    rcases Nat.lt_or_ge A (num / D) with h2 | h2
    · omega
    · have h3 : A = num / D := by omega
      have h4 : num % D ≠ 0 := by
        intro h0; rw [h0, Nat.add_zero, ← h3, Nat.mul_comm] at hdm; omega
      rw [hst, if_neg h4]; omega
  have hi_lt : ∀ C : Nat, num < C * D → 2 * (num / D) + (num % D != 0).toNat < 2 * C := by
    intro C h
    have := (Nat.div_lt_iff_lt_mul hD).mpr h
    rw [hst]; split <;> omega
  have hi_le : ∀ C : Nat, num ≤ C * D → 2 * (num / D) + (num % D != 0).toNat ≤ 2 * C := by
    intro C h
    rcases Nat.lt_or_ge (num / D) C with h2 | h2
    · rw [hst]; split <;> omega
    · have h3 : num / D ≤ C := Nat.div_le_of_le_mul (by rw [Nat.mul_comm]; exact h)
      have h4 : num / D = C := by omega
      have h5 : num % D = 0 := by
        rw [h4, Nat.mul_comm] at hdm; omega
      rw [hst, if_pos h5]; omega
  apply roundPos_interval ex fr _ (t + 1) _ hex hfr hne
  · omega
  · rw [p1]; exact lo_le _ (le_conv _ hlo)
  · rw [p1]; exact hi_le _ (ge_conv _ hhi)
  · intro ho
    obtain ⟨s1, s2⟩ := hodd ho
    rw [p1, p1]
    exact ⟨lo_lt _ (lt_conv _ s1), hi_lt _ (gt_conv _ s2)⟩

/-! ## 2. `cmpScaled` and `inside` -/

theorem cmpScaled_eq (d : Nat) (k : Int) (x b : Nat) :
    cmpScaled d k x b = compare (d * 10 ^ k.toNat * b) (x * 10 ^ (-k).toNat) := by
  unfold cmpScaled
  by_cases h : k ≥ 0
  · have : (-k).toNat = 0 := by omega
    rw [if_pos h, this]; simp
  · have h1 : k.toNat = 0 := by omega
    have h2 : (-k).toNat = k.natAbs := by omega
    rw [if_neg h, h1, h2]; simp

theorem compare_mul_right (a b c : Nat) (hc : 0 < c) : compare (a * c) (b * c) = compare a b := by
  rcases Nat.lt_trichotomy a b with h | h | h
  · rw [Nat.compare_eq_lt.mpr h, Nat.compare_eq_lt.mpr (Nat.mul_lt_mul_of_pos_right h hc)]
  · subst h; rw [Nat.compare_eq_eq.mpr rfl, Nat.compare_eq_eq.mpr rfl]
  · rw [Nat.compare_eq_gt.mpr h, Nat.compare_eq_gt.mpr (Nat.mul_lt_mul_of_pos_right h hc)]

theorem ten_pow_pos (a : Nat) : 0 < 10 ^ a := Nat.pow_pos (by decide)

/-- trailing zeros of the digits can be moved into the exponent -/
theorem cmpScaled_shift (d z : Nat) (k : Int) (x b : Nat) :
    cmpScaled (d * 10 ^ z) k x b = cmpScaled d (k + z) x b := by
  rw [cmpScaled_eq, cmpScaled_eq]
  rw [← compare_mul_right _ _ (10 ^ (-(k + z)).toNat) (ten_pow_pos _),
      ← compare_mul_right (d * 10 ^ (k + z).toNat * b) _ (10 ^ (-k).toNat) (ten_pow_pos _)]
  have e1 : d * 10 ^ z * 10 ^ k.toNat * b * 10 ^ (-(k + (z : Int))).toNat =
      d * b * (10 ^ z * 10 ^ k.toNat * 10 ^ (-(k + (z : Int))).toNat) := by ac_rfl
  have e2 : d * 10 ^ (k + (z : Int)).toNat * b * 10 ^ (-k).toNat =
      d * b * (10 ^ (k + (z : Int)).toNat * 10 ^ (-k).toNat) := by ac_rfl
  have e3 : 10 ^ z * 10 ^ k.toNat * 10 ^ (-(k + (z : Int))).toNat =
      10 ^ (k + (z : Int)).toNat * 10 ^ (-k).toNat := by
    rw [← Nat.pow_add, ← Nat.pow_add, ← Nat.pow_add]; congr 1; omega
  have e4 : x * 10 ^ (-k).toNat * 10 ^ (-(k + (z : Int))).toNat =
      x * 10 ^ (-(k + (z : Int))).toNat * 10 ^ (-k).toNat := by ac_rfl
  rw [e1, e2, e3, e4]

/-- the Boolean `inside d k` of `shortestFrom` -/
def insideB (mant : Nat) (e2 : Int) (lowerClose : Bool) (d : Nat) (k : Int) : Bool :=
  let sh : Nat := if e2 - 2 ≥ 0 then (e2 - 2).toNat else 0
  let b : Nat := if e2 - 2 ≥ 0 then 1 else 2 ^ (2 - e2).toNat
  let hi := (4 * mant + 2) * 2 ^ sh
  let lo := (if lowerClose then 4 * mant - 1 else 4 * mant - 2) * 2 ^ sh
  let incl := mant % 2 == 0
  let cl := cmpScaled d k lo b
  let ch := cmpScaled d k hi b
  (cl == .gt || (incl && cl == .eq)) && (ch == .lt || (incl && ch == .eq))

/-- denominators and numerators `shortestFrom` works with -/
def bOfE (e2 : Int) : Nat := if e2 - 2 ≥ 0 then 1 else 2 ^ (2 - e2).toNat
def vOfE (mant : Nat) (e2 : Int) : Nat := 4 * mant * 2 ^ (if e2 - 2 ≥ 0 then (e2 - 2).toNat else 0)

/-- `shortestFrom` uses `insideB` -/
theorem shortestFrom_eq (mant : Nat) (e2 : Int) (lc : Bool) :
    shortestFrom mant e2 lc =
      shortestFrom.go (bOfE e2) (vOfE mant e2) (insideB mant e2 lc) (floorLog10 (vOfE mant e2) (bOfE e2)) 1 18 := rfl

theorem insideB_shift (mant : Nat) (e2 : Int) (lc : Bool) (d z : Nat) (k : Int) :
    insideB mant e2 lc (d * 10 ^ z) k = insideB mant e2 lc d (k + z) := by
  unfold insideB
  simp only [cmpScaled_shift]

theorem sh_eq (e2 : Int) : (if e2 - 2 ≥ 0 then (e2 - 2).toNat else 0) = (e2 - 2).toNat := by
  split <;> omega
theorem b_eq (e2 : Int) : bOfE e2 = 2 ^ (2 - e2).toNat := by
  unfold bOfE
  split
  · have : (2 - e2).toNat = 0 := by omega
    rw [this]
  · rfl

/-- what `inside d k = true` says, as inequalities between naturals -/
theorem insideB_spec (ex fr d : Nat) (k : Int)
    (h : insideB (mantOf ex fr) (expOf ex) (lcOf ex fr) d k = true) :
    loNum ex fr * 2 ^ shOf ex * 10 ^ (-k).toNat ≤ d * 10 ^ k.toNat * 2 ^ bjOf ex ∧
    d * 10 ^ k.toNat * 2 ^ bjOf ex ≤ hiNum ex fr * 2 ^ shOf ex * 10 ^ (-k).toNat ∧
    (mantOf ex fr % 2 = 1 →
      loNum ex fr * 2 ^ shOf ex * 10 ^ (-k).toNat < d * 10 ^ k.toNat * 2 ^ bjOf ex ∧
      d * 10 ^ k.toNat * 2 ^ bjOf ex < hiNum ex fr * 2 ^ shOf ex * 10 ^ (-k).toNat) := by
  unfold insideB at h
  simp only [sh_eq, cmpScaled_eq] at h
  have hb := b_eq (expOf ex)
  unfold bOfE at hb
  rw [hb] at h
  change ((compare (d * 10 ^ k.toNat * 2 ^ bjOf ex) (loNum ex fr * 2 ^ shOf ex * 10 ^ (-k).toNat) == .gt ||
      (mantOf ex fr % 2 == 0 && compare (d * 10 ^ k.toNat * 2 ^ bjOf ex) (loNum ex fr * 2 ^ shOf ex * 10 ^ (-k).toNat) == .eq)) &&
    (compare (d * 10 ^ k.toNat * 2 ^ bjOf ex) (hiNum ex fr * 2 ^ shOf ex * 10 ^ (-k).toNat) == .lt ||
      (mantOf ex fr % 2 == 0 && compare (d * 10 ^ k.toNat * 2 ^ bjOf ex) (hiNum ex fr * 2 ^ shOf ex * 10 ^ (-k).toNat) == .eq))) = true at h
  generalize d * 10 ^ k.toNat * 2 ^ bjOf ex = X at *
  generalize loNum ex fr * 2 ^ shOf ex * 10 ^ (-k).toNat = L at *
  generalize hiNum ex fr * 2 ^ shOf ex * 10 ^ (-k).toNat = U at *
  simp only [Bool.and_eq_true, Bool.or_eq_true, beq_iff_eq, Nat.compare_eq_gt, Nat.compare_eq_lt,
    Nat.compare_eq_eq] at h
  omega
/-! ## 3. `roundDecimal` -/

theorem numDigits_bounds (d : Nat) (hd : d ≠ 0) :
    1 ≤ numDigits d ∧ 10 ^ (numDigits d - 1) ≤ d ∧ d < 10 ^ numDigits d := by
  unfold numDigits
  have hpos : 0 < (Nat.toDigits 10 d).length := Nat.length_toDigits_pos
  refine ⟨hpos, ?_, ?_⟩
  · by_cases h1 : (Nat.toDigits 10 d).length - 1 = 0
    · rw [h1]; omega
    · have := Nat.length_toDigits_le_iff (b := 10) (n := d) (k := (Nat.toDigits 10 d).length - 1)
        (by decide) (by omega)
      apply Nat.le_of_not_lt
      intro hlt
      have := this.mpr hlt
      omega
  · exact (Nat.length_toDigits_le_iff (by decide) hpos).mp (Nat.le_refl _)

theorem pow_1024_lt : 2 ^ 55 * 2 ^ 969 < 10 ^ 310 := by decide +kernel
theorem pow_1076_lt : 2 ^ 1076 < 10 ^ 331 := by decide +kernel

set_option exponentiation.threshold 1100 in
/-- **T2', decimal form**: a decimal `d·10^k` for which `shortestFrom`'s `inside` test holds is parsed
    (`roundDecimal`) to that float. -/
theorem roundDecimal_of_inside (ex fr d : Nat) (k : Int) (hex : ex < 2047) (hfr : fr < 2 ^ 52)
    (hne : mantOf ex fr ≠ 0)
    (h : insideB (mantOf ex fr) (expOf ex) (lcOf ex fr) d k = true) :
    roundDecimal false d k = some (bitsOf ex fr) := by
  obtain ⟨hlo, hhi, hodd⟩ := insideB_spec ex fr d k h
  have hl2 := loNum_pos ex fr hne
  have hh55 := hiNum_le ex fr hex hfr
  obtain ⟨he1, he2⟩ := expOf_bounds ex hex
  have hLpos : 1 ≤ loNum ex fr * 2 ^ shOf ex := by
    have : 1 * 1 ≤ loNum ex fr * 2 ^ shOf ex := Nat.mul_le_mul (by omega) (two_pow_pos _)
    omega
  have hd0 : d ≠ 0 := by
    intro h0; subst h0
    have : 1 * 1 ≤ loNum ex fr * 2 ^ shOf ex * 10 ^ (-k).toNat := Nat.mul_le_mul hLpos (ten_pow_pos _)
    omega
  obtain ⟨hn1, hn2, hn3⟩ := numDigits_bounds d hd0
  have hB1 : 1 ≤ 2 ^ bjOf ex := two_pow_pos _
  -- the guards
  have g1 : ¬ (k + (numDigits d : Int) > 310) := by
    intro hg
    have hS := Nat.pow_le_pow_right (n := 2) (by decide) (show shOf ex ≤ 969 by unfold shOf; omega)
    have a1 : hiNum ex fr * 2 ^ shOf ex < 2 ^ 55 * 2 ^ 969 :=
      Nat.lt_of_le_of_lt (Nat.mul_le_mul_left _ hS) (Nat.mul_lt_mul_of_pos_right hh55 (two_pow_pos _))
    have a2 : 10 ^ (numDigits d - 1) * 10 ^ k.toNat * 1 ≤ d * 10 ^ k.toNat * 2 ^ bjOf ex :=
      Nat.mul_le_mul (Nat.mul_le_mul_right _ hn2) hB1
    rw [Nat.mul_one] at a2
    have a3 : 10 ^ 310 * 10 ^ (-k).toNat ≤ 10 ^ (numDigits d - 1) * 10 ^ k.toNat := by
      rw [← Nat.pow_add, ← Nat.pow_add]
      exact Nat.pow_le_pow_right (by decide) (by omega)
    have a4 : hiNum ex fr * 2 ^ shOf ex * 10 ^ (-k).toNat < 2 ^ 55 * 2 ^ 969 * 10 ^ (-k).toNat :=
      Nat.mul_lt_mul_of_pos_right a1 (ten_pow_pos _)
    have a5 : 10 ^ 310 * 10 ^ (-k).toNat < 2 ^ 55 * 2 ^ 969 * 10 ^ (-k).toNat :=
      Nat.lt_of_le_of_lt (Nat.le_trans a3 (Nat.le_trans a2 hhi)) a4
    exact Nat.lt_asymm (Nat.lt_of_mul_lt_mul_right a5) pow_1024_lt
  have g2 : ¬ (k + (numDigits d : Int) < -330) := by
    intro hg
    have hB := Nat.pow_le_pow_right (n := 2) (by decide) (show bjOf ex ≤ 1076 by unfold bjOf; omega)
    have a1 : 1 * 10 ^ (-k).toNat ≤ loNum ex fr * 2 ^ shOf ex * 10 ^ (-k).toNat :=
      Nat.mul_le_mul_right _ hLpos
    rw [Nat.one_mul] at a1
    have a2 : d * 10 ^ k.toNat * 2 ^ bjOf ex < 10 ^ numDigits d * 10 ^ k.toNat * 2 ^ bjOf ex :=
      Nat.mul_lt_mul_of_pos_right (Nat.mul_lt_mul_of_pos_right hn3 (ten_pow_pos _)) (two_pow_pos _)
    have a3 : 10 ^ numDigits d * 10 ^ k.toNat * 2 ^ bjOf ex ≤ 10 ^ numDigits d * 10 ^ k.toNat * 2 ^ 1076 :=
      Nat.mul_le_mul_left _ hB
    have a4 : 10 ^ numDigits d * 10 ^ k.toNat * 10 ^ 331 ≤ 10 ^ (-k).toNat := by
      rw [← Nat.pow_add, ← Nat.pow_add]
      exact Nat.pow_le_pow_right (by decide) (by omega)
    have a5 : 10 ^ numDigits d * 10 ^ k.toNat * 10 ^ 331 < 10 ^ numDigits d * 10 ^ k.toNat * 2 ^ 1076 :=
      Nat.lt_of_le_of_lt (Nat.le_trans a4 (Nat.le_trans a1 hlo)) (Nat.lt_of_lt_of_le a2 a3)
    exact Nat.lt_asymm (Nat.lt_of_mul_lt_mul_left a5) pow_1076_lt
  unfold roundDecimal
  rw [if_neg (by simpa using hd0)]
  simp only []
  rw [if_neg g1, if_neg g2]
  have hsb : ∀ b : UInt64, signBit false ||| b = b := by
    intro b; simp [signBit]
  by_cases hk : k ≥ 0
  · rw [if_pos hk]
    have hq : (-k).toNat = 0 := by omega
    simp only [hq, Nat.pow_zero, Nat.mul_one] at hlo hhi hodd
    rw [roundPos_int_inside ex fr (d * 10 ^ k.toNat) hex hfr hne hlo hhi hodd]
    simp [hsb]
  · rw [if_neg hk]
    have hp : k.toNat = 0 := by omega
    have hq : (-k).toNat = k.natAbs := by omega
    simp only [hp, hq, Nat.pow_zero, Nat.mul_one] at hlo hhi hodd
    have := roundPos_frac_inside ex fr d (10 ^ k.natAbs) hex hfr hne (ten_pow_pos _) hlo hhi hodd
    simp only [Nat.shiftLeft_eq]
    rw [this]
    simp [hsb]

end SJ.F64Round
