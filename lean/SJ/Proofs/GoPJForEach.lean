import SJ.Generated.GoSrc
import SJ.Model.Walk
import SJ.Proofs.GoIter
import SJ.Proofs.GoObjectLemmas
import SJ.Proofs.WalkSafe
set_option linter.unusedVariables false
set_option linter.unusedSimpArgs false
/-
GoPJForEach — the hand model `pjForEach` (`Model/Walk.lean`) IS the meaning of the regenerated syntax tree
`goParsedJson_ForEach` (`parsed_json.go`, `ParsedJson.ForEach`).

The Go function: `i := Iter{tape: *pj}`, `var elem Iter`, then `for { t, err := i.AdvanceIter(&elem); if err != nil ||
t != TypeRoot { return err }; elem.AdvanceInto(); if err = fn(elem); err != nil { return err } }`.  The callback is a
parameter of the interpreter: its answers are popped from `fn.results`, what it is given is appended to `fn.log`.

Main theorems: `pjForEach_sim` (every answer `nil`), `pjForEach_sim_cbErr` (the k-th answer is an error), both derived
from `fe_run` / `fe_loop` (any answer list `nil^k ++ tl`).

Three things had to be bridged, none of them a difference in behaviour:
* the model hands a fresh `default` iterator to `advanceIter` on every turn, Go re-uses `elem` (which then holds the
  previous, advanced element): `advanceIter_indep` — `dst` only matters at the end of the scope (`TypeNone`), where the
  loop is left;
* `advanceIter_sim` (GoIter.lean) is stated for one concrete store, the frame `callFun` builds also holds the caller's
  shared buffers: `advanceIter_exec` re-assembles the same lemmas over an abstract store;
* `SimIter` says nothing about the store in which `AdvanceIter` returns an error, but `callFun` copies the receiver's
  fields back out of it: `KL_advanceIter` (no statement of `AdvanceIter` ever unbinds a variable).
-/
namespace SJ.GoPJForEach
open SJ SJ.GoSem SJ.Generated SJ.GoIter

/-! ## variables stay bound

`SimIter` (GoIter.lean) says nothing about the store in which `AdvanceIter` returns an *error*; the caller copies the
receiver's fields back out of that store (`callFun`), so we need to know they are still bound.  This is a syntactic
property: no statement ever removes a variable.  It is proved compositionally, for the statement forms `AdvanceIter`
consists of. -/

/-- every variable bound in `e` is bound in `e'` -/
def Keeps (e e' : Env) : Prop := ∀ k, e.get k ≠ none → e'.get k ≠ none

theorem Keeps.refl (e : Env) : Keeps e e := fun _ h => h
theorem Keeps.trans {a b c : Env} (h1 : Keeps a b) (h2 : Keeps b c) : Keeps a c := fun k h => h2 k (h1 k h)

theorem Keeps.set_self (e : Env) (k : String) (v : Val) : Keeps e (e.set k v) := by
  intro k' h
  rw [Env.get_set]
  split
  · simp
  · exact h

theorem Keeps.set {a b : Env} (h : Keeps a b) (k : String) (v : Val) : Keeps a (b.set k v) :=
  h.trans (Keeps.set_self _ _ _)

theorem copyFields_keeps (from_ : Env) (p q : String) : ∀ (fs : List String) (to e' : Env),
    copyFields from_ p to q fs = some e' → Keeps to e' := by
  intro fs
  induction fs with
  | nil => intro to e' h; simp only [copyFields, Option.some.injEq] at h; subst h; exact Keeps.refl _
  | cons f r ih =>
    intro to e' h
    rw [copyFields] at h
    split at h
    · exact (Keeps.set_self _ _ _).trans (ih _ _ h)
    · cases h

/-- the state an outcome carries keeps the variables of `e` -/
def OutKeeps (e : Env) : Out → Prop
  | .normal s' | .brk s' | .cont s' | .ret s' _ => Keeps e s'.env
  | _ => True

theorem OutKeeps.mono {a b : Env} (h : Keeps a b) : ∀ {o : Out}, OutKeeps b o → OutKeeps a o
  | .normal _, h' | .brk _, h' | .cont _, h' | .ret _ _, h' => h.trans h'
  | .panic, _ | .diverge, _ | .stuck _, _ => trivial

theorem OutKeeps.ofE (e : Env) (o : EOut) : OutKeeps e (ofE o) := by cases o <;> trivial

def KS (st : Stmt) : Prop := ∀ fuel s, OutKeeps s.env (exec1 goFuns fuel st s)
def KL (l : List Stmt) : Prop := ∀ fuel s, OutKeeps s.env (exec goFuns fuel l s)

theorem KL.nil : KL [] := by intro fuel s; rw [exec]; exact Keeps.refl _

theorem KL.cons {st : Stmt} {rest : List Stmt} (h1 : KS st) (h2 : KL rest) : KL (st :: rest) := by
  intro fuel s
  rw [exec]
  have := h1 fuel s
  revert this
  cases exec1 goFuns fuel st s <;> intro this <;> try exact this
  exact OutKeeps.mono this (h2 fuel _)

theorem KS.assign (n : String) (e : Expr) : KS (.assign n e) := by
  intro fuel s
  rw [exec1]
  split
  · exact Keeps.set_self _ _ _
  · exact OutKeeps.ofE _ _

theorem KS.ret (es : List Expr) : KS (.ret es) := by
  intro fuel s
  rw [exec1]
  split
  · exact Keeps.refl _
  · exact OutKeeps.ofE _ _

theorem KS.brk : KS .brk := by intro fuel s; rw [exec1]; exact Keeps.refl _
theorem KS.cont : KS .cont := by intro fuel s; rw [exec1]; exact Keeps.refl _

theorem KS.setLen (b : String) (e : Expr) : KS (.setLen b e) := by
  intro fuel s
  rw [exec1]
  split
  · split
    · split
      · exact Keeps.set_self _ _ _
      · trivial
    · trivial
  · trivial
  · exact OutKeeps.ofE _ _

theorem KS.copyStruct (d src : String) : KS (.copyStruct d src) := by
  intro fuel s
  rw [exec1]
  split
  · next e he => exact copyFields_keeps _ _ _ _ _ _ he
  · trivial

theorem KS.call (r f : String) (a : List Expr) : KS (.call r f a) := by
  intro fuel s
  cases fuel with
  | zero => rw [exec1]; trivial
  | succ fuel =>
    rw [exec1]
    repeat' split
    all_goals first | trivial | exact OutKeeps.ofE _ _ | skip
    all_goals first
      | exact copyFields_keeps _ _ _ _ _ _ (by assumption)
      | (generalize exec goFuns fuel _ _ = o at *; cases o <;> simp_all [OutKeeps])

theorem KS.ite (c : Expr) {t e : List Stmt} (h1 : KL t) (h2 : KL e) : KS (.ite c t e) := by
  intro fuel s
  rw [exec1]
  split
  · exact h1 fuel s
  · exact h2 fuel s
  · trivial
  · exact OutKeeps.ofE _ _

theorem KS.loop {body : List Stmt} (h : KL body) : KS (.loop body) := by
  intro fuel
  induction fuel with
  | zero => intro s; rw [exec1]; trivial
  | succ fuel ih =>
    intro s
    rw [exec1]
    have := h fuel s
    revert this
    cases exec goFuns fuel body s <;> intro this <;> try exact this
    · exact OutKeeps.mono this (ih _)
    · exact OutKeeps.mono this (ih _)

theorem KL_advanceIter : KL goIter_AdvanceIter.body := by
  unfold goIter_AdvanceIter
  repeat (first
    | exact KL.nil
    | apply KL.cons
    | apply KS.assign | apply KS.ret | exact KS.brk | exact KS.cont | apply KS.setLen | apply KS.copyStruct
    | apply KS.call | apply KS.ite | apply KS.loop)


/-! ## `AdvanceIter` from any store holding `i`, `*dst` and the hidden alias parameter

`advanceIter_sim` (GoIter.lean) is stated for the store `envOf "i" i ++ envOf "dst" dst ++ [("i!=dst", true)]`; the frame
`callFun` builds also holds the shared buffers of the caller.  The proof is the same assembly of the same lemmas
(`advanceIter_loop`, `advanceIter_tail`, all stated over abstract stores). -/

theorem advanceIter_exec (pj : PJ) (i dst : Iter) (e00 : Env) (hl : i.lim ≤ pj.tape.size) (fuel : Nat)
    (hf : fuelFor i ≤ fuel) (hI00 : iterAt e00 "i" = some i) (hD00 : iterAt e00 "dst" = some dst)
    (hN00 : e00.get "i!=dst" = some (.bool true)) :
    SimIter pj.tape (exec goFuns fuel goIter_AdvanceIter.body ⟨e00, pj.tape⟩) (i.advanceIter pj dst) := by
  have hbody : goIter_AdvanceIter.body = .assign "i.off" (.bin .add (.v "i.off") (.v "i.addNext")) ::
      .loop (firstLoop goIter_AdvanceIter.body) :: afterLoop goIter_AdvanceIter.body := rfl
  obtain ⟨g1, g2, g3, g4, g5⟩ := iterAt_get_i _ _ hI00
  have h1 : exec1 goFuns fuel (.assign "i.off" (.bin .add (.v "i.off") (.v "i.addNext"))) ⟨e00, pj.tape⟩ =
      .normal ⟨e00.set "i.off" (.int ((i.off : Int) + i.addNext)), pj.tape⟩ := by
    simp [exec1, evalE, binop, g1, g2]
  have hD0 : iterAt (e00.set "i.off" (.int ((i.off : Int) + i.addNext))) "dst" = some dst := by
    rw [iterAt_set_ne _ _ _ _ (by decide)]; exact hD00
  have hN0 : (e00.set "i.off" (.int ((i.off : Int) + i.addNext))).get "i!=dst" = some (.bool true) := by
    rw [Env.get_set_ne _ _ (by decide)]; exact hN00
  unfold fuelFor at hf
  obtain ⟨f, rfl⟩ : ∃ f, fuel = f + 2 := ⟨fuel - 2, by omega⟩
  rw [hbody, exec, h1]
  simp only []
  unfold Iter.advanceIter Iter.bump
  by_cases ho : (i.off : Int) + i.addNext < 0
  · have hp : exec1 goFuns (f + 2) (.loop (firstLoop goIter_AdvanceIter.body))
        ⟨e00.set "i.off" (.int ((i.off : Int) + i.addNext)), pj.tape⟩ = .panic := by
      rw [exec1, advanceIter_body_neg _ pj.tape (f + 1) _ i.lim ho (Env.get_set_self _ _ _)
        (by rw [Env.get_set_ne _ _ (by decide)]; exact g5)]
    rw [exec_cons_final _ _ _ _ _ (by rw [hp]; rfl), hp]
    simp [ho, SimIter]
  · simp only [ho, if_false, Res.bind_ok]
    have hI : iterAt (e00.set "i.off" (.int ((i.off : Int) + i.addNext))) "i" =
        some { i with off := ((i.off : Int) + i.addNext).toNat } := by
      apply iterAt_of_gets <;> simp [Env.get_set, g2, g3, g4, g5]
      omega
    have hloop := advanceIter_loop pj i.lim { i with off := ((i.off : Int) + i.addNext).toNat } (f + 2) _
      (Nat.sub_le _ _) (by omega) hl hI
    simp only at hloop
    rw [advanceIterLoop_off pj _ i _ (Nat.le_refl _)]
    generalize e00.set "i.off" (.int ((i.off : Int) + i.addNext)) = e0 at hD0 hN0 hI hloop ⊢
    rw [exec]
    generalize exec1 goFuns (f + 2) (.loop (firstLoop goIter_AdvanceIter.body)) ⟨e0, pj.tape⟩ = out at hloop ⊢
    cases hg : Iter.advanceIterLoop pj { i with off := ((i.off : Int) + i.addNext).toNat } ((i.off : Int) + i.addNext).toNat with
    | ok r =>
      obtain ⟨a, l⟩ := r
      rw [hg] at hloop
      cases l with
      | true =>
        obtain ⟨s, rfl, hst, hIs, hc, hF⟩ := hloop
        simp only []
        have hne : s.env.get "i!=dst" = some (.bool true) := by rw [hF _ (by decide)]; exact hN0
        have ht := advanceIter_tail s a (f + 1) hIs hc hne
        rw [hst] at ht
        simpa [iterTailModel] using ht
      | false =>
        obtain ⟨s, rfl, hst, hIs, hF⟩ := hloop
        simp only [Res.bind_ok, Bool.not_false, if_true, SimIter, typeNone]
        exact ⟨s, rfl, hst, hIs, by rw [hF.iterAt_dst]; exact hD0⟩
    | panic =>
      rw [hg] at hloop
      simp only [LoopSimIter] at hloop
      subst hloop
      simp [SimIter]
    | error e =>
      rw [hg] at hloop
      obtain ⟨s, rfl⟩ := hloop
      simp only [SimIter]
      exact ⟨s, _, rfl⟩
    | diverge => rw [hg] at hloop; exact hloop.elim


/-! ## the call `t, err := i.AdvanceIter(&elem)` from any store holding `i` and `elem` -/

theorem copyGlobals_get_ne (from_ : Env) (k : String) : ∀ (gs : List String) (to : Env), k ∉ gs →
    (copyGlobals from_ to gs).get k = to.get k := by
  intro gs
  induction gs with
  | nil => intro to _; rfl
  | cons g r ih =>
    intro to hk
    have h1 : g ≠ k := fun h => hk (by simp [h])
    have h2 : k ∉ r := fun h => hk (by simp [h])
    rw [copyGlobals]
    split
    · rw [ih _ h2, Env.get_set_ne _ _ h1]
    · exact ih _ h2

theorem copyGlobals_keeps (from_ : Env) : ∀ (gs : List String) (to : Env), Keeps to (copyGlobals from_ to gs) := by
  intro gs
  induction gs with
  | nil => intro to; exact Keeps.refl _
  | cons g r ih =>
    intro to
    rw [copyGlobals]
    split
    · exact (Keeps.set_self _ _ _).trans (ih _)
    · exact ih _

/-- the frame `callFun` builds for `i.AdvanceIter(&elem)`: receiver, `*dst`, the caller's shared buffers (if it has
    any), the hidden alias parameter -/
def aiFrame (e : Env) (i elem : Iter) : Env :=
  (copyGlobals e (envOf "i" i ++ envOf "dst" elem) globalVars).set "i!=dst" (.bool true)

/-- `callFun`'s own code after the callee returned, specialised to `AdvanceIter` called on `i` with `&elem` -/
def backAI (e : Env) : Out → Out
  | .ret s' rs =>
    (match copyFields s'.env "i" e "i" ["off", "addNext", "cur", "t", "lim"] with
     | some e2 =>
       (match copyPtrsBack s'.env e2 ["elem"] [("dst", ["off", "addNext", "cur", "t", "lim"])] with
        | some e3 => .ret { env := copyGlobals s'.env e3 globalVars, tape := s'.tape } rs
        | none => .stuck "pointer arguments back")
     | none => .stuck "receiver back")
  | .normal s' =>
    (match copyFields s'.env "i" e "i" ["off", "addNext", "cur", "t", "lim"] with
     | some e2 =>
       (match copyPtrsBack s'.env e2 ["elem"] [("dst", ["off", "addNext", "cur", "t", "lim"])] with
        | some e3 => .ret { env := copyGlobals s'.env e3 globalVars, tape := s'.tape } []
        | none => .stuck "pointer arguments back")
     | none => .stuck "receiver back")
  | .brk _ | .cont _ => .stuck "break outside loop"
  | o => o

theorem callFun_ai (e : Env) (tape : Array UInt64) (f : Nat) (i elem : Iter) (hI : iterAt e "i" = some i)
    (hE : iterAt e "elem" = some elem) :
    callFun goFuns f "i" "Iter.AdvanceIter" ["elem"] [.bool true] ⟨e, tape⟩ =
      backAI e (exec goFuns f goIter_AdvanceIter.body ⟨aiFrame e i elem, tape⟩) := by
  obtain ⟨i1, i2, i3, i4, i5⟩ := iterAt_get_i _ _ hI
  obtain ⟨d1, d2, d3, d4, d5⟩ := iterAt_get _ _ _ hE
  simp only [String.reduceAppend] at d1 d2 d3 d4 d5
  rw [callFun]
  simp [goFuns, goIter_AdvanceIter, i1, i2, i3, i4, i5, d1, d2, d3, d4, d5, copyPtrs, copyFields, bindParams, evalEs, evalE,
    Env.set, aiFrame, envOf]
  generalize exec goFuns f _ _ = out
  cases out <;> rfl


theorem aiFrame_i (e : Env) (i elem : Iter) : iterAt (aiFrame e i elem) "i" = some i := by
  unfold aiFrame
  rw [iterAt_set_ne _ _ _ _ (by decide)]
  rw [iterAt_congr (envOf "i" i ++ envOf "dst" elem) _ "i"
    (fun k hk => copyGlobals_get_ne _ _ _ _ (by revert k; decide))]
  simp [iterAt, envOf, Env.get]

theorem aiFrame_dst (e : Env) (i elem : Iter) : iterAt (aiFrame e i elem) "dst" = some elem := by
  unfold aiFrame
  rw [iterAt_set_ne _ _ _ _ (by decide)]
  rw [iterAt_congr (envOf "i" i ++ envOf "dst" elem) _ "dst"
    (fun k hk => copyGlobals_get_ne _ _ _ _ (by revert k; decide))]
  simp [iterAt, envOf, Env.get]

theorem aiFrame_ne (e : Env) (i elem : Iter) : (aiFrame e i elem).get "i!=dst" = some (.bool true) :=
  Env.get_set_self _ _ _

/-- a complete iterator can be copied out of a store that still binds its fields -/
theorem copyFields_defined (from_ : Env) (p q : String) : ∀ (fs : List String) (to : Env),
    (∀ f ∈ fs, from_.get (p ++ "." ++ f) ≠ none) → ∃ e', copyFields from_ p to q fs = some e' ∧ Keeps to e' := by
  intro fs
  induction fs with
  | nil => intro to _; exact ⟨to, rfl, Keeps.refl _⟩
  | cons f r ih =>
    intro to h
    have hf := h f (by simp)
    rw [copyFields]
    cases hg : from_.get (p ++ "." ++ f) with
    | none => exact absurd hg hf
    | some v =>
      obtain ⟨e', h1, h2⟩ := ih (to.set (q ++ "." ++ f) v) (fun g hg => h g (by simp [hg]))
      exact ⟨e', h1, (Keeps.set_self _ _ _).trans h2⟩

/-- the variables the call statement writes -/
def aiTouched : List String :=
  fieldsOf "i" ++ fieldsOf "elem" ++ globalVars ++ ["t", "err"]

/-- **the call statement of `ForEach`** against the model's `advanceIter` -/
theorem callAssign_ai (pj : PJ) (e : Env) (F : Nat) (i elem : Iter) (hI : iterAt e "i" = some i)
    (hE : iterAt e "elem" = some elem) (hl : i.lim ≤ pj.tape.size) (hf : fuelFor i + 1 ≤ F) :
    match i.advanceIter pj elem with
    | .ok (i', d', typ) => ∃ e', exec1 goFuns F
          (.callAssign ["t", "err"] "i" "Iter.AdvanceIter" ["elem"] [(.bool true)]) ⟨e, pj.tape⟩ = .normal ⟨e', pj.tape⟩ ∧
        iterAt e' "i" = some i' ∧ iterAt e' "elem" = some d' ∧ e'.get "t" = some (.u8 typ) ∧
        e'.get "err" = some (.bool false) ∧ (∀ k, k ∉ aiTouched → e'.get k = e.get k)
    | .error _ => ∃ e' tp, exec1 goFuns F
          (.callAssign ["t", "err"] "i" "Iter.AdvanceIter" ["elem"] [(.bool true)]) ⟨e, pj.tape⟩ = .normal ⟨e', tp⟩ ∧
        e'.get "err" = some (.bool true)
    | .panic => exec1 goFuns F
          (.callAssign ["t", "err"] "i" "Iter.AdvanceIter" ["elem"] [(.bool true)]) ⟨e, pj.tape⟩ = .panic
    | .diverge => False := by
  obtain ⟨f, rfl⟩ : ∃ f, F = f + 1 := ⟨F - 1, by omega⟩
  have hsim := advanceIter_exec pj i elem (aiFrame e i elem) hl f (by omega) (aiFrame_i e i elem) (aiFrame_dst e i elem)
    (aiFrame_ne e i elem)
  have hkeep := KL_advanceIter f ⟨aiFrame e i elem, pj.tape⟩
  rw [exec1, callFun_ai e pj.tape f i elem hI hE]
  generalize exec goFuns f goIter_AdvanceIter.body ⟨aiFrame e i elem, pj.tape⟩ = out at hsim hkeep ⊢
  cases hr : i.advanceIter pj elem with
  | ok r =>
    obtain ⟨i', d', typ⟩ := r
    rw [hr] at hsim
    obtain ⟨s', rfl, hst, hI', hD'⟩ := hsim
    obtain ⟨a1, a2, a3, a4, a5⟩ := iterAt_get_i _ _ hI'
    obtain ⟨b1, b2, b3, b4, b5⟩ := iterAt_get_dst _ _ hD'
    simp only []
    refine ⟨((copyGlobals s'.env (setIter (setIter e "i" i') "elem" d') globalVars).set "t" (.u8 typ)).set "err"
      (.bool false), ?_, ?_, ?_, ?_, ?_, ?_⟩
    · simp [backAI, copyFields, copyPtrsBack, a1, a2, a3, a4, a5, b1, b2, b3, b4, b5, assignTargets, setIter, hst]
    · rw [iterAt_set_ne _ _ _ _ (by decide), iterAt_set_ne _ _ _ _ (by decide)]
      rw [iterAt_congr (setIter (setIter e "i" i') "elem" d') _ "i"
        (fun k hk => copyGlobals_get_ne _ _ _ _ (by revert k; decide))]
      rw [iterAt_congr (setIter e "i" i') _ "i" (fun k hk => get_setIter_ne _ _ _ _ (by revert k; decide))]
      exact iterAt_setIter_i _ _
    · rw [iterAt_set_ne _ _ _ _ (by decide), iterAt_set_ne _ _ _ _ (by decide)]
      rw [iterAt_congr (setIter (setIter e "i" i') "elem" d') _ "elem"
        (fun k hk => copyGlobals_get_ne _ _ _ _ (by revert k; decide))]
      simp [iterAt, setIter, Env.get_set]
    · simp [Env.get_set]
    · simp [Env.get_set]
    · intro k hk
      simp only [aiTouched, List.mem_append, not_or] at hk
      obtain ⟨⟨⟨hk1, hk2⟩, hk3⟩, hk4⟩ := hk
      simp only [List.mem_cons, List.not_mem_nil, or_false, not_or] at hk4
      rw [Env.get_set_ne _ _ (Ne.symm hk4.2), Env.get_set_ne _ _ (Ne.symm hk4.1), copyGlobals_get_ne _ _ _ _ hk3,
        get_setIter_ne _ _ _ _ hk2, get_setIter_ne _ _ _ _ hk1]
  | error err =>
    rw [hr] at hsim
    obtain ⟨s', v, rfl⟩ := hsim
    simp only []
    have hk : Keeps (aiFrame e i elem) s'.env := hkeep
    have hki : ∀ f ∈ ["off", "addNext", "cur", "t", "lim"], s'.env.get ("i" ++ "." ++ f) ≠ none := by
      intro f hf
      apply hk
      obtain ⟨i1, i2, i3, i4, i5⟩ := iterAt_get_i _ _ (aiFrame_i e i elem)
      simp only [List.mem_cons, List.not_mem_nil, or_false] at hf
      rcases hf with rfl | rfl | rfl | rfl | rfl <;> simp [i1, i2, i3, i4, i5]
    have hkd : ∀ f ∈ ["off", "addNext", "cur", "t", "lim"], s'.env.get ("dst" ++ "." ++ f) ≠ none := by
      intro f hf
      apply hk
      obtain ⟨i1, i2, i3, i4, i5⟩ := iterAt_get_dst _ _ (aiFrame_dst e i elem)
      simp only [List.mem_cons, List.not_mem_nil, or_false] at hf
      rcases hf with rfl | rfl | rfl | rfl | rfl <;> simp [i1, i2, i3, i4, i5]
    obtain ⟨e2, he2, _⟩ := copyFields_defined s'.env "i" "i" _ e hki
    obtain ⟨e3, he3, _⟩ := copyFields_defined s'.env "dst" "elem" _ e2 hkd
    refine ⟨((copyGlobals s'.env e3 globalVars).set "t" v).set "err" (.bool true), s'.tape, ?_, by simp [Env.get_set]⟩
    simp [backAI, he2, he3, copyPtrsBack, assignTargets]
  | panic =>
    rw [hr] at hsim
    simp only [SimIter] at hsim
    subst hsim
    rfl
  | diverge => rw [hr] at hsim; exact hsim


/-! ## the call `elem.AdvanceInto()` -/

theorem exec_of_runFun_SimT {tape : Array UInt64} {fd : FunDef} {fuel : Nat} {s : St} {r : Res (Iter × UInt8)}
    (h : SimT tape (runFun goFuns fd fuel s) r) : SimT tape (exec goFuns fuel fd.body s) r := by
  unfold runFun at h
  generalize exec goFuns fuel fd.body s = o at h ⊢
  cases r with
  | ok p =>
    obtain ⟨i', t⟩ := p
    cases o <;> simp only [SimT] at h ⊢
    all_goals first | exact h | (obtain ⟨s1, h1, _⟩ := h; cases h1)
  | panic => cases o <;> simp only [SimT] at h ⊢ <;> first | exact h | cases h
  | error _ => exact h.elim
  | diverge => exact h.elim

theorem call_into (pj : PJ) (e : Env) (F : Nat) (d : Iter) (hE : iterAt e "elem" = some d)
    (hl : d.lim ≤ pj.tape.size) (hf : fuelFor d + 1 ≤ F) :
    match d.advanceInto pj with
    | .ok (d', _) => ∃ e', exec1 goFuns F (.call "elem" "Iter.AdvanceInto" []) ⟨e, pj.tape⟩ = .normal ⟨e', pj.tape⟩ ∧
        iterAt e' "elem" = some d' ∧ (∀ k, k ∉ fieldsOf "elem" → e'.get k = e.get k)
    | .panic => exec1 goFuns F (.call "elem" "Iter.AdvanceInto" []) ⟨e, pj.tape⟩ = .panic
    | _ => False := by
  obtain ⟨f, rfl⟩ : ∃ f, F = f + 1 := ⟨F - 1, by omega⟩
  have hsim := exec_of_runFun_SimT (advanceInto_sim pj d hl f (by omega))
  obtain ⟨d1, d2, d3, d4, d5⟩ := iterAt_get _ _ _ hE
  simp only [String.reduceAppend] at d1 d2 d3 d4 d5
  have hstep : exec1 goFuns (f + 1) (.call "elem" "Iter.AdvanceInto" []) ⟨e, pj.tape⟩ =
      match exec goFuns f goIter_AdvanceInto.body ⟨envOf "i" d, pj.tape⟩ with
      | .normal s' | .ret s' _ =>
        (match copyFields s'.env "i" e "elem" iterFields with
         | some e2 => .normal { env := e2, tape := s'.tape }
         | none => .stuck "receiver back")
      | .brk _ | .cont _ => .stuck "break outside loop"
      | o => o := by
    rw [exec1]
    simp [goFuns, d1, d2, d3, d4, d5, copyFields, bindParams, evalEs, iterFields, Env.set, envOf, goIter_AdvanceInto]
    generalize exec goFuns f _ _ = out
    cases out <;> rfl
  rw [hstep]
  generalize exec goFuns f goIter_AdvanceInto.body ⟨envOf "i" d, pj.tape⟩ = out at hsim ⊢
  cases hr : d.advanceInto pj with
  | ok r =>
    obtain ⟨d', tg⟩ := r
    rw [hr] at hsim
    obtain ⟨s', rfl, hst, hI'⟩ := hsim
    obtain ⟨a1, a2, a3, a4, a5⟩ := iterAt_get_i _ _ hI'
    simp only []
    refine ⟨setIter e "elem" d', ?_, ?_, ?_⟩
    · simp [copyFields, iterFields, a1, a2, a3, a4, a5, setIter, hst]
    · simp [iterAt, setIter, Env.get_set]
    · intro k hk; exact get_setIter_ne _ _ _ _ hk
  | panic =>
    rw [hr] at hsim
    simp only [SimT] at hsim
    subst hsim
    rfl
  | error _ => rw [hr] at hsim; exact hsim
  | diverge => rw [hr] at hsim; exact hsim


/-! ## the model: `advanceIter` does not depend on `dst` when it finds an element -/

theorem advanceIter_indep (pj : PJ) (i d1 d2 : Iter) :
    match i.advanceIter pj d1 with
    | .ok (i', d', t) => i.advanceIter pj d2 = .ok (i', d', t) ∨ (t = typeNone ∧ d' = d1 ∧ i.advanceIter pj d2 = .ok (i', d2, t))
    | .error e => i.advanceIter pj d2 = .error e
    | .panic => i.advanceIter pj d2 = .panic
    | .diverge => i.advanceIter pj d2 = .diverge := by
  unfold Iter.advanceIter
  cases hb : i.bump with
  | ok o =>
    simp only [Res.bind_ok]
    cases hl : Iter.advanceIterLoop pj i o with
    | ok r =>
      obtain ⟨i1, live⟩ := r
      simp only [Res.bind_ok]
      cases live with
      | false => simp
      | true =>
        simp only [Bool.not_true, Bool.false_eq_true, if_false]
        generalize (if (i1.calcNext false).addNext < 0 then (Res.error Err.generic : Res (Iter × Iter × UInt8)) else _) = E
        cases E with
        | ok r => obtain ⟨a, b, c⟩ := r; exact Or.inl rfl
        | error e => rfl
        | panic => rfl
        | diverge => rfl
    | error e => rfl
    | panic => rfl
    | diverge => rfl
  | error e => rfl
  | panic => rfl
  | diverge => rfl

/-! ## the pieces of the syntax tree of `ParsedJson.ForEach` (pinned by `rfl`) -/

def feBody : List Stmt :=
  match goParsedJson_ForEach.body with
  | [_, _, _, _, _, _, _, _, _, _, .loop b] => b
  | _ => []

def feInit : List Stmt := goParsedJson_ForEach.body.take 10

theorem fe_body_eq : goParsedJson_ForEach.body = feInit ++ [.loop feBody] := rfl

theorem feInit_eq : feInit = [
    .assign "i.off" (.int 0), .assign "i.addNext" (.int 0), .assign "i.cur" (.u64 0), .assign "i.t" (.u8 0),
    .assign "i.lim" (.lenTape "pj"),
    .assign "elem.off" (.int 0), .assign "elem.addNext" (.int 0), .assign "elem.cur" (.u64 0), .assign "elem.t" (.u8 0),
    .assign "elem.lim" (.int 0)] := rfl

def feS1 : Stmt := .callAssign ["t", "err"] "i" "Iter.AdvanceIter" ["elem"] [(.bool true)]
def feS2 : Stmt := .ite (.lor (.bin .ne (.v "err") (.bool false)) (.bin .ne (.v "t") (.u8 9))) [.ret [(.v "err")]] []
def feS3 : Stmt := .call "elem" "Iter.AdvanceInto" []
def feS4 : Stmt := .cb "err" "fn" [(.v "elem.off"), (.v "elem.addNext"), (.v "elem.cur"), (.v "elem.t"), (.v "elem.lim")]
def feS5 : Stmt := .ite (.bin .ne (.v "err") (.bool false)) [.ret [(.v "err")]] []

theorem feBody_eq : feBody = [feS1, feS2, feS3, feS4, feS5] := rfl

/-! ## what the callback is given -/

/-- the five integers logged for one iterator handed to the callback -/
def encIter (it : Iter) : List Int := [it.off, it.addNext, it.cur.toNat, it.t.toNat, it.lim]

def encIters (l : List Iter) : List Int := l.flatMap encIter

/-- the log of a store (`fn.log` is created by the first callback) -/
def logOf (e : Env) : List Int := match e.get "fn.log" with | some (.ints l) => l | _ => []

/-- what one turn of the loop needs of the store -/
structure FEInv (e : Env) (i elem : Iter) (rs : List Bool) (lg : List Int) : Prop where
  hi : iterAt e "i" = some i
  he : iterAt e "elem" = some elem
  hr : e.get "fn.results" = some (.bools rs)
  hl : logOf e = lg

theorem exec_cons' (fuel : Nat) (st : Stmt) (rest : List Stmt) (s : St) :
    exec goFuns fuel (st :: rest) s = match exec1 goFuns fuel st s with | .normal s' => exec goFuns fuel rest s' | o => o := by
  rw [exec]; cases exec1 goFuns fuel st s <;> rfl


/-! ## one turn of the loop -/

theorem feS2_ret (e1 : Env) (tp : Array UInt64) (F : Nat) (t : UInt8) (b : Bool) (rest : List Stmt)
    (hT : e1.get "t" = some (.u8 t)) (hErr : e1.get "err" = some (.bool b)) (h : b = true ∨ t ≠ typeRoot) :
    exec goFuns F (feS2 :: rest) ⟨e1, tp⟩ = .ret ⟨e1, tp⟩ [.bool b] := by
  rw [exec_cons']
  rcases h with rfl | h
  · simp [feS2, exec, exec1, evalE, evalEs, binop, hErr]
  · cases b with
    | true => simp [feS2, exec, exec1, evalE, evalEs, binop, hErr]
    | false =>
      have h' : (t != 9) = true := by simpa [typeRoot] using h
      simp [feS2, exec, exec1, evalE, evalEs, binop, hErr, hT, h']

theorem feS2_go (e1 : Env) (tp : Array UInt64) (F : Nat) (hT : e1.get "t" = some (.u8 typeRoot))
    (hErr : e1.get "err" = some (.bool false)) : exec1 goFuns F feS2 ⟨e1, tp⟩ = .normal ⟨e1, tp⟩ := by
  simp [feS2, exec, exec1, evalE, evalEs, binop, hErr, hT, typeRoot]

/-- the callback and the test of its answer -/
theorem feS45 (e2 : Env) (tp : Array UInt64) (F : Nat) (el : Iter) (r : Bool) (rest : List Bool) (lg : List Int)
    (hE : iterAt e2 "elem" = some el) (hr : e2.get "fn.results" = some (.bools (r :: rest))) (hl : logOf e2 = lg) :
    exec goFuns F [feS4, feS5] ⟨e2, tp⟩ =
      if r then .ret ⟨((e2.set "fn.log" (.ints (lg ++ encIter el))).set "fn.results" (.bools rest)).set "err" (.bool true), tp⟩
          [.bool true]
      else .normal ⟨((e2.set "fn.log" (.ints (lg ++ encIter el))).set "fn.results" (.bools rest)).set "err" (.bool false), tp⟩ := by
  obtain ⟨d1, d2, d3, d4, d5⟩ := iterAt_get _ _ _ hE
  simp only [String.reduceAppend] at d1 d2 d3 d4 d5
  subst hl
  cases r <;>
    simp [feS4, feS5, exec, exec1, evalE, evalEs, binop, d1, d2, d3, d4, d5, hr, valToInt, encIter, Env.get_set] <;> rfl


theorem logOf_congr (e e' : Env) (h : e'.get "fn.log" = e.get "fn.log") : logOf e' = logOf e := by
  unfold logOf; rw [h]

/-- after `elem.AdvanceInto()`: the callback is called with `el`; what happens next depends on its answer -/
def StepPost (pj : PJ) (o : Out) (i' el : Iter) (lg : List Int) : List Bool → Prop
  | [] => True
  | false :: rest => ∃ e', o = .normal ⟨e', pj.tape⟩ ∧ FEInv e' i' el rest (lg ++ encIter el)
  | true :: rest => ∃ s, o = .ret s [.bool true] ∧ s.tape = pj.tape ∧
      logOf s.env = lg ++ encIter el ∧ s.env.get "fn.results" = some (.bools rest)

/-- **one turn of the loop of `ForEach`** against one step of the model (`advanceIter` with a fresh `dst`, then
    `advanceInto` on the element), for any answer list of the callback -/
theorem fe_step (pj : PJ) (e : Env) (F : Nat) (i elem : Iter) (rs : List Bool) (lg : List Int)
    (hv : WalkSafe.Iter.Valid pj i) (hF : pj.tape.size + 10 ≤ F) (inv : FEInv e i elem rs lg) :
    match i.advanceIter pj default with
    | .error _ => ∃ s, exec goFuns F feBody ⟨e, pj.tape⟩ = .ret s [.bool true]
    | .ok (i', d', t) =>
      if t ≠ typeRoot then
        ∃ s, exec goFuns F feBody ⟨e, pj.tape⟩ = .ret s [.bool false] ∧ s.tape = pj.tape ∧ logOf s.env = lg ∧
          s.env.get "fn.results" = some (.bools rs)
      else
        match d'.advanceInto pj with
        | .ok (el, _) => StepPost pj (exec goFuns F feBody ⟨e, pj.tape⟩) i' el lg rs
        | _ => False
    | _ => False := by
  obtain ⟨hI, hE, hR, hL⟩ := inv
  have hG := callAssign_ai pj e F i elem hI hE hv.1 (by unfold fuelFor; have := hv.1; omega)
  have hind := advanceIter_indep pj i default elem
  obtain ⟨hsafe, hpost⟩ := WalkSafe.advanceIter_safe pj i default hv
  rw [feBody_eq, exec_cons']
  -- the part shared by the two ways of leaving at `t != TypeRoot`
  have hleave : ∀ (i' d'' : Iter) (t : UInt8), i.advanceIter pj elem = .ok (i', d'', t) → t ≠ typeRoot →
      ∃ s, (match exec1 goFuns F feS1 ⟨e, pj.tape⟩ with
            | .normal s' => exec goFuns F [feS2, feS3, feS4, feS5] s' | o => o) = .ret s [.bool false] ∧
        s.tape = pj.tape ∧ logOf s.env = lg ∧ s.env.get "fn.results" = some (.bools rs) := by
    intro i' d'' t hG' ht
    rw [hG'] at hG
    obtain ⟨e1, hx1, hI1, hE1, hT1, hErr1, hfr1⟩ := hG
    rw [feS1, hx1]
    simp only []
    rw [feS2_ret e1 pj.tape F t false _ hT1 hErr1 (Or.inr ht)]
    refine ⟨_, rfl, rfl, ?_, ?_⟩
    · rw [logOf_congr _ _ (hfr1 _ (by decide))]; exact hL
    · rw [hfr1 _ (by decide)]; exact hR
  cases hM : i.advanceIter pj default with
  | ok r =>
    obtain ⟨i', d', t⟩ := r
    rw [hM] at hind
    simp only []
    rcases hind with hG' | ⟨ht0, _, hG'⟩
    · by_cases ht : t = typeRoot
      · subst ht
        simp only [ne_eq, not_true_eq_false, if_false]
        rw [hG'] at hG
        obtain ⟨e1, hx1, hI1, hE1, hT1, hErr1, hfr1⟩ := hG
        rw [feS1, hx1]
        simp only []
        rw [exec_cons', feS2_go e1 pj.tape F hT1 hErr1]
        simp only []
        -- the element is a valid iterator inside the tape
        obtain ⟨hv2, hlim2, _, hcase⟩ := hpost i' d' _ hM
        rcases hcase with ⟨h0, _⟩ | ⟨hvd, hdl, _⟩
        · exact absurd h0 (by decide)
        · have hC := call_into pj e1 F d' hE1 hvd.1 (by unfold fuelFor; have := hvd.1; omega)
          obtain ⟨el, tg, hai, _⟩ := WalkSafe.advanceInto_safe pj d' hvd
          rw [hai] at hC ⊢
          simp only [] at hC ⊢
          obtain ⟨e2, hx2, hE2, hfr2⟩ := hC
          rw [exec_cons', feS3, hx2]
          simp only []
          have hR2 : e2.get "fn.results" = some (.bools rs) := by
            rw [hfr2 _ (by decide), hfr1 _ (by decide)]; exact hR
          have hL2 : logOf e2 = lg := by
            rw [logOf_congr _ _ (hfr2 _ (by decide)), logOf_congr _ _ (hfr1 _ (by decide))]; exact hL
          have hI2 : iterAt e2 "i" = some i' := by
            rw [iterAt_congr e1 e2 "i" (fun k hk => hfr2 k (by revert k; decide))]; exact hI1
          cases rs with
          | nil => trivial
          | cons r rest =>
            rw [feS45 e2 pj.tape F el r rest lg hE2 hR2 hL2]
            cases r with
            | false =>
              simp only [Bool.false_eq_true, if_false, StepPost]
              refine ⟨_, rfl, ?_, ?_, ?_, ?_⟩
              · rw [iterAt_set_ne _ _ _ _ (by decide), iterAt_set_ne _ _ _ _ (by decide),
                  iterAt_set_ne _ _ _ _ (by decide)]; exact hI2
              · rw [iterAt_set_ne _ _ _ _ (by decide), iterAt_set_ne _ _ _ _ (by decide),
                  iterAt_set_ne _ _ _ _ (by decide)]; exact hE2
              · simp [Env.get_set]
              · simp [logOf, Env.get_set]
            | true =>
              simp only [if_true, StepPost]
              exact ⟨_, rfl, rfl, by simp [logOf, Env.get_set], by simp [Env.get_set]⟩
      · simp only [ne_eq, ht, not_false_eq_true, if_true]
        exact hleave i' d' t hG' ht
    · have ht : t ≠ typeRoot := by rw [ht0]; decide
      simp only [ne_eq, ht, not_false_eq_true, if_true]
      exact hleave i' elem t hG' ht
  | error err =>
    rw [hM] at hind
    simp only [] at hind ⊢
    rw [hind] at hG
    obtain ⟨e1, tp, hx1, hErr1⟩ := hG
    rw [feS1, hx1]
    simp only []
    -- `err != nil`: the second operand of `||` is not evaluated
    refine ⟨⟨e1, tp⟩, ?_⟩
    rw [exec_cons']
    simp [feS2, exec, exec1, evalE, evalEs, binop, hErr1]
  | panic => rw [hM] at hsafe; exact hsafe.ne_panic rfl
  | diverge => rw [hM] at hsafe; exact hsafe.ne_diverge rfl


/-! ## the model without the accumulator -/

/-- `pjForEach` as a list of the iterators handed to the callback, in order -/
def feList (pj : PJ) (i : Iter) : Nat → Res (List Iter)
  | 0 => .diverge
  | n + 1 => do
    let (i', elem, t) ← i.advanceIter pj default
    if t != typeRoot then .ok [] else do
    let (elem', _) ← elem.advanceInto pj
    let l ← feList pj i' n
    .ok (elem' :: l)

theorem pjForEach_eq_feList (pj : PJ) : ∀ (n : Nat) (i : Iter) (acc : Array Iter),
    pjForEach pj i acc n = (do let l ← feList pj i n; .ok (acc ++ l.toArray)) := by
  intro n
  induction n with
  | zero => intro i acc; rfl
  | succ n ih =>
    intro i acc
    rw [pjForEach, feList]
    cases i.advanceIter pj default with
    | ok r =>
      obtain ⟨i', d', t⟩ := r
      simp only [Res.bind_ok]
      split
      · simp
      · cases d'.advanceInto pj with
        | ok q =>
          obtain ⟨el, tg⟩ := q
          simp only [Res.bind_ok]
          rw [ih]
          cases feList pj i' n with
          | ok l => simp
          | error e => rfl
          | panic => rfl
          | diverge => rfl
        | error e => rfl
        | panic => rfl
        | diverge => rfl
    | error e => rfl
    | panic => rfl
    | diverge => rfl

theorem feList_safe (pj : PJ) : ∀ (n : Nat) (i : Iter), WalkSafe.Iter.Valid pj i → i.lim - i.off < n →
    WalkSafe.OkOrErr (feList pj i n) := by
  intro n i hv hn
  have h := WalkSafe.pjForEach_safe_fuel pj n i #[] hv hn (by simp)
  rw [pjForEach_eq_feList] at h
  cases hl : feList pj i n with
  | ok l => exact Or.inl ⟨l, rfl⟩
  | error e => exact Or.inr ⟨e, rfl⟩
  | panic => rw [hl] at h; rcases h with ⟨r, h, _⟩ | ⟨e, h⟩ <;> cases h
  | diverge => rw [hl] at h; rcases h with ⟨r, h, _⟩ | ⟨e, h⟩ <;> cases h

theorem loop_succ (f : Nat) (body : List Stmt) (s : St) :
    exec1 goFuns (f + 1) (.loop body) s =
      match exec goFuns f body s with
      | .normal s' => exec1 goFuns f (.loop body) s'
      | .cont s' => exec1 goFuns f (.loop body) s'
      | .brk s' => .normal s'
      | o => o := by
  rw [exec1]; cases exec goFuns f body s <;> rfl

theorem encIters_cons (a : Iter) (l : List Iter) : encIters (a :: l) = encIter a ++ encIters l := by
  simp [encIters]


/-! ## the loop -/

/-- what the loop of `ForEach` does, by the model's outcome.  The callback answers `nil` `k` times, then as `tl` says. -/
def FEPost (pj : PJ) (o : Out) (lg : List Int) (k : Nat) (tl : List Bool) (m : Nat) : Res (List Iter) → Prop
  | .ok l =>
    (l.length ≤ k → ∃ s, o = .ret s [.bool false] ∧ s.tape = pj.tape ∧ logOf s.env = lg ++ encIters l ∧
        s.env.get "fn.results" = some (.bools (List.replicate (k - l.length) false ++ tl))) ∧
    (k < l.length → ∀ tl', tl = true :: tl' → ∃ s, o = .ret s [.bool true] ∧ s.tape = pj.tape ∧
        logOf s.env = lg ++ encIters (l.take (k + 1)) ∧ s.env.get "fn.results" = some (.bools tl'))
  | .error _ => m ≤ k → ∃ s, o = .ret s [.bool true]
  | _ => False

theorem fe_loop (pj : PJ) : ∀ (n : Nat) (i elem : Iter) (e : Env) (F k : Nat) (tl : List Bool) (lg : List Int),
    WalkSafe.Iter.Valid pj i → i.lim - i.off < n → (i.lim - i.off) + pj.tape.size + 11 ≤ F →
    FEInv e i elem (List.replicate k false ++ tl) lg →
    FEPost pj (exec1 goFuns F (.loop feBody) ⟨e, pj.tape⟩) lg k tl (i.lim - i.off) (feList pj i n) := by
  intro n
  induction n with
  | zero => intro i elem e F k tl lg _ hn; omega
  | succ n ih =>
    intro i elem e F k tl lg hv hn hF inv
    obtain ⟨F', rfl⟩ : ∃ F', F = F' + 1 := ⟨F - 1, by omega⟩
    have hstep := fe_step pj e F' i elem _ lg hv (by omega) inv
    obtain ⟨hsafe, hpost⟩ := WalkSafe.advanceIter_safe pj i default hv
    rw [loop_succ, feList]
    cases hM : i.advanceIter pj default with
    | ok r =>
      obtain ⟨i', d', t⟩ := r
      rw [hM] at hstep
      simp only [Res.bind_ok] at hstep ⊢
      by_cases ht : t = typeRoot
      · subst ht
        simp only [ne_eq, not_true_eq_false, if_false, bne_self_eq_false, Bool.false_eq_true] at hstep ⊢
        obtain ⟨hv2, hlim2, _, hcase⟩ := hpost i' d' _ hM
        rcases hcase with ⟨h0, _⟩ | ⟨hvd, hdl, hprog, hdo, hdle, _, _⟩
        · exact absurd h0 (by decide)
        have hm' : i'.lim - i'.off < i.lim - i.off := by omega
        have hsafe' := feList_safe pj n i' hv2 (by omega)
        cases hA : d'.advanceInto pj with
        | ok q =>
          obtain ⟨el, tg⟩ := q
          rw [hA] at hstep
          simp only [Res.bind_ok] at hstep ⊢
          cases k with
          | zero =>
            simp only [List.replicate_zero, List.nil_append] at hstep
            cases hL : feList pj i' n with
            | ok l =>
              simp only [Res.bind_ok, FEPost]
              refine ⟨fun h => absurd h (by simp), ?_⟩
              intro _ tl' htl
              subst htl
              simp only [StepPost] at hstep
              obtain ⟨s, hx, h1, h2, h3⟩ := hstep
              rw [hx]
              exact ⟨s, rfl, h1, by simp [encIters_cons, encIters, h2], h3⟩
            | error err =>
              simp only [Res.bind_error, FEPost]
              intro h; omega
            | panic => rw [hL] at hsafe'; exact hsafe'.ne_panic rfl
            | diverge => rw [hL] at hsafe'; exact hsafe'.ne_diverge rfl
          | succ k' =>
            rw [List.replicate_succ, List.cons_append] at hstep
            simp only [StepPost] at hstep
            obtain ⟨e', hx, inv'⟩ := hstep
            rw [hx]
            simp only []
            have IH := ih i' el e' F' k' tl (lg ++ encIter el) hv2 (by omega) (by omega) inv'
            cases hL : feList pj i' n with
            | ok l =>
              rw [hL] at IH
              simp only [Res.bind_ok, FEPost] at IH ⊢
              obtain ⟨IH1, IH2⟩ := IH
              constructor
              · intro hlen
                obtain ⟨s, hx, h1, h2, h3⟩ := IH1 (by simpa using hlen)
                refine ⟨s, hx, h1, ?_, ?_⟩
                · rw [h2, encIters_cons, List.append_assoc]
                · rw [h3]; simp
              · intro hlen tl' htl
                obtain ⟨s, hx, h1, h2, h3⟩ := IH2 (by simpa using hlen) tl' htl
                refine ⟨s, hx, h1, ?_, h3⟩
                rw [h2, List.take_succ_cons, encIters_cons, List.append_assoc]
            | error err =>
              rw [hL] at IH
              simp only [Res.bind_error, FEPost] at IH ⊢
              intro h
              exact IH (by omega)
            | panic => rw [hL] at hsafe'; exact hsafe'.ne_panic rfl
            | diverge => rw [hL] at hsafe'; exact hsafe'.ne_diverge rfl
        | error err => rw [hA] at hstep; exact hstep.elim
        | panic => rw [hA] at hstep; exact hstep.elim
        | diverge => rw [hA] at hstep; exact hstep.elim
      · have ht' : (t != typeRoot) = true := by simpa using ht
        simp only [ne_eq, ht, not_false_eq_true, if_true, ht'] at hstep ⊢
        obtain ⟨s, hx, h1, h2, h3⟩ := hstep
        rw [hx]
        simp only [FEPost]
        refine ⟨fun _ => ⟨s, rfl, h1, by simp [encIters, h2], by simpa using h3⟩, fun h => absurd h (by simp)⟩
    | error err =>
      rw [hM] at hstep
      simp only [] at hstep
      obtain ⟨s, hx⟩ := hstep
      rw [hx]
      exact fun _ => ⟨s, rfl⟩
    | panic => rw [hM] at hsafe; exact hsafe.ne_panic rfl
    | diverge => rw [hM] at hsafe; exact hsafe.ne_diverge rfl


/-! ## the whole function -/

theorem FEPost.mono {pj : PJ} {o o' : Out} {lg : List Int} {k : Nat} {tl : List Bool} {m : Nat} {r : Res (List Iter)}
    (h : ∀ s vs, o = .ret s vs → o' = .ret s vs) (hp : FEPost pj o lg k tl m r) : FEPost pj o' lg k tl m r := by
  cases r with
  | ok l =>
    obtain ⟨h1, h2⟩ := hp
    constructor
    · intro hl
      obtain ⟨s, hx, rest⟩ := h1 hl
      exact ⟨s, h _ _ hx, rest⟩
    · intro hl tl' htl
      obtain ⟨s, hx, rest⟩ := h2 hl tl' htl
      exact ⟨s, h _ _ hx, rest⟩
  | error e =>
    intro hm
    obtain ⟨s, hx⟩ := hp hm
    exact ⟨s, h _ _ hx⟩
  | panic => exact hp
  | diverge => exact hp

/-- the store after the ten initial assignments (`i := Iter{tape: *pj}`, `var elem Iter`) -/
def feStart (e0 : Env) (pj : PJ) : Env :=
  setIter (setIter e0 "i" (Iter.ofPJ pj)) "elem" default

theorem feInit_exec (pj : PJ) (e0 : Env) (F : Nat) (h1 : e0.get "pj.lim" = some (.int pj.tape.size)) :
    exec goFuns F feInit ⟨e0, pj.tape⟩ = .normal ⟨feStart e0 pj, pj.tape⟩ := by
  simp [feInit_eq, exec, exec1, evalE, h1, Env.get_set, feStart, setIter, Iter.ofPJ, tagEnd]
  rfl

theorem ofPJ_valid (pj : PJ) : WalkSafe.Iter.Valid pj (Iter.ofPJ pj) := ⟨Nat.le_refl _, Int.le_refl _⟩

/-- the run of the regenerated `ParsedJson.ForEach` from any store holding the tape length, the callback's answers
    (`k` times `nil`, then `tl`) and no log yet, against the model's list of iterators -/
theorem fe_run (pj : PJ) (e0 : Env) (F k n : Nat) (tl : List Bool)
    (h1 : e0.get "pj.lim" = some (.int pj.tape.size))
    (h2 : e0.get "fn.results" = some (.bools (List.replicate k false ++ tl))) (h3 : e0.get "fn.log" = none)
    (hn : pj.tape.size < n) (hF : 2 * pj.tape.size + 11 ≤ F) :
    FEPost pj (runFun goFuns goParsedJson_ForEach F ⟨e0, pj.tape⟩) [] k tl pj.tape.size
      (feList pj (Iter.ofPJ pj) n) := by
  have inv : FEInv (feStart e0 pj) (Iter.ofPJ pj) default (List.replicate k false ++ tl) [] := by
    refine ⟨?_, ?_, ?_, ?_⟩
    · unfold feStart
      rw [iterAt_congr (setIter e0 "i" (Iter.ofPJ pj)) _ "i" (fun k hk => get_setIter_ne _ _ _ _ (by revert k; decide))]
      exact iterAt_setIter_i _ _
    · simp [feStart, iterAt, setIter, Env.get_set]
    · unfold feStart
      rw [get_setIter_ne _ _ _ _ (by decide), get_setIter_ne _ _ _ _ (by decide)]; exact h2
    · unfold logOf feStart
      rw [get_setIter_ne _ _ _ _ (by decide), get_setIter_ne _ _ _ _ (by decide), h3]
  have hloop := fe_loop pj n (Iter.ofPJ pj) default (feStart e0 pj) F k tl [] (ofPJ_valid pj)
    (by simp only [Iter.ofPJ]; omega) (by simp only [Iter.ofPJ]; omega) inv
  have hm : (Iter.ofPJ pj).lim - (Iter.ofPJ pj).off = pj.tape.size := by simp [Iter.ofPJ]
  rw [hm] at hloop
  refine FEPost.mono ?_ hloop
  intro s vs hx
  unfold runFun
  rw [fe_body_eq, exec_append, feInit_exec pj e0 F h1]
  simp only []
  rw [exec_cons', hx]


/-- the callback is called at most once per tape word left in the view -/
theorem feList_length (pj : PJ) : ∀ (n : Nat) (i : Iter) (l : List Iter), WalkSafe.Iter.Valid pj i →
    feList pj i n = .ok l → l.length ≤ i.lim - i.off := by
  intro n
  induction n with
  | zero => intro i l _ h; cases h
  | succ n ih =>
    intro i l hv h
    obtain ⟨_, hpost⟩ := WalkSafe.advanceIter_safe pj i default hv
    rw [feList] at h
    cases hM : i.advanceIter pj default with
    | ok r =>
      obtain ⟨i', d', t⟩ := r
      rw [hM] at h
      simp only [Res.bind_ok] at h
      by_cases ht : t = typeRoot
      · subst ht
        simp only [bne_self_eq_false, Bool.false_eq_true, if_false] at h
        obtain ⟨hv2, hlim2, _, hcase⟩ := hpost i' d' _ hM
        rcases hcase with ⟨h0, _⟩ | ⟨hvd, hdl, hprog, hdo, hdle, _, _⟩
        · exact absurd h0 (by decide)
        cases hA : d'.advanceInto pj with
        | ok q =>
          obtain ⟨el, tg⟩ := q
          rw [hA] at h
          simp only [Res.bind_ok] at h
          cases hL : feList pj i' n with
          | ok l' =>
            rw [hL] at h
            simp only [Res.bind_ok, Res.ok.injEq] at h
            subst h
            have := ih i' l' hv2 hL
            simp only [List.length_cons]
            omega
          | error e => rw [hL] at h; cases h
          | panic => rw [hL] at h; cases h
          | diverge => rw [hL] at h; cases h
        | error e => rw [hA] at h; cases h
        | panic => rw [hA] at h; cases h
        | diverge => rw [hA] at h; cases h
      · have ht' : (t != typeRoot) = true := by simpa using ht
        simp only [ht', if_true, Res.ok.injEq] at h
        subst h
        simp
    | error e => rw [hM] at h; cases h
    | panic => rw [hM] at h; cases h
    | diverge => rw [hM] at h; cases h

/-- the conventional initial store of `pj.ForEach(fn)`: the tape length, the shared buffers, the callback's answers -/
def feStore (pj : PJ) (rs : List Bool) : Env :=
  [("pj.lim", .int pj.tape.size)] ++ GoObject.bufEnv pj ++ [("fn.results", .bools rs)]

/-- **`ParsedJson.ForEach`, every callback answering `nil`.**  For every tape, with at least `len(tape)` answers and
    `2·len(tape)+11` units of fuel, the regenerated function and the model `pjForEach` (started as `owalk` starts it: from
    `Iter.ofPJ pj`, with `fuelOf pj`) agree: the model's `.ok its` ⇔ the function returns `nil` and `fn.log` is the
    encoding (off, addNext, cur, t, lim) of exactly `its`, in order; the model's `.error` ⇔ a non-nil error.  The model
    (and so the function) never panics here and never runs out of fuel. -/
theorem pjForEach_sim (pj : PJ) (N F : Nat) (hN : pj.tape.size ≤ N) (hF : 2 * pj.tape.size + 11 ≤ F) :
    match pjForEach pj (Iter.ofPJ pj) #[] (fuelOf pj) with
    | .ok its => ∃ s, runFun goFuns goParsedJson_ForEach F ⟨feStore pj (List.replicate N false), pj.tape⟩ =
          .ret s [.bool false] ∧ s.tape = pj.tape ∧ logOf s.env = encIters its.toList ∧
        s.env.get "fn.results" = some (.bools (List.replicate (N - its.size) false))
    | .error _ => ∃ s, runFun goFuns goParsedJson_ForEach F ⟨feStore pj (List.replicate N false), pj.tape⟩ =
          .ret s [.bool true]
    | .panic => runFun goFuns goParsedJson_ForEach F ⟨feStore pj (List.replicate N false), pj.tape⟩ = .panic
    | .diverge => False := by
  have hrun := fe_run pj (feStore pj (List.replicate N false)) F N (fuelOf pj) []
    (by simp [feStore, GoObject.bufEnv, Env.get]) (by simp [feStore, GoObject.bufEnv, Env.get])
    (by simp [feStore, GoObject.bufEnv, Env.get]) (by unfold fuelOf; omega) hF
  rw [pjForEach_eq_feList]
  cases hL : feList pj (Iter.ofPJ pj) (fuelOf pj) with
  | ok l =>
    rw [hL] at hrun
    have hlen := feList_length pj _ _ _ (ofPJ_valid pj) hL
    simp only [Iter.ofPJ, Nat.sub_zero] at hlen
    obtain ⟨s, hx, h1, h2, h3⟩ := hrun.1 (by omega)
    simp only [Res.bind_ok]
    refine ⟨s, hx, h1, by simpa using h2, by simpa using h3⟩
  | error e =>
    rw [hL] at hrun
    exact hrun hN
  | panic => rw [hL] at hrun; exact hrun.elim
  | diverge => rw [hL] at hrun; exact hrun.elim

/-- **`ParsedJson.ForEach`, the `k`-th callback (counting from 0) answers with an error.**  The model has no callback; in
    terms of its list `its`: when there are more than `k` roots, the function returns that error after exactly `k+1`
    calls (the log holds the first `k+1` iterators of the model), the remaining answers are untouched. -/
theorem pjForEach_sim_cbErr (pj : PJ) (k F : Nat) (tl : List Bool) (its : Array Iter)
    (hF : 2 * pj.tape.size + 11 ≤ F) (hm : pjForEach pj (Iter.ofPJ pj) #[] (fuelOf pj) = .ok its) (hk : k < its.size) :
    ∃ s, runFun goFuns goParsedJson_ForEach F ⟨feStore pj (List.replicate k false ++ true :: tl), pj.tape⟩ =
        .ret s [.bool true] ∧ s.tape = pj.tape ∧ logOf s.env = encIters (its.toList.take (k + 1)) ∧
      s.env.get "fn.results" = some (.bools tl) := by
  have hrun := fe_run pj (feStore pj (List.replicate k false ++ true :: tl)) F k (fuelOf pj) (true :: tl)
    (by simp [feStore, GoObject.bufEnv, Env.get]) (by simp [feStore, GoObject.bufEnv, Env.get])
    (by simp [feStore, GoObject.bufEnv, Env.get]) (by unfold fuelOf; omega) hF
  rw [pjForEach_eq_feList] at hm
  cases hL : feList pj (Iter.ofPJ pj) (fuelOf pj) with
  | ok l =>
    rw [hL] at hrun hm
    simp only [Res.bind_ok, Res.ok.injEq] at hm
    subst hm
    obtain ⟨s, hx, h1, h2, h3⟩ := hrun.2 (by simpa using hk) tl rfl
    exact ⟨s, hx, h1, by simpa using h2, h3⟩
  | error e => rw [hL] at hm; cases hm
  | panic => rw [hL] at hm; cases hm
  | diverge => rw [hL] at hm; cases hm

end SJ.GoPJForEach
