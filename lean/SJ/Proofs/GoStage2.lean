import SJ.Proofs.GoNumber
import SJ.Proofs.GoStage2Lemmas
import SJ.Model.Stage2
set_option linter.unusedVariables false
set_option linter.unusedSimpArgs false
/-
GoStage2 — the stage-2 ACTIONS of the hand model (`Model/Stage2.lean`: `M.loc`, `M.writeTape`, `M.annotate`,
`M.parseString`, the number case of `M.value`) are the meaning of the regenerated syntax trees of
`ParsedJson.get_current_loc`, `write_tape`, `writeTapeTagVal`, `writeTapeTagValFlags`, `write_tape_s64`,
`write_tape_double`, `annotate_previousloc` (parsed_json.go), `parseString` and `addNumber`
(stage2_build_tape_amd64.go).  Bundle: `go_stage2_actions_source_tie`.

The machine state `m : M` parsing the message `buf` is the store `stEnv m buf` (`pj.lim = len(pj.Tape)`, `Strings.B`,
`Message`) followed by the parameters, with the interpreter tape `m.tape`.

What was found:
* `mkWord c val = val | uint64(c)<<56` for EVERY `val` (`or_shl_eq_mkWord`; no `val < 2^56` needed).
* `get_current_loc` needs no bound on the tape length (`uint64(len)` and `UInt64.ofNat` wrap alike).
* `parseString`: the only hypotheses are `idx ≤ len(pj.Message)` and `idx < 2^63` (otherwise `pj.Message[idx:]` panics
  where the model says "rejected": the two `example`s after `parseString_sim_nat`).  Nothing about `maxStringSize`,
  `len(pj.Strings.B)` or `cap(strs)`: the padding branches only append zero bytes, which never changes the decoder's
  answer (`decodeString_pad`, for all inputs: the scalar model's "ran off the end" rule and a run through appended zeros
  both end in `none`); decoding in the suffix is decoding in the message shifted by `idx` (`decodeString_suffix`);
  `parseStringSimd`'s limit `len(buf)` gives the same bytes as the validated limit (`decodeString_lim_size`); the
  reallocation is content-neutral (`realloc_exec`, every `cap`); `uint64(STRINGBUFBIT+start)` and
  `wSTRINGBUFBIT + UInt64.ofNat start` wrap alike.
* `addNumber`: no hypothesis.  `GoNumber.parseNumber_run` gives the returned words and the tape; that the callee also
  leaves the shared buffers alone (they are copied back by `callFun`) is `keeps_parseNumber_*`.
* No difference between the model and the Go code for these nine functions.
-/
namespace SJ.GoStage2
open SJ SJ.GoSem SJ.Generated SJ.GoRebuild

attribute [local simp] exec exec1 execCases evalE evalEs isOneOf binop convert ofE copyFields bindParams
  runFun Env.get Env.set

/-! ## vocabulary -/

/-- the store representing the machine `m` parsing the message `buf`: `len(pj.Tape)` and the two shared buffers -/
def stEnv (m : M) (buf : Bytes) : Env :=
  [("pj.lim", .int m.tape.size), ("Strings.B", .bytes m.strings), ("Message", .bytes buf)]

/-- what the stage-2 helpers need of a caller's store: the view `pj` is the whole tape, the two buffers are there -/
structure PJInit (strs buf : Bytes) (s : GoSem.St) : Prop where
  lim : s.env.get "pj.lim" = some (.int s.tape.size)
  strs : s.env.get "Strings.B" = some (.bytes strs)
  msg : s.env.get "Message" = some (.bytes buf)

/-- the caller's store after a call of a `pj` method that appended `n` words -/
def backEnv (e : Env) (n : Int) (strs buf : Bytes) : Env :=
  ((e.set "pj.lim" (.int n)).set "Strings.B" (.bytes strs)).set "Message" (.bytes buf)

theorem PJInit_back (e : Env) (tape : Array UInt64) (strs buf : Bytes) :
    PJInit strs buf ⟨backEnv e tape.size strs buf, tape⟩ := by
  constructor <;> simp [backEnv, Env.get_set]

theorem backEnv_get (e : Env) (n : Int) (strs buf : Bytes) (k : String) (h1 : k ≠ "pj.lim") (h2 : k ≠ "Strings.B")
    (h3 : k ≠ "Message") : (backEnv e n strs buf).get k = e.get k := by
  simp [backEnv, Env.get_set, Ne.symm h1, Ne.symm h2, Ne.symm h3]

theorem toInt64_small (c : UInt64) (h : c.toNat < 2^63) : toInt64 c = (c.toNat : Int) := by
  simp [toInt64, h]

/-- `val | uint64(c)<<56` is `mkWord c val`, for every `val` (`mkWord` is the same `or`, operands swapped) -/
theorem or_shl_eq_mkWord (val : UInt64) (c : UInt8) : val ||| (c.toUInt64 <<< 56) = mkWord c val := by
  unfold mkWord
  exact UInt64.or_comm _ _

/-! ## `get_current_loc` -/

/-- `pj.get_current_loc()` returns `M.loc`; nothing changes.  No hypothesis: `uint64(len(pj.Tape))` and
    `UInt64.ofNat m.tape.size` wrap alike (and a Go slice is shorter than `2^63` anyway). -/
theorem get_current_loc_sim (m : M) (buf : Bytes) (fuel : Nat) :
    runFun goFuns goParsedJson_get_current_loc fuel ⟨stEnv m buf, m.tape⟩ = .ret ⟨stEnv m buf, m.tape⟩ [.u64 m.loc] := by
  simp [goParsedJson_get_current_loc, stEnv, M.loc, ofInt_nat]

/-! ## `write_tape` -/

theorem write_tape_exec (tape : Array UInt64) (strs buf : Bytes) (val : UInt64) (c : UInt8) (fuel : Nat) :
    exec goFuns fuel goParsedJson_write_tape.body
      ⟨[("pj.lim", .int tape.size), ("Strings.B", .bytes strs), ("Message", .bytes buf), ("val", .u64 val), ("c", .u8 c)], tape⟩ =
    .normal ⟨[("pj.lim", .int (tape.push (mkWord c val)).size), ("Strings.B", .bytes strs), ("Message", .bytes buf),
      ("val", .u64 val), ("c", .u8 c)], tape.push (mkWord c val)⟩ := by
  simp [goParsedJson_write_tape, asWords, or_shl_eq_mkWord]

/-- `pj.write_tape(val, c)` is `M.writeTape m val c`: one word appended, `len(pj.Tape)` updated, buffers untouched -/
theorem write_tape_sim (m : M) (buf : Bytes) (val : UInt64) (c : UInt8) (fuel : Nat) :
    runFun goFuns goParsedJson_write_tape fuel ⟨stEnv m buf ++ [("val", .u64 val), ("c", .u8 c)], m.tape⟩ =
      .ret ⟨stEnv (m.writeTape val c) buf ++ [("val", .u64 val), ("c", .u8 c)], (m.writeTape val c).tape⟩ [] := by
  have := write_tape_exec m.tape m.strings buf val c fuel
  simp only [runFun, stEnv, M.writeTape, List.cons_append, List.nil_append] at this ⊢
  rw [this]

/-- `pj.write_tape(a1, a2)` through `callFun`, from any caller holding `pj` and the buffers -/
theorem callFun_write_tape (s : GoSem.St) (strs buf : Bytes) (a1 a2 : Expr) (val : UInt64) (c : UInt8) (f : Nat)
    (h : PJInit strs buf s) (h1 : evalE s a1 = .val (.u64 val)) (h2 : evalE s a2 = .val (.u8 c)) :
    callFun goFuns f "pj" "ParsedJson.write_tape" [] [a1, a2] s =
      .ret ⟨backEnv s.env (s.tape.push (mkWord c val)).size strs buf, s.tape.push (mkWord c val)⟩ [] := by
  obtain ⟨hl, hS, hM⟩ := h
  have he := write_tape_exec s.tape strs buf val c f
  simp only [goParsedJson_write_tape] at he
  rw [callFun]
  simp [goFuns, goParsedJson_write_tape, h1, h2, hl, hS, hM, copyPtrs, copyGlobals, globalVars, copyPtrsBack, -exec, -exec1]
  rw [he]
  simp [copyPtrsBack, copyGlobals, backEnv]

/-! ## `writeTapeTagVal`, `writeTapeTagValFlags`, `write_tape_s64`, `write_tape_double` -/

theorem writeTapeTagVal_exec (tape : Array UInt64) (strs buf : Bytes) (tag : UInt8) (val : UInt64) (fuel : Nat) :
    exec goFuns fuel goParsedJson_writeTapeTagVal.body
      ⟨[("pj.lim", .int tape.size), ("Strings.B", .bytes strs), ("Message", .bytes buf), ("tag", .u8 tag), ("val", .u64 val)], tape⟩ =
    .normal ⟨[("pj.lim", .int ((tape.push (mkWord tag 0)).push val).size), ("Strings.B", .bytes strs), ("Message", .bytes buf),
      ("tag", .u8 tag), ("val", .u64 val)], (tape.push (mkWord tag 0)).push val⟩ := by
  have hw : tag.toUInt64 <<< 56 = mkWord tag 0 := by simp [mkWord]
  have ha : tape ++ #[mkWord tag 0, val] = (tape.push (mkWord tag 0)).push val := by
    apply Array.ext' ; simp
  simp [goParsedJson_writeTapeTagVal, asWords, hw, ha]
  omega

/-- `pj.writeTapeTagVal(tag, val)`: the two words `tag<<56`, `val` are appended -/
theorem writeTapeTagVal_sim (m : M) (buf : Bytes) (tag : UInt8) (val : UInt64) (fuel : Nat) :
    runFun goFuns goParsedJson_writeTapeTagVal fuel ⟨stEnv m buf ++ [("tag", .u8 tag), ("val", .u64 val)], m.tape⟩ =
      .ret ⟨stEnv { m with tape := (m.tape.push (mkWord tag 0)).push val } buf ++ [("tag", .u8 tag), ("val", .u64 val)],
        (m.tape.push (mkWord tag 0)).push val⟩ [] := by
  have := writeTapeTagVal_exec m.tape m.strings buf tag val fuel
  simp only [runFun, stEnv, List.cons_append, List.nil_append] at this ⊢
  rw [this]

theorem callFun_writeTapeTagVal (s : GoSem.St) (strs buf : Bytes) (a1 a2 : Expr) (tag : UInt8) (val : UInt64) (f : Nat)
    (h : PJInit strs buf s) (h1 : evalE s a1 = .val (.u8 tag)) (h2 : evalE s a2 = .val (.u64 val)) :
    callFun goFuns f "pj" "ParsedJson.writeTapeTagVal" [] [a1, a2] s =
      .ret ⟨backEnv s.env ((s.tape.push (mkWord tag 0)).push val).size strs buf, (s.tape.push (mkWord tag 0)).push val⟩ [] := by
  obtain ⟨hl, hS, hM⟩ := h
  have he := writeTapeTagVal_exec s.tape strs buf tag val f
  simp only [goParsedJson_writeTapeTagVal] at he
  rw [callFun]
  simp [goFuns, goParsedJson_writeTapeTagVal, h1, h2, hl, hS, hM, copyPtrs, copyGlobals, globalVars, copyPtrsBack, -exec, -exec1]
  rw [he]
  simp [copyPtrsBack, copyGlobals, backEnv]

theorem writeTapeTagValFlags_exec (tape : Array UInt64) (strs buf : Bytes) (id val : UInt64) (fuel : Nat) :
    exec goFuns fuel goParsedJson_writeTapeTagValFlags.body
      ⟨[("pj.lim", .int tape.size), ("Strings.B", .bytes strs), ("Message", .bytes buf), ("id", .u64 id), ("val", .u64 val)], tape⟩ =
    .normal ⟨[("pj.lim", .int ((tape.push id).push val).size), ("Strings.B", .bytes strs), ("Message", .bytes buf),
      ("id", .u64 id), ("val", .u64 val)], (tape.push id).push val⟩ := by
  have ha : tape ++ #[id, val] = (tape.push id).push val := by
    apply Array.ext' ; simp
  simp [goParsedJson_writeTapeTagValFlags, asWords, ha]
  omega

/-- `pj.writeTapeTagValFlags(id, val)`: the two words are appended as they are (the two pushes of the number case of
    `M.value`) -/
theorem writeTapeTagValFlags_sim (m : M) (buf : Bytes) (id val : UInt64) (fuel : Nat) :
    runFun goFuns goParsedJson_writeTapeTagValFlags fuel ⟨stEnv m buf ++ [("id", .u64 id), ("val", .u64 val)], m.tape⟩ =
      .ret ⟨stEnv { m with tape := (m.tape.push id).push val } buf ++ [("id", .u64 id), ("val", .u64 val)],
        (m.tape.push id).push val⟩ [] := by
  have := writeTapeTagValFlags_exec m.tape m.strings buf id val fuel
  simp only [runFun, stEnv, List.cons_append, List.nil_append] at this ⊢
  rw [this]

theorem callFun_writeTapeTagValFlags (s : GoSem.St) (strs buf : Bytes) (a1 a2 : Expr) (id val : UInt64) (f : Nat)
    (h : PJInit strs buf s) (h1 : evalE s a1 = .val (.u64 id)) (h2 : evalE s a2 = .val (.u64 val)) :
    callFun goFuns f "pj" "ParsedJson.writeTapeTagValFlags" [] [a1, a2] s =
      .ret ⟨backEnv s.env ((s.tape.push id).push val).size strs buf, (s.tape.push id).push val⟩ [] := by
  obtain ⟨hl, hS, hM⟩ := h
  have he := writeTapeTagValFlags_exec s.tape strs buf id val f
  simp only [goParsedJson_writeTapeTagValFlags] at he
  rw [callFun]
  simp [goFuns, goParsedJson_writeTapeTagValFlags, h1, h2, hl, hS, hM, copyPtrs, copyGlobals, globalVars, copyPtrsBack, -exec, -exec1]
  rw [he]
  simp [copyPtrsBack, copyGlobals, backEnv]

/-- `pj.write_tape_s64(val)`: `TagInteger<<56` and `uint64(val)` (`ofInt64`) are appended; one unit of fuel for the call -/
theorem write_tape_s64_sim (m : M) (buf : Bytes) (val : Int) (fuel : Nat) :
    runFun goFuns goParsedJson_write_tape_s64 (fuel + 1) ⟨stEnv m buf ++ [("val", .int val)], m.tape⟩ =
      .ret ⟨stEnv { m with tape := (m.tape.push (mkWord tagInteger 0)).push (ofInt64 val) } buf ++ [("val", .int val)],
        (m.tape.push (mkWord tagInteger 0)).push (ofInt64 val)⟩ [] := by
  have hi : PJInit m.strings buf ⟨stEnv m buf ++ [("val", .int val)], m.tape⟩ := by
    constructor <;> simp [stEnv]
  have hc := callFun_writeTapeTagVal ⟨stEnv m buf ++ [("val", .int val)], m.tape⟩ m.strings buf (.u8 108)
    (.conv .u64 (.v "val")) 108 (ofInt64 val) fuel hi (by simp) (by simp [stEnv]; rfl)
  simp only [runFun, goParsedJson_write_tape_s64, exec, exec1, hc, assignTargets]
  simp [stEnv, backEnv, tagInteger]

/-- `pj.write_tape_double(d)`: `TagFloat<<56` and the bits of `d` are appended -/
theorem write_tape_double_sim (m : M) (buf : Bytes) (d : UInt64) (fuel : Nat) :
    runFun goFuns goParsedJson_write_tape_double (fuel + 1) ⟨stEnv m buf ++ [("d", .u64 d)], m.tape⟩ =
      .ret ⟨stEnv { m with tape := (m.tape.push (mkWord tagFloat 0)).push d } buf ++ [("d", .u64 d)],
        (m.tape.push (mkWord tagFloat 0)).push d⟩ [] := by
  have hi : PJInit m.strings buf ⟨stEnv m buf ++ [("d", .u64 d)], m.tape⟩ := by
    constructor <;> simp [stEnv]
  have hc := callFun_writeTapeTagVal ⟨stEnv m buf ++ [("d", .u64 d)], m.tape⟩ m.strings buf (.u8 100)
    (.v "d") 100 d fuel hi (by simp) (by simp [stEnv])
  simp only [runFun, goParsedJson_write_tape_double, exec, exec1, hc, assignTargets]
  simp [stEnv, backEnv, tagFloat]

/-! ## `annotate_previousloc` -/

/-- `pj.annotate_previousloc(saved_loc, val)` is `M.annotate`: `some m'` ⇔ the word at `saved_loc` is or-ed with `val`;
    `none` ⇔ Go panics (index out of range) -/
theorem annotate_previousloc_sim (m : M) (buf : Bytes) (at_ val : UInt64) (fuel : Nat) :
    match m.annotate at_ val with
    | some m' => runFun goFuns goParsedJson_annotate_previousloc fuel
        ⟨stEnv m buf ++ [("saved_loc", .u64 at_), ("val", .u64 val)], m.tape⟩ =
          .ret ⟨stEnv m' buf ++ [("saved_loc", .u64 at_), ("val", .u64 val)], m'.tape⟩ []
    | none => runFun goFuns goParsedJson_annotate_previousloc fuel
        ⟨stEnv m buf ++ [("saved_loc", .u64 at_), ("val", .u64 val)], m.tape⟩ = .panic := by
  unfold M.annotate
  by_cases h : at_.toNat < m.tape.size
  · have h' : (at_.toNat : Int) < m.tape.size := by omega
    have hg : m.tape[at_.toNat]? = some m.tape[at_.toNat] := Array.getElem?_eq_getElem h
    rw [dif_pos h]
    simp only [goParsedJson_annotate_previousloc, stEnv, runFun, exec, exec1, evalE, List.cons_append, List.nil_append,
      Env.get, String.reduceAppend, binop]
    simp [h', hg, -Int.ofNat_lt]
    rw [dif_pos h]
  · have h' : ¬ (at_.toNat : Int) < m.tape.size := by omega
    rw [dif_neg h]
    simp only [goParsedJson_annotate_previousloc, stEnv, runFun, exec, exec1, evalE, List.cons_append, List.nil_append,
      Env.get, String.reduceAppend, binop]
    simp [h', -Int.ofNat_lt]

/-! ## `parseString` -/

/-- the store of `parseString(pj, idx, maxStringSize, needCopy)`; `cap(strs)` is an input (see `GoSem.Lang`) -/
def psEnv (m : M) (buf : Bytes) (idx max : UInt64) (nc : Bool) (cap : Int) : Env :=
  stEnv m buf ++ [("idx", .u64 idx), ("maxStringSize", .u64 max), ("needCopy", .bool nc), ("cap(strs)", .int cap)]

def psHead : List Stmt := goparseString.body.take 3
def psTail : List Stmt := goparseString.body.drop 3
theorem ps_body : goparseString.body = psHead ++ psTail := rfl

/-- the store after the slicing and padding of the message: `buf` holds `pb` -/
structure PSFrame (e : Env) (n : Nat) (strs msg pb : Bytes) (idx max : UInt64) (nc : Bool) (cap : Int) : Prop where
  lim : e.get "pj.lim" = some (.int n)
  strs : e.get "Strings.B" = some (.bytes strs)
  msg : e.get "Message" = some (.bytes msg)
  buf : e.get "buf" = some (.bytes pb)
  idx : e.get "idx" = some (.u64 idx)
  max : e.get "maxStringSize" = some (.u64 max)
  nc : e.get "needCopy" = some (.bool nc)
  cap : e.get "cap(strs)" = some (.int cap)

/-- `copy(make([]byte, N), x)` for `len(x) ≤ N`: `x` followed by zeros -/
theorem copy_pad (x : Bytes) (N : Nat) (h : x.size ≤ N) :
    x.extract 0 (min (Array.replicate N (0 : UInt8)).size x.size) ++
      (Array.replicate N (0 : UInt8)).extract (min (Array.replicate N (0 : UInt8)).size x.size) (Array.replicate N (0 : UInt8)).size =
    x ++ Array.replicate (N - x.size) 0 := by
  simp only [Array.size_replicate, Nat.min_eq_right h]
  congr 1
  · simp
  · apply Array.ext'
    simp

def padEnv (n : Int) (strs msg : Bytes) (idx max : UInt64) (nc : Bool) (cap : Int) (sfx : Bytes) : Env :=
  [("pj.lim", .int n), ("Strings.B", .bytes strs), ("Message", .bytes msg), ("idx", .u64 idx), ("maxStringSize", .u64 max),
   ("needCopy", .bool nc), ("cap(strs)", .int cap), ("size", .u64 0), ("buf", .bytes sfx)]

theorem PSFrame_padEnv (n : Nat) (strs msg : Bytes) (idx max : UInt64) (nc : Bool) (cap : Int) (pb : Bytes) (extra : Env) :
    PSFrame (padEnv n strs msg idx max nc cap pb ++ extra) n strs msg pb idx max nc cap := by
  constructor <;> simp [padEnv]

theorem pad_exec (n : Nat) (strs msg : Bytes) (idx max : UInt64) (nc : Bool) (cap : Int) (sfx : Bytes) (tape : Array UInt64) (fuel : Nat) :
    ∃ k e1, exec goFuns fuel (psHead.drop 2) ⟨padEnv n strs msg idx max nc cap sfx, tape⟩ = .normal ⟨e1, tape⟩ ∧
      PSFrame e1 n strs msg (sfx ++ Array.replicate k 0) idx max nc cap := by
  by_cases hc : (sfx.size : Int) - toInt64 max < 64
  · by_cases hbig : (448 : Int) < sfx.size
    · refine ⟨64, padEnv n strs msg idx max nc cap (sfx ++ Array.replicate 64 0) ++ [("paddedBuf", .bytes (sfx ++ Array.replicate 64 0))], ?_, PSFrame_padEnv ..⟩
      have h0 : (0 : Int) ≤ ↑sfx.size + 64 := by omega
      have h1 : ((sfx.size : Int) + 64).toNat = sfx.size + 64 := by omega
      have hcp := copy_pad sfx (sfx.size + 64) (by omega)
      rw [Nat.add_sub_cancel_left] at hcp
      simp [psHead, goparseString, padEnv]
      simp only [hc, hbig, decide_true, h0, h1, if_true]
      simp [hcp]
    · refine ⟨512 - sfx.size, padEnv n strs msg idx max nc cap (sfx ++ Array.replicate (512 - sfx.size) 0) ++ [("paddedBuf", .bytes (sfx ++ Array.replicate (512 - sfx.size) 0))], ?_, PSFrame_padEnv ..⟩
      have hm : min 512 sfx.size = sfx.size := by omega
      simp [psHead, goparseString, padEnv]
      simp only [hc, hbig, decide_true, decide_false, hm]
      have h0 : (0 : Int) ≤ ↑sfx.size + ↑(512 - sfx.size) := by omega
      have h1 : ((sfx.size : Int) + ↑(512 - sfx.size)).toNat = 512 := by omega
      simp only [h0, h1, hm, if_true, Nat.min_self]
      simp
  · refine ⟨0, padEnv n strs msg idx max nc cap sfx, ?_, ?_⟩
    · simp [psHead, goparseString, padEnv]
      simp only [hc, decide_false]
    · have := PSFrame_padEnv n strs msg idx max nc cap sfx []
      simpa using this

/-- `buf := pj.Message[idx:]` and the padding: whatever branch is taken, `buf` is the suffix followed by zero bytes -/
theorem ps_head (m : M) (buf : Bytes) (idx max : UInt64) (nc : Bool) (cap : Int) (fuel : Nat)
    (hidx : idx.toNat ≤ buf.size) (h63 : idx.toNat < 2^63) :
    ∃ n e1, exec goFuns fuel psHead ⟨psEnv m buf idx max nc cap, m.tape⟩ = .normal ⟨e1, m.tape⟩ ∧
      PSFrame e1 m.tape.size m.strings buf (buf.extract idx.toNat buf.size ++ Array.replicate n 0) idx max nc cap := by
  have hlo : (idx.toNat : Int) ≤ buf.size := by omega
  have h2 : exec goFuns fuel (psHead.take 2) ⟨psEnv m buf idx max nc cap, m.tape⟩ =
      .normal ⟨padEnv m.tape.size m.strings buf idx max nc cap (buf.extract idx.toNat buf.size), m.tape⟩ := by
    simp only [psHead, goparseString, psEnv, stEnv, padEnv, List.take, exec, exec1, evalE, Env.get, Env.set, convert,
      List.cons_append, List.nil_append]
    simp [toInt64_small _ h63, hlo]
  obtain ⟨k, e1, he, hf⟩ := pad_exec m.tape.size m.strings buf idx max nc cap (buf.extract idx.toNat buf.size) m.tape fuel
  refine ⟨k, e1, ?_, hf⟩
  have hsplit : psHead = psHead.take 2 ++ psHead.drop 2 := rfl
  rw [hsplit, exec_append, h2]
  exact he

/-- `parseStringSimdValidateOnly` and the test of its result -/
theorem ps_validate (e : Env) (n : Nat) (strs msg pb : Bytes) (idx max : UInt64) (nc : Bool) (cap : Int)
    (tape : Array UInt64) (fuel : Nat) (F : PSFrame e n strs msg pb idx max nc cap) :
    exec goFuns fuel (psTail.take 2) ⟨e, tape⟩ =
      match decodeString pb 1 max.toNat with
      | none => .ret ⟨((e.set "#ok" (.bool false)).set "size" (.u64 0)).set "needCopy" (.bool nc), tape⟩ [.bool false]
      | some (dec, close) =>
        .normal ⟨((e.set "#ok" (.bool true)).set "size" (.u64 (UInt64.ofNat dec.size))).set "needCopy"
          (.bool (nc || (close - 1 != dec.size))), tape⟩ := by
  obtain ⟨_, _, _, hb, _, hm, hn, _⟩ := F
  simp only [psTail, goparseString, List.take, List.drop]
  cases hD : decodeString pb 1 max.toNat with
  | none => simp [extCall, assignTargets, hb, hm, hn, hD, Env.get_set, -Env.set]
  | some r =>
    obtain ⟨dec, close⟩ := r
    simp [extCall, assignTargets, hb, hm, hn, hD, Env.get_set, -Env.set]

def copyBr : List Stmt :=
  match psTail with
  | _ :: _ :: .ite _ _ el :: _ => el
  | _ => []

theorem psTail_drop : psTail.drop 2 =
    [.ite (.not (.v "needCopy")) [.callAssign [] "pj" "ParsedJson.write_tape" [] [(.bin .add (.v "idx") (.u64 1)), (.u8 34)]] copyBr,
     .tapeAppend "pj" [(.v "size")], .ret [(.bool true)]] := rfl

/-- `needCopy` false after validation: the message offset `idx + 1` and the length go to the tape -/
theorem ps_nocopy (e : Env) (strs msg : Bytes) (idx sz : UInt64) (tape : Array UInt64) (f : Nat)
    (hi : PJInit strs msg ⟨e, tape⟩) (hidx : e.get "idx" = some (.u64 idx)) (hnc : e.get "needCopy" = some (.bool false))
    (hsz : e.get "size" = some (.u64 sz)) :
    exec goFuns (f + 1) (psTail.drop 2) ⟨e, tape⟩ =
      .ret ⟨(backEnv e ((tape.size + 1 : Nat) : Int) strs msg).set "pj.lim" (.int ((tape.size + 1 : Nat) + 1)),
        (tape.push (mkWord 34 (idx + 1))).push sz⟩ [.bool true] := by
  have hc := callFun_write_tape ⟨e, tape⟩ strs msg (.bin .add (.v "idx") (.u64 1)) (.u8 34) (idx + 1) 34 f hi
    (by simp [hidx]) (by simp)
  have hi' := PJInit_back e (tape.push (mkWord 34 (idx + 1))) strs msg
  rw [psTail_drop]
  simp only [exec, exec1, evalE, hnc, Bool.not_false, hc, assignTargets]
  have hs' : ∀ n, (backEnv e n strs msg).get "size" = some (.u64 sz) := by
    intro n; rw [backEnv_get _ _ _ _ _ (by decide) (by decide) (by decide)]; exact hsz
  have hl' : ∀ n, (backEnv e n strs msg).get "pj.lim" = some (.int n) := by
    intro n; simp [backEnv, Env.get_set]
  have ha : tape ++ #[mkWord 34 (idx + 1), sz] = (tape.push (mkWord 34 (idx + 1))).push sz := by
    apply Array.ext'; simp
  simp [hs', hl', asWords, ha, -Env.set]

def reallocIte : Stmt := copyBr.getD 2 .brk

theorem copyBr_eq : copyBr =
    [.assign "strs" (.v "Strings.B"),
     .assign "requiredLen" (.bin .add (.bin .add (.conv .u64 (.lenB (.v "strs"))) (.v "size")) (.u64 32)),
     reallocIte,
     .assign "start" (.lenB (.v "strs")),
     .extAssign ["_", "Strings.B"] "parseStringCopy" [(.v "buf"), (.v "Strings.B")],
     .callAssign [] "pj" "ParsedJson.write_tape" [] [(.conv .u64 (.bin .add (.int 36028797018963968) (.v "start"))), (.u8 34)],
     .assign "size" (.conv .u64 (.bin .sub (.lenB (.v "Strings.B")) (.v "start")))] := rfl

/-- `copy(make([]byte, len(x)), x)` is `x` -/
theorem copy_same (x : Bytes) :
    x.extract 0 (min (Array.replicate x.size (0 : UInt8)).size x.size) ++
      (Array.replicate x.size (0 : UInt8)).extract (min (Array.replicate x.size (0 : UInt8)).size x.size)
        (Array.replicate x.size (0 : UInt8)).size = x := by
  have := copy_pad x x.size (Nat.le_refl _)
  rw [this]; simp

/-- the reallocation of `pj.Strings.B` (taken or not, whatever `cap(strs)`) does not change its content -/
theorem realloc_exec (e : Env) (strs : Bytes) (req sz : UInt64) (cap : Int) (tape : Array UInt64) (fuel : Nat)
    (h1 : e.get "strs" = some (.bytes strs)) (h2 : e.get "Strings.B" = some (.bytes strs))
    (h3 : e.get "requiredLen" = some (.u64 req)) (h4 : e.get "cap(strs)" = some (.int cap))
    (h5 : e.get "size" = some (.u64 sz)) :
    ∃ e2, exec1 goFuns fuel reallocIte ⟨e, tape⟩ = .normal ⟨e2, tape⟩ ∧
      e2.get "strs" = some (.bytes strs) ∧ e2.get "Strings.B" = some (.bytes strs) ∧
      (∀ k, k ≠ "strs" → k ≠ "Strings.B" → k ≠ "newSize" → e2.get k = e.get k) := by
  have h0 : (0 : Int) ≤ strs.size := by omega
  by_cases hc : req ≥ UInt64.ofInt cap
  · by_cases hn : (UInt64.ofInt cap * UInt64.ofInt 2) < req
    · refine ⟨((((e.set "newSize" (.u64 ((UInt64.ofInt cap * UInt64.ofInt 2)))).set "newSize" (.u64 (req + sz))).set "strs"
        (.bytes (Array.replicate strs.size 0))).set "strs" (.bytes strs)).set "Strings.B" (.bytes strs), ?_, ?_, ?_, ?_⟩
      · simp [reallocIte, copyBr, psTail, goparseString, h1, h2, h3, h4, h5, hc, hn, h0, Env.get_set, copy_same, -Env.set]
      · simp [Env.get_set]
      · simp [Env.get_set]
      · intro k k1 k2 k3; simp [Env.get_set, Ne.symm k1, Ne.symm k2, Ne.symm k3]
    · refine ⟨(((e.set "newSize" (.u64 ((UInt64.ofInt cap * UInt64.ofInt 2)))).set "strs"
        (.bytes (Array.replicate strs.size 0))).set "strs" (.bytes strs)).set "Strings.B" (.bytes strs), ?_, ?_, ?_, ?_⟩
      · simp [reallocIte, copyBr, psTail, goparseString, h1, h2, h3, h4, h5, hc, hn, h0, Env.get_set, copy_same, -Env.set]
      · simp [Env.get_set]
      · simp [Env.get_set]
      · intro k k1 k2 k3; simp [Env.get_set, Ne.symm k1, Ne.symm k2, Ne.symm k3]
  · refine ⟨e, ?_, h1, h2, fun _ _ _ _ => rfl⟩
    simp [reallocIte, copyBr, psTail, goparseString, h1, h2, h3, h4, h5, hc, Env.get_set, -Env.set]

def copyTail : List Stmt := copyBr.drop 3

theorem stringbuf_word : UInt64.ofInt 36028797018963968 = wSTRINGBUFBIT := by decide

theorem size_word (a b : Nat) : UInt64.ofInt ((a : Int) + (b : Int) - (a : Int)) = UInt64.ofNat b := by
  rw [← ofInt_nat]; congr 1; omega

/-- the end of the copy branch and of the function: `parseStringSimd` appends the decoded bytes to `pj.Strings.B`, the
    offset into the string buffer (with `STRINGBUFBIT`) and the decoded length go to the tape -/
theorem ps_copyB (e : Env) (strs msg pb dec : Bytes) (close : Nat) (tape : Array UInt64) (f : Nat)
    (hl : e.get "pj.lim" = some (.int tape.size)) (hS : e.get "Strings.B" = some (.bytes strs))
    (hM : e.get "Message" = some (.bytes msg)) (hs : e.get "strs" = some (.bytes strs))
    (hb : e.get "buf" = some (.bytes pb)) (hD : decodeString pb 1 pb.size = some (dec, close)) :
    exec goFuns (f + 1) (copyTail ++ [.tapeAppend "pj" [(.v "size")], .ret [(.bool true)]]) ⟨e, tape⟩ =
      .ret ⟨((backEnv ((e.set "start" (.int strs.size)).set "Strings.B" (.bytes (strs ++ dec)))
          ((tape.size + 1 : Nat) : Int) (strs ++ dec) msg).set "size" (.u64 (UInt64.ofNat dec.size))).set "pj.lim"
          (.int ((tape.size + 1 : Nat) + 1)),
        (tape.push (mkWord 34 (wSTRINGBUFBIT + UInt64.ofNat strs.size))).push (UInt64.ofNat dec.size)⟩ [.bool true] := by
  have hi3 : PJInit (strs ++ dec) msg ⟨(e.set "start" (.int strs.size)).set "Strings.B" (.bytes (strs ++ dec)), tape⟩ := by
    constructor <;> simp [Env.get_set, hl, hM]
  have hc := callFun_write_tape ⟨(e.set "start" (.int strs.size)).set "Strings.B" (.bytes (strs ++ dec)), tape⟩ (strs ++ dec) msg
    (.conv .u64 (.bin .add (.int 36028797018963968) (.v "start"))) (.u8 34) (wSTRINGBUFBIT + UInt64.ofNat strs.size) 34 f hi3
    (by simp [Env.get_set, stringbuf_word, ofInt_nat, -Env.set]) (by simp)
  simp only [copyTail, copyBr_eq, List.drop, List.cons_append, List.nil_append]
  have ha : tape ++ #[mkWord 34 (wSTRINGBUFBIT + UInt64.ofNat strs.size), UInt64.ofNat dec.size] =
      (tape.push (mkWord 34 (wSTRINGBUFBIT + UInt64.ofNat strs.size))).push (UInt64.ofNat dec.size) := by
    apply Array.ext'; simp
  simp [hs, hb, hS, Env.get_set, extCall, hD, assignTargets, hc, backEnv, ofInt_nat, asWords, ha, size_word, -Env.set]

theorem copyBr_split : copyBr = (copyBr.take 2 ++ [reallocIte]) ++ copyTail := rfl

/-- `needCopy` true after validation: the whole copy branch and the end of the function -/
theorem ps_copy (e : Env) (strs msg pb dec : Bytes) (close : Nat) (sz : UInt64) (cap : Int) (tape : Array UInt64) (f : Nat)
    (hi : PJInit strs msg ⟨e, tape⟩) (hnc : e.get "needCopy" = some (.bool true)) (hb : e.get "buf" = some (.bytes pb))
    (hcap : e.get "cap(strs)" = some (.int cap)) (hsz : e.get "size" = some (.u64 sz))
    (hD : decodeString pb 1 pb.size = some (dec, close)) :
    ∃ e', exec goFuns (f + 1) (psTail.drop 2) ⟨e, tape⟩ =
        .ret ⟨e', (tape.push (mkWord 34 (wSTRINGBUFBIT + UInt64.ofNat strs.size))).push (UInt64.ofNat dec.size)⟩ [.bool true] ∧
      e'.get "pj.lim" = some (.int ((tape.size + 1 : Nat) + 1)) ∧ e'.get "Strings.B" = some (.bytes (strs ++ dec)) ∧
      e'.get "Message" = some (.bytes msg) := by
  obtain ⟨hl, hS, hM⟩ := hi
  simp only at hl hS hM
  have hstep : exec goFuns (f + 1) (psTail.drop 2) ⟨e, tape⟩ =
      exec goFuns (f + 1) (copyBr ++ [.tapeAppend "pj" [(.v "size")], .ret [(.bool true)]]) ⟨e, tape⟩ := by
    rw [psTail_drop, exec_append, exec, exec1]
    simp only [evalE, hnc, Bool.not_true]
    generalize exec goFuns (f + 1) copyBr _ = out
    cases out <;> rfl
  have hA : exec goFuns (f + 1) (copyBr.take 2) ⟨e, tape⟩ =
      .normal ⟨(e.set "strs" (.bytes strs)).set "requiredLen" (.u64 (UInt64.ofNat strs.size + sz + 32)), tape⟩ := by
    simp [copyBr_eq, hS, hsz, Env.get_set, ofInt_nat, -Env.set]
  obtain ⟨e2, hR, r1, r2, r3⟩ := realloc_exec ((e.set "strs" (.bytes strs)).set "requiredLen" (.u64 (UInt64.ofNat strs.size + sz + 32)))
    strs (UInt64.ofNat strs.size + sz + 32) sz cap tape (f + 1) (by simp [Env.get_set]) (by simp [Env.get_set, hS])
    (by simp [Env.get_set]) (by simp [Env.get_set, hcap]) (by simp [Env.get_set, hsz])
  have hB := ps_copyB e2 strs msg pb dec close tape f
    (by rw [r3 _ (by decide) (by decide) (by decide)]; simp [Env.get_set, hl]) r2
    (by rw [r3 _ (by decide) (by decide) (by decide)]; simp [Env.get_set, hM]) r1
    (by rw [r3 _ (by decide) (by decide) (by decide)]; simp [Env.get_set, hb]) hD
  have hfin : exec goFuns (f + 1) (psTail.drop 2) ⟨e, tape⟩ =
      exec goFuns (f + 1) (copyTail ++ [.tapeAppend "pj" [(.v "size")], .ret [(.bool true)]]) ⟨e2, tape⟩ := by
    rw [hstep, copyBr_split, List.append_assoc, exec_append, exec_append, hA]
    simp only [exec, hR]
  rw [hfin, hB]
  refine ⟨_, rfl, ?_, ?_, ?_⟩
  · simp [Env.get_set]
  · simp [backEnv, Env.get_set]
  · simp [backEnv, Env.get_set]

/-- what `parseString` leaves in a store `e` for the machine state `m'`: the view `pj`, the string buffer, the message -/
def PSPost (e : Env) (m' : M) (buf : Bytes) : Prop :=
  e.get "pj.lim" = some (.int m'.tape.size) ∧ e.get "Strings.B" = some (.bytes m'.strings) ∧
    e.get "Message" = some (.bytes buf)

theorem psTail_split : psTail = psTail.take 2 ++ psTail.drop 2 := rfl

theorem parseString_sim (m : M) (cfg : Cfg) (buf : Bytes) (idx max : UInt64) (cap : Int) (fuel : Nat)
    (hidx : idx.toNat ≤ buf.size) (h63 : idx.toNat < 2^63) :
    match m.parseString cfg buf idx.toNat max.toNat with
    | some m' => ∃ e', runFun goFuns goparseString (fuel + 1) ⟨psEnv m buf idx max cfg.copyStrings cap, m.tape⟩ =
        .ret ⟨e', m'.tape⟩ [.bool true] ∧ PSPost e' m' buf
    | none => ∃ e', runFun goFuns goparseString (fuel + 1) ⟨psEnv m buf idx max cfg.copyStrings cap, m.tape⟩ =
        .ret ⟨e', m.tape⟩ [.bool false] ∧ PSPost e' m buf := by
  obtain ⟨n, e1, h1, F⟩ := ps_head m buf idx max cfg.copyStrings cap (fuel + 1) hidx h63
  generalize hpb : buf.extract idx.toNat buf.size ++ Array.replicate n 0 = pb at F
  have hdec : decodeString buf (idx.toNat + 1) max.toNat = shiftR idx.toNat (decodeString pb 1 max.toNat) := by
    rw [decodeString_suffix, ← hpb, decodeString_pad]
  have hv := ps_validate e1 m.tape.size m.strings buf pb idx max cfg.copyStrings cap m.tape (fuel + 1) F
  have hrun : runFun goFuns goparseString (fuel + 1) ⟨psEnv m buf idx max cfg.copyStrings cap, m.tape⟩ =
      match (match exec goFuns (fuel + 1) (psTail.take 2) ⟨e1, m.tape⟩ with
        | .normal s' => exec goFuns (fuel + 1) (psTail.drop 2) s'
        | o => o) with
      | .normal s' => .ret s' []
      | .brk _ | .cont _ => .stuck "break outside loop"
      | o => o := by
    unfold runFun
    rw [ps_body, exec_append, h1]
    simp only []
    rw [psTail_split, exec_append]
    rfl
  rw [hv] at hrun
  unfold M.parseString
  rw [hdec]
  cases hD : decodeString pb 1 max.toNat with
  | none =>
    rw [hD] at hrun
    simp only [shiftR, Option.map]
    refine ⟨_, hrun, ?_, ?_, ?_⟩
    · simp [Env.get_set, F.lim]
    · simp [Env.get_set, F.strs]
    · simp [Env.get_set, F.msg]
  | some r =>
    obtain ⟨dec, close⟩ := r
    rw [hD] at hrun
    simp only [shiftR, Option.map] at hrun ⊢
    have hsl : close + idx.toNat - (idx.toNat + 1) = close - 1 := by omega
    rw [hsl]
    have hi : PJInit m.strings buf ⟨((e1.set "#ok" (.bool true)).set "size" (.u64 (UInt64.ofNat dec.size))).set "needCopy"
        (.bool (cfg.copyStrings || close - 1 != dec.size)), m.tape⟩ := by
      constructor <;> simp [Env.get_set, F.lim, F.strs, F.msg]
    cases hnc : (cfg.copyStrings || close - 1 != dec.size) with
    | false =>
      rw [hnc] at hrun hi
      have hcl : close - 1 = dec.size := by
        have := (Bool.or_eq_false_iff.mp hnc).2
        simpa using this
      have hex := ps_nocopy _ m.strings buf idx (UInt64.ofNat dec.size) m.tape fuel hi
        (by simp [Env.get_set, F.idx]) (by simp [Env.get_set]) (by simp [Env.get_set])
      rw [hex] at hrun
      have hidx1 : UInt64.ofNat (idx.toNat + 1) = idx + 1 := by
        apply UInt64.toNat_inj.mp
        simp [UInt64.toNat_add]
      simp only [Bool.not_false, if_true, M.writeTape, hcl, hidx1, tagString]
      refine ⟨_, hrun, ?_, ?_, ?_⟩
      · simp [Env.get_set]
      · simp [backEnv, Env.get_set]
      · simp [backEnv, Env.get_set]
    | true =>
      rw [hnc] at hrun hi
      have hD' := decodeString_lim_size pb max.toNat dec close hD
      obtain ⟨e', hex, p1, p2, p3⟩ := ps_copy _ m.strings buf pb dec close (UInt64.ofNat dec.size) cap m.tape fuel hi
        (by simp [Env.get_set]) (by simp [Env.get_set, F.buf]) (by simp [Env.get_set, F.cap]) (by simp [Env.get_set]) hD'
      rw [hex] at hrun
      simp only [Bool.not_true, Bool.false_eq_true, if_false, M.writeTape, tagString]
      refine ⟨e', hrun, ?_, p2, p3⟩
      simp [p1]

/-! ## `addNumber` -/

/-- the two words `parseNumber` returns (`0, 0` for a rejected number) -/
def encNum : Option (UInt64 × UInt64) → List Val
  | none => [.u64 0, .u64 0]
  | some (id, val) => [.u64 id, .u64 val]

/-- the frame `callFun` builds for `parseNumber(buf)` from a caller holding the two shared buffers -/
def pnEnv (strs msg b : Bytes) : Env := [("Strings.B", .bytes strs), ("Message", .bytes msg), ("buf", .bytes b)]

/-- What `addNumber` needs of `parseNumber(msg[idx:])`, run on the frame `callFun` builds: it returns the model's two
    words, leaves tape and shared buffers alone, and the tag word of an accepted number is not zero.
    (`parseNumber_call` below proves it from `GoNumber`.) -/
def PNCall (msg : Bytes) (idx : Nat) : Prop :=
  (∀ id v, parseNumber msg idx = some (id, v) → id ≠ 0) ∧
  ∀ (strs : Bytes) (tape : Array UInt64) (fuel : Nat),
    ∃ s, exec goFuns fuel goparseNumber.body ⟨pnEnv strs msg (msg.extract idx msg.size), tape⟩ =
        .ret s (encNum (parseNumber msg idx)) ∧ s.tape = tape ∧
      s.env.get "Strings.B" = some (.bytes strs) ∧ s.env.get "Message" = some (.bytes msg)

/-- `parseNumber(a)` through `callFun`, from any caller holding the buffers -/
theorem callFun_parseNumber (s : GoSem.St) (strs msg : Bytes) (idx : Nat) (a : Expr) (f : Nat) (hpn : PNCall msg idx)
    (hS : s.env.get "Strings.B" = some (.bytes strs)) (hM : s.env.get "Message" = some (.bytes msg))
    (ha : evalE s a = .val (.bytes (msg.extract idx msg.size))) :
    callFun goFuns f "" "parseNumber" [] [a] s =
      .ret ⟨(s.env.set "Strings.B" (.bytes strs)).set "Message" (.bytes msg), s.tape⟩ (encNum (parseNumber msg idx)) := by
  obtain ⟨s', he, ht, h1, h2⟩ := hpn.2 strs s.tape f
  simp only [pnEnv] at he
  rw [callFun]
  simp [goFuns, goparseNumber, ha, hS, hM, copyPtrs, copyGlobals, globalVars, copyPtrsBack, -exec, -exec1]
  simp only [goparseNumber] at he
  rw [he]
  simp [copyPtrsBack, copyGlobals, h1, h2, ht]

theorem addNumber_sim_of (m : M) (msg : Bytes) (idx : Nat) (fuel : Nat) (hpn : PNCall msg idx) :
    match parseNumber msg idx with
    | some (tg, v) => ∃ e', runFun goFuns goaddNumber (fuel + 1)
        ⟨stEnv m msg ++ [("buf", .bytes (msg.extract idx msg.size))], m.tape⟩ =
          .ret ⟨e', (m.tape.push tg).push v⟩ [.bool true] ∧ PSPost e' { m with tape := (m.tape.push tg).push v } msg
    | none => ∃ e', runFun goFuns goaddNumber (fuel + 1)
        ⟨stEnv m msg ++ [("buf", .bytes (msg.extract idx msg.size))], m.tape⟩ = .ret ⟨e', m.tape⟩ [.bool false] ∧
          PSPost e' m msg := by
  have hc := callFun_parseNumber ⟨stEnv m msg ++ [("buf", .bytes (msg.extract idx msg.size))], m.tape⟩ m.strings msg idx
    (.v "buf") fuel hpn (by simp [stEnv]) (by simp [stEnv]) (by simp [stEnv])
  cases hp : parseNumber msg idx with
  | none =>
    rw [hp] at hc
    simp only [runFun, goaddNumber, exec, exec1, hc, encNum, assignTargets]
    simp [stEnv, PSPost]
  | some r =>
    obtain ⟨tg, v⟩ := r
    rw [hp] at hc
    have hne : tg ≠ 0 := hpn.1 tg v hp
    simp only [runFun, goaddNumber, exec, exec1, hc, encNum, assignTargets]
    have hbeq : (tg == 0) = false := by simpa using hne
    have hc2 := callFun_writeTapeTagValFlags
      ⟨[("pj.lim", .int m.tape.size), ("Strings.B", .bytes m.strings), ("Message", .bytes msg),
        ("buf", .bytes (msg.extract idx msg.size)), ("tag", .u64 tg), ("val", .u64 v)], m.tape⟩ m.strings msg
      (.v "tag") (.v "val") tg v fuel (by constructor <;> simp) (by simp) (by simp)
    simp [stEnv, PSPost, hbeq, hc2, assignTargets, backEnv]

/-! ### `parseNumber` leaves the shared buffers alone

`GoNumber.parseNumber_run` gives the returned words and the tape; `callFun` also copies the shared buffers back from the
callee's final store, so that they are still there, unchanged, has to be shown too: no statement of `parseNumber`
assigns them (a syntactic walk over the regenerated tree, `keeps_parseNumber`). -/

/-- the outcome `o` of a run started in `s` has the variable `k` as it was -/
def Keeps (k : String) (s : GoSem.St) : Out → Prop
  | .normal s' | .brk s' | .cont s' | .ret s' _ => s'.env.get k = s.env.get k
  | _ => True

section Keeps
attribute [-simp] exec exec1 evalE evalEs Env.get Env.set

variable (funs : String → Option FunDef) (fuel : Nat) (k : String)

theorem Keeps.trans {k : String} {s s' : GoSem.St} {o : Out} (h : s'.env.get k = s.env.get k) (ho : Keeps k s' o) :
    Keeps k s o := by
  cases o <;> simp only [Keeps] at ho ⊢ <;> first | exact ho.trans h | trivial

theorem keeps_ofE (s : GoSem.St) (o : EOut) (h : ∀ v, o ≠ .val v) : Keeps k s (ofE o) := by
  cases o with
  | val v => exact absurd rfl (h v)
  | panic => trivial
  | stuck w => trivial

theorem keeps_nil : ∀ s, Keeps k s (exec funs fuel [] s) := by
  intro s; rw [exec]; rfl

theorem keeps_cons (st : Stmt) (rest : List Stmt) (H1 : ∀ s, Keeps k s (exec1 funs fuel st s))
    (H2 : ∀ s, Keeps k s (exec funs fuel rest s)) : ∀ s, Keeps k s (exec funs fuel (st :: rest) s) := by
  intro s
  rw [exec]
  have h1 := H1 s
  cases h : exec1 funs fuel st s with
  | normal s' =>
    rw [h] at h1
    exact Keeps.trans h1 (H2 s')
  | _ => rw [h] at h1; exact h1

theorem keeps_assign (n : String) (e : Expr) (hn : n ≠ k) : ∀ s, Keeps k s (exec1 funs fuel (.assign n e) s) := by
  intro s
  rw [exec1]
  cases h : evalE s e with
  | val v => simp [Keeps, Env.get_set, hn]
  | panic => trivial
  | stuck w => trivial

theorem keeps_ite (c : Expr) (t e : List Stmt) (Ht : ∀ s, Keeps k s (exec funs fuel t s))
    (He : ∀ s, Keeps k s (exec funs fuel e s)) : ∀ s, Keeps k s (exec1 funs fuel (.ite c t e) s) := by
  intro s
  rw [exec1]
  cases h : evalE s c with
  | val v =>
    cases v with
    | bool b => cases b <;> first | exact He s | exact Ht s
    | _ => trivial
  | panic => trivial
  | stuck w => trivial

theorem keeps_ret (es : List Expr) : ∀ s, Keeps k s (exec1 funs fuel (.ret es) s) := by
  intro s
  rw [exec1]
  cases h : evalEs s es with
  | ok vs => rfl
  | error o => cases o <;> trivial

theorem keeps_brk : ∀ s, Keeps k s (exec1 funs fuel .brk s) := by
  intro s; rw [exec1]; rfl

theorem assignTargets_get : ∀ (ts : List String) (vs : List Val) (e e' : Env), assignTargets ts vs e = some e' →
    (∀ t ∈ ts, t ≠ k) → e'.get k = e.get k := by
  intro ts
  induction ts with
  | nil =>
    intro vs e e' h _
    cases vs with
    | nil => simp [assignTargets] at h; rw [h]
    | cons v vs => simp [assignTargets] at h
  | cons t ts ih =>
    intro vs e e' h hk
    cases vs with
    | nil => simp [assignTargets] at h
    | cons v vs =>
      rw [assignTargets] at h
      have := ih vs _ e' h (fun t' ht' => hk t' (List.mem_cons_of_mem _ ht'))
      rw [this]
      split
      · rfl
      · rw [Env.get_set, if_neg (hk t (List.mem_cons_self ..))]

theorem keeps_ext (targets : List String) (name : String) (args : List Expr) (hk : ∀ t ∈ targets, t ≠ k) :
    ∀ s, Keeps k s (exec1 funs fuel (.extAssign targets name args) s) := by
  intro s
  rw [exec1]
  cases evalEs s args with
  | error o => cases o <;> trivial
  | ok vs =>
    simp only []
    cases extCall name vs with
    | none => trivial
    | some rs =>
      simp only []
      cases h : assignTargets targets rs s.env with
      | none => trivial
      | some e => exact assignTargets_get k targets rs s.env e h hk

theorem keeps_rangeI (iv v : String) (body : List Stmt) (h1 : iv ≠ k) (h2 : v ≠ k)
    (Hb : ∀ s, Keeps k s (exec funs fuel body s)) :
    ∀ (xs : List UInt8) (n : Nat) (s : GoSem.St), Keeps k s (execRangeI funs fuel iv v n xs body s) := by
  intro xs
  induction xs with
  | nil => intro n s; rw [GoNumber.execRangeI_nil]; rfl
  | cons x xs ih =>
    intro n s
    rw [GoNumber.execRangeI_cons]
    have hs : ({ s with env := (s.env.set iv (.int n)).set v (.u8 x) } : GoSem.St).env.get k = s.env.get k := by
      simp [Env.get_set, h1, h2]
    have hb := Hb { s with env := (s.env.set iv (.int n)).set v (.u8 x) }
    cases h : exec funs fuel body { s with env := (s.env.set iv (.int n)).set v (.u8 x) } with
    | normal s' => rw [h] at hb; exact Keeps.trans (hb.trans hs) (ih (n + 1) s')
    | cont s' => rw [h] at hb; exact Keeps.trans (hb.trans hs) (ih (n + 1) s')
    | brk s' => rw [h] at hb; exact hb.trans hs
    | ret s' vs => rw [h] at hb; exact hb.trans hs
    | panic => trivial
    | diverge => trivial
    | stuck w => trivial

end Keeps

theorem keeps_rangeIB (funs : String → Option FunDef) (fuel : Nat) (k : String) (iv v : String) (e : Expr)
    (body : List Stmt) (h1 : iv ≠ k) (h2 : v ≠ k) (Hb : ∀ s, Keeps k s (exec funs fuel body s)) :
    ∀ s, Keeps k s (exec1 funs fuel (.rangeIB iv v e body) s) := by
  intro s
  rw [exec1]
  cases h : evalE s e with
  | val x =>
    cases x with
    | bytes b => exact keeps_rangeI funs fuel k iv v body h1 h2 Hb b.toList 0 s
    | _ => trivial
  | panic => trivial
  | stuck w => trivial

/-- walk a syntax tree made of assignments, `if`, `return`, `break`, library calls and `range` loops -/
macro "keeps_walk" : tactic => `(tactic| repeat (first
  | exact keeps_nil _ _ _
  | apply keeps_cons
  | (apply keeps_assign; decide)
  | apply keeps_ite
  | exact keeps_ret _ _ _ _
  | exact keeps_brk _ _ _
  | (apply keeps_ext; decide)
  | (apply keeps_rangeIB _ _ _ _ _ _ _ (by decide) (by decide))))

theorem keeps_parseNumber_strs (fuel : Nat) : ∀ s, Keeps "Strings.B" s (exec goFuns fuel goparseNumber.body s) := by
  unfold goparseNumber
  keeps_walk

theorem keeps_parseNumber_msg (fuel : Nat) : ∀ s, Keeps "Message" s (exec goFuns fuel goparseNumber.body s) := by
  unfold goparseNumber
  keeps_walk

/-- `GoNumber.parseNumber_run` on any store holding `buf` (same proof: `GoNumber.scan_loop` and `GoNumber.tail_sim`
    are stated for abstract stores) -/
theorem parseNumber_exec_env (e0 : Env) (b : Bytes) (hb : e0.get "buf" = some (.bytes b)) (fuel : Nat) (tape : Array UInt64) :
    ∃ s, exec goFuns fuel goparseNumber.body ⟨e0, tape⟩ = .ret s (GoNumber.enc (NumberProofs.parseNumberL b.toList)) ∧
      s.tape = tape := by
  have hpre : exec goFuns fuel [.assign "id" (.u64 0), .assign "val" (.u64 0), .assign "pos" (.int 0),
      .assign "found" (.conv .u8 (.u8 0))] ⟨e0, tape⟩ =
      .normal ⟨(((e0.set "id" (.u64 0)).set "val" (.u64 0)).set "pos" (.int 0)).set "found" (.u8 0), tape⟩ := by
    simp [-Env.set]
  have hloop := GoNumber.scan_loop b tape fuel b.toList 0
    ⟨(((e0.set "id" (.u64 0)).set "val" (.u64 0)).set "pos" (.int 0)).set "found" (.u8 0), tape⟩ 0 rfl (Nat.zero_le _) rfl
    (by simp [Env.get_set, hb]) (by simp [Env.get_set]) (by simp [Env.get_set])
  have hbody : goparseNumber.body = [.assign "id" (.u64 0), .assign "val" (.u64 0), .assign "pos" (.int 0),
      .assign "found" (.conv .u8 (.u8 0))] ++ ([.rangeIB "i" "v" (.v "buf") GoNumber.loopBody] ++ GoNumber.tailStmts) := rfl
  unfold NumberProofs.parseNumberL
  rw [hbody, exec_append, hpre]
  simp only []
  rw [exec_append]
  have hr : exec goFuns fuel [.rangeIB "i" "v" (.v "buf") GoNumber.loopBody]
      ⟨(((e0.set "id" (.u64 0)).set "val" (.u64 0)).set "pos" (.int 0)).set "found" (.u8 0), tape⟩ =
      match execRangeI goFuns fuel "i" "v" 0 b.toList GoNumber.loopBody
        ⟨(((e0.set "id" (.u64 0)).set "val" (.u64 0)).set "pos" (.int 0)).set "found" (.u8 0), tape⟩ with
      | .normal s' => .normal s'
      | o => o := by
    simp [Env.get_set, hb, -Env.set]
    generalize execRangeI goFuns fuel "i" "v" 0 b.toList GoNumber.loopBody _ = out
    cases out <;> rfl
  rw [hr]
  revert hloop
  simp only [UInt8.toNat_zero]
  cases NumberProofs.scan b.toList 0 0 with
  | none =>
    rintro ⟨s', hex, ht⟩
    rw [hex]
    exact ⟨s', rfl, ht⟩
  | some pf =>
    obtain ⟨p, f⟩ := pf
    rintro ⟨s', fu', hex, ht, hb', hf', hfu, hp', hle⟩
    rw [hex]
    simp only []
    subst hfu
    obtain ⟨s'', h1, h2⟩ := GoNumber.tail_sim b tape fuel s'.env p fu' hb' hp' hf' hle
    have : s' = ⟨s'.env, tape⟩ := by rw [← ht]
    rw [this, h1]
    exact ⟨s'', rfl, h2⟩

theorem encNum_eq (r : Option (UInt64 × UInt64)) : GoNumber.enc r = encNum r := by
  cases r with
  | none => rfl
  | some p => rfl

/-- the premise of `addNumber_sim_of` holds, for every message and every index -/
theorem parseNumber_call (msg : Bytes) (idx : Nat) : PNCall msg idx := by
  refine ⟨fun id v h => GoNumber.parseNumber_id_ne h, ?_⟩
  intro strs tape fuel
  obtain ⟨s, hs, ht⟩ := parseNumber_exec_env (pnEnv strs msg (msg.extract idx msg.size)) (msg.extract idx msg.size)
    (by simp [pnEnv]) fuel tape
  rw [GoNumber.suffix_toList, ← NumberProofs.parseNumber_eq, encNum_eq] at hs
  have k1 := keeps_parseNumber_strs fuel ⟨pnEnv strs msg (msg.extract idx msg.size), tape⟩
  have k2 := keeps_parseNumber_msg fuel ⟨pnEnv strs msg (msg.extract idx msg.size), tape⟩
  rw [hs] at k1 k2
  refine ⟨s, hs, ht, ?_, ?_⟩
  · rw [show s.env.get "Strings.B" = _ from k1]; simp [pnEnv]
  · rw [show s.env.get "Message" = _ from k2]; simp [pnEnv]

/-- `addNumber(msg[idx:], pj)` is the number case of `M.value`: `parseNumber msg idx = some (tag, val)` ⇔ Go returns
    `true` after appending the two words; `none` ⇔ Go returns `false` and has changed nothing.  No hypothesis. -/
theorem addNumber_sim (m : M) (msg : Bytes) (idx : Nat) (fuel : Nat) :
    match parseNumber msg idx with
    | some (tg, v) => ∃ e', runFun goFuns goaddNumber (fuel + 1)
        ⟨stEnv m msg ++ [("buf", .bytes (msg.extract idx msg.size))], m.tape⟩ =
          .ret ⟨e', (m.tape.push tg).push v⟩ [.bool true] ∧ PSPost e' { m with tape := (m.tape.push tg).push v } msg
    | none => ∃ e', runFun goFuns goaddNumber (fuel + 1)
        ⟨stEnv m msg ++ [("buf", .bytes (msg.extract idx msg.size))], m.tape⟩ = .ret ⟨e', m.tape⟩ [.bool false] ∧
          PSPost e' m msg :=
  addNumber_sim_of m msg idx fuel (parseNumber_call msg idx)

/-! ## the `⇔` forms -/

theorem annotate_none_iff (m : M) (buf : Bytes) (at_ val : UInt64) (fuel : Nat) :
    m.annotate at_ val = none ↔ runFun goFuns goParsedJson_annotate_previousloc fuel
      ⟨stEnv m buf ++ [("saved_loc", .u64 at_), ("val", .u64 val)], m.tape⟩ = .panic := by
  have h := annotate_previousloc_sim m buf at_ val fuel
  cases hm : m.annotate at_ val with
  | none => rw [hm] at h; exact ⟨fun _ => h, fun _ => rfl⟩
  | some m' =>
    rw [hm] at h
    simp only [] at h
    rw [h]
    exact ⟨fun hh => (by cases hh), fun hh => (by cases hh)⟩

theorem annotate_some_iff (m : M) (buf : Bytes) (at_ val : UInt64) (fuel : Nat) :
    (m.annotate at_ val).isSome ↔ ∃ s, runFun goFuns goParsedJson_annotate_previousloc fuel
      ⟨stEnv m buf ++ [("saved_loc", .u64 at_), ("val", .u64 val)], m.tape⟩ = .ret s [] := by
  have h := annotate_previousloc_sim m buf at_ val fuel
  cases hm : m.annotate at_ val with
  | none =>
    rw [hm] at h
    simp only [] at h
    rw [h]
    exact ⟨fun hh => (by cases hh), fun ⟨_, hh⟩ => (by cases hh)⟩
  | some m' => rw [hm] at h; exact ⟨fun _ => ⟨_, h⟩, fun _ => rfl⟩

/-- the model accepts the string ⇔ Go returns `true` -/
theorem parseString_true_iff (m : M) (cfg : Cfg) (buf : Bytes) (idx max : UInt64) (cap : Int) (fuel : Nat)
    (hidx : idx.toNat ≤ buf.size) (h63 : idx.toNat < 2^63) :
    (m.parseString cfg buf idx.toNat max.toNat).isSome ↔
      ∃ s, runFun goFuns goparseString (fuel + 1) ⟨psEnv m buf idx max cfg.copyStrings cap, m.tape⟩ = .ret s [.bool true] := by
  have h := parseString_sim m cfg buf idx max cap fuel hidx h63
  cases hm : m.parseString cfg buf idx.toNat max.toNat with
  | none =>
    rw [hm] at h
    obtain ⟨e', he, _⟩ := h
    rw [he]
    exact ⟨fun hh => (by cases hh), fun ⟨_, hh⟩ => (by simp at hh)⟩
  | some m' =>
    rw [hm] at h
    obtain ⟨e', he, _⟩ := h
    exact ⟨fun _ => ⟨_, he⟩, fun _ => rfl⟩

/-- the model rejects the string ⇔ Go returns `false` -/
theorem parseString_false_iff (m : M) (cfg : Cfg) (buf : Bytes) (idx max : UInt64) (cap : Int) (fuel : Nat)
    (hidx : idx.toNat ≤ buf.size) (h63 : idx.toNat < 2^63) :
    m.parseString cfg buf idx.toNat max.toNat = none ↔
      ∃ s, runFun goFuns goparseString (fuel + 1) ⟨psEnv m buf idx max cfg.copyStrings cap, m.tape⟩ = .ret s [.bool false] := by
  have h := parseString_sim m cfg buf idx max cap fuel hidx h63
  cases hm : m.parseString cfg buf idx.toNat max.toNat with
  | none =>
    rw [hm] at h
    obtain ⟨e', he, _⟩ := h
    exact ⟨fun _ => ⟨_, he⟩, fun _ => rfl⟩
  | some m' =>
    rw [hm] at h
    obtain ⟨e', he, _⟩ := h
    rw [he]
    exact ⟨fun hh => (by cases hh), fun ⟨_, hh⟩ => (by simp at hh)⟩

/-- the model accepts the number ⇔ Go returns `true` -/
theorem addNumber_true_iff (m : M) (msg : Bytes) (idx : Nat) (fuel : Nat) :
    (parseNumber msg idx).isSome ↔ ∃ s, runFun goFuns goaddNumber (fuel + 1)
      ⟨stEnv m msg ++ [("buf", .bytes (msg.extract idx msg.size))], m.tape⟩ = .ret s [.bool true] := by
  have h := addNumber_sim m msg idx fuel
  cases hm : parseNumber msg idx with
  | none =>
    rw [hm] at h
    obtain ⟨e', he, _⟩ := h
    rw [he]
    exact ⟨fun hh => (by cases hh), fun ⟨_, hh⟩ => (by simp at hh)⟩
  | some r =>
    obtain ⟨tg, v⟩ := r
    rw [hm] at h
    obtain ⟨e', he, _⟩ := h
    exact ⟨fun _ => ⟨_, he⟩, fun _ => rfl⟩

/-- the model rejects the number ⇔ Go returns `false` -/
theorem addNumber_false_iff (m : M) (msg : Bytes) (idx : Nat) (fuel : Nat) :
    parseNumber msg idx = none ↔ ∃ s, runFun goFuns goaddNumber (fuel + 1)
      ⟨stEnv m msg ++ [("buf", .bytes (msg.extract idx msg.size))], m.tape⟩ = .ret s [.bool false] := by
  have h := addNumber_sim m msg idx fuel
  cases hm : parseNumber msg idx with
  | none =>
    rw [hm] at h
    obtain ⟨e', he, _⟩ := h
    exact ⟨fun _ => ⟨_, he⟩, fun _ => rfl⟩
  | some r =>
    obtain ⟨tg, v⟩ := r
    rw [hm] at h
    obtain ⟨e', he, _⟩ := h
    rw [he]
    exact ⟨fun hh => (by cases hh), fun ⟨_, hh⟩ => (by simp at hh)⟩

/-- `parseString_sim` with the natural-number arguments of `M.step`: an index inside the message (a Go `int`) and a
    `peekSize` that fits a `uint64` -/
theorem parseString_sim_nat (m : M) (cfg : Cfg) (buf : Bytes) (idx peek : Nat) (cap : Int) (fuel : Nat)
    (hidx : idx ≤ buf.size) (hbuf : buf.size < 2^63) (hpeek : peek < 2^64) :
    match m.parseString cfg buf idx peek with
    | some m' => ∃ e', runFun goFuns goparseString (fuel + 1)
        ⟨psEnv m buf (UInt64.ofNat idx) (UInt64.ofNat peek) cfg.copyStrings cap, m.tape⟩ =
          .ret ⟨e', m'.tape⟩ [.bool true] ∧ PSPost e' m' buf
    | none => ∃ e', runFun goFuns goparseString (fuel + 1)
        ⟨psEnv m buf (UInt64.ofNat idx) (UInt64.ofNat peek) cfg.copyStrings cap, m.tape⟩ =
          .ret ⟨e', m.tape⟩ [.bool false] ∧ PSPost e' m buf := by
  have h1 : (UInt64.ofNat idx).toNat = idx := by simp; omega
  have h2 : (UInt64.ofNat peek).toNat = peek := by simp; omega
  have := parseString_sim m cfg buf (UInt64.ofNat idx) (UInt64.ofNat peek) cap fuel (by omega) (by omega)
  rw [h1, h2] at this
  exact this

/-! ## the hypotheses of `parseString_sim` are needed

`idx ≤ len(pj.Message)` (and `idx < 2^63`, a Go `int`): otherwise `pj.Message[idx:]` panics, where the model says
"rejected".  `unifiedMachine` only passes indexes of stage 1, which are inside the message. -/
example : runFun goFuns goparseString 1 ⟨psEnv {} #[] 1 0 false 0, #[]⟩ = .panic := by
  simp [goparseString, psEnv, stEnv, toInt64]
example : ({} : M).parseString {} #[] 1 0 = none := by
  simp [M.parseString, SJ.TokenSim.decodeString_lim0]

/-! ## the bundle -/

/-- The stage-2 ACTIONS of the hand model (`Model/Stage2.lean`) are the meaning of the regenerated syntax trees of
    `get_current_loc`, `write_tape`, `writeTapeTagVal`, `writeTapeTagValFlags`, `write_tape_s64`, `write_tape_double`,
    `annotate_previousloc`, `parseString` and `addNumber`: for every machine state `m`, every message `buf`, every
    argument and every fuel (one unit where the function calls another one).  The only hypotheses are those of
    `parseString`: the index lies in the message and is a Go `int`. -/
theorem go_stage2_actions_source_tie (m : M) (cfg : Cfg) (buf : Bytes) (fuel : Nat) :
    -- get_current_loc
    (runFun goFuns goParsedJson_get_current_loc fuel ⟨stEnv m buf, m.tape⟩ = .ret ⟨stEnv m buf, m.tape⟩ [.u64 m.loc]) ∧
    -- write_tape; `val | uint64(c)<<56` is `mkWord c val` for every `val`
    (∀ (val : UInt64) (c : UInt8), val ||| (c.toUInt64 <<< 56) = mkWord c val) ∧
    (∀ (val : UInt64) (c : UInt8),
      runFun goFuns goParsedJson_write_tape fuel ⟨stEnv m buf ++ [("val", .u64 val), ("c", .u8 c)], m.tape⟩ =
        .ret ⟨stEnv (m.writeTape val c) buf ++ [("val", .u64 val), ("c", .u8 c)], (m.writeTape val c).tape⟩ []) ∧
    -- writeTapeTagVal
    (∀ (tag : UInt8) (val : UInt64),
      runFun goFuns goParsedJson_writeTapeTagVal fuel ⟨stEnv m buf ++ [("tag", .u8 tag), ("val", .u64 val)], m.tape⟩ =
        .ret ⟨stEnv { m with tape := (m.tape.push (mkWord tag 0)).push val } buf ++ [("tag", .u8 tag), ("val", .u64 val)],
          (m.tape.push (mkWord tag 0)).push val⟩ []) ∧
    -- writeTapeTagValFlags
    (∀ (id val : UInt64),
      runFun goFuns goParsedJson_writeTapeTagValFlags fuel ⟨stEnv m buf ++ [("id", .u64 id), ("val", .u64 val)], m.tape⟩ =
        .ret ⟨stEnv { m with tape := (m.tape.push id).push val } buf ++ [("id", .u64 id), ("val", .u64 val)],
          (m.tape.push id).push val⟩ []) ∧
    -- write_tape_s64
    (∀ (val : Int),
      runFun goFuns goParsedJson_write_tape_s64 (fuel + 1) ⟨stEnv m buf ++ [("val", .int val)], m.tape⟩ =
        .ret ⟨stEnv { m with tape := (m.tape.push (mkWord tagInteger 0)).push (ofInt64 val) } buf ++ [("val", .int val)],
          (m.tape.push (mkWord tagInteger 0)).push (ofInt64 val)⟩ []) ∧
    -- write_tape_double
    (∀ (d : UInt64),
      runFun goFuns goParsedJson_write_tape_double (fuel + 1) ⟨stEnv m buf ++ [("d", .u64 d)], m.tape⟩ =
        .ret ⟨stEnv { m with tape := (m.tape.push (mkWord tagFloat 0)).push d } buf ++ [("d", .u64 d)],
          (m.tape.push (mkWord tagFloat 0)).push d⟩ []) ∧
    -- annotate_previousloc
    (∀ (at_ val : UInt64),
      match m.annotate at_ val with
      | some m' => runFun goFuns goParsedJson_annotate_previousloc fuel
          ⟨stEnv m buf ++ [("saved_loc", .u64 at_), ("val", .u64 val)], m.tape⟩ =
            .ret ⟨stEnv m' buf ++ [("saved_loc", .u64 at_), ("val", .u64 val)], m'.tape⟩ []
      | none => runFun goFuns goParsedJson_annotate_previousloc fuel
          ⟨stEnv m buf ++ [("saved_loc", .u64 at_), ("val", .u64 val)], m.tape⟩ = .panic) ∧
    -- parseString
    (∀ (idx max : UInt64) (cap : Int), idx.toNat ≤ buf.size → idx.toNat < 2^63 →
      match m.parseString cfg buf idx.toNat max.toNat with
      | some m' => ∃ e', runFun goFuns goparseString (fuel + 1) ⟨psEnv m buf idx max cfg.copyStrings cap, m.tape⟩ =
          .ret ⟨e', m'.tape⟩ [.bool true] ∧ PSPost e' m' buf
      | none => ∃ e', runFun goFuns goparseString (fuel + 1) ⟨psEnv m buf idx max cfg.copyStrings cap, m.tape⟩ =
          .ret ⟨e', m.tape⟩ [.bool false] ∧ PSPost e' m buf) ∧
    -- addNumber
    (∀ (idx : Nat),
      match parseNumber buf idx with
      | some (tg, v) => ∃ e', runFun goFuns goaddNumber (fuel + 1)
          ⟨stEnv m buf ++ [("buf", .bytes (buf.extract idx buf.size))], m.tape⟩ =
            .ret ⟨e', (m.tape.push tg).push v⟩ [.bool true] ∧ PSPost e' { m with tape := (m.tape.push tg).push v } buf
      | none => ∃ e', runFun goFuns goaddNumber (fuel + 1)
          ⟨stEnv m buf ++ [("buf", .bytes (buf.extract idx buf.size))], m.tape⟩ = .ret ⟨e', m.tape⟩ [.bool false] ∧
            PSPost e' m buf) :=
  ⟨get_current_loc_sim m buf fuel, or_shl_eq_mkWord, fun val c => write_tape_sim m buf val c fuel,
   fun tag val => writeTapeTagVal_sim m buf tag val fuel, fun id val => writeTapeTagValFlags_sim m buf id val fuel,
   fun val => write_tape_s64_sim m buf val fuel, fun d => write_tape_double_sim m buf d fuel,
   fun at_ val => annotate_previousloc_sim m buf at_ val fuel,
   fun idx max cap h1 h2 => parseString_sim m cfg buf idx max cap fuel h1 h2,
   fun idx => addNumber_sim m buf idx fuel⟩

end SJ.GoStage2
