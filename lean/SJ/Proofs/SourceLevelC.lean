import SJ.Properties.C19
import SJ.Properties.C04
import SJ.Properties.C01
import SJ.Properties.C10
import SJ.Properties.C13
import SJ.Properties.C14
import SJ.Proofs.SourceLevelA
import SJ.Proofs.SourceLevelB
set_option autoImplicit false
set_option linter.unusedVariables false
/-
SourceLevelC — property theorems stated directly about the MEANING OF THE GO SOURCE (continuation of SourceLevelA/B).

Each theorem chains a source tie (`*_follows_source`: the hand model is the meaning, under
`GoSem.runFun goFuns <tree> fuel ⟨store, tape⟩`, of a syntax tree regenerated from the Go source on every run) with a
property theorem about the hand model (`SJ/Properties/C19, C04, C13, C14`).  The conclusions mention no function of the
hand model: they speak of the outcome of `runFun`, of the tape and store the run leaves, of what the tape DENOTES
(`Ok pj doc`) and of the specification (`Spec.stringBody`).  Records of the model that are plain data (`PJ`: tape, string
buffer, message; `M`: the stage-2 state, of which only tape and string buffer are read; `Iter`: the five fields of the Go
iterator) occur as carriers of the stores' contents.
-/
namespace SJ.SourceLevelC
open SJ SJ.Generated SJ.GoSem SJ.GoIter SJ.GoSet SJ.Layout

/-! ## C19 — the reconstruction loop of `Deserialize` -/

section C19
open SJ.Rebuild SJ.GoRebuild SJ.GoObject SJ.GoMarshal SJ.Properties.C19

/-- **`Deserialize` never panics on corrupt bytes, source level.**  For EVERY tag stream, EVERY value stream and EVERY prior
    destination tape, running the regenerated reconstruction block of `Serializer.Deserialize` (`goDeserialize_rebuild`: from
    `var off int` to the end of the function) returns: either `dst, nil` — and then the tape it leaves has exactly the length
    of the prior destination tape (the block never grows or shrinks `dst.Tape`) — or a non-nil error.  In particular the run
    does not panic (no index outside `dst.Tape`, `s.tagsBuf`, `values`), is not stuck (the tree is inside the translated
    subset and well typed on this store), and does not diverge (the fuel suffices).
    Discharged: nothing of the tie is left but its own two premises — `init.size < 2^56` (Go compares tape offsets in
    `uint64`; a tape offset has 56 bits anyway) and fuel `len(dst.Tape) + 8` (the longest inner loop writes at most
    `len(dst.Tape)` skips). -/
theorem C19_source_rebuild_no_panic (init : Array UInt64) (tags values : Bytes) (hsz : init.size < 2^56) (fuel : Nat)
    (hf : init.size + 8 ≤ fuel) :
    (∃ s, runFun goFuns goDeserialize_rebuild fuel (rebStore init tags values) = .ret s [.bool true, .bool false] ∧
        s.tape.size = init.size) ∨
    (∃ s p, runFun goFuns goDeserialize_rebuild fuel (rebStore init tags values) = .ret s [.bool p, .bool true]) := by
  have htie := C19_rebuild_follows_source init tags values hsz fuel hf
  obtain ⟨hp, hd, hsize⟩ := C19_rebuild_no_panic init tags values
  cases hr : rebuild init tags values with
  | ok tp =>
    rw [hr] at htie
    obtain ⟨s, ho, ht⟩ := htie
    exact Or.inl ⟨s, ho, by rw [ht]; exact hsize tp hr⟩
  | error e =>
    rw [hr] at htie
    exact Or.inr htie
  | panic => exact absurd hr hp
  | diverge => exact absurd hr hd

/-- … spelled out: the run is none of a panic, a divergence, a stuck state, or a fall off the end of the block. -/
theorem C19_source_rebuild_returns (init : Array UInt64) (tags values : Bytes) (hsz : init.size < 2^56) (fuel : Nat)
    (hf : init.size + 8 ≤ fuel) :
    runFun goFuns goDeserialize_rebuild fuel (rebStore init tags values) ≠ .panic ∧
    runFun goFuns goDeserialize_rebuild fuel (rebStore init tags values) ≠ .diverge ∧
    (∀ why, runFun goFuns goDeserialize_rebuild fuel (rebStore init tags values) ≠ .stuck why) ∧
    ∃ s vs, runFun goFuns goDeserialize_rebuild fuel (rebStore init tags values) = .ret s vs := by
  rcases C19_source_rebuild_no_panic init tags values hsz fuel hf with ⟨s, h, _⟩ | ⟨s, p, h⟩ <;>
    exact ⟨(by rw [h]; exact fun x => (by cases x)), (by rw [h]; exact fun x => (by cases x)),
      fun why => (by rw [h]; exact fun x => (by cases x)), _, _, h⟩

/-- on any tape, `MarshalJSONBuffer` from the root iterator returns bytes or an error -/
theorem marshal_root_safe (pj : PJ) (hb : BufOK pj) (dst : Bytes) (F : Nat) (hF : 3 * pj.tape.size + 25 ≤ F) :
    (∃ st out, runFun goFuns goIter_MarshalJSONBuffer F ⟨initEnv pj (Iter.ofPJ pj) dst, pj.tape⟩ =
        .ret st [.bytes out, .bool false] ∧ st.tape = pj.tape) ∨
    (∃ st v, runFun goFuns goIter_MarshalJSONBuffer F ⟨initEnv pj (Iter.ofPJ pj) dst, pj.tape⟩ =
        .ret st [v, .bool true]) := by
  have hwalk := SJ.WalkSafe.marshalBuf_safe pj (Iter.ofPJ pj) dst (SJ.WalkSafe.ofPJ_valid pj)
  have hcur : (Iter.ofPJ pj).cur.toNat < 2^63 := by simp [Iter.ofPJ]
  obtain ⟨h1, h2, _⟩ := go_marshal_source_tie_valid pj hb (Iter.ofPJ pj) (Nat.le_refl _) (Int.le_refl _)
    hcur dst F (by unfold fuelOf; show 2 * pj.tape.size + 16 + pj.tape.size + 9 ≤ F; omega)
  rcases hwalk with ⟨out, ho⟩ | ⟨er, he⟩
  · obtain ⟨st, hst, htp⟩ := (h1 out).mp ho
    exact Or.inl ⟨st, out, hst, htp⟩
  · exact Or.inr (h2.mp ⟨er, he⟩)

/-- **What a returned result guarantees, source level** (`C19_result_walkable` on the tape the source returned).  Whatever
    the two streams were: if the reconstruction block returns `dst, nil`, then on the tape it leaves — read, as `Deserialize`
    sets them, with an empty string buffer and ANY `Message` shorter than 2^63 bytes — running the regenerated
    `Iter.MarshalJSONBuffer` from the iterator `ParsedJson.Iter()` builds (view = the whole tape, offset 0) returns bytes and
    `nil`, or a non-nil error; it does not panic, and leaves the tape alone.  (The tape may denote no document at all: the
    statement is about memory safety and termination of the reader, not about what it prints.)
    Discharged: the marshal tie's view premise (`lim = len(tape)`), `cur < 2^63` (`cur = 0`), `0 ≤ addNext`, non-divergence
    of the model (`WalkSafe.marshalBuf_safe`, the lemma behind `C19_result_walkable`'s marshal clause, here for every `dst`
    and not only `nil`), and the length of the returned tape.  Remaining: `msg.size < 2^63` (`BufOK`: a Go slice length is an `int`; the tape does not bound the message) and the
    interpreter's loop budget `3·len(tape) + 25`.  Not composed: the `owalk` / `Iter.Interface` clauses of
    `C19_result_walkable` — there is no source tie for `Iter.Interface` (it is not among the translated functions). -/
theorem C19_source_result_marshal (init : Array UInt64) (tags values : Bytes) (hsz : init.size < 2^56) (fuel : Nat)
    (hf : init.size + 8 ≤ fuel) (s : GoSem.St)
    (hrun : runFun goFuns goDeserialize_rebuild fuel (rebStore init tags values) = .ret s [.bool true, .bool false])
    (msg dst : Bytes) (hmsg : msg.size < 2^63) (F : Nat) (hF : 3 * init.size + 25 ≤ F) :
    (∃ st out, runFun goFuns goIter_MarshalJSONBuffer F
          ⟨initEnv { tape := s.tape, strings := #[], msg := msg }
            { lim := s.tape.size, off := 0, addNext := 0, cur := 0, t := tagEnd } dst, s.tape⟩ =
        .ret st [.bytes out, .bool false] ∧ st.tape = s.tape) ∨
    (∃ st v, runFun goFuns goIter_MarshalJSONBuffer F
          ⟨initEnv { tape := s.tape, strings := #[], msg := msg }
            { lim := s.tape.size, off := 0, addNext := 0, cur := 0, t := tagEnd } dst, s.tape⟩ =
        .ret st [v, .bool true]) := by
  have hlen : s.tape.size = init.size := by
    rcases C19_source_rebuild_no_panic init tags values hsz fuel hf with ⟨s', h, hs⟩ | ⟨s', p, h⟩
    · rw [hrun] at h; cases h; exact hs
    · rw [hrun] at h; cases h
  have hb : BufOK { tape := s.tape, strings := #[], msg := msg } := by constructor <;> simp <;> omega
  exact marshal_root_safe { tape := s.tape, strings := #[], msg := msg } hb dst F
    (by show 3 * s.tape.size + 25 ≤ F; omega)

end C19

/-! ## C04 — `parseString` -/

section NoClose
open SJ.Tables SJ.Escape SJ.ParseDefs SJ.StrLex

/-! Without a closing quotation mark the scalar decoder fails (not covered by `C04_decode_rejects`, which leaves this case
    to stage 1): strong induction over the text with the one-iteration lemmas of `Proofs/StrLex`. -/

theorem failNow_nil : FailNow [] := by
  intro a start lim i f out hd
  have hi : a.size ≤ i := by
    have := List.drop_eq_nil_iff.mp hd
    simpa using this
  have g0 : a.getD i 0 = 0 := by
    simp only [Array.getD]
    rw [dif_neg (by omega)]
  apply go_of_body_none
  intro h0
  unfold goBody
  simp [g0, h0, hi]

theorem failNow_bs : FailNow [92] := by
  intro a start lim i f out hd
  have g0 : a.getD i 0 = 92 := by simpa using getD_of_drop hd 0
  have g1 : a.getD (i + 1) 0 = 0 := by simpa using getD_of_drop hd 1
  apply go_of_body_none
  intro h0
  unfold goBody
  have hm : escapeSpec 0 = 0 := by decide
  simp only [g0, g1, h0, escapeMap_spec, hm, if_false]
  rfl

theorem map_add_none {o : Option Nat} {k : Nat} (h : o.map (· + k) = none) : o = none := by
  cases o with
  | none => rfl
  | some d => cases h

theorem noClose_mfail : ∀ (n : Nat) (s : List UInt8), s.length ≤ n → closeQ s = none → MFail s := by
  intro n
  induction n using Nat.strongRecOn with
  | _ n ih =>
    intro s hn hq
    match s, hn, hq with
    | [], _, _ => exact MFail.of_failNow failNow_nil
    | c :: r, hn, hq =>
      rw [closeQ.eq_def] at hq
      simp only at hq
      cases h1 : (c == 34) with
      | true => rw [h1] at hq; simp at hq
      | false =>
        rw [h1] at hq
        simp only [Bool.false_eq_true, if_false] at hq
        cases h2 : (c == 92) with
        | false =>
          rw [h2] at hq
          simp only [Bool.false_eq_true, if_false] at hq
          have hr := map_add_none hq
          simp only [List.length_cons] at hn
          exact MFail.of_wstep (step_plain h1 h2).w (ih r.length (by omega) r (Nat.le_refl _) hr)
        | true =>
          rw [h2] at hq
          simp only [if_true] at hq
          have hc : c = 92 := by simpa using h2
          subst hc
          match r, hn, hq with
          | [], _, _ => exact MFail.of_failNow failNow_bs
          | e :: r', hn, hq =>
            simp only at hq
            have hr' := map_add_none hq
            simp only [List.length_cons] at hn
            cases he : (e == 117) with
            | false =>
              by_cases hm : escapeSpec e = 0
              · exact MFail.of_failNow (fail_esc he hm)
              · exact MFail.of_wstep (step_esc he hm).w (ih r'.length (by omega) r' (Nat.le_refl _) hr')
            | true =>
              have hec : e = 117 := by simpa using he
              subst hec
              cases hh4 : Spec.hex4 r' with
              | none => exact MFail.of_failNow (fail_u_badhex hh4)
              | some p =>
                obtain ⟨cu, t⟩ := p
                have hsh := Shift.u hh4
                have hlt := hsh.length_lt (by decide)
                simp only [List.length_cons] at hlt
                have hqs : closeQ (92 :: 117 :: r') = none := by
                  rw [closeQ.eq_def]; simp only; simp [hr']
                have hqt : closeQ t = none := by
                  have := hsh.cq; rw [hqs] at this; exact map_add_none this.symm
                by_cases hh : 0xD800 ≤ cu ∧ cu < 0xDC00
                · by_cases ht : t.getD 0 0 ≠ 92 ∨ t.getD 1 0 ≠ 117
                  · exact MFail.of_failNow (fail_u_pair_nobs hh4 hh ht)
                  · have ht0 : t.getD 0 0 = 92 := Classical.byContradiction fun h => ht (Or.inl h)
                    have ht1 : t.getD 1 0 = 117 := Classical.byContradiction fun h => ht (Or.inr h)
                    match t, ht0, ht1, hh4, hsh, hlt, hqt with
                    | [], ht0, _, _, _, _, _ => simp at ht0
                    | [_], _, ht1, _, _, _, _ => simp at ht1
                    | x :: y :: r3, ht0, ht1, hh4, hsh, hlt, hqt =>
                      have hx : x = 92 := by simpa using ht0
                      have hy : y = 117 := by simpa using ht1
                      subst hx hy
                      cases hh5 : Spec.hex4 r3 with
                      | none => exact MFail.of_failNow (fail_u_pair_badhex hh4 hh hh5)
                      | some p2 =>
                        obtain ⟨lo, r4⟩ := p2
                        have hsh2 := Shift.u hh5
                        have hlt2 := hsh2.length_lt (by decide)
                        simp only [List.length_cons] at hlt2 hlt
                        have hq4 : closeQ r4 = none := by
                          have := hsh2.cq; rw [hqt] at this; exact map_add_none this.symm
                        have hdr := (hsh.trans hsh2).dr
                        have := ih r4.length (by omega) r4 (Nat.le_refl _) hq4
                        rw [hdr] at this
                        exact MFail.of_wstep (wstep_u_pair hh4 hh hh5) this
                · obtain ⟨bs, _, hst⟩ := step_u_single hh4 hh
                  have := ih t.length (by omega) t (Nat.le_refl _) hqt
                  rw [hsh.dr] at this
                  exact MFail.of_wstep hst.w this

/-- without a closing quotation mark the decoder fails, wherever the text lies and whatever the limit -/
theorem decodeString_noClose (a : Bytes) (start lim : Nat) (h : closeQ (a.toList.drop start) = none) :
    decodeString a start lim = none :=
  noClose_mfail _ _ (Nat.le_refl _) h a start lim start (a.size + 64) #[] rfl

end NoClose

section C04
open SJ.ParseDefs SJ.GoStage2 SJ.Properties.C04 SJ.Properties.C01

/-- **Strings are decoded exactly, source level.**  `buf` is the message, `idx` the index of an opening quotation mark
    (the function does not look at `buf[idx]` itself), `s` the text after it.  If the RFC 8259 string production reads `s` as
    the bytes `dec` — every two-character escape and every `\uXXXX` replaced, a surrogate pair by one 4-byte code point, all
    other bytes unchanged — leaving `rest`, then the closing quotation mark is at `s[d]` (`closeQ`), `rest` is what follows
    it, and running the regenerated `parseString` (`stage2_build_tape_amd64.go`; the two assembly kernels by their contract =
    the scalar decoder, see `C04_window_exact`) with any `maxStringSize` beyond the closing quote returns `true`, having
    appended exactly two words to the tape and — when it copies — exactly `dec` to the string buffer:
    * `copyStrings`, or the string contains an escape (`d ≠ dec.length`): the words are `'"' | STRINGBUFBIT + len(Strings.B)`
      and `len(dec)`, and the string buffer is the old one followed by exactly `dec`;
    * otherwise: the words are `'"' | idx+1` and `d` — the string is left in place in `Message`, where `Message[idx+1 : idx+1+d]`
      IS `dec` (no escape) — and the string buffer is unchanged.
    The view length `pj.lim` in the store follows the tape; `Message` is unchanged.
    Remaining premises, all of the tie: `idx ≤ len(buf)` (is implied here: `s` is not empty), `idx < 2^63` (a Go `int`;
    beyond it `pj.Message[idx:]` panics), fuel ≥ 1.  `d < maxStringSize` is the property's premise: the kernel gives up
    at `maxStringSize` (the distance to the next structural index). -/
theorem C04_source_parseString_exact (m : M) (cfg : Cfg) (buf : Bytes) (idx max : UInt64) (cap : Int) (fuel sfuel : Nat)
    (s dec rest : List UInt8) (hs : buf.toList.drop (idx.toNat + 1) = s) (h63 : idx.toNat < 2^63)
    (h : Spec.stringBody sfuel s [] false = .acc dec rest) :
    ∃ d, closeQ s = some d ∧ rest = s.drop (d + 1) ∧ (∀ j, j < d → ¬ (s.getD j 0 < 0x20)) ∧
      (d < max.toNat →
        ∃ e' tape' strs', runFun goFuns goparseString (fuel + 1) ⟨psEnv m buf idx max cfg.copyStrings cap, m.tape⟩ =
            .ret ⟨e', tape'⟩ [.bool true] ∧
          e'.get "Strings.B" = some (.bytes strs') ∧ e'.get "pj.lim" = some (.int tape'.size) ∧
          e'.get "Message" = some (.bytes buf) ∧
          (if cfg.copyStrings = true ∨ d ≠ dec.length then
            tape' = (m.tape.push (mkWord tagString (wSTRINGBUFBIT + UInt64.ofNat m.strings.size))).push
              (UInt64.ofNat dec.length) ∧ strs' = m.strings ++ dec.toArray
          else
            tape' = (m.tape.push (mkWord tagString (UInt64.ofNat (idx.toNat + 1)))).push (UInt64.ofNat d) ∧
              strs' = m.strings)) := by
  obtain ⟨d, hcq, hrest, hctl, hdec⟩ := C04_decode_exact sfuel s dec rest h
  refine ⟨d, hcq, hrest, hctl, fun hlim => ?_⟩
  have hd := hdec buf (idx.toNat + 1) max.toNat hs hlim
  have hidx : idx.toNat ≤ buf.size := by
    have hlt := SJ.StrLex.closeQ_lt s.length s d (Nat.le_refl _) hcq
    have : s.length = buf.size - (idx.toNat + 1) := by rw [← hs]; simp
    omega
  have htie := (C01_stage2_actions_follow_source m cfg buf fuel).2.2.2.2.2.2.2.2.1 idx max cap hidx h63
  unfold M.parseString at htie
  rw [hd] at htie
  simp only [] at htie
  have hsrc : idx.toNat + 1 + d - (idx.toNat + 1) = d := by omega
  have hsz : dec.toArray.size = dec.length := by simp
  rw [hsrc, hsz] at htie
  by_cases hc : cfg.copyStrings = true ∨ d ≠ dec.length
  · have hnc : (!(cfg.copyStrings || d != dec.length)) = false := by
      rcases hc with hc | hc
      · simp [hc]
      · simp [hc]
    rw [hnc] at htie
    simp only [Bool.false_eq_true, if_false] at htie
    obtain ⟨e', hrun, hlimv, hstr, hmsg⟩ := htie
    refine ⟨e', _, _, hrun, hstr, hlimv, hmsg, ?_⟩
    rw [if_pos hc]
    exact ⟨rfl, rfl⟩
  · have hnc : (!(cfg.copyStrings || d != dec.length)) = true := by
      have h1 : cfg.copyStrings = false := by
        cases hcs : cfg.copyStrings with
        | true => exact absurd (Or.inl hcs) hc
        | false => rfl
      have h2 : d = dec.length := Classical.byContradiction fun hne => hc (Or.inr hne)
      simp [h1, h2]
    rw [hnc] at htie
    simp only [if_true] at htie
    obtain ⟨e', hrun, hlimv, hstr, hmsg⟩ := htie
    refine ⟨e', _, _, hrun, hstr, hlimv, hmsg, ?_⟩
    rw [if_neg hc]
    exact ⟨rfl, rfl⟩

/-- **… and what the production rejects is not decoded, source level.**  If the RFC string production rejects the text `s`
    after the opening quotation mark at `idx` (bad or truncated escape, raw control character, no closing quote), then
    * a raw control character precedes the closing quotation mark (stage 1 flags it; `parseString` does not look), or
    * running the regenerated `parseString` returns `false`, for every `maxStringSize`, every capacity, either setting of
      `copyStrings`, and has changed nothing: same tape, same string buffer, same `Message`.
    The case "no closing quotation mark at all", which `C04_decode_rejects` leaves open (stage 1 never pairs such a quote), is
    closed here: the decoder fails then too (`decodeString_noClose`), so `parseString` returns `false`.
    Remaining premises: the tie's `idx ≤ len(buf)` and `idx < 2^63`; `s.length < sfuel` is the property's (the
    specification is total by fuel). -/
theorem C04_source_parseString_rejects (m : M) (cfg : Cfg) (buf : Bytes) (idx : UInt64) (fuel sfuel : Nat)
    (s : List UInt8) (hs : buf.toList.drop (idx.toNat + 1) = s) (hidx : idx.toNat ≤ buf.size) (h63 : idx.toNat < 2^63)
    (hsf : s.length < sfuel) (h : Spec.stringBody sfuel s [] false = .rej) :
    (∃ d, closeQ s = some d ∧ ∃ j, j < d ∧ s.getD j 0 < 0x20) ∨
    ∀ (max : UInt64) (cap : Int),
      ∃ e', runFun goFuns goparseString (fuel + 1) ⟨psEnv m buf idx max cfg.copyStrings cap, m.tape⟩ =
          .ret ⟨e', m.tape⟩ [.bool false] ∧
        e'.get "Strings.B" = some (.bytes m.strings) ∧ e'.get "pj.lim" = some (.int m.tape.size) ∧
        e'.get "Message" = some (.bytes buf) := by
  have key : (∀ max : UInt64, decodeString buf (idx.toNat + 1) max.toNat = none) →
      ∀ (max : UInt64) (cap : Int),
        ∃ e', runFun goFuns goparseString (fuel + 1) ⟨psEnv m buf idx max cfg.copyStrings cap, m.tape⟩ =
            .ret ⟨e', m.tape⟩ [.bool false] ∧
          e'.get "Strings.B" = some (.bytes m.strings) ∧ e'.get "pj.lim" = some (.int m.tape.size) ∧
          e'.get "Message" = some (.bytes buf) := by
    intro hnone max cap
    have hd := hnone max
    have htie := (C01_stage2_actions_follow_source m cfg buf fuel).2.2.2.2.2.2.2.2.1 idx max cap hidx h63
    unfold M.parseString at htie
    rw [hd] at htie
    simp only [] at htie
    obtain ⟨e', hrun, hlimv, hstr, hmsg⟩ := htie
    exact ⟨e', hrun, hstr, hlimv, hmsg⟩
  rcases C04_decode_rejects sfuel s hsf h with hn | ⟨d, hcq, hb⟩
  · exact Or.inr (key fun max => decodeString_noClose buf (idx.toNat + 1) max.toNat (by rw [hs]; exact hn))
  · rcases hb with hc | hnone
    · exact Or.inl ⟨d, hcq, hc⟩
    · exact Or.inr (key fun max => hnone buf (idx.toNat + 1) max.toNat hs)

end C04

/-! ## C13 — histories of `Set*` calls, run on the source -/

section SetNullTie
attribute [local simp] exec exec1 execCases evalE evalEs Env.get Env.set isOneOf binop convert ofE copyFields bindParams
  iterFields runFun tblLookup

/-- the tie of `SetNull` on a tag that is not a container's: its one- and two-word clauses and the default clause do not
    loop, so any fuel ≥ 1 will do (the tie `GoSet.setNull_sim` asks for `cur - off + 2` uniformly; on a string node `cur` is
    an offset into the string buffer).  Proved like `GoSet.setNull_sim`, by symbolic execution of the regenerated tree. -/
theorem setNull_sim_noloop (pj : PJ) (i : Iter) (fuel : Nat) (hl : i.lim ≤ pj.tape.size)
    (hnc : inCase (caseOf swSetNull 2) i.t = false) (hf : 1 ≤ fuel) :
    SimSet pj i (runFun goFuns goIter_SetNull fuel
        { env := envOf "i" i ++ [("Strings.B", .bytes pj.strings)], tape := pj.tape })
      (i.setNull pj) := by
  have hc : swSetNull = [[[116, 102, 110], [34, 100, 108, 117], [123, 91, 114], [256]]] := rfl
  obtain ⟨f, rfl⟩ : ∃ f, fuel = f + 1 := ⟨fuel - 1, by omega⟩
  simp only [goIter_SetNull, envOf, Iter.setNull, hc, caseOf, caseOfSw, inCase, SimSet] at *
  simp
  simp at hnc
  simp only [← UInt8.toNat_inj, UInt8.reduceToNat, @eq_comm Nat _ i.t.toNat] at *
  by_cases ht1 : (i.t.toNat = 116 ∨ i.t.toNat = 102 ∨ i.t.toNat = 110)
  · simp only [ht1, if_true]
    by_cases h0 : i.off = 0
    · simp [h0]
    · by_cases h1 : i.off ≤ i.lim
      · have h3 : i.off - 1 < pj.tape.size := by omega
        have h4 : (1:Int) ≤ i.off ∧ (i.off:Int) - 1 < i.lim ∧ i.off - 1 < pj.tape.size := by omega
        rw [wrV_ok _ _ _ _ (by omega) h3]
        simp [h0, h3, h4, mkWord, iterAt, tagNull]
      · have h4 : ¬ ((1:Int) ≤ i.off ∧ (i.off:Int) - 1 < i.lim ∧ i.off - 1 < pj.tape.size) := by omega
        rw [wrV_panic _ _ _ _ (Or.inl (by omega))]
        simp [h0, h4]
  · by_cases ht2 : (i.t.toNat = 34 ∨ i.t.toNat = 100 ∨ i.t.toNat = 108 ∨ i.t.toNat = 117)
    · simp only [ht1, if_false]
      two_word ht2
    · have ht3 : ¬ (i.t.toNat = 123 ∨ i.t.toNat = 91 ∨ i.t.toNat = 114) := by omega
      simp [ht1, ht2, ht3, iterAt]

end SetNullTie

/-- the tie of `SetNull` with the fuel each clause needs: one unit, and `cur - off + 2` on a container (the NOP-fill loop) -/
theorem setNull_sim_fuel (pj : PJ) (i : Iter) (fuel : Nat) (hl : i.lim ≤ pj.tape.size)
    (hcur : i.t = tagObjectStart ∨ i.t = tagArrayStart ∨ i.t = tagRoot → i.cur.toNat < 2^63) (hf1 : 1 ≤ fuel)
    (hf : inCase (caseOf swSetNull 2) i.t = true → i.cur.toNat - i.off + 2 ≤ fuel) :
    SimSet pj i (runFun goFuns goIter_SetNull fuel
        { env := envOf "i" i ++ [("Strings.B", .bytes pj.strings)], tape := pj.tape })
      (i.setNull pj) := by
  cases h2 : inCase (caseOf swSetNull 2) i.t with
  | false => exact setNull_sim_noloop pj i fuel hl h2 hf1
  | true => exact (SJ.Properties.C13.C13_set_follows_source pj i hl fuel).2.2.2.2.2 hcur (hf h2)

section C13hist
open SJ.EditHistory SJ.WalkLayout SJ.Properties.C13

/-- **One `Set*` call, run on the source.**  The store is the one the tie expects: the receiver is the iterator standing on
    tape position `op.pos` (`iterOn`: one past the word, holding its tag and payload, the view being the whole tape — the
    positioning the history theorems use), the shared string buffer, the argument; the tree is the regenerated
    `goIter_Set…`. -/
def srcRun (fuel : Nat) (pj : PJ) : EOp → Out
  | .setInt q z => runFun goFuns goIter_SetInt fuel
      { env := envOf "i" (iterOn pj q) ++ [("Strings.B", .bytes pj.strings), ("v", .int z)], tape := pj.tape }
  | .setUInt q w => runFun goFuns goIter_SetUInt fuel
      { env := envOf "i" (iterOn pj q) ++ [("Strings.B", .bytes pj.strings), ("v", .u64 w)], tape := pj.tape }
  | .setFloat q b => runFun goFuns goIter_SetFloat fuel
      { env := envOf "i" (iterOn pj q) ++ [("Strings.B", .bytes pj.strings), ("v", .u64 b)], tape := pj.tape }
  | .setBool q b => runFun goFuns goIter_SetBool fuel
      { env := envOf "i" (iterOn pj q) ++ [("Strings.B", .bytes pj.strings), ("v", .bool b)], tape := pj.tape }
  | .setNull q => runFun goFuns goIter_SetNull fuel
      { env := envOf "i" (iterOn pj q) ++ [("Strings.B", .bytes pj.strings)], tape := pj.tape }
  | .setString q s => runFun goFuns goIter_SetStringBytes fuel
      { env := envOf "i" (iterOn pj q) ++ [("Strings.B", .bytes pj.strings), ("v", .bytes s)], tape := pj.tape }

/-- what the caller has after a call that returned `nil`: the tape and the string buffer the run left (`Message` is not in
    the store of these functions: it is not theirs to change) -/
def retNil (pj : PJ) : Out → Option PJ
  | .ret s [.bool false] =>
    match s.env.get "Strings.B" with
    | some (.bytes strs) => some { tape := s.tape, strings := strs, msg := pj.msg }
    | _ => none
  | _ => none

/-- one call; `none` unless it returned `nil` -/
def srcStep (fuel : Nat) (pj : PJ) (op : EOp) : Option PJ := retNil pj (srcRun fuel pj op)

/-- **A sequence of `Set*` calls, run on the source**: each call is positioned on, and run against, the tape and string
    buffer the previous call returned; the run stops (`none`) at the first call that does not return `nil`. -/
def srcOps (fuel : Nat) : PJ → List EOp → Option PJ
  | pj, [] => some pj
  | pj, op :: r =>
    match srcStep fuel pj op with
    | some pj' => srcOps fuel pj' r
    | none => none

theorem retNil_of_sim {pj pj' : PJ} {i : Iter} {o : Out} {r : Res (PJ × Iter)} (hs : SimSet pj i o r)
    (hr : fstR r = .ok pj') : retNil pj o = some pj' := by
  cases r with
  | ok x =>
    obtain ⟨pj1, i1⟩ := x
    simp only [fstR, Res.ok.injEq] at hr
    subst hr
    obtain ⟨s, ho, ht, hstr, _, hm⟩ := hs
    subst ho
    simp only [retNil, hstr]
    cases pj1
    simp only at ht hm
    subst ht hm
    rfl
  | error e => cases hr
  | panic => cases hr
  | diverge => cases hr

theorem payload_lt56 (w : UInt64) : (payloadOf w).toNat < 2 ^ 56 := by
  have h : (payloadOf w).toNat ≤ wJSONVALUEMASK.toNat := by
    unfold payloadOf
    rw [UInt64.toNat_and]
    exact Nat.and_le_right
  have h2 : wJSONVALUEMASK.toNat < 2 ^ 56 := by decide
  omega

/-- a node whose tag is in `SetNull`'s container clause is a container: the payload of its first word is its end -/
theorem container_payload (pj : PJ) (n : LVal) (hn : Ok pj n) (h2 : inCase (caseOf swSetNull 2) (tagOfL n) = true) :
    ∃ w, word pj n.pos = some w ∧ (payloadOf w).toNat = n.fin := by
  rcases node_kinds pj n hn with ⟨k0, _⟩ | ⟨_, k1, _⟩ | ⟨_, _, _, _, h⟩
  · exfalso
    have e6 : caseOf swSetNull 0 = [116, 102, 110] := rfl
    have e8 : caseOf swSetNull 2 = [123, 91, 114] := rfl
    rw [e6] at k0; rw [e8] at h2
    simp only [inCase] at k0 h2
    generalize (tagOfL n).toNat = t at k0 h2
    simp only [List.contains_eq_mem, List.mem_cons, List.not_mem_nil, or_false, decide_eq_true_eq] at k0 h2
    omega
  · exfalso
    have e7 : caseOf swSetNull 1 = [34, 100, 108, 117] := rfl
    have e8 : caseOf swSetNull 2 = [123, 91, 114] := rfl
    rw [e7] at k1; rw [e8] at h2
    simp only [inCase] at k1 h2
    generalize (tagOfL n).toNat = t at k1 h2
    simp only [List.contains_eq_mem, List.mem_cons, List.not_mem_nil, or_false, decide_eq_true_eq] at k1 h2
    omega
  · exact h

/-- **One valid call, source = model.**  On a tape holding the located document `v`, a call valid in `v` returns `nil` when
    run on the source, and leaves exactly the tape and string buffer the model's function leaves. -/
theorem srcStep_valid (fuel : Nat) (pj : PJ) (v : LVal) (op : EOp) (hok : Ok pj v) (hv : Valid pj v op)
    (hf : pj.tape.size + 2 ≤ fuel) :
    ∃ pj', srcStep fuel pj op = some pj' ∧ applyOp pj op = .ok pj' := by
  obtain ⟨pj', happ, _⟩ := step pj v op hok hv
  refine ⟨pj', ?_, happ⟩
  have hl : (iterOn pj op.pos).lim ≤ pj.tape.size := by rw [iterOn_lim]; exact Nat.le_refl _
  have htie := C13_set_follows_source pj (iterOn pj op.pos) hl fuel
  unfold applyOp at happ
  cases op with
  | setInt q z => exact retNil_of_sim (htie.2.1 z) happ
  | setUInt q w => exact retNil_of_sim (htie.2.2.1 w) happ
  | setFloat q b => exact retNil_of_sim (htie.1 b) happ
  | setBool q b => exact retNil_of_sim (htie.2.2.2.2.1 b) happ
  | setString q s => exact retNil_of_sim (htie.2.2.2.1 s) happ
  | setNull q =>
    obtain ⟨⟨e, hnode⟩, _, _⟩ := hv
    simp only [EOp.pos] at hnode hl
    obtain ⟨n, w, hn, hp, hfin, hw, _, hoff, ht, hcur⟩ := valid_node pj v hok q e hnode
    have hsz := node_in_tape pj q e v hok hnode
    have h56 := payload_lt56 w
    refine retNil_of_sim (setNull_sim_fuel pj (iterOn pj q) fuel hl (fun _ => by rw [hcur]; omega) (by omega)
      (fun h2 => ?_)) happ
    rw [ht] at h2
    obtain ⟨w', hw', hpay⟩ := container_payload pj n hn h2
    rw [hp] at hw'
    cases word_inj hw hw'
    rw [hcur, hpay, hfin, hoff]
    omega

/-- **Every valid history, source = model**: the source-side run of a `ValidSeq` returns `nil` at every step and ends with
    exactly the tape, string buffer and message the model's fold ends with. -/
theorem srcOps_eq_applyOps : ∀ (ops : List EOp) (pj : PJ) (v : LVal), Ok pj v → ValidSeq pj v ops →
    ∀ (fuel : Nat), pj.tape.size + 2 ≤ fuel → ∃ pj', srcOps fuel pj ops = some pj' ∧ applyOps pj ops = .ok pj' := by
  intro ops
  induction ops with
  | nil => intro pj v _ _ fuel _; exact ⟨pj, rfl, rfl⟩
  | cons op r ih =>
    intro pj v hok hv fuel hf
    obtain ⟨hv1, hv2⟩ := hv
    obtain ⟨pj1, hs, ha⟩ := srcStep_valid fuel pj v op hok hv1 hf
    obtain ⟨pj1', ha', hok1, _, _, hsz⟩ := step pj v op hok hv1
    rw [ha] at ha'; cases ha'
    obtain ⟨pj', g1, g2⟩ := ih pj1 (absOp v op) hok1 (hv2 pj1 ha) fuel (by rw [hsz]; exact hf)
    refine ⟨pj', ?_, ?_⟩
    · simp only [srcOps, hs]; exact g1
    · simp only [applyOps, ha, Res.bind_ok]; exact g2

/-- **Any sequence of replacements, source level** (`C13_history` on the source).  `ops` is any list of `SetInt / SetUInt /
    SetFloat / SetBool / SetNull / SetString` calls, each addressed to a tape position and valid in the document as it is
    when the call is made (`ValidSeq`).  Running the regenerated syntax trees one after the other — each on the iterator
    standing on the addressed word of the tape the previous run returned, with the string buffer the previous run returned —
    every run returns `nil`, and the final tape holds the original document with exactly those replacements applied in order
    (`absOps`: a fold of node substitutions), still tight; same `Message`, same tape length, string buffer extended by
    exactly the bytes of the `SetString` calls.
    Discharged from the ties: the view premise (`iterOn`'s view is the whole tape), `cur < 2^63` for `SetNull` on a
    container (a 56-bit payload), and the fuel of `SetNull` (on a container `cur` is the end of the node, inside the tape; on
    other tags the function does not loop — `setNull_sim_noloop`).  Remaining: the interpreter fuel `len(tape) + 2`.
    `ValidSeq` speaks of the model's `applyOp` in its recursion ("valid in the tape the previous call produced"); the
    version with validity on the document alone is `C13_source_history_abs`. -/
theorem C13_source_history (ops : List EOp) (pj : PJ) (v : LVal) (hok : Ok pj v) (ht : Tight v) (hv : ValidSeq pj v ops)
    (fuel : Nat) (hf : pj.tape.size + 2 ≤ fuel) :
    ∃ pj', srcOps fuel pj ops = some pj' ∧ Ok pj' (absOps v ops) ∧ Tight (absOps v ops) ∧ pj'.msg = pj.msg ∧
      pj'.tape.size = pj.tape.size ∧ pj'.strings = pj.strings ++ appendedAll ops := by
  obtain ⟨pj', hs, ha⟩ := srcOps_eq_applyOps ops pj v hok hv fuel hf
  obtain ⟨pj'', ha', rest⟩ := C13_history ops pj v hok ht hv
  rw [ha] at ha'; cases ha'
  exact ⟨pj', hs, rest⟩

/-- **… with validity stated on the document alone** (`ValidSeqA`: the addressed node exists in the document reached so far
    and has a constructor the function's gate admits; `SetString` keeps the string buffer below 2^55 bytes; `SetNull` on a
    container needs a tape shorter than 2^56 words).  No function of the hand model occurs in this statement, premises
    included, except the positioning `iterOn` inside `srcOps`. -/
theorem C13_source_history_abs (ops : List EOp) (pj : PJ) (v : LVal) (hok : Ok pj v) (ht : Tight v)
    (hv : ValidSeqA pj.strings.size pj.tape.size v ops) (fuel : Nat) (hf : pj.tape.size + 2 ≤ fuel) :
    ∃ pj', srcOps fuel pj ops = some pj' ∧ Ok pj' (absOps v ops) ∧ Tight (absOps v ops) ∧ pj'.msg = pj.msg ∧
      pj'.tape.size = pj.tape.size ∧ pj'.strings = pj.strings ++ appendedAll ops :=
  C13_source_history ops pj v hok ht (validSeq_of_abs ops pj v hok hv) fuel hf

open SJ.MarshalExact SJ.GoObject SJ.GoMarshal SJ.RenderParse in
/-- **… and the source-side reader then prints exactly the edited document** (the source-level counterpart of
    `C13_history_readback`, whose reader `owalkValue` is a walker of the model): after the source-side run of any valid
    history, running the regenerated `Iter.MarshalJSONBuffer` on the tape and string buffer that run returned, from the
    iterator standing on the document's first word (which has not moved), returns `dst ++` the canonical text
    `renderJ (erase (absOps v ops))` of the edited document, and `nil`.
    Remaining: `FloatsOk` of the edited document (a `SetFloat(NaN)` has no JSON text: `MarshalJSONBuffer` then returns an
    error, `C10_source_marshal_error`); `msg.size < 2^63` and the final string-buffer length `< 2^63` (`BufOK`, Go `int`s);
    interpreter fuel. -/
theorem C13_source_history_readback (ops : List EOp) (pj : PJ) (v : LVal) (hok : Ok pj v) (ht : Tight v)
    (hv : ValidSeq pj v ops) (hfl : FloatsOk (absOps v ops)) (hmsg : pj.msg.size < 2^63)
    (hstr : pj.strings.size + (appendedAll ops).size < 2^63) (fuel : Nat) (hf : pj.tape.size + 2 ≤ fuel) (dst : Bytes)
    (F : Nat) (hF : 3 * pj.tape.size + 25 ≤ F) :
    ∃ pj', srcOps fuel pj ops = some pj' ∧
      ∃ st, runFun goFuns goIter_MarshalJSONBuffer F ⟨initEnv pj' (iterOn pj' v.pos) dst, pj'.tape⟩ =
          .ret st [.bytes (dst ++ renderJ (erase (absOps v ops))), .bool false] ∧ st.tape = pj'.tape := by
  obtain ⟨pj', hs, hok', _, hm, hsz, hss⟩ := C13_source_history ops pj v hok ht hv fuel hf
  refine ⟨pj', hs, ?_⟩
  have hon := iterOn_onNode pj' _ hok'
  rw [absOps_pos] at hon
  have hb : BufOK pj' := ⟨by rw [hm]; exact hmsg, by rw [hss, Array.size_append]; exact hstr⟩
  exact (SJ.SourceLevelA.C10_source_marshal_exact pj' (absOps v ops) (iterOn pj' v.pos) dst hok' hfl hon hb
    (by rw [iterOn_lim]; exact Nat.le_refl _) F (by rw [iterOn_lim, hsz]; omega)).2

/-- **A disallowed call, run on the source, returns an error and changes nothing** — on ANY tape (no document needed): if
    the gate of the function refuses the tag of the addressed word, the run returns a non-nil error and the tape, the string
    buffer and the receiver are exactly what they were.  Fuel: one unit (`SetNull` on a refused tag does not loop). -/
theorem C13_source_refused (pj : PJ) (op : EOp) (hg : gateOf op (tagAt pj op.pos) = false) (fuel : Nat) (hf : 1 ≤ fuel) :
    ∃ s, srcRun fuel pj op = .ret s [.bool true] ∧ s.tape = pj.tape ∧
      s.env.get "Strings.B" = some (.bytes pj.strings) ∧ iterAt s.env "i" = some (iterOn pj op.pos) := by
  have hl : (iterOn pj op.pos).lim ≤ pj.tape.size := by rw [iterOn_lim]; exact Nat.le_refl _
  have hr := runOp_gate pj (iterOn pj op.pos) op (by rw [iterOn_t]; exact hg)
  have htie := C13_set_follows_source pj (iterOn pj op.pos) hl fuel
  cases op with
  | setInt q z => exact SJ.SourceLevelB.set_refuse (htie.2.1 z) hr
  | setUInt q w => exact SJ.SourceLevelB.set_refuse (htie.2.2.1 w) hr
  | setFloat q b => exact SJ.SourceLevelB.set_refuse (htie.1 b) hr
  | setBool q b => exact SJ.SourceLevelB.set_refuse (htie.2.2.2.2.1 b) hr
  | setString q s => exact SJ.SourceLevelB.set_refuse (htie.2.2.2.1 s) hr
  | setNull q =>
    have h2 : inCase (caseOf swSetNull 2) (iterOn pj q).t = false := by
      rw [iterOn_t]
      simp only [gateOf, EOp.pos, Bool.or_eq_false_iff] at hg
      exact hg.2
    exact SJ.SourceLevelB.set_refuse (setNull_sim_noloop pj (iterOn pj q) fuel hl h2 hf) hr

/-- **… at any point of a source-side history** (`C13_history_refused` on the source): after the source-side run of a valid
    history, a call whose gate refuses the tag it finds returns a non-nil error, and the tape and string buffer reached so
    far are untouched — they still hold the document reached so far. -/
theorem C13_source_history_refused (ops : List EOp) (pj : PJ) (v : LVal) (hok : Ok pj v) (ht : Tight v)
    (hv : ValidSeq pj v ops) (fuel : Nat) (hf : pj.tape.size + 2 ≤ fuel) (op : EOp)
    (hg : ∀ pjm, srcOps fuel pj ops = some pjm → gateOf op (tagAt pjm op.pos) = false) :
    ∃ pjm, srcOps fuel pj ops = some pjm ∧ Ok pjm (absOps v ops) ∧ Tight (absOps v ops) ∧
      (∃ s, srcRun fuel pjm op = .ret s [.bool true] ∧ s.tape = pjm.tape ∧
        s.env.get "Strings.B" = some (.bytes pjm.strings)) ∧
      srcOps fuel pj (ops ++ [op]) = none := by
  obtain ⟨pjm, hs, hokm, htm, _⟩ := C13_source_history ops pj v hok ht hv fuel hf
  obtain ⟨s, hrun, h1, h2, _⟩ := C13_source_refused pjm op (hg pjm hs) fuel (by omega)
  refine ⟨pjm, hs, hokm, htm, ⟨s, hrun, h1, h2⟩, ?_⟩
  have happ : ∀ (l : List EOp) (a : PJ), srcOps fuel a l = some pjm → srcOps fuel a (l ++ [op]) = none := by
    intro l
    induction l with
    | nil =>
      intro a h
      simp only [srcOps, Option.some.injEq] at h
      subst h
      simp only [List.nil_append, srcOps, srcStep, hrun, retNil]
    | cons x r ih =>
      intro a h
      simp only [List.cons_append, srcOps] at h ⊢
      cases hx : srcStep fuel a x with
      | none => rfl
      | some a' => rw [hx] at h; exact ih a' h
  exact happ ops pj hs

/-- The premises of `C13_source_history` are satisfiable: the four-step history of `EditHistory` (`SetString`, `SetNull` on
    a container, `SetBool`, `SetInt` on the document `exDoc`), run on the source, ends in a tape holding `exDoc'`. -/
example : ∃ pj', srcOps 100 exPJ exOps = some pj' ∧ Ok pj' exDoc' ∧ pj'.tape.size = exPJ.tape.size := by
  obtain ⟨pj', h1, h2, _, _, h5, _⟩ := C13_source_history exOps exPJ exDoc exOk exTight exValid 100 (by decide)
  rw [exAbs] at h2
  exact ⟨pj', h1, h2, h5⟩

end C13hist

/-! ## C14 — histories of deletions and replacements, run on the source -/

section C14hist
open SJ.EditHistory SJ.WalkLayout SJ.DeleteDoc SJ.GoDelete SJ.GoObject SJ.GoApi SJ.SourceLevelB

/-- what the caller has after `i.Array(nil)` / `i.Object(nil)` returned `(dst, nil)`: the tape and the view `*dst` -/
def retView : Out → Option (Array UInt64 × View)
  | .ret s [.bool true, .bool false] =>
    match viewAt s.env "dst" with
    | some a => some (s.tape, a)
    | none => none
  | _ => none

/-- **One call of the editing API, run on the source**, on the tape `pj.tape` / string buffer `pj.strings`:
    * a `Set*` call: `srcStep`;
    * `deleteArr q pred`: the regenerated `Iter.Array` is run on the iterator standing on the word at `q` (`iterOn`), `dst`
      nil; on the view it returns, and the tape it leaves, the regenerated `Array.DeleteElems` is run with the callback
      answers `pred 0, pred 1, …` queued (`len(tape)` of them, more than the callback can be called);
    * `deleteObj q pred onlyKeys`: the same with `Iter.Object` and `Object.DeleteElems(fn, onlyKeys)`, `fn ≠ nil`.  The
      interpreter's callback answers from a queue and does not see the key; the queue that a key-dependent `pred` produces
      is computed from the object `ms` the document `v` has at `q` (`cbAnswers pred onlyKeys ms`: the `n`-th call is made for
      the `n`-th member that passes the key filter) — this is the only use of `v`.
    `none` unless every run returned without error. -/
def srcDStep (fuel : Nat) (pj : PJ) (v : LVal) : DOp → Option PJ
  | .edit op => srcStep fuel pj op
  | .deleteArr q pred =>
    match retView (runFun goFuns goIter_Array fuel ⟨viewStore (iterOn pj q) { lim := 0, off := 0 } true, pj.tape⟩) with
    | some (tape1, a) =>
      match runFun goFuns goArray_DeleteElems fuel
          ⟨arrStore pj a [("fn.results", .bools (answers pj.tape.size pred)), ("fn.log", .ints [])], tape1⟩ with
      | .ret s [] => some { tape := s.tape, strings := pj.strings, msg := pj.msg }
      | _ => none
    | none => none
  | .deleteObj q pred ks =>
    match findV q v with
    | some (.obj _ _ ms) =>
      match retView (runFun goFuns goIter_Object fuel ⟨viewStore (iterOn pj q) { lim := 0, off := 0 } true, pj.tape⟩) with
      | some (tape1, o) =>
        match runFun goFuns goObject_DeleteElems fuel
            ⟨objStore pj o ks [("fn==nil", .bool false),
              ("fn.results", .bools (answers pj.tape.size (cbAnswers pred ks ms))), ("fn.log", .ints [])], tape1⟩ with
        | .ret s [.bool false] => some { tape := s.tape, strings := pj.strings, msg := pj.msg }
        | _ => none
      | none => none
    | _ => none

/-- **A sequence of deletions and replacements, run on the source**: each call on the tape and string buffer the previous
    one returned; the located document is carried along (`absDOp`) only to compute the answer queues of key-dependent
    callbacks. -/
def srcDOps (fuel : Nat) : PJ → LVal → List DOp → Option PJ
  | pj, _, [] => some pj
  | pj, v, op :: r =>
    match srcDStep fuel pj v op with
    | some pj' => srcDOps fuel pj' (absDOp v op) r
    | none => none

theorem retView_of_sim {tape : Array UInt64} {e : Env} {i : Iter} {o : Out} {r : Res View} {a : View}
    (hs : SimView tape e i o r) (hr : r = .ok a) : retView o = some (tape, a) := by
  subst hr
  obtain ⟨s, ho, ht, _, hv, _⟩ := hs
  subst ho
  simp only [retView, hv, ht]

/-- **One valid call, source level**: it returns without error and the tape it leaves holds the document with exactly
    that call's effect (`absDOp`). -/
theorem srcDStep_valid (fuel : Nat) (pj : PJ) (v : LVal) (op : DOp) (hok : Ok pj v) (hv : ValidD pj v op)
    (hb : BufOK pj) (hsz : pj.tape.size < 2^56) (hf : 2 * pj.tape.size + 7 ≤ fuel) :
    ∃ pj', srcDStep fuel pj v op = some pj' ∧ Ok pj' (absDOp v op) ∧ pj'.strings = pj.strings ++ op.appended ∧
      pj'.msg = pj.msg ∧ pj'.tape.size = pj.tape.size := by
  cases op with
  | edit op =>
    obtain ⟨pj1, hs, ha⟩ := srcStep_valid fuel pj v op hok hv (by omega)
    obtain ⟨pj1', ha', rest⟩ := step pj v op hok hv
    rw [ha] at ha'; cases ha'
    exact ⟨pj1, hs, rest⟩
  | deleteArr q pred =>
    obtain ⟨⟨p, e, es, hfind⟩, hsmall⟩ := hv
    obtain ⟨hn, hp, hnode⟩ := find_sound pj q _ v hok hfind
    have hp' : p = q := hp
    subst hp'
    have hon : OnNode pj (.arr p e es) (iterOn pj p) := iterOn_onNode pj _ hn
    have hview : (iterOn pj p).array = .ok { lim := e, off := p + 1 } := (array_view pj p e es _ hn hon).1
    have hrv := retView_of_sim (array_sim (iterOn pj p) true (viewStore (iterOn pj p) { lim := 0, off := 0 } true) pj.tape fuel
      (viewStore_i _ _ _) (viewStore_nil _ _ _) (by rw [iterOn_lim]; omega)) hview
    obtain ⟨_, hle⟩ := arr_end_le hn
    obtain ⟨s, its, hrun, hok', hsize, _⟩ := C14_source_array_delete pj v hok p e es pred hnode hn hsmall pj.tape.size
      (by omega) fuel (by omega)
    refine ⟨{ tape := s.tape, strings := pj.strings, msg := pj.msg }, ?_, ?_, by simp [DOp.appended], rfl, hsize⟩
    · simp only [srcDStep, hrv, hrun]
    · simp only [absDOp, hfind]
      exact hok'
  | deleteObj q pred ks =>
    obtain ⟨⟨p, e, ms, hfind⟩, hsmall⟩ := hv
    obtain ⟨hn, hp, hnode⟩ := find_sound pj q _ v hok hfind
    have hp' : p = q := hp
    subst hp'
    have hon : OnNode pj (.obj p e ms) (iterOn pj p) := iterOn_onNode pj _ hn
    have hview : (iterOn pj p).object = .ok { lim := e, off := p + 1 } := (object_view pj p e ms _ hn hon).1
    obtain ⟨hpe, hle⟩ := obj_end_le hn
    have hrv := retView_of_sim (object_sim (iterOn pj p) true (viewStore (iterOn pj p) { lim := 0, off := 0 } true) pj.tape fuel
      (viewStore_i _ _ _) (viewStore_nil _ _ _) (by rw [iterOn_lim]; omega) (by rw [iterOn_off]; omega)) hview
    obtain ⟨s, cbs, hrun, hok', hsize, _⟩ := C14_source_object_delete_pred pj v hok p e ms pred ks hnode hn hsmall hb
      pj.tape.size (by omega) fuel (by omega)
    refine ⟨{ tape := s.tape, strings := pj.strings, msg := pj.msg }, ?_, ?_, by simp [DOp.appended], rfl, hsize⟩
    · simp only [srcDStep, hfind, hrv, hrun]
    · simp only [absDOp, hfind]
      exact hok'

/-- a valid call keeps the string buffer a Go slice -/
theorem appended_small (ssz tsz : Nat) (v : LVal) (op : DOp) (h : ValidDA ssz tsz v op) (hs : ssz < 2^63) :
    ssz + op.appended.size < 2^63 := by
  cases op with
  | edit op =>
    cases op with
    | setString q s =>
      obtain ⟨n, _, _, hside⟩ := h
      simp only [sideA] at hside
      simp only [DOp.appended, EOp.appended]
      omega
    | _ => simp [DOp.appended, EOp.appended]; omega
  | deleteArr q pred => simp [DOp.appended]; omega
  | deleteObj q pred ks => simp [DOp.appended]; omega

/-- **Histories of deletions and replacements, source level** (the statement of `C14_history`, for the source-side run).
    `ops` is any finite sequence of `Array.DeleteElems`, `Object.DeleteElems` and `Set*` calls, each valid in the document as
    it is when the call is made (`ValidSeqDA`, validity on the document alone: the addressed node is an array resp. an
    object resp. a value the `Set*` gate admits).  Running the regenerated syntax trees one after the other (`srcDOps`: each
    call positioned on, and run against, the tape and string buffer the previous call returned), every run returns without
    error, and the final tape holds exactly `absDOps v ops` — the original document with the selected members removed and
    the addressed values replaced, in order, survivors at their positions — and is again tight; `Message` and tape length
    unchanged; the string buffer has grown by exactly the `SetString` arguments.
    Route: induction over `ops` from the single-step source-level theorems (`srcStep_valid`, `C14_source_array_delete`,
    `C14_source_object_delete_pred` of SourceLevelB — each the composition of a property theorem with a tie — and the ties
    of `Iter.Array` / `Iter.Object`), i.e. the induction of `C14_history` redone on the source side; `C14_history` itself is
    not used, because the source-side run of `Object.DeleteElems` with a key-dependent callback is tied to the model's run
    with the callback `fun k _ => cbAnswers … k`, which gives the same DOCUMENT (`filterMs_congr`) but is not known to give
    the same tape word for word.
    Discharged: the views (`Iter.Array`/`Iter.Object` return the node's view, inside the tape), the answer counts, `BufOK`
    along the history (`SetString` keeps the buffer below 2^55).  Remaining: `BufOK pj` at the start (Go `int` lengths;
    needed by `Object.DeleteElems`, which compares keys through `stringByteAt`), `len(tape) < 2^56` (the tie of
    `Iter.Array`/`Iter.Object` needs `len < 2^63`; the deletions themselves need `< 2^56` and `ValidSeqDA` says so only when
    there is one), interpreter fuel `2·len(tape) + 7`. -/
theorem C14_source_history : ∀ (ops : List DOp) (pj : PJ) (v : LVal), Ok pj v → Tight v →
    ValidSeqDA pj.strings.size pj.tape.size v ops → BufOK pj → pj.tape.size < 2^56 →
    ∀ (fuel : Nat), 2 * pj.tape.size + 7 ≤ fuel →
    ∃ pj', srcDOps fuel pj v ops = some pj' ∧ Ok pj' (absDOps v ops) ∧ Tight (absDOps v ops) ∧ pj'.msg = pj.msg ∧
      pj'.tape.size = pj.tape.size ∧ pj'.strings = pj.strings ++ appendedAllD ops := by
  intro ops
  induction ops with
  | nil =>
    intro pj v hok ht _ _ _ fuel _
    exact ⟨pj, rfl, hok, ht, rfl, rfl, by simp [appendedAllD]⟩
  | cons op r ih =>
    intro pj v hok ht hv hb hsz fuel hf
    obtain ⟨hv1, hv2⟩ := hv
    have hvalid := validDA_validD pj v hok op hv1
    obtain ⟨pj1, h1, h2, h3, h4, h5⟩ := srcDStep_valid fuel pj v op hok hvalid hb hsz hf
    have hsmall := appended_small _ _ v op hv1 hb.2
    obtain ⟨pj', g1, g2, g3, g4, g5, g6⟩ := ih pj1 (absDOp v op) h2 (absDOp_tight v op ht)
      (by rw [h3, h5, Array.size_append]; exact hv2)
      ⟨by rw [h4]; exact hb.1, by rw [h3, Array.size_append]; exact hsmall⟩ (by rw [h5]; exact hsz) fuel
      (by rw [h5]; exact hf)
    refine ⟨pj', ?_, g2, g3, g4.trans h4, g5.trans h5, ?_⟩
    · simp only [srcDOps, h1]; exact g1
    · rw [g6, h3, appendedAllD, Array.append_assoc]

/-- The premises of `C14_source_history` are satisfiable: `[1,"a",{"k":true}]`, delete the middle element, `SetInt` on a
    survivor, delete member `k` — run on the source — ends in a tape holding `[9,{}]` (`exDocD'`). -/
example : ∃ pj', srcDOps 100 EditHistory.exPJ exDoc exDOps = some pj' ∧ Ok pj' exDocD' ∧ pj'.tape.size = EditHistory.exPJ.tape.size := by
  obtain ⟨pj', h1, h2, _, _, h5, _⟩ := C14_source_history exDOps EditHistory.exPJ exDoc exOk exTight exValidDA
    ⟨by decide, by decide⟩ (by decide) 100 (by decide)
  rw [exAbsD] at h2
  exact ⟨pj', h1, h2, h5⟩

end C14hist

end SJ.SourceLevelC
