import SJ.Properties.C19
import SJ.Properties.C04
import SJ.Properties.C01
import SJ.Properties.C10
import SJ.Properties.C13
import SJ.Properties.C14
import SJ.Proofs.SourceLevelB
set_option autoImplicit false
set_option linter.unusedVariables false
/-
SourceLevelC — property theorems stated directly about the MEANING OF THE GO SOURCE (continuation of SourceLevelA/B).

Each theorem chains a source tie (`*_follows_source`: the hand model is the meaning, under
`GoSem.runFun goFuns <tree> fuel ⟨store, tape⟩`, of a syntax tree regenerated from the Go source on every run) with a
property theorem about the hand model (`SJ/Properties/C19, C04, C13, C14`).  The conclusions mention no function of the
hand model: they speak of the outcome of `runFun`, of the tape and store the run leaves, of what the tape DENOTES
(`Ok pj doc`) and of the specification (`Spec.stringBody`).  Records of the model that are plain data (`PJ`: tape, string
buffer, message; `M`: the stage-2 state, of which only tape and string buffer are read; `Iter`: the five fields of the Go
iterator) occur as carriers of the stores' contents.
-/
namespace SJ.SourceLevelC
open SJ SJ.Generated SJ.GoSem SJ.GoIter SJ.GoSet SJ.Layout

/-! ## C19 — the reconstruction loop of `Deserialize` -/

section C19
open SJ.Rebuild SJ.GoRebuild SJ.GoObject SJ.GoMarshal SJ.Properties.C19

/-- **`Deserialize` never panics on corrupt bytes, source level.**  For EVERY tag stream, EVERY value stream and EVERY prior
    destination tape, running the regenerated reconstruction block of `Serializer.Deserialize` (`goDeserialize_rebuild`: from
    `var off int` to the end of the function) returns: either `dst, nil` — and then the tape it leaves has exactly the length
    of the prior destination tape (the block never grows or shrinks `dst.Tape`) — or a non-nil error.  In particular the run
    does not panic (no index outside `dst.Tape`, `s.tagsBuf`, `values`), is not stuck (the tree is inside the translated
    subset and well typed on this store), and does not diverge (the fuel suffices).
    Discharged: nothing of the tie is left but its own two premises — `init.size < 2^56` (Go compares tape offsets in
    `uint64`; a tape offset has 56 bits anyway) and fuel `len(dst.Tape) + 8` (the longest inner loop writes at most
    `len(dst.Tape)` skips). -/
theorem C19_source_rebuild_no_panic (init : Array UInt64) (tags values : Bytes) (hsz : init.size < 2^56) (fuel : Nat)
    (hf : init.size + 8 ≤ fuel) :
    (∃ s, runFun goFuns goDeserialize_rebuild fuel (rebStore init tags values) = .ret s [.bool true, .bool false] ∧
        s.tape.size = init.size) ∨
    (∃ s p, runFun goFuns goDeserialize_rebuild fuel (rebStore init tags values) = .ret s [.bool p, .bool true]) := by
  have htie := C19_rebuild_follows_source init tags values hsz fuel hf
  obtain ⟨hp, hd, hsize⟩ := C19_rebuild_no_panic init tags values
  cases hr : rebuild init tags values with
  | ok tp =>
    rw [hr] at htie
    obtain ⟨s, ho, ht⟩ := htie
    exact Or.inl ⟨s, ho, by rw [ht]; exact hsize tp hr⟩
  | error e =>
    rw [hr] at htie
    exact Or.inr htie
  | panic => exact absurd hr hp
  | diverge => exact absurd hr hd

/-- … spelled out: the run is none of a panic, a divergence, a stuck state, or a fall off the end of the block. -/
theorem C19_source_rebuild_returns (init : Array UInt64) (tags values : Bytes) (hsz : init.size < 2^56) (fuel : Nat)
    (hf : init.size + 8 ≤ fuel) :
    runFun goFuns goDeserialize_rebuild fuel (rebStore init tags values) ≠ .panic ∧
    runFun goFuns goDeserialize_rebuild fuel (rebStore init tags values) ≠ .diverge ∧
    (∀ why, runFun goFuns goDeserialize_rebuild fuel (rebStore init tags values) ≠ .stuck why) ∧
    ∃ s vs, runFun goFuns goDeserialize_rebuild fuel (rebStore init tags values) = .ret s vs := by
  rcases C19_source_rebuild_no_panic init tags values hsz fuel hf with ⟨s, h, _⟩ | ⟨s, p, h⟩ <;>
    exact ⟨(by rw [h]; exact fun x => (by cases x)), (by rw [h]; exact fun x => (by cases x)),
      fun why => (by rw [h]; exact fun x => (by cases x)), _, _, h⟩

/-- on any tape, `MarshalJSONBuffer` from the root iterator returns bytes or an error -/
theorem marshal_root_safe (pj : PJ) (hb : BufOK pj) (dst : Bytes) (F : Nat) (hF : 3 * pj.tape.size + 25 ≤ F) :
    (∃ st out, runFun goFuns goIter_MarshalJSONBuffer F ⟨initEnv pj (Iter.ofPJ pj) dst, pj.tape⟩ =
        .ret st [.bytes out, .bool false] ∧ st.tape = pj.tape) ∨
    (∃ st v, runFun goFuns goIter_MarshalJSONBuffer F ⟨initEnv pj (Iter.ofPJ pj) dst, pj.tape⟩ =
        .ret st [v, .bool true]) := by
  have hwalk := SJ.WalkSafe.marshalBuf_safe pj (Iter.ofPJ pj) dst (SJ.WalkSafe.ofPJ_valid pj)
  have hcur : (Iter.ofPJ pj).cur.toNat < 2^63 := by simp [Iter.ofPJ]
  obtain ⟨h1, h2, _⟩ := go_marshal_source_tie_valid pj hb (Iter.ofPJ pj) (Nat.le_refl _) (Int.le_refl _)
    hcur dst F (by unfold fuelOf; show 2 * pj.tape.size + 16 + pj.tape.size + 9 ≤ F; omega)
  rcases hwalk with ⟨out, ho⟩ | ⟨er, he⟩
  · obtain ⟨st, hst, htp⟩ := (h1 out).mp ho
    exact Or.inl ⟨st, out, hst, htp⟩
  · exact Or.inr (h2.mp ⟨er, he⟩)

/-- **What a returned result guarantees, source level** (`C19_result_walkable` on the tape the source returned).  Whatever
    the two streams were: if the reconstruction block returns `dst, nil`, then on the tape it leaves — read, as `Deserialize`
    sets them, with an empty string buffer and ANY `Message` shorter than 2^63 bytes — running the regenerated
    `Iter.MarshalJSONBuffer` from the iterator `ParsedJson.Iter()` builds (view = the whole tape, offset 0) returns bytes and
    `nil`, or a non-nil error; it does not panic, and leaves the tape alone.  (The tape may denote no document at all: the
    statement is about memory safety and termination of the reader, not about what it prints.)
    Discharged: the marshal tie's view premise (`lim = len(tape)`), `cur < 2^63` (`cur = 0`), `0 ≤ addNext`, non-divergence
    of the model (from `C19_result_walkable`'s marshal clause, `WalkSafe.marshalBuf_safe`), and the length of the returned
    tape.  Remaining: `msg.size < 2^63` (`BufOK`: a Go slice length is an `int`; the tape does not bound the message) and the
    interpreter's loop budget `3·len(tape) + 25`.  Not composed: the `owalk` / `Iter.Interface` clauses of
    `C19_result_walkable` — there is no source tie for `Iter.Interface` (it is not among the translated functions). -/
theorem C19_source_result_marshal (init : Array UInt64) (tags values : Bytes) (hsz : init.size < 2^56) (fuel : Nat)
    (hf : init.size + 8 ≤ fuel) (s : GoSem.St)
    (hrun : runFun goFuns goDeserialize_rebuild fuel (rebStore init tags values) = .ret s [.bool true, .bool false])
    (msg dst : Bytes) (hmsg : msg.size < 2^63) (F : Nat) (hF : 3 * init.size + 25 ≤ F) :
    (∃ st out, runFun goFuns goIter_MarshalJSONBuffer F
          ⟨initEnv { tape := s.tape, strings := #[], msg := msg }
            { lim := s.tape.size, off := 0, addNext := 0, cur := 0, t := tagEnd } dst, s.tape⟩ =
        .ret st [.bytes out, .bool false] ∧ st.tape = s.tape) ∨
    (∃ st v, runFun goFuns goIter_MarshalJSONBuffer F
          ⟨initEnv { tape := s.tape, strings := #[], msg := msg }
            { lim := s.tape.size, off := 0, addNext := 0, cur := 0, t := tagEnd } dst, s.tape⟩ =
        .ret st [v, .bool true]) := by
  have hlen : s.tape.size = init.size := by
    rcases C19_source_rebuild_no_panic init tags values hsz fuel hf with ⟨s', h, hs⟩ | ⟨s', p, h⟩
    · rw [hrun] at h; cases h; exact hs
    · rw [hrun] at h; cases h
  have hb : BufOK { tape := s.tape, strings := #[], msg := msg } := by constructor <;> simp <;> omega
  exact marshal_root_safe { tape := s.tape, strings := #[], msg := msg } hb dst F
    (by show 3 * s.tape.size + 25 ≤ F; omega)

end C19

/-! ## C04 — `parseString` -/

section C04
open SJ.ParseDefs SJ.GoStage2 SJ.Properties.C04 SJ.Properties.C01

/-- **Strings are decoded exactly, source level.**  `buf` is the message, `idx` the index of an opening quotation mark
    (the function does not look at `buf[idx]` itself), `s` the text after it.  If the RFC 8259 string production reads `s` as
    the bytes `dec` — every two-character escape and every `\uXXXX` replaced, a surrogate pair by one 4-byte code point, all
    other bytes unchanged — leaving `rest`, then the closing quotation mark is at `s[d]` (`closeQ`), `rest` is what follows
    it, and running the regenerated `parseString` (`stage2_build_tape_amd64.go`; the two assembly kernels by their contract =
    the scalar decoder, see `C04_window_exact`) with any `maxStringSize` beyond the closing quote returns `true`, having
    appended exactly two words to the tape and — when it copies — exactly `dec` to the string buffer:
    * `copyStrings`, or the string contains an escape (`d ≠ dec.length`): the words are `'"' | STRINGBUFBIT + len(Strings.B)`
      and `len(dec)`, and the string buffer is the old one followed by exactly `dec`;
    * otherwise: the words are `'"' | idx+1` and `d` — the string is left in place in `Message`, where `Message[idx+1 : idx+1+d]`
      IS `dec` (no escape) — and the string buffer is unchanged.
    The view length `pj.lim` in the store follows the tape; `Message` is unchanged.
    Remaining premises, all of the tie: `idx ≤ len(buf)` (is implied here: `s` is not empty), `idx < 2^63` (a Go `int`;
    beyond it `pj.Message[idx:]` panics), fuel ≥ 1.  `d < maxStringSize` is the property's premise: the kernel gives up
    at `maxStringSize` (the distance to the next structural index). -/
theorem C04_source_parseString_exact (m : M) (cfg : Cfg) (buf : Bytes) (idx max : UInt64) (cap : Int) (fuel sfuel : Nat)
    (s dec rest : List UInt8) (hs : buf.toList.drop (idx.toNat + 1) = s) (h63 : idx.toNat < 2^63)
    (h : Spec.stringBody sfuel s [] false = .acc dec rest) :
    ∃ d, closeQ s = some d ∧ rest = s.drop (d + 1) ∧ (∀ j, j < d → ¬ (s.getD j 0 < 0x20)) ∧
      (d < max.toNat →
        ∃ e' tape' strs', runFun goFuns goparseString (fuel + 1) ⟨psEnv m buf idx max cfg.copyStrings cap, m.tape⟩ =
            .ret ⟨e', tape'⟩ [.bool true] ∧
          e'.get "Strings.B" = some (.bytes strs') ∧ e'.get "pj.lim" = some (.int tape'.size) ∧
          e'.get "Message" = some (.bytes buf) ∧
          (if cfg.copyStrings = true ∨ d ≠ dec.length then
            tape' = (m.tape.push (mkWord tagString (wSTRINGBUFBIT + UInt64.ofNat m.strings.size))).push
              (UInt64.ofNat dec.length) ∧ strs' = m.strings ++ dec.toArray
          else
            tape' = (m.tape.push (mkWord tagString (UInt64.ofNat (idx.toNat + 1)))).push (UInt64.ofNat d) ∧
              strs' = m.strings)) := by
  obtain ⟨d, hcq, hrest, hctl, hdec⟩ := C04_decode_exact sfuel s dec rest h
  refine ⟨d, hcq, hrest, hctl, fun hlim => ?_⟩
  have hd := hdec buf (idx.toNat + 1) max.toNat hs hlim
  have hidx : idx.toNat ≤ buf.size := by
    have hlt := SJ.StrLex.closeQ_lt s.length s d (Nat.le_refl _) hcq
    have : s.length = buf.size - (idx.toNat + 1) := by rw [← hs]; simp
    omega
  have htie := (C01_stage2_actions_follow_source m cfg buf fuel).2.2.2.2.2.2.2.2.1 idx max cap hidx h63
  unfold M.parseString at htie
  rw [hd] at htie
  simp only [] at htie
  have hsrc : idx.toNat + 1 + d - (idx.toNat + 1) = d := by omega
  have hsz : dec.toArray.size = dec.length := by simp
  rw [hsrc, hsz] at htie
  by_cases hc : cfg.copyStrings = true ∨ d ≠ dec.length
  · have hnc : (!(cfg.copyStrings || d != dec.length)) = false := by
      rcases hc with hc | hc
      · simp [hc]
      · simp [hc]
    rw [hnc] at htie
    simp only [Bool.false_eq_true, if_false] at htie
    obtain ⟨e', hrun, hlimv, hstr, hmsg⟩ := htie
    refine ⟨e', _, _, hrun, hstr, hlimv, hmsg, ?_⟩
    rw [if_pos hc]
    exact ⟨rfl, rfl⟩
  · have hnc : (!(cfg.copyStrings || d != dec.length)) = true := by
      have h1 : cfg.copyStrings = false := by
        cases hcs : cfg.copyStrings with
        | true => exact absurd (Or.inl hcs) hc
        | false => rfl
      have h2 : d = dec.length := Classical.byContradiction fun hne => hc (Or.inr hne)
      simp [h1, h2]
    rw [hnc] at htie
    simp only [if_true] at htie
    obtain ⟨e', hrun, hlimv, hstr, hmsg⟩ := htie
    refine ⟨e', _, _, hrun, hstr, hlimv, hmsg, ?_⟩
    rw [if_neg hc]
    exact ⟨rfl, rfl⟩

/-- **… and what the production rejects is not decoded, source level.**  If the RFC string production rejects the text `s`
    after the opening quotation mark at `idx` (bad or truncated escape, raw control character, no closing quote), then
    * there is no closing quotation mark at all (`closeQ s = none`: stage 1 never pairs this quote, so stage 2 is not
      reached with it — `LexIface.strOpen`; what `parseString` itself would do is not stated by `C04_decode_rejects`), or
    * a raw control character precedes the closing quotation mark (stage 1 flags it; `parseString` does not look), or
    * running the regenerated `parseString` returns `false`, for every `maxStringSize`, every capacity, either setting of
      `copyStrings`, and has changed nothing: same tape, same string buffer, same `Message`.
    Remaining premises: the tie's `idx ≤ len(buf)` and `idx < 2^63`; `s.length < sfuel` is the property's (the
    specification is total by fuel). -/
theorem C04_source_parseString_rejects (m : M) (cfg : Cfg) (buf : Bytes) (idx : UInt64) (fuel sfuel : Nat)
    (s : List UInt8) (hs : buf.toList.drop (idx.toNat + 1) = s) (hidx : idx.toNat ≤ buf.size) (h63 : idx.toNat < 2^63)
    (hsf : s.length < sfuel) (h : Spec.stringBody sfuel s [] false = .rej) :
    closeQ s = none ∨ ∃ d, closeQ s = some d ∧
      ((∃ j, j < d ∧ s.getD j 0 < 0x20) ∨
       ∀ (max : UInt64) (cap : Int),
         ∃ e', runFun goFuns goparseString (fuel + 1) ⟨psEnv m buf idx max cfg.copyStrings cap, m.tape⟩ =
             .ret ⟨e', m.tape⟩ [.bool false] ∧
           e'.get "Strings.B" = some (.bytes m.strings) ∧ e'.get "pj.lim" = some (.int m.tape.size) ∧
           e'.get "Message" = some (.bytes buf)) := by
  rcases C04_decode_rejects sfuel s hsf h with hn | ⟨d, hcq, hb⟩
  · exact Or.inl hn
  · refine Or.inr ⟨d, hcq, ?_⟩
    rcases hb with hc | hnone
    · exact Or.inl hc
    · refine Or.inr fun max cap => ?_
      have hd := hnone buf (idx.toNat + 1) max.toNat hs
      have htie := (C01_stage2_actions_follow_source m cfg buf fuel).2.2.2.2.2.2.2.2.1 idx max cap hidx h63
      unfold M.parseString at htie
      rw [hd] at htie
      simp only [] at htie
      obtain ⟨e', hrun, hlimv, hstr, hmsg⟩ := htie
      exact ⟨e', hrun, hstr, hlimv, hmsg⟩

end C04

end SJ.SourceLevelC
