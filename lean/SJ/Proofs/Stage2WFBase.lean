import SJ.Proofs.ParseDefs
import SJ.Proofs.EditString
set_option linter.unusedVariables false
/-
Stage2WF, part 1: arithmetic on tape words and stack entries, what `decodeString` and `parseNumber` return,
and how pushing / setting words changes `word`.
-/
namespace SJ.Stage2WF
open SJ SJ.Generated SJ.ParseDefs SJ.Layout SJ.CopyIndep

/-! ## 1. Word arithmetic -/

theorem ofNat_toNat {n : Nat} (h : n < 2^64) : (UInt64.ofNat n).toNat = n := by
  simp only [UInt64.toNat_ofNat']
  exact Nat.mod_eq_of_lt h

/-- a stack entry: tape position and return code -/
def entry (p ret : Nat) : UInt64 := (UInt64.ofNat p <<< (UInt64.ofNat cretAddressShift)) ||| UInt64.ofNat ret

theorem entry_toNat (p r : Nat) (hp : p < 2^60) (hr : r < 4) : (entry p r).toNat = p * 4 + r := by
  unfold entry cretAddressShift
  simp only [UInt64.toNat_or, UInt64.toNat_shiftLeft]
  rw [ofNat_toNat (n := p) (by omega), ofNat_toNat (n := r) (by omega), ofNat_toNat (n := 2) (by omega)]
  have e1 : 2 % 64 = 2 := by decide
  rw [e1, Nat.shiftLeft_eq, Nat.mod_eq_of_lt (by omega), ← Nat.shiftLeft_eq]
  have hr' : r < 2^2 := by omega
  rw [← Nat.shiftLeft_add_eq_or_of_lt hr' p, Nat.shiftLeft_eq]

theorem entry_shr (p r : Nat) (hp : p < 2^60) (hr : r < 4) :
    entry p r >>> UInt64.ofNat cretAddressShift = UInt64.ofNat p := by
  apply UInt64.toNat_inj.mp
  rw [UInt64.toNat_shiftRight, entry_toNat p r hp hr, ofNat_toNat (n := p) (by omega)]
  unfold cretAddressShift
  rw [ofNat_toNat (n := 2) (by omega)]
  have e1 : 2 % 64 = 2 := by decide
  rw [e1, Nat.shiftRight_eq_div_pow]
  omega

theorem entry_and (p r : Nat) (hp : p < 2^60) (hr : r < 4) : (entry p r &&& 3).toNat = r := by
  rw [UInt64.toNat_and, entry_toNat p r hp hr]
  show (p * 4 + r) &&& (2^2 - 1) = r
  rw [Nat.and_two_pow_sub_one_eq_mod]
  omega

theorem lt56 {v : UInt64} (h : v.toNat < 2^56) : v < 0x100000000000000 := by
  rw [UInt64.lt_iff_toNat_lt]; exact h

theorem tag_mk (t : UInt8) (n : Nat) (h : n < 2^56) : tagOf (mkWord t (UInt64.ofNat n)) = t :=
  tagOf_mkWord _ _ (lt56 (by rw [ofNat_toNat (by omega)]; exact h))

theorem pay_mk (t : UInt8) (n : Nat) (h : n < 2^56) : (payloadOf (mkWord t (UInt64.ofNat n))).toNat = n := by
  rw [payloadOf_mkWord _ _ (lt56 (by rw [ofNat_toNat (by omega)]; exact h)), ofNat_toNat (by omega)]

theorem mk_or (t : UInt8) (v : UInt64) : mkWord t 0 ||| v = mkWord t v := by
  unfold mkWord
  rw [UInt64.or_zero]

theorem loc_succ (n : Nat) : UInt64.ofNat n + UInt64.ofNat caddOneForRoot = UInt64.ofNat (n + 1) := by
  unfold caddOneForRoot
  apply UInt64.toNat_inj.mp
  simp only [UInt64.toNat_add, UInt64.toNat_ofNat']
  omega

/-- the string-buffer reference the copying `parseString` writes -/
theorem bit_add (n : Nat) (h : n < 2^55) : wSTRINGBUFBIT + UInt64.ofNat n = wSTRINGBUFBIT ||| UInt64.ofNat n := by
  have hn : (UInt64.ofNat n) < 0x80000000000000 := by
    rw [UInt64.lt_iff_toNat_lt, ofNat_toNat (by omega)]; exact h
  apply UInt64.toNat_inj.mp
  rw [flagOr_toNat _ hn, UInt64.toNat_add, ofNat_toNat (by omega)]
  have e : wSTRINGBUFBIT.toNat = 2^55 := by decide
  rw [e]
  omega



theorem strbit (x : UInt64) (h : x.toNat < 2^55) : x &&& wSTRINGBUFBIT = 0 := by
  apply UInt64.toNat_inj.mp
  rw [UInt64.toNat_and]
  show x.toNat &&& 2^55 = 0
  apply Nat.eq_of_testBit_eq
  intro i
  rw [Nat.testBit_and, Nat.testBit_two_pow, Nat.zero_testBit]
  by_cases hi : 55 = i
  · subst hi; rw [Nat.testBit_lt_two_pow h]; rfl
  · simp [hi]

theorem strAt_copy (pj : PJ) (L s : Nat) (dec : Bytes) (hs : s + dec.size < 2^55)
    (h0 : word pj L = some (mkWord tagString (wSTRINGBUFBIT + UInt64.ofNat s)))
    (h1 : word pj (L + 1) = some (UInt64.ofNat dec.size))
    (hstr : ∃ pre : Bytes, pre.size = s ∧ pj.strings = pre ++ dec) :
    StrAt pj dec.toList L ∧ InBuf pj L := by
  have hn55 : UInt64.ofNat s < 0x80000000000000 := by
    rw [UInt64.lt_iff_toNat_lt, ofNat_toNat (by omega)]; show s < 2^55; omega
  have hw : mkWord tagString (wSTRINGBUFBIT + UInt64.ofNat s) = mkWord tagString wSTRINGBUFBIT ||| UInt64.ofNat s := by
    rw [bit_add s (by omega), strWord_eq]
  rw [hw] at h0
  obtain ⟨pre, hpre, hstr⟩ := hstr
  refine ⟨⟨_, _, h0, h1, strWord_tag _ hn55, ?_⟩, ?_⟩
  · unfold stringByteAt
    rw [strWord_flag _ hn55]
    simp only [Bool.false_eq_true, if_false, strWord_off _ hn55]
    have hsum : (UInt64.ofNat s + UInt64.ofNat dec.size).toNat = s + dec.size := by
      rw [UInt64.toNat_add, ofNat_toNat (by omega), ofNat_toNat (by omega)]
      exact Nat.mod_eq_of_lt (by omega)
    have hlo : (UInt64.ofNat s).toNat = s := ofNat_toNat (by omega)
    have hc : ¬ ((UInt64.ofNat s + UInt64.ofNat dec.size).toNat > pj.strings.size ∨
        UInt64.ofNat s + UInt64.ofNat dec.size < UInt64.ofNat s) := by
      rw [UInt64.lt_iff_toNat_lt, hsum, hlo, hstr, Array.size_append]
      omega
    rw [if_neg hc, hsum, hlo, hstr]
    simp only [slice, Res.ok.injEq]
    rw [Array.extract_append, ← hpre]
    simp
  · intro w hw'
    rw [h0] at hw'
    injection hw' with hw'
    rw [← hw']
    exact strWord_flag _ hn55

theorem strAt_nocopy (pj : PJ) (L start close : Nat) (dec : Bytes) (hc : close < 2^55)
    (hsc : start ≤ close) (hcl : close ≤ pj.msg.size) (hd : pj.msg.extract start close = dec)
    (h0 : word pj L = some (mkWord tagString (UInt64.ofNat start)))
    (h1 : word pj (L + 1) = some (UInt64.ofNat (close - start))) :
    StrAt pj dec.toList L := by
  refine ⟨_, _, h0, h1, tag_mk _ _ (by omega), ?_⟩
  have hp : payloadOf (mkWord tagString (UInt64.ofNat start)) = UInt64.ofNat start :=
    payloadOf_mkWord _ _ (lt56 (by rw [ofNat_toNat (by omega)]; omega))
  rw [hp]
  unfold stringByteAt
  have hb : (UInt64.ofNat start &&& wSTRINGBUFBIT == 0) = true := by
    rw [strbit _ (by rw [ofNat_toNat (by omega)]; omega)]; rfl
  simp only [hb, if_true]
  have hsum : (UInt64.ofNat start + UInt64.ofNat (close - start)).toNat = close := by
    rw [UInt64.toNat_add, ofNat_toNat (by omega), ofNat_toNat (by omega)]
    rw [Nat.mod_eq_of_lt (by omega)]; omega
  have hlo : (UInt64.ofNat start).toNat = start := ofNat_toNat (by omega)
  have hc' : ¬ ((UInt64.ofNat start + UInt64.ofNat (close - start)).toNat > pj.msg.size ∨
      UInt64.ofNat start + UInt64.ofNat (close - start) < UInt64.ofNat start) := by
    rw [UInt64.lt_iff_toNat_lt, hsum, hlo]
    omega
  rw [if_neg hc', hsum, hlo]
  simp only [slice, hd]

/-! ## 2. What `decodeString` returns -/


theorem encodeUTF8_len {cp : UInt32} {bs : List UInt8} (h : encodeUTF8 cp = some bs) : bs.length ≤ 4 := by
  unfold encodeUTF8 at h
  split at h
  · injection h with h; subst h; simp
  · split at h
    · injection h with h; subst h; simp
    · split at h
      · injection h with h; subst h; simp
      · split at h
        · injection h with h; subst h; simp
        · cases h

/-- what a successful run of the decoder loop returns -/
def DecPost (a : Bytes) (start lim i : Nat) (out dec : Bytes) (close : Nat) : Prop :=
  i ≤ close ∧ close < a.size ∧ a.getD close 0 = 34 ∧ close - start < lim ∧
  ∃ d : List UInt8, dec.toList = out.toList ++ d ∧ d.length ≤ close - i ∧
    (d.length = close - i → d = (a.toList.drop i).take (close - i))

theorem decPost_escape {a : Bytes} {start lim i k : Nat} {out dec : Bytes} {close : Nat} {bs : List UInt8}
    (hk : bs.length < k) (h : DecPost a start lim (i + k) (out ++ bs.toArray) dec close) :
    DecPost a start lim i out dec close := by
  obtain ⟨h1, h2, h3, h4, d, hd, hl, _⟩ := h
  refine ⟨by omega, h2, h3, h4, bs ++ d, ?_, ?_, ?_⟩
  · rw [hd]; simp
  · simp only [List.length_append]; omega
  · simp only [List.length_append]; intro; omega

theorem decodeGo_spec (a : Bytes) (start lim : Nat) : ∀ (fuel i : Nat) (out dec : Bytes) (close : Nat),
    decodeStringGo a start lim fuel i out = some (dec, close) → DecPost a start lim i out dec close := by
  intro fuel
  induction fuel with
  | zero => intro i out dec close h; cases h
  | succ fuel ih =>
    intro i out dec close h
    delta decodeStringGo at h
    simp only [] at h
    generalize hB : (Nat.rec _ _ fuel : (Nat → Bytes → Option (Bytes × Nat)) ×' Nat.below (motive := fun _ => Nat → Bytes → Option (Bytes × Nat)) fuel) = B at h
    have hB1 : ∀ i out, B.1 i out = decodeStringGo a start lim fuel i out := by
      intro i out; rw [← hB]; delta decodeStringGo; rfl
    clear hB
    delta decodeStringGo._f at h
    simp only [hB1] at h
    split at h
    · cases h
    · rename_i hlim
      split at h
      · -- closing quote
        rename_i hq
        injection h with h
        injection h with h1 h2
        subst h1; subst h2
        have hq' : a.getD i 0 = 34 := by simpa using hq
        have hlt : i < a.size := by
          by_cases hi : i < a.size
          · exact hi
          · exfalso
            rw [Array.getD_eq_getD_getElem?, Array.getElem?_eq_none (by omega)] at hq'
            exact absurd hq' (by decide)
        exact ⟨Nat.le_refl _, hlt, hq', by omega, [], by simp, by simp, by simp⟩
      · split at h
        · -- backslash
          split at h
          · split at h
            · cases h
            · split at h
              · split at h
                · cases h
                · split at h
                  · cases h
                  · split at h
                    · cases h
                    · split at h
                      · cases h
                      · rename_i bs hbs
                        have hl := encodeUTF8_len hbs
                        exact decPost_escape (k := 12) (by omega) (ih _ _ _ _ h)
              · split at h
                · cases h
                · rename_i bs hbs
                  have hl := encodeUTF8_len hbs
                  exact decPost_escape (k := 6) (by omega) (ih _ _ _ _ h)
          · split at h
            · cases h
            · have := ih _ _ _ _ h
              rw [show out.push (escapeMap (a.getD (i+1) 0)) = out ++ [escapeMap (a.getD (i+1) 0)].toArray by simp] at this
              exact decPost_escape (k := 2) (by simp) this
        · -- plain byte
          split at h
          · cases h
          · rename_i hsz
            have hlt : i < a.size := by omega
            obtain ⟨h1, h2, h3, h4, d, hd, hl, heq⟩ := ih _ _ _ _ h
            refine ⟨by omega, h2, h3, h4, a.getD i 0 :: d, ?_, ?_, ?_⟩
            · rw [hd]; simp
            · simp only [List.length_cons]; omega
            · simp only [List.length_cons]
              intro he
              have hd' := heq (by omega)
              have hdrop : a.toList.drop i = a.toList[i]'(by simpa using hlt) :: a.toList.drop (i + 1) :=
                List.drop_eq_getElem_cons (by simpa using hlt)
              have e : close - i = (close - (i + 1)) + 1 := by omega
              rw [hdrop, e, List.take_succ_cons, ← hd']
              congr 1
              rw [Array.getD_eq_getD_getElem?, Array.getElem?_eq_getElem hlt]
              simp


theorem decodeString_spec {a : Bytes} {start lim : Nat} {dec : Bytes} {close : Nat}
    (h : decodeString a start lim = some (dec, close)) :
    start ≤ close ∧ close < a.size ∧ a.getD close 0 = 34 ∧ close - start < lim ∧ dec.size ≤ close - start ∧
    (dec.size = close - start → a.extract start close = dec) := by
  obtain ⟨h1, h2, h3, h4, d, hd, hl, heq⟩ := decodeGo_spec a start lim _ _ _ _ _ h
  have hd' : dec.toList = d := by simpa using hd
  have hs : dec.size = d.length := by rw [← hd']; simp
  refine ⟨h1, h2, h3, h4, by omega, fun he => ?_⟩
  have := heq (by omega)
  apply Array.ext'
  rw [Array.toList_extract, List.extract_eq_take_drop, hd', this]

/-! ## 3. What `parseNumber` returns -/

def NumTag (tg : UInt64) : Prop :=
  tg = mkWord tagInteger 0 ∨ tg = mkWord tagUint 0 ∨ tg = mkWord tagFloat 0 ∨
  tg = mkWord tagFloat 0 ||| wFloatOverflowedInteger

theorem floatPath_tag {L : List UInt8} {pos : Nat} {tag tg v : UInt64}
    (h : NumberProofs.floatPath L pos tag = some (tg, v)) : tg = tag := by
  unfold NumberProofs.floatPath at h
  simp only [] at h
  repeat' (split at h)
  all_goals cases h
  all_goals rfl

theorem core_tag {L : List UInt8} {pos : Nat} {isInt minus : Bool} {tg v : UInt64}
    (h : NumberProofs.core L pos isInt minus = some (tg, v)) : NumTag tg := by
  unfold NumberProofs.core at h
  simp only [] at h
  have hfl : ∀ {e : ConvErr}, NumTag (if e == .range then mkWord tagFloat 0 ||| wFloatOverflowedInteger else mkWord tagFloat 0) := by
    intro e; split
    · exact Or.inr (Or.inr (Or.inr rfl))
    · exact Or.inr (Or.inr (Or.inl rfl))
  split at h
  · cases h
  · split at h
    · split at h
      · cases h
      · split at h
        · cases h
        · split at h
          · injection h with h; injection h with h1 h2; exact Or.inl h1.symm
          · split at h
            · split at h
              · injection h with h; injection h with h1 h2; exact Or.inr (Or.inl h1.symm)
              · rw [floatPath_tag h]
                split
                · exact Or.inr (Or.inr (Or.inr rfl))
                · exact hfl
            · rw [floatPath_tag h]; exact hfl
    · split at h
      · rw [floatPath_tag h]; exact Or.inr (Or.inr (Or.inr rfl))
      · rw [floatPath_tag h]; exact Or.inr (Or.inr (Or.inl rfl))

theorem parseNumber_tag {buf : Bytes} {i : Nat} {tg v : UInt64} (h : parseNumber buf i = some (tg, v)) : NumTag tg := by
  rw [NumberProofs.parseNumber_eq] at h
  unfold NumberProofs.parseNumberL at h
  split at h
  · cases h
  · exact core_tag h

end SJ.Stage2WF
