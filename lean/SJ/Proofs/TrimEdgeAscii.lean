import SJ.Proofs.TrimEdge
/-
`EdgeOK` for inputs whose first and last non-JSON-white-space bytes are plain ASCII other than VT/FF
(`edgeOK_of_trimEnds`), in particular for inputs without VT/FF and without bytes `≥ 0x80` at all
(`edgeOK_of_plain`): on such inputs the only white space `bytes.TrimSpace` can remove is JSON white space,
so it coincides with `jsonTrim`.
-/
namespace SJ.TrimEdge
open SJ

/-- an ASCII byte other than VT/FF: it is Unicode white space iff it is JSON white space, and it is not part of
    a multi-byte white-space rune -/
def PlainByte (b : UInt8) : Prop := b < 0x80 ∧ b ≠ 11 ∧ b ≠ 12

/-- neither VT/FF nor a byte ≥ 0x80 occurs: the only white space `bytes.TrimSpace` can remove is JSON white space -/
def PlainEdges (input : Bytes) : Prop := ∀ b ∈ input.toList, b < 0x80 ∧ b ≠ 11 ∧ b ≠ 12

instance (input : Bytes) : Decidable (PlainEdges input) := by unfold PlainEdges; infer_instance

/-- the JSON-trimmed text is empty, or its first and last bytes are plain
    (i.e. the first and the last byte of the input that is not JSON white space) -/
def PlainTrimEnds (input : Bytes) : Prop :=
  (∀ x, (jsonTrimL input.toList).head? = some x → PlainByte x) ∧
  (∀ x, (jsonTrimL input.toList).getLast? = some x → PlainByte x)

instance (input : Bytes) : Decidable (PlainTrimEnds input) := by
  unfold PlainTrimEnds PlainByte; infer_instance

/-- JSON white space is Go ASCII white space -/
theorem asciiSpace_of_isWs (b : UInt8) (h : Spec.isWs b = true) : asciiSpace b = true := by
  unfold Spec.isWs at h
  unfold asciiSpace
  simp only [Bool.or_eq_true, beq_iff_eq] at h ⊢
  rcases h with ((h | h) | h) | h <;> subst h <;> decide

/-- on bytes other than VT/FF Go's ASCII white-space test is the JSON one -/
theorem asciiSpace_eq_isWs (b : UInt8) (h11 : b ≠ 11) (h12 : b ≠ 12) : asciiSpace b = Spec.isWs b := by
  unfold asciiSpace Spec.isWs
  have e11 : (b == 11) = false := by simpa using h11
  have e12 : (b == 12) = false := by simpa using h12
  rw [e11, e12]
  cases (b == 9) <;> cases (b == 10) <;> cases (b == 13) <;> cases (b == 32) <;> rfl

theorem beq_false_of_lt_of_le {x c : UInt8} (h : x < 0x80) (hc : 0x80 ≤ c) : (x == c) = false := by
  apply beq_false_of_ne
  intro e
  rw [e] at h
  exact absurd h (UInt8.not_lt.mpr hc)

/-- a multi-byte white-space rune needs a lead byte 0xC2/0xE1/0xE2/0xE3 -/
theorem uniSpaceAt_of_lt (a : Bytes) (i : Nat) (h : a.getD i 0 < 0x80) : uniSpaceAt a i = 0 := by
  unfold uniSpaceAt
  simp only [beq_false_of_lt_of_le h (c := 0xC2) (by decide), beq_false_of_lt_of_le h (c := 0xE1) (by decide),
    beq_false_of_lt_of_le h (c := 0xE2) (by decide), beq_false_of_lt_of_le h (c := 0xE3) (by decide)]
  simp

/-- the second byte of a two-byte white-space rune is 0x85 or 0xA0 -/
theorem uniSpaceAt_ne_two (a : Bytes) (i : Nat) (h : a.getD (i + 1) 0 < 0x80) : uniSpaceAt a i ≠ 2 := by
  unfold uniSpaceAt
  simp only [beq_false_of_lt_of_le h (c := 0x85) (by decide), beq_false_of_lt_of_le h (c := 0xA0) (by decide)]
  simp only [Bool.or_self, Bool.false_eq_true, and_false, if_false]
  split <;> decide

/-- the third byte of a three-byte white-space rune is `≥ 0x80` -/
theorem uniSpaceAt_ne_three (a : Bytes) (i : Nat) (h : a.getD (i + 2) 0 < 0x80) : uniSpaceAt a i ≠ 3 := by
  have hle : (0x80 ≤ a.getD (i + 2) 0) = False := by simpa using h
  unfold uniSpaceAt
  simp only [beq_false_of_lt_of_le h (c := 0x80) (by decide), beq_false_of_lt_of_le h (c := 0xA8) (by decide),
    beq_false_of_lt_of_le h (c := 0xA9) (by decide), beq_false_of_lt_of_le h (c := 0xAF) (by decide),
    beq_false_of_lt_of_le h (c := 0x9F) (by decide), hle]
  simp only [decide_false, Bool.false_and, Bool.and_false, Bool.or_self, Bool.false_eq_true, and_false, if_false]
  split <;> decide

/-- `trimLeft` stops at the first byte that is not JSON white space, provided that byte is plain -/
theorem trimLeft_plain (a : Bytes) :
    ∀ (n i : Nat), a.size - i = n →
      (∀ x r, (a.toList.drop i).dropWhile Spec.isWs = x :: r → PlainByte x) →
      trimLeft a i = i + ((a.toList.drop i).takeWhile Spec.isWs).length := by
  intro n
  induction n with
  | zero =>
    intro i hn _
    unfold trimLeft
    have : ¬ i < a.size := by omega
    rw [dif_neg this, List.drop_of_length_le (by simp; omega)]
    simp
  | succ n ih =>
    intro i hn hP
    have hi : i < a.size := by omega
    unfold trimLeft
    rw [dif_pos hi]
    rw [List.drop_eq_getElem_cons (by simpa using hi)] at hP ⊢
    simp only [Array.getElem_toList] at hP ⊢
    by_cases hw : Spec.isWs a[i] = true
    · rw [if_pos (asciiSpace_of_isWs _ hw), List.takeWhile_cons_of_pos hw, ih (i + 1) (by omega)]
      · simp only [List.length_cons]
        omega
      · intro x r hx
        exact hP x r (by rw [List.dropWhile_cons_of_pos hw]; exact hx)
    · obtain ⟨hlt, h11, h12⟩ := hP a[i] _ (List.dropWhile_cons_of_neg hw)
      rw [asciiSpace_eq_isWs _ h11 h12, if_neg hw, List.takeWhile_cons_of_neg hw]
      have hu : uniSpaceAt a i = 0 := by
        apply uniSpaceAt_of_lt
        rw [Array.getD_eq_getD_getElem?, Array.getElem?_eq_getElem hi]
        exact hlt
      simp [hu]

/-- `trimRight` stops right after the last byte (at or after `s`) that is not JSON white space, provided that byte is plain -/
theorem trimRight_plain (a : Bytes) (s : Nat) :
    ∀ (e : Nat), s ≤ e → e ≤ a.size →
      (∀ x r, ((a.toList.take e).drop s).reverse.dropWhile Spec.isWs = x :: r → PlainByte x) →
      trimRight a s e = s + (((a.toList.take e).drop s).reverse.dropWhile Spec.isWs).length := by
  intro e
  induction e with
  | zero =>
    intro hs _ _
    unfold trimRight
    have : s = 0 := by omega
    subst this
    simp
  | succ e ih =>
    intro hs he hP
    unfold trimRight
    by_cases hse : s < e + 1
    · have hi : e < a.size := by omega
      have hget : a.getD (e + 1 - 1) 0 = a[e] := by
        rw [Nat.add_sub_cancel, Array.getD_eq_getD_getElem?, Array.getElem?_eq_getElem hi]; rfl
      rw [dif_pos hse, hget]
      have hseg : (a.toList.take (e + 1)).drop s = (a.toList.take e).drop s ++ [a[e]] := by
        rw [List.take_succ_eq_append_getElem (by simpa using hi), List.drop_append_of_le_length (by simp; omega)]
        simp
      rw [hseg, List.reverse_append] at hP ⊢
      simp only [List.reverse_cons, List.reverse_nil, List.nil_append, List.singleton_append] at hP ⊢
      by_cases hw : Spec.isWs a[e] = true
      · rw [if_pos (asciiSpace_of_isWs _ hw), List.dropWhile_cons_of_pos hw, Nat.add_sub_cancel,
          ih (by omega) (by omega)]
        intro x r hx
        exact hP x r (by rw [List.dropWhile_cons_of_pos hw]; exact hx)
      · obtain ⟨hlt, h11, h12⟩ := hP a[e] _ (List.dropWhile_cons_of_neg hw)
        rw [asciiSpace_eq_isWs _ h11 h12, if_neg hw, List.dropWhile_cons_of_neg hw]
        have hlast : ∀ j, j = e → (a.extract 0 (e + 1)).getD j 0 < 0x80 := by
          intro j hj
          subst hj
          have hj' : j < (a.extract 0 (j + 1)).size := by simp; omega
          rw [Array.getD_eq_getD_getElem?, Array.getElem?_eq_getElem hj']
          simpa using hlt
        have h2 : ¬ (e + 1 ≥ s + 2 ∧ (uniSpaceAt (a.extract 0 (e + 1)) (e + 1 - 2) == 2) = true) := by
          rintro ⟨hge, hu⟩
          exact uniSpaceAt_ne_two _ _ (hlast (e + 1 - 2 + 1) (by omega)) (by simpa using hu)
        have h3 : ¬ (e + 1 ≥ s + 3 ∧ (uniSpaceAt (a.extract 0 (e + 1)) (e + 1 - 3) == 3) = true) := by
          rintro ⟨hge, hu⟩
          exact uniSpaceAt_ne_three _ _ (hlast (e + 1 - 3 + 2) (by omega)) (by simpa using hu)
        rw [if_neg h2, if_neg h3]
        simp only [List.length_cons, List.length_reverse, List.length_drop, List.length_take, Array.length_toList]
        omega
    · rw [dif_neg hse]
      have : s = e + 1 := by omega
      subst this
      simp

/-- trimming at the right through `reverse`/`dropWhile` is a `take` -/
theorem reverse_dropWhile_reverse {α} (p : α → Bool) (m : List α) :
    (m.reverse.dropWhile p).reverse = m.take (m.reverse.dropWhile p).length := by
  have h : m = (m.reverse.dropWhile p).reverse ++ (m.reverse.takeWhile p).reverse := by
    rw [← List.reverse_append, List.takeWhile_append_dropWhile, List.reverse_reverse]
  conv => rhs; arg 2; rw [h]
  rw [List.take_left' (by simp)]

/-- the first byte that is not JSON white space is the first byte of the JSON-trimmed text -/
theorem jsonTrimL_head (l : List UInt8) (x : UInt8) (r : List UInt8) (h : l.dropWhile Spec.isWs = x :: r) :
    (jsonTrimL l).head? = some x := by
  have hx : Spec.isWs x = false := dropWhile_head _ _ _ _ h
  unfold jsonTrimL
  rw [reverse_dropWhile_reverse, h]
  cases hk : ((x :: r).reverse.dropWhile Spec.isWs).length with
  | zero =>
    have := dropWhile_nil Spec.isWs _ (List.eq_nil_of_length_eq_zero hk) x (by simp)
    simp [hx] at this
  | succ k => simp

/-- the last byte that is not JSON white space is the last byte of the JSON-trimmed text -/
theorem jsonTrimL_getLast (l : List UInt8) (x : UInt8) (r : List UInt8)
    (h : (l.dropWhile Spec.isWs).reverse.dropWhile Spec.isWs = x :: r) : (jsonTrimL l).getLast? = some x := by
  unfold jsonTrimL
  rw [h, List.getLast?_reverse]
  rfl

theorem jsonTrimL_subset (l : List UInt8) : ∀ x ∈ jsonTrimL l, x ∈ l := by
  intro x hx
  unfold jsonTrimL at hx
  rw [List.mem_reverse] at hx
  have h1 := (List.dropWhile_sublist Spec.isWs).subset hx
  rw [List.mem_reverse] at h1
  exact (List.dropWhile_sublist Spec.isWs).subset h1

/-- `bytes.TrimSpace` is `jsonTrim` whenever the first and the last byte that is not JSON white space are ASCII
    other than VT/FF (e.g. whenever the JSON-trimmed text starts with `{`/`[` and ends with `}`/`]`) -/
theorem edgeOK_of_trimEnds (input : Bytes) (h : PlainTrimEnds input) : EdgeOK input := by
  obtain ⟨hHead, hLast⟩ := h
  unfold EdgeOK trimSpace jsonTrim
  apply Array.ext'
  simp only []
  have hL := trimLeft_plain input (input.size - 0) 0 rfl (by
    intro x r hx
    rw [List.drop_zero] at hx
    exact hHead x (jsonTrimL_head _ x r hx))
  simp only [List.drop_zero, Nat.zero_add] at hL
  have hsle : trimLeft input 0 ≤ input.size := by
    rw [hL, ← Array.length_toList]; exact (List.takeWhile_prefix _).length_le
  have hdrop : input.toList.drop (trimLeft input 0) = input.toList.dropWhile Spec.isWs := by
    rw [hL]
    conv => lhs; arg 2; rw [← List.takeWhile_append_dropWhile (p := Spec.isWs) (l := input.toList)]
    rw [List.drop_left' rfl]
  have htake : input.toList.take input.size = input.toList :=
    List.take_of_length_le (Nat.le_of_eq Array.length_toList)
  have hR := trimRight_plain input (trimLeft input 0) input.size hsle (Nat.le_refl _) (by
    intro x r hx
    rw [htake, hdrop] at hx
    exact hLast x (jsonTrimL_getLast _ x r hx))
  rw [htake, hdrop] at hR
  rw [Array.toList_extract, List.extract_eq_take_drop, hdrop, hR, Nat.add_sub_cancel_left]
  unfold jsonTrimL
  exact (reverse_dropWhile_reverse _ _).symm

theorem plainTrimEnds_of_plain (input : Bytes) (h : PlainEdges input) : PlainTrimEnds input :=
  ⟨fun x hx => h x (jsonTrimL_subset _ x (List.mem_of_mem_head? hx)),
   fun x hx => h x (jsonTrimL_subset _ x (List.mem_of_getLast? hx))⟩

theorem edgeOK_of_plain (input : Bytes) (h : PlainEdges input) : EdgeOK input :=
  edgeOK_of_trimEnds input (plainTrimEnds_of_plain input h)

example : EdgeOK "  [1, 2]\n".toUTF8.data := edgeOK_of_plain _ (by decide)
example : EdgeOK "\t{\"a\":1}\r\n".toUTF8.data := edgeOK_of_plain _ (by decide)
/-- non-ASCII bytes and VT inside the text do not matter -/
example : EdgeOK " [\"\u00a0é\x0b\"]\n".toUTF8.data := edgeOK_of_trimEnds _ (by decide)

end SJ.TrimEdge
