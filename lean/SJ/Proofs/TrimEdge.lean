import SJ.Model.Stage1
import SJ.Spec.Json
/-
The edge of the claim of C01/C08: `bytes.TrimSpace` (Unicode white space) against trimming the four JSON
white-space bytes.  `EdgeOK input` says they coincide on this input — the property statements exclude inputs with
non-JSON Unicode white space at the very edges.
-/
namespace SJ.TrimEdge
open SJ

/-- RFC 8259 white space removed at both ends -/
def jsonTrimL (l : List UInt8) : List UInt8 := ((l.dropWhile Spec.isWs).reverse.dropWhile Spec.isWs).reverse
def jsonTrim (b : Bytes) : Bytes := (jsonTrimL b.toList).toArray

/-- Go's `bytes.TrimSpace` removed exactly the JSON white space -/
def EdgeOK (input : Bytes) : Prop := trimSpace input = jsonTrim input

theorem dropWhile_head {α} (p : α → Bool) : ∀ (l : List α) (x : α) (r : List α), l.dropWhile p = x :: r → p x = false
  | [], _, _, h => by simp at h
  | a :: l, x, r, h => by
    simp only [List.dropWhile_cons] at h
    split at h
    · exact dropWhile_head p l x r h
    · cases h; simp_all

theorem dropWhile_nil {α} (p : α → Bool) : ∀ (l : List α), l.dropWhile p = [] → ∀ x ∈ l, p x = true
  | [], _, x, hx => by cases hx
  | a :: l, h, x, hx => by
    simp only [List.dropWhile_cons] at h
    split at h
    · rename_i hp
      cases hx with
      | head => exact hp
      | tail _ hx' => exact dropWhile_nil p l h x hx'
    · cases h

/-- the JSON-trimmed text neither starts nor ends with JSON white space -/
theorem jsonTrimL_ends (l : List UInt8) :
    (∀ x r, jsonTrimL l = x :: r → Spec.isWs x = false) ∧ (∀ x, (jsonTrimL l).getLast? = some x → Spec.isWs x = false) := by
  unfold jsonTrimL
  constructor
  · intro x r h
    -- head of the result = last element of the reversed-dropped list, which is an element that survived dropWhile on the left
    generalize hm : (l.dropWhile Spec.isWs) = m at h
    -- if the reversed-trimmed list is non-empty its first element is the head of m
    cases hm2 : m with
    | nil => rw [hm2] at h; simp at h
    | cons a m' =>
      have ha : Spec.isWs a = false := dropWhile_head Spec.isWs l a m' (hm ▸ hm2)
      -- (a :: m').reverse.dropWhile p).reverse starts with a whenever it is non-empty
      have key : ∀ (t : List UInt8), ((a :: t).reverse.dropWhile Spec.isWs).reverse = a :: (((a :: t).reverse.dropWhile Spec.isWs).reverse).tail := by
        intro t
        have hsuf : ((a :: t).reverse.dropWhile Spec.isWs) <:+ (a :: t).reverse := List.dropWhile_suffix _
        have hne : ((a :: t).reverse.dropWhile Spec.isWs) ≠ [] := by
          intro e
          have := dropWhile_nil Spec.isWs _ e a (by simp)
          simp [ha] at this
        obtain ⟨pre, hp⟩ := hsuf
        have hrev : (a :: t) = (((a :: t).reverse.dropWhile Spec.isWs)).reverse ++ pre.reverse := by
          have := congrArg List.reverse hp
          simpa using this.symm
        cases hd : ((a :: t).reverse.dropWhile Spec.isWs).reverse with
        | nil => exact absurd (List.reverse_eq_nil_iff.mp hd) hne
        | cons y ys =>
          rw [hd] at hrev
          simp only [List.cons_append, List.cons.injEq] at hrev
          rw [← hrev.1]
          rfl
      rw [hm2, key m'] at h
      cases h
      exact ha
  · intro x h
    rw [List.getLast?_reverse] at h
    cases hd : (l.dropWhile Spec.isWs).reverse.dropWhile Spec.isWs with
    | nil => rw [hd] at h; simp at h
    | cons y ys =>
      rw [hd] at h
      simp only [List.head?_cons, Option.some.injEq] at h
      subst h
      exact dropWhile_head Spec.isWs _ y ys hd

end SJ.TrimEdge
