import SJ.Proofs.WalkLayout
/-
C16: with copied strings, nothing observable depends on the input buffer any more.
`Copied pj v`: every string value and key of the located document refers to the string buffer (STRINGBUFBIT set) — what stage 2 writes
for every string in copy mode (`parseString`: `needCopy := cfg.copyStrings || …`).  Under it, replacing
`Message` by arbitrary bytes changes no read-back.
-/
namespace SJ.CopyIndep
open SJ SJ.Generated SJ.Layout SJ.WalkLayout

/-- the string entry at `p` refers to the string buffer -/
def InBuf (pj : PJ) (p : Nat) : Prop := ∀ w, word pj p = some w → (payloadOf w &&& wSTRINGBUFBIT == 0) = false

mutual
/-- every string value and every key of the located tree refers to the string buffer -/
def Copied (pj : PJ) : LVal → Prop
  | .str _ p => InBuf pj p
  | .arr _ _ es => CopiedVs pj es
  | .obj _ _ ms => CopiedMs pj ms
  | _ => True
def CopiedVs (pj : PJ) : LVals → Prop
  | .nil => True
  | .cons v vs => Copied pj v ∧ CopiedVs pj vs
def CopiedMs (pj : PJ) : LMems → Prop
  | .nil => True
  | .cons pk _ v ms => InBuf pj pk ∧ Copied pj v ∧ CopiedMs pj ms
end

/-- the object after the caller has overwritten (or freed and reused) the input buffer -/
def withMsg (pj : PJ) (m : Bytes) : PJ := { pj with msg := m }

theorem word_withMsg (pj : PJ) (m : Bytes) (k : Nat) : word (withMsg pj m) k = word pj k := rfl

theorem stringByteAt_withMsg (pj : PJ) (m : Bytes) (o l : UInt64) (h : (o &&& wSTRINGBUFBIT == 0) = false) :
    stringByteAt (withMsg pj m) o l = stringByteAt pj o l := by
  unfold stringByteAt withMsg
  simp only [h]
  rfl

theorem gap_withMsg {pj : PJ} (m : Bytes) {p q : Nat} (g : Gap pj p q) : Gap (withMsg pj m) p q := g

theorem strAt_withMsg {pj : PJ} (m : Bytes) {s : List UInt8} {p : Nat} (hc : InBuf pj p) (h : StrAt pj s p) :
    StrAt (withMsg pj m) s p := by
  obtain ⟨w, len, h1, h2, h3, h4⟩ := h
  exact ⟨w, len, h1, h2, h3, by rw [stringByteAt_withMsg pj m _ _ (hc w h1)]; exact h4⟩

mutual
theorem ok_withMsg {pj : PJ} (m : Bytes) : ∀ v : LVal, Copied pj v → Ok pj v → Ok (withMsg pj m) v
  | .null p, _, hv => by simp only [Ok] at *; exact hv
  | .bool b p, _, hv => by simp only [Ok] at *; exact hv
  | .int v p, _, hv => by simp only [Ok] at *; exact hv
  | .uint v p, _, hv => by simp only [Ok] at *; exact hv
  | .float b f p, _, hv => by simp only [Ok] at *; exact hv
  | .str s p, hc, hv => by simp only [Ok, Copied] at *; exact strAt_withMsg m hc hv
  | .arr p e es, hc, hv => by
    simp only [Ok, Copied] at *
    obtain ⟨h1, h2, h3, h4⟩ := hv
    exact ⟨h1, h2, h3, okElems_withMsg m es _ _ hc h4⟩
  | .obj p e ms, hc, hv => by
    simp only [Ok, Copied] at *
    obtain ⟨h1, h2, h3, h4⟩ := hv
    exact ⟨h1, h2, h3, okMems_withMsg m ms _ _ hc h4⟩
theorem okElems_withMsg {pj : PJ} (m : Bytes) :
    ∀ (vs : LVals) (a b : Nat), CopiedVs pj vs → OkElems pj vs a b → OkElems (withMsg pj m) vs a b
  | .nil, a, b, _, hv => by simp only [OkElems] at hv ⊢; exact hv
  | .cons v vs, a, b, hc, hv => by
    simp only [OkElems, CopiedVs] at hv hc ⊢
    obtain ⟨g, hv1, he, rest⟩ := hv
    exact ⟨g, ok_withMsg m v hc.1 hv1, he, okElems_withMsg m vs _ _ hc.2 rest⟩
theorem okMems_withMsg {pj : PJ} (m : Bytes) :
    ∀ (ms : LMems) (a b : Nat), CopiedMs pj ms → OkMems pj ms a b → OkMems (withMsg pj m) ms a b
  | .nil, a, b, _, hv => by simp only [OkMems] at hv ⊢; exact hv
  | .cons pk k v ms, a, b, hc, hv => by
    simp only [OkMems, CopiedMs] at hv hc ⊢
    obtain ⟨g1, hs, g2, hv1, he, rest⟩ := hv
    exact ⟨g1, strAt_withMsg m hc.1 hs, g2, ok_withMsg m v hc.2.1 hv1, he, okMems_withMsg m ms _ _ hc.2.2 rest⟩
end

theorem okRoots_withMsg {pj : PJ} (m : Bytes) : ∀ (vs : List LVal) (p : Nat), (∀ v ∈ vs, Copied pj v) →
    OkRoots pj vs p → OkRoots (withMsg pj m) vs p
  | [], p, _, h => h
  | v :: vs, p, hc, h => by
    simp only [OkRoots] at h ⊢
    obtain ⟨q, e, g, ⟨h1, h2, h3, g1, hok, g2⟩, rest⟩ := h
    exact ⟨q, e, g, ⟨h1, h2, h3, g1, ok_withMsg m v (hc v (List.mem_cons_self ..)) hok, g2⟩,
      okRoots_withMsg m vs e (fun x hx => hc x (List.mem_cons_of_mem _ hx)) rest⟩

/-- **Overwriting the input changes nothing observable.** For a tape holding located, tight roots in which every
    string entry refers to the string buffer, the full read-back through the iterator API is the same for every
    content of `Message`. -/
theorem owalk_msg_indep (pj : PJ) (vs : List LVal) (h : OkRoots pj vs 0) (ht : ∀ v ∈ vs, Tight v)
    (hc : ∀ v ∈ vs, Copied pj v) (m : Bytes) : owalk (withMsg pj m) = owalk pj := by
  rw [owalk_exact pj vs h ht, owalk_exact (withMsg pj m) vs (okRoots_withMsg m vs 0 hc h) ht]

end SJ.CopyIndep
