import SJ.Model.Stage2
import SJ.Generated.Stage2Table
/-
The control skeleton of the goto machine `unifiedMachine` (stage2_build_tape_amd64.go) as a regenerated input.

`SJ/Generated/Stage2Table.lean` is rewritten on every check run by `tools/extract`, which *executes* the statements
that follow each of the 11 call sites of `updateChar` for all 256 values of `buf[idx]` (gotos, switches, the
new-line loop, fall-through between labels) and records actions and the next call site.

Here:
* `planOf st c`   what the hand-written model `M.step` does in state `st` on byte `c`, as data (read off `M.step`);
* `step_eq_run`   `M.step` *is* the interpretation of `planOf` (actions = the model's helpers), hence
  `step_plan`     fails when the plan is `none`, and the successor state is the one the plan names;
* `plan_matches_source`  `planOf` = the regenerated table, for every state and byte (kernel evaluation).
-/
set_option linter.unusedSimpArgs false
namespace SJ.Stage2Table
open SJ SJ.Generated

-- ------------------------------------------------------------------------------------------------------------
-- vocabulary

/-- the three return-address constants, by name -/
inductive Ret where
  | start | object | array
  deriving DecidableEq, Repr

def Ret.val : Ret → Nat
  | .start => cretAddressStartConst
  | .object => cretAddressObjectConst
  | .array => cretAddressArrayConst

def Ret.name : Ret → String
  | .start => "retAddressStartConst"
  | .object => "retAddressObjectConst"
  | .array => "retAddressArrayConst"

/-- the actions the extractor records -/
inductive Act where
  | parseString | atomTrue | atomFalse | atomNull | number
  | push (r : Ret)
  | write (c : UInt8)     -- `pj.write_tape(0, c)`
  | scopeEnd | reopenRoot
  deriving DecidableEq, Repr

/-- the string the extractor emits for an action -/
def Act.name : Act → String
  | .parseString => "parseString"
  | .atomTrue => "true"
  | .atomFalse => "false"
  | .atomNull => "null"
  | .number => "number"
  | .push r => "push:" ++ r.name
  | .write c =>
    if c == 123 then "write:{" else if c == 91 then "write:[" else if c == 116 then "write:t"
    else if c == 102 then "write:f" else if c == 110 then "write:n" else if c == 114 then "write:r" else "write:?"
  | .scopeEnd => "scopeEnd"
  | .reopenRoot => "reopenRoot"

/-- successor of a step: a fixed state, or the one selected by the popped return code (after `scopeEnd`) -/
inductive Succ where
  | to (s : St) | ret
  deriving DecidableEq, Repr

abbrev Plan := Option (List Act × Succ)

/-- state of the model ↦ call site of `updateChar` (numbered in source order) -/
def siteOf : St → Nat
  | .rootStart => 0          -- START STATE, before `continueRoot:`
  | .startContinue => 1      -- `startContinue:`
  | .ndSkip => 2             -- inside `for buf[idx] == '\n'`
  | .objBegin => 3           -- `object_begin:`
  | .objKeyColon => 4        -- `object_key_state:`, before the `':'` test
  | .objValue => 5           -- `object_key_state:`, before the value switch
  | .objContinue => 6        -- `objectContinue:`
  | .objKeyAfterComma => 7   -- `objectContinue:`, case ','
  | .arrBegin => 8           -- `arrayBegin:`
  | .arrContinue => 9        -- `arrayContinue:`
  | .arrValue => 10          -- `arrayContinue:`, case ',' → `goto mainArraySwitch`

def stOfSite : Nat → Option St
  | 0 => some .rootStart | 1 => some .startContinue | 2 => some .ndSkip | 3 => some .objBegin
  | 4 => some .objKeyColon | 5 => some .objValue | 6 => some .objContinue | 7 => some .objKeyAfterComma
  | 8 => some .arrBegin | 9 => some .arrContinue | 10 => some .arrValue | _ => none

theorem stOfSite_siteOf (s : St) : stOfSite (siteOf s) = some s := by cases s <;> rfl

theorem siteOf_injective {s t : St} (h : siteOf s = siteOf t) : s = t := by
  have := congrArg stOfSite h
  simpa [stOfSite_siteOf] using this

/-- the model has exactly as many states as the source has call sites -/
theorem sites_count : stage2Sites.length = 11 ∧ stage2SiteLines.length = 11 ∧ stOfSite 11 = none := by decide

def Succ.code : Succ → Option Nat
  | .to s => some (siteOf s)
  | .ret => none

-- ------------------------------------------------------------------------------------------------------------
-- the plan of the hand-written model (read off `M.step`)

/-- `M.value`: the value cases shared by the object-value and the array-value states -/
def valuePlan (r : Ret) (cont : St) (c : UInt8) : Plan :=
  if c == 34 then some ([.parseString], .to cont)
  else if c == 116 then some ([.atomTrue, .write 116], .to cont)
  else if c == 102 then some ([.atomFalse, .write 102], .to cont)
  else if c == 110 then some ([.atomNull, .write 110], .to cont)
  else if c == 45 ∨ (48 ≤ c ∧ c ≤ 57) then some ([.number], .to cont)
  else if c == 123 then some ([.push r, .write 123], .to .objBegin)
  else if c == 91 then some ([.push r, .write 91], .to .arrBegin)
  else none

/-- `M.rootDispatch`, after the actions `pre` -/
def rootPlan (pre : List Act) (c : UInt8) : Plan :=
  if c == 123 then some (pre ++ [.push .start, .write 123], .to .objBegin)
  else if c == 91 then some (pre ++ [.push .start, .write 91], .to .arrBegin)
  else none

def planOf (st : St) (c : UInt8) : Plan :=
  match st with
  | .rootStart => rootPlan [] c
  | .objBegin =>
    if c == 34 then some ([.parseString], .to .objKeyColon)
    else if c == 125 then some ([.scopeEnd], .ret)
    else none
  | .objKeyColon => if c == 58 then some ([], .to .objValue) else none
  | .objValue => valuePlan .object .objContinue c
  | .objContinue =>
    if c == 44 then some ([], .to .objKeyAfterComma)
    else if c == 125 then some ([.scopeEnd], .ret)
    else none
  | .objKeyAfterComma => if c == 34 then some ([.parseString], .to .objKeyColon) else none
  | .arrBegin => if c == 93 then some ([.scopeEnd], .ret) else valuePlan .array .arrContinue c
  | .arrValue => valuePlan .array .arrContinue c
  | .arrContinue =>
    if c == 44 then some ([], .to .arrValue)
    else if c == 93 then some ([.scopeEnd], .ret)
    else none
  | .startContinue => if c == 10 then some ([], .to .ndSkip) else none
  | .ndSkip => if c == 10 then some ([], .to .ndSkip) else rootPlan [.reopenRoot] c

-- ------------------------------------------------------------------------------------------------------------
-- interpretation of a plan with the helpers of the model

/-- one action on the model state; `none` = `goto fail` -/
def Act.run (cfg : Cfg) (buf : Bytes) (idx peek : Nat) (a : Act) (m : M) : Option M :=
  match a with
  | .parseString => m.parseString cfg buf idx peek
  | .atomTrue => if isValidTrueAtom buf idx then some m else none
  | .atomFalse => if isValidFalseAtom buf idx then some m else none
  | .atomNull => if isValidNullAtom buf idx then some m else none
  | .number =>
    match parseNumber buf idx with
    | some (tg, v) => some { m with tape := (m.tape.push tg).push v }
    | none => none
  | .push r => some (m.push r.val)
  | .write c => some (m.writeTape 0 c)
  | .scopeEnd => m.scopeEnd (buf.getD idx 0)
  | .reopenRoot => m.reopenRoot

def runActs (cfg : Cfg) (buf : Bytes) (idx peek : Nat) : List Act → M → Option M
  | [], m => some m
  | a :: as, m =>
    match a.run cfg buf idx peek m with
    | none => none
    | some m' => runActs cfg buf idx peek as m'

/-- run the actions, then move to the named state (`ret`: the state was chosen by `scopeEnd`) -/
def runPlan (cfg : Cfg) (buf : Bytes) (idx peek : Nat) (p : Plan) (m : M) : Option M :=
  match p with
  | none => none
  | some (acts, .to s) => (runActs cfg buf idx peek acts m).map ({ · with st := s })
  | some (acts, .ret) => runActs cfg buf idx peek acts m

/-- return code ↦ state, decoded with the regenerated dispatch of `scopeEnd:` -/
def retState (r : Nat) : Option St :=
  match stage2RetDispatch.find? (fun e => e.1 == r) with
  | some e => stOfSite e.2
  | none => stOfSite stage2RetDefault

-- ------------------------------------------------------------------------------------------------------------
-- M.step follows its plan

private theorem value_run (m : M) (cfg : Cfg) (buf : Bytes) (idx peek : Nat) (r : Ret) (cont : St) :
    (match m.value cfg buf idx peek r.val with
      | none => none
      | some (m', none) => some { m' with st := cont }
      | some (m', some s) => some { m' with st := s })
    = runPlan cfg buf idx peek (valuePlan r cont (buf.getD idx 0)) m := by
  unfold M.value valuePlan
  simp only []
  by_cases h1 : (buf.getD idx 0 == 34) = true
  · simp only [h1, ↓reduceIte, Bool.false_eq_true, runPlan, runActs, Act.run]
    cases m.parseString cfg buf idx peek <;> rfl
  by_cases h2 : (buf.getD idx 0 == 116) = true
  · simp only [h1, h2, ↓reduceIte, Bool.false_eq_true, runPlan, runActs, Act.run]
    cases isValidTrueAtom buf idx <;> rfl
  by_cases h3 : (buf.getD idx 0 == 102) = true
  · simp only [h1, h2, h3, ↓reduceIte, Bool.false_eq_true, runPlan, runActs, Act.run]
    cases isValidFalseAtom buf idx <;> rfl
  by_cases h4 : (buf.getD idx 0 == 110) = true
  · simp only [h1, h2, h3, h4, ↓reduceIte, Bool.false_eq_true, runPlan, runActs, Act.run]
    cases isValidNullAtom buf idx <;> rfl
  by_cases h5 : (buf.getD idx 0 == 45) = true ∨ (48 ≤ buf.getD idx 0 ∧ buf.getD idx 0 ≤ 57)
  · simp only [h1, h2, h3, h4, h5, ↓reduceIte, Bool.false_eq_true, runPlan, runActs, Act.run]
    cases parseNumber buf idx <;> rfl
  by_cases h6 : (buf.getD idx 0 == 123) = true
  · simp only [h1, h2, h3, h4, h5, h6, ↓reduceIte, Bool.false_eq_true, runPlan, runActs, Act.run]
    rfl
  by_cases h7 : (buf.getD idx 0 == 91) = true
  · simp only [h1, h2, h3, h4, h5, h6, h7, ↓reduceIte, Bool.false_eq_true, runPlan, runActs, Act.run]
    rfl
  · simp only [h1, h2, h3, h4, h5, h6, h7, ↓reduceIte, Bool.false_eq_true, runPlan]

private theorem root_run (m : M) (cfg : Cfg) (buf : Bytes) (idx peek : Nat) (c : UInt8) :
    m.rootDispatch c = runPlan cfg buf idx peek (rootPlan [] c) m := by
  unfold M.rootDispatch rootPlan
  by_cases h1 : (c == 123) = true
  · simp only [h1, ↓reduceIte, Bool.false_eq_true, runPlan, runActs, Act.run, List.nil_append]; rfl
  by_cases h2 : (c == 91) = true
  · simp only [h1, h2, ↓reduceIte, Bool.false_eq_true, runPlan, runActs, Act.run, List.nil_append]; rfl
  · simp only [h1, h2, ↓reduceIte, Bool.false_eq_true, runPlan]

private theorem reopen_run (m : M) (cfg : Cfg) (buf : Bytes) (idx peek : Nat) (c : UInt8) :
    (match m.reopenRoot with
      | none => none
      | some m' => m'.rootDispatch c)
    = runPlan cfg buf idx peek (rootPlan [.reopenRoot] c) m := by
  unfold rootPlan
  by_cases h1 : (c == 123) = true
  · simp only [h1, ↓reduceIte, Bool.false_eq_true, runPlan, runActs, Act.run, List.cons_append, List.nil_append]
    cases m.reopenRoot with
    | none => rfl
    | some m' => simp only [M.rootDispatch, h1, ↓reduceIte, Bool.false_eq_true]; rfl
  by_cases h2 : (c == 91) = true
  · simp only [h1, h2, ↓reduceIte, Bool.false_eq_true, runPlan, runActs, Act.run, List.cons_append, List.nil_append]
    cases m.reopenRoot with
    | none => rfl
    | some m' => simp only [M.rootDispatch, h1, h2, ↓reduceIte, Bool.false_eq_true]; rfl
  · simp only [h1, h2, ↓reduceIte, Bool.false_eq_true, runPlan]
    cases m.reopenRoot with
    | none => rfl
    | some m' => simp only [M.rootDispatch, h1, h2, ↓reduceIte, Bool.false_eq_true]

/-- **`M.step` is the interpretation of its plan.** -/
theorem step_eq_run (m : M) (cfg : Cfg) (buf : Bytes) (idx peek : Nat) :
    m.step cfg buf idx peek = runPlan cfg buf idx peek (planOf m.st (buf.getD idx 0)) m := by
  obtain ⟨st, tape, strings, stack⟩ := m
  cases st
  case rootStart => exact root_run _ cfg buf idx peek _
  case objBegin =>
    simp only [M.step, planOf]
    by_cases h1 : (buf.getD idx 0 == 34) = true
    · simp only [h1, ↓reduceIte, Bool.false_eq_true, runPlan, runActs, Act.run]
      cases M.parseString _ cfg buf idx peek <;> rfl
    by_cases h2 : (buf.getD idx 0 == 125) = true
    · simp only [h1, h2, ↓reduceIte, Bool.false_eq_true, runPlan, runActs, Act.run]
      cases M.scopeEnd _ _ <;> rfl
    · simp only [h1, h2, ↓reduceIte, Bool.false_eq_true, runPlan]
  case objKeyColon =>
    simp only [M.step, planOf]
    by_cases h1 : (buf.getD idx 0 == 58) = true
    · simp only [h1, ↓reduceIte, Bool.false_eq_true, runPlan, runActs]; rfl
    · simp only [h1, ↓reduceIte, Bool.false_eq_true, runPlan]
  case objValue => exact value_run _ cfg buf idx peek .object .objContinue
  case objContinue =>
    simp only [M.step, planOf]
    by_cases h1 : (buf.getD idx 0 == 44) = true
    · simp only [h1, ↓reduceIte, Bool.false_eq_true, runPlan, runActs]; rfl
    by_cases h2 : (buf.getD idx 0 == 125) = true
    · simp only [h1, h2, ↓reduceIte, Bool.false_eq_true, runPlan, runActs, Act.run]
      cases M.scopeEnd _ _ <;> rfl
    · simp only [h1, h2, ↓reduceIte, Bool.false_eq_true, runPlan]
  case objKeyAfterComma =>
    simp only [M.step, planOf]
    by_cases h1 : (buf.getD idx 0 == 34) = true
    · simp only [h1, ↓reduceIte, Bool.false_eq_true, runPlan, runActs, Act.run]
      cases M.parseString _ cfg buf idx peek <;> rfl
    · simp only [h1, ↓reduceIte, Bool.false_eq_true, runPlan]
  case arrBegin =>
    simp only [M.step, planOf]
    by_cases h1 : (buf.getD idx 0 == 93) = true
    · simp only [h1, ↓reduceIte, Bool.false_eq_true, runPlan, runActs, Act.run]
      cases M.scopeEnd _ _ <;> rfl
    · simp only [h1, ↓reduceIte, Bool.false_eq_true]
      exact value_run _ cfg buf idx peek .array .arrContinue
  case arrValue => exact value_run _ cfg buf idx peek .array .arrContinue
  case arrContinue =>
    simp only [M.step, planOf]
    by_cases h1 : (buf.getD idx 0 == 44) = true
    · simp only [h1, ↓reduceIte, Bool.false_eq_true, runPlan, runActs]; rfl
    by_cases h2 : (buf.getD idx 0 == 93) = true
    · simp only [h1, h2, ↓reduceIte, Bool.false_eq_true, runPlan, runActs, Act.run]
      cases M.scopeEnd _ _ <;> rfl
    · simp only [h1, h2, ↓reduceIte, Bool.false_eq_true, runPlan]
  case startContinue =>
    simp only [M.step, planOf]
    by_cases h1 : (buf.getD idx 0 == 10) = true
    · simp only [h1, ↓reduceIte, Bool.false_eq_true, runPlan, runActs]; rfl
    · simp only [h1, ↓reduceIte, Bool.false_eq_true, runPlan]
  case ndSkip =>
    simp only [M.step, planOf]
    by_cases h1 : (buf.getD idx 0 == 10) = true
    · simp only [h1, ↓reduceIte, Bool.false_eq_true, runPlan, runActs]; rfl
    · simp only [h1, ↓reduceIte, Bool.false_eq_true]
      exact reopen_run _ cfg buf idx peek _

-- the state after `scopeEnd` is the one the regenerated dispatch selects -------------------------------------

theorem ret_dispatch :
    stage2RetDispatch = [(cretAddressArrayConst, siteOf .arrContinue), (cretAddressObjectConst, siteOf .objContinue)] ∧
    stage2RetDefault = siteOf .startContinue ∧
    stage2RetDispatchNames = [("retAddressArrayConst", "arrayContinue"), ("retAddressObjectConst", "objectContinue")] ∧
    stage2RetMask = 2 ^ cretAddressShift - 1 ∧ stage2RetMask = 3 ∧
    stage2LabelSite = [("startContinue", siteOf .startContinue), ("object_begin", siteOf .objBegin),
      ("object_key_state", siteOf .objKeyColon), ("objectContinue", siteOf .objContinue),
      ("arrayBegin", siteOf .arrBegin), ("arrayContinue", siteOf .arrContinue)] := by decide

theorem retState_eq (r : Nat) :
    retState r = some (if r == cretAddressArrayConst then St.arrContinue
                       else if r == cretAddressObjectConst then St.objContinue else St.startContinue) := by
  have hA : cretAddressArrayConst = 3 := rfl
  have hO : cretAddressObjectConst = 2 := rfl
  have hD : stage2RetDispatch = [(3, 9), (2, 6)] := by decide
  have hF : stage2RetDefault = 1 := by decide
  unfold retState
  rw [hD, hF, hA, hO]
  by_cases h3 : r = 3
  · subst h3; rfl
  by_cases h2 : r = 2
  · subst h2; rfl
  · have e3 : ((3 : Nat) == r) = false := by simp; omega
    have e2 : ((2 : Nat) == r) = false := by simp; omega
    have f3 : (r == 3) = false := by simp; omega
    have f2 : (r == 2) = false := by simp; omega
    simp [List.find?, e3, e2, f3, f2, stOfSite]

theorem scopeEnd_st {m m' : M} {c : UInt8} (h : m.scopeEnd c = some m') :
    ∃ offset rest, m.stack = offset :: rest ∧ m'.stack = rest ∧
      some m'.st = retState (offset &&& UInt64.ofNat stage2RetMask).toNat := by
  unfold M.scopeEnd at h
  cases hs : m.stack with
  | nil => simp [hs] at h
  | cons offset rest =>
    refine ⟨offset, rest, rfl, ?_⟩
    simp only [hs] at h
    split at h
    · exact absurd h (by simp)
    · rename_i m2 hm2
      have hm2' := hm2
      unfold M.annotate at hm2'
      split at hm2'
      · cases hm2'
        cases h
        refine ⟨rfl, ?_⟩
        rw [retState_eq]
        rfl
      · exact absurd hm2' (by simp)

theorem runActs_st_to {cfg : Cfg} {buf : Bytes} {idx peek : Nat} {acts : List Act} {s : St} {m m' : M}
    (h : runPlan cfg buf idx peek (some (acts, .to s)) m = some m') : m'.st = s := by
  simp only [runPlan] at h
  cases hr : runActs cfg buf idx peek acts m with
  | none => simp [hr] at h
  | some m1 => simp [hr] at h; subst h; rfl

/-- **The step function follows its plan**: it fails when the plan fails; when it succeeds the plan names the
    successor state, or (after `scopeEnd`) the popped return code selects it through the regenerated dispatch. -/
theorem step_plan (m : M) (cfg : Cfg) (buf : Bytes) (idx peek : Nat) :
    (planOf m.st (buf.getD idx 0) = none → m.step cfg buf idx peek = none) ∧
    (∀ m', m.step cfg buf idx peek = some m' →
      ∃ acts succ, planOf m.st (buf.getD idx 0) = some (acts, succ) ∧
        match succ with
        | .to s => m'.st = s
        | .ret => acts = [.scopeEnd] ∧ ∃ offset rest, m.stack = offset :: rest ∧ m'.stack = rest ∧
            some m'.st = retState (offset &&& UInt64.ofNat stage2RetMask).toNat) := by
  rw [step_eq_run]
  constructor
  · intro h; rw [h]; rfl
  · intro m' h
    cases hp : planOf m.st (buf.getD idx 0) with
    | none => rw [hp] at h; simp [runPlan] at h
    | some p =>
      obtain ⟨acts, succ⟩ := p
      rw [hp] at h
      refine ⟨acts, succ, rfl, ?_⟩
      cases succ with
      | to s => exact runActs_st_to h
      | ret =>
        -- the only plans that end by return code are `[scopeEnd]`
        have hacts : acts = [.scopeEnd] := by
          have : ∀ st c a, planOf st c = some (a, .ret) → a = [.scopeEnd] := by
            intro st c a hh
            cases st <;> simp only [planOf, valuePlan, rootPlan] at hh <;>
              (repeat' split at hh) <;> simp_all
          exact this _ _ _ hp
        subst hacts
        refine ⟨rfl, ?_⟩
        simp only [runPlan, runActs, Act.run] at h
        cases hs : m.scopeEnd (buf.getD idx 0) with
        | none => rw [hs] at h; cases h
        | some m1 =>
          rw [hs] at h
          cases h
          exact scopeEnd_st hs

-- ------------------------------------------------------------------------------------------------------------
-- the plan is the regenerated table

/-- entry of the regenerated table for (call site, byte) -/
def lookup (tbl : List (List (List Nat × List String × Option Nat))) (site : Nat) (c : UInt8) :
    Option (List String × Option Nat) :=
  match (tbl.getD site []).find? (fun e => e.1.contains c.toNat) with
  | some e => some e.2
  | none => none

/-- the plan in the vocabulary of the extractor -/
def Plan.export (p : Plan) : Option (List String × Option Nat) :=
  p.map fun q => (q.1.map Act.name, q.2.code)

theorem forall_u8 {P : UInt8 → Prop} (h : ∀ n : Fin 256, P (UInt8.ofNat n.val)) (b : UInt8) : P b := by
  have := h ⟨b.toNat, b.toNat_lt⟩
  simpa using this

/-- read an action name back -/
def Act.ofName (s : String) : Option Act :=
  if s = "parseString" then some .parseString else if s = "true" then some .atomTrue
  else if s = "false" then some .atomFalse else if s = "null" then some .atomNull
  else if s = "number" then some .number
  else if s = "push:retAddressStartConst" then some (.push .start)
  else if s = "push:retAddressObjectConst" then some (.push .object)
  else if s = "push:retAddressArrayConst" then some (.push .array)
  else if s = "write:{" then some (.write 123) else if s = "write:[" then some (.write 91)
  else if s = "write:t" then some (.write 116) else if s = "write:f" then some (.write 102)
  else if s = "write:n" then some (.write 110) else if s = "write:r" then some (.write 114)
  else if s = "scopeEnd" then some .scopeEnd else if s = "reopenRoot" then some .reopenRoot
  else none

def actsOfNames : List String → Option (List Act)
  | [] => some []
  | s :: r =>
    match Act.ofName s, actsOfNames r with
    | some a, some as => some (a :: as)
    | _, _ => none

/-- read a table entry back as a plan; the outer `none` = an entry this file has no meaning for -/
def Plan.import : Option (List String × Option Nat) → Option Plan
  | none => some none
  | some (names, succ) =>
    match actsOfNames names, succ with
    | some acts, none => some (some (acts, .ret))
    | some acts, some n => (stOfSite n).map fun s => some (acts, .to s)
    | none, _ => none

/-- the plan of state `st` on byte `c` and the regenerated entry are the same thing, in both vocabularies -/
def Agrees (st : St) (c : UInt8) : Prop :=
  (planOf st c).export = lookup stage2Sites (siteOf st) c ∧
  Plan.import (lookup stage2Sites (siteOf st) c) = some (planOf st c)

instance (st : St) (c : UInt8) : Decidable (Agrees st c) := by unfold Agrees; infer_instance

theorem agrees_rootStart : ∀ c, Agrees .rootStart c := forall_u8 (by decide +kernel)
theorem agrees_startContinue : ∀ c, Agrees .startContinue c := forall_u8 (by decide +kernel)
theorem agrees_ndSkip : ∀ c, Agrees .ndSkip c := forall_u8 (by decide +kernel)
theorem agrees_objBegin : ∀ c, Agrees .objBegin c := forall_u8 (by decide +kernel)
theorem agrees_objKeyColon : ∀ c, Agrees .objKeyColon c := forall_u8 (by decide +kernel)
theorem agrees_objValue : ∀ c, Agrees .objValue c := forall_u8 (by decide +kernel)
theorem agrees_objContinue : ∀ c, Agrees .objContinue c := forall_u8 (by decide +kernel)
theorem agrees_objKeyAfterComma : ∀ c, Agrees .objKeyAfterComma c := forall_u8 (by decide +kernel)
theorem agrees_arrBegin : ∀ c, Agrees .arrBegin c := forall_u8 (by decide +kernel)
theorem agrees_arrContinue : ∀ c, Agrees .arrContinue c := forall_u8 (by decide +kernel)
theorem agrees_arrValue : ∀ c, Agrees .arrValue c := forall_u8 (by decide +kernel)

theorem agrees : ∀ st c, Agrees st c := by
  intro st
  cases st
  · exact agrees_rootStart
  · exact agrees_objBegin
  · exact agrees_objKeyColon
  · exact agrees_objValue
  · exact agrees_objContinue
  · exact agrees_objKeyAfterComma
  · exact agrees_arrBegin
  · exact agrees_arrValue
  · exact agrees_arrContinue
  · exact agrees_startContinue
  · exact agrees_ndSkip

/-- **The plan of the hand-written model is the table regenerated from the Go source**, for every state and
    every byte: same failing bytes, same actions in the same order, same successor call site. -/
theorem plan_matches_source : ∀ st c, (planOf st c).export = lookup stage2Sites (siteOf st) c :=
  fun st c => (agrees st c).1

/-- the same, read from the table's side: the plan is recovered from the regenerated entry -/
theorem plan_from_source : ∀ st c, Plan.import (lookup stage2Sites (siteOf st) c) = some (planOf st c) :=
  fun st c => (agrees st c).2

/-- **`M.step` is the interpretation of the regenerated table**: look the entry of (call site of the state, byte)
    up, read it as a plan, run the plan with the model's helpers. -/
theorem step_follows_source (m : M) (cfg : Cfg) (buf : Bytes) (idx peek : Nat) :
    ∃ p, Plan.import (lookup stage2Sites (siteOf m.st) (buf.getD idx 0)) = some p ∧
      m.step cfg buf idx peek = runPlan cfg buf idx peek p m :=
  ⟨_, plan_from_source _ _, step_eq_run m cfg buf idx peek⟩

-- ------------------------------------------------------------------------------------------------------------
-- prologue, succeed block, block shapes

/-- START STATE: push the start return address, write the root word -/
theorem prologue :
    stage2Prologue = [Act.push .start, Act.write 114].map Act.name ∧
    ∀ cfg buf idx peek, runActs cfg buf idx peek [Act.push .start, Act.write 114] ({} : M) = some M.init := by
  refine ⟨by decide, ?_⟩
  intros; rfl

/-- the three blocks the table treats as one action each have the statement order the model's helpers
    (`M.scopeEnd`, `M.reopenRoot`, `M.finish`) implement -/
theorem block_shapes :
    stage2ScopeEnd = ["pop", "write@:buf[idx]", "annotate:loc", "dispatch"] ∧
    stage2ReopenRoot = ["pop", "annotate:loc+addOneForRoot", "write@:r", "push:retAddressStartConst", "write:r"] ∧
    stage2Succeed = ["pop", "requireEmpty", "annotate:loc+addOneForRoot", "write@:r", "isvalid", "return:true"] := by
  decide

/-- `succeed:` in the model: exactly one stack entry (pop, then require empty), annotate the root with
    `loc + addOneForRoot`, write the closing root word -/
theorem finish_shape (m : M) :
    m.finish = match m.stack with
      | [offset] =>
        (({ m with stack := [] }).annotate (offset >>> UInt64.ofNat cretAddressShift) (m.loc + UInt64.ofNat caddOneForRoot)).map
          (fun m1 : M => m1.writeTape (offset >>> UInt64.ofNat cretAddressShift) 114)
      | _ => none := by
  obtain ⟨st, tape, strings, stack⟩ := m
  unfold M.finish
  cases stack with
  | nil => rfl
  | cons o r =>
    cases r with
    | nil =>
      simp only []
      cases M.annotate _ _ _ <;> rfl
    | cons _ _ => rfl

end SJ.Stage2Table
