import SJ.Proofs.GoNum
import SJ.Proofs.GoRebuildLemmas
import SJ.Model.Object
