import SJ.Proofs.GoNum
import SJ.Proofs.GoRebuildLemmas
import SJ.Model.Object
set_option linter.unusedVariables false
set_option linter.unusedSimpArgs false
/-
GoArrNum — the hand model of the bulk numeric accessors (`Model/Object.lean`: `View.asNum` at its three kinds
`asFloat | asInteger | asUint64`, on which `C12_bulk_eq_traversal` of `Proofs/Numeric.lean` rests) IS the meaning of the
syntax trees the translator printed from `parsed_array.go` l.149-292 (`Generated/GoSrc.lean`: `goArray_AsFloat`,
`goArray_AsInteger`, `goArray_AsUint64`).

For every `pj`, every view `v`, every `fuel`, the store `[("a.off", v.off), ("a.lim", v.lim)]` and the tape `pj.tape`, the
outcome of `runFun … fuel` and `View.asNum pj kind v #[] fuel` — THE SAME fuel: the model spends one unit per iteration,
the interpreter's `.loop` too, nothing else in the three trees consumes fuel — are related by `SimA`:

  model `.ok ws`     ⇔  interpreter returns `[enc ws, nil]`    (`enc ws` = `.u64s ws.toList` for AsFloat (bits) and AsUint64,
                                                                `.ints (ws.toList.map toInt64)` for AsInteger)
  model `.error _`   ⇔  interpreter returns `[nil slice, non-nil error]`
  model `.panic`     ⇔  interpreter panics (index out of range)
  model `.diverge`   ⇔  interpreter `.diverge`, and then `fuel ≤ (lim - off) / 2`: with `(lim - off) / 2 + 1` units neither
                        side runs out (every iteration that continues has read two words inside the view)
  the interpreter is never `stuck`; the tape is unchanged.
Each line is an equivalence (`SimA.ok_iff` … `SimA.diverge_iff`, instantiated as `asFloat_ok_iff` …).

Hypotheses.  NONE — not even `v.lim ≤ pj.tape.size`: on a view longer than the array both sides panic at the first word
beyond the array (the interpreter's `tapeAt` after its view check, the model's `rd`).

Proof.  The three bodies are cut (by `rfl`: `asFloat_body` …) into the statements before the loop (`preS`, the dead capacity
estimate and `dst`), the loop head (`headS`: `tag := Tag(a.tape.Tape[a.off] >> 56); a.off++`, shared), the `switch` of the
function (`swOf`, taken out of the generated tree, never copied) and `a.off++`.  Stores are abstract (`Inv`: only `a.off`,
`a.lim`, `dst` matter), so `tag`/`val` appearing after the first iteration need no case analysis.  `StepRel`: one iteration
against one unfolding of the model; `loop_sim`: induction on the fuel.

What was checked and AGREES EXACTLY (no model/Go difference found):
* the unguarded `a.tape.Tape[a.off]` at the loop head  vs  the model's `if a.off >= a.lim then .panic`: a view that does
  not end with `]` panics on both sides (replay at the end); `len(a.tape.Tape) <= a.off` before the value word  vs
  `a.lim <= off`: an error on both sides, not a panic.
* AsFloat: `float64(int64(w))` = `F64.ofInt (toInt64 w)`, `float64(w)` = `F64.ofNat w.toNat`.
* AsInteger: `val >= math.MaxInt64` (the constant becomes the float 2^63: `constAsFloat_maxInt64`) / `val < math.MinInt64`
  vs `geInt v 2^63` / `ltInt v (-2^63)`; `int64(val)` = `cvtFloatToInt64` (the model stores `ofInt64` of it, read back by
  `toInt64`: `toInt64_cvt`); uint: `val > math.MaxInt64` vs `v.toNat > 2^63 - 1`.
* AsUint64: `val >= math.MaxUint64` (→ 2^64: `constAsFloat_maxUint64`) / `val < 0` vs `geInt v 2^64` / `ltInt v 0` — the D5
  repair (the tree once tested against `math.MaxInt64`) is in the tree and in the model (replays at the end);
  `uint64(val)` = `cvtFloatToUint64`; integer: `val < 0` on `int64(w)`, `uint64(int64(w))` = `w` (`ofInt_toInt64`).
* order of the tests, literal results beside an error (`nil`), the tag dispatch (100, 108, 117, 93, default).
Not covered by the model's result type (no difference, just not stated by it): the methods advance the receiver's
`a.off` (pointer receiver); `View.asNum` returns the numbers only.
An edit of one of the three Go functions changes a generated definition and breaks `as*_body` or `as*_tail`.
-/
namespace SJ.GoArrNum
open SJ SJ.GoSem SJ.Generated SJ.GoIter SJ.GoRebuild SJ.GoNum

def headS : List Stmt := [
  .assign "tag" (.conv .u8 (.bin .shr (.tapeAt "a" (.v "a.off")) (.int 56))),
  .assign "a.off" (.bin .add (.v "a.off") (.int 1))]
def incrS : Stmt := .assign "a.off" (.bin .add (.v "a.off") (.int 1))
def preS (nilE : Expr) : List Stmt := [
  .assign "lenEst" (.bin .div (.bin .sub (.bin .sub (.lenTape "a") (.v "a.off")) (.int 1)) (.int 2)),
  .ite (.bin .lt (.v "lenEst") (.int 0)) [.assign "lenEst" (.int 0)] [],
  .assign "dst" nilE]
def retS : Stmt := .ret [(.v "dst"), (.bool false)]
def swOf (fd : FunDef) : Stmt :=
  match fd.body with
  | _ :: _ :: _ :: .loop b :: _ => b.getD 2 .brk
  | _ => .brk

theorem asFloat_body : goArray_AsFloat.body = preS .nilU ++ [.loop (headS ++ [swOf goArray_AsFloat, incrS]), retS] := rfl
theorem asInteger_body : goArray_AsInteger.body = preS .nilI ++ [.loop (headS ++ [swOf goArray_AsInteger, incrS]), retS] := rfl
theorem asUint64_body : goArray_AsUint64.body = preS .nilU ++ [.loop (headS ++ [swOf goArray_AsUint64, incrS]), retS] := rfl

structure Inv (e : Env) (off lim : Nat) (dst : Val) : Prop where
  off : e.get "a.off" = some (.int off)
  lim : e.get "a.lim" = some (.int lim)
  dst : e.get "dst" = some dst

attribute [local simp] exec exec1 execCases evalE evalEs isOneOf binop convert ofE Env.get_set

theorem head_ok (pj : PJ) (e : Env) (off lim : Nat) (d : Val) (f : Nat) (w : UInt64) (h : Inv e off lim d)
    (hb : off < lim) (hw : pj.tape[off]? = some w) :
    exec goFuns f headS ⟨e, pj.tape⟩ =
      .normal ⟨(e.set "tag" (.u8 (tagOf w))).set "a.off" (.int ((off + 1 : Nat) : Int)), pj.tape⟩ := by
  have hb' : (off : Int) < lim := by omega
  simp [headS, h.off, h.lim, hb', hw, tagOf]

theorem head_panic (pj : PJ) (e : Env) (off lim : Nat) (d : Val) (f : Nat) (h : Inv e off lim d)
    (hb : ¬ off < lim ∨ pj.tape[off]? = none) :
    exec goFuns f headS ⟨e, pj.tape⟩ = .panic := by
  by_cases hb' : (off : Int) < lim
  · have hn : pj.tape[off]? = none := by rcases hb with hb | hb; omega; exact hb
    simp [headS, h.off, h.lim, hb', hn]
  · simp [headS, h.off, h.lim, hb']

/-- one iteration of the loop against one unfolding of the model -/
def StepRel (pj : PJ) (kind : View.NumKind) (enc : Array UInt64 → Val) (nilv : Val) (a : View) (acc : Array UInt64)
    (o : Out) : Prop :=
  (∃ v e', o = .normal ⟨e', pj.tape⟩ ∧ a.off + 1 < a.lim ∧ Inv e' (a.off + 2) a.lim (enc (acc.push v)) ∧
      ∀ fuel, View.asNum pj kind a acc (fuel + 1) = View.asNum pj kind ⟨a.lim, a.off + 2⟩ (acc.push v) fuel) ∨
  (∃ e', o = .brk ⟨e', pj.tape⟩ ∧ e'.get "dst" = some (enc acc) ∧ ∀ fuel, View.asNum pj kind a acc (fuel + 1) = .ok acc) ∨
  (∃ s, o = .ret s [nilv, .bool true] ∧ s.tape = pj.tape ∧
      ∀ fuel, View.asNum pj kind a acc (fuel + 1) = .error .generic) ∨
  (o = .panic ∧ ∀ fuel, View.asNum pj kind a acc (fuel + 1) = .panic)

theorem inv_next {e : Env} {off lim : Nat} {d d' : Val} (h : Inv e (off + 1) lim d) :
    Inv ((e.set "dst" d').set "a.off" (.int ((off : Int) + 1 + 1))) (off + 2) lim d' := by
  refine ⟨?_, ?_, ?_⟩
  · simp [Env.get_set]; omega
  · simp [Env.get_set, h.lim]
  · simp [Env.get_set]

theorem inv_head {e : Env} {off lim : Nat} {d : Val} (t : UInt8) (h : Inv e off lim d) :
    Inv ((e.set "tag" (.u8 t)).set "a.off" (.int ((off + 1 : Nat) : Int))) (off + 1) lim d := by
  refine ⟨?_, ?_, ?_⟩
  · simp [Env.get_set]
  · simp [Env.get_set, h.lim]
  · simp [Env.get_set, h.dst]


theorem inv_val {e : Env} {off lim : Nat} {d : Val} (x : Val) (h : Inv e off lim d) :
    Inv (e.set "val" x) off lim d := by
  refine ⟨?_, ?_, ?_⟩
  · simp [Env.get_set, h.off]
  · simp [Env.get_set, h.lim]
  · simp [Env.get_set, h.dst]

theorem toInt64_ofInt64 (z : Int) (h1 : -(2^63 : Int) ≤ z) (h2 : z < 2^63) : toInt64 (ofInt64 z) = z := by
  unfold toInt64 ofInt64
  have hm : (z % 2^64).toNat < 2^64 := by omega
  rw [UInt64.toNat_ofNat_of_lt' hm]
  split <;> omega

/-- `int64(f)` is an int64 -/
theorem cvtFloatToInt64_range (b : UInt64) :
    -(2^63 : Int) ≤ Iter.cvtFloatToInt64 b ∧ Iter.cvtFloatToInt64 b < 2^63 := by
  unfold Iter.cvtFloatToInt64
  split
  · split <;> omega
  · omega

theorem toInt64_cvt (b : UInt64) : toInt64 (ofInt64 (Iter.cvtFloatToInt64 b)) = Iter.cvtFloatToInt64 b :=
  toInt64_ofInt64 _ (cvtFloatToInt64_range b).1 (cvtFloatToInt64_range b).2

theorem asFloat_tail (pj : PJ) (a : View) (acc : Array UInt64) (e : Env) (f : Nat) (w : UInt64)
    (hb : a.off < a.lim) (hw : pj.tape[a.off]? = some w)
    (ht : e.get "tag" = some (.u8 (tagOf w)))
    (h : Inv e (a.off + 1) a.lim (.u64s acc.toList)) :
    StepRel pj .asFloat (fun x => .u64s x.toList) (.u64s []) a acc
      (exec goFuns f [swOf goArray_AsFloat, incrS] ⟨e, pj.tape⟩) := by
  have hge : ¬ a.off ≥ a.lim := by omega
  simp only [swOf, goArray_AsFloat, incrS, List.getD_cons_succ, List.getD_cons_zero]
  by_cases hnum : tagOf w = 100 ∨ tagOf w = 108 ∨ tagOf w = 117
  · by_cases hl : a.lim ≤ a.off + 1
    · have hl' : (a.lim : Int) ≤ (a.off : Int) + 1 := by omega
      refine .inr (.inr (.inl ⟨⟨e, pj.tape⟩, ?_, rfl, fun fuel => ?_⟩))
      · rcases hnum with h1 | h1 | h1 <;> simp [ht, h.off, h.lim, h1, hl']
      · rw [View.asNum, if_neg hge]
        rcases hnum with h1 | h1 | h1 <;> simp [rd, hw, h1, hl, tagFloat, tagInteger, tagUint]
    · have hl' : ¬ (a.lim : Int) ≤ (a.off : Int) + 1 := by omega
      have hl2 : (0 : Int) ≤ (a.off : Int) + 1 ∧ (a.off : Int) + 1 < a.lim := by omega
      have hl3 : a.off + 1 < a.lim := by omega
      cases hv : pj.tape[a.off + 1]? with
      | none =>
        refine .inr (.inr (.inr ⟨?_, fun fuel => ?_⟩))
        · rcases hnum with h1 | h1 | h1 <;> simp [ht, h.off, h.lim, h.dst, h1, hl', hl2, hv]
        · rw [View.asNum, if_neg hge]
          rcases hnum with h1 | h1 | h1 <;> simp [rd, hw, h1, hl, hv, tagFloat, tagInteger, tagUint]
      | some v =>
        rcases hnum with h1 | h1 | h1
        · refine .inl ⟨v, _, ?_, hl3, inv_next h, fun fuel => ?_⟩
          · simp [ht, h.off, h.lim, h.dst, h1, hl', hl2, hv]
          · rw [View.asNum, if_neg hge]; simp [rd, hw, h1, hl, hv, tagFloat]
        · refine .inl ⟨F64.ofInt (toInt64 v), _, ?_, hl3, inv_next h, fun fuel => ?_⟩
          · simp [ht, h.off, h.lim, h.dst, h1, hl', hl2, hv]
          · rw [View.asNum, if_neg hge]; simp [rd, hw, h1, hl, hv, tagFloat, tagInteger]
        · refine .inl ⟨F64.ofNat v.toNat, _, ?_, hl3, inv_next h, fun fuel => ?_⟩
          · simp [ht, h.off, h.lim, h.dst, h1, hl', hl2, hv]
          · rw [View.asNum, if_neg hge]; simp [rd, hw, h1, hl, hv, tagFloat, tagInteger, tagUint]
  · have n1 : ¬ tagOf w = 100 := fun hh => hnum (.inl hh)
    have n2 : ¬ tagOf w = 108 := fun hh => hnum (.inr (.inl hh))
    have n3 : ¬ tagOf w = 117 := fun hh => hnum (.inr (.inr hh))
    have m1 : ¬ 100 = tagOf w := fun hh => n1 hh.symm
    have m2 : ¬ 108 = tagOf w := fun hh => n2 hh.symm
    have m3 : ¬ 117 = tagOf w := fun hh => n3 hh.symm
    by_cases h4 : tagOf w = 93
    · refine .inr (.inl ⟨e, ?_, h.dst, fun fuel => ?_⟩)
      · simp [ht, h4]
      · rw [View.asNum, if_neg hge]; simp [rd, hw, h4, tagFloat, tagInteger, tagUint, tagArrayEnd]
    · have m4 : ¬ 93 = tagOf w := fun hh => h4 hh.symm
      refine .inr (.inr (.inl ⟨⟨e, pj.tape⟩, ?_, rfl, fun fuel => ?_⟩))
      · simp [ht, n1, n2, n3, m1, m2, m3, h4, m4]
      · rw [View.asNum, if_neg hge]; simp [rd, hw, n1, n2, n3, h4, tagFloat, tagInteger, tagUint, tagArrayEnd]

theorem asInteger_tail (pj : PJ) (a : View) (acc : Array UInt64) (e : Env) (f : Nat) (w : UInt64)
    (hb : a.off < a.lim) (hw : pj.tape[a.off]? = some w)
    (ht : e.get "tag" = some (.u8 (tagOf w)))
    (h : Inv e (a.off + 1) a.lim (.ints (acc.toList.map toInt64))) :
    StepRel pj .asInteger (fun x => .ints (x.toList.map toInt64)) (.ints []) a acc
      (exec goFuns f [swOf goArray_AsInteger, incrS] ⟨e, pj.tape⟩) := by
  have hge : ¬ a.off ≥ a.lim := by omega
  simp only [swOf, goArray_AsInteger, incrS, List.getD_cons_succ, List.getD_cons_zero]
  by_cases hnum : tagOf w = 100 ∨ tagOf w = 108 ∨ tagOf w = 117
  · by_cases hl : a.lim ≤ a.off + 1
    · have hl' : (a.lim : Int) ≤ (a.off : Int) + 1 := by omega
      refine .inr (.inr (.inl ⟨⟨e, pj.tape⟩, ?_, rfl, fun fuel => ?_⟩))
      · rcases hnum with h1 | h1 | h1 <;> simp [ht, h.off, h.lim, h1, hl']
      · rw [View.asNum, if_neg hge]
        rcases hnum with h1 | h1 | h1 <;> simp [rd, hw, h1, hl, tagFloat, tagInteger, tagUint]
    · have hl' : ¬ (a.lim : Int) ≤ (a.off : Int) + 1 := by omega
      have hl2 : (0 : Int) ≤ (a.off : Int) + 1 ∧ (a.off : Int) + 1 < a.lim := by omega
      have hl3 : a.off + 1 < a.lim := by omega
      cases hv : pj.tape[a.off + 1]? with
      | none =>
        refine .inr (.inr (.inr ⟨?_, fun fuel => ?_⟩))
        · rcases hnum with h1 | h1 | h1 <;> simp [ht, h.off, h.lim, h.dst, h1, hl', hl2, hv]
        · rw [View.asNum, if_neg hge]
          rcases hnum with h1 | h1 | h1 <;> simp [rd, hw, h1, hl, hv, tagFloat, tagInteger, tagUint]
      | some v =>
        rcases hnum with h1 | h1 | h1
        · -- float: the two range tests, against 2^63 and -2^63 on both sides
          by_cases hg : F64.geInt v 9223372036854775808 = true
          · refine .inr (.inr (.inl ⟨⟨e.set "val" (.u64 v), pj.tape⟩, ?_, rfl, fun fuel => ?_⟩))
            · simp [ht, h.off, h.lim, h.dst, h1, hl', hl2, hv, fcmp, constAsFloat_maxInt64, hg]
            · rw [View.asNum, if_neg hge]; simp [rd, hw, h1, hl, hv, tagFloat, hg]
          · by_cases hlt : F64.ltInt v (-9223372036854775808) = true
            · refine .inr (.inr (.inl ⟨⟨e.set "val" (.u64 v), pj.tape⟩, ?_, rfl, fun fuel => ?_⟩))
              · simp [ht, h.off, h.lim, h.dst, h1, hl', hl2, hv, fcmp, constAsFloat_maxInt64, constAsFloat_minInt64,
                  hg, hlt]
              · rw [View.asNum, if_neg hge]; simp [rd, hw, h1, hl, hv, tagFloat, hg, hlt]
            · refine .inl ⟨ofInt64 (Iter.cvtFloatToInt64 v), _, ?_, hl3, inv_next (inv_val (.u64 v) h), fun fuel => ?_⟩
              · simp [ht, h.off, h.lim, h.dst, h1, hl', hl2, hv, fcmp, constAsFloat_maxInt64, constAsFloat_minInt64,
                  hg, hlt, toInt64_cvt]
              · rw [View.asNum, if_neg hge]; simp [rd, hw, h1, hl, hv, tagFloat, hg, hlt]
        · refine .inl ⟨v, _, ?_, hl3, inv_next h, fun fuel => ?_⟩
          · simp [ht, h.off, h.lim, h.dst, h1, hl', hl2, hv]
          · rw [View.asNum, if_neg hge]; simp [rd, hw, h1, hl, hv, tagFloat, tagInteger]
        · by_cases hbig : 9223372036854775807 < v.toNat
          · refine .inr (.inr (.inl ⟨⟨e.set "val" (.u64 v), pj.tape⟩, ?_, rfl, fun fuel => ?_⟩))
            · simp [ht, h.off, h.lim, h.dst, h1, hl', hl2, hv, maxInt64_lt, hbig]
            · rw [View.asNum, if_neg hge]; simp [rd, hw, h1, hl, hv, tagFloat, tagInteger, tagUint, hbig]
          · refine .inl ⟨v, _, ?_, hl3, inv_next (inv_val (.u64 v) h), fun fuel => ?_⟩
            · simp [ht, h.off, h.lim, h.dst, h1, hl', hl2, hv, maxInt64_lt, hbig]
            · rw [View.asNum, if_neg hge]; simp [rd, hw, h1, hl, hv, tagFloat, tagInteger, tagUint, hbig]
  · have n1 : ¬ tagOf w = 100 := fun hh => hnum (.inl hh)
    have n2 : ¬ tagOf w = 108 := fun hh => hnum (.inr (.inl hh))
    have n3 : ¬ tagOf w = 117 := fun hh => hnum (.inr (.inr hh))
    have m1 : ¬ 100 = tagOf w := fun hh => n1 hh.symm
    have m2 : ¬ 108 = tagOf w := fun hh => n2 hh.symm
    have m3 : ¬ 117 = tagOf w := fun hh => n3 hh.symm
    by_cases h4 : tagOf w = 93
    · refine .inr (.inl ⟨e, ?_, h.dst, fun fuel => ?_⟩)
      · simp [ht, h4]
      · rw [View.asNum, if_neg hge]; simp [rd, hw, h4, tagFloat, tagInteger, tagUint, tagArrayEnd]
    · have m4 : ¬ 93 = tagOf w := fun hh => h4 hh.symm
      refine .inr (.inr (.inl ⟨⟨e, pj.tape⟩, ?_, rfl, fun fuel => ?_⟩))
      · simp [ht, n1, n2, n3, m1, m2, m3, h4, m4]
      · rw [View.asNum, if_neg hge]; simp [rd, hw, n1, n2, n3, h4, tagFloat, tagInteger, tagUint, tagArrayEnd]

theorem asUint64_tail (pj : PJ) (a : View) (acc : Array UInt64) (e : Env) (f : Nat) (w : UInt64)
    (hb : a.off < a.lim) (hw : pj.tape[a.off]? = some w)
    (ht : e.get "tag" = some (.u8 (tagOf w)))
    (h : Inv e (a.off + 1) a.lim (.u64s acc.toList)) :
    StepRel pj .asUint64 (fun x => .u64s x.toList) (.u64s []) a acc
      (exec goFuns f [swOf goArray_AsUint64, incrS] ⟨e, pj.tape⟩) := by
  have hge : ¬ a.off ≥ a.lim := by omega
  simp only [swOf, goArray_AsUint64, incrS, List.getD_cons_succ, List.getD_cons_zero]
  by_cases hnum : tagOf w = 100 ∨ tagOf w = 108 ∨ tagOf w = 117
  · by_cases hl : a.lim ≤ a.off + 1
    · have hl' : (a.lim : Int) ≤ (a.off : Int) + 1 := by omega
      refine .inr (.inr (.inl ⟨⟨e, pj.tape⟩, ?_, rfl, fun fuel => ?_⟩))
      · rcases hnum with h1 | h1 | h1 <;> simp [ht, h.off, h.lim, h1, hl']
      · rw [View.asNum, if_neg hge]
        rcases hnum with h1 | h1 | h1 <;> simp [rd, hw, h1, hl, tagFloat, tagInteger, tagUint]
    · have hl' : ¬ (a.lim : Int) ≤ (a.off : Int) + 1 := by omega
      have hl2 : (0 : Int) ≤ (a.off : Int) + 1 ∧ (a.off : Int) + 1 < a.lim := by omega
      have hl3 : a.off + 1 < a.lim := by omega
      cases hv : pj.tape[a.off + 1]? with
      | none =>
        refine .inr (.inr (.inr ⟨?_, fun fuel => ?_⟩))
        · rcases hnum with h1 | h1 | h1 <;> simp [ht, h.off, h.lim, h.dst, h1, hl', hl2, hv]
        · rw [View.asNum, if_neg hge]
          rcases hnum with h1 | h1 | h1 <;> simp [rd, hw, h1, hl, hv, tagFloat, tagInteger, tagUint]
      | some v =>
        rcases hnum with h1 | h1 | h1
        · -- float: the two range tests, against 2^64 and 0 on both sides
          by_cases hg : F64.geInt v 18446744073709551616 = true
          · refine .inr (.inr (.inl ⟨⟨e.set "val" (.u64 v), pj.tape⟩, ?_, rfl, fun fuel => ?_⟩))
            · simp [ht, h.off, h.lim, h.dst, h1, hl', hl2, hv, fcmp, constAsFloat_maxUint64, hg]
            · rw [View.asNum, if_neg hge]; simp [rd, hw, h1, hl, hv, tagFloat, hg]
          · by_cases hlt : F64.ltInt v 0 = true
            · refine .inr (.inr (.inl ⟨⟨e.set "val" (.u64 v), pj.tape⟩, ?_, rfl, fun fuel => ?_⟩))
              · simp [ht, h.off, h.lim, h.dst, h1, hl', hl2, hv, fcmp, constAsFloat_maxUint64, constAsFloat_zero,
                  hg, hlt]
              · rw [View.asNum, if_neg hge]; simp [rd, hw, h1, hl, hv, tagFloat, hg, hlt]
            · refine .inl ⟨UInt64.ofNat (Iter.cvtFloatToUint64 v), _, ?_, hl3, inv_next (inv_val (.u64 v) h),
                fun fuel => ?_⟩
              · simp [ht, h.off, h.lim, h.dst, h1, hl', hl2, hv, fcmp, constAsFloat_maxUint64, constAsFloat_zero,
                  hg, hlt]
              · rw [View.asNum, if_neg hge]; simp [rd, hw, h1, hl, hv, tagFloat, hg, hlt]
        · by_cases hneg : toInt64 v < 0
          · refine .inr (.inr (.inl ⟨⟨e.set "val" (.int (toInt64 v)), pj.tape⟩, ?_, rfl, fun fuel => ?_⟩))
            · simp [ht, h.off, h.lim, h.dst, h1, hl', hl2, hv, hneg]
            · rw [View.asNum, if_neg hge]; simp [rd, hw, h1, hl, hv, tagFloat, tagInteger, hneg]
          · refine .inl ⟨v, _, ?_, hl3, inv_next (inv_val (.int (toInt64 v)) h), fun fuel => ?_⟩
            · simp [ht, h.off, h.lim, h.dst, h1, hl', hl2, hv, hneg, ofInt_toInt64]
            · rw [View.asNum, if_neg hge]; simp [rd, hw, h1, hl, hv, tagFloat, tagInteger, hneg]
        · refine .inl ⟨v, _, ?_, hl3, inv_next h, fun fuel => ?_⟩
          · simp [ht, h.off, h.lim, h.dst, h1, hl', hl2, hv]
          · rw [View.asNum, if_neg hge]; simp [rd, hw, h1, hl, hv, tagFloat, tagInteger, tagUint]
  · have n1 : ¬ tagOf w = 100 := fun hh => hnum (.inl hh)
    have n2 : ¬ tagOf w = 108 := fun hh => hnum (.inr (.inl hh))
    have n3 : ¬ tagOf w = 117 := fun hh => hnum (.inr (.inr hh))
    have m1 : ¬ 100 = tagOf w := fun hh => n1 hh.symm
    have m2 : ¬ 108 = tagOf w := fun hh => n2 hh.symm
    have m3 : ¬ 117 = tagOf w := fun hh => n3 hh.symm
    by_cases h4 : tagOf w = 93
    · refine .inr (.inl ⟨e, ?_, h.dst, fun fuel => ?_⟩)
      · simp [ht, h4]
      · rw [View.asNum, if_neg hge]; simp [rd, hw, h4, tagFloat, tagInteger, tagUint, tagArrayEnd]
    · have m4 : ¬ 93 = tagOf w := fun hh => h4 hh.symm
      refine .inr (.inr (.inl ⟨⟨e, pj.tape⟩, ?_, rfl, fun fuel => ?_⟩))
      · simp [ht, n1, n2, n3, m1, m2, m3, h4, m4]
      · rw [View.asNum, if_neg hge]; simp [rd, hw, n1, n2, n3, h4, tagFloat, tagInteger, tagUint, tagArrayEnd]

/-! ## one iteration: head, then the switch and `a.off++` -/

theorem step_of_tail (pj : PJ) (kind : View.NumKind) (enc : Array UInt64 → Val) (nilv : Val) (sw : Stmt)
    (htail : ∀ (a : View) (acc : Array UInt64) (e : Env) (f : Nat) (w : UInt64), a.off < a.lim →
      pj.tape[a.off]? = some w → e.get "tag" = some (.u8 (tagOf w)) → Inv e (a.off + 1) a.lim (enc acc) →
      StepRel pj kind enc nilv a acc (exec goFuns f [sw, incrS] ⟨e, pj.tape⟩))
    (a : View) (acc : Array UInt64) (e : Env) (f : Nat) (h : Inv e a.off a.lim (enc acc)) :
    StepRel pj kind enc nilv a acc (exec goFuns f (headS ++ [sw, incrS]) ⟨e, pj.tape⟩) := by
  rw [exec_append]
  by_cases hb : a.off < a.lim
  · cases hw : pj.tape[a.off]? with
    | none =>
      rw [head_panic pj e _ _ _ f h (.inr hw)]
      refine .inr (.inr (.inr ⟨rfl, fun fuel => ?_⟩))
      rw [View.asNum]; simp [rd, hw, hb]
    | some w =>
      rw [head_ok pj e _ _ _ f w h hb hw]
      exact htail a acc _ f w hb hw (by simp) (inv_head _ h)
  · rw [head_panic pj e _ _ _ f h (.inl hb)]
    refine .inr (.inr (.inr ⟨rfl, fun fuel => ?_⟩))
    rw [View.asNum]; simp [hb]

/-! ## the loop -/

/-- the `for` statement against the model, same fuel on both sides -/
def LoopRel (pj : PJ) (enc : Array UInt64 → Val) (nilv : Val) (short : Prop) (o : Out) (r : Res (Array UInt64)) : Prop :=
  match r with
  | .ok ws => ∃ e', o = .normal ⟨e', pj.tape⟩ ∧ e'.get "dst" = some (enc ws)
  | .error _ => ∃ s, o = .ret s [nilv, .bool true] ∧ s.tape = pj.tape
  | .panic => o = .panic
  | .diverge => o = .diverge ∧ short

theorem loop_sim (pj : PJ) (kind : View.NumKind) (enc : Array UInt64 → Val) (nilv : Val) (body : List Stmt)
    (hstep : ∀ (a : View) (acc : Array UInt64) (e : Env) (f : Nat), Inv e a.off a.lim (enc acc) →
      StepRel pj kind enc nilv a acc (exec goFuns f body ⟨e, pj.tape⟩)) :
    ∀ (fuel : Nat) (a : View) (acc : Array UInt64) (e : Env), Inv e a.off a.lim (enc acc) →
      LoopRel pj enc nilv (fuel ≤ (a.lim - a.off) / 2)
        (exec1 goFuns fuel (.loop body) ⟨e, pj.tape⟩) (View.asNum pj kind a acc fuel) := by
  intro fuel
  induction fuel with
  | zero =>
    intro a acc e h
    simp [View.asNum, LoopRel]
  | succ f ih =>
    intro a acc e h
    rw [exec1]
    rcases hstep a acc e f h with ⟨v, e', ho, hlt, hinv, hm⟩ | ⟨e', ho, hd, hm⟩ | ⟨s, ho, hs, hm⟩ | ⟨ho, hm⟩
    · rw [ho, hm f]
      have := ih ⟨a.lim, a.off + 2⟩ (acc.push v) e' hinv
      revert this
      simp only []
      cases View.asNum pj kind ⟨a.lim, a.off + 2⟩ (acc.push v) f with
      | diverge =>
        simp only [LoopRel]
        rintro ⟨h1, h2⟩
        exact ⟨h1, by omega⟩
      | ok ws => exact id
      | error _ => exact id
      | panic => exact id
    · rw [ho, hm f]
      exact ⟨e', rfl, hd⟩
    · rw [ho, hm f]
      exact ⟨s, rfl, hs⟩
    · rw [ho, hm f]
      rfl

/-! ## the whole function -/

/-- the statements before the loop: the capacity estimate (dead: only `make`'s capacity depends on it) and `dst` -/
theorem pre_exec (pj : PJ) (e : Env) (off lim : Nat) (nilE : Expr) (nilv : Val) (f : Nat)
    (hn : ∀ s, evalE s nilE = .val nilv)
    (ho : e.get "a.off" = some (.int off)) (hl : e.get "a.lim" = some (.int lim)) :
    ∃ e', exec goFuns f (preS nilE) ⟨e, pj.tape⟩ = .normal ⟨e', pj.tape⟩ ∧ Inv e' off lim nilv := by
  by_cases hneg : ((lim : Int) - off - 1).tdiv 2 < 0
  · refine ⟨((e.set "lenEst" (.int (((lim : Int) - off - 1).tdiv 2))).set "lenEst" (.int 0)).set "dst" nilv, ?_, ?_, ?_, ?_⟩
    · simp [preS, ho, hl, hn, hneg]
    · simp [ho]
    · simp [hl]
    · simp
  · refine ⟨(e.set "lenEst" (.int (((lim : Int) - off - 1).tdiv 2))).set "dst" nilv, ?_, ?_, ?_, ?_⟩
    · simp [preS, ho, hl, hn, hneg]
    · simp [ho]
    · simp [hl]
    · simp

/-- the store of a call on the view `v`: the receiver's two fields -/
def envA (v : View) : Env := [("a.off", .int v.off), ("a.lim", .int v.lim)]

/-- outcome of the interpreter on `Array.As*` vs the model, the SAME fuel on both sides:
    * model `.ok ws`: returns the encoded slice and a nil error;
    * model `.error _`: returns the nil slice and a non-nil error;
    * model `.panic`: the interpreter panics (index out of range);
    * model `.diverge`: the interpreter is out of fuel too, and the fuel was at most `(lim - off) / 2`;
    the interpreter is never `stuck`; the tape is unchanged. -/
def SimA (pj : PJ) (enc : Array UInt64 → Val) (nilv : Val) (v : View) (fuel : Nat) (o : Out)
    (r : Res (Array UInt64)) : Prop :=
  match r with
  | .ok ws => ∃ s, o = .ret s [enc ws, .bool false] ∧ s.tape = pj.tape
  | .error _ => ∃ s, o = .ret s [nilv, .bool true] ∧ s.tape = pj.tape
  | .panic => o = .panic
  | .diverge => o = .diverge ∧ fuel ≤ (v.lim - v.off) / 2

theorem fun_sim (pj : PJ) (kind : View.NumKind) (enc : Array UInt64 → Val) (nilv : Val) (nilE : Expr) (sw : Stmt)
    (fd : FunDef) (hbody : fd.body = preS nilE ++ [.loop (headS ++ [sw, incrS]), retS])
    (hn : ∀ s, evalE s nilE = .val nilv) (henc : enc #[] = nilv)
    (htail : ∀ (a : View) (acc : Array UInt64) (e : Env) (f : Nat) (w : UInt64), a.off < a.lim →
      pj.tape[a.off]? = some w → e.get "tag" = some (.u8 (tagOf w)) → Inv e (a.off + 1) a.lim (enc acc) →
      StepRel pj kind enc nilv a acc (exec goFuns f [sw, incrS] ⟨e, pj.tape⟩))
    (v : View) (fuel : Nat) :
    SimA pj enc nilv v fuel (runFun goFuns fd fuel ⟨envA v, pj.tape⟩) (View.asNum pj kind v #[] fuel) := by
  obtain ⟨e0, hpre, hinv⟩ := pre_exec pj (envA v) v.off v.lim nilE nilv fuel hn (by simp [envA, Env.get])
    (by simp [envA, Env.get])
  have hloop := loop_sim pj kind enc nilv (headS ++ [sw, incrS]) (step_of_tail pj kind enc nilv sw htail) fuel v #[] e0
    (by rw [henc]; exact hinv)
  unfold runFun
  rw [hbody, exec_append, hpre]
  simp only []
  rw [exec]
  revert hloop
  cases View.asNum pj kind v #[] fuel with
  | ok ws =>
    rintro ⟨e', ho, hd⟩
    rw [ho]
    exact ⟨⟨e', pj.tape⟩, by simp [retS, hd], rfl⟩
  | error er =>
    rintro ⟨s, ho, hs⟩
    rw [ho]
    exact ⟨s, rfl, hs⟩
  | panic =>
    intro ho
    simp only [LoopRel] at ho
    rw [ho]
    rfl
  | diverge =>
    rintro ⟨ho, hs⟩
    rw [ho]
    exact ⟨rfl, hs⟩

/-! ## reading `SimA`: each line is an equivalence -/

section Iff
variable {pj : PJ} {enc : Array UInt64 → Val} {nilv : Val} {v : View} {fuel : Nat} {o : Out} {r : Res (Array UInt64)}

/-- model `.ok ws` ⇔ the interpreter returns `enc ws` and a nil error (`enc` injective) -/
theorem SimA.ok_iff (h : SimA pj enc nilv v fuel o r) (ws : Array UInt64) (hinj : ∀ b, enc b = enc ws → b = ws) :
    r = .ok ws ↔ ∃ s, o = .ret s [enc ws, .bool false] := by
  constructor
  · intro hr; subst hr; obtain ⟨s, hs, _⟩ := h; exact ⟨s, hs⟩
  · rintro ⟨s, hs⟩
    cases r with
    | ok b =>
      obtain ⟨s', hs', _⟩ := h
      rw [hs'] at hs
      injection hs with _ hv
      injection hv with hv _
      rw [hinj b hv]
    | error e =>
      obtain ⟨s', hs', _⟩ := h
      rw [hs'] at hs
      injection hs with _ hv
      simp at hv
    | panic => simp only [SimA] at h; rw [h] at hs; cases hs
    | diverge => obtain ⟨h, _⟩ := h; rw [h] at hs; cases hs

/-- model `.error _` ⇔ the interpreter returns the nil slice and a non-nil error -/
theorem SimA.error_iff (h : SimA pj enc nilv v fuel o r) :
    (∃ e, r = .error e) ↔ ∃ s, o = .ret s [nilv, .bool true] := by
  constructor
  · rintro ⟨e, hr⟩; subst hr; obtain ⟨s, hs, _⟩ := h; exact ⟨s, hs⟩
  · rintro ⟨s, hs⟩
    cases r with
    | ok b =>
      obtain ⟨s', hs', _⟩ := h
      rw [hs'] at hs
      injection hs with _ hv
      simp at hv
    | error e => exact ⟨e, rfl⟩
    | panic => simp only [SimA] at h; rw [h] at hs; cases hs
    | diverge => obtain ⟨h, _⟩ := h; rw [h] at hs; cases hs

/-- model `.panic` ⇔ the interpreter panics -/
theorem SimA.panic_iff (h : SimA pj enc nilv v fuel o r) : r = .panic ↔ o = .panic := by
  constructor
  · intro hr; subst hr; exact h
  · intro ho
    cases r with
    | ok b => obtain ⟨s', hs', _⟩ := h; rw [hs'] at ho; cases ho
    | error e => obtain ⟨s', hs', _⟩ := h; rw [hs'] at ho; cases ho
    | panic => rfl
    | diverge => obtain ⟨h, _⟩ := h; rw [h] at ho; cases ho

/-- model out of fuel ⇔ interpreter out of fuel (same fuel on both sides) -/
theorem SimA.diverge_iff (h : SimA pj enc nilv v fuel o r) : r = .diverge ↔ o = .diverge := by
  constructor
  · intro hr; subst hr; exact h.1
  · intro ho
    cases r with
    | ok b => obtain ⟨s', hs', _⟩ := h; rw [hs'] at ho; cases ho
    | error e => obtain ⟨s', hs', _⟩ := h; rw [hs'] at ho; cases ho
    | panic => simp only [SimA] at h; rw [h] at ho; cases ho
    | diverge => rfl

/-- `(lim - off) / 2 + 1` units of fuel are enough: each iteration that does not end the loop consumes two words of
    the view -/
theorem SimA.enough (h : SimA pj enc nilv v fuel o r) (hf : (v.lim - v.off) / 2 + 1 ≤ fuel) :
    r ≠ .diverge ∧ o ≠ .diverge := by
  have hr : r ≠ .diverge := by
    intro hr; subst hr; have := h.2; omega
  exact ⟨hr, fun ho => hr (h.diverge_iff.mpr ho)⟩

/-- the interpreter is never `stuck`, never leaves the loop by a stray `break`/`continue`, never falls off the end -/
theorem SimA.shape (h : SimA pj enc nilv v fuel o r) : (∃ s vs, o = .ret s vs ∧ s.tape = pj.tape) ∨ o = .panic ∨ o = .diverge := by
  cases r with
  | ok b => obtain ⟨s', hs', ht⟩ := h; exact .inl ⟨s', _, hs', ht⟩
  | error e => obtain ⟨s', hs', ht⟩ := h; exact .inl ⟨s', _, hs', ht⟩
  | panic => exact .inr (.inl h)
  | diverge => exact .inr (.inr h.1)
end Iff

/-! ## the three functions -/

theorem toInt64_inj {x y : UInt64} (h : toInt64 x = toInt64 y) : x = y := by
  rw [← ofInt_toInt64 x, ← ofInt_toInt64 y, h]

theorem encU_inj (a b : Array UInt64) (h : Val.u64s b.toList = Val.u64s a.toList) : b = a := by
  injection h with h
  exact Array.toList_inj.mp h

theorem map_toInt64_inj : ∀ (l₁ l₂ : List UInt64), l₁.map toInt64 = l₂.map toInt64 → l₁ = l₂
  | [], [], _ => rfl
  | [], _ :: _, h => by simp at h
  | _ :: _, [], h => by simp at h
  | x :: xs, y :: ys, h => by
    simp only [List.map_cons, List.cons.injEq] at h
    rw [toInt64_inj h.1, map_toInt64_inj xs ys h.2]

theorem encI_inj (a b : Array UInt64) (h : Val.ints (b.toList.map toInt64) = Val.ints (a.toList.map toInt64)) :
    b = a := by
  injection h with h
  exact Array.toList_inj.mp (map_toInt64_inj _ _ h)

/-- `Array.AsFloat` (parsed_array.go:149): floats as their bits -/
theorem asFloat_sim (pj : PJ) (v : View) (fuel : Nat) :
    SimA pj (fun ws => .u64s ws.toList) (.u64s []) v fuel
      (runFun goFuns goArray_AsFloat fuel ⟨envA v, pj.tape⟩) (View.asNum pj .asFloat v #[] fuel) :=
  fun_sim pj .asFloat _ _ .nilU _ _ asFloat_body (fun _ => rfl) rfl (asFloat_tail pj) v fuel

/-- `Array.AsInteger` (parsed_array.go:189): the model's two's-complement words are the returned `int64`s -/
theorem asInteger_sim (pj : PJ) (v : View) (fuel : Nat) :
    SimA pj (fun ws => .ints (ws.toList.map toInt64)) (.ints []) v fuel
      (runFun goFuns goArray_AsInteger fuel ⟨envA v, pj.tape⟩) (View.asNum pj .asInteger v #[] fuel) :=
  fun_sim pj .asInteger _ _ .nilI _ _ asInteger_body (fun _ => rfl) rfl (asInteger_tail pj) v fuel

/-- `Array.AsUint64` (parsed_array.go:241) -/
theorem asUint64_sim (pj : PJ) (v : View) (fuel : Nat) :
    SimA pj (fun ws => .u64s ws.toList) (.u64s []) v fuel
      (runFun goFuns goArray_AsUint64 fuel ⟨envA v, pj.tape⟩) (View.asNum pj .asUint64 v #[] fuel) :=
  fun_sim pj .asUint64 _ _ .nilU _ _ asUint64_body (fun _ => rfl) rfl (asUint64_tail pj) v fuel

section Ties
variable (pj : PJ) (v : View) (fuel : Nat)

/-- the interpreter's outcome on the view `v` of the tape of `pj` -/
abbrev run (fd : FunDef) : Out :=
  runFun goFuns fd fuel ⟨[("a.off", .int v.off), ("a.lim", .int v.lim)], pj.tape⟩

theorem asFloat_ok_iff (ws : Array UInt64) :
    View.asNum pj .asFloat v #[] fuel = .ok ws ↔
      ∃ s, run pj v fuel goArray_AsFloat = .ret s [.u64s ws.toList, .bool false] :=
  (asFloat_sim pj v fuel).ok_iff ws (encU_inj ws)
theorem asFloat_error_iff :
    (∃ e, View.asNum pj .asFloat v #[] fuel = .error e) ↔
      ∃ s, run pj v fuel goArray_AsFloat = .ret s [.u64s [], .bool true] :=
  (asFloat_sim pj v fuel).error_iff
theorem asFloat_panic_iff :
    View.asNum pj .asFloat v #[] fuel = .panic ↔ run pj v fuel goArray_AsFloat = .panic :=
  (asFloat_sim pj v fuel).panic_iff
theorem asFloat_diverge_iff :
    View.asNum pj .asFloat v #[] fuel = .diverge ↔ run pj v fuel goArray_AsFloat = .diverge :=
  (asFloat_sim pj v fuel).diverge_iff

theorem asInteger_ok_iff (ws : Array UInt64) :
    View.asNum pj .asInteger v #[] fuel = .ok ws ↔
      ∃ s, run pj v fuel goArray_AsInteger = .ret s [.ints (ws.toList.map toInt64), .bool false] :=
  (asInteger_sim pj v fuel).ok_iff ws (encI_inj ws)
theorem asInteger_error_iff :
    (∃ e, View.asNum pj .asInteger v #[] fuel = .error e) ↔
      ∃ s, run pj v fuel goArray_AsInteger = .ret s [.ints [], .bool true] :=
  (asInteger_sim pj v fuel).error_iff
theorem asInteger_panic_iff :
    View.asNum pj .asInteger v #[] fuel = .panic ↔ run pj v fuel goArray_AsInteger = .panic :=
  (asInteger_sim pj v fuel).panic_iff
theorem asInteger_diverge_iff :
    View.asNum pj .asInteger v #[] fuel = .diverge ↔ run pj v fuel goArray_AsInteger = .diverge :=
  (asInteger_sim pj v fuel).diverge_iff

theorem asUint64_ok_iff (ws : Array UInt64) :
    View.asNum pj .asUint64 v #[] fuel = .ok ws ↔
      ∃ s, run pj v fuel goArray_AsUint64 = .ret s [.u64s ws.toList, .bool false] :=
  (asUint64_sim pj v fuel).ok_iff ws (encU_inj ws)
theorem asUint64_error_iff :
    (∃ e, View.asNum pj .asUint64 v #[] fuel = .error e) ↔
      ∃ s, run pj v fuel goArray_AsUint64 = .ret s [.u64s [], .bool true] :=
  (asUint64_sim pj v fuel).error_iff
theorem asUint64_panic_iff :
    View.asNum pj .asUint64 v #[] fuel = .panic ↔ run pj v fuel goArray_AsUint64 = .panic :=
  (asUint64_sim pj v fuel).panic_iff
theorem asUint64_diverge_iff :
    View.asNum pj .asUint64 v #[] fuel = .diverge ↔ run pj v fuel goArray_AsUint64 = .diverge :=
  (asUint64_sim pj v fuel).diverge_iff

/-- with `(lim - off) / 2 + 1` units of fuel neither side runs out, whatever the kind -/
theorem asNum_enough (kind : View.NumKind) (hf : (v.lim - v.off) / 2 + 1 ≤ fuel) :
    View.asNum pj kind v #[] fuel ≠ .diverge := by
  cases kind
  · exact ((asFloat_sim pj v fuel).enough hf).1
  · exact ((asInteger_sim pj v fuel).enough hf).1
  · exact ((asUint64_sim pj v fuel).enough hf).1

end Ties

/-- The source tie of the bulk numeric accessors: `View.asNum` at its three kinds is the meaning of the three
    regenerated syntax trees — for every document, every view, every fuel (the same on both sides; `(lim - off)/2 + 1`
    units are enough). -/
theorem go_arrnum_source_tie (pj : PJ) (v : View) (fuel : Nat) :
    SimA pj (fun ws => .u64s ws.toList) (.u64s []) v fuel
      (runFun goFuns goArray_AsFloat fuel ⟨[("a.off", .int v.off), ("a.lim", .int v.lim)], pj.tape⟩)
      (View.asNum pj .asFloat v #[] fuel) ∧
    SimA pj (fun ws => .ints (ws.toList.map toInt64)) (.ints []) v fuel
      (runFun goFuns goArray_AsInteger fuel ⟨[("a.off", .int v.off), ("a.lim", .int v.lim)], pj.tape⟩)
      (View.asNum pj .asInteger v #[] fuel) ∧
    SimA pj (fun ws => .u64s ws.toList) (.u64s []) v fuel
      (runFun goFuns goArray_AsUint64 fuel ⟨[("a.off", .int v.off), ("a.lim", .int v.lim)], pj.tape⟩)
      (View.asNum pj .asUint64 v #[] fuel) ∧
    ((v.lim - v.off) / 2 + 1 ≤ fuel → ∀ kind, View.asNum pj kind v #[] fuel ≠ .diverge) :=
  ⟨asFloat_sim pj v fuel, asInteger_sim pj v fuel, asUint64_sim pj v fuel, fun hf kind => asNum_enough pj v fuel kind hf⟩

/-! ## boundary replays (model evaluated by the kernel, interpreter side obtained THROUGH the tie theorems)

No difference between model and source was found.  The replays pin the places where one was most likely: the float
range tests of `AsUint64` (D5: the tree once compared with `math.MaxInt64` there) and the unguarded `a.tape.Tape[a.off]`
at the loop head. -/

/-- what a result holds, as decidable data -/
def resCode : Res (Array UInt64) → Option (Option (List UInt64))
  | .ok ws => some (some ws.toList)
  | .error _ => some none
  | .panic => none
  | .diverge => some (some [0xdead])

theorem resCode_ok {r : Res (Array UInt64)} {l : List UInt64} (hl : l ≠ [0xdead]) (h : resCode r = some (some l)) :
    r = .ok l.toArray := by
  cases r with
  | ok ws => simp only [resCode, Option.some.injEq] at h; rw [← h]
  | error e => simp [resCode] at h
  | panic => simp [resCode] at h
  | diverge => simp only [resCode, Option.some.injEq] at h; exact absurd h.symm hl

theorem resCode_error {r : Res (Array UInt64)} (h : resCode r = some none) : ∃ e, r = .error e := by
  cases r with
  | ok ws => simp [resCode] at h
  | error e => exact ⟨e, rfl⟩
  | panic => simp [resCode] at h
  | diverge => simp [resCode] at h

theorem resCode_panic {r : Res (Array UInt64)} (h : resCode r = none) : r = .panic := by
  cases r <;> simp [resCode] at h
  rfl

/-- the inner view of `[x]` for one float `x` given by its bits -/
def oneFloat (bits : UInt64) : PJ := ⟨#[0x6400000000000000, bits, 0x5D00000000000000], #[], #[]⟩

/-- `AsUint64` on `[9223372036854775808.0]` (2^63, above `math.MaxInt64`): accepted, value 2^63 — model and tree -/
example : ∃ s, run (oneFloat 0x43E0000000000000) ⟨3, 0⟩ 2 goArray_AsUint64 =
    .ret s [.u64s [9223372036854775808], .bool false] :=
  (asUint64_ok_iff _ _ _ _).mp (resCode_ok (by decide) (by decide +kernel))

/-- `AsUint64` on `[18446744073709551616.0]` (2^64 = `float64(math.MaxUint64)`): rejected by `>=` — model and tree -/
example : ∃ s, run (oneFloat 0x43F0000000000000) ⟨3, 0⟩ 2 goArray_AsUint64 = .ret s [.u64s [], .bool true] :=
  (asUint64_error_iff _ _ _).mp (resCode_error (by decide +kernel))

/-- `AsInteger` on `[9223372036854775808.0]` (2^63 = `float64(math.MaxInt64)`): rejected by `>=` — model and tree -/
example : ∃ s, run (oneFloat 0x43E0000000000000) ⟨3, 0⟩ 2 goArray_AsInteger = .ret s [.ints [], .bool true] :=
  (asInteger_error_iff _ _ _).mp (resCode_error (by decide +kernel))

/-- `AsInteger` on `[-9223372036854775808.0]` (-2^63): accepted, `math.MinInt64` -/
example : ∃ s, run (oneFloat 0xC3E0000000000000) ⟨3, 0⟩ 2 goArray_AsInteger =
    .ret s [.ints [-9223372036854775808], .bool false] :=
  (asInteger_ok_iff _ _ _ #[0x8000000000000000]).mp (resCode_ok (by decide) (by decide +kernel))

/-- a view that does not end with `]` (here: cut after the element): `a.tape.Tape[a.off]` at the loop head panics —
    model and tree — although the view lies inside the tape -/
example : run (oneFloat 0x3FF0000000000000) ⟨2, 0⟩ 2 goArray_AsFloat = .panic :=
  (asFloat_panic_iff _ _ _).mp (resCode_panic (by decide +kernel))

/-- … and with one word less the element's value is missing: an error, not a panic (`len(a.tape.Tape) <= a.off`) -/
example : ∃ s, run (oneFloat 0x3FF0000000000000) ⟨1, 0⟩ 1 goArray_AsFloat = .ret s [.u64s [], .bool true] :=
  (asFloat_error_iff _ _ _).mp (resCode_error (by decide +kernel))

end SJ.GoArrNum
