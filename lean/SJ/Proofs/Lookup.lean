import SJ.Proofs.WalkLayout
set_option linter.unusedVariables false

/-
Lookup — "Lookup and filtered iteration agree with plain traversal".

Setting: any `pj`, any object node `.obj p e ms` of a located document with `Ok pj (.obj p e ms)` (NOP gaps
allowed before, between and after members and — for 1–3 — also between a key and its value), the `Object` view
`{ lim := e, off := p + 1 }` that `Iter.Object()` creates (`object_onNode`), started as the API does with
`View.iter`.  Plain traversal is a function of the located member list:
  `firstWithKey key ms`, `membersWithKeys ks ms`, `pathSpec key path ms`.
Results are explicit cursors: `elemIter pj v` (restricted to `v`, what `AdvanceIter`/`NextElementBytes` hand out)
and `skipIter pj e v` (what `Advance` leaves; the callback cursor of `ForEach`); both are `OnNode pj v`
(`elemIter_onNode`, `skipIter_onNode`).

Main theorems (all FULL, no tightness hypothesis unless stated):
 1. `findKey_spec` (+ `_fuelOf`, `findKey_none`, `findKey_some`): `FindKey` = first member with the key (duplicates:
    the FIRST wins), `nil` when absent.  Fuel: more than the number of members.  Hypothesis `key.size < 2^63`
    (true of every Go string) because the code compares `int(length)` with `len(key)`.
 2. `forEach_spec` (+ `_fuelOf`): `ForEach` = `cbTake ks 0 (membersWithKeys ks ms)` mapped to (key, cursor on the
    value), in order.  `cbTake` is the early return after `len(onlyKeys)` callbacks.  `forEach_exact`: with no
    filter, or pairwise distinct member keys, that is exactly `membersWithKeys ks ms`.  The property text
    ("exactly the members whose key is in the filter") is FALSE for objects with duplicate keys:
    `forEach_dup_discrepancy` (model and Go code alike).  `cbOf_onNode`: each callback has its own key and a
    valid cursor on its own value.
 3. `findPath_spec`, `findPathTop_spec`, `findElement_obj`, `findPath_found`: `FindPath` = `pathSpec`;
    `Err.pathNotFound` when a key is absent (or the path is empty), `Err.generic` when the path continues through a
    non-object (`pathSpec_none/_last/_obj/_nonobj`).
 4. `parse_spec` (needs `TightTop ms`: member values start right after their keys, this object only) — all
    members in order, duplicates included, `firstWithKey_find` ties it to `FindKey`, `membersAll_toOMems` to
    `WalkLayout.toOMems`; `objMap_spec`, `interface_node`, `interface_family` (need hereditary `Tight`):
    `Object.Map`/`Interface()` = the Go map with LAST duplicate winning (`map_vs_findKey_dup`).
    Without tightness `Parse` loses members that `FindKey` finds: `gap_key_value_discrepancy`.
-/

namespace SJ.Lookup
open SJ SJ.Generated SJ.Layout SJ.WalkSafe SJ.WalkLayout

/-! ## Specification side: plain traversal of the located member list -/

/-- the first member, in tape order, whose key bytes equal `key` (position of the key, value) -/
def firstWithKey (key : Bytes) : LMems → Option (Nat × LVal)
  | .nil => none
  | .cons pk k v ms => if k.toArray = key then some (pk, v) else firstWithKey key ms

/-- the sub-sequence, in tape order, of the members whose key is in `ks`; all members if `ks = []` -/
def membersWithKeys (ks : List Bytes) : LMems → List (Bytes × LVal)
  | .nil => []
  | .cons _ k v ms =>
    if ks = [] ∨ k.toArray ∈ ks then (k.toArray, v) :: membersWithKeys ks ms else membersWithKeys ks ms

/-- number of members -/
def memCount : LMems → Nat
  | .nil => 0
  | .cons _ _ _ ms => memCount ms + 1

/-! ## Cursors -/

/-- the first word of a node (0 if out of range, which does not happen for `Ok` nodes) -/
def headWord (pj : PJ) (v : LVal) : UInt64 := (word pj v.pos).getD 0

theorem headWord_eq {pj : PJ} {v : LVal} {w : UInt64} (h : word pj v.pos = some w) : headWord pj v = w := by
  unfold headWord; rw [h]; rfl

/-- the cursor `Advance` leaves on the node `v` inside a scope of limit `lim`: one past the first word,
    tag and payload of that word, the next `Advance` continues at `v.fin` -/
def skipIter (pj : PJ) (lim : Nat) (v : LVal) : Iter :=
  { lim := lim, off := v.pos + 1, addNext := (v.fin : Int) - ((v.pos + 1 : Nat) : Int),
    cur := payloadOf (headWord pj v), t := tagOf (headWord pj v) }

/-- the cursor `AdvanceIter` (and `NextElementBytes`) hands out for the node `v`: restricted to the words
    of `v`, positioned to step INTO it -/
def elemIter (pj : PJ) (v : LVal) : Iter :=
  { lim := v.fin, off := v.pos + 1, addNext := intoNext v,
    cur := payloadOf (headWord pj v), t := tagOf (headWord pj v) }

theorem skipIter_onNode (pj : PJ) (lim : Nat) (v : LVal) (hok : Ok pj v) (hfin : v.fin ≤ lim) :
    OnNode pj v (skipIter pj lim v) ∧ (skipIter pj lim v).t = tagOfL v := by
  obtain ⟨w, hw, ht⟩ := ok_head pj v hok
  have hpf := pos_lt_fin v pj hok
  refine ⟨⟨rfl, ⟨w, hw, ?_, ?_⟩, hfin, ?_⟩, ?_⟩
  · show tagOf (headWord pj v) = tagOf w; rw [headWord_eq hw]
  · show payloadOf (headWord pj v) = payloadOf w; rw [headWord_eq hw]
  · show ((v.pos + 1 : Nat) : Int) + ((v.fin : Int) - ((v.pos + 1 : Nat) : Int)) ≤ lim; omega
  · show tagOf (headWord pj v) = _; rw [headWord_eq hw, ht]

theorem elemIter_onNode (pj : PJ) (v : LVal) (hok : Ok pj v) :
    OnNode pj v (elemIter pj v) ∧ (elemIter pj v).t = tagOfL v := by
  obtain ⟨w, hw, ht⟩ := ok_head pj v hok
  have hin := intoNext_le pj v hok
  refine ⟨⟨rfl, ⟨w, hw, ?_, ?_⟩, Nat.le_refl _, ?_⟩, ?_⟩
  · show tagOf (headWord pj v) = tagOf w; rw [headWord_eq hw]
  · show payloadOf (headWord pj v) = payloadOf w; rw [headWord_eq hw]
  · show ((v.pos + 1 : Nat) : Int) + intoNext v ≤ v.fin; omega
  · show tagOf (headWord pj v) = _; rw [headWord_eq hw, ht]

/-! ## Steps -/

/-- `Advance` onto a node, result written with `skipIter` -/
theorem advance_node' (pj : PJ) (i : Iter) (lo : Nat) (v : LVal) (g : Gap pj lo v.pos) (hok : Ok pj v)
    (hfin : v.fin ≤ i.lim) (ha : 0 ≤ i.addNext) (hlo : (i.off : Int) + i.addNext = lo) :
    Iter.advance pj i = .ok (skipIter pj i.lim v, tagToType (tagOfL v)) := by
  obtain ⟨w, hw, ht, he⟩ := advance_node pj i lo v g hok hfin ha hlo
  rw [he]; unfold skipIter; rw [headWord_eq hw]

/-- `AdvanceIter` onto a node: the receiver steps over it, `dst` becomes the restricted cursor -/
theorem advanceIter_node (pj : PJ) (i d : Iter) (lo : Nat) (v : LVal) (g : Gap pj lo v.pos) (hok : Ok pj v)
    (hfin : v.fin ≤ i.lim) (ha : 0 ≤ i.addNext) (hlo : (i.off : Int) + i.addNext = lo) :
    Iter.advanceIter pj i d = .ok (skipIter pj i.lim v, elemIter pj v, tagToType (tagOfL v)) := by
  obtain ⟨w, hw, ht⟩ := ok_head pj v hok
  have hpf := pos_lt_fin v pj hok
  unfold Iter.advanceIter
  rw [bump_to i lo ha hlo]
  simp only [Res.bind_ok]
  rw [advanceIterLoop_gap pj i g (by omega), advanceIterLoop_live pj i hw (by rw [ht]; exact tagOfL_ne_nop v) (by omega)]
  simp only [Res.bind_ok, Bool.not_true, Bool.false_eq_true, if_false]
  rw [(calcNext_of pj v hok { i with off := v.pos + 1, cur := payloadOf w, t := tagOf w } w hw rfl rfl rfl).1]
  simp only
  have c2 := (calcNext_of pj v hok (Iter.mk i.lim (v.pos + 1) ((v.fin : Int) - ((v.pos + 1 : Nat) : Int)) (payloadOf w) (tagOf w)) w hw rfl rfl rfl).2
  rw [c2]
  have hin := intoNext_le pj v hok
  have e1 : ¬ ((v.fin : Int) - ((v.pos + 1 : Nat) : Int) < 0) := by omega
  have e2 : v.pos + 1 + ((v.fin : Int) - ((v.pos + 1 : Nat) : Int)).toNat = v.fin := by omega
  have e3 : ¬ (v.fin > i.lim) := by omega
  have e4 : ¬ (intoNext v < 0) := by omega
  simp only [e1, e2, e3, e4, if_false]
  unfold skipIter elemIter
  rw [headWord_eq hw, ht]

/-- the length word of a string entry is the length of the string -/
theorem stringByteAt_size (pj : PJ) (o l : UInt64) (a : Bytes) (h : stringByteAt pj o l = .ok a) : a.size = l.toNat := by
  unfold stringByteAt at h
  have key : ∀ (buf : Array UInt8) (x : UInt64), ¬ ((x + l).toNat > buf.size ∨ x + l < x) →
      (slice buf x.toNat (x + l).toNat).size = l.toNat := by
    intro buf x hc
    have h1 : (x + l).toNat ≤ buf.size := by omega
    have h2 : ¬ (x + l < x) := fun hh => hc (Or.inr hh)
    rw [UInt64.lt_iff_toNat_lt] at h2
    have h3 := UInt64.toNat_add x l
    have hx := UInt64.toNat_lt x
    have hl := UInt64.toNat_lt l
    unfold slice
    rw [Array.size_extract]
    omega
  split at h
  · dsimp only at h
    split at h
    · cases h
    · next hc => injection h with h; rw [← h]; exact key _ _ hc
  · dsimp only at h
    split at h
    · cases h
    · next hc => injection h with h; rw [← h]; exact key _ _ hc

theorem strAt_len {pj : PJ} {k : List UInt8} {kw len : UInt64}
    (h : stringByteAt pj (payloadOf kw) len = .ok k.toArray) : len.toNat = k.length := by
  have := stringByteAt_size pj _ _ _ h
  simpa using this.symm

/-- first `Advance` of a member iteration: onto the key -/
theorem key_step (pj : PJ) (i : Iter) (lo hi pk : Nat) (k : List UInt8) (v : LVal) (ms : LMems)
    (h : OkMems pj (.cons pk k v ms) lo hi) (hhi : hi < i.lim) (ha : 0 ≤ i.addNext)
    (hlo : (i.off : Int) + i.addNext = lo) :
    ∃ kw len, word pj pk = some kw ∧ word pj (pk + 1) = some len ∧ tagOf kw = tagString ∧
      stringByteAt pj (payloadOf kw) len = .ok k.toArray ∧ pk + 2 < i.lim ∧
      Iter.advance pj i = .ok ({ lim := i.lim, off := pk + 1, addNext := 1, cur := payloadOf kw, t := tagOf kw }, typeString) := by
  simp only [OkMems] at h
  obtain ⟨g1, hs, g2, hok, hfin, rest⟩ := h
  have hpf := pos_lt_fin v pj hok
  have hg2 := g2.1
  have hadv := advance_node' pj i lo (.str k pk) g1 hs (by show pk + 2 ≤ i.lim; omega) ha hlo
  obtain ⟨kw, len, hkw, hlen, hkt, hstr⟩ := hs
  refine ⟨kw, len, hkw, hlen, hkt, hstr, by omega, ?_⟩
  rw [hadv]
  have hh : headWord pj (.str k pk) = kw := headWord_eq hkw
  unfold skipIter
  rw [hh]
  simp only [tagOfL, tt_string, LVal.pos, LVal.fin]
  congr 2
  exact iter_ext rfl rfl (by simp only; omega) rfl rfl

/-- second `Advance` of a member iteration: from the key onto the value -/
theorem val_step (pj : PJ) (lim pk : Nat) (kw : UInt64) (v : LVal) (g : Gap pj (pk + 2) v.pos) (hok : Ok pj v)
    (hfin : v.fin ≤ lim) :
    Iter.advance pj { lim := lim, off := pk + 1, addNext := 1, cur := payloadOf kw, t := tagOf kw } =
      .ok (skipIter pj lim v, tagToType (tagOfL v)) :=
  advance_node' pj _ (pk + 2) v g hok hfin (by show (0 : Int) ≤ 1; omega) (by show ((pk + 1 : Nat) : Int) + 1 = _; omega)

/-- … or `AdvanceIter` from the key onto the value -/
theorem val_stepIter (pj : PJ) (lim pk : Nat) (kw : UInt64) (d : Iter) (v : LVal) (g : Gap pj (pk + 2) v.pos) (hok : Ok pj v)
    (hfin : v.fin ≤ lim) :
    Iter.advanceIter pj { lim := lim, off := pk + 1, addNext := 1, cur := payloadOf kw, t := tagOf kw } d =
      .ok (skipIter pj lim v, elemIter pj v, tagToType (tagOfL v)) :=
  advanceIter_node pj _ d (pk + 2) v g hok hfin (by show (0 : Int) ≤ 1; omega) (by show ((pk + 1 : Nat) : Int) + 1 = _; omega)

/-- `Advance` after the last member: `TypeNone` -/
theorem end_step (pj : PJ) (i : Iter) (lo hi : Nat) (g : Gap pj lo hi) (hhi : hi < i.lim)
    (hend : ∃ c, word pj hi = some c ∧ tagOf c = tagObjectEnd) (ha : 0 ≤ i.addNext)
    (hlo : (i.off : Int) + i.addNext = lo) : ∃ i', Iter.advance pj i = .ok (i', typeNone) := by
  obtain ⟨c, hc, hct⟩ := hend
  exact advance_end pj i lo hi g (by omega) (Or.inr ⟨c, hc, by rw [hct]; decide, by rw [hct]; exact tt_objectEnd⟩) ha hlo

/-- the state `Advance` is left in after a member: ready for the rest of the members -/
theorem skipIter_next (pj : PJ) (lim : Nat) (v : LVal) (hok : Ok pj v) :
    0 ≤ (skipIter pj lim v).addNext ∧ (((skipIter pj lim v).off : Nat) : Int) + (skipIter pj lim v).addNext = v.fin ∧
    (skipIter pj lim v).lim = lim := by
  have hpf := pos_lt_fin v pj hok
  refine ⟨?_, ?_, rfl⟩
  · show (0 : Int) ≤ (v.fin : Int) - ((v.pos + 1 : Nat) : Int); omega
  · show ((v.pos + 1 : Nat) : Int) + ((v.fin : Int) - ((v.pos + 1 : Nat) : Int)) = v.fin; omega

/-! ## 1. FindKey -/

theorem findKey_mems (pj : PJ) (key : Bytes) (hkey : key.size < 2 ^ 63) : ∀ (fuel : Nat) (ms : LMems) (tmp : Iter) (lo hi : Nat),
    OkMems pj ms lo hi → hi < tmp.lim → (∃ c, word pj hi = some c ∧ tagOf c = tagObjectEnd) →
    0 ≤ tmp.addNext → (tmp.off : Int) + tmp.addNext = lo → memCount ms < fuel →
    View.findKey pj key tmp fuel =
      .ok ((firstWithKey key ms).map fun r => (tagToType (tagOfL r.2), elemIter pj r.2)) := by
  intro fuel
  induction fuel with
  | zero => intro _ _ _ _ _ _ _ _ _ h; omega
  | succ n ih =>
    intro ms tmp lo hi hms hhi hend ha hlo hf
    rw [View.findKey]
    cases ms with
    | nil =>
      simp only [OkMems] at hms
      obtain ⟨i', he⟩ := end_step pj tmp lo hi hms hhi hend ha hlo
      rw [he]
      simp only [Res.bind_ok, firstWithKey, Option.map_none]
      rw [if_pos (Or.inl (by decide))]
    | cons pk k v ms =>
      obtain ⟨kw, len, hkw, hlen, hkt, hstr, hlt, hadv⟩ := key_step pj tmp lo hi pk k v ms hms hhi ha hlo
      simp only [OkMems] at hms
      obtain ⟨g1, hs, g2, hok, hfin, rest⟩ := hms
      rw [hadv]
      simp only [Res.bind_ok]
      have hpf := pos_lt_fin v pj hok
      have hg2 := g2.1
      have hc1 : ¬ ((typeString != typeString) = true ∨ pk + 1 + 1 ≥ tmp.lim) := by
        rintro (h | h)
        · exact absurd h (by decide)
        · omega
      rw [if_neg hc1, rd_word hlen]
      simp only [Res.bind_ok]
      have hklen := strAt_len hstr
      have hval := val_step pj tmp.lim pk kw v g2 hok (by omega)
      obtain ⟨n1, n2, n3⟩ := skipIter_next pj tmp.lim v hok
      have hrec := ih ms (skipIter pj tmp.lim v) v.fin hi rest (by rw [n3]; exact hhi) hend n1 n2
        (by simp only [memCount] at hf; omega)
      by_cases hlen' : toInt64 len = (key.size : Int)
      · have hb : (toInt64 len != (key.size : Int)) = false := by simp [hlen']
        simp only [hb, Bool.false_eq_true, if_false, hstr]
        by_cases hname : k.toArray = key
        · have hb2 : (k.toArray != key) = false := by simp [hname]
          simp only [hb2, Bool.false_eq_true, if_false]
          rw [val_stepIter pj tmp.lim pk kw default v g2 hok (by omega)]
          simp only [firstWithKey, hname, if_true, Option.map_some]
        · have hb2 : (k.toArray != key) = true := by simp [hname]
          simp only [hb2, if_true, hval, Res.bind_ok, hrec, firstWithKey, hname, if_false]
      · have hb : (toInt64 len != (key.size : Int)) = true := by simp [hlen']
        have hname : ¬ k.toArray = key := by
          intro hh
          apply hlen'
          have : key.size = k.length := by rw [← hh]; simp
          unfold toInt64
          split <;> omega
        simp only [hb, if_true, hval, Res.bind_ok, tagToType_tagOfL_ne_none v, Bool.false_eq_true, if_false, hrec,
          firstWithKey, hname]

/-- the value found by `firstWithKey` is a member value: it is `Ok`, and its key is the given one -/
theorem firstWithKey_ok (pj : PJ) (key : Bytes) : ∀ (ms : LMems) (lo hi : Nat), OkMems pj ms lo hi →
    ∀ pk v, firstWithKey key ms = some (pk, v) → Ok pj v
  | .nil, lo, hi, h, pk, v, hf => by simp only [firstWithKey] at hf; cases hf
  | .cons pk' k v' ms, lo, hi, h, pk, v, hf => by
    simp only [OkMems] at h
    obtain ⟨g1, hs, g2, hok, hfin, rest⟩ := h
    simp only [firstWithKey] at hf
    split at hf
    · injection hf with hf; injection hf with h1 h2; subst h2; exact hok
    · exact firstWithKey_ok pj key ms _ _ rest pk v hf

/-- every member occupies at least three words -/
theorem memCount_le (pj : PJ) : ∀ (ms : LMems) (lo hi : Nat), OkMems pj ms lo hi → lo + 3 * memCount ms ≤ hi
  | .nil, lo, hi, h => by simp only [OkMems] at h; have := h.1; simp only [memCount]; omega
  | .cons pk k v ms, lo, hi, h => by
    simp only [OkMems] at h
    obtain ⟨g1, hs, g2, hok, hfin, rest⟩ := h
    have := memCount_le pj ms _ _ rest
    have := g1.1
    have := g2.1
    have := pos_lt_fin v pj hok
    simp only [memCount]; omega

/-- the members of an `Ok` object node, as the hypotheses of the member-list lemmas -/
theorem obj_parts {pj : PJ} {p e : Nat} {ms : LMems} (hok : Ok pj (.obj p e ms)) :
    OkMems pj ms (p + 1) (e - 1) ∧ e - 1 < e ∧ (∃ c, word pj (e - 1) = some c ∧ tagOf c = tagObjectEnd) ∧
    e ≤ pj.tape.size ∧ memCount ms < e - p := by
  simp only [Ok] at hok
  obtain ⟨hpe, _, ⟨c, hc, hct, _⟩, hms⟩ := hok
  have := word_lt hc
  have := memCount_le pj ms _ _ hms
  exact ⟨hms, by omega, ⟨c, hc, hct⟩, by omega, by omega⟩

theorem memCount_lt_fuelOf {pj : PJ} {p e : Nat} {ms : LMems} (hok : Ok pj (.obj p e ms)) : memCount ms < fuelOf pj := by
  obtain ⟨_, _, _, h1, h2⟩ := obj_parts hok
  unfold fuelOf; omega

/-- **1. `FindKey`** on the `Object` view of an object node (NOP gaps allowed anywhere, also between a key and
    its value): `nil` when no member has the key; otherwise the type of, and the restricted cursor
    `elemIter` on, the value of the FIRST member (in tape order) whose key bytes equal `key` — later members
    with the same key are never reached.  Any fuel above the number of members suffices.
    `key.size < 2^63` always holds for a Go string; it is needed because the model (as the Go code) compares
    `int(length)` with `len(key)`. -/
theorem findKey_spec (pj : PJ) (p e : Nat) (ms : LMems) (key : Bytes) (hkey : key.size < 2 ^ 63) (fuel : Nat)
    (hok : Ok pj (.obj p e ms)) (hf : memCount ms < fuel) :
    View.findKey pj key (View.iter { lim := e, off := p + 1 }) fuel =
      .ok ((firstWithKey key ms).map fun r => (tagToType (tagOfL r.2), elemIter pj r.2)) := by
  obtain ⟨hms, hlt, hend, _, _⟩ := obj_parts hok
  exact findKey_mems pj key hkey fuel ms _ (p + 1) (e - 1) hms hlt hend (Int.le_refl _)
    (by show ((p + 1 : Nat) : Int) + 0 = _; omega) hf

/-- … with the fuel the API wrapper uses -/
theorem findKey_spec_fuelOf (pj : PJ) (p e : Nat) (ms : LMems) (key : Bytes) (hkey : key.size < 2 ^ 63)
    (hok : Ok pj (.obj p e ms)) :
    View.findKey pj key (View.iter { lim := e, off := p + 1 }) (fuelOf pj) =
      .ok ((firstWithKey key ms).map fun r => (tagToType (tagOfL r.2), elemIter pj r.2)) :=
  findKey_spec pj p e ms key hkey _ hok (memCount_lt_fuelOf hok)

/-- absent key: `nil` -/
theorem findKey_none (pj : PJ) (p e : Nat) (ms : LMems) (key : Bytes) (hkey : key.size < 2 ^ 63)
    (hok : Ok pj (.obj p e ms)) (h : firstWithKey key ms = none) :
    View.findKey pj key (View.iter { lim := e, off := p + 1 }) (fuelOf pj) = .ok none := by
  rw [findKey_spec_fuelOf pj p e ms key hkey hok, h]; rfl

/-- present key: the returned iterator stands on the value `v` of the first matching member (`OnNode`), is
    restricted to the words of `v`, carries `v`'s tag, and the returned type is `v`'s type -/
theorem findKey_some (pj : PJ) (p e : Nat) (ms : LMems) (key : Bytes) (hkey : key.size < 2 ^ 63)
    (hok : Ok pj (.obj p e ms)) (pk : Nat) (v : LVal) (h : firstWithKey key ms = some (pk, v)) :
    ∃ it, View.findKey pj key (View.iter { lim := e, off := p + 1 }) (fuelOf pj) = .ok (some (tagToType (tagOfL v), it)) ∧
      OnNode pj v it ∧ it.t = tagOfL v ∧ it.lim = v.fin ∧ it.addNext = intoNext v := by
  refine ⟨elemIter pj v, by rw [findKey_spec_fuelOf pj p e ms key hkey hok, h]; rfl, ?_⟩
  have hv : Ok pj v := by
    obtain ⟨hms, _⟩ := obj_parts hok
    exact firstWithKey_ok pj key ms _ _ hms pk v h
  obtain ⟨h1, h2⟩ := elemIter_onNode pj v hv
  exact ⟨h1, h2, rfl, rfl⟩

/-! ## 2. ForEach -/

/-- `ForEach` stops after `len(onlyKeys)` callbacks (when a filter is given): of the matching members only the
    first `len(onlyKeys) - n` are called back, `n` being the number of callbacks already made -/
def cbTake {α : Type} (ks : List Bytes) (n : Nat) (l : List α) : List α :=
  if ks = [] then l else l.take (ks.length - n)

theorem cbTake_nil {α : Type} (ks : List Bytes) (n : Nat) : cbTake ks n ([] : List α) = [] := by
  unfold cbTake; split <;> simp

theorem cbTake_cons_last {α : Type} (ks : List Bytes) (n : Nat) (x : α) (l : List α) (h : n + 1 = ks.length) :
    cbTake ks n (x :: l) = [x] := by
  unfold cbTake
  have : ks ≠ [] := by intro hh; rw [hh] at h; simp at h
  have h1 : ks.length - n = 1 := by omega
  simp [this, h1]

theorem cbTake_cons_more {α : Type} (ks : List Bytes) (n : Nat) (x : α) (l : List α) (h : ks = [] ∨ n + 1 < ks.length) :
    cbTake ks n (x :: l) = x :: cbTake ks (n + 1) l := by
  unfold cbTake
  by_cases hk : ks = []
  · simp [hk]
  · have h1 : ks.length - n = (ks.length - (n + 1)) + 1 := by rcases h with h | h; exact absurd h hk; omega
    simp [hk, h1, List.take_succ_cons]

theorem forEach_mems (pj : PJ) (ks : List Bytes) : ∀ (fuel : Nat) (ms : LMems) (tmp : Iter) (n : Nat)
    (acc : Array (Bytes × Iter)) (lo hi : Nat),
    OkMems pj ms lo hi → hi < tmp.lim → (∃ c, word pj hi = some c ∧ tagOf c = tagObjectEnd) →
    0 ≤ tmp.addNext → (tmp.off : Int) + tmp.addNext = lo → memCount ms < fuel → (ks = [] ∨ n < ks.length) →
    View.forEach pj ks tmp n acc fuel =
      .ok (acc ++ ((cbTake ks n (membersWithKeys ks ms)).map fun kv => (kv.1, skipIter pj tmp.lim kv.2)).toArray) := by
  intro fuel
  induction fuel with
  | zero => intro _ _ _ _ _ _ _ _ _ _ _ h; omega
  | succ f ih =>
    intro ms tmp n acc lo hi hms hhi hend ha hlo hf hn
    rw [View.forEach]
    cases ms with
    | nil =>
      simp only [OkMems] at hms
      obtain ⟨i', he⟩ := end_step pj tmp lo hi hms hhi hend ha hlo
      rw [he]
      simp only [Res.bind_ok, membersWithKeys, cbTake_nil, List.map_nil]
      rw [if_pos (Or.inl (by decide))]
      simp
    | cons pk k v ms =>
      obtain ⟨kw, len, hkw, hlen, hkt, hstr, hlt, hadv⟩ := key_step pj tmp lo hi pk k v ms hms hhi ha hlo
      simp only [OkMems] at hms
      obtain ⟨g1, hs, g2, hok, hfin, rest⟩ := hms
      rw [hadv]
      simp only [Res.bind_ok]
      have hpf := pos_lt_fin v pj hok
      have hg2 := g2.1
      have hc1 : ¬ ((typeString != typeString) = true ∨ pk + 1 + 1 ≥ tmp.lim) := by
        rintro (h | h)
        · exact absurd h (by decide)
        · omega
      rw [if_neg hc1, rd_word hlen]
      simp only [Res.bind_ok, hstr]
      have hval := val_step pj tmp.lim pk kw v g2 hok (by omega)
      obtain ⟨n1, n2, n3⟩ := skipIter_next pj tmp.lim v hok
      have hf' : memCount ms < f := by simp only [memCount] at hf; omega
      rw [hval]
      simp only [Res.bind_ok, tagToType_tagOfL_ne_none v, Bool.false_eq_true, if_false]
      by_cases hm : ks = [] ∨ k.toArray ∈ ks
      · have hc2 : ¬ (ks.length > 0 ∧ (!ks.contains k.toArray) = true) := by
          rintro ⟨h1, h2⟩
          rcases hm with hm | hm
          · rw [hm] at h1; simp at h1
          · simp [hm] at h2
        rw [if_neg hc2]
        simp only [membersWithKeys, hm, if_true]
        by_cases hlast : n + 1 = ks.length
        · have hb : (n + 1 == ks.length) = true := by simp [hlast]
          rw [cbTake_cons_last ks n _ _ hlast]
          simp only [hb, if_true, List.map_cons, List.map_nil]
          rw [Array.push_eq_append]
        · have hb : (n + 1 == ks.length) = false := by simp [hlast]
          have hn' : ks = [] ∨ n + 1 < ks.length := by rcases hn with h | h; exact Or.inl h; exact Or.inr (by omega)
          rw [cbTake_cons_more ks n _ _ hn']
          simp only [hb, Bool.false_eq_true, if_false, List.map_cons]
          rw [ih ms (skipIter pj tmp.lim v) (n + 1) _ v.fin hi rest (by rw [n3]; exact hhi) hend n1 n2 hf' hn', n3,
            Array.push_eq_append, Array.append_assoc]
          simp
      · have hc2 : ks.length > 0 ∧ (!ks.contains k.toArray) = true := by
          refine ⟨?_, ?_⟩
          · cases ks with
            | nil => exact absurd (Or.inl rfl) hm
            | cons _ _ => simp
          · have : ¬ k.toArray ∈ ks := fun h => hm (Or.inr h)
            simp [this]
        rw [if_pos hc2]
        simp only [membersWithKeys, hm, if_false]
        rw [ih ms (skipIter pj tmp.lim v) n acc v.fin hi rest (by rw [n3]; exact hhi) hend n1 n2 hf' hn, n3]

/-- the cursor handed to the callback for a member value `v` of an object whose closing word is at `e - 1`:
    it stands on `v` (its view is the whole object's view, `lim = e`, exactly as Go passes `tmp` by value) -/
def cbOf (pj : PJ) (e : Nat) (kv : Bytes × LVal) : Bytes × Iter := (kv.1, skipIter pj e kv.2)

/-- **2. `ForEach`** on the `Object` view of an object node (gaps allowed anywhere): the callbacks are made
    for the members whose key is in the filter (all members for an empty filter), in tape order, each with
    its own key bytes and a cursor standing on its own value — but the loop stops after
    `len(onlyKeys)` callbacks (`cbTake`).  See `forEach_exact` for when that truncation is invisible and
    `forEach_dup_discrepancy` for a tape on which it is not. -/
theorem forEach_spec (pj : PJ) (p e : Nat) (ms : LMems) (ks : List Bytes) (fuel : Nat)
    (hok : Ok pj (.obj p e ms)) (hf : memCount ms < fuel) :
    View.forEach pj ks (View.iter { lim := e, off := p + 1 }) 0 #[] fuel =
      .ok ((cbTake ks 0 (membersWithKeys ks ms)).map (cbOf pj e)).toArray := by
  obtain ⟨hms, hlt, hend, _, _⟩ := obj_parts hok
  have := forEach_mems pj ks fuel ms (View.iter { lim := e, off := p + 1 }) 0 #[] (p + 1) (e - 1) hms hlt hend (Int.le_refl _)
    (by show ((p + 1 : Nat) : Int) + 0 = _; omega) hf
    (by cases ks with
        | nil => exact Or.inl rfl
        | cons _ _ => exact Or.inr (by simp))
  rw [this]
  simp only [Array.empty_append]
  rfl

theorem forEach_spec_fuelOf (pj : PJ) (p e : Nat) (ms : LMems) (ks : List Bytes) (hok : Ok pj (.obj p e ms)) :
    View.forEach pj ks (View.iter { lim := e, off := p + 1 }) 0 #[] (fuelOf pj) =
      .ok ((cbTake ks 0 (membersWithKeys ks ms)).map (cbOf pj e)).toArray :=
  forEach_spec pj p e ms ks _ hok (memCount_lt_fuelOf hok)

/-- the keys of the members, in tape order -/
def memKeys : LMems → List Bytes
  | .nil => []
  | .cons _ k _ ms => k.toArray :: memKeys ms

theorem membersWithKeys_keys (ks : List Bytes) : ∀ ms : LMems,
    ((membersWithKeys ks ms).map Prod.fst).Sublist (memKeys ms) ∧
    (ks ≠ [] → ∀ x ∈ (membersWithKeys ks ms).map Prod.fst, x ∈ ks)
  | .nil => by simp [membersWithKeys, memKeys]
  | .cons pk k v ms => by
    obtain ⟨h1, h2⟩ := membersWithKeys_keys ks ms
    simp only [membersWithKeys, memKeys]
    split
    · next hm =>
      refine ⟨by simpa using h1, fun hne x hx => ?_⟩
      simp only [List.map_cons, List.mem_cons] at hx
      rcases hx with hx | hx
      · rcases hm with hm | hm
        · exact absurd hm hne
        · rw [hx]; exact hm
      · exact h2 hne x hx
    · exact ⟨h1.trans (List.sublist_cons_self _ _), h2⟩

/-- with pairwise distinct member keys (or no filter) the early stop never cuts anything off -/
theorem cbTake_id (ks : List Bytes) (ms : LMems) (h : ks = [] ∨ (memKeys ms).Nodup) :
    cbTake ks 0 (membersWithKeys ks ms) = membersWithKeys ks ms := by
  unfold cbTake
  split
  · rfl
  · next hne =>
    rcases h with h | h
    · exact absurd h hne
    · obtain ⟨h1, h2⟩ := membersWithKeys_keys ks ms
      have hl := List.Nodup.length_le_of_subset (h.sublist h1) (fun x hx => h2 hne x hx)
      rw [List.length_map] at hl
      exact List.take_of_length_le (by omega)

/-- **2, exact form.**  With no filter, or when the member keys of the object are pairwise distinct,
    `ForEach` calls back EXACTLY the members whose key is in the filter, in order, each with its own key and
    a cursor on its own value. -/
theorem forEach_exact (pj : PJ) (p e : Nat) (ms : LMems) (ks : List Bytes) (hok : Ok pj (.obj p e ms))
    (h : ks = [] ∨ (memKeys ms).Nodup) :
    View.forEach pj ks (View.iter { lim := e, off := p + 1 }) 0 #[] (fuelOf pj) =
      .ok ((membersWithKeys ks ms).map (cbOf pj e)).toArray := by
  rw [forEach_spec_fuelOf pj p e ms ks hok, cbTake_id ks ms h]

/-- every value listed by `membersWithKeys` is a member value: `Ok`, inside the object -/
theorem membersWithKeys_ok (pj : PJ) (ks : List Bytes) : ∀ (ms : LMems) (lo hi : Nat), OkMems pj ms lo hi →
    ∀ kv ∈ membersWithKeys ks ms, Ok pj kv.2 ∧ kv.2.fin ≤ hi
  | .nil, lo, hi, h, kv, hkv => by simp [membersWithKeys] at hkv
  | .cons pk k v ms, lo, hi, h, kv, hkv => by
    simp only [OkMems] at h
    obtain ⟨g1, hs, g2, hok, hfin, rest⟩ := h
    simp only [membersWithKeys] at hkv
    split at hkv
    · simp only [List.mem_cons] at hkv
      rcases hkv with hkv | hkv
      · rw [hkv]; exact ⟨hok, hfin⟩
      · exact membersWithKeys_ok pj ks ms _ _ rest kv hkv
    · exact membersWithKeys_ok pj ks ms _ _ rest kv hkv

/-- each callback's cursor stands on its own value and carries the value's tag -/
theorem cbOf_onNode (pj : PJ) (p e : Nat) (ms : LMems) (ks : List Bytes) (hok : Ok pj (.obj p e ms))
    (kv : Bytes × LVal) (hkv : kv ∈ membersWithKeys ks ms) :
    (cbOf pj e kv).1 = kv.1 ∧ OnNode pj kv.2 (cbOf pj e kv).2 ∧ (cbOf pj e kv).2.t = tagOfL kv.2 ∧
      Iter.Valid pj (cbOf pj e kv).2 := by
  obtain ⟨hms, _, _, hsz, _⟩ := obj_parts hok
  obtain ⟨h1, h2⟩ := membersWithKeys_ok pj ks ms _ _ hms kv hkv
  obtain ⟨a, b⟩ := skipIter_onNode pj e kv.2 h1 (by omega)
  obtain ⟨n1, _, _⟩ := skipIter_next pj e kv.2 h1
  exact ⟨rfl, a, b, hsz, n1⟩

/-! ## 3. FindPath -/

/-- plain traversal along a key path: take the first member with the key; at the end of the path that
    member's value is the result; before the end the value must be an object, whose members are searched for
    the next key.  Errors are the model's: `pathNotFound` (Go: `ErrPathNotFound`) when no member has the key,
    `generic` (Go: a `fmt.Errorf`) when the path continues through a value that is not an object. -/
def pathSpec : Bytes → List Bytes → LMems → Res LVal
  | key, path, ms =>
    match firstWithKey key ms with
    | none => .error .pathNotFound
    | some (_, v) =>
      match path with
      | [] => .ok v
      | k :: rest =>
        match v with
        | .obj _ _ ms' => pathSpec k rest ms'
        | _ => .error .generic

/-- what `FindPath`/`FindKey` return for a value: its type and the restricted cursor on it -/
def elemOf (pj : PJ) (v : LVal) : UInt8 × Iter := (tagToType (tagOfL v), elemIter pj v)

def mapRes {α β : Type} (f : α → β) : Res α → Res β
  | .ok a => .ok (f a)
  | .error e => .error e
  | .panic => .panic
  | .diverge => .diverge

theorem pathSpec_congr (key : Bytes) (path : List Bytes) (ms ms' : LMems) (h : firstWithKey key ms = firstWithKey key ms') :
    pathSpec key path ms = pathSpec key path ms' := by
  cases path <;> (unfold pathSpec; rw [h])

theorem ty_obj_ne (v : LVal) (h : ∀ p e m, v ≠ .obj p e m) : (tagToType (tagOfL v) != typeObject) = true := by
  cases v with
  | null _ => simp only [tagOfL, tt_null]; decide
  | bool b _ => cases b <;> simp only [tagOfL, if_true, Bool.false_eq_true, if_false, tt_true, tt_false] <;> decide
  | int _ _ => simp only [tagOfL, tt_int]; decide
  | uint _ _ => simp only [tagOfL, tt_uint]; decide
  | float _ _ _ => simp only [tagOfL, tt_float]; decide
  | str _ _ => simp only [tagOfL, tt_string]; decide
  | arr _ _ _ => simp only [tagOfL, tt_array]; decide
  | obj p e m => exact absurd rfl (h p e m)

theorem findPath_mems (pj : PJ) : ∀ (fuel : Nat) (key : Bytes) (path : List Bytes) (ms : LMems) (tmp : Iter) (lo hi : Nat),
    (∀ k ∈ key :: path, k.size < 2 ^ 63) →
    OkMems pj ms lo hi → hi < tmp.lim → (∃ c, word pj hi = some c ∧ tagOf c = tagObjectEnd) →
    0 ≤ tmp.addNext → (tmp.off : Int) + tmp.addNext = lo → tmp.lim - lo < fuel →
    View.findPath pj key path tmp fuel = mapRes (elemOf pj) (pathSpec key path ms) := by
  intro fuel
  induction fuel with
  | zero => intro _ _ _ _ _ _ _ _ _ _ _ _ h; omega
  | succ f ih =>
    intro key path ms tmp lo hi hkeys hms hhi hend ha hlo hf
    have hkey : key.size < 2 ^ 63 := hkeys key (List.mem_cons_self ..)
    rw [View.findPath]
    cases ms with
    | nil =>
      simp only [OkMems] at hms
      obtain ⟨i', he⟩ := end_step pj tmp lo hi hms hhi hend ha hlo
      rw [he]
      simp only [Res.bind_ok]
      rw [if_pos (Or.inl (by decide))]
      unfold pathSpec
      simp only [firstWithKey, mapRes]
    | cons pk k v ms =>
      obtain ⟨kw, len, hkw, hlen, hkt, hstr, hlt, hadv⟩ := key_step pj tmp lo hi pk k v ms hms hhi ha hlo
      simp only [OkMems] at hms
      obtain ⟨g1, hs, g2, hok, hfin, rest⟩ := hms
      rw [hadv]
      simp only [Res.bind_ok]
      have hpf := pos_lt_fin v pj hok
      have hg1 := g1.1
      have hg2 := g2.1
      have hc1 : ¬ ((typeString != typeString) = true ∨ pk + 1 + 1 ≥ tmp.lim) := by
        rintro (h | h)
        · exact absurd h (by decide)
        · omega
      rw [if_neg hc1, rd_word hlen]
      simp only [Res.bind_ok]
      have hklen := strAt_len hstr
      have hval := val_step pj tmp.lim pk kw v g2 hok (by omega)
      obtain ⟨n1, n2, n3⟩ := skipIter_next pj tmp.lim v hok
      have hrec := ih key path ms (skipIter pj tmp.lim v) v.fin hi hkeys rest (by rw [n3]; exact hhi) hend n1 n2
        (by rw [n3]; omega)
      have hskip : ¬ k.toArray = key → pathSpec key path (.cons pk k v ms) = pathSpec key path ms := fun hne =>
        pathSpec_congr key path _ _ (by simp only [firstWithKey, hne, if_false])
      by_cases hlen' : toInt64 len = (key.size : Int)
      · have hb : (toInt64 len != (key.size : Int)) = false := by simp [hlen']
        simp only [hb, Bool.false_eq_true, if_false, hstr, Res.bind_ok]
        by_cases hname : k.toArray = key
        · have hb2 : (k.toArray != key) = false := by simp [hname]
          simp only [hb2, Bool.false_eq_true, if_false]
          have hfirst : firstWithKey key (.cons pk k v ms) = some (pk, v) := by simp only [firstWithKey, hname, if_true]
          cases path with
          | nil =>
            simp only
            rw [val_stepIter pj tmp.lim pk kw default v g2 hok (by omega)]
            unfold pathSpec
            simp only [Res.bind_ok, hfirst, mapRes, elemOf]
          | cons k2 rest2 =>
            simp only
            rw [val_stepIter pj tmp.lim pk kw _ v g2 hok (by omega)]
            simp only [Res.bind_ok, tagToType_tagOfL_ne_none v, Bool.false_eq_true, if_false]
            by_cases hobj : ∃ p e m, v = .obj p e m
            · obtain ⟨p', e', ms', rfl⟩ := hobj
              have hb3 : (tagToType (tagOfL (.obj p' e' ms')) != typeObject) = false := by
                simp only [tagOfL, tt_object]; decide
              simp only [hb3, Bool.false_eq_true, if_false]
              obtain ⟨hms', hlt', hend', _, _⟩ := obj_parts hok
              simp only [LVal.pos, LVal.fin] at hpf hg2 hfin
              rw [ih k2 rest2 ms' (elemIter pj (.obj p' e' ms')) (p' + 1) (e' - 1)
                (fun x hx => hkeys x (List.mem_cons_of_mem _ hx)) hms' hlt' hend' (Int.le_refl _)
                (by show ((p' + 1 : Nat) : Int) + 0 = _; omega) (by show e' - (p' + 1) < f; omega)]
              conv => rhs; unfold pathSpec
              simp only [hfirst]
            · have hno : ∀ p e m, v ≠ .obj p e m := fun p e m h => hobj ⟨p, e, m, h⟩
              simp only [ty_obj_ne v hno, if_true]
              unfold pathSpec
              simp only [hfirst]
              cases v with
              | obj p e m => exact absurd rfl (hno p e m)
              | _ => rfl
        · have hb2 : (k.toArray != key) = true := by simp [hname]
          simp only [hb2, if_true, hval, Res.bind_ok, hrec, hskip hname]
      · have hb : (toInt64 len != (key.size : Int)) = true := by simp [hlen']
        have hname : ¬ k.toArray = key := by
          intro hh
          apply hlen'
          have : key.size = k.length := by rw [← hh]; simp
          unfold toInt64
          split <;> omega
        simp only [hb, if_true, hval, Res.bind_ok, tagToType_tagOfL_ne_none v, Bool.false_eq_true, if_false, hrec,
          hskip hname]

/-! ### `pathSpec`, one step at a time -/

theorem pathSpec_none (key : Bytes) (path : List Bytes) (ms : LMems) (h : firstWithKey key ms = none) :
    pathSpec key path ms = .error .pathNotFound := by
  unfold pathSpec; rw [h]

theorem pathSpec_last (key : Bytes) (ms : LMems) (pk : Nat) (v : LVal) (h : firstWithKey key ms = some (pk, v)) :
    pathSpec key [] ms = .ok v := by
  unfold pathSpec; rw [h]

theorem pathSpec_obj (key k : Bytes) (rest : List Bytes) (ms : LMems) (pk p e : Nat) (ms' : LMems)
    (h : firstWithKey key ms = some (pk, .obj p e ms')) :
    pathSpec key (k :: rest) ms = pathSpec k rest ms' := by
  conv => lhs; unfold pathSpec
  rw [h]

theorem pathSpec_nonobj (key k : Bytes) (rest : List Bytes) (ms : LMems) (pk : Nat) (v : LVal)
    (h : firstWithKey key ms = some (pk, v)) (hno : ∀ p e m, v ≠ .obj p e m) :
    pathSpec key (k :: rest) ms = .error .generic := by
  unfold pathSpec; rw [h]
  cases v with
  | obj p e m => exact absurd rfl (hno p e m)
  | _ => rfl

/-- **3. `FindPath`** (the loop, started on the `Object` view of an object node; gaps allowed anywhere): the
    result is `pathSpec` — descend by taking the FIRST member with each key; the value reached is returned with
    its type and the restricted cursor `elemIter` on it; `Err.pathNotFound` when some key of the path is absent
    from the object reached so far; `Err.generic` when a value reached before the end of the path is not an
    object.  Fuel: more than the number of words of the object. -/
theorem findPath_spec (pj : PJ) (p e : Nat) (ms : LMems) (key : Bytes) (path : List Bytes)
    (hkeys : ∀ k ∈ key :: path, k.size < 2 ^ 63) (fuel : Nat) (hok : Ok pj (.obj p e ms)) (hf : e - (p + 1) < fuel) :
    View.findPath pj key path (View.iter { lim := e, off := p + 1 }) fuel = mapRes (elemOf pj) (pathSpec key path ms) := by
  obtain ⟨hms, hlt, hend, _, _⟩ := obj_parts hok
  exact findPath_mems pj fuel key path ms _ (p + 1) (e - 1) hkeys hms hlt hend (Int.le_refl _)
    (by show ((p + 1 : Nat) : Int) + 0 = _; omega) hf

/-- `o.FindPath(dst, path...)` as the API wrapper runs it (fuel `fuelOf pj`) -/
theorem findPathTop_spec (pj : PJ) (p e : Nat) (ms : LMems) (key : Bytes) (rest : List Bytes)
    (hkeys : ∀ k ∈ key :: rest, k.size < 2 ^ 63) (hok : Ok pj (.obj p e ms)) :
    View.findPathTop pj { lim := e, off := p + 1 } (key :: rest) = mapRes (elemOf pj) (pathSpec key rest ms) := by
  obtain ⟨_, _, _, hsz, _⟩ := obj_parts hok
  exact findPath_spec pj p e ms key rest hkeys _ hok (by unfold fuelOf; omega)

/-- the empty path is `ErrPathNotFound` -/
theorem findPathTop_nil (pj : PJ) (o : View) : View.findPathTop pj o [] = .error .pathNotFound := rfl

/-- `Iter.Object()` on a cursor standing on an object node creates the view used above -/
theorem object_onNode (pj : PJ) (p e : Nat) (ms : LMems) (i : Iter) (hok : Ok pj (.obj p e ms))
    (hon : OnNode pj (.obj p e ms) i) : i.object = .ok { lim := e, off := p + 1 } ∧ i.t = tagObjectStart := by
  obtain ⟨hoff, ⟨w, hw, hit, hic⟩, hfin, _⟩ := hon
  simp only [Ok, LVal.pos, LVal.fin] at hok hw hfin hoff
  obtain ⟨hpe, ⟨w', a, b, hpl⟩, _⟩ := hok
  cases word_inj hw a
  refine ⟨?_, by rw [hit, b]⟩
  unfold Iter.object
  rw [hit, b, hic, hpl, hoff]
  have h1 : ¬ e < p + 1 := by omega
  have h2 : ¬ i.lim < e := by omega
  simp only [bne_self_eq_false, Bool.false_eq_true, if_false, h1, h2]

/-- `i.FindElement(dst, path...)` on a cursor standing on an object node -/
theorem findElement_obj (pj : PJ) (p e : Nat) (ms : LMems) (i : Iter) (key : Bytes) (rest : List Bytes)
    (hkeys : ∀ k ∈ key :: rest, k.size < 2 ^ 63) (fuel : Nat) (hok : Ok pj (.obj p e ms))
    (hon : OnNode pj (.obj p e ms) i) :
    Iter.findElement pj (key :: rest) i (fuel + 1) = mapRes (elemOf pj) (pathSpec key rest ms) := by
  obtain ⟨ho, ht⟩ := object_onNode pj p e ms i hok hon
  rw [Iter.findElement]
  simp only [List.isEmpty_cons, Bool.false_eq_true, if_false, ht, beq_self_eq_true, if_true, ho, Res.bind_ok]
  exact findPathTop_spec pj p e ms key rest hkeys hok

/-- the value reached by `pathSpec` is a node of the document: `Ok`, so the returned cursor stands on it -/
theorem pathSpec_ok (pj : PJ) : ∀ (path : List Bytes) (key : Bytes) (ms : LMems) (lo hi : Nat), OkMems pj ms lo hi →
    ∀ v, pathSpec key path ms = .ok v → Ok pj v := by
  intro path
  induction path with
  | nil =>
    intro key ms lo hi hms v h
    unfold pathSpec at h
    split at h
    · cases h
    · next pk v' hf => injection h with h; subst h; exact firstWithKey_ok pj key ms lo hi hms pk _ hf
  | cons k rest ih =>
    intro key ms lo hi hms v h
    unfold pathSpec at h
    split at h
    · cases h
    · next pk v' hf =>
      have hv' := firstWithKey_ok pj key ms lo hi hms pk _ hf
      simp only at h
      split at h
      · next p' e' ms' =>
        obtain ⟨hms', _⟩ := obj_parts hv'
        exact ih k ms' _ _ hms' v h
      · cases h

/-- found: the returned cursor stands on the value reached (`OnNode`), restricted to its words -/
theorem findPath_found (pj : PJ) (p e : Nat) (ms : LMems) (key : Bytes) (path : List Bytes)
    (hkeys : ∀ k ∈ key :: path, k.size < 2 ^ 63) (hok : Ok pj (.obj p e ms)) (v : LVal)
    (h : pathSpec key path ms = .ok v) :
    ∃ it, View.findPathTop pj { lim := e, off := p + 1 } (key :: path) = .ok (tagToType (tagOfL v), it) ∧
      OnNode pj v it ∧ it.t = tagOfL v ∧ it.lim = v.fin := by
  obtain ⟨hms, _⟩ := obj_parts hok
  have hv := pathSpec_ok pj path key ms _ _ hms v h
  obtain ⟨h1, h2⟩ := elemIter_onNode pj v hv
  refine ⟨elemIter pj v, ?_, h1, h2, rfl⟩
  rw [findPathTop_spec pj p e ms key path hkeys hok]
  simp only [h, mapRes, elemOf]

/-! ## 4. Parse (`NextElementBytes`-based): needs every member value to start right after its key -/

/-- no NOP between a key and its value, for the members of THIS object only (not hereditary) -/
def TightTop : LMems → Prop
  | .nil => True
  | .cons pk _ v ms => v.pos = pk + 2 ∧ TightTop ms

theorem tightTop_of_tightMs : ∀ ms : LMems, TightMs ms → TightTop ms
  | .nil, _ => trivial
  | .cons pk k v ms, h => by
    simp only [TightMs] at h
    exact ⟨h.1, tightTop_of_tightMs ms h.2.2⟩

/-- the `Element` recorded by `Parse` for a member -/
def elemRec (pj : PJ) (kv : Bytes × LVal) : View.Elem :=
  { name := kv.1, type := tagToType (tagOfL kv.2), iter := elemIter pj kv.2 }

theorem parse_mems (pj : PJ) : ∀ (fuel : Nat) (ms : LMems) (o : View) (acc : Array View.Elem) (hi : Nat),
    OkMems pj ms o.off hi → TightTop ms → hi < o.lim → (∃ c, word pj hi = some c ∧ tagOf c = tagObjectEnd) →
    o.lim - o.off + 1 < fuel →
    View.parse pj o acc fuel = .ok (acc ++ ((membersWithKeys [] ms).map (elemRec pj)).toArray) := by
  intro fuel
  induction fuel with
  | zero => intro _ _ _ _ _ _ _ _ h; omega
  | succ n ih =>
    intro ms o acc hi hms htight hlt ⟨c, hc, hct⟩ hf
    obtain ⟨lim, off⟩ := o
    simp only at hms hlt hf
    rw [View.parse]
    cases ms with
    | nil =>
      simp only [OkMems] at hms
      obtain ⟨f', hf1, hf2, he⟩ := nextElementBytes_gap_fuel pj lim hms (by omega) n (by have := hms.1; omega)
      rw [he]
      obtain ⟨f'', rfl⟩ : ∃ f'', f' = f'' + 1 := ⟨f' - 1, by omega⟩
      rw [View.nextElementBytes]
      have h1 : ¬ hi ≥ lim := by omega
      simp only [h1, if_false, rd_word hc, Res.bind_ok, hct, show (tagObjectEnd == tagString) = false from by decide,
        Bool.false_eq_true, beq_self_eq_true, if_true, membersWithKeys, List.map_nil]
      simp
    | cons pk k v ms =>
      simp only [OkMems] at hms
      obtain ⟨g1, hs, g2, hok, hfin, rest⟩ := hms
      simp only [TightTop] at htight
      obtain ⟨hp, htms⟩ := htight
      have hpf := pos_lt_fin v pj hok
      have hg1 := g1.1
      obtain ⟨f', hf1, hf2, he⟩ := nextElementBytes_gap_fuel pj lim g1 (by omega) n (by omega)
      rw [he]
      obtain ⟨f'', rfl⟩ : ∃ f'', f' = f'' + 1 := ⟨f' - 1, by omega⟩
      obtain ⟨w, hw, ht, hne⟩ := nextElementBytes_member pj lim pk k v f'' hs hp hok (by omega)
      rw [hne]
      simp only [Res.bind_ok, tagToType_tagOfL_ne_none v, Bool.false_eq_true, if_false]
      rw [ih ms { lim := lim, off := v.fin } _ hi rest htms hlt ⟨c, hc, hct⟩ (by simp only; omega)]
      simp only [membersWithKeys, true_or, if_true, List.map_cons]
      rw [Array.push_eq_append, Array.append_assoc]
      have : ({ name := k.toArray, type := tagToType (tagOfL v),
                iter := { lim := v.fin, off := v.pos + 1, addNext := intoNext v, cur := payloadOf w, t := tagOf w } } : View.Elem)
          = elemRec pj (k.toArray, v) := by
        unfold elemRec elemIter
        rw [headWord_eq hw]
      rw [this]
      simp

/-- **4. `Parse`** on the `Object` view of an object node whose member values start right after their keys
    (`TightTop`; gaps before/after members are fine): the `Elements` are ALL members in tape order, duplicates
    included, each with its key bytes, its value's type and the restricted cursor on its value — the same
    `(type, cursor)` that `FindKey` returns for the first member with that key. -/
theorem parse_spec (pj : PJ) (p e : Nat) (ms : LMems) (fuel : Nat) (hok : Ok pj (.obj p e ms)) (ht : TightTop ms)
    (hf : e - (p + 1) + 1 < fuel) :
    View.parse pj { lim := e, off := p + 1 } #[] fuel = .ok ((membersWithKeys [] ms).map (elemRec pj)).toArray := by
  obtain ⟨hms, hlt, hend, _, _⟩ := obj_parts hok
  rw [parse_mems pj fuel ms { lim := e, off := p + 1 } #[] (e - 1) hms ht hlt hend hf]
  simp

theorem parse_spec_fuelOf (pj : PJ) (p e : Nat) (ms : LMems) (hok : Ok pj (.obj p e ms)) (ht : TightTop ms) :
    View.parse pj { lim := e, off := p + 1 } #[] (fuelOf pj) = .ok ((membersWithKeys [] ms).map (elemRec pj)).toArray := by
  obtain ⟨_, _, _, hsz, _⟩ := obj_parts hok
  exact parse_spec pj p e ms _ hok ht (by unfold fuelOf; omega)

/-- the unfiltered member list is the member list of the ordered read-back (`WalkLayout.toOMems`) -/
theorem membersAll_toOMems : ∀ ms : LMems, (membersWithKeys [] ms).map (fun kv => (kv.1, toOVal kv.2)) = toOMems ms
  | .nil => rfl
  | .cons pk k v ms => by
    simp only [membersWithKeys, true_or, if_true, List.map_cons, toOMems, membersAll_toOMems ms]

/-- `FindKey` agrees with `Parse`: it returns the `(type, cursor)` of the first parsed element with that name -/
theorem firstWithKey_find (key : Bytes) : ∀ ms : LMems,
    (firstWithKey key ms).map (fun r => r.2) = ((membersWithKeys [] ms).find? (fun kv => kv.1 == key)).map (fun kv => kv.2)
  | .nil => rfl
  | .cons pk k v ms => by
    simp only [firstWithKey, membersWithKeys, true_or, if_true, List.find?_cons]
    by_cases h : k.toArray = key
    · simp [h]
    · have : (k.toArray == key) = false := by simp [h]
      simp only [h, if_false, this]
      exact firstWithKey_find key ms

/-! ## Non-vacuity and the duplicate-key behaviour on a concrete tape -/

/-- the object `{"a":1,"b":2,"a":3}` (14 words; keys in the message buffer `aba`) -/
def exPJ : PJ :=
  { tape := #[mkWord tagObjectStart 14,
              mkWord tagString 0, 1, mkWord tagInteger 0, 1,
              mkWord tagString 1, 1, mkWord tagInteger 0, 2,
              mkWord tagString 2, 1, mkWord tagInteger 0, 3,
              mkWord tagObjectEnd 0],
    strings := #[], msg := #[97, 98, 97] }

def exMems : LMems := .cons 1 [97] (.int 1 3) (.cons 5 [98] (.int 2 7) (.cons 9 [97] (.int 3 11) .nil))
def exDoc : LVal := .obj 0 14 exMems

theorem exDoc_ok : Ok exPJ exDoc := by
  simp only [exDoc, exMems, Ok, OkMems, StrAt, LVal.pos, LVal.fin]
  exact ⟨by omega, ⟨_, rfl, by decide, by decide⟩, ⟨_, rfl, by decide, by decide⟩, gap_refl _ _,
    ⟨_, _, rfl, rfl, by decide, rfl⟩, gap_refl _ _, ⟨_, rfl, by decide, rfl⟩, by omega, gap_refl _ _,
    ⟨_, _, rfl, rfl, by decide, rfl⟩, gap_refl _ _, ⟨_, rfl, by decide, rfl⟩, by omega, gap_refl _ _,
    ⟨_, _, rfl, rfl, by decide, rfl⟩, gap_refl _ _, ⟨_, rfl, by decide, rfl⟩, by omega, gap_refl _ _⟩

/-- duplicated key: `FindKey("a")` returns the FIRST member's value (the integer at tape position 3), by the
    theorem … -/
example : View.findKey exPJ #[97] (View.iter { lim := 14, off := 1 }) (fuelOf exPJ) =
    .ok (some (typeInt, elemIter exPJ (.int 1 3))) := by
  rw [findKey_spec_fuelOf exPJ 0 14 exMems #[97] (by decide) exDoc_ok]
  simp only [exMems, firstWithKey, if_true, Option.map_some, tagOfL, tt_int]

/-- … and by running the model (cursor one past position 3, restricted to `[.., 5)`) -/
example : (match View.findKey exPJ #[97] (View.iter { lim := 14, off := 1 }) (fuelOf exPJ) with
    | .ok (some (ty, it)) => ty == typeInt && it.off == 4 && it.lim == 5 && it.t == tagInteger
    | _ => false) = true := by decide +kernel

/-- absent key (same length as a present one, different byte): `nil` -/
example : View.findKey exPJ #[99] (View.iter { lim := 14, off := 1 }) (fuelOf exPJ) = .ok none := by
  rw [findKey_none exPJ 0 14 exMems #[99] (by decide) exDoc_ok rfl]

/-- empty key: `nil` here -/
example : View.findKey exPJ #[] (View.iter { lim := 14, off := 1 }) (fuelOf exPJ) = .ok none := by
  rw [findKey_none exPJ 0 14 exMems #[] (by decide) exDoc_ok rfl]

/-- unfiltered `ForEach`: all three members, in order -/
example : View.forEach exPJ [] (View.iter { lim := 14, off := 1 }) 0 #[] (fuelOf exPJ) =
    .ok #[(#[97], skipIter exPJ 14 (.int 1 3)), (#[98], skipIter exPJ 14 (.int 2 7)), (#[97], skipIter exPJ 14 (.int 3 11))] := by
  rw [forEach_exact exPJ 0 14 exMems [] exDoc_ok (Or.inl rfl)]
  rfl

/-- DISCREPANCY with "calls back exactly the members whose key is in the filter": with the filter `{"a"}` two
    members match (positions 3 and 11), but `ForEach` returns after `len(onlyKeys) = 1` callbacks — only the
    first `"a"` member is called back.  (Same in the Go code: `n++; if n == len(onlyKeys) { return nil }`.) -/
theorem forEach_dup_discrepancy :
    Ok exPJ exDoc ∧
    membersWithKeys [#[97]] exMems = [(#[97], .int 1 3), (#[97], .int 3 11)] ∧
    View.forEach exPJ [#[97]] (View.iter { lim := 14, off := 1 }) 0 #[] (fuelOf exPJ) =
      .ok #[(#[97], skipIter exPJ 14 (.int 1 3))] := by
  refine ⟨exDoc_ok, rfl, ?_⟩
  rw [forEach_spec_fuelOf exPJ 0 14 exMems [#[97]] exDoc_ok]
  have : membersWithKeys [#[97]] exMems = [(#[97], .int 1 3), (#[97], .int 3 11)] := rfl
  rw [this]
  rfl

/-- the same, observed by running the model: one callback, at the first `"a"` -/
example : (match View.forEach exPJ [#[97]] (View.iter { lim := 14, off := 1 }) 0 #[] (fuelOf exPJ) with
    | .ok cbs => cbs.size == 1 && (cbs.map fun c => c.2.off) == #[4]
    | _ => false) = true := by decide +kernel

/-- filter `{"a","b"}`: the third member (`"a":3`) is in the filter but is not called back -/
example : (match View.forEach exPJ [#[97], #[98]] (View.iter { lim := 14, off := 1 }) 0 #[] (fuelOf exPJ) with
    | .ok cbs => (cbs.map fun c => c.2.off) == #[4, 8]
    | _ => false) = true := by decide +kernel

/-- `Parse` lists all three members, duplicates included -/
example : View.parse exPJ { lim := 14, off := 1 } #[] (fuelOf exPJ) =
    .ok #[elemRec exPJ (#[97], .int 1 3), elemRec exPJ (#[98], .int 2 7), elemRec exPJ (#[97], .int 3 11)] := by
  rw [parse_spec_fuelOf exPJ 0 14 exMems exDoc_ok ⟨rfl, rfl, rfl, trivial⟩]
  rfl

/-- `FindPath`: a one-key path finds the first `"a"`; a longer path through it is the non-object error;
    a missing key is `ErrPathNotFound` -/
example : View.findPathTop exPJ { lim := 14, off := 1 } [#[97]] = .ok (typeInt, elemIter exPJ (.int 1 3)) ∧
    View.findPathTop exPJ { lim := 14, off := 1 } [#[97], #[98]] = .error .generic ∧
    View.findPathTop exPJ { lim := 14, off := 1 } [#[99], #[98]] = .error .pathNotFound ∧
    View.findPathTop exPJ { lim := 14, off := 1 } [] = .error .pathNotFound := by
  refine ⟨?_, ?_, ?_, rfl⟩
  · rw [findPathTop_spec exPJ 0 14 exMems _ _ (by decide) exDoc_ok]
    simp only [pathSpec_last #[97] exMems 1 (.int 1 3) rfl, mapRes, elemOf, tagOfL, tt_int]
  · rw [findPathTop_spec exPJ 0 14 exMems _ _ (by decide) exDoc_ok]
    simp only [pathSpec_nonobj #[97] #[98] [] exMems 1 (.int 1 3) rfl (fun _ _ _ h => by cases h), mapRes]
  · rw [findPathTop_spec exPJ 0 14 exMems _ _ (by decide) exDoc_ok]
    simp only [pathSpec_none #[99] [#[98]] exMems rfl, mapRes]

/-! ## 4 (continued). `Object.Map` / `Iter.Interface` -/

mutual
/-- the `interface{}` value of a located document: what `Interface()` builds.  Objects are Go maps: members are
    inserted in tape order, a later duplicate key REPLACES the earlier entry (`mapInsert`). -/
def toIVal : LVal → IVal
  | .null _ => .null
  | .bool b _ => .bool b
  | .int w _ => .int (toInt64 w)
  | .uint w _ => .uint w.toNat
  | .float b _ _ => .float b
  | .str s _ => .str s.toArray
  | .arr _ _ es => .arr (toIVals es)
  | .obj _ _ ms => .obj ((toIMems ms).foldl (fun m kv => mapInsert m kv.1 kv.2) [])
def toIVals : LVals → List IVal
  | .nil => []
  | .cons v vs => toIVal v :: toIVals vs
/-- members in tape order, duplicates included, before the map insertion -/
def toIMems : LMems → List (Bytes × IVal)
  | .nil => []
  | .cons _ k v ms => (k.toArray, toIVal v) :: toIMems ms
end

theorem interface_uint (pj : PJ) (i : Iter) (fuel : Nat) (h : tagToType i.t = typeUint) :
    Iter.interface pj i (fuel + 1) = (do let n ← i.uint pj; .ok (.uint n)) := by
  rw [Iter.interface]; simp only [h]; rfl
theorem interface_int (pj : PJ) (i : Iter) (fuel : Nat) (h : tagToType i.t = typeInt) :
    Iter.interface pj i (fuel + 1) = (do let n ← i.int pj; .ok (.int n)) := by
  rw [Iter.interface]; simp only [h]; rfl
theorem interface_float (pj : PJ) (i : Iter) (fuel : Nat) (h : tagToType i.t = typeFloat) :
    Iter.interface pj i (fuel + 1) = (do let b ← i.float pj; .ok (.float b)) := by
  rw [Iter.interface]; simp only [h]; rfl
theorem interface_null (pj : PJ) (i : Iter) (fuel : Nat) (h : tagToType i.t = typeNull) :
    Iter.interface pj i (fuel + 1) = .ok .null := by
  rw [Iter.interface]; simp only [h]; rfl
theorem interface_array (pj : PJ) (i : Iter) (fuel : Nat) (h : tagToType i.t = typeArray) :
    Iter.interface pj i (fuel + 1) = (do let a ← i.array; View.arrInterface pj a.iter [] fuel) := by
  rw [Iter.interface]; simp only [h]; rfl
theorem interface_string (pj : PJ) (i : Iter) (fuel : Nat) (h : tagToType i.t = typeString) :
    Iter.interface pj i (fuel + 1) = (do let s ← i.stringBytes pj; .ok (.str s)) := by
  rw [Iter.interface]; simp only [h]; rfl
theorem interface_object (pj : PJ) (i : Iter) (fuel : Nat) (h : tagToType i.t = typeObject) :
    Iter.interface pj i (fuel + 1) = (do let o ← i.object; let m ← View.objMap pj o [] fuel; .ok (.obj m)) := by
  rw [Iter.interface]; simp only [h]; rfl
theorem interface_bool (pj : PJ) (i : Iter) (fuel : Nat) (h : tagToType i.t = typeBool) :
    Iter.interface pj i (fuel + 1) = .ok (.bool (i.t == tagBoolTrue)) := by
  rw [Iter.interface]; simp only [h]; rfl

/-- `Interface()` / `Object.Map` / `Array.Interface` read exactly the located document (tight documents: no
    NOP between a key and its value, because `Map` walks with `NextElementBytes`); fuel bounds as in
    `WalkLayout.owalk_family` -/
theorem interface_family (pj : PJ) : ∀ fuel : Nat,
    (∀ (v : LVal) (i : Iter), Ok pj v → Tight v → OnNode pj v i → 2 * (i.lim - i.off) + 2 < fuel →
      Iter.interface pj i fuel = .ok (toIVal v)) ∧
    (∀ (ms : LMems) (o : View) (acc : List (Bytes × IVal)) (hi : Nat), OkMems pj ms o.off hi → TightMs ms →
      hi < o.lim → (∃ c, word pj hi = some c ∧ tagOf c = tagObjectEnd) → 2 * (o.lim - o.off) + 1 < fuel →
      View.objMap pj o acc fuel = .ok ((toIMems ms).foldl (fun m kv => mapInsert m kv.1 kv.2) acc)) ∧
    (∀ (vs : LVals) (i : Iter) (acc : List IVal) (lo hi : Nat), OkElems pj vs lo hi → TightVs vs →
      hi ≤ i.lim → (hi = i.lim ∨ ∃ c, word pj hi = some c ∧ (tagOf c == tagNop) = false ∧ tagToType (tagOf c) = typeNone) →
      0 ≤ i.addNext → (i.off : Int) + i.addNext = lo → 2 * (i.lim - i.off) + 1 < fuel →
      View.arrInterface pj i acc fuel = .ok (.arr (acc.reverse ++ toIVals vs))) := by
  intro fuel
  induction fuel with
  | zero => exact ⟨fun _ _ _ _ _ h => by omega, fun _ _ _ _ _ _ _ _ h => by omega, fun _ _ _ _ _ _ _ _ _ _ _ h => by omega⟩
  | succ n ih =>
    obtain ⟨ihV, ihO, ihA⟩ := ih
    refine ⟨?_, ?_, ?_⟩
    · -- values
      intro v i hok htight ⟨hoff, ⟨w, hw, hit, hic⟩, hfin, hadd⟩ hf
      cases v with
      | null p =>
        simp only [Ok, LVal.pos] at hok hw
        obtain ⟨w', a, b⟩ := hok
        cases word_inj hw a
        rw [interface_null pj i n (by rw [hit, b, tt_null])]
        rfl
      | bool bb p =>
        simp only [Ok, LVal.pos] at hok hw
        obtain ⟨w', a, b⟩ := hok
        cases word_inj hw a
        rw [interface_bool pj i n (by rw [hit, b]; cases bb <;> simp only [if_true, Bool.false_eq_true, if_false, tt_true, tt_false])]
        rw [hit, b]
        cases bb
        · simp only [Bool.false_eq_true, if_false, show (tagBoolFalse == tagBoolTrue) = false from by decide, toIVal]
        · simp only [if_true, beq_self_eq_true, toIVal]
      | int x p =>
        simp only [Ok, LVal.pos, LVal.fin] at hok hw hfin hoff
        obtain ⟨w', a, b, hx⟩ := hok
        cases word_inj hw a
        rw [interface_int pj i n (by rw [hit, b, tt_int])]
        unfold Iter.int
        rw [hit, b, valWord_of pj i (by omega) (by rw [hoff]; exact hx)]
        simp only [show (tagInteger == tagFloat) = false from by decide, beq_self_eq_true, if_true,
          Bool.false_eq_true, if_false, Res.bind_ok, toIVal]
      | uint x p =>
        simp only [Ok, LVal.pos, LVal.fin] at hok hw hfin hoff
        obtain ⟨w', a, b, hx⟩ := hok
        cases word_inj hw a
        rw [interface_uint pj i n (by rw [hit, b, tt_uint])]
        unfold Iter.uint
        rw [hit, b, valWord_of pj i (by omega) (by rw [hoff]; exact hx)]
        simp only [show (tagUint == tagFloat) = false from by decide, show (tagUint == tagInteger) = false from by decide,
          beq_self_eq_true, if_true, Bool.false_eq_true, if_false, Res.bind_ok, toIVal]
      | float x f p =>
        simp only [Ok, LVal.pos, LVal.fin] at hok hw hfin hoff
        obtain ⟨w', a, b, hfl, hx⟩ := hok
        cases word_inj hw a
        rw [interface_float pj i n (by rw [hit, b, tt_float])]
        unfold Iter.float
        rw [hit, b, valWord_of pj i (by omega) (by rw [hoff]; exact hx)]
        simp only [beq_self_eq_true, if_true, Res.bind_ok, toIVal]
      | str st p =>
        simp only [Ok, StrAt, LVal.pos, LVal.fin] at hok hw hfin hoff
        obtain ⟨w', len, a, hlen, b, hstr⟩ := hok
        cases word_inj hw a
        rw [interface_string pj i n (by rw [hit, b, tt_string])]
        unfold Iter.stringBytes
        rw [hit, b, valWord_of pj i (by omega) (by rw [hoff]; exact hlen), hic]
        simp only [bne_self_eq_false, Bool.false_eq_true, if_false, Res.bind_ok, hstr, toIVal]
      | arr p e es =>
        simp only [Ok, LVal.pos, LVal.fin] at hok hw hfin hoff
        obtain ⟨hpe, ⟨w', a, b, hpl⟩, ⟨c, hc, hct, _⟩, hes⟩ := hok
        cases word_inj hw a
        rw [interface_array pj i n (by rw [hit, b, tt_array])]
        unfold Iter.array
        rw [hit, b, hic, hpl]
        have hle : ¬ i.lim < e := by omega
        simp only [bne_self_eq_false, Bool.false_eq_true, if_false, hle, Res.bind_ok]
        simp only [Tight] at htight
        rw [ihA es (View.iter { lim := e, off := i.off }) [] (p + 1) (e - 1) hes htight
          (by show e - 1 ≤ e; omega) (Or.inr ⟨c, hc, by rw [hct]; decide, by rw [hct]; exact tt_arrayEnd⟩)
          (by show (0 : Int) ≤ 0; omega) (by show ((i.off : Nat) : Int) + 0 = _; omega)
          (by show 2 * (e - i.off) + 1 < n; omega)]
        simp only [toIVal, List.reverse_nil, List.nil_append]
      | obj p e ms =>
        simp only [Ok, LVal.pos, LVal.fin] at hok hw hfin hoff
        obtain ⟨hpe, ⟨w', a, b, hpl⟩, ⟨c, hc, hct, _⟩, hms⟩ := hok
        cases word_inj hw a
        rw [interface_object pj i n (by rw [hit, b, tt_object])]
        unfold Iter.object
        rw [hit, b, hic, hpl]
        have hle : ¬ i.lim < e := by omega
        have hle2 : ¬ e < i.off := by omega
        simp only [bne_self_eq_false, Bool.false_eq_true, if_false, hle, hle2, Res.bind_ok]
        simp only [Tight] at htight
        rw [ihO ms { lim := e, off := i.off } [] (e - 1) (by rw [hoff]; exact hms) htight
          (by show e - 1 < e; omega) ⟨c, hc, hct⟩ (by show 2 * (e - i.off) + 1 < n; omega)]
        simp only [Res.bind_ok, toIVal]
    · -- objects
      intro ms o acc hi hms htight hlt ⟨c, hc, hct⟩ hf
      obtain ⟨lim, off⟩ := o
      simp only at hms hlt hf
      rw [View.objMap]
      cases ms with
      | nil =>
        simp only [OkMems] at hms
        obtain ⟨f', hf1, hf2, he⟩ := nextElementBytes_gap_fuel pj lim hms (by omega) n (by have := hms.1; omega)
        rw [he]
        obtain ⟨f'', rfl⟩ : ∃ f'', f' = f'' + 1 := ⟨f' - 1, by omega⟩
        rw [View.nextElementBytes]
        have h1 : ¬ hi ≥ lim := by omega
        simp only [h1, if_false, rd_word hc, Res.bind_ok, hct, show (tagObjectEnd == tagString) = false from by decide,
          Bool.false_eq_true, beq_self_eq_true, if_true, toIMems, List.foldl_nil]
      | cons pk k v ms =>
        simp only [OkMems] at hms
        obtain ⟨g1, hs, g2, hok, hfin, rest⟩ := hms
        simp only [TightMs] at htight
        obtain ⟨hp, htv, htms⟩ := htight
        have hpf := pos_lt_fin v pj hok
        have hg1 := g1.1
        obtain ⟨f', hf1, hf2, he⟩ := nextElementBytes_gap_fuel pj lim g1 (by omega) n (by omega)
        rw [he]
        obtain ⟨f'', rfl⟩ : ∃ f'', f' = f'' + 1 := ⟨f' - 1, by omega⟩
        obtain ⟨w, hw, ht, hne⟩ := nextElementBytes_member pj lim pk k v f'' hs hp hok (by omega)
        rw [hne]
        simp only [Res.bind_ok, tagToType_tagOfL_ne_none v, Bool.false_eq_true, if_false]
        have hin := intoNext_le pj v hok
        rw [ihV v _ hok htv ⟨rfl, ⟨w, hw, rfl, rfl⟩, Nat.le_refl _, by simp only; omega⟩ (by simp only; omega)]
        simp only [Res.bind_ok]
        rw [ihO ms { lim := lim, off := v.fin } _ hi rest htms hlt ⟨c, hc, hct⟩ (by simp only; omega)]
        simp only [toIMems, List.foldl_cons]
    · -- arrays
      intro vs i acc lo hi hvs htight hhi hend ha hlo hf
      rw [View.arrInterface]
      cases vs with
      | nil =>
        simp only [OkElems] at hvs
        obtain ⟨i', he⟩ := advance_end pj i lo hi hvs hhi hend ha hlo
        rw [he]
        simp only [Res.bind_ok, beq_self_eq_true, if_true, toIVals, List.append_nil]
      | cons v vs =>
        obtain ⟨i', he, hlim, hoff, hw, ha', hnext, rest⟩ := advance_elem pj i v vs lo hi hvs hhi ha hlo
        simp only [OkElems] at hvs
        obtain ⟨g, hok, hfin, _⟩ := hvs
        simp only [TightVs] at htight
        have hpf := pos_lt_fin v pj hok
        have hg := g.1
        rw [he]
        simp only [Res.bind_ok, tagToType_tagOfL_ne_none v, Bool.false_eq_true, if_false]
        rw [ihV v i' hok htight.1 ⟨hoff, (by obtain ⟨w, a, b, c, _⟩ := hw; exact ⟨w, a, b, c⟩), by omega, by omega⟩ (by omega)]
        simp only [Res.bind_ok]
        rw [ihA vs i' _ v.fin hi rest htight.2 (by omega) (by rw [hlim]; exact hend) ha' hnext (by omega)]
        simp only [toIVals, List.reverse_cons, List.append_assoc, List.singleton_append]

/-- **4. `Object.Map`** on the `Object` view of a tight object node: the Go map built by inserting ALL members
    in tape order — for a duplicated key the LAST member's value is the one kept (whereas `FindKey` returns the
    FIRST; see `map_vs_findKey_dup`). -/
theorem objMap_spec (pj : PJ) (p e : Nat) (ms : LMems) (fuel : Nat) (hok : Ok pj (.obj p e ms)) (ht : TightMs ms)
    (hf : 2 * (e - (p + 1)) + 1 < fuel) :
    View.objMap pj { lim := e, off := p + 1 } [] fuel = .ok ((toIMems ms).foldl (fun m kv => mapInsert m kv.1 kv.2) []) := by
  obtain ⟨hms, hlt, hend, _, _⟩ := obj_parts hok
  exact (interface_family pj fuel).2.1 ms { lim := e, off := p + 1 } [] (e - 1) hms ht hlt hend hf

theorem objMap_spec_fuelOf (pj : PJ) (p e : Nat) (ms : LMems) (hok : Ok pj (.obj p e ms)) (ht : TightMs ms) :
    View.objMap pj { lim := e, off := p + 1 } [] (fuelOf pj) = .ok ((toIMems ms).foldl (fun m kv => mapInsert m kv.1 kv.2) []) := by
  obtain ⟨_, _, _, hsz, _⟩ := obj_parts hok
  exact objMap_spec pj p e ms _ hok ht (by have := fuelOf_gt pj e (p + 1) hsz; omega)

/-- `Interface()` on a cursor standing on a node of a tight document -/
theorem interface_node (pj : PJ) (v : LVal) (i : Iter) (hok : Ok pj v) (ht : Tight v) (hon : OnNode pj v i)
    (hl : i.lim ≤ pj.tape.size) : Iter.interface pj i (fuelOf pj) = .ok (toIVal v) :=
  (interface_family pj _).1 v i hok ht hon (fuelOf_gt pj _ _ hl)

/-- the member list before insertion is the member list of plain traversal, value by value -/
theorem toIMems_members : ∀ ms : LMems, toIMems ms = (membersWithKeys [] ms).map (fun kv => (kv.1, toIVal kv.2))
  | .nil => rfl
  | .cons pk k v ms => by
    simp only [membersWithKeys, true_or, if_true, List.map_cons, toIMems, toIMems_members ms]

/-- duplicated key `"a"` in `{"a":1,"b":2,"a":3}`: `Map` keeps the LAST value (3, and the key moves behind
    `"b"`), `FindKey`/`FindPath` return the FIRST (1), `Parse`/`ForEach(nil)` list both -/
theorem map_vs_findKey_dup :
    View.objMap exPJ { lim := 14, off := 1 } [] (fuelOf exPJ) = .ok [(#[98], .int 2), (#[97], .int 3)] ∧
    View.findKey exPJ #[97] (View.iter { lim := 14, off := 1 }) (fuelOf exPJ) =
      .ok (some (typeInt, elemIter exPJ (.int 1 3))) := by
  refine ⟨?_, ?_⟩
  · rw [objMap_spec_fuelOf exPJ 0 14 exMems exDoc_ok ⟨rfl, trivial, rfl, trivial, rfl, trivial, trivial⟩]
    rfl
  · rw [findKey_spec_fuelOf exPJ 0 14 exMems #[97] (by decide) exDoc_ok]
    simp only [exMems, firstWithKey, if_true, Option.map_some, tagOfL, tt_int]

/-- A NOP between a key and its value (`WalkLayout.cexPJ`: `{"a":5}` with one NOP entry after the key — a shape
    the Layout relation allows): the `Advance`-based `FindKey`, `FindPath` and `ForEach` still find the member
    (no tightness hypothesis in `findKey_spec`, `forEach_spec`, `findPath_spec`), the `NextElementBytes`-based
    `Parse` reports NO elements — so on such a tape lookup and `Parse`/`Map` traversal disagree.  The API's own
    edits never produce this shape (`DeleteElems` removes key and value together). -/
theorem gap_key_value_discrepancy :
    Ok cexPJ cexDoc ∧
    View.findKey cexPJ #[97] (View.iter { lim := 7, off := 1 }) (fuelOf cexPJ) = .ok (some (typeInt, elemIter cexPJ (.int 5 4))) ∧
    View.findPathTop cexPJ { lim := 7, off := 1 } [#[97]] = .ok (typeInt, elemIter cexPJ (.int 5 4)) ∧
    View.forEach cexPJ [#[97]] (View.iter { lim := 7, off := 1 }) 0 #[] (fuelOf cexPJ) = .ok #[(#[97], skipIter cexPJ 7 (.int 5 4))] ∧
    (match View.parse cexPJ { lim := 7, off := 1 } #[] (fuelOf cexPJ) with
      | .ok es => es.size == 0 | _ => false) = true := by
  have hok : Ok cexPJ (.obj 0 7 (.cons 1 [97] (.int 5 4) .nil)) := neb_gap_counterexample.1
  refine ⟨hok, ?_, ?_, ?_, by decide +kernel⟩
  · rw [findKey_spec_fuelOf cexPJ 0 7 _ #[97] (by decide) hok]
    simp only [firstWithKey, if_true, Option.map_some, tagOfL, tt_int]
  · rw [findPathTop_spec cexPJ 0 7 _ _ _ (by decide) hok]
    simp only [pathSpec_last #[97] (.cons 1 [97] (.int 5 4) .nil) 1 (.int 5 4) rfl, mapRes, elemOf, tagOfL, tt_int]
  · rw [forEach_exact cexPJ 0 7 _ [#[97]] hok (Or.inr (by simp [memKeys]))]
    rfl

/-- the nested object `{"a":{"b":7}}` -/
def nestPJ : PJ :=
  { tape := #[mkWord tagObjectStart 10, mkWord tagString 0, 1,
              mkWord tagObjectStart 9, mkWord tagString 1, 1, mkWord tagInteger 0, 7, mkWord tagObjectEnd 3,
              mkWord tagObjectEnd 0],
    strings := #[], msg := #[97, 98] }
def nestInner : LMems := .cons 4 [98] (.int 7 6) .nil
def nestMems : LMems := .cons 1 [97] (.obj 3 9 nestInner) .nil

theorem nest_ok : Ok nestPJ (.obj 0 10 nestMems) := by
  simp only [nestMems, nestInner, Ok, OkMems, StrAt, LVal.pos, LVal.fin]
  exact ⟨by omega, ⟨_, rfl, by decide, by decide⟩, ⟨_, rfl, by decide, by decide⟩, gap_refl _ _,
    ⟨_, _, rfl, rfl, by decide, rfl⟩, gap_refl _ _,
    ⟨by omega, ⟨_, rfl, by decide, by decide⟩, ⟨_, rfl, by decide, by decide⟩, gap_refl _ _,
      ⟨_, _, rfl, rfl, by decide, rfl⟩, gap_refl _ _, ⟨_, rfl, by decide, rfl⟩, by omega, gap_refl _ _⟩,
    by omega, gap_refl _ _⟩

/-- `FindPath("a","b")` descends into the inner object and returns the integer at position 6; `("a","c")` is
    `ErrPathNotFound`; `("a","b","c")` runs through a non-object — by the theorem … -/
example : View.findPathTop nestPJ { lim := 10, off := 1 } [#[97], #[98]] = .ok (typeInt, elemIter nestPJ (.int 7 6)) ∧
    View.findPathTop nestPJ { lim := 10, off := 1 } [#[97], #[99]] = .error .pathNotFound ∧
    View.findPathTop nestPJ { lim := 10, off := 1 } [#[97], #[98], #[99]] = .error .generic := by
  refine ⟨?_, ?_, ?_⟩
  · rw [findPathTop_spec nestPJ 0 10 nestMems _ _ (by decide) nest_ok]
    simp only [pathSpec_obj #[97] #[98] [] nestMems 1 3 9 nestInner rfl,
      pathSpec_last #[98] nestInner 4 (.int 7 6) rfl, mapRes, elemOf, tagOfL, tt_int]
  · rw [findPathTop_spec nestPJ 0 10 nestMems _ _ (by decide) nest_ok]
    simp only [pathSpec_obj #[97] #[99] [] nestMems 1 3 9 nestInner rfl, pathSpec_none #[99] [] nestInner rfl, mapRes]
  · rw [findPathTop_spec nestPJ 0 10 nestMems _ _ (by decide) nest_ok]
    simp only [pathSpec_obj #[97] #[98] [#[99]] nestMems 1 3 9 nestInner rfl,
      pathSpec_nonobj #[98] #[99] [] nestInner 4 (.int 7 6) rfl (fun _ _ _ h => by cases h), mapRes]

/-- … and by running the model -/
example : (match View.findPathTop nestPJ { lim := 10, off := 1 } [#[97], #[98]] with
    | .ok (ty, it) => ty == typeInt && it.off == 7 && it.lim == 8 && it.t == tagInteger
    | _ => false) = true := by decide +kernel

end SJ.Lookup
