import SJ.Proofs.F64RoundDec
/-
`shortest` analysed: the search of `shortestFrom` succeeds (round 17 at the latest) and the digits it
returns parse back (`roundDecimal`) to the float: `shortest_roundtrip` (T3).
-/
namespace SJ.F64Round
open SJ SJ.F64 SJ.Numeric SJ.FloatFmt SJ.FloatFmtProofs


/-! ## 1. `floorLog10` -/

/-- `10^r ≤ a/b` -/
def geP (a b : Nat) (r : Int) : Prop := b * 10 ^ r.toNat ≤ a * 10 ^ (-r).toNat

def geB (a b : Nat) (r : Int) : Bool :=
  if r ≥ 0 then decide (a ≥ b * 10 ^ r.toNat) else decide (a * 10 ^ r.natAbs ≥ b)

theorem geB_iff (a b : Nat) (r : Int) : geB a b r = true ↔ geP a b r := by
  unfold geP geB
  by_cases h : r ≥ 0
  · have : (-r).toNat = 0 := by omega
    rw [if_pos h, this]; simp
  · have h1 : r.toNat = 0 := by omega
    have h2 : (-r).toNat = r.natAbs := by omega
    rw [if_neg h, h1, h2]; simp

theorem floorLog10_eq (a b : Nat) :
    floorLog10 a b =
      if geB a b ((numDigits a : Int) - (numDigits b : Int) + 1) then (numDigits a : Int) - (numDigits b : Int) + 1
      else if geB a b ((numDigits a : Int) - (numDigits b : Int)) then (numDigits a : Int) - (numDigits b : Int)
      else (numDigits a : Int) - (numDigits b : Int) - 1 := rfl

theorem floorLog10_ge (a b : Nat) (ha : a ≠ 0) (hb : b ≠ 0) : geP a b (floorLog10 a b) := by
  rw [floorLog10_eq]
  by_cases h1 : geB a b ((numDigits a : Int) - (numDigits b : Int) + 1) = true
  · rw [if_pos h1]; exact (geB_iff a b _).mp h1
  · rw [if_neg h1]
    by_cases h2 : geB a b ((numDigits a : Int) - (numDigits b : Int)) = true
    · rw [if_pos h2]; exact (geB_iff a b _).mp h2
    · rw [if_neg h2]
      obtain ⟨a1, a2, _⟩ := numDigits_bounds a ha
      obtain ⟨b1, _, b3⟩ := numDigits_bounds b hb
      unfold geP
      generalize hr : (numDigits a : Int) - (numDigits b : Int) - 1 = r
      have e1 : numDigits b + r.toNat = numDigits a - 1 + (-r).toNat := by omega
      have h1 : b * 10 ^ r.toNat ≤ 10 ^ numDigits b * 10 ^ r.toNat :=
        Nat.mul_le_mul_right _ (Nat.le_of_lt b3)
      have h2 : 10 ^ (numDigits a - 1) * 10 ^ (-r).toNat ≤ a * 10 ^ (-r).toNat :=
        Nat.mul_le_mul_right _ a2
      rw [← Nat.pow_add, e1, Nat.pow_add] at h1
      exact Nat.le_trans h1 h2


/-! ## 2. Digit strings -/

def rawDigits (a : Nat) : List Nat := (Nat.toDigits 10 a).map (fun c => c.toNat - 48)

theorem digitsOf_eq (a : Nat) (h : a ≠ 0) : digitsOf a = rawDigits a := by
  unfold digitsOf rawDigits; rw [if_neg h]

theorem digitChar_val (n : Nat) (h : n < 10) : (Nat.digitChar n).toNat - 48 = n := by
  have key : ∀ k : Fin 10, (Nat.digitChar k.val).toNat - 48 = k.val := by decide
  exact key ⟨n, h⟩

theorem rawDigits_lt (a : Nat) (h : a < 10) : rawDigits a = [a] := by
  simp [rawDigits, Nat.toDigits_of_lt_base h, digitChar_val a h]

theorem rawDigits_ge (a : Nat) (h : 10 ≤ a) : rawDigits a = rawDigits (a / 10) ++ [a % 10] := by
  simp [rawDigits, Nat.toDigits_of_base_le (by decide : 1 < 10) h,
    digitChar_val (a % 10) (Nat.mod_lt _ (by decide))]

theorem rawDigits_spec (a : Nat) :
    (∀ d ∈ rawDigits a, d < 10) ∧ natOfDigits (rawDigits a) = a ∧ rawDigits a ≠ [] ∧
      (0 < a → (rawDigits a).head? ≠ some 0) := by
  induction a using Nat.strongRecOn with
  | _ a ih =>
    by_cases h : a < 10
    · rw [rawDigits_lt a h]
      refine ⟨by simpa using h, by simp [natOfDigits], by simp, ?_⟩
      intro h0; simp; omega
    · have h' : 10 ≤ a := by omega
      rw [rawDigits_ge a h']
      obtain ⟨i1, i2, i3, i4⟩ := ih (a / 10) (by omega)
      refine ⟨?_, ?_, by simp, ?_⟩
      · intro c hc
        rcases List.mem_append.mp hc with hc | hc
        · exact i1 c hc
        · simp at hc; omega
      · rw [natOfDigits_append, i2]; simp [natOfDigits]; omega
      · intro _
        cases hA : rawDigits (a / 10) with
        | nil => exact absurd hA i3
        | cons x t =>
          have := i4 (by omega)
          rw [hA] at this; simpa using this

theorem rawDigits_length (a : Nat) : (rawDigits a).length = numDigits a := by
  simp [rawDigits, numDigits]

theorem natOfDigits_replicate_zero (z : Nat) : natOfDigits (List.replicate z 0) = 0 := by
  induction z with
  | zero => rfl
  | succ z ih =>
    rw [List.replicate_succ]
    have := natOfDigits_append [0] (List.replicate z 0)
    simp only [List.cons_append, List.nil_append] at this
    rw [this, ih]; simp [natOfDigits]

/-- the digits are the stripped digits followed by zeros -/
theorem strip_spec (ds : List Nat) :
    ∃ z, ds = stripTrailingZeros ds ++ List.replicate z 0 := by
  unfold stripTrailingZeros
  have h := List.takeWhile_append_dropWhile (p := (· == 0)) (l := ds.reverse)
  refine ⟨(ds.reverse.takeWhile (· == 0)).length, ?_⟩
  have hz : ds.reverse.takeWhile (· == 0) = List.replicate (ds.reverse.takeWhile (· == 0)).length 0 := by
    rw [List.eq_replicate_iff]
    refine ⟨rfl, ?_⟩
    intro x hx
    have hall := List.all_takeWhile (l := ds.reverse) (p := (· == 0))
    rw [List.all_eq_true] at hall
    simpa using hall x hx
  have h2 : ds = (ds.reverse.dropWhile (· == 0)).reverse ++ (ds.reverse.takeWhile (· == 0)).reverse := by
    rw [← List.reverse_append, h, List.reverse_reverse]
  rw [hz, List.reverse_replicate] at h2
  exact h2

theorem strip_facts (ds : List Nat) (hne : ds ≠ []) (hhd : ds.head? ≠ some 0) :
    ∃ z, ds = stripTrailingZeros ds ++ List.replicate z 0 ∧ stripTrailingZeros ds ≠ [] ∧
      (stripTrailingZeros ds).head? = ds.head? ∧
      natOfDigits ds = natOfDigits (stripTrailingZeros ds) * 10 ^ z ∧
      ds.length = (stripTrailingZeros ds).length + z := by
  obtain ⟨z, hz⟩ := strip_spec ds
  have hs : stripTrailingZeros ds ≠ [] := by
    intro h
    rw [h, List.nil_append] at hz
    rw [hz] at hne hhd
    cases z with
    | zero => simp at hne
    | succ z => simp [List.replicate_succ] at hhd
  refine ⟨z, hz, hs, ?_, ?_, ?_⟩
  · conv => rhs; rw [hz]
    cases hA : stripTrailingZeros ds with
    | nil => exact absurd hA hs
    | cons x t => simp
  · conv => lhs; rw [hz]
    rw [natOfDigits_append, natOfDigits_replicate_zero]; simp
  · conv => lhs; rw [hz]
    simp


/-! ## 3. The search loop -/

/-- the quotient `⌊v / (b·10^k)⌋` -/
def d0At (b v : Nat) (k : Int) : Nat := if k ≥ 0 then v / (b * 10 ^ k.toNat) else (v * 10 ^ k.natAbs) / b

/-- one round of the search of `shortestFrom` (with `k = l10 − (n−1)`) -/
def pickAt (b v : Nat) (inside : Nat → Int → Bool) (k : Int) : Option Nat :=
  let d0 := d0At b v k
  let d1 := d0 + 1
  let in0 := decide (d0 > 0) && inside d0 k
  let in1 := inside d1 k
  if in0 && in1 then
    let x0 := distScaled d0 k v b
    let x1 := distScaled d1 k v b
    if x0 < x1 then some d0 else if x1 < x0 then some d1 else (if d0 % 2 == 0 then some d0 else some d1)
  else if in0 then some d0 else if in1 then some d1 else none

theorem go_zero (b v : Nat) (inside : Nat → Int → Bool) (l10 : Int) (n : Nat) :
    shortestFrom.go b v inside l10 n 0 = { digits := [], dp := 0 } := rfl

theorem go_succ (b v : Nat) (inside : Nat → Int → Bool) (l10 : Int) (n fuel : Nat) :
    shortestFrom.go b v inside l10 n (fuel + 1) =
      match pickAt b v inside (l10 - (n - 1 : Nat)) with
      | some d => { digits := stripTrailingZeros (digitsOf d), dp := (l10 - (n - 1 : Nat)) + (digitsOf d).length }
      | none => shortestFrom.go b v inside l10 (n + 1) fuel := rfl

theorem pickAt_sound (b v : Nat) (inside : Nat → Int → Bool) (k : Int) (d : Nat)
    (h : pickAt b v inside k = some d) : 0 < d ∧ inside d k = true := by
  unfold pickAt at h
  simp only [] at h
  generalize d0At b v k = d0 at h
  by_cases h0 : (decide (d0 > 0) && inside d0 k) = true <;> by_cases h1 : inside (d0 + 1) k = true
  · simp only [h0, h1, Bool.and_self, if_true] at h
    have h0' : 0 < d0 ∧ inside d0 k = true := by simpa using h0
    split at h
    · cases h; exact h0'
    · split at h
      · cases h; exact ⟨by omega, h1⟩
      · split at h
        · cases h; exact h0'
        · cases h; exact ⟨by omega, h1⟩
  · have h0' : 0 < d0 ∧ inside d0 k = true := by simpa using h0
    simp only [h0, h1, Bool.and_false, Bool.false_eq_true, if_false, if_true] at h
    cases h; exact h0'
  · simp only [h0, h1, Bool.false_and, Bool.false_eq_true, if_false, if_true] at h
    cases h; exact ⟨by omega, h1⟩
  · simp only [h0, h1, Bool.false_and, Bool.false_eq_true, if_false] at h
    cases h

theorem pickAt_complete (b v : Nat) (inside : Nat → Int → Bool) (k : Int)
    (h : (0 < d0At b v k ∧ inside (d0At b v k) k = true) ∨ inside (d0At b v k + 1) k = true) :
    ∃ d, pickAt b v inside k = some d := by
  unfold pickAt
  simp only []
  generalize d0At b v k = d0 at h
  by_cases h0 : (decide (d0 > 0) && inside d0 k) = true <;> by_cases h1 : inside (d0 + 1) k = true
  · simp only [h0, h1, Bool.and_self, if_true]
    split
    · exact ⟨_, rfl⟩
    · split
      · exact ⟨_, rfl⟩
      · split <;> exact ⟨_, rfl⟩
  · simp only [h0, h1, Bool.and_false, Bool.false_eq_true, if_false, if_true]
    exact ⟨_, rfl⟩
  · simp only [h0, h1, Bool.false_and, Bool.false_eq_true, if_false, if_true]
    exact ⟨_, rfl⟩
  · exfalso
    rcases h with ⟨a, b⟩ | c
    · apply h0; simp [a, b]
    · exact h1 c

/-- the search returns digits of a decimal that passed the `inside` test, provided round 17 cannot fail -/
theorem go_spec (b v : Nat) (inside : Nat → Int → Bool) (l10 : Int)
    (h17 : ∃ d, pickAt b v inside (l10 - 16) = some d) :
    ∀ fuel n, n ≤ 17 → 17 < n + fuel → 1 ≤ n →
      ∃ d k, 0 < d ∧ inside d k = true ∧
        shortestFrom.go b v inside l10 n fuel =
          { digits := stripTrailingZeros (digitsOf d), dp := k + (digitsOf d).length } := by
  intro fuel
  induction fuel with
  | zero => intro n h1 h2; omega
  | succ fuel ih =>
    intro n h1 h2 h3
    rw [go_succ]
    cases hp : pickAt b v inside (l10 - (n - 1 : Nat)) with
    | some d =>
      obtain ⟨s1, s2⟩ := pickAt_sound _ _ _ _ _ hp
      exact ⟨d, _, s1, s2, rfl⟩
    | none =>
      have hn : n ≠ 17 := by
        intro h; subst h
        obtain ⟨d, hd⟩ := h17
        have : (l10 - ((17 - 1 : Nat) : Int)) = l10 - 16 := by omega
        rw [this, hd] at hp; cases hp
      exact ih (n + 1) (by omega) (by omega) (by omega)

/-! ## 4. Round 17 cannot fail -/

theorem insideB_iff (ex fr d : Nat) (k : Int) :
    insideB (mantOf ex fr) (expOf ex) (lcOf ex fr) d k = true ↔
    (loNum ex fr * 2 ^ shOf ex * 10 ^ (-k).toNat < d * 10 ^ k.toNat * 2 ^ bjOf ex ∨
      (mantOf ex fr % 2 = 0 ∧ d * 10 ^ k.toNat * 2 ^ bjOf ex = loNum ex fr * 2 ^ shOf ex * 10 ^ (-k).toNat)) ∧
    (d * 10 ^ k.toNat * 2 ^ bjOf ex < hiNum ex fr * 2 ^ shOf ex * 10 ^ (-k).toNat ∨
      (mantOf ex fr % 2 = 0 ∧ d * 10 ^ k.toNat * 2 ^ bjOf ex = hiNum ex fr * 2 ^ shOf ex * 10 ^ (-k).toNat)) := by
  unfold insideB
  simp only [sh_eq, cmpScaled_eq]
  have hb := b_eq (expOf ex)
  unfold bOfE at hb
  rw [hb]
  change ((compare (d * 10 ^ k.toNat * 2 ^ bjOf ex) (loNum ex fr * 2 ^ shOf ex * 10 ^ (-k).toNat) == .gt ||
      (mantOf ex fr % 2 == 0 && compare (d * 10 ^ k.toNat * 2 ^ bjOf ex) (loNum ex fr * 2 ^ shOf ex * 10 ^ (-k).toNat) == .eq)) &&
    (compare (d * 10 ^ k.toNat * 2 ^ bjOf ex) (hiNum ex fr * 2 ^ shOf ex * 10 ^ (-k).toNat) == .lt ||
      (mantOf ex fr % 2 == 0 && compare (d * 10 ^ k.toNat * 2 ^ bjOf ex) (hiNum ex fr * 2 ^ shOf ex * 10 ^ (-k).toNat) == .eq))) = true ↔ _
  simp only [Bool.and_eq_true, Bool.or_eq_true, beq_iff_eq, Nat.compare_eq_gt, Nat.compare_eq_lt,
    Nat.compare_eq_eq]


theorem d0At_spec (b v : Nat) (k : Int) (hb : 0 < b) :
    d0At b v k * 10 ^ k.toNat * b ≤ v * 10 ^ (-k).toNat ∧
    v * 10 ^ (-k).toNat < (d0At b v k + 1) * 10 ^ k.toNat * b := by
  unfold d0At
  by_cases h : k ≥ 0
  · have hq : (-k).toNat = 0 := by omega
    rw [if_pos h, hq, Nat.pow_zero, Nat.mul_one]
    have hp : 0 < b * 10 ^ k.toNat := Nat.mul_pos hb (ten_pow_pos _)
    have e : ∀ x : Nat, x * 10 ^ k.toNat * b = x * (b * 10 ^ k.toNat) := by intro x; ac_rfl
    rw [e, e]
    exact ⟨Nat.div_mul_le_self _ _, Nat.lt_mul_of_div_lt (Nat.lt_succ_self _) hp⟩
  · have hp : k.toNat = 0 := by omega
    have hq : (-k).toNat = k.natAbs := by omega
    rw [if_neg h, hp, hq, Nat.pow_zero, Nat.mul_one, Nat.mul_one]
    exact ⟨Nat.div_mul_le_self _ _, Nat.lt_mul_of_div_lt (Nat.lt_succ_self _) hb⟩
theorem vOfE_eq (mant : Nat) (e2 : Int) : vOfE mant e2 = 4 * mant * 2 ^ (e2 - 2).toNat := by
  unfold vOfE; rw [sh_eq]

theorem mantOf_lt (ex fr : Nat) (hfr : fr < 2 ^ 52) : mantOf ex fr < 2 ^ 53 := by
  unfold mantOf; split <;> omega

theorem bOfE_eq (ex : Nat) : bOfE (expOf ex) = 2 ^ bjOf ex := b_eq _
theorem vOfE_eq' (ex fr : Nat) : vOfE (mantOf ex fr) (expOf ex) = 4 * mantOf ex fr * 2 ^ shOf ex := vOfE_eq _ _

theorem round17_core (ex fr : Nat) (hfr : fr < 2 ^ 52) (hne : mantOf ex fr ≠ 0) (l10 k : Int)
    (hge : geP (4 * mantOf ex fr * 2 ^ shOf ex) (2 ^ bjOf ex) l10) (hk : l10 - 16 = k) (d0 : Nat)
    (hd0 : d0 = d0At (2 ^ bjOf ex) (4 * mantOf ex fr * 2 ^ shOf ex) k) :
    (0 < d0 ∧ insideB (mantOf ex fr) (expOf ex) (lcOf ex fr) d0 k = true) ∨
      insideB (mantOf ex fr) (expOf ex) (lcOf ex fr) (d0 + 1) k = true := by
  have hbpos := two_pow_pos (bjOf ex)
  unfold geP at hge
  obtain ⟨hd1, hd2⟩ := d0At_spec (2 ^ bjOf ex) (4 * mantOf ex fr * 2 ^ shOf ex) k hbpos
  rw [← hd0] at hd1 hd2
  clear hd0
  rw [insideB_iff, insideB_iff]
  -- 10^(l10-16) ≤ v/b/10^16
  have h16 : 10 ^ k.toNat * 2 ^ bjOf ex * 10 ^ 16 ≤ 4 * mantOf ex fr * 2 ^ shOf ex * 10 ^ (-k).toNat := by
    have e1 : 10 ^ k.toNat * 2 ^ bjOf ex * 10 ^ 16 * 10 ^ (-l10).toNat =
        2 ^ bjOf ex * 10 ^ l10.toNat * 10 ^ (-k).toNat := by
      have : 10 ^ k.toNat * 10 ^ 16 * 10 ^ (-l10).toNat = 10 ^ l10.toNat * 10 ^ (-k).toNat := by
        rw [← Nat.pow_add, ← Nat.pow_add, ← Nat.pow_add]; congr 1; omega
      calc 10 ^ k.toNat * 2 ^ bjOf ex * 10 ^ 16 * 10 ^ (-l10).toNat
          = 2 ^ bjOf ex * (10 ^ k.toNat * 10 ^ 16 * 10 ^ (-l10).toNat) := by ac_rfl
        _ = 2 ^ bjOf ex * (10 ^ l10.toNat * 10 ^ (-k).toNat) := by rw [this]
        _ = 2 ^ bjOf ex * 10 ^ l10.toNat * 10 ^ (-k).toNat := by ac_rfl
    have e2 : 4 * mantOf ex fr * 2 ^ shOf ex * 10 ^ (-l10).toNat * 10 ^ (-k).toNat =
        4 * mantOf ex fr * 2 ^ shOf ex * 10 ^ (-k).toNat * 10 ^ (-l10).toNat := by ac_rfl
    have := Nat.mul_le_mul_right (10 ^ (-k).toNat) hge
    rw [← e1, e2] at this
    exact Nat.le_of_mul_le_mul_right this (ten_pow_pos _)
  have hW : 0 < 2 ^ shOf ex * 10 ^ (-k).toNat := Nat.mul_pos (two_pow_pos _) (ten_pow_pos _)
  have hm53 := mantOf_lt ex fr hfr
  have hM0 : 1 * (2 ^ shOf ex * 10 ^ (-k).toNat) ≤ mantOf ex fr * (2 ^ shOf ex * 10 ^ (-k).toNat) :=
    Nat.mul_le_mul_right _ (by omega)
  have hM1 : (mantOf ex fr + 1) * (2 ^ shOf ex * 10 ^ (-k).toNat) ≤ 2 ^ 53 * (2 ^ shOf ex * 10 ^ (-k).toNat) :=
    Nat.mul_le_mul_right _ (by omega)
  rw [Nat.add_mul] at hM1
  have ev : 4 * mantOf ex fr * 2 ^ shOf ex * 10 ^ (-k).toNat =
      4 * (mantOf ex fr * (2 ^ shOf ex * 10 ^ (-k).toNat)) := by ac_rfl
  have ehi : hiNum ex fr * 2 ^ shOf ex * 10 ^ (-k).toNat =
      4 * (mantOf ex fr * (2 ^ shOf ex * 10 ^ (-k).toNat)) + 2 * (2 ^ shOf ex * 10 ^ (-k).toNat) := by
    unfold hiNum; rw [Nat.mul_assoc, Nat.add_mul, Nat.mul_assoc 4]
  have e1 : (d0 + 1) * 10 ^ k.toNat * 2 ^ bjOf ex =
      d0 * 10 ^ k.toNat * 2 ^ bjOf ex + 10 ^ k.toNat * 2 ^ bjOf ex := by
    rw [Nat.add_mul, Nat.add_mul, Nat.one_mul]
  have hd0 : d0 = 0 → d0 * 10 ^ k.toNat * 2 ^ bjOf ex = 0 := by intro h; rw [h]; simp
  rw [ev] at h16 hd1 hd2
  rw [ehi, e1]
  rw [e1] at hd2
  by_cases hlc : lcOf ex fr = true
  · have hfr0 : fr = 0 ∧ 1 < ex := by simpa [lcOf] using hlc
    have hmant : mantOf ex fr = 2 ^ 52 := by unfold mantOf; rw [if_neg (by omega)]; omega
    have elo : loNum ex fr * 2 ^ shOf ex * 10 ^ (-k).toNat =
        4 * (mantOf ex fr * (2 ^ shOf ex * 10 ^ (-k).toNat)) - 1 * (2 ^ shOf ex * 10 ^ (-k).toNat) := by
      unfold loNum; rw [if_pos hlc, Nat.mul_assoc, Nat.sub_mul, Nat.mul_assoc 4]
    rw [elo]
    rw [hmant] at hM0 hM1 h16 hd1 hd2 ⊢
    generalize 2 ^ shOf ex * 10 ^ (-k).toNat = W at *
    generalize 10 ^ k.toNat * 2 ^ bjOf ex = G at *
    generalize d0 * 10 ^ k.toNat * 2 ^ bjOf ex = X0 at *
    omega
  · have elo : loNum ex fr * 2 ^ shOf ex * 10 ^ (-k).toNat =
        4 * (mantOf ex fr * (2 ^ shOf ex * 10 ^ (-k).toNat)) - 2 * (2 ^ shOf ex * 10 ^ (-k).toNat) := by
      unfold loNum; rw [if_neg hlc, Nat.mul_assoc, Nat.sub_mul, Nat.mul_assoc 4]
    rw [elo]
    generalize 2 ^ shOf ex * 10 ^ (-k).toNat = W at *
    generalize mantOf ex fr * W = M at *
    generalize 10 ^ k.toNat * 2 ^ bjOf ex = G at *
    generalize d0 * 10 ^ k.toNat * 2 ^ bjOf ex = X0 at *
    omega

theorem round17 (ex fr : Nat) (hfr : fr < 2 ^ 52) (hne : mantOf ex fr ≠ 0) :
    ∃ d, pickAt (bOfE (expOf ex)) (vOfE (mantOf ex fr) (expOf ex))
      (insideB (mantOf ex fr) (expOf ex) (lcOf ex fr))
      (floorLog10 (vOfE (mantOf ex fr) (expOf ex)) (bOfE (expOf ex)) - 16) = some d := by
  apply pickAt_complete
  rw [bOfE_eq, vOfE_eq']
  have hv0 : 4 * mantOf ex fr * 2 ^ shOf ex ≠ 0 :=
    Nat.mul_ne_zero (by omega) (by have := two_pow_pos (shOf ex); omega)
  have hb0 : 2 ^ bjOf ex ≠ 0 := by have := two_pow_pos (bjOf ex); omega
  exact round17_core ex fr hfr hne _ _ (floorLog10_ge _ _ hv0 hb0) rfl _ rfl

/-! ## 5. T3 -/

theorem shortestFrom_spec (ex fr : Nat) (hfr : fr < 2 ^ 52) (hne : mantOf ex fr ≠ 0) :
    ∃ d k, 0 < d ∧ insideB (mantOf ex fr) (expOf ex) (lcOf ex fr) d k = true ∧
      shortestFrom (mantOf ex fr) (expOf ex) (lcOf ex fr) =
        { digits := stripTrailingZeros (digitsOf d), dp := k + (digitsOf d).length } := by
  rw [shortestFrom_eq]
  exact go_spec _ _ _ _ (round17 ex fr hfr hne) 18 1 (by omega) (by omega) (by omega)

/-- the digits returned for the float `(ex, fr)` are well formed and denote a decimal that passes `inside` -/
theorem shortestFrom_inside (ex fr : Nat) (hfr : fr < 2 ^ 52) (hne : mantOf ex fr ≠ 0) :
    WF (shortestFrom (mantOf ex fr) (expOf ex) (lcOf ex fr)) ∧
    insideB (mantOf ex fr) (expOf ex) (lcOf ex fr)
      (natOfDigits (shortestFrom (mantOf ex fr) (expOf ex) (lcOf ex fr)).digits)
      ((shortestFrom (mantOf ex fr) (expOf ex) (lcOf ex fr)).dp -
        (shortestFrom (mantOf ex fr) (expOf ex) (lcOf ex fr)).digits.length) = true := by
  obtain ⟨d, k, hd, hin, hs⟩ := shortestFrom_spec ex fr hfr hne
  rw [hs]
  rw [digitsOf_eq d (by omega)]
  obtain ⟨r1, r2, r3, r4⟩ := rawDigits_spec d
  obtain ⟨z, z1, z2, z3, z4, z5⟩ := strip_facts (rawDigits d) r3 (r4 hd)
  refine ⟨⟨z2, ?_, ?_⟩, ?_⟩
  · intro x hx
    apply r1
    rw [z1]; exact List.mem_append_left _ hx
  · show (stripTrailingZeros (rawDigits d)).head? ≠ some 0
    rw [z3]; exact r4 hd
  · show insideB _ _ _ (natOfDigits (stripTrailingZeros (rawDigits d)))
      (k + ((rawDigits d).length : Int) - ((stripTrailingZeros (rawDigits d)).length : Int)) = _
    have e : k + ((rawDigits d).length : Int) - ((stripTrailingZeros (rawDigits d)).length : Int) = k + (z : Int) := by
      omega
    rw [e, ← insideB_shift, ← z4, r2]
    exact hin

theorem shortestFrom_roundtrip (ex fr : Nat) (hex : ex < 2047) (hfr : fr < 2 ^ 52) (hne : mantOf ex fr ≠ 0) :
    WF (shortestFrom (mantOf ex fr) (expOf ex) (lcOf ex fr)) ∧
    roundDecimal false (natOfDigits (shortestFrom (mantOf ex fr) (expOf ex) (lcOf ex fr)).digits)
      ((shortestFrom (mantOf ex fr) (expOf ex) (lcOf ex fr)).dp -
        (shortestFrom (mantOf ex fr) (expOf ex) (lcOf ex fr)).digits.length) = some (bitsOf ex fr) := by
  obtain ⟨h1, h2⟩ := shortestFrom_inside ex fr hfr hne
  exact ⟨h1, roundDecimal_of_inside ex fr _ _ hex hfr hne h2⟩

theorem shortest_bitsOf (ex fr : Nat) (hex : ex < 2047) (hfr : fr < 2 ^ 52) (hne : mantOf ex fr ≠ 0) :
    shortest (bitsOf ex fr) = shortestFrom (mantOf ex fr) (expOf ex) (lcOf ex fr) := by
  have hn := bitsOf_toNat ex fr hex hfr
  have h1 := FloatFmtProofs.ex_toNat (bitsOf ex fr) (by rw [hn]; omega)
  have h2 := FloatFmtProofs.fr_toNat (bitsOf ex fr)
  rw [hn] at h1 h2
  have h3 : (ex * 2 ^ 52 + fr) / 2 ^ 52 = ex := by omega
  have h4 : (ex * 2 ^ 52 + fr) % 2 ^ 52 = fr := by omega
  rw [h3] at h1
  rw [h4] at h2
  unfold shortest
  simp only [h1, h2]
  unfold mantOf expOf lcOf at *
  by_cases h0 : ex = 0
  · subst h0
    simp only [if_true] at hne
    simp [hne]
  · simp [h0]

/-- **T3**: the shortest digits of a finite non-zero binary64 (sign bit clear) are well formed (in particular
    the search succeeds) and parse back to the same float. -/
theorem shortest_roundtrip (abs : UInt64) (hfin : isFinite abs = true) (hlt : abs.toNat < 2 ^ 63)
    (h0 : abs ≠ 0) :
    WF (shortest abs) ∧
    roundDecimal false (natOfDigits (shortest abs).digits)
      ((shortest abs).dp - (shortest abs).digits.length) = some abs := by
  obtain ⟨hb, hex, hfr⟩ := bits_cases abs hlt hfin
  have hne : mantOf (abs.toNat / 2 ^ 52) (abs.toNat % 2 ^ 52) ≠ 0 := by
    intro h
    apply h0
    apply UInt64.toNat_inj.mp
    unfold mantOf at h
    split at h
    · show abs.toNat = 0
      omega
    · omega
  rw [hb, shortest_bitsOf _ _ hex hfr hne]
  exact shortestFrom_roundtrip _ _ hex hfr hne

end SJ.F64Round
