import SJ.Proofs.WalkLayout
import SJ.Proofs.Escape
set_option linter.unusedVariables false

/-
MarshalExact — "MarshalJSON emits exactly the canonical text of the document the tape denotes".

All theorems are about the model's own `Iter.marshalStep / marshalLoop / marshalBuf / marshal`,
`View.arrMarshal`, `View.elemsMarshal`, `View.parse` (via `WalkSafe.marshalStep_eq : marshalStep = keyPart >>= body`,
which holds by `rfl`).

Main results (all for EVERY tape `pj`, located value `v` with `Ok pj v`, destination buffer `dst`):
* `marshalBuf_node`        cursor on node `v` (`OnNode`), all floats formattable  ⟹  `.ok (dst ++ render v)`
* `marshalBuf_node_error`  some float inside is NaN/±Inf                            ⟹  `.error .generic`
* `marshalBuf_root`        cursor on a root entry, view restricted to the entry     ⟹  `.ok (dst ++ render v)`
* `marshalBuf_roots`       cursor on a root entry, view reaching further roots      ⟹  contents joined by `\n`
* `marshalBuf_ofPJ`        `pj.Iter().MarshalJSON()` on a tape with roots `v :: vs`  ⟹  contents joined by `\n`
* `marshalBuf_doc`, `render_erase`, `render_gap_invariant`   the text is a function of the ABSTRACT document
                           (`erase v`): NOP gaps — also between a key and its value — are invisible.  `Tight` is
                           NOT needed (`marshal_gap_example` runs the `WalkLayout` key/value-gap tape).
* `renderElems_join`, `renderMems_join`   `render` of a container = items joined by `,`
* `arrMarshal_arr`         `Array.MarshalJSON` on the view of an array node = `render` of the array
* `elemsMarshal_spec`, `elemsMarshal_obj`  `Elements.MarshalJSON` on the result of `Object.Parse`
                           (`Parse` needs the DIRECT members tight, `TightMs1`; the marshalling itself does not)

Proof architecture: the write loop is an explicit-stack machine.  `run r fuel` continues the loop from a step result.
`ValueSpec / EnterSpec / TailSpec / MEnterSpec / MTailSpec` say: from the machine state in front of a piece of the
located tree, after `k` further iterations (`k` bounded by the number of tape words of the piece) the machine is in
the state right after the piece, same stack, output extended by the piece's text.  They are proved one constructor
at a time (sections 7–9) and tied together by mutual structural recursion on `LVal/LVals/LMems` (section 10).
-/

namespace SJ.MarshalExact
open SJ SJ.Generated SJ.Layout SJ.WalkSafe SJ.WalkLayout

/-! ## 0. Canonical rendering -/

/- `render`: canonical JSON text of a located value: scalars as the Go code prints them (`intToAscii`, `natToAscii`,
   `appendFloat`; `#[]` as a placeholder for a float without text, excluded by `FloatsOk`), strings quoted and
   escaped by `escapeBytes`, containers as `[`/`{` items joined by `,` `]`/`}`; positions are ignored. -/
mutual
def render : LVal → Bytes
  | .null _ => "null".toUTF8.data
  | .bool b _ => if b then "true".toUTF8.data else "false".toUTF8.data
  | .int w _ => intToAscii (toInt64 w)
  | .uint w _ => FloatFmt.natToAscii w.toNat
  | .float bits _ _ => (FloatFmt.appendFloat bits).getD #[]
  | .str s _ => Iter.quoted #[] s.toArray
  | .arr _ _ es => (#[91] ++ renderElems es) ++ #[93]
  | .obj _ _ ms => (#[123] ++ renderMems ms) ++ #[125]
def renderElems : LVals → Bytes
  | .nil => #[]
  | .cons v vs => render v ++ renderTail vs
def renderTail : LVals → Bytes
  | .nil => #[]
  | .cons v vs => #[44] ++ (render v ++ renderTail vs)
def renderMems : LMems → Bytes
  | .nil => #[]
  | .cons _ k v ms => (Iter.quoted #[] k.toArray ++ (#[58] ++ render v)) ++ renderMTail ms
def renderMTail : LMems → Bytes
  | .nil => #[]
  | .cons _ k v ms => #[44] ++ ((Iter.quoted #[] k.toArray ++ (#[58] ++ render v)) ++ renderMTail ms)
end

theorem render_null (p : Nat) : render (.null p) = #[110, 117, 108, 108] := by
  simp only [render]; decide
theorem render_true (p : Nat) : render (.bool true p) = #[116, 114, 117, 101] := by
  simp only [render, if_true]; decide
theorem render_false (p : Nat) : render (.bool false p) = #[102, 97, 108, 115, 101] := by
  simp only [render, Bool.false_eq_true, if_false]; decide
theorem render_str (s : List UInt8) (p : Nat) :
    (render (.str s p)).toList = 34 :: ((s.map escapeByte).flatten ++ [34]) := by
  simp only [render, Iter.quoted, Array.toList_push, SJ.Escape.escapeBytes_eq]
  simp

/- `FloatsOk`: every float inside has a text (`appendFloat` returns `none` for NaN and ±Inf) -/
mutual
def FloatsOk : LVal → Prop
  | .null _ => True
  | .bool _ _ => True
  | .int _ _ => True
  | .uint _ _ => True
  | .float bits _ _ => FloatFmt.appendFloat bits ≠ none
  | .str _ _ => True
  | .arr _ _ es => FloatsOkVs es
  | .obj _ _ ms => FloatsOkMs ms
def FloatsOkVs : LVals → Prop
  | .nil => True
  | .cons v vs => FloatsOk v ∧ FloatsOkVs vs
def FloatsOkMs : LMems → Prop
  | .nil => True
  | .cons _ _ v ms => FloatsOk v ∧ FloatsOkMs ms
end

/-! ## 1. The loop as `run` -/

def run (pj : PJ) (r : Res (MState ⊕ MState)) (fuel : Nat) : Res MState :=
  r >>= fun x => match x with
    | .inl s' => Iter.marshalLoop pj s' fuel
    | .inr s' => .ok s'

theorem marshalLoop_succ (pj : PJ) (s : MState) (fuel : Nat) :
    Iter.marshalLoop pj s (fuel + 1) = run pj (keyPart pj s >>= body pj) fuel := rfl

theorem run_inl (pj : PJ) (s : MState) (fuel : Nat) :
    run pj (.ok (.inl s)) (fuel + 1) = run pj (keyPart pj s >>= body pj) fuel := rfl

theorem run_inr (pj : PJ) (s : MState) (fuel : Nat) : run pj (.ok (.inr s)) fuel = .ok s := rfl

/-! ## 2. The `switch`, one case at a time -/

theorem body_null (pj : PJ) (s : MState) (h : s.i.t = tagNull) :
    body pj s = contF pj { s with dst := s.dst ++ "null".toUTF8.data } := by
  unfold body; rw [h]; rfl
theorem body_true (pj : PJ) (s : MState) (h : s.i.t = tagBoolTrue) :
    body pj s = contF pj { s with dst := s.dst ++ "true".toUTF8.data } := by
  unfold body; rw [h]; rfl
theorem body_false (pj : PJ) (s : MState) (h : s.i.t = tagBoolFalse) :
    body pj s = contF pj { s with dst := s.dst ++ "false".toUTF8.data } := by
  unfold body; rw [h]; rfl
theorem body_string (pj : PJ) (s : MState) (h : s.i.t = tagString) :
    body pj s = (do let sb ← s.i.stringBytes pj; contF pj { s with dst := Iter.quoted s.dst sb }) := by
  unfold body; rw [h]; rfl
theorem body_int (pj : PJ) (s : MState) (h : s.i.t = tagInteger) :
    body pj s = (do let v ← s.i.int pj; contF pj { s with dst := s.dst ++ intToAscii v }) := by
  unfold body; rw [h]; rfl
theorem body_uint (pj : PJ) (s : MState) (h : s.i.t = tagUint) :
    body pj s = (do let v ← s.i.uint pj; contF pj { s with dst := s.dst ++ FloatFmt.natToAscii v }) := by
  unfold body; rw [h]; rfl
theorem body_float (pj : PJ) (s : MState) (h : s.i.t = tagFloat) :
    body pj s = (do
      let v ← s.i.float pj
      match FloatFmt.appendFloat v with
      | none => .error .generic
      | some b => contF pj { s with dst := s.dst ++ b }) := by
  unfold body; rw [h]; rfl
theorem body_objStart (pj : PJ) (s : MState) (h : s.i.t = tagObjectStart) :
    body pj s = (do
      let (i, _) ← ({ s.i with addNext := 0 } : Iter).advanceInto pj
      .ok (.inl { i := i, dst := s.dst.push 123, stack := s.stack.push stackObject })) := by
  unfold body; rw [h]; rfl
theorem body_arrStart (pj : PJ) (s : MState) (h : s.i.t = tagArrayStart) :
    body pj s = (do
      let (i, _) ← ({ s.i with addNext := 0 } : Iter).advanceInto pj
      .ok (.inl { i := i, dst := s.dst.push 91, stack := s.stack.push stackArray })) := by
  unfold body; rw [h]; rfl
theorem body_objEnd (pj : PJ) (s : MState) (h : s.i.t = tagObjectEnd) (hb : s.stack.back! = stackObject) :
    body pj s = contF pj { s with dst := s.dst.push 125, stack := s.stack.pop } := by
  unfold body; rw [h, hb]; rfl
theorem body_arrEnd (pj : PJ) (s : MState) (h : s.i.t = tagArrayEnd) (hb : s.stack.back! = stackArray) :
    body pj s = contF pj { s with dst := s.dst.push 93, stack := s.stack.pop } := by
  unfold body; rw [h, hb]; rfl
theorem body_end (pj : PJ) (s : MState) (h : s.i.t = tagEnd) :
    body pj s = (do
      let nt ← s.i.peekNextTag pj
      if nt == tagEnd then .error .generic else do
      let (i, _) ← s.i.advanceInto pj
      .ok (.inl { s with i := i })) := by
  unfold body; rw [h]; rfl
theorem body_root1 (pj : PJ) (s : MState) (h : s.i.t = tagRoot) (hs : ¬ s.stack.size > 1) :
    body pj s = (do
      let (i, _) ← (if ((s.i.cur.toNat : Int) > s.i.off : Bool) then { s.i with addNext := 0 } else s.i).advanceInto pj
      .ok (.inl { s with i := i, stack := s.stack.push stackRoot })) := by
  unfold body; rw [h]; simp only [show (tagRoot == tagRoot) = true from rfl, if_true, hs, if_false]
theorem body_root2 (pj : PJ) (s : MState) (h : s.i.t = tagRoot) (hs : s.stack.size > 1)
    (hc : ¬ ((s.i.cur.toNat : Int) > s.i.off)) (hb : s.stack.back! = stackRoot) :
    body pj s = (do
      let nt ← s.i.peekNextTag pj
      let dst := if nt != tagEnd then s.dst.push 10 else s.dst
      contF pj { s with dst := dst, stack := s.stack.pop } false) := by
  unfold body; rw [h, hb]
  simp only [show (tagRoot == tagRoot) = true from rfl, if_true, hs, hc, decide_false, Bool.false_eq_true, if_false,
    show (stackRoot == stackRoot) = true from rfl]

/-- key prefix is skipped unless we are directly inside an object -/
theorem keyPart_skip (pj : PJ) (s : MState) (h : s.stack.back! ≠ stackObject ∨ s.i.t = tagObjectEnd) :
    keyPart pj s = .ok s := by
  unfold keyPart
  rcases h with h | h
  · have : ¬ ((s.stack.back! == stackObject) = true ∧ (s.i.t != tagObjectEnd) = true) := by
      intro ⟨a, _⟩; exact h (by simpa using a)
    rw [if_neg this]
  · have : ¬ ((s.stack.back! == stackObject) = true ∧ (s.i.t != tagObjectEnd) = true) := by
      intro ⟨_, b⟩; rw [h] at b; exact absurd b (by decide)
    rw [if_neg this]

/-! ## 3. `cont` -/

theorem contF_stop (pj : PJ) (s : MState) (h : s.stack.size = 1) : contF pj s true = .ok (.inr s) := by
  unfold contF
  simp only [h, beq_self_eq_true, and_self, if_true]

theorem contF_adv (pj : PJ) (s : MState) (done : Bool) (hsz : done = false ∨ 1 < s.stack.size) {nt tg : UInt8} {i' : Iter}
    (hp : s.i.peekNextTag pj = .ok nt) (hne : (nt == tagEnd) = false) (ha : s.i.advanceInto pj = .ok (i', tg)) :
    contF pj s done = .ok (.inl { s with i := i', dst :=
      if s.stack.back! == stackArray then (if i'.t == tagArrayEnd then s.dst else s.dst.push 44)
      else if s.stack.back! == stackObject then (if i'.t == tagObjectEnd then s.dst else s.dst.push 44)
      else s.dst }) := by
  unfold contF
  have : ¬ (done = true ∧ (s.stack.size == 1) = true) := by
    rintro ⟨a, b⟩
    rcases hsz with h | h
    · rw [h] at a; cases a
    · have : s.stack.size = 1 := by simpa using b
      omega
  rw [if_neg this]
  unfold Iter.marshalPost
  simp only [hp, Res.bind_ok, hne, Bool.false_eq_true, if_false, ha]

theorem contF_end (pj : PJ) (s : MState) (done : Bool) (hsz : done = false ∨ 1 < s.stack.size)
    (hp : s.i.peekNextTag pj = .ok tagEnd) : contF pj s done = .ok (.inr s) := by
  unfold contF
  have : ¬ (done = true ∧ (s.stack.size == 1) = true) := by
    rintro ⟨a, b⟩
    rcases hsz with h | h
    · rw [h] at a; cases a
    · have : s.stack.size = 1 := by simpa using b
      omega
  rw [if_neg this]
  unfold Iter.marshalPost
  simp only [hp, Res.bind_ok, beq_self_eq_true, if_true]

/-! ## 4. Peek / AdvanceInto at a live word after a gap -/

theorem peek_at (pj : PJ) (i : Iter) (lo a : Nat) (w : UInt64) (g : Gap pj lo a) (hw : word pj a = some w)
    (hn : (tagOf w == tagNop) = false) (hl : a < i.lim) (ha : 0 ≤ i.addNext) (hlo : (i.off : Int) + i.addNext = lo) :
    i.peekNextTag pj = .ok (tagOf w) := by
  unfold Iter.peekNextTag
  rw [bump_to i lo ha hlo]
  simp only [Res.bind_ok]
  rw [peekLoop_gap pj i.lim g (by omega), peekLoop_live pj i.lim hw hn hl]

theorem peek_lim (pj : PJ) (i : Iter) (lo : Nat) (g : Gap pj lo i.lim) (ha : 0 ≤ i.addNext)
    (hlo : (i.off : Int) + i.addNext = lo) : i.peekNextTag pj = .ok tagEnd := by
  unfold Iter.peekNextTag
  rw [bump_to i lo ha hlo]
  simp only [Res.bind_ok]
  rw [peekLoop_gap pj i.lim g (Nat.le_refl _), Iter.peekLoop]
  simp only [ge_iff_le, Nat.le_refl, dite_true]

/-- `AdvanceInto` onto a word that is not the first word of a two-word value (closers, root words) -/
theorem advanceInto_at (pj : PJ) (i : Iter) (lo a : Nat) (w : UInt64) (g : Gap pj lo a) (hw : word pj a = some w)
    (hn : (tagOf w == tagNop) = false) (h0 : inCase (caseOf swCalcNext 0) (tagOf w) = false)
    (hl : a < i.lim) (ha : 0 ≤ i.addNext) (hlo : (i.off : Int) + i.addNext = lo) :
    i.advanceInto pj = .ok ({ lim := i.lim, off := a + 1, addNext := 0, cur := payloadOf w, t := tagOf w }, tagOf w) := by
  unfold Iter.advanceInto
  rw [bump_to i lo ha hlo]
  simp only [Res.bind_ok]
  rw [advanceIntoLoop_gap pj i g (by omega), advanceIntoLoop_live pj i hw hn hl]
  simp only [Res.bind_ok, Bool.not_true, Bool.false_eq_true, if_false]
  have hc : ({ i with off := a + 1, cur := payloadOf w, t := tagOf w } : Iter).calcNext true =
      { lim := i.lim, off := a + 1, addNext := 0, cur := payloadOf w, t := tagOf w } := by
    unfold Iter.calcNext
    simp only [h0, Bool.false_eq_true, if_false, if_true]
    split <;> rfl
  rw [hc]
  simp only [Int.lt_irrefl, if_false]

/-- `peek` in front of a node -/
theorem peek_node (pj : PJ) (i : Iter) (lo : Nat) (v : LVal) (g : Gap pj lo v.pos) (hok : Ok pj v)
    (hfin : v.fin ≤ i.lim) (ha : 0 ≤ i.addNext) (hlo : (i.off : Int) + i.addNext = lo) :
    i.peekNextTag pj = .ok (tagOfL v) := by
  obtain ⟨w, hw, ht⟩ := ok_head pj v hok
  have hpf := pos_lt_fin v pj hok
  rw [← ht]
  exact peek_at pj i lo v.pos w g hw (by rw [ht]; exact tagOfL_ne_nop v) (by omega) ha hlo

theorem tagOfL_ne_end (v : LVal) : (tagOfL v == tagEnd) = false := by
  cases v <;> simp only [tagOfL] <;> first | decide | (rename_i b _; cases b <;> decide)
theorem tagOfL_ne_arrayEnd (v : LVal) : (tagOfL v == tagArrayEnd) = false := by
  cases v <;> simp only [tagOfL] <;> first | decide | (rename_i b _; cases b <;> decide)

/-! ## 5. Bytes -/

theorem escapeBytes_append (a b src : Bytes) : escapeBytes (a ++ b) src = a ++ escapeBytes b src := by
  apply Array.ext'
  rw [Array.toList_append, SJ.Escape.escapeBytes_eq, SJ.Escape.escapeBytes_eq, Array.toList_append, List.append_assoc]

theorem quoted_eq (dst sb : Bytes) : Iter.quoted dst sb = dst ++ Iter.quoted #[] sb := by
  unfold Iter.quoted
  rw [Array.push_eq_append, Array.push_eq_append, Array.push_eq_append, Array.push_eq_append]
  rw [Array.empty_append, escapeBytes_append dst #[34] sb, Array.append_assoc]

/-! ## 6. Specifications of the pieces of the run -/

/-- the cursor standing on a closing word `c` at position `hi` -/
def closeIter (lim hi : Nat) (c : UInt64) : Iter :=
  { lim := lim, off := hi + 1, addNext := 0, cur := payloadOf c, t := tagOf c }

/-- Starting the `switch` on node `v` (any stack), the loop reaches the `cont` that follows the complete value,
    with `render v` appended, the same stack, and a cursor whose next position is `v.fin`. -/
def ValueSpec (pj : PJ) (v : LVal) : Prop :=
  ∀ s : MState, OnNode pj v s.i → 1 ≤ s.stack.size →
    ∃ (k : Nat) (i' : Iter), k + 1 ≤ v.fin - v.pos ∧ i'.lim = s.i.lim ∧
      (s.i.addNext = intoNext v → 0 ≤ i'.addNext ∧ (i'.off : Int) + i'.addNext = v.fin) ∧
      ∀ fuel, run pj (body pj s) (fuel + k) =
        run pj (contF pj { i := i', stack := s.stack, dst := s.dst ++ render v } true) fuel

/-- In an array, from the `cont` after an element: the remaining elements `vs` (each preceded by a comma) are
    written and the loop arrives at the `switch` on the closing bracket. -/
def TailSpec (pj : PJ) (vs : LVals) (lo hi : Nat) : Prop :=
  ∀ (s : MState) (c : UInt64), word pj hi = some c → tagOf c = tagArrayEnd → hi < s.i.lim →
    0 ≤ s.i.addNext → (s.i.off : Int) + s.i.addNext = lo → s.stack.back! = stackArray → 1 < s.stack.size →
    ∃ k, k ≤ hi - lo + 1 ∧ ∀ fuel, run pj (contF pj s true) (fuel + k) =
      run pj (body pj { i := closeIter s.i.lim hi c, stack := s.stack, dst := s.dst ++ renderTail vs }) fuel

/-- In an array, right after the opening bracket. -/
def EnterSpec (pj : PJ) (vs : LVals) (lo hi : Nat) : Prop :=
  ∀ (i0 : Iter) (σ : Array UInt8) (d : Bytes) (c : UInt64), word pj hi = some c → tagOf c = tagArrayEnd → hi < i0.lim →
    0 ≤ i0.addNext → (i0.off : Int) + i0.addNext = lo → σ.back! = stackArray → 1 < σ.size →
    ∃ r, i0.advanceInto pj = .ok r ∧ ∃ k, k ≤ hi - lo + 1 ∧
      ∀ fuel, run pj (.ok (.inl { i := r.1, stack := σ, dst := d })) (fuel + k) =
        run pj (body pj { i := closeIter i0.lim hi c, stack := σ, dst := d ++ renderElems vs }) fuel

def MTailSpec (pj : PJ) (ms : LMems) (lo hi : Nat) : Prop :=
  ∀ (s : MState) (c : UInt64), word pj hi = some c → tagOf c = tagObjectEnd → hi < s.i.lim →
    0 ≤ s.i.addNext → (s.i.off : Int) + s.i.addNext = lo → s.stack.back! = stackObject → 1 < s.stack.size →
    ∃ k, k ≤ hi - lo + 1 ∧ ∀ fuel, run pj (contF pj s true) (fuel + k) =
      run pj (body pj { i := closeIter s.i.lim hi c, stack := s.stack, dst := s.dst ++ renderMTail ms }) fuel

def MEnterSpec (pj : PJ) (ms : LMems) (lo hi : Nat) : Prop :=
  ∀ (i0 : Iter) (σ : Array UInt8) (d : Bytes) (c : UInt64), word pj hi = some c → tagOf c = tagObjectEnd → hi < i0.lim →
    0 ≤ i0.addNext → (i0.off : Int) + i0.addNext = lo → σ.back! = stackObject → 1 < σ.size →
    ∃ r, i0.advanceInto pj = .ok r ∧ ∃ k, k ≤ hi - lo + 1 ∧
      ∀ fuel, run pj (.ok (.inl { i := r.1, stack := σ, dst := d })) (fuel + k) =
        run pj (body pj { i := closeIter i0.lim hi c, stack := σ, dst := d ++ renderMems ms }) fuel

/-! ## 7. Scalars -/

theorem value_null (pj : PJ) (p : Nat) (hok : Ok pj (.null p)) : ValueSpec pj (.null p) := by
  intro s ⟨hoff, ⟨w, hw, hit, hic⟩, hfin, _⟩ _
  simp only [Ok, LVal.pos, LVal.fin] at hok hw hfin hoff
  obtain ⟨w', a, b⟩ := hok
  cases word_inj hw a
  refine ⟨0, s.i, by simp only [LVal.pos, LVal.fin]; omega, rfl, fun h => ?_, fun fuel => ?_⟩
  · simp only [intoNext] at h
    simp only [LVal.fin]
    omega
  · rw [body_null pj s (by rw [hit, b])]; rfl

theorem value_bool (pj : PJ) (bb : Bool) (p : Nat) (hok : Ok pj (.bool bb p)) : ValueSpec pj (.bool bb p) := by
  intro s ⟨hoff, ⟨w, hw, hit, hic⟩, hfin, _⟩ _
  simp only [Ok, LVal.pos, LVal.fin] at hok hw hfin hoff
  obtain ⟨w', a, b⟩ := hok
  cases word_inj hw a
  refine ⟨0, s.i, by simp only [LVal.pos, LVal.fin]; omega, rfl, fun h => ?_, fun fuel => ?_⟩
  · simp only [intoNext] at h
    simp only [LVal.fin]
    omega
  · cases bb
    · rw [body_false pj s (by rw [hit, b]; rfl)]; rfl
    · rw [body_true pj s (by rw [hit, b]; rfl)]; rfl

theorem value_int (pj : PJ) (x : UInt64) (p : Nat) (hok : Ok pj (.int x p)) : ValueSpec pj (.int x p) := by
  intro s ⟨hoff, ⟨w, hw, hit, hic⟩, hfin, _⟩ _
  simp only [Ok, LVal.pos, LVal.fin] at hok hw hfin hoff
  obtain ⟨w', a, b, hx⟩ := hok
  cases word_inj hw a
  refine ⟨0, s.i, by simp only [LVal.pos, LVal.fin]; omega, rfl, fun h => ?_, fun fuel => ?_⟩
  · simp only [intoNext] at h
    simp only [LVal.fin]
    omega
  · rw [body_int pj s (by rw [hit, b])]
    unfold Iter.int
    rw [hit, b, valWord_of pj s.i (by omega) (by rw [hoff]; exact hx)]
    simp only [show (tagInteger == tagFloat) = false from by decide, beq_self_eq_true, if_true,
      Bool.false_eq_true, if_false, Res.bind_ok]
    rfl

theorem value_uint (pj : PJ) (x : UInt64) (p : Nat) (hok : Ok pj (.uint x p)) : ValueSpec pj (.uint x p) := by
  intro s ⟨hoff, ⟨w, hw, hit, hic⟩, hfin, _⟩ _
  simp only [Ok, LVal.pos, LVal.fin] at hok hw hfin hoff
  obtain ⟨w', a, b, hx⟩ := hok
  cases word_inj hw a
  refine ⟨0, s.i, by simp only [LVal.pos, LVal.fin]; omega, rfl, fun h => ?_, fun fuel => ?_⟩
  · simp only [intoNext] at h
    simp only [LVal.fin]
    omega
  · rw [body_uint pj s (by rw [hit, b])]
    unfold Iter.uint
    rw [hit, b, valWord_of pj s.i (by omega) (by rw [hoff]; exact hx)]
    simp only [show (tagUint == tagFloat) = false from by decide, show (tagUint == tagInteger) = false from by decide,
      beq_self_eq_true, if_true, Bool.false_eq_true, if_false, Res.bind_ok]
    rfl

theorem value_float (pj : PJ) (x f : UInt64) (p : Nat) (hok : Ok pj (.float x f p)) (hf : FloatsOk (.float x f p)) :
    ValueSpec pj (.float x f p) := by
  intro s ⟨hoff, ⟨w, hw, hit, hic⟩, hfin, _⟩ _
  simp only [Ok, LVal.pos, LVal.fin] at hok hw hfin hoff
  obtain ⟨w', a, b, hfl, hx⟩ := hok
  cases word_inj hw a
  refine ⟨0, s.i, by simp only [LVal.pos, LVal.fin]; omega, rfl, fun h => ?_, fun fuel => ?_⟩
  · simp only [intoNext] at h
    simp only [LVal.fin]
    omega
  · rw [body_float pj s (by rw [hit, b])]
    unfold Iter.float
    rw [hit, b, valWord_of pj s.i (by omega) (by rw [hoff]; exact hx)]
    simp only [beq_self_eq_true, if_true, Res.bind_ok]
    simp only [FloatsOk] at hf
    cases hb : FloatFmt.appendFloat x with
    | none => exact absurd hb hf
    | some bs => simp only [render, hb, Option.getD_some]; rfl

theorem value_str (pj : PJ) (st : List UInt8) (p : Nat) (hok : Ok pj (.str st p)) : ValueSpec pj (.str st p) := by
  intro s ⟨hoff, ⟨w, hw, hit, hic⟩, hfin, _⟩ _
  simp only [Ok, StrAt, LVal.pos, LVal.fin] at hok hw hfin hoff
  obtain ⟨w', len, a, hlen, b, hstr⟩ := hok
  cases word_inj hw a
  refine ⟨0, s.i, by simp only [LVal.pos, LVal.fin]; omega, rfl, fun h => ?_, fun fuel => ?_⟩
  · simp only [intoNext] at h
    simp only [LVal.fin]
    omega
  · rw [body_string pj s (by rw [hit, b])]
    unfold Iter.stringBytes
    rw [hit, b, valWord_of pj s.i (by omega) (by rw [hoff]; exact hlen), hic]
    simp only [bne_self_eq_false, Bool.false_eq_true, if_false, Res.bind_ok, hstr]
    rw [quoted_eq]
    rfl

/-! ## 8. Arrays -/

theorem stackArray_ne_object : stackArray ≠ stackObject := by decide

/-- the loop iteration on an element node in an array: no key prefix -/
theorem run_inl_arr (pj : PJ) (s : MState) (fuel : Nat) (hb : s.stack.back! = stackArray) :
    run pj (.ok (.inl s)) (fuel + 1) = run pj (body pj s) fuel := by
  rw [run_inl, keyPart_skip pj s (Or.inl (by rw [hb]; exact stackArray_ne_object))]
  rfl

theorem tail_nil (pj : PJ) (lo hi : Nat) (g : Gap pj lo hi) : TailSpec pj .nil lo hi := by
  intro s c hc hct hlt ha hlo hb hsz
  refine ⟨1, by omega, fun fuel => ?_⟩
  have hn : (tagOf c == tagNop) = false := by rw [hct]; decide
  rw [contF_adv pj s true (Or.inr hsz) (peek_at pj s.i lo hi c g hc hn hlt ha hlo) (by rw [hct]; decide)
    (advanceInto_at pj s.i lo hi c g hc hn (by rw [hct]; decide) hlt ha hlo)]
  rw [run_inl_arr pj _ fuel (by exact hb)]
  simp only [hb, hct, closeIter, beq_self_eq_true, if_true, renderTail, Array.append_empty]

theorem tail_cons (pj : PJ) (v : LVal) (vs : LVals) (lo hi : Nat) (g : Gap pj lo v.pos) (hok : Ok pj v)
    (hfin : v.fin ≤ hi) (hv : ValueSpec pj v) (ht : TailSpec pj vs v.fin hi) : TailSpec pj (.cons v vs) lo hi := by
  intro s c hc hct hlt ha hlo hb hsz
  have hpf := pos_lt_fin v pj hok
  have hg := g.1
  obtain ⟨w, hw, hwt, hadv⟩ := advanceInto_node pj s.i lo v g hok (by omega) ha hlo
  have hin := intoNext_le pj v hok
  obtain ⟨kv, i', hkv, hlim, hnext, hrun⟩ := hv
    { i := { lim := s.i.lim, off := v.pos + 1, addNext := intoNext v, cur := payloadOf w, t := tagOf w },
      stack := s.stack, dst := s.dst ++ #[44] }
    ⟨rfl, ⟨w, hw, rfl, rfl⟩, by show v.fin ≤ s.i.lim; omega, by simp only; omega⟩ (by show 1 ≤ s.stack.size; omega)
  obtain ⟨hn1, hn2⟩ := hnext rfl
  simp only at hlim
  obtain ⟨kt, hkt, htrun⟩ := ht { i := i', stack := s.stack, dst := (s.dst ++ #[44]) ++ render v } c hc hct
    (by show hi < i'.lim; omega) hn1 hn2 hb hsz
  refine ⟨kt + kv + 1, by omega, fun fuel => ?_⟩
  rw [contF_adv pj s true (Or.inr hsz) (peek_node pj s.i lo v g hok (by omega) ha hlo) (tagOfL_ne_end v) hadv]
  rw [show fuel + (kt + kv + 1) = (fuel + kt + kv) + 1 from by omega, run_inl_arr pj _ _ (by exact hb)]
  have e : (tagOf w == tagArrayEnd) = false := by rw [hwt]; exact tagOfL_ne_arrayEnd v
  simp only [hb, e, beq_self_eq_true, if_true, Bool.false_eq_true, if_false, Array.push_eq_append]
  rw [hrun (fuel + kt), htrun fuel]
  simp only [hlim, renderTail, Array.append_assoc]

theorem enter_nil (pj : PJ) (lo hi : Nat) (g : Gap pj lo hi) : EnterSpec pj .nil lo hi := by
  intro i0 σ d c hc hct hlt ha hlo hb hsz
  have hn : (tagOf c == tagNop) = false := by rw [hct]; decide
  refine ⟨_, advanceInto_at pj i0 lo hi c g hc hn (by rw [hct]; decide) hlt ha hlo, 1, by omega, fun fuel => ?_⟩
  rw [run_inl_arr pj _ fuel (by exact hb)]
  simp only [renderElems, Array.append_empty]
  rfl

theorem enter_cons (pj : PJ) (v : LVal) (vs : LVals) (lo hi : Nat) (g : Gap pj lo v.pos) (hok : Ok pj v)
    (hfin : v.fin ≤ hi) (hv : ValueSpec pj v) (ht : TailSpec pj vs v.fin hi) : EnterSpec pj (.cons v vs) lo hi := by
  intro i0 σ d c hc hct hlt ha hlo hb hsz
  have hpf := pos_lt_fin v pj hok
  have hg := g.1
  obtain ⟨w, hw, hwt, hadv⟩ := advanceInto_node pj i0 lo v g hok (by omega) ha hlo
  have hin := intoNext_le pj v hok
  obtain ⟨kv, i', hkv, hlim, hnext, hrun⟩ := hv
    { i := { lim := i0.lim, off := v.pos + 1, addNext := intoNext v, cur := payloadOf w, t := tagOf w },
      stack := σ, dst := d }
    ⟨rfl, ⟨w, hw, rfl, rfl⟩, by show v.fin ≤ i0.lim; omega, by simp only; omega⟩ (by show 1 ≤ σ.size; omega)
  obtain ⟨hn1, hn2⟩ := hnext rfl
  simp only at hlim
  obtain ⟨kt, hkt, htrun⟩ := ht { i := i', stack := σ, dst := d ++ render v } c hc hct
    (by show hi < i'.lim; omega) hn1 hn2 hb hsz
  refine ⟨_, hadv, kt + kv + 1, by omega, fun fuel => ?_⟩
  rw [show fuel + (kt + kv + 1) = (fuel + kt + kv) + 1 from by omega, run_inl_arr pj _ _ (by exact hb)]
  rw [hrun (fuel + kt), htrun fuel]
  simp only [hlim, renderElems, Array.append_assoc]

theorem back_push (σ : Array UInt8) (x : UInt8) : (σ.push x).back! = x := by
  simp [Array.back!]

theorem value_arr (pj : PJ) (p e : Nat) (es : LVals) (hok : Ok pj (.arr p e es))
    (he : EnterSpec pj es (p + 1) (e - 1)) : ValueSpec pj (.arr p e es) := by
  intro s ⟨hoff, ⟨w, hw, hit, hic⟩, hfin, _⟩ hsz
  simp only [Ok, LVal.pos, LVal.fin] at hok hw hfin hoff
  obtain ⟨hpe, ⟨w', a, b, hpl⟩, ⟨c, hc, hct, _⟩, hes⟩ := hok
  cases word_inj hw a
  obtain ⟨r, hadv, k, hk, hrun⟩ := he { s.i with addNext := 0 } (s.stack.push stackArray) (s.dst.push 91) c hc hct
    (by show e - 1 < s.i.lim; omega) (Int.le_refl _) (by show (s.i.off : Int) + 0 = _; omega)
    (back_push _ _) (by rw [Array.size_push]; omega)
  obtain ⟨i1, tg⟩ := r
  refine ⟨k, closeIter s.i.lim (e - 1) c, by simp only [LVal.pos, LVal.fin]; omega, rfl,
    fun _ => ⟨Int.le_refl _, by show ((e - 1 + 1 : Nat) : Int) + 0 = _; simp only [LVal.fin]; omega⟩, fun fuel => ?_⟩
  rw [body_arrStart pj s (by rw [hit, b]), hadv]
  simp only [Res.bind_ok]
  rw [hrun fuel, body_arrEnd pj _ hct (back_push _ _)]
  simp only [Array.pop_push]
  simp only [render, Array.push_eq_append, Array.append_assoc]

/-! ## 9. Objects -/

/-- One loop iteration on a member: key prefix (`"key":`), then the value.  A gap between the key and the value
    is skipped by `PeekNextTag`/`AdvanceInto`, so no tightness assumption is needed. -/
theorem member_run (pj : PJ) (pk : Nat) (k : List UInt8) (v : LVal) (hs : StrAt pj k pk) (g2 : Gap pj (pk + 2) v.pos)
    (hok : Ok pj v) (hv : ValueSpec pj v) (s : MState) (kw : UInt64) (hkw : word pj pk = some kw)
    (hoff : s.i.off = pk + 1) (hit : s.i.t = tagOf kw) (hic : s.i.cur = payloadOf kw) (hadd : s.i.addNext = 1)
    (hfin : v.fin ≤ s.i.lim) (hb : s.stack.back! = stackObject) (hsz : 1 < s.stack.size) :
    ∃ (kv : Nat) (i' : Iter), kv + 1 ≤ v.fin - v.pos ∧ i'.lim = s.i.lim ∧ 0 ≤ i'.addNext ∧
      (i'.off : Int) + i'.addNext = v.fin ∧
      ∀ fuel, run pj (.ok (.inl s)) (fuel + kv + 1) =
        run pj (contF pj { i := i', stack := s.stack, dst := s.dst ++ ((Iter.quoted #[] k.toArray ++ (#[58] ++ render v))) } true) fuel := by
  obtain ⟨w', len, a, hlen, b, hstr⟩ := hs
  cases word_inj hkw a
  have hpf := pos_lt_fin v pj hok
  have hg := g2.1
  obtain ⟨w, hw, hwt, hadv⟩ := advanceInto_node pj s.i (pk + 2) v g2 hok hfin (by omega) (by omega)
  have hin := intoNext_le pj v hok
  obtain ⟨kv, i', hkv, hlim, hnext, hrun⟩ := hv
    { i := { lim := s.i.lim, off := v.pos + 1, addNext := intoNext v, cur := payloadOf w, t := tagOf w },
      stack := s.stack, dst := (Iter.quoted s.dst k.toArray).push 58 }
    ⟨rfl, ⟨w, hw, rfl, rfl⟩, by show v.fin ≤ s.i.lim; omega, by simp only; omega⟩ (by show 1 ≤ s.stack.size; omega)
  obtain ⟨hn1, hn2⟩ := hnext rfl
  simp only at hlim
  refine ⟨kv, i', hkv, hlim, hn1, hn2, fun fuel => ?_⟩
  rw [run_inl]
  have hkey : keyPart pj s = .ok { i := { lim := s.i.lim, off := v.pos + 1, addNext := intoNext v, cur := payloadOf w, t := tagOf w }, stack := s.stack, dst := (Iter.quoted s.dst k.toArray).push 58 } := by
    unfold keyPart
    have hc : (s.stack.back! == stackObject) = true ∧ (s.i.t != tagObjectEnd) = true := by
      rw [hb, hit, b]; exact ⟨rfl, rfl⟩
    rw [if_pos hc]
    unfold Iter.stringBytes
    rw [hit, b, valWord_of pj s.i (by omega) (by rw [hoff]; exact hlen), hic]
    simp only [bne_self_eq_false, Bool.false_eq_true, if_false, Res.bind_ok, hstr]
    rw [peek_node pj s.i (pk + 2) v g2 hok hfin (by omega) (by omega)]
    simp only [Res.bind_ok, tagOfL_ne_end v, Bool.false_eq_true, if_false, hadv]
  rw [hkey]
  simp only [Res.bind_ok]
  rw [hrun fuel, quoted_eq]
  simp only [Array.push_eq_append, Array.append_assoc]

theorem stackObject_ne_array : (stackObject == stackArray) = false := by decide

/-- the loop iteration on the closing brace: no key prefix -/
theorem run_inl_close (pj : PJ) (s : MState) (fuel : Nat) (ht : s.i.t = tagObjectEnd) :
    run pj (.ok (.inl s)) (fuel + 1) = run pj (body pj s) fuel := by
  rw [run_inl, keyPart_skip pj s (Or.inr ht)]
  rfl

theorem mtail_nil (pj : PJ) (lo hi : Nat) (g : Gap pj lo hi) : MTailSpec pj .nil lo hi := by
  intro s c hc hct hlt ha hlo hb hsz
  refine ⟨1, by omega, fun fuel => ?_⟩
  have hn : (tagOf c == tagNop) = false := by rw [hct]; decide
  rw [contF_adv pj s true (Or.inr hsz) (peek_at pj s.i lo hi c g hc hn hlt ha hlo) (by rw [hct]; decide)
    (advanceInto_at pj s.i lo hi c g hc hn (by rw [hct]; decide) hlt ha hlo)]
  rw [run_inl_close pj _ fuel (by exact hct)]
  simp only [hb, hct, closeIter, stackObject_ne_array, beq_self_eq_true, if_true, Bool.false_eq_true, if_false,
    renderMTail, Array.append_empty]

theorem tagString_ne_objectEnd : (tagString == tagObjectEnd) = false := by decide

theorem mtail_cons (pj : PJ) (pk : Nat) (k : List UInt8) (v : LVal) (ms : LMems) (lo hi : Nat) (g1 : Gap pj lo pk)
    (hs : StrAt pj k pk) (g2 : Gap pj (pk + 2) v.pos) (hok : Ok pj v) (hfin : v.fin ≤ hi) (hv : ValueSpec pj v)
    (ht : MTailSpec pj ms v.fin hi) : MTailSpec pj (.cons pk k v ms) lo hi := by
  intro s c hc hct hlt ha hlo hb hsz
  have hpf := pos_lt_fin v pj hok
  have hg1 := g1.1
  have hg2 := g2.1
  have hoks : Ok pj (.str k pk) := hs
  obtain ⟨w, hw, hwt, hadv⟩ := advanceInto_node pj s.i lo (.str k pk) g1 hoks (by show pk + 2 ≤ s.i.lim; omega) ha hlo
  simp only [LVal.pos, tagOfL, intoNext] at hw hwt hadv
  obtain ⟨kv, i', hkv, hlim, hn1, hn2, hrun⟩ := member_run pj pk k v hs g2 hok hv
    { i := { lim := s.i.lim, off := pk + 1, addNext := 1, cur := payloadOf w, t := tagOf w },
      stack := s.stack, dst := s.dst ++ #[44] } w hw rfl rfl rfl rfl (by show v.fin ≤ s.i.lim; omega) hb hsz
  simp only at hlim
  obtain ⟨kt, hkt, htrun⟩ := ht { i := i', stack := s.stack, dst := (s.dst ++ #[44]) ++ ((Iter.quoted #[] k.toArray ++ (#[58] ++ render v))) } c hc hct
    (by show hi < i'.lim; omega) hn1 hn2 hb hsz
  refine ⟨kt + kv + 1, by omega, fun fuel => ?_⟩
  have hpk := peek_node pj s.i lo (.str k pk) g1 hoks (by show pk + 2 ≤ s.i.lim; omega) ha hlo
  simp only [tagOfL] at hpk
  rw [contF_adv pj s true (Or.inr hsz) hpk (by decide) hadv]
  have e : (tagOf w == tagObjectEnd) = false := by rw [hwt]; decide
  simp only [hb, e, stackObject_ne_array, beq_self_eq_true, if_true, Bool.false_eq_true, if_false, Array.push_eq_append]
  rw [show fuel + (kt + kv + 1) = (fuel + kt) + kv + 1 from by omega, hrun (fuel + kt), htrun fuel]
  simp only [hlim, renderMTail, Array.append_assoc]

theorem menter_nil (pj : PJ) (lo hi : Nat) (g : Gap pj lo hi) : MEnterSpec pj .nil lo hi := by
  intro i0 σ d c hc hct hlt ha hlo hb hsz
  have hn : (tagOf c == tagNop) = false := by rw [hct]; decide
  refine ⟨_, advanceInto_at pj i0 lo hi c g hc hn (by rw [hct]; decide) hlt ha hlo, 1, by omega, fun fuel => ?_⟩
  rw [run_inl_close pj _ fuel (by exact hct)]
  simp only [renderMems, Array.append_empty]
  rfl

theorem menter_cons (pj : PJ) (pk : Nat) (k : List UInt8) (v : LVal) (ms : LMems) (lo hi : Nat) (g1 : Gap pj lo pk)
    (hs : StrAt pj k pk) (g2 : Gap pj (pk + 2) v.pos) (hok : Ok pj v) (hfin : v.fin ≤ hi) (hv : ValueSpec pj v)
    (ht : MTailSpec pj ms v.fin hi) : MEnterSpec pj (.cons pk k v ms) lo hi := by
  intro i0 σ d c hc hct hlt ha hlo hb hsz
  have hpf := pos_lt_fin v pj hok
  have hg1 := g1.1
  have hg2 := g2.1
  have hoks : Ok pj (.str k pk) := hs
  obtain ⟨w, hw, hwt, hadv⟩ := advanceInto_node pj i0 lo (.str k pk) g1 hoks (by show pk + 2 ≤ i0.lim; omega) ha hlo
  simp only [LVal.pos, tagOfL, intoNext] at hw hwt hadv
  obtain ⟨kv, i', hkv, hlim, hn1, hn2, hrun⟩ := member_run pj pk k v hs g2 hok hv
    { i := { lim := i0.lim, off := pk + 1, addNext := 1, cur := payloadOf w, t := tagOf w },
      stack := σ, dst := d } w hw rfl rfl rfl rfl (by show v.fin ≤ i0.lim; omega) hb hsz
  simp only at hlim
  obtain ⟨kt, hkt, htrun⟩ := ht { i := i', stack := σ, dst := d ++ ((Iter.quoted #[] k.toArray ++ (#[58] ++ render v))) } c hc hct
    (by show hi < i'.lim; omega) hn1 hn2 hb hsz
  refine ⟨_, hadv, kt + kv + 1, by omega, fun fuel => ?_⟩
  rw [show fuel + (kt + kv + 1) = (fuel + kt) + kv + 1 from by omega, hrun (fuel + kt), htrun fuel]
  simp only [hlim, renderMems, Array.append_assoc]

theorem value_obj (pj : PJ) (p e : Nat) (ms : LMems) (hok : Ok pj (.obj p e ms))
    (he : MEnterSpec pj ms (p + 1) (e - 1)) : ValueSpec pj (.obj p e ms) := by
  intro s ⟨hoff, ⟨w, hw, hit, hic⟩, hfin, _⟩ hsz
  simp only [Ok, LVal.pos, LVal.fin] at hok hw hfin hoff
  obtain ⟨hpe, ⟨w', a, b, hpl⟩, ⟨c, hc, hct, _⟩, hes⟩ := hok
  cases word_inj hw a
  obtain ⟨r, hadv, k, hk, hrun⟩ := he { s.i with addNext := 0 } (s.stack.push stackObject) (s.dst.push 123) c hc hct
    (by show e - 1 < s.i.lim; omega) (Int.le_refl _) (by show (s.i.off : Int) + 0 = _; omega)
    (back_push _ _) (by rw [Array.size_push]; omega)
  obtain ⟨i1, tg⟩ := r
  refine ⟨k, closeIter s.i.lim (e - 1) c, by simp only [LVal.pos, LVal.fin]; omega, rfl,
    fun _ => ⟨Int.le_refl _, by show ((e - 1 + 1 : Nat) : Int) + 0 = _; simp only [LVal.fin]; omega⟩, fun fuel => ?_⟩
  rw [body_objStart pj s (by rw [hit, b]), hadv]
  simp only [Res.bind_ok]
  rw [hrun fuel, body_objEnd pj _ hct (back_push _ _)]
  simp only [Array.pop_push]
  simp only [render, Array.push_eq_append, Array.append_assoc]

/-! ## 10. The induction over the located tree -/

mutual
theorem value_spec (pj : PJ) : ∀ v : LVal, Ok pj v → FloatsOk v → ValueSpec pj v
  | .null p, h, _ => value_null pj p h
  | .bool b p, h, _ => value_bool pj b p h
  | .int x p, h, _ => value_int pj x p h
  | .uint x p, h, _ => value_uint pj x p h
  | .float x f p, h, hf => value_float pj x f p h hf
  | .str st p, h, _ => value_str pj st p h
  | .arr p e es, h, hf => value_arr pj p e es h (enter_spec pj es (p + 1) (e - 1) (by simp only [Ok] at h; exact h.2.2.2) (by simpa only [FloatsOk] using hf))
  | .obj p e ms, h, hf => value_obj pj p e ms h (menter_spec pj ms (p + 1) (e - 1) (by simp only [Ok] at h; exact h.2.2.2) (by simpa only [FloatsOk] using hf))
theorem enter_spec (pj : PJ) : ∀ (vs : LVals) (lo hi : Nat), OkElems pj vs lo hi → FloatsOkVs vs → EnterSpec pj vs lo hi
  | .nil, lo, hi, h, _ => enter_nil pj lo hi (by simpa only [OkElems] using h)
  | .cons v vs, lo, hi, h, hf => by
    simp only [OkElems] at h
    simp only [FloatsOkVs] at hf
    exact enter_cons pj v vs lo hi h.1 h.2.1 h.2.2.1 (value_spec pj v h.2.1 hf.1) (tail_spec pj vs v.fin hi h.2.2.2 hf.2)
theorem tail_spec (pj : PJ) : ∀ (vs : LVals) (lo hi : Nat), OkElems pj vs lo hi → FloatsOkVs vs → TailSpec pj vs lo hi
  | .nil, lo, hi, h, _ => tail_nil pj lo hi (by simpa only [OkElems] using h)
  | .cons v vs, lo, hi, h, hf => by
    simp only [OkElems] at h
    simp only [FloatsOkVs] at hf
    exact tail_cons pj v vs lo hi h.1 h.2.1 h.2.2.1 (value_spec pj v h.2.1 hf.1) (tail_spec pj vs v.fin hi h.2.2.2 hf.2)
theorem menter_spec (pj : PJ) : ∀ (ms : LMems) (lo hi : Nat), OkMems pj ms lo hi → FloatsOkMs ms → MEnterSpec pj ms lo hi
  | .nil, lo, hi, h, _ => menter_nil pj lo hi (by simpa only [OkMems] using h)
  | .cons pk k v ms, lo, hi, h, hf => by
    simp only [OkMems] at h
    simp only [FloatsOkMs] at hf
    exact menter_cons pj pk k v ms lo hi h.1 h.2.1 h.2.2.1 h.2.2.2.1 h.2.2.2.2.1 (value_spec pj v h.2.2.2.1 hf.1)
      (mtail_spec pj ms v.fin hi h.2.2.2.2.2 hf.2)
theorem mtail_spec (pj : PJ) : ∀ (ms : LMems) (lo hi : Nat), OkMems pj ms lo hi → FloatsOkMs ms → MTailSpec pj ms lo hi
  | .nil, lo, hi, h, _ => mtail_nil pj lo hi (by simpa only [OkMems] using h)
  | .cons pk k v ms, lo, hi, h, hf => by
    simp only [OkMems] at h
    simp only [FloatsOkMs] at hf
    exact mtail_cons pj pk k v ms lo hi h.1 h.2.1 h.2.2.1 h.2.2.2.1 h.2.2.2.2.1 (value_spec pj v h.2.2.2.1 hf.1)
      (mtail_spec pj ms v.fin hi h.2.2.2.2.2 hf.2)
end

/-! ## 11. Main theorems -/

theorem ok_fin_le (pj : PJ) (v : LVal) (h : Ok pj v) : v.fin ≤ pj.tape.size := by
  cases v <;> simp only [Ok, StrAt, LVal.fin] at *
  case null p => obtain ⟨w, a, _⟩ := h; have := word_lt a; omega
  case bool b p => obtain ⟨w, a, _⟩ := h; have := word_lt a; omega
  case int x p => obtain ⟨w, _, _, a⟩ := h; have := word_lt a; omega
  case uint x p => obtain ⟨w, _, _, a⟩ := h; have := word_lt a; omega
  case float x f p => obtain ⟨w, _, _, _, a⟩ := h; have := word_lt a; omega
  case str s p => obtain ⟨w, l, _, a, _⟩ := h; have := word_lt a; omega
  case arr p e es => obtain ⟨h1, _, ⟨c, a, _⟩, _⟩ := h; have := word_lt a; omega
  case obj p e ms => obtain ⟨h1, _, ⟨c, a, _⟩, _⟩ := h; have := word_lt a; omega

/-- the write loop started on a node, with the initial stack of `MarshalJSONBuffer` -/
theorem marshalLoop_node (pj : PJ) (v : LVal) (i : Iter) (dst : Bytes) (hok : Ok pj v) (hf : FloatsOk v)
    (hon : OnNode pj v i) (fuel : Nat) (hfuel : v.fin - v.pos ≤ fuel) :
    ∃ i', Iter.marshalLoop pj { i := i, stack := #[stackNone], dst := dst } fuel =
      .ok { i := i', stack := #[stackNone], dst := dst ++ render v } := by
  obtain ⟨k, i', hk, _, _, hrun⟩ := value_spec pj v hok hf { i := i, stack := #[stackNone], dst := dst } hon (by show 1 ≤ (#[stackNone] : Array UInt8).size; decide)
  refine ⟨i', ?_⟩
  obtain ⟨f, rfl⟩ : ∃ f, fuel = f + k + 1 := ⟨fuel - k - 1, by omega⟩
  rw [marshalLoop_succ, keyPart_skip pj _ (Or.inl (by show (#[stackNone] : Array UInt8).back! ≠ stackObject; decide))]
  simp only [Res.bind_ok]
  rw [hrun f, contF_stop pj _ rfl, run_inr]

/-- **Main theorem.** `Iter.MarshalJSONBuffer` on a cursor standing on a node of a located document appends
    exactly the canonical text of that node — for every tape that holds the document, gaps (NOP runs) allowed
    everywhere, including between a key and its value. -/
theorem marshalBuf_node (pj : PJ) (v : LVal) (i : Iter) (dst : Bytes) (hok : Ok pj v) (hf : FloatsOk v)
    (hon : OnNode pj v i) : Iter.marshalBuf pj i dst = .ok (dst ++ render v) := by
  have hfin := ok_fin_le pj v hok
  obtain ⟨i', h⟩ := marshalLoop_node pj v i dst hok hf hon (fuelOf pj) (by unfold fuelOf; omega)
  unfold Iter.marshalBuf
  rw [h]
  rfl

theorem marshal_node (pj : PJ) (v : LVal) (i : Iter) (hok : Ok pj v) (hf : FloatsOk v)
    (hon : OnNode pj v i) : Iter.marshal pj i = .ok (render v) := by
  unfold Iter.marshal
  rw [marshalBuf_node pj v i #[] hok hf hon, Array.empty_append]

/-! ## 12. Root entries -/

/-- root entries `vs` from `p` up to the end `lim` of the cursor's view (`OkRoots` is the case `lim = tape.size`) -/
def RootsTo (pj : PJ) (lim : Nat) : List LVal → Nat → Prop
  | [], p => Gap pj p lim
  | v :: vs, p => ∃ q e, Gap pj p q ∧ OkRoot pj v q e ∧ e ≤ lim ∧ RootsTo pj lim vs e

def renderRootsTail : List LVal → Bytes
  | [] => #[]
  | v :: vs => #[10] ++ (render v ++ renderRootsTail vs)

/-- root values separated by newlines (ndjson) -/
def renderRoots : List LVal → Bytes
  | [] => #[]
  | v :: vs => render v ++ renderRootsTail vs

/-- a cursor that has just read the word at `q` -/
def OnWord (pj : PJ) (q : Nat) (i : Iter) : Prop :=
  i.off = q + 1 ∧ ∃ w, word pj q = some w ∧ i.t = tagOf w ∧ i.cur = payloadOf w

theorem run_inl_skip (pj : PJ) (s : MState) (fuel : Nat) (hb : s.stack.back! ≠ stackObject) :
    run pj (.ok (.inl s)) (fuel + 1) = run pj (body pj s) fuel := by
  rw [run_inl, keyPart_skip pj s (Or.inl hb)]
  rfl

theorem back_none_root : (#[stackNone, stackRoot] : Array UInt8).back! = stackRoot := by decide
theorem back_none : (#[stackNone] : Array UInt8).back! = stackNone := by decide

theorem root_run (pj : PJ) (lim : Nat) : ∀ (vs : List LVal) (v : LVal) (q e : Nat) (i : Iter) (d : Bytes),
    OkRoot pj v q e → e ≤ lim → RootsTo pj lim vs e → FloatsOk v → (∀ x ∈ vs, FloatsOk x) → OnWord pj q i → i.lim = lim →
    ∃ (k : Nat) (sf : MState), k ≤ lim - q ∧ sf.stack = #[stackNone] ∧ sf.dst = d ++ renderRoots (v :: vs) ∧
      ∀ fuel, run pj (body pj { i := i, stack := #[stackNone], dst := d }) (fuel + k) = .ok sf := by
  intro vs
  induction vs with
  | nil =>
    intro v q e i d ⟨hqe, ⟨w, hw, hwt, hwp⟩, ⟨c, hc, hct, hcp⟩, g1, hok, g2⟩ hel hrest hf _ ⟨hoff, ⟨w', hw', hit, hic⟩⟩ hlim
    cases word_inj hw hw'
    simp only [RootsTo] at hrest
    have hpf := pos_lt_fin v pj hok
    have hg1 := g1.1
    have hg2 := g2.1
    have hopen : ((i.cur.toNat : Int) > i.off : Bool) = true := by
      rw [hic, hwp, hoff]; simp only [decide_eq_true_eq]; omega
    obtain ⟨x, hx, hxt, hadv⟩ := advanceInto_node pj { i with addNext := 0 } (q + 1) v g1 hok (by show v.fin ≤ i.lim; omega)
      (Int.le_refl _) (by show (i.off : Int) + 0 = _; omega)
    have hin := intoNext_le pj v hok
    obtain ⟨kv, i', hkv, hlim', hnext, hrun⟩ := value_spec pj v hok hf
      { i := { lim := i.lim, off := v.pos + 1, addNext := intoNext v, cur := payloadOf x, t := tagOf x },
        stack := #[stackNone, stackRoot], dst := d }
      ⟨rfl, ⟨x, hx, rfl, rfl⟩, by show v.fin ≤ i.lim; omega, by simp only; omega⟩
      (by show 1 ≤ (#[stackNone, stackRoot] : Array UInt8).size; decide)
    obtain ⟨hn1, hn2⟩ := hnext rfl
    simp only at hlim'
    have hcn : (tagOf c == tagNop) = false := by rw [hct]; decide
    refine ⟨kv + 2, { i := { lim := i'.lim, off := e - 1 + 1, addNext := 0, cur := payloadOf c, t := tagOf c }, stack := #[stackNone], dst := d ++ render v }, by omega, rfl, ?_, fun fuel => ?_⟩
    · simp only [renderRoots, renderRootsTail, Array.append_empty]
    · rw [body_root1 pj _ (by show i.t = tagRoot; rw [hit, hwt]) (by show ¬ (#[stackNone] : Array UInt8).size > 1; decide)]
      simp only [hopen, if_true]
      rw [hadv]
      simp only [Res.bind_ok]
      rw [show fuel + (kv + 2) = (fuel + 1 + kv) + 1 from by omega,
        run_inl_skip pj _ _ (by show (#[stackNone].push stackRoot : Array UInt8).back! ≠ stackObject; decide)]
      rw [show (#[stackNone].push stackRoot : Array UInt8) = #[stackNone, stackRoot] from rfl, hrun (fuel + 1)]
      rw [contF_adv pj { i := i', stack := #[stackNone, stackRoot], dst := d ++ render v } true
        (Or.inr (by show 1 < (#[stackNone, stackRoot] : Array UInt8).size; decide))
        (peek_at pj i' v.fin (e - 1) c g2 hc hcn (by omega) hn1 hn2) (by rw [hct]; decide)
        (advanceInto_at pj i' v.fin (e - 1) c g2 hc hcn (by rw [hct]; decide) (by omega) hn1 hn2)]
      simp only [back_none_root, show (stackRoot == stackArray) = false from by decide,
        show (stackRoot == stackObject) = false from by decide, Bool.false_eq_true, if_false]
      rw [run_inl_skip pj _ _ (by show (#[stackNone, stackRoot] : Array UInt8).back! ≠ stackObject; decide)]
      have hpeek : Iter.peekNextTag pj { lim := i'.lim, off := e - 1 + 1, addNext := 0, cur := payloadOf c, t := tagOf c } = .ok tagEnd :=
        peek_lim pj _ e (by show Gap pj e i'.lim; rw [hlim', hlim]; exact hrest) (Int.le_refl _)
          (by show ((e - 1 + 1 : Nat) : Int) + 0 = _; omega)
      rw [body_root2 pj { i := { lim := i'.lim, off := e - 1 + 1, addNext := 0, cur := payloadOf c, t := tagOf c }, stack := #[stackNone, stackRoot], dst := d ++ render v } hct (by show (#[stackNone, stackRoot] : Array UInt8).size > 1; decide)
        (by show ¬ (((payloadOf c).toNat : Int) > ((e - 1 + 1 : Nat) : Int)); omega) back_none_root]
      simp only [hpeek, Res.bind_ok, bne_self_eq_false, Bool.false_eq_true, if_false]
      rw [contF_end pj { i := { lim := i'.lim, off := e - 1 + 1, addNext := 0, cur := payloadOf c, t := tagOf c }, stack := (#[stackNone, stackRoot] : Array UInt8).pop, dst := d ++ render v } false (Or.inl rfl) hpeek, run_inr]
      rfl
  | cons v2 vs ih =>
    intro v q e i d ⟨hqe, ⟨w, hw, hwt, hwp⟩, ⟨c, hc, hct, hcp⟩, g1, hok, g2⟩ hel hrest hf hfs ⟨hoff, ⟨w', hw', hit, hic⟩⟩ hlim
    cases word_inj hw hw'
    simp only [RootsTo] at hrest
    obtain ⟨q2, e2, g3, hr2, hel2, hrest2⟩ := hrest
    have hr2' := hr2
    obtain ⟨hqe2, ⟨w2, hw2, hwt2, hwp2⟩, _⟩ := hr2'
    have hpf := pos_lt_fin v pj hok
    have hg1 := g1.1
    have hg2 := g2.1
    have hg3 := g3.1
    have hopen : ((i.cur.toNat : Int) > i.off : Bool) = true := by
      rw [hic, hwp, hoff]; simp only [decide_eq_true_eq]; omega
    obtain ⟨x, hx, hxt, hadv⟩ := advanceInto_node pj { i with addNext := 0 } (q + 1) v g1 hok (by show v.fin ≤ i.lim; omega)
      (Int.le_refl _) (by show (i.off : Int) + 0 = _; omega)
    have hin := intoNext_le pj v hok
    obtain ⟨kv, i', hkv, hlim', hnext, hrun⟩ := value_spec pj v hok hf
      { i := { lim := i.lim, off := v.pos + 1, addNext := intoNext v, cur := payloadOf x, t := tagOf x },
        stack := #[stackNone, stackRoot], dst := d }
      ⟨rfl, ⟨x, hx, rfl, rfl⟩, by show v.fin ≤ i.lim; omega, by simp only; omega⟩
      (by show 1 ≤ (#[stackNone, stackRoot] : Array UInt8).size; decide)
    obtain ⟨hn1, hn2⟩ := hnext rfl
    simp only at hlim'
    have hcn : (tagOf c == tagNop) = false := by rw [hct]; decide
    have hwn : (tagOf w2 == tagNop) = false := by rw [hwt2]; decide
    obtain ⟨kr, sf, hkr, hsf1, hsf2, hrr⟩ := ih v2 q2 e2
      { lim := i'.lim, off := q2 + 1, addNext := 0, cur := payloadOf w2, t := tagOf w2 }
      ((d ++ render v) ++ #[10]) hr2 hel2 hrest2 (hfs v2 (List.mem_cons_self ..))
      (fun y hy => hfs y (List.mem_cons_of_mem _ hy)) ⟨rfl, ⟨w2, hw2, rfl, rfl⟩⟩ (by show i'.lim = lim; omega)
    refine ⟨kr + kv + 3, sf, by omega, hsf1, ?_, fun fuel => ?_⟩
    · rw [hsf2]
      simp only [renderRoots, renderRootsTail, Array.append_assoc]
    · rw [body_root1 pj _ (by show i.t = tagRoot; rw [hit, hwt]) (by show ¬ (#[stackNone] : Array UInt8).size > 1; decide)]
      simp only [hopen, if_true]
      rw [hadv]
      simp only [Res.bind_ok]
      rw [show fuel + (kr + kv + 3) = (fuel + kr + 1 + 1 + kv) + 1 from by omega,
        run_inl_skip pj _ _ (by show (#[stackNone].push stackRoot : Array UInt8).back! ≠ stackObject; decide)]
      rw [show (#[stackNone].push stackRoot : Array UInt8) = #[stackNone, stackRoot] from rfl, hrun (fuel + kr + 1 + 1)]
      rw [contF_adv pj { i := i', stack := #[stackNone, stackRoot], dst := d ++ render v } true
        (Or.inr (by show 1 < (#[stackNone, stackRoot] : Array UInt8).size; decide))
        (peek_at pj i' v.fin (e - 1) c g2 hc hcn (by omega) hn1 hn2) (by rw [hct]; decide)
        (advanceInto_at pj i' v.fin (e - 1) c g2 hc hcn (by rw [hct]; decide) (by omega) hn1 hn2)]
      simp only [back_none_root, show (stackRoot == stackArray) = false from by decide,
        show (stackRoot == stackObject) = false from by decide, Bool.false_eq_true, if_false]
      rw [run_inl_skip pj _ _ (by show (#[stackNone, stackRoot] : Array UInt8).back! ≠ stackObject; decide)]
      have hpeek : Iter.peekNextTag pj { lim := i'.lim, off := e - 1 + 1, addNext := 0, cur := payloadOf c, t := tagOf c } = .ok (tagOf w2) :=
        peek_at pj _ e q2 w2 g3 hw2 hwn (by show q2 < i'.lim; omega) (Int.le_refl _)
          (by show ((e - 1 + 1 : Nat) : Int) + 0 = _; omega)
      have hadv2 : Iter.advanceInto pj { lim := i'.lim, off := e - 1 + 1, addNext := 0, cur := payloadOf c, t := tagOf c } = _ :=
        advanceInto_at pj _ e q2 w2 g3 hw2 hwn (by rw [hwt2]; decide) (by show q2 < i'.lim; omega) (Int.le_refl _)
          (by show ((e - 1 + 1 : Nat) : Int) + 0 = _; omega)
      rw [body_root2 pj { i := { lim := i'.lim, off := e - 1 + 1, addNext := 0, cur := payloadOf c, t := tagOf c }, stack := #[stackNone, stackRoot], dst := d ++ render v } hct (by show (#[stackNone, stackRoot] : Array UInt8).size > 1; decide)
        (by show ¬ (((payloadOf c).toNat : Int) > ((e - 1 + 1 : Nat) : Int)); omega) back_none_root]
      simp only [hpeek, Res.bind_ok]
      rw [contF_adv pj { i := { lim := i'.lim, off := e - 1 + 1, addNext := 0, cur := payloadOf c, t := tagOf c }, stack := (#[stackNone, stackRoot] : Array UInt8).pop, dst := if tagOf w2 != tagEnd then (d ++ render v).push 10 else d ++ render v } false (Or.inl rfl) hpeek (by rw [hwt2]; decide) hadv2]
      simp only [hwt2, show (tagRoot != tagEnd) = true from by decide, if_true,
        show (#[stackNone, stackRoot] : Array UInt8).pop = #[stackNone] from rfl, back_none,
        show (stackNone == stackArray) = false from by decide,
        show (stackNone == stackObject) = false from by decide, Bool.false_eq_true, if_false, Array.push_eq_append]
      rw [run_inl_skip pj _ _ (by show (#[stackNone] : Array UInt8).back! ≠ stackObject; decide)]
      simp only [hwt2] at hrr
      exact hrr fuel

theorem okRoot_le (pj : PJ) (v : LVal) (q e : Nat) (h : OkRoot pj v q e) : e ≤ pj.tape.size := by
  obtain ⟨h1, _, ⟨c, hc, _⟩, _⟩ := h
  have := word_lt hc
  omega

/-- **Root-level variant (general).** A cursor standing on the opening word of a root entry — as produced by
    `Advance`/`AdvanceIter` from `pj.Iter()` — whose view extends to `i.lim`: the root's content, and the
    contents of all root entries that follow inside the view, are written separated by newlines. -/
theorem marshalBuf_roots (pj : PJ) (v : LVal) (vs : List LVal) (q e : Nat) (i : Iter) (dst : Bytes)
    (hr : OkRoot pj v q e) (hel : e ≤ i.lim) (hrest : RootsTo pj i.lim vs e) (hl : i.lim ≤ pj.tape.size)
    (hf : FloatsOk v) (hfs : ∀ x ∈ vs, FloatsOk x) (hon : OnWord pj q i) :
    Iter.marshalBuf pj i dst = .ok (dst ++ renderRoots (v :: vs)) := by
  obtain ⟨k, sf, hk, h1, h2, hrun⟩ := root_run pj i.lim vs v q e i dst hr hel hrest hf hfs hon rfl
  unfold Iter.marshalBuf
  obtain ⟨f, hfeq⟩ : ∃ f, fuelOf pj = f + k + 1 := ⟨fuelOf pj - k - 1, by unfold fuelOf; omega⟩
  rw [hfeq, marshalLoop_succ, keyPart_skip pj _ (Or.inl (by show (#[stackNone] : Array UInt8).back! ≠ stackObject; decide))]
  simp only [Res.bind_ok]
  rw [hrun f]
  simp only [Res.bind_ok, h1, h2]
  rfl

/-- **Root-level variant.** The cursor handed out for one root entry (view restricted to the entry, as by
    `AdvanceIter`/`ParsedJson.ForEach` before stepping in): exactly the content of that root is written. -/
theorem marshalBuf_root (pj : PJ) (v : LVal) (q e : Nat) (i : Iter) (dst : Bytes)
    (hr : OkRoot pj v q e) (hlim : i.lim = e) (hf : FloatsOk v) (hon : OnWord pj q i) :
    Iter.marshalBuf pj i dst = .ok (dst ++ render v) := by
  have := marshalBuf_roots pj v [] q e i dst hr (by omega) (by rw [hlim]; exact gap_refl pj e)
    (by rw [hlim]; exact okRoot_le pj v q e hr) hf (fun _ h => by cases h) hon
  rw [this]
  simp only [renderRoots, renderRootsTail, Array.append_empty]

theorem okRoots_rootsTo (pj : PJ) : ∀ (vs : List LVal) (p : Nat), OkRoots pj vs p → RootsTo pj pj.tape.size vs p
  | [], p, h => h
  | v :: vs, p, h => by
    obtain ⟨q, e, g, hr, rest⟩ := h
    exact ⟨q, e, g, hr, okRoot_le pj v q e hr, okRoots_rootsTo pj vs e rest⟩

/-- **Whole document.** `pj.Iter().MarshalJSON()` on a tape that holds the located roots `vs` (gaps allowed
    everywhere) is the newline-separated canonical text of the roots. -/
theorem marshalBuf_ofPJ (pj : PJ) (v : LVal) (vs : List LVal) (dst : Bytes) (h : OkRoots pj (v :: vs) 0)
    (hfs : ∀ x ∈ v :: vs, FloatsOk x) :
    Iter.marshalBuf pj (Iter.ofPJ pj) dst = .ok (dst ++ renderRoots (v :: vs)) := by
  have h' := okRoots_rootsTo pj _ _ h
  obtain ⟨q, e, g, hr, hel, hrest⟩ := h'
  have hr' := hr
  obtain ⟨hqe, ⟨w, hw, hwt, hwp⟩, _⟩ := hr'
  have hwn : (tagOf w == tagNop) = false := by rw [hwt]; decide
  obtain ⟨k, sf, hk, h1, h2, hrun⟩ := root_run pj pj.tape.size vs v q e
    { lim := pj.tape.size, off := q + 1, addNext := 0, cur := payloadOf w, t := tagOf w } dst hr hel hrest
    (hfs v (List.mem_cons_self ..)) (fun y hy => hfs y (List.mem_cons_of_mem _ hy)) ⟨rfl, ⟨w, hw, rfl, rfl⟩⟩ rfl
  unfold Iter.marshalBuf
  obtain ⟨f, hfeq⟩ : ∃ f, fuelOf pj = f + k + 1 + 1 := ⟨fuelOf pj - k - 2, by unfold fuelOf; omega⟩
  rw [hfeq, marshalLoop_succ, keyPart_skip pj _ (Or.inl (by show (#[stackNone] : Array UInt8).back! ≠ stackObject; decide))]
  simp only [Res.bind_ok]
  have hq : q < pj.tape.size := by omega
  rw [body_end pj _ (by rfl),
    peek_at pj (Iter.ofPJ pj) 0 q w g hw hwn hq (Int.le_refl _) rfl,
    advanceInto_at pj (Iter.ofPJ pj) 0 q w g hw hwn (by rw [hwt]; decide) hq (Int.le_refl _) rfl]
  simp only [Res.bind_ok, hwt, show (tagRoot == tagEnd) = false from by decide, Bool.false_eq_true, if_false]
  rw [run_inl_skip pj _ _ (by show (#[stackNone] : Array UInt8).back! ≠ stackObject; decide)]
  simp only [hwt] at hrun
  rw [show (Iter.ofPJ pj).lim = pj.tape.size from rfl, hrun f]
  simp only [Res.bind_ok, h1, h2]
  rfl

/-- an empty tape (no root entry) makes `MarshalJSON` return an error -/
theorem marshalBuf_ofPJ_empty (pj : PJ) (dst : Bytes) (h : OkRoots pj [] 0) :
    Iter.marshalBuf pj (Iter.ofPJ pj) dst = .error .generic := by
  simp only [OkRoots] at h
  unfold Iter.marshalBuf
  rw [show fuelOf pj = (2 * pj.tape.size + 15) + 1 from rfl, marshalLoop_succ,
    keyPart_skip pj _ (Or.inl (by show (#[stackNone] : Array UInt8).back! ≠ stackObject; decide))]
  simp only [Res.bind_ok]
  rw [body_end pj _ (by rfl), peek_lim pj (Iter.ofPJ pj) 0 h (Int.le_refl _) rfl]
  rfl

/-! ## 13. Gaps are invisible: the text depends only on the abstract document -/

mutual
/-- canonical text of an abstract (position-free) document -/
def renderJ : JVal → Bytes
  | .null => "null".toUTF8.data
  | .bool b => if b then "true".toUTF8.data else "false".toUTF8.data
  | .int w => intToAscii (toInt64 w)
  | .uint w => FloatFmt.natToAscii w.toNat
  | .float bits _ => (FloatFmt.appendFloat bits).getD #[]
  | .str s => Iter.quoted #[] s.toArray
  | .arr es => (#[91] ++ renderJElems es) ++ #[93]
  | .obj ms => (#[123] ++ renderJMems ms) ++ #[125]
def renderJElems : JVals → Bytes
  | .nil => #[]
  | .cons v vs => renderJ v ++ renderJTail vs
def renderJTail : JVals → Bytes
  | .nil => #[]
  | .cons v vs => #[44] ++ (renderJ v ++ renderJTail vs)
def renderJMems : JMems → Bytes
  | .nil => #[]
  | .cons k v ms => (Iter.quoted #[] k.toArray ++ (#[58] ++ renderJ v)) ++ renderJMTail ms
def renderJMTail : JMems → Bytes
  | .nil => #[]
  | .cons k v ms => #[44] ++ ((Iter.quoted #[] k.toArray ++ (#[58] ++ renderJ v)) ++ renderJMTail ms)
end

mutual
theorem render_erase : ∀ v : LVal, render v = renderJ (erase v)
  | .null _ => rfl
  | .bool _ _ => rfl
  | .int _ _ => rfl
  | .uint _ _ => rfl
  | .float _ _ _ => rfl
  | .str _ _ => rfl
  | .arr _ _ es => by simp only [render, erase, renderJ, renderElems_erase es]
  | .obj _ _ ms => by simp only [render, erase, renderJ, renderMems_erase ms]
theorem renderElems_erase : ∀ vs : LVals, renderElems vs = renderJElems (eraseVals vs)
  | .nil => rfl
  | .cons v vs => by simp only [renderElems, eraseVals, renderJElems, render_erase v, renderTail_erase vs]
theorem renderTail_erase : ∀ vs : LVals, renderTail vs = renderJTail (eraseVals vs)
  | .nil => rfl
  | .cons v vs => by simp only [renderTail, eraseVals, renderJTail, render_erase v, renderTail_erase vs]
theorem renderMems_erase : ∀ ms : LMems, renderMems ms = renderJMems (eraseMems ms)
  | .nil => rfl
  | .cons _ k v ms => by simp only [renderMems, eraseMems, renderJMems, render_erase v, renderMTail_erase ms]
theorem renderMTail_erase : ∀ ms : LMems, renderMTail ms = renderJMTail (eraseMems ms)
  | .nil => rfl
  | .cons _ k v ms => by simp only [renderMTail, eraseMems, renderJMTail, render_erase v, renderMTail_erase ms]
end

/-- two located documents with the same abstract content (however the NOP gaps are distributed, on whatever
    tapes) have the same text -/
theorem render_gap_invariant (v v' : LVal) (h : erase v = erase v') : render v = render v' := by
  rw [render_erase, render_erase, h]

/-- The main theorem in terms of the Layout relation: the tape region denotes `erase v` (`ValAt`), and the
    marshalled text is the canonical text of that abstract document. -/
theorem marshalBuf_doc (pj : PJ) (v : LVal) (i : Iter) (dst : Bytes) (hok : Ok pj v) (hf : FloatsOk v)
    (hon : OnNode pj v i) :
    ValAt pj (erase v) v.pos v.fin ∧ Iter.marshalBuf pj i dst = .ok (dst ++ renderJ (erase v)) :=
  ⟨ok_valAt pj v hok, by rw [marshalBuf_node pj v i dst hok hf hon, render_erase]⟩

/-! ### `render` is "elements joined by commas" -/

/-- `b₀ sep b₁ sep … bₙ` -/
def joinWith (sep : UInt8) : List Bytes → Bytes
  | [] => #[]
  | b :: bs => b ++ (bs.foldr (fun x acc => #[sep] ++ (x ++ acc)) #[])

def valsList : LVals → List LVal
  | .nil => []
  | .cons v vs => v :: valsList vs

def memsList : LMems → List (List UInt8 × LVal)
  | .nil => []
  | .cons _ k v ms => (k, v) :: memsList ms

theorem renderTail_eq : ∀ vs : LVals,
    renderTail vs = ((valsList vs).map render).foldr (fun x acc => #[44] ++ (x ++ acc)) #[]
  | .nil => rfl
  | .cons v vs => by simp only [renderTail, valsList, List.map_cons, List.foldr_cons, renderTail_eq vs]

theorem renderElems_join (vs : LVals) : renderElems vs = joinWith 44 ((valsList vs).map render) := by
  cases vs with
  | nil => rfl
  | cons v vs => simp only [renderElems, valsList, List.map_cons, joinWith, renderTail_eq]

theorem renderMTail_eq : ∀ ms : LMems,
    renderMTail ms = ((memsList ms).map fun kv => Iter.quoted #[] kv.1.toArray ++ (#[58] ++ render kv.2)).foldr
      (fun x acc => #[44] ++ (x ++ acc)) #[]
  | .nil => rfl
  | .cons _ k v ms => by simp only [renderMTail, memsList, List.map_cons, List.foldr_cons, renderMTail_eq ms]

theorem renderMems_join (ms : LMems) :
    renderMems ms = joinWith 44 ((memsList ms).map fun kv => Iter.quoted #[] kv.1.toArray ++ (#[58] ++ render kv.2)) := by
  cases ms with
  | nil => rfl
  | cons _ k v ms => simp only [renderMems, memsList, List.map_cons, joinWith, renderMTail_eq]

/-! ## 14. `Array.MarshalJSON` -/

/-- `AdvanceIter` onto a node after a gap: the receiver will continue at `v.fin`, `dst` is restricted to the node -/
theorem advanceIter_node (pj : PJ) (i d : Iter) (lo : Nat) (v : LVal) (g : Gap pj lo v.pos) (hok : Ok pj v)
    (hfin : v.fin ≤ i.lim) (ha : 0 ≤ i.addNext) (hlo : (i.off : Int) + i.addNext = lo) :
    ∃ w, word pj v.pos = some w ∧ tagOf w = tagOfL v ∧
      Iter.advanceIter pj i d =
        .ok ({ lim := i.lim, off := v.pos + 1, addNext := (v.fin : Int) - ((v.pos + 1 : Nat) : Int), cur := payloadOf w, t := tagOf w },
             { lim := v.fin, off := v.pos + 1, addNext := intoNext v, cur := payloadOf w, t := tagOf w },
             tagToType (tagOfL v)) := by
  obtain ⟨w, hw, ht⟩ := ok_head pj v hok
  have hpf := pos_lt_fin v pj hok
  refine ⟨w, hw, ht, ?_⟩
  unfold Iter.advanceIter
  rw [bump_to i lo ha hlo]
  simp only [Res.bind_ok]
  rw [advanceIterLoop_gap pj i g (by omega), advanceIterLoop_live pj i hw (by rw [ht]; exact tagOfL_ne_nop v) (by omega)]
  simp only [Res.bind_ok, Bool.not_true, Bool.false_eq_true, if_false]
  obtain ⟨c1, _⟩ := calcNext_of pj v hok { i with off := v.pos + 1, cur := payloadOf w, t := tagOf w } w hw rfl rfl rfl
  rw [c1]
  obtain ⟨_, c2⟩ := calcNext_of pj v hok
    { lim := i.lim, off := v.pos + 1, addNext := (v.fin : Int) - ((v.pos + 1 : Nat) : Int), cur := payloadOf w, t := tagOf w }
    w hw rfl rfl rfl
  simp only at c2 ⊢
  rw [c2]
  have hin := intoNext_le pj v hok
  have e1 : ¬ ((v.fin : Int) - ((v.pos + 1 : Nat) : Int) < 0) := by omega
  have e2 : v.pos + 1 + ((v.fin : Int) - ((v.pos + 1 : Nat) : Int)).toNat = v.fin := by omega
  have e3 : ¬ (v.fin > i.lim) := by omega
  have e4 : ¬ (intoNext v < 0) := by omega
  simp only [e1, e2, e3, e4, if_false, ht]

theorem arrLoop_spec (pj : PJ) (hi : Nat) (c : UInt64) (hc : word pj hi = some c) (hct : tagOf c = tagArrayEnd) :
    ∀ (vs : LVals) (i : Iter) (dst : Bytes) (lo fuel : Nat), OkElems pj vs lo hi → FloatsOkVs vs → hi < i.lim →
      0 ≤ i.addNext → (i.off : Int) + i.addNext = lo → hi + 1 - lo ≤ fuel →
      ∃ i', i'.lim = i.lim ∧ Iter.peekNextTag pj i' = .ok tagArrayEnd ∧
        View.arrMarshalLoop pj i dst fuel = .ok (i', dst ++ renderElems vs)
  | .nil, i, dst, lo, fuel, h, _, hlt, ha, hlo, hfuel => by
    simp only [OkElems] at h
    have hn : (tagOf c == tagNop) = false := by rw [hct]; decide
    have hp := peek_at pj i lo hi c h hc hn hlt ha hlo
    rw [hct] at hp
    have hle := h.1
    obtain ⟨f, rfl⟩ : ∃ f, fuel = f + 1 := ⟨fuel - 1, by omega⟩
    refine ⟨i, rfl, hp, ?_⟩
    rw [View.arrMarshalLoop, hp]
    simp only [Res.bind_ok, beq_self_eq_true, if_true, renderElems, Array.append_empty]
  | .cons v vs, i, dst, lo, fuel, h, hf, hlt, ha, hlo, hfuel => by
    have ih := arrLoop_spec pj hi c hc hct vs
    simp only [OkElems] at h
    simp only [FloatsOkVs] at hf
    obtain ⟨g, hok, hfin, rest⟩ := h
    have hpf := pos_lt_fin v pj hok
    have hg := g.1
    have hn : (tagOf c == tagNop) = false := by rw [hct]; decide
    obtain ⟨f, rfl⟩ : ∃ f, fuel = f + 1 := ⟨fuel - 1, by omega⟩
    obtain ⟨w, hw, hwt, hadv⟩ := advanceIter_node pj i default lo v g hok (by omega) ha hlo
    have hin := intoNext_le pj v hok
    have hm := marshalBuf_node pj v { lim := v.fin, off := v.pos + 1, addNext := intoNext v, cur := payloadOf w, t := tagOf w }
      dst hok hf.1 ⟨rfl, ⟨w, hw, rfl, rfl⟩, Nat.le_refl _, by simp only; omega⟩
    rw [View.arrMarshalLoop, peek_node pj i lo v g hok (by omega) ha hlo]
    simp only [Res.bind_ok, tagOfL_ne_arrayEnd v, Bool.false_eq_true, if_false, hadv, tagToType_tagOfL_ne_none v, hm]
    cases vs with
    | nil =>
      simp only [OkElems] at rest
      have hp := peek_at pj { lim := i.lim, off := v.pos + 1, addNext := (v.fin : Int) - ((v.pos + 1 : Nat) : Int), cur := payloadOf w, t := tagOf w }
        v.fin hi c rest hc hn hlt (by simp only; omega) (by simp only; omega)
      rw [hct] at hp
      refine ⟨{ lim := i.lim, off := v.pos + 1, addNext := (v.fin : Int) - ((v.pos + 1 : Nat) : Int), cur := payloadOf w, t := tagOf w }, rfl, hp, ?_⟩
      simp only [hp, Res.bind_ok, beq_self_eq_true, if_true, renderElems, renderTail, Array.append_empty]
    | cons v2 vs2 =>
      have rest' := rest
      simp only [OkElems] at rest'
      obtain ⟨g2, hok2, hfin2, _⟩ := rest'
      have hp := peek_node pj { lim := i.lim, off := v.pos + 1, addNext := (v.fin : Int) - ((v.pos + 1 : Nat) : Int), cur := payloadOf w, t := tagOf w }
        v.fin v2 g2 hok2 (by show v2.fin ≤ i.lim; omega) (by simp only; omega) (by simp only; omega)
      obtain ⟨i', hl', hp', hloop⟩ := ih { lim := i.lim, off := v.pos + 1, addNext := (v.fin : Int) - ((v.pos + 1 : Nat) : Int), cur := payloadOf w, t := tagOf w }
        ((dst ++ render v).push 44) v.fin f rest hf.2 hlt (by simp only; omega) (by simp only; omega) (by omega)
      refine ⟨i', hl', hp', ?_⟩
      simp only [hp, Res.bind_ok, tagOfL_ne_arrayEnd v2, Bool.false_eq_true, if_false, hloop]
      simp only [renderElems, renderTail, Array.push_eq_append, Array.append_assoc]

/-- `Array.MarshalJSON` on the view of an array node (`i.Array()`: the words between the brackets, closing
    bracket included) is the canonical text of the array. -/
theorem arrMarshal_arr (pj : PJ) (p e : Nat) (es : LVals) (hok : Ok pj (.arr p e es)) (hf : FloatsOk (.arr p e es)) :
    View.arrMarshal pj { lim := e, off := p + 1 } = .ok (render (.arr p e es)) := by
  have hsz := ok_fin_le pj _ hok
  simp only [Ok] at hok
  simp only [FloatsOk] at hf
  simp only [LVal.fin] at hsz
  obtain ⟨hpe, _, ⟨c, hc, hct, _⟩, hes⟩ := hok
  obtain ⟨i', hl', hp', hloop⟩ := arrLoop_spec pj (e - 1) c hc hct es (View.iter { lim := e, off := p + 1 }) #[91] (p + 1) (fuelOf pj)
    hes hf (by show e - 1 < e; omega) (Int.le_refl _) (by show ((p + 1 : Nat) : Int) + 0 = _; omega) (by unfold fuelOf; omega)
  unfold View.arrMarshal
  rw [hloop]
  simp only [Res.bind_ok, hp', bne_self_eq_false, Bool.false_eq_true, if_false, render, Array.push_eq_append]

/-- `i.Array()` on a cursor standing on an array node yields that view -/
theorem array_view (pj : PJ) (p e : Nat) (es : LVals) (i : Iter) (hok : Ok pj (.arr p e es))
    (hon : OnNode pj (.arr p e es) i) : i.array = .ok { lim := e, off := p + 1 } := by
  obtain ⟨hoff, ⟨w, hw, hit, hic⟩, hfin, _⟩ := hon
  simp only [Ok, LVal.pos, LVal.fin] at hok hw hfin hoff
  obtain ⟨hpe, ⟨w', a, b, hpl⟩, _⟩ := hok
  cases word_inj hw a
  unfold Iter.array
  rw [hit, b, hic, hpl, hoff]
  have hle : ¬ i.lim < e := by omega
  simp only [bne_self_eq_false, Bool.false_eq_true, if_false, hle]

/-! ## 15. `Elements.MarshalJSON` -/

/-- one iteration of the `for` loop of `Elements.MarshalJSONBuffer` -/
def elemStep (pj : PJ) (es : Array View.Elem) (k : Nat) (dst : Bytes) : Res (ForInStep Bytes) := do
  let dst ← Iter.marshalBuf pj es[k]!.iter ((Iter.quoted dst es[k]!.name).push 58)
  if k + 1 < es.size then pure (ForInStep.yield (dst.push 44)) else pure (ForInStep.yield dst)

/-- the model's range loop is the list loop over `0 … size-1` with `elemStep` -/
theorem elemsMarshal_eq (pj : PJ) (es : Array View.Elem) :
    View.elemsMarshal pj es = (do
      let d ← forIn (List.range' 0 es.size) #[123] (elemStep pj es)
      .ok (d.push 125)) := by
  unfold View.elemsMarshal
  simp only []
  rw [Std.Legacy.Range.forIn'_eq_forIn'_range']
  have : ∀ (l : List Nat) (hl : ∀ a ∈ l, a < es.size) (f : (a : Nat) → a ∈ l → Bytes → Res (ForInStep Bytes)) (init : Bytes),
      (∀ a h b, f a h b = elemStep pj es a b) → forIn' l init f = forIn l init (elemStep pj es) := by
    intro l hl f init hfe
    have : f = fun a _ b => elemStep pj es a b := by funext a h b; exact hfe a h b
    rw [this]
    rfl
  rw [this]
  · simp [Std.Legacy.Range.size]
  · intro a h
    have := List.mem_range'_1.mp h
    simp [Std.Legacy.Range.size] at this
    omega
  · intro a h b
    have := List.mem_range'_1.mp h
    simp [Std.Legacy.Range.size] at this
    unfold elemStep
    rw [getElem!_pos es a (by omega)]

/-- the `Elements` entries `l` correspond, in order, to the members `ms`: same name, and a cursor standing on
    the member's value -/
def ElemsForL (pj : PJ) : LMems → List View.Elem → Prop
  | .nil, l => l = []
  | .cons _ k v ms, l => ∃ e l', l = e :: l' ∧ e.name = k.toArray ∧ Ok pj v ∧ FloatsOk v ∧ OnNode pj v e.iter ∧
      ElemsForL pj ms l'

theorem elemStep_ok (pj : PJ) (es : Array View.Elem) (j : Nat) (dst : Bytes) (e : View.Elem) (k : List UInt8) (v : LVal)
    (hj : j < es.size) (h1 : es[j] = e) (hname : e.name = k.toArray) (hok : Ok pj v) (hf : FloatsOk v)
    (hon : OnNode pj v e.iter) :
    elemStep pj es j dst = .ok (ForInStep.yield
      (if j + 1 < es.size then ((Iter.quoted dst k.toArray).push 58 ++ render v).push 44
       else ((Iter.quoted dst k.toArray).push 58 ++ render v))) := by
  unfold elemStep
  rw [getElem!_pos es j hj, h1, hname, marshalBuf_node pj v e.iter _ hok hf hon]
  simp only [Res.bind_ok]
  split <;> rfl

theorem elemsLoop_spec (pj : PJ) (es : Array View.Elem) : ∀ (ms : LMems) (j : Nat) (dst : Bytes),
    ElemsForL pj ms (es.toList.drop j) →
    forIn (List.range' j (es.size - j)) dst (elemStep pj es) = .ok (dst ++ renderMems ms)
  | .nil, j, dst, h => by
    simp only [ElemsForL, List.drop_eq_nil_iff, Array.length_toList] at h
    rw [show es.size - j = 0 from by omega]
    simp [renderMems]
  | .cons _ k v ms, j, dst, h => by
    have ih := elemsLoop_spec pj es ms (j + 1)
    simp only [ElemsForL] at h
    obtain ⟨e, l', hl, hname, hok, hf, hon, rest⟩ := h
    have hj : j < es.size := by
      by_cases hj : j < es.size
      · exact hj
      · rw [List.drop_eq_nil_iff.mpr (by simp only [Array.length_toList]; omega)] at hl
        cases hl
    rw [List.drop_eq_getElem_cons (by simp only [Array.length_toList]; exact hj)] at hl
    injection hl with h1 h2
    simp only [Array.getElem_toList] at h1
    rw [← h2] at rest
    rw [show es.size - j = (es.size - (j + 1)) + 1 from by omega, List.range'_succ, List.forIn_cons]
    rw [elemStep_ok pj es j dst e k v hj h1 hname hok hf hon]
    simp only [Res.bind_ok]
    cases ms with
    | nil =>
      simp only [ElemsForL, List.drop_eq_nil_iff, Array.length_toList] at rest
      have : ¬ (j + 1 < es.size) := by omega
      simp only [this, if_false]
      rw [show es.size - (j + 1) = 0 from by omega]
      simp only [List.range'_zero, List.forIn_nil, Res.pure_eq, renderMems, renderMTail, Array.append_empty]
      rw [quoted_eq]
      simp only [Array.push_eq_append, Array.append_assoc]
    | cons pk2 k2 v2 ms2 =>
      have rest' := rest
      simp only [ElemsForL] at rest'
      obtain ⟨e2, l2, hl2, _⟩ := rest'
      have : j + 1 < es.size := by
        by_cases hj2 : j + 1 < es.size
        · exact hj2
        · rw [List.drop_eq_nil_iff.mpr (by simp only [Array.length_toList]; omega)] at hl2
          cases hl2
      simp only [this, if_true]
      rw [ih _ rest, quoted_eq]
      simp only [renderMems, renderMTail, Array.push_eq_append, Array.append_assoc]

/-- `Elements.MarshalJSON` on entries that correspond to the members `ms` writes `{` members `}` -/
theorem elemsMarshal_spec (pj : PJ) (es : Array View.Elem) (ms : LMems) (h : ElemsForL pj ms es.toList) :
    View.elemsMarshal pj es = .ok ((#[123] ++ renderMems ms) ++ #[125]) := by
  rw [elemsMarshal_eq]
  have := elemsLoop_spec pj es ms 0 #[123] (by simpa using h)
  simp only [Nat.sub_zero] at this
  rw [this]
  simp only [Res.bind_ok, Array.push_eq_append]

/-- the DIRECT members' values follow their keys without a gap (inside the values gaps are allowed) -/
def TightMs1 : LMems → Prop
  | .nil => True
  | .cons pk _ v ms => v.pos = pk + 2 ∧ TightMs1 ms

/-- `Object.Parse` on the view of an object node whose member values follow their keys directly (`TightMs1`:
    `NextElementBytes` does not skip NOPs between a key and its value, see `WalkLayout.neb_gap_counterexample`)
    returns entries that correspond to the members. -/
theorem parse_spec (pj : PJ) (hi : Nat) (c : UInt64) (hc : word pj hi = some c) (hct : tagOf c = tagObjectEnd) :
    ∀ (ms : LMems) (lim off : Nat) (acc : Array View.Elem) (fuel : Nat), OkMems pj ms off hi →
      TightMs1 ms → FloatsOkMs ms → hi < lim → lim - off + 2 ≤ fuel →
      ∃ l, View.parse pj { lim := lim, off := off } acc fuel = .ok (acc ++ l.toArray) ∧ ElemsForL pj ms l
  | .nil, lim, off, acc, fuel, hms, _, _, hlt, hfuel => by
    simp only [OkMems] at hms
    have hle := hms.1
    obtain ⟨n, rfl⟩ : ∃ n, fuel = n + 1 := ⟨fuel - 1, by omega⟩
    rw [View.parse]
    obtain ⟨f', hf1, hf2, he⟩ := nextElementBytes_gap_fuel pj lim hms (by omega) n (by omega)
    rw [he]
    obtain ⟨f'', rfl⟩ : ∃ f'', f' = f'' + 1 := ⟨f' - 1, by omega⟩
    rw [View.nextElementBytes]
    have h1 : ¬ hi ≥ lim := by omega
    simp only [h1, if_false, rd_word hc, Res.bind_ok, hct, show (tagObjectEnd == tagString) = false from by decide,
      Bool.false_eq_true, beq_self_eq_true, if_true]
    exact ⟨[], by simp, rfl⟩
  | .cons pk k v ms, lim, off, acc, fuel, hms, ht, hf, hlt, hfuel => by
    have ih := parse_spec pj hi c hc hct ms lim
    simp only [OkMems] at hms
    simp only [TightMs1] at ht
    simp only [FloatsOkMs] at hf
    obtain ⟨g1, hs, g2, hok, hfin, rest⟩ := hms
    obtain ⟨hp, htms⟩ := ht
    have hpf := pos_lt_fin v pj hok
    have hg1 := g1.1
    obtain ⟨n, rfl⟩ : ∃ n, fuel = n + 1 := ⟨fuel - 1, by omega⟩
    rw [View.parse]
    obtain ⟨f', hf1, hf2, he⟩ := nextElementBytes_gap_fuel pj lim g1 (by omega) n (by omega)
    rw [he]
    obtain ⟨f'', rfl⟩ : ∃ f'', f' = f'' + 1 := ⟨f' - 1, by omega⟩
    obtain ⟨w, hw, hwt, hne⟩ := nextElementBytes_member pj lim pk k v f'' hs hp hok (by omega)
    rw [hne]
    simp only [Res.bind_ok, tagToType_tagOfL_ne_none v, Bool.false_eq_true, if_false]
    obtain ⟨l, hl, hrel⟩ := ih v.fin (acc.push { name := k.toArray, type := tagToType (tagOfL v), iter := { lim := v.fin, off := v.pos + 1, addNext := intoNext v, cur := payloadOf w, t := tagOf w } }) n
      rest htms hf.2 hlt (by omega)
    have hin := intoNext_le pj v hok
    refine ⟨{ name := k.toArray, type := tagToType (tagOfL v), iter := { lim := v.fin, off := v.pos + 1, addNext := intoNext v, cur := payloadOf w, t := tagOf w } } :: l, ?_, ?_⟩
    · rw [hl, Array.push_eq_append, Array.append_assoc]
      simp
    · simp only [ElemsForL]
      exact ⟨_, _, rfl, rfl, hok, hf.1, ⟨rfl, ⟨w, hw, rfl, rfl⟩, Nat.le_refl _, by simp only; omega⟩, hrel⟩

/-- `o.Parse(nil)` followed by `Elements.MarshalJSON` on an object node = the canonical text of the object -/
theorem elemsMarshal_obj (pj : PJ) (p e : Nat) (ms : LMems) (hok : Ok pj (.obj p e ms)) (ht : TightMs1 ms)
    (hf : FloatsOk (.obj p e ms)) :
    ∃ es, View.parse pj { lim := e, off := p + 1 } #[] (fuelOf pj) = .ok es ∧
      View.elemsMarshal pj es = .ok (render (.obj p e ms)) := by
  have hsz := ok_fin_le pj _ hok
  simp only [Ok] at hok
  simp only [FloatsOk] at hf
  simp only [LVal.fin] at hsz
  obtain ⟨hpe, _, ⟨c, hc, hct, _⟩, hms⟩ := hok
  obtain ⟨l, hl, hrel⟩ := parse_spec pj (e - 1) c hc hct ms e (p + 1) #[] (fuelOf pj) hms ht hf (by omega)
    (by unfold fuelOf; omega)
  refine ⟨l.toArray, by rw [hl]; simp, ?_⟩
  rw [elemsMarshal_spec pj l.toArray ms (by simpa using hrel)]
  simp only [render]

/-! ## 16. The error case: a float that cannot be formatted (NaN, ±Inf)

If some float inside the node has no text (`appendFloat` fails), `MarshalJSONBuffer` returns an error — whatever
else the document contains.  Together with `marshalBuf_node` this determines the result on every located
document. -/

def ValueErr (pj : PJ) (v : LVal) : Prop :=
  ∀ s : MState, OnNode pj v s.i → 1 ≤ s.stack.size →
    ∃ k : Nat, k + 1 ≤ v.fin - v.pos ∧ ∀ fuel, run pj (body pj s) (fuel + k) = .error .generic

def TailErr (pj : PJ) (lo hi : Nat) : Prop :=
  ∀ (s : MState) (c : UInt64), word pj hi = some c → tagOf c = tagArrayEnd → hi < s.i.lim →
    0 ≤ s.i.addNext → (s.i.off : Int) + s.i.addNext = lo → s.stack.back! = stackArray → 1 < s.stack.size →
    ∃ k, k ≤ hi - lo + 1 ∧ ∀ fuel, run pj (contF pj s true) (fuel + k) = .error .generic

def EnterErr (pj : PJ) (lo hi : Nat) : Prop :=
  ∀ (i0 : Iter) (σ : Array UInt8) (d : Bytes) (c : UInt64), word pj hi = some c → tagOf c = tagArrayEnd → hi < i0.lim →
    0 ≤ i0.addNext → (i0.off : Int) + i0.addNext = lo → σ.back! = stackArray → 1 < σ.size →
    ∃ r, i0.advanceInto pj = .ok r ∧ ∃ k, k ≤ hi - lo + 1 ∧
      ∀ fuel, run pj (.ok (.inl { i := r.1, stack := σ, dst := d })) (fuel + k) = .error .generic

def MTailErr (pj : PJ) (lo hi : Nat) : Prop :=
  ∀ (s : MState) (c : UInt64), word pj hi = some c → tagOf c = tagObjectEnd → hi < s.i.lim →
    0 ≤ s.i.addNext → (s.i.off : Int) + s.i.addNext = lo → s.stack.back! = stackObject → 1 < s.stack.size →
    ∃ k, k ≤ hi - lo + 1 ∧ ∀ fuel, run pj (contF pj s true) (fuel + k) = .error .generic

def MEnterErr (pj : PJ) (lo hi : Nat) : Prop :=
  ∀ (i0 : Iter) (σ : Array UInt8) (d : Bytes) (c : UInt64), word pj hi = some c → tagOf c = tagObjectEnd → hi < i0.lim →
    0 ≤ i0.addNext → (i0.off : Int) + i0.addNext = lo → σ.back! = stackObject → 1 < σ.size →
    ∃ r, i0.advanceInto pj = .ok r ∧ ∃ k, k ≤ hi - lo + 1 ∧
      ∀ fuel, run pj (.ok (.inl { i := r.1, stack := σ, dst := d })) (fuel + k) = .error .generic

theorem run_error (pj : PJ) (fuel : Nat) : run pj (.error .generic) fuel = .error .generic := rfl

theorem valueErr_float (pj : PJ) (x f : UInt64) (p : Nat) (hok : Ok pj (.float x f p)) (hf : ¬ FloatsOk (.float x f p)) :
    ValueErr pj (.float x f p) := by
  intro s ⟨hoff, ⟨w, hw, hit, hic⟩, hfin, _⟩ _
  simp only [Ok, LVal.pos, LVal.fin] at hok hw hfin hoff
  obtain ⟨w', a, b, hfl, hx⟩ := hok
  cases word_inj hw a
  refine ⟨0, by simp only [LVal.pos, LVal.fin]; omega, fun fuel => ?_⟩
  rw [body_float pj s (by rw [hit, b])]
  unfold Iter.float
  rw [hit, b, valWord_of pj s.i (by omega) (by rw [hoff]; exact hx)]
  simp only [beq_self_eq_true, if_true, Res.bind_ok]
  simp only [FloatsOk, ne_eq, Decidable.not_not] at hf
  rw [hf]
  rfl

theorem tailErr_here (pj : PJ) (v : LVal) (lo hi : Nat) (g : Gap pj lo v.pos) (hok : Ok pj v)
    (hfin : v.fin ≤ hi) (hv : ValueErr pj v) : TailErr pj lo hi := by
  intro s c hc hct hlt ha hlo hb hsz
  have hpf := pos_lt_fin v pj hok
  have hg := g.1
  obtain ⟨w, hw, hwt, hadv⟩ := advanceInto_node pj s.i lo v g hok (by omega) ha hlo
  have hin := intoNext_le pj v hok
  obtain ⟨kv, hkv, hrun⟩ := hv
    { i := { lim := s.i.lim, off := v.pos + 1, addNext := intoNext v, cur := payloadOf w, t := tagOf w },
      stack := s.stack, dst := s.dst ++ #[44] }
    ⟨rfl, ⟨w, hw, rfl, rfl⟩, by show v.fin ≤ s.i.lim; omega, by simp only; omega⟩ (by show 1 ≤ s.stack.size; omega)
  refine ⟨kv + 1, by omega, fun fuel => ?_⟩
  rw [contF_adv pj s true (Or.inr hsz) (peek_node pj s.i lo v g hok (by omega) ha hlo) (tagOfL_ne_end v) hadv]
  rw [show fuel + (kv + 1) = (fuel + kv) + 1 from by omega, run_inl_arr pj _ _ (by exact hb)]
  have e : (tagOf w == tagArrayEnd) = false := by rw [hwt]; exact tagOfL_ne_arrayEnd v
  simp only [hb, e, beq_self_eq_true, if_true, Bool.false_eq_true, if_false, Array.push_eq_append]
  rw [hrun fuel]

theorem tailErr_later (pj : PJ) (v : LVal) (lo hi : Nat) (g : Gap pj lo v.pos) (hok : Ok pj v)
    (hfin : v.fin ≤ hi) (hv : ValueSpec pj v) (ht : TailErr pj v.fin hi) : TailErr pj lo hi := by
  intro s c hc hct hlt ha hlo hb hsz
  have hpf := pos_lt_fin v pj hok
  have hg := g.1
  obtain ⟨w, hw, hwt, hadv⟩ := advanceInto_node pj s.i lo v g hok (by omega) ha hlo
  have hin := intoNext_le pj v hok
  obtain ⟨kv, i', hkv, hlim, hnext, hrun⟩ := hv
    { i := { lim := s.i.lim, off := v.pos + 1, addNext := intoNext v, cur := payloadOf w, t := tagOf w },
      stack := s.stack, dst := s.dst ++ #[44] }
    ⟨rfl, ⟨w, hw, rfl, rfl⟩, by show v.fin ≤ s.i.lim; omega, by simp only; omega⟩ (by show 1 ≤ s.stack.size; omega)
  obtain ⟨hn1, hn2⟩ := hnext rfl
  simp only at hlim
  obtain ⟨kt, hkt, htrun⟩ := ht { i := i', stack := s.stack, dst := (s.dst ++ #[44]) ++ render v } c hc hct
    (by show hi < i'.lim; omega) hn1 hn2 hb hsz
  refine ⟨kt + kv + 1, by omega, fun fuel => ?_⟩
  rw [contF_adv pj s true (Or.inr hsz) (peek_node pj s.i lo v g hok (by omega) ha hlo) (tagOfL_ne_end v) hadv]
  rw [show fuel + (kt + kv + 1) = (fuel + kt + kv) + 1 from by omega, run_inl_arr pj _ _ (by exact hb)]
  have e : (tagOf w == tagArrayEnd) = false := by rw [hwt]; exact tagOfL_ne_arrayEnd v
  simp only [hb, e, beq_self_eq_true, if_true, Bool.false_eq_true, if_false, Array.push_eq_append]
  rw [hrun (fuel + kt), htrun fuel]

theorem enterErr_here (pj : PJ) (v : LVal) (lo hi : Nat) (g : Gap pj lo v.pos) (hok : Ok pj v)
    (hfin : v.fin ≤ hi) (hv : ValueErr pj v) : EnterErr pj lo hi := by
  intro i0 σ d c hc hct hlt ha hlo hb hsz
  have hpf := pos_lt_fin v pj hok
  have hg := g.1
  obtain ⟨w, hw, hwt, hadv⟩ := advanceInto_node pj i0 lo v g hok (by omega) ha hlo
  have hin := intoNext_le pj v hok
  obtain ⟨kv, hkv, hrun⟩ := hv
    { i := { lim := i0.lim, off := v.pos + 1, addNext := intoNext v, cur := payloadOf w, t := tagOf w },
      stack := σ, dst := d }
    ⟨rfl, ⟨w, hw, rfl, rfl⟩, by show v.fin ≤ i0.lim; omega, by simp only; omega⟩ (by show 1 ≤ σ.size; omega)
  refine ⟨_, hadv, kv + 1, by omega, fun fuel => ?_⟩
  rw [show fuel + (kv + 1) = (fuel + kv) + 1 from by omega, run_inl_arr pj _ _ (by exact hb)]
  rw [hrun fuel]

theorem enterErr_later (pj : PJ) (v : LVal) (lo hi : Nat) (g : Gap pj lo v.pos) (hok : Ok pj v)
    (hfin : v.fin ≤ hi) (hv : ValueSpec pj v) (ht : TailErr pj v.fin hi) : EnterErr pj lo hi := by
  intro i0 σ d c hc hct hlt ha hlo hb hsz
  have hpf := pos_lt_fin v pj hok
  have hg := g.1
  obtain ⟨w, hw, hwt, hadv⟩ := advanceInto_node pj i0 lo v g hok (by omega) ha hlo
  have hin := intoNext_le pj v hok
  obtain ⟨kv, i', hkv, hlim, hnext, hrun⟩ := hv
    { i := { lim := i0.lim, off := v.pos + 1, addNext := intoNext v, cur := payloadOf w, t := tagOf w },
      stack := σ, dst := d }
    ⟨rfl, ⟨w, hw, rfl, rfl⟩, by show v.fin ≤ i0.lim; omega, by simp only; omega⟩ (by show 1 ≤ σ.size; omega)
  obtain ⟨hn1, hn2⟩ := hnext rfl
  simp only at hlim
  obtain ⟨kt, hkt, htrun⟩ := ht { i := i', stack := σ, dst := d ++ render v } c hc hct
    (by show hi < i'.lim; omega) hn1 hn2 hb hsz
  refine ⟨_, hadv, kt + kv + 1, by omega, fun fuel => ?_⟩
  rw [show fuel + (kt + kv + 1) = (fuel + kt + kv) + 1 from by omega, run_inl_arr pj _ _ (by exact hb)]
  rw [hrun (fuel + kt), htrun fuel]

theorem valueErr_arr (pj : PJ) (p e : Nat) (es : LVals) (hok : Ok pj (.arr p e es))
    (he : EnterErr pj (p + 1) (e - 1)) : ValueErr pj (.arr p e es) := by
  intro s ⟨hoff, ⟨w, hw, hit, hic⟩, hfin, _⟩ hsz
  simp only [Ok, LVal.pos, LVal.fin] at hok hw hfin hoff
  obtain ⟨hpe, ⟨w', a, b, hpl⟩, ⟨c, hc, hct, _⟩, hes⟩ := hok
  cases word_inj hw a
  obtain ⟨r, hadv, k, hk, hrun⟩ := he { s.i with addNext := 0 } (s.stack.push stackArray) (s.dst.push 91) c hc hct
    (by show e - 1 < s.i.lim; omega) (Int.le_refl _) (by show (s.i.off : Int) + 0 = _; omega)
    (back_push _ _) (by rw [Array.size_push]; omega)
  obtain ⟨i1, tg⟩ := r
  refine ⟨k, by simp only [LVal.pos, LVal.fin]; omega, fun fuel => ?_⟩
  rw [body_arrStart pj s (by rw [hit, b]), hadv]
  simp only [Res.bind_ok]
  rw [hrun fuel]

theorem member_err (pj : PJ) (pk : Nat) (k : List UInt8) (v : LVal) (hs : StrAt pj k pk) (g2 : Gap pj (pk + 2) v.pos)
    (hok : Ok pj v) (hv : ValueErr pj v) (s : MState) (kw : UInt64) (hkw : word pj pk = some kw)
    (hoff : s.i.off = pk + 1) (hit : s.i.t = tagOf kw) (hic : s.i.cur = payloadOf kw) (hadd : s.i.addNext = 1)
    (hfin : v.fin ≤ s.i.lim) (hb : s.stack.back! = stackObject) (hsz : 1 < s.stack.size) :
    ∃ kv : Nat, kv + 1 ≤ v.fin - v.pos ∧ ∀ fuel, run pj (.ok (.inl s)) (fuel + kv + 1) = .error .generic := by
  obtain ⟨w', len, a, hlen, b, hstr⟩ := hs
  cases word_inj hkw a
  have hpf := pos_lt_fin v pj hok
  have hg := g2.1
  obtain ⟨w, hw, hwt, hadv⟩ := advanceInto_node pj s.i (pk + 2) v g2 hok hfin (by omega) (by omega)
  have hin := intoNext_le pj v hok
  obtain ⟨kv, hkv, hrun⟩ := hv
    { i := { lim := s.i.lim, off := v.pos + 1, addNext := intoNext v, cur := payloadOf w, t := tagOf w },
      stack := s.stack, dst := (Iter.quoted s.dst k.toArray).push 58 }
    ⟨rfl, ⟨w, hw, rfl, rfl⟩, by show v.fin ≤ s.i.lim; omega, by simp only; omega⟩ (by show 1 ≤ s.stack.size; omega)
  refine ⟨kv, hkv, fun fuel => ?_⟩
  rw [run_inl]
  have hkey : keyPart pj s = .ok { i := { lim := s.i.lim, off := v.pos + 1, addNext := intoNext v, cur := payloadOf w, t := tagOf w }, stack := s.stack, dst := (Iter.quoted s.dst k.toArray).push 58 } := by
    unfold keyPart
    have hc : (s.stack.back! == stackObject) = true ∧ (s.i.t != tagObjectEnd) = true := by
      rw [hb, hit, b]; exact ⟨rfl, rfl⟩
    rw [if_pos hc]
    unfold Iter.stringBytes
    rw [hit, b, valWord_of pj s.i (by omega) (by rw [hoff]; exact hlen), hic]
    simp only [bne_self_eq_false, Bool.false_eq_true, if_false, Res.bind_ok, hstr]
    rw [peek_node pj s.i (pk + 2) v g2 hok hfin (by omega) (by omega)]
    simp only [Res.bind_ok, tagOfL_ne_end v, Bool.false_eq_true, if_false, hadv]
  rw [hkey]
  simp only [Res.bind_ok]
  rw [hrun fuel]

theorem mtailErr_here (pj : PJ) (pk : Nat) (k : List UInt8) (v : LVal) (lo hi : Nat) (g1 : Gap pj lo pk)
    (hs : StrAt pj k pk) (g2 : Gap pj (pk + 2) v.pos) (hok : Ok pj v) (hfin : v.fin ≤ hi) (hv : ValueErr pj v) :
    MTailErr pj lo hi := by
  intro s c hc hct hlt ha hlo hb hsz
  have hpf := pos_lt_fin v pj hok
  have hg1 := g1.1
  have hg2 := g2.1
  have hoks : Ok pj (.str k pk) := hs
  obtain ⟨w, hw, hwt, hadv⟩ := advanceInto_node pj s.i lo (.str k pk) g1 hoks (by show pk + 2 ≤ s.i.lim; omega) ha hlo
  simp only [LVal.pos, tagOfL, intoNext] at hw hwt hadv
  obtain ⟨kv, hkv, hrun⟩ := member_err pj pk k v hs g2 hok hv
    { i := { lim := s.i.lim, off := pk + 1, addNext := 1, cur := payloadOf w, t := tagOf w },
      stack := s.stack, dst := s.dst ++ #[44] } w hw rfl rfl rfl rfl (by show v.fin ≤ s.i.lim; omega) hb hsz
  refine ⟨kv + 1, by omega, fun fuel => ?_⟩
  have hpk := peek_node pj s.i lo (.str k pk) g1 hoks (by show pk + 2 ≤ s.i.lim; omega) ha hlo
  simp only [tagOfL] at hpk
  rw [contF_adv pj s true (Or.inr hsz) hpk (by decide) hadv]
  have e : (tagOf w == tagObjectEnd) = false := by rw [hwt]; decide
  simp only [hb, e, stackObject_ne_array, beq_self_eq_true, if_true, Bool.false_eq_true, if_false, Array.push_eq_append]
  rw [show fuel + (kv + 1) = fuel + kv + 1 from by omega, hrun fuel]

theorem mtailErr_later (pj : PJ) (pk : Nat) (k : List UInt8) (v : LVal) (lo hi : Nat) (g1 : Gap pj lo pk)
    (hs : StrAt pj k pk) (g2 : Gap pj (pk + 2) v.pos) (hok : Ok pj v) (hfin : v.fin ≤ hi) (hv : ValueSpec pj v)
    (ht : MTailErr pj v.fin hi) : MTailErr pj lo hi := by
  intro s c hc hct hlt ha hlo hb hsz
  have hpf := pos_lt_fin v pj hok
  have hg1 := g1.1
  have hg2 := g2.1
  have hoks : Ok pj (.str k pk) := hs
  obtain ⟨w, hw, hwt, hadv⟩ := advanceInto_node pj s.i lo (.str k pk) g1 hoks (by show pk + 2 ≤ s.i.lim; omega) ha hlo
  simp only [LVal.pos, tagOfL, intoNext] at hw hwt hadv
  obtain ⟨kv, i', hkv, hlim, hn1, hn2, hrun⟩ := member_run pj pk k v hs g2 hok hv
    { i := { lim := s.i.lim, off := pk + 1, addNext := 1, cur := payloadOf w, t := tagOf w },
      stack := s.stack, dst := s.dst ++ #[44] } w hw rfl rfl rfl rfl (by show v.fin ≤ s.i.lim; omega) hb hsz
  simp only at hlim
  obtain ⟨kt, hkt, htrun⟩ := ht { i := i', stack := s.stack, dst := (s.dst ++ #[44]) ++ ((Iter.quoted #[] k.toArray ++ (#[58] ++ render v))) } c hc hct
    (by show hi < i'.lim; omega) hn1 hn2 hb hsz
  refine ⟨kt + kv + 1, by omega, fun fuel => ?_⟩
  have hpk := peek_node pj s.i lo (.str k pk) g1 hoks (by show pk + 2 ≤ s.i.lim; omega) ha hlo
  simp only [tagOfL] at hpk
  rw [contF_adv pj s true (Or.inr hsz) hpk (by decide) hadv]
  have e : (tagOf w == tagObjectEnd) = false := by rw [hwt]; decide
  simp only [hb, e, stackObject_ne_array, beq_self_eq_true, if_true, Bool.false_eq_true, if_false, Array.push_eq_append]
  rw [show fuel + (kt + kv + 1) = (fuel + kt) + kv + 1 from by omega, hrun (fuel + kt), htrun fuel]

theorem menterErr_here (pj : PJ) (pk : Nat) (k : List UInt8) (v : LVal) (lo hi : Nat) (g1 : Gap pj lo pk)
    (hs : StrAt pj k pk) (g2 : Gap pj (pk + 2) v.pos) (hok : Ok pj v) (hfin : v.fin ≤ hi) (hv : ValueErr pj v) :
    MEnterErr pj lo hi := by
  intro i0 σ d c hc hct hlt ha hlo hb hsz
  have hpf := pos_lt_fin v pj hok
  have hg1 := g1.1
  have hg2 := g2.1
  have hoks : Ok pj (.str k pk) := hs
  obtain ⟨w, hw, hwt, hadv⟩ := advanceInto_node pj i0 lo (.str k pk) g1 hoks (by show pk + 2 ≤ i0.lim; omega) ha hlo
  simp only [LVal.pos, tagOfL, intoNext] at hw hwt hadv
  obtain ⟨kv, hkv, hrun⟩ := member_err pj pk k v hs g2 hok hv
    { i := { lim := i0.lim, off := pk + 1, addNext := 1, cur := payloadOf w, t := tagOf w },
      stack := σ, dst := d } w hw rfl rfl rfl rfl (by show v.fin ≤ i0.lim; omega) hb hsz
  refine ⟨_, hadv, kv + 1, by omega, fun fuel => ?_⟩
  rw [show fuel + (kv + 1) = fuel + kv + 1 from by omega, hrun fuel]

theorem menterErr_later (pj : PJ) (pk : Nat) (k : List UInt8) (v : LVal) (lo hi : Nat) (g1 : Gap pj lo pk)
    (hs : StrAt pj k pk) (g2 : Gap pj (pk + 2) v.pos) (hok : Ok pj v) (hfin : v.fin ≤ hi) (hv : ValueSpec pj v)
    (ht : MTailErr pj v.fin hi) : MEnterErr pj lo hi := by
  intro i0 σ d c hc hct hlt ha hlo hb hsz
  have hpf := pos_lt_fin v pj hok
  have hg1 := g1.1
  have hg2 := g2.1
  have hoks : Ok pj (.str k pk) := hs
  obtain ⟨w, hw, hwt, hadv⟩ := advanceInto_node pj i0 lo (.str k pk) g1 hoks (by show pk + 2 ≤ i0.lim; omega) ha hlo
  simp only [LVal.pos, tagOfL, intoNext] at hw hwt hadv
  obtain ⟨kv, i', hkv, hlim, hn1, hn2, hrun⟩ := member_run pj pk k v hs g2 hok hv
    { i := { lim := i0.lim, off := pk + 1, addNext := 1, cur := payloadOf w, t := tagOf w },
      stack := σ, dst := d } w hw rfl rfl rfl rfl (by show v.fin ≤ i0.lim; omega) hb hsz
  simp only at hlim
  obtain ⟨kt, hkt, htrun⟩ := ht { i := i', stack := σ, dst := d ++ ((Iter.quoted #[] k.toArray ++ (#[58] ++ render v))) } c hc hct
    (by show hi < i'.lim; omega) hn1 hn2 hb hsz
  refine ⟨_, hadv, kt + kv + 1, by omega, fun fuel => ?_⟩
  rw [show fuel + (kt + kv + 1) = (fuel + kt) + kv + 1 from by omega, hrun (fuel + kt), htrun fuel]

theorem valueErr_obj (pj : PJ) (p e : Nat) (ms : LMems) (hok : Ok pj (.obj p e ms))
    (he : MEnterErr pj (p + 1) (e - 1)) : ValueErr pj (.obj p e ms) := by
  intro s ⟨hoff, ⟨w, hw, hit, hic⟩, hfin, _⟩ hsz
  simp only [Ok, LVal.pos, LVal.fin] at hok hw hfin hoff
  obtain ⟨hpe, ⟨w', a, b, hpl⟩, ⟨c, hc, hct, _⟩, hes⟩ := hok
  cases word_inj hw a
  obtain ⟨r, hadv, k, hk, hrun⟩ := he { s.i with addNext := 0 } (s.stack.push stackObject) (s.dst.push 123) c hc hct
    (by show e - 1 < s.i.lim; omega) (Int.le_refl _) (by show (s.i.off : Int) + 0 = _; omega)
    (back_push _ _) (by rw [Array.size_push]; omega)
  obtain ⟨i1, tg⟩ := r
  refine ⟨k, by simp only [LVal.pos, LVal.fin]; omega, fun fuel => ?_⟩
  rw [body_objStart pj s (by rw [hit, b]), hadv]
  simp only [Res.bind_ok]
  rw [hrun fuel]

mutual
theorem value_err (pj : PJ) : ∀ v : LVal, Ok pj v → ¬ FloatsOk v → ValueErr pj v
  | .null p, _, hf => absurd trivial hf
  | .bool b p, _, hf => absurd trivial hf
  | .int x p, _, hf => absurd trivial hf
  | .uint x p, _, hf => absurd trivial hf
  | .float x f p, h, hf => valueErr_float pj x f p h hf
  | .str st p, _, hf => absurd trivial hf
  | .arr p e es, h, hf => valueErr_arr pj p e es h (enter_err pj es (p + 1) (e - 1) (by simp only [Ok] at h; exact h.2.2.2) (by simpa only [FloatsOk] using hf))
  | .obj p e ms, h, hf => valueErr_obj pj p e ms h (menter_err pj ms (p + 1) (e - 1) (by simp only [Ok] at h; exact h.2.2.2) (by simpa only [FloatsOk] using hf))
theorem enter_err (pj : PJ) : ∀ (vs : LVals) (lo hi : Nat), OkElems pj vs lo hi → ¬ FloatsOkVs vs → EnterErr pj lo hi
  | .nil, lo, hi, h, hf => absurd trivial hf
  | .cons v vs, lo, hi, h, hf => by
    simp only [OkElems] at h
    simp only [FloatsOkVs] at hf
    by_cases hv : FloatsOk v
    · exact enterErr_later pj v lo hi h.1 h.2.1 h.2.2.1 (value_spec pj v h.2.1 hv)
        (tail_err pj vs v.fin hi h.2.2.2 (fun hvs => hf ⟨hv, hvs⟩))
    · exact enterErr_here pj v lo hi h.1 h.2.1 h.2.2.1 (value_err pj v h.2.1 hv)
theorem tail_err (pj : PJ) : ∀ (vs : LVals) (lo hi : Nat), OkElems pj vs lo hi → ¬ FloatsOkVs vs → TailErr pj lo hi
  | .nil, lo, hi, h, hf => absurd trivial hf
  | .cons v vs, lo, hi, h, hf => by
    simp only [OkElems] at h
    simp only [FloatsOkVs] at hf
    by_cases hv : FloatsOk v
    · exact tailErr_later pj v lo hi h.1 h.2.1 h.2.2.1 (value_spec pj v h.2.1 hv)
        (tail_err pj vs v.fin hi h.2.2.2 (fun hvs => hf ⟨hv, hvs⟩))
    · exact tailErr_here pj v lo hi h.1 h.2.1 h.2.2.1 (value_err pj v h.2.1 hv)
theorem menter_err (pj : PJ) : ∀ (ms : LMems) (lo hi : Nat), OkMems pj ms lo hi → ¬ FloatsOkMs ms → MEnterErr pj lo hi
  | .nil, lo, hi, h, hf => absurd trivial hf
  | .cons pk k v ms, lo, hi, h, hf => by
    simp only [OkMems] at h
    simp only [FloatsOkMs] at hf
    by_cases hv : FloatsOk v
    · exact menterErr_later pj pk k v lo hi h.1 h.2.1 h.2.2.1 h.2.2.2.1 h.2.2.2.2.1 (value_spec pj v h.2.2.2.1 hv)
        (mtail_err pj ms v.fin hi h.2.2.2.2.2 (fun hvs => hf ⟨hv, hvs⟩))
    · exact menterErr_here pj pk k v lo hi h.1 h.2.1 h.2.2.1 h.2.2.2.1 h.2.2.2.2.1 (value_err pj v h.2.2.2.1 hv)
theorem mtail_err (pj : PJ) : ∀ (ms : LMems) (lo hi : Nat), OkMems pj ms lo hi → ¬ FloatsOkMs ms → MTailErr pj lo hi
  | .nil, lo, hi, h, hf => absurd trivial hf
  | .cons pk k v ms, lo, hi, h, hf => by
    simp only [OkMems] at h
    simp only [FloatsOkMs] at hf
    by_cases hv : FloatsOk v
    · exact mtailErr_later pj pk k v lo hi h.1 h.2.1 h.2.2.1 h.2.2.2.1 h.2.2.2.2.1 (value_spec pj v h.2.2.2.1 hv)
        (mtail_err pj ms v.fin hi h.2.2.2.2.2 (fun hvs => hf ⟨hv, hvs⟩))
    · exact mtailErr_here pj pk k v lo hi h.1 h.2.1 h.2.2.1 h.2.2.2.1 h.2.2.2.2.1 (value_err pj v h.2.2.2.1 hv)
end

/-- **Error case.** If some float inside the node cannot be formatted, `MarshalJSONBuffer` returns an error. -/
theorem marshalBuf_node_error (pj : PJ) (v : LVal) (i : Iter) (dst : Bytes) (hok : Ok pj v) (hf : ¬ FloatsOk v)
    (hon : OnNode pj v i) : Iter.marshalBuf pj i dst = .error .generic := by
  have hfin := ok_fin_le pj v hok
  obtain ⟨k, hk, hrun⟩ := value_err pj v hok hf { i := i, stack := #[stackNone], dst := dst } hon
    (by show 1 ≤ (#[stackNone] : Array UInt8).size; decide)
  unfold Iter.marshalBuf
  obtain ⟨f, hfeq⟩ : ∃ f, fuelOf pj = f + k + 1 := ⟨fuelOf pj - k - 1, by unfold fuelOf; omega⟩
  rw [hfeq, marshalLoop_succ, keyPart_skip pj _ (Or.inl (by show (#[stackNone] : Array UInt8).back! ≠ stackObject; decide))]
  simp only [Res.bind_ok]
  rw [hrun f]
  rfl

/-! ## 17. `Tight` is NOT needed for `MarshalJSON`: the key/value gap example of `WalkLayout`

On the tape `cexPJ` of `WalkLayout.neb_gap_counterexample` — the object `{"a":5}` with a NOP entry between the
key and the value, on which `NextElementBytes` reports no members — `MarshalJSON` still writes `{"a":5}`. -/
theorem marshal_gap_example :
    Iter.marshal cexPJ { lim := 7, off := 1, addNext := 0, cur := 7, t := tagObjectStart } =
      .ok #[123, 34, 97, 34, 58, 53, 125] := by
  rw [marshal_node cexPJ cexDoc _ neb_gap_counterexample.1 (by simp only [cexDoc, FloatsOk, FloatsOkMs, and_self])
    ⟨rfl, ⟨_, rfl, by decide, by decide⟩, by decide, by decide⟩]
  have : render cexDoc = #[123, 34, 97, 34, 58, 53, 125] := by decide +kernel
  rw [this]

end SJ.MarshalExact
