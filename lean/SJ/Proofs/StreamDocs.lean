import SJ.Spec.Json
import SJ.Proofs.Stream
/-
Newline-delimited JSON texts cut into chunks: the documents of the stream are the documents of the chunks,
in order, provided every chunk but the last ends in LF (which is what the chunker guarantees).
-/
namespace SJ.StreamDocs
open SJ

/-- the non-blank lines of a text -/
def lines (s : List UInt8) : List (List UInt8) := (Spec.splitLines s).filter (fun l => !Spec.isBlank l)
/-- verdicts of the lines, in order -/
def lineVerdicts (s : List UInt8) : List Spec.Verdict := (lines s).map Spec.containerText

/-! ### tests of the definitions and of the statements below on small inputs -/
section Tests
private def showV : Spec.Verdict → String
  | .accept (.arr l) => s!"accept arr {l.length}"
  | .accept _ => "accept other"
  | .reject => "reject"
  | .outside => "outside"

private def b (s : String) : List UInt8 := s.toUTF8.toList

/-- info: [[91, 49, 93], [], [123, 125], []] -/
#guard_msgs in #eval Spec.splitLines (b "[1]\n\n{}\n")
/-- info: [[91, 49, 93], [123, 125]] -/
#guard_msgs in #eval lines (b "[1]\n\n{}\n")
/-- info: [[91, 49, 93], [91, 50, 93]] -/
#guard_msgs in #eval lines (b "[1]\n" ++ b "[2]")
/-- info: [] -/
#guard_msgs in #eval lines (b "\n\n")
/-- info: [] -/
#guard_msgs in #eval lines (b "")
/-- info: "accept arr 2" -/
#guard_msgs in #eval showV (Spec.ndText (b "[1]\n\n{}\n"))
/-- info: "reject" -/
#guard_msgs in #eval showV (Spec.ndText (b "\n\n"))
/-- info: "reject" -/
#guard_msgs in #eval showV (Spec.ndText (b "[1]\n[\n"))
-- a line with a lone surrogate escape is `outside`; a later rejected line still gives `reject`
/-- info: "outside" -/
#guard_msgs in #eval showV (Spec.ndText (b "[1]\n[\"\\ud800\"]\n[2]\n"))
/-- info: "reject" -/
#guard_msgs in #eval showV (Spec.ndText (b "[1]\n[\"\\ud800\"]\n[\n"))
-- without the LF at the cut, lines do not add up
/-- info: ([[91, 49, 93, 91, 50, 93]], [[91, 49, 93], [91, 50, 93]]) -/
#guard_msgs in #eval (lines (b "[1]" ++ b "[2]"), lines (b "[1]") ++ lines (b "[2]"))
/-- info: true -/
#guard_msgs in #eval
  let cs := [b "[1]\n\n{}\n", b "\n\n", b "[2]\n[3]\n", b "[4]"]
  decide (lines cs.flatten = (cs.map lines).flatten)
end Tests

/-! ### `splitLines` without accumulators -/

/-- put `p` in front of the first line -/
def consHead (p : List UInt8) : List (List UInt8) → List (List UInt8)
  | [] => [p]
  | h :: t => (p ++ h) :: t

/-- the lines of a text, by recursion on the text -/
def splitL : List UInt8 → List (List UInt8)
  | [] => [[]]
  | c :: r => if c == 0x0A then [] :: splitL r else consHead [c] (splitL r)

theorem splitL_ne_nil : ∀ s, splitL s ≠ []
  | [] => by simp [splitL]
  | c :: r => by
    simp only [splitL]
    split
    · simp
    · have := splitL_ne_nil r
      cases h : splitL r with
      | nil => exact absurd h this
      | cons x t => simp [consHead]

theorem consHead_nil_left {l : List (List UInt8)} (h : l ≠ []) : consHead [] l = l := by
  cases l with
  | nil => exact absurd rfl h
  | cons x t => simp [consHead]

theorem consHead_consHead (p q : List UInt8) (l : List (List UInt8)) :
    consHead p (consHead q l) = consHead (p ++ q) l := by
  cases l <;> simp [consHead]

theorem consHead_append {l : List (List UInt8)} (p : List UInt8) (h : l ≠ []) (m : List (List UInt8)) :
    consHead p (l ++ m) = consHead p l ++ m := by
  cases l with
  | nil => exact absurd rfl h
  | cons x t => simp [consHead]

/-- the accumulator form of `splitLines.go` -/
theorem go_eq (s : List UInt8) : ∀ (cur : List UInt8) (acc : List (List UInt8)),
    Spec.splitLines.go s cur acc = acc.reverse ++ consHead cur.reverse (splitL s) := by
  induction s with
  | nil => intro cur acc; simp [Spec.splitLines.go, splitL, consHead]
  | cons c r ih =>
    intro cur acc
    simp only [Spec.splitLines.go, splitL]
    split
    · rw [ih, List.reverse_nil, consHead_nil_left (splitL_ne_nil r)]
      simp [consHead]
    · rw [ih, consHead_consHead]
      simp

theorem splitLines_eq (s : List UInt8) : Spec.splitLines s = splitL s := by
  simp [Spec.splitLines, go_eq, consHead_nil_left (splitL_ne_nil s)]

theorem splitL_append_lf_cons (a b : List UInt8) : splitL (a ++ 10 :: b) = splitL a ++ splitL b := by
  induction a with
  | nil => simp [splitL]
  | cons c r ih =>
    simp only [List.cons_append, splitL]
    split
    · simp [ih]
    · rw [ih, consHead_append _ (splitL_ne_nil r)]

theorem splitL_snoc_lf (a : List UInt8) : splitL (a ++ [10]) = splitL a ++ [[]] := by
  simpa [splitL] using splitL_append_lf_cons a []

theorem exists_snoc_of_getLast? {a : List UInt8} {x : UInt8} (h : a.getLast? = some x) :
    ∃ a', a = a' ++ [x] := by
  refine ⟨a.dropLast, ?_⟩
  have hne : a ≠ [] := by intro h0; simp [h0] at h
  have := List.dropLast_concat_getLast hne
  rw [List.getLast?_eq_some_getLast hne] at h
  simp only [Option.some.injEq] at h
  rw [h] at this
  exact this.symm

/-- 1. a text ending in LF followed by another: the lines of the first without its (empty) last line, then
    the lines of the second -/
theorem splitLines_append_lf (a b : List UInt8) (h : a.getLast? = some 10) :
    Spec.splitLines (a ++ b) = (Spec.splitLines a).dropLast ++ Spec.splitLines b := by
  obtain ⟨a', rfl⟩ := exists_snoc_of_getLast? h
  rw [splitLines_eq, splitLines_eq, splitLines_eq, splitL_snoc_lf, List.append_assoc,
    List.singleton_append, splitL_append_lf_cons, List.dropLast_concat]

/-- 1'. the dropped line is the empty line after the final LF -/
theorem splitLines_getLast?_lf (a : List UInt8) (h : a.getLast? = some 10) :
    (Spec.splitLines a).getLast? = some [] := by
  obtain ⟨a', rfl⟩ := exists_snoc_of_getLast? h
  simp [splitLines_eq, splitL_snoc_lf]

theorem splitLines_lf_eq (a : List UInt8) (h : a.getLast? = some 10) :
    Spec.splitLines a = (Spec.splitLines a).dropLast ++ [[]] := by
  obtain ⟨a', rfl⟩ := exists_snoc_of_getLast? h
  simp [splitLines_eq, splitL_snoc_lf]

/-! ### non-blank lines -/

theorem lines_nil : lines [] = [] := by decide

/-- 2. -/
theorem lines_append_lf (a b : List UInt8) (h : a.getLast? = some 10) :
    lines (a ++ b) = lines a ++ lines b := by
  unfold lines
  rw [splitLines_append_lf a b h, List.filter_append]
  conv => rhs; rw [splitLines_lf_eq a h]
  simp [Spec.isBlank]

theorem lineVerdicts_append_lf (a b : List UInt8) (h : a.getLast? = some 10) :
    lineVerdicts (a ++ b) = lineVerdicts a ++ lineVerdicts b := by
  simp [lineVerdicts, lines_append_lf a b h]

/-- 3. -/
theorem lines_flatten (cs : List (List UInt8)) (h : ∀ c ∈ cs.dropLast, c.getLast? = some 10) :
    lines cs.flatten = (cs.map lines).flatten := by
  induction cs with
  | nil => simp [lines_nil]
  | cons c cs ih =>
    cases cs with
    | nil => simp
    | cons d ds =>
      have hc : c.getLast? = some 10 := h c (by simp [List.dropLast])
      have ih' := ih (fun x hx => h x (by simp [List.dropLast]; exact Or.inr hx))
      rw [List.flatten_cons, lines_append_lf _ _ hc, ih']
      simp

theorem lineVerdicts_flatten (cs : List (List UInt8)) (h : ∀ c ∈ cs.dropLast, c.getLast? = some 10) :
    lineVerdicts cs.flatten = (cs.map lineVerdicts).flatten := by
  unfold lineVerdicts
  rw [lines_flatten cs h, List.map_flatten, List.map_map]
  rfl

/-! ### `ndText` in terms of the lines -/

theorem ndGo_accept (ls : List (List UInt8)) : ∀ (acc : List Spec.JVal) (o : Bool) (vs : List Spec.JVal),
    Spec.ndText.go ls acc o = .accept (.arr vs) ↔
      o = false ∧ ∃ ws, ls.map Spec.containerText = ws.map Spec.Verdict.accept ∧ vs = acc.reverse ++ ws := by
  induction ls with
  | nil =>
    intro acc o vs
    cases o <;> simp [Spec.ndText.go, eq_comm]
  | cons l r ih =>
    intro acc o vs
    simp only [Spec.ndText.go]
    split
    · rename_i v hv
      rw [ih]
      constructor
      · rintro ⟨ho, ws, h1, h2⟩
        exact ⟨ho, v :: ws, by simp [hv, h1], by simp [h2]⟩
      · rintro ⟨ho, ws, h1, h2⟩
        cases ws with
        | nil => simp at h1
        | cons w ws =>
          simp only [List.map_cons, hv, List.cons.injEq, Spec.Verdict.accept.injEq] at h1
          exact ⟨ho, ws, h1.2, by simp [h2, h1.1]⟩
    · rename_i hv
      constructor
      · intro h; cases h
      · rintro ⟨_, ws, h1, _⟩
        cases ws <;> simp [hv] at h1
    · rename_i hv
      rw [ih]
      constructor
      · rintro ⟨ho, _⟩; cases ho
      · rintro ⟨_, ws, h1, _⟩
        cases ws <;> simp [hv] at h1

theorem ndGo_reject (ls : List (List UInt8)) : ∀ (acc : List Spec.JVal) (o : Bool),
    Spec.ndText.go ls acc o = .reject ↔ ∃ l ∈ ls, Spec.containerText l = .reject := by
  induction ls with
  | nil => intro acc o; cases o <;> simp [Spec.ndText.go]
  | cons l r ih =>
    intro acc o
    simp only [Spec.ndText.go]
    split
    · rename_i v hv
      rw [ih]; simp [hv]
    · rename_i hv
      simp [hv]
    · rename_i hv
      rw [ih]; simp [hv]

theorem ndText_eq (s : List UInt8) :
    Spec.ndText s = if lines s = [] then .reject else Spec.ndText.go (lines s) [] false := by
  unfold Spec.ndText lines
  simp only [List.isEmpty_iff]

/-- 4a. -/
theorem ndText_accept_iff (s : List UInt8) (vs : List Spec.JVal) :
    Spec.ndText s = .accept (.arr vs) ↔
      lines s ≠ [] ∧ (lines s).map Spec.containerText = vs.map Spec.Verdict.accept := by
  rw [ndText_eq]
  split
  · rename_i h; simp [h]
  · rename_i h
    rw [ndGo_accept]
    simp [h]

/-- 4b. -/
theorem ndText_reject_iff (s : List UInt8) :
    Spec.ndText s = .reject ↔ lines s = [] ∨ ∃ l ∈ lines s, Spec.containerText l = .reject := by
  rw [ndText_eq]
  split
  · rename_i h; simp [h]
  · rename_i h
    rw [ndGo_reject]
    simp [h]

theorem ndGo_outside (ls : List (List UInt8)) : ∀ (acc : List Spec.JVal) (o : Bool),
    Spec.ndText.go ls acc o = .outside ↔
      (∀ l ∈ ls, Spec.containerText l ≠ .reject) ∧ (o = true ∨ ∃ l ∈ ls, Spec.containerText l = .outside) := by
  induction ls with
  | nil => intro acc o; cases o <;> simp [Spec.ndText.go]
  | cons l r ih =>
    intro acc o
    simp only [Spec.ndText.go]
    split
    · rename_i v hv
      rw [ih]; simp [hv]
    · rename_i hv
      simp [hv]
    · rename_i hv
      rw [ih]; simp [hv]

/-- 4c. the remaining verdict: no line is rejected and some line leaves the claimed language -/
theorem ndText_outside_iff (s : List UInt8) :
    Spec.ndText s = .outside ↔
      (∀ l ∈ lines s, Spec.containerText l ≠ .reject) ∧ ∃ l ∈ lines s, Spec.containerText l = .outside := by
  rw [ndText_eq]
  split
  · rename_i h; simp [h]
  · rename_i h
    rw [ndGo_outside]
    simp

/-- `ndText` only ever accepts with an array (of the documents) -/
theorem ndText_accept_arr (s : List UInt8) (v : Spec.JVal) (h : Spec.ndText s = .accept v) :
    ∃ vs, v = .arr vs := by
  rw [ndText_eq] at h
  split at h
  · cases h
  · have : ∀ (ls : List (List UInt8)) (acc : List Spec.JVal) (o : Bool),
        Spec.ndText.go ls acc o = .accept v → ∃ vs, v = .arr vs := by
      intro ls
      induction ls with
      | nil =>
        intro acc o hg
        simp only [Spec.ndText.go] at hg
        split at hg
        · cases hg
        · cases hg; exact ⟨_, rfl⟩
      | cons l r ih =>
        intro acc o hg
        simp only [Spec.ndText.go] at hg
        split at hg
        · exact ih _ _ hg
        · cases hg
        · exact ih _ _ hg
    exact this _ _ _ h

/-! ### chunks -/

/-- 5a. the documents of the stream are the documents of the chunks, in order -/
theorem chunks_documents (cs : List (List UInt8)) (vss : List (List Spec.JVal))
    (hlf : ∀ c ∈ cs.dropLast, c.getLast? = some 10)
    (hlen : cs.length = vss.length)
    (hdoc : ∀ (i : Nat) (hi : i < cs.length),
      (lines cs[i] = [] ∧ vss[i] = []) ∨ Spec.ndText cs[i] = .accept (.arr vss[i]))
    (hne : ∃ c ∈ cs, lines c ≠ []) :
    Spec.ndText cs.flatten = .accept (.arr vss.flatten) := by
  rw [ndText_accept_iff, lines_flatten cs hlf]
  constructor
  · obtain ⟨c, hc, hcl⟩ := hne
    intro h0
    rw [List.flatten_eq_nil_iff] at h0
    exact hcl (h0 _ (List.mem_map_of_mem hc))
  · rw [List.map_flatten, List.map_flatten, List.map_map]
    congr 1
    apply List.ext_getElem
    · simp [hlen]
    · intro i h1 h2
      simp only [List.getElem_map, Function.comp_apply]
      have hi : i < cs.length := by simpa using h1
      rcases hdoc i hi with ⟨ha, hb⟩ | h
      · simp [ha, hb]
      · exact ((ndText_accept_iff _ _).1 h).2

/-- 5b. a rejected chunk rejects the stream -/
theorem chunks_reject (cs : List (List UInt8))
    (hlf : ∀ c ∈ cs.dropLast, c.getLast? = some 10)
    (hrej : ∃ c ∈ cs, Spec.ndText c = .reject ∧ lines c ≠ []) :
    Spec.ndText cs.flatten = .reject := by
  obtain ⟨c, hc, hr, hl⟩ := hrej
  rw [ndText_reject_iff] at hr ⊢
  rcases hr with hr | ⟨l, hl1, hl2⟩
  · exact absurd hr hl
  · right
    refine ⟨l, ?_, hl2⟩
    rw [lines_flatten cs hlf, List.mem_flatten]
    exact ⟨lines c, List.mem_map_of_mem hc, hl1⟩

/-- 5b in index form -/
theorem chunks_reject_idx (cs : List (List UInt8))
    (hlf : ∀ c ∈ cs.dropLast, c.getLast? = some 10)
    (i : Nat) (hi : i < cs.length) (hr : Spec.ndText cs[i] = .reject) (hl : lines cs[i] ≠ []) :
    Spec.ndText cs.flatten = .reject :=
  chunks_reject cs hlf ⟨cs[i], List.getElem_mem hi, hr, hl⟩

/-- a stream all of whose chunks are blank is rejected (no document) -/
theorem chunks_blank (cs : List (List UInt8))
    (hlf : ∀ c ∈ cs.dropLast, c.getLast? = some 10)
    (hb : ∀ c ∈ cs, lines c = []) :
    Spec.ndText cs.flatten = .reject := by
  rw [ndText_reject_iff, lines_flatten cs hlf]
  left
  rw [List.flatten_eq_nil_iff]
  intro l hl
  obtain ⟨c, hc, rfl⟩ := List.mem_map.1 hl
  exact hb c hc

/-! ### the chunker of `ParseNDStream` -/

/-- 6a. on a stream that ends with EOF, the non-blank lines of the stream are those of the chunks in order -/
theorem stream_lines (reads : List (List UInt8)) (fin : Stream.Fin)
    (heof : (Stream.run reads fin).2 = .eof) :
    lines reads.flatten = ((Stream.run reads fin).1.map lines).flatten ∧
    lineVerdicts reads.flatten = ((Stream.run reads fin).1.map lineVerdicts).flatten := by
  obtain ⟨_, h2, h3, _⟩ := Stream.run_spec reads fin
  rw [← (h2 heof).2]
  exact ⟨lines_flatten _ h3, lineVerdicts_flatten _ h3⟩

/-- 6b. the documents of a stream read to EOF are the documents of the chunks handed to the parsers, in
    order, whatever the fragmentation into reads -/
theorem stream_documents (reads : List (List UInt8)) (fin : Stream.Fin)
    (heof : (Stream.run reads fin).2 = .eof)
    (vss : List (List Spec.JVal))
    (hlen : (Stream.run reads fin).1.length = vss.length)
    (hdoc : ∀ (i : Nat) (hi : i < (Stream.run reads fin).1.length),
      (lines (Stream.run reads fin).1[i] = [] ∧ vss[i] = []) ∨
        Spec.ndText (Stream.run reads fin).1[i] = .accept (.arr vss[i]))
    (hne : ∃ c ∈ (Stream.run reads fin).1, lines c ≠ []) :
    Spec.ndText reads.flatten = .accept (.arr vss.flatten) := by
  obtain ⟨_, h2, h3, _⟩ := Stream.run_spec reads fin
  rw [← (h2 heof).2]
  exact chunks_documents _ vss h3 hlen hdoc hne

/-- 6c. a chunk with a rejected line rejects the stream -/
theorem stream_reject (reads : List (List UInt8)) (fin : Stream.Fin)
    (heof : (Stream.run reads fin).2 = .eof)
    (hrej : ∃ c ∈ (Stream.run reads fin).1, Spec.ndText c = .reject ∧ lines c ≠ []) :
    Spec.ndText reads.flatten = .reject := by
  obtain ⟨_, h2, h3, _⟩ := Stream.run_spec reads fin
  rw [← (h2 heof).2]
  exact chunks_reject _ h3 hrej

/-- 6d. when the reader fails instead, the chunks delivered so far still are whole lines of a prefix of the
    stream: their documents are a prefix of the stream's lines -/
theorem stream_lines_prefix (reads : List (List UInt8)) (fin : Stream.Fin)
    (hall : ∀ c ∈ (Stream.run reads fin).1, c.getLast? = some 10) :
    ∃ tail, lines reads.flatten = ((Stream.run reads fin).1.map lines).flatten ++ lines tail := by
  obtain ⟨⟨tail, h1⟩, _, _, _⟩ := Stream.run_spec reads fin
  refine ⟨tail, ?_⟩
  rw [← h1]
  have key : ∀ (cs : List (List UInt8)), (∀ c ∈ cs, c.getLast? = some 10) →
      lines (cs.flatten ++ tail) = (cs.map lines).flatten ++ lines tail := by
    intro cs
    induction cs with
    | nil => intro _; simp
    | cons c cs ih =>
      intro h
      rw [List.flatten_cons, List.append_assoc, lines_append_lf _ _ (h c (by simp)),
        ih (fun x hx => h x (by simp [hx]))]
      simp
  exact key _ hall

/-! ### the statements on examples -/
section Tests2
private def b' (s : String) : List UInt8 := s.toUTF8.toList
private def cs0 : List (List UInt8) := [b' "[1]\n\n{}\n", b' "\n\n", b' "[2]\n[3]\n", b' "[4]"]
/-- info: [2, 0, 2, 1] -/
#guard_msgs in #eval cs0.map (fun c => (lines c).length)
/-- info: 5 -/
#guard_msgs in #eval (lines cs0.flatten).length
/-- info: true -/
#guard_msgs in #eval decide (∀ c ∈ cs0.dropLast, c.getLast? = some 10)
private def reads0 : List (List UInt8) := [b' "[1]\n[2", b' "]\n\n", b' "\n[3", b' "]"]
/-- info: ([[91, 49, 93, 10, 91, 50, 93, 10], [10, 10], [91, 51, 93]], SJ.Stream.Fin.eof) -/
#guard_msgs in #eval Stream.run reads0 .eof
/-- info: [2, 0, 1] -/
#guard_msgs in #eval (Stream.run reads0 .eof).1.map (fun c => (lines c).length)
/-- info: 3 -/
#guard_msgs in #eval (lines reads0.flatten).length
end Tests2

end SJ.StreamDocs
