import SJ.Properties.C10
import SJ.Properties.C12
import SJ.Properties.C13
import SJ.Properties.C14
import SJ.Properties.C18
import SJ.Proofs.SourceLevelA
import SJ.Proofs.SourceLevelB
import SJ.Proofs.SourceLevelC
import SJ.Proofs.SourceLevelD
import SJ.Proofs.SourceLevelE
set_option autoImplicit false
set_option linter.unusedVariables false
/-
SourceLevelF — property theorems stated directly about the MEANING OF THE GO SOURCE (continuation of SourceLevelA … E).

Each theorem chains a source tie (the hand model is the meaning, under `GoSem.runFun goFuns <tree> fuel ⟨store, tape⟩`, of a
syntax tree regenerated from the Go source on every run) with a property theorem about the hand model.  The conclusions
mention no function of the hand model: they speak of the outcome of `runFun`, of the tape and store the run leaves and of
what the tape DENOTES (`Ok pj doc`).  Plain data (`PJ`, `Iter`, `View`) and the descriptions of cursors used by the
earlier parts (`skipIter`: the cursor `Advance` leaves on a located value; `Stands`/`StandsOn`; `OnNode`) occur as carriers
of the stores' contents.

Contents
 1. C12: `Object.ForEach` with a key filter, `Array.ForEach`, `Array.FirstType` on a tape denoting an object / an array.
 2. C14: `Object.NextElementBytes` started anywhere in a gap = started at its end.
 3. C13 / C14: edit, then read back with a reader that has a source tie.
 4. C18: what `appendFloat` prints is exactly the digit string of the shortest-digits contract.
-/
namespace SJ.SourceLevelF
open SJ SJ.Generated SJ.GoSem SJ.GoIter SJ.GoSet SJ.Layout

/-! ## 1. C12 — filtered iteration -/

section C12
open SJ.Tables SJ.WalkLayout SJ.Lookup SJ.DeleteDoc SJ.GoObject SJ.GoDelete SJ.Properties.C12

/-- **`Object.ForEach(fn, onlyKeys)`, source level** (`C12_forEach` ∘ the `Object.ForEach` tie `GoDelete.objForEach_sim`, the
    third clause of `C14_delete_code_follows_source`).  On a tape that holds the located object `.obj p e ms` (NOP gaps
    anywhere), with no filter or with pairwise distinct member keys: running `Object.ForEach` of `parsed_object.go` (as printed
    from /repo) on the object's view (`off = p+1`, `lim = e`, what `Iter.Object` returns) with the key set `ks` returns `nil`,
    leaves the tape alone, and the log of what the callback was handed is exactly, in tape order, one entry
    `(len(name), iterator)` per member whose key is in `ks` — every member when `ks` is empty — with the member's own key
    bytes as `name` and the iterator standing on the member's own value (`skipIter pj e v`: one past the value's first word,
    that word's tag and payload, the object's view, next `Advance` at the value's end; `OnNode`).  Nothing else is logged.
    Discharged: the tie's view premise (`e ≤ len(tape)`: the closing brace is a word of the tape), the model fuel
    (`fuelOf pj` is above `e - p`), the empty log and the parameter in the store.  Remaining: `BufOK pj` (both string buffers
    shorter than 2^63 bytes, Go `int`: the keys are compared through `stringByteAt`; `Ok` does not bound the buffers), the
    property's own premise `h` (for duplicate keys under a filter `ForEach` stops early: `Lookup.forEach_dup_discrepancy`),
    the interpreter's loop budget `2·e + 7`. -/
theorem C12_source_forEach (pj : PJ) (p e : Nat) (ms : LMems) (ks : List Bytes) (hok : Ok pj (.obj p e ms))
    (h : ks = [] ∨ (memKeys ms).Nodup) (hb : BufOK pj) (fuel : Nat) (hf : 2 * e + 7 ≤ fuel) :
    ∃ s, runFun goFuns goObject_ForEach fuel
        ⟨objStore pj { lim := e, off := p + 1 } ks [("fn.log", .ints [])], pj.tape⟩ = .ret s [.bool false] ∧
      s.tape = pj.tape ∧
      GoDelete.logOf s.env = encNIs ((membersWithKeys ks ms).map (cbOf pj e)).toArray ∧
      ∀ kv ∈ membersWithKeys ks ms, Ok pj kv.2 ∧ OnNode pj kv.2 (skipIter pj e kv.2) ∧
        (skipIter pj e kv.2).t = tagOfL kv.2 := by
  obtain ⟨hms, hlt, _, hle, _⟩ := obj_parts hok
  have hm := C12_forEach pj p e ms ks hok h
  have htie := objForEach_sim pj hb { lim := e, off := p + 1 } hle ks
    (objStore pj { lim := e, off := p + 1 } ks [("fn.log", .ints [])]) (RecvIn_objStore pj _ ks _)
    (by simp [objStore, bufEnv, Env.get]) (by simp [GoDelete.logOf, objStore, bufEnv, Env.get]) fuel (fuelOf pj)
    (by show e - (p + 1) + 1 ≤ fuelOf pj; unfold fuelOf; omega) hf
  rw [hm] at htie
  obtain ⟨s, ho, ht, hlog⟩ := htie
  refine ⟨s, ho, ht, hlog, fun kv hkv => ?_⟩
  obtain ⟨hv, hfin⟩ := membersWithKeys_ok pj ks ms _ _ hms kv hkv
  obtain ⟨h1, h2⟩ := skipIter_onNode pj e kv.2 hv (by omega)
  exact ⟨hv, h1, h2⟩

/-- the loop of `Array.ForEach` in the model, from any point of the walk: `i` is about to `Advance` to `lo`, the remaining
    elements `vs` lie in `[lo, hi)`, and `hi` is the end of the view or holds a non-value word — one iterator per element,
    standing on it (the read-only half of `DeleteDoc.arr_loop`) -/
theorem arrForEach_elems (pj : PJ) : ∀ (vs : LVals) (i : Iter) (acc : Array Iter) (lo hi fuel : Nat),
    OkElems pj vs lo hi → hi ≤ i.lim →
    (hi = i.lim ∨ ∃ c, word pj hi = some c ∧ (tagOf c == tagNop) = false ∧ tagToType (tagOf c) = typeNone) →
    0 ≤ i.addNext → (i.off : Int) + i.addNext = lo → lenVs vs < fuel →
    ∃ r its, View.arrForEach pj i acc fuel = .ok r ∧ r.toList = acc.toList ++ its ∧ Stands pj i.lim vs its
  | .nil, i, acc, lo, hi, fuel, hok, hhi, hend, ha, hlo, hf => by
    obtain ⟨f, rfl⟩ : ∃ f, fuel = f + 1 := ⟨fuel - 1, by simp only [lenVs] at hf; omega⟩
    simp only [OkElems] at hok
    obtain ⟨i', he⟩ := advance_end pj i lo hi hok hhi hend ha hlo
    refine ⟨acc, [], ?_, by simp, trivial⟩
    rw [View.arrForEach, he]
    simp only [Res.bind_ok, beq_self_eq_true, if_true]
  | .cons v vs, i, acc, lo, hi, fuel, hok, hhi, hend, ha, hlo, hf => by
    obtain ⟨f, rfl⟩ : ∃ f, fuel = f + 1 := ⟨fuel - 1, by omega⟩
    simp only [lenVs] at hf
    obtain ⟨i', he, hlim, hoff, hw, ha', hnext, rest⟩ := advance_elem pj i v vs lo hi hok hhi ha hlo
    have hst : StandsOn pj i.lim v i' := ⟨hlim, hoff, hnext, hw⟩
    obtain ⟨r, its, hr, hl, hstands⟩ := arrForEach_elems pj vs i' (acc.push i') v.fin hi f rest (by omega)
      (by rw [hlim]; exact hend) ha' hnext (by omega)
    refine ⟨r, i' :: its, ?_, by rw [hl]; simp, ?_⟩
    · rw [View.arrForEach, he]
      simp only [Res.bind_ok, tagToType_tagOfL_ne_none v, Bool.false_eq_true, if_false]
      exact hr
    · simp only [Stands]
      exact ⟨hst, by rw [← hlim]; exact hstands⟩

/-- `View.arrForEach` on the `Array` view of an array node the tape holds: one iterator per element, in order, the `k`-th
    standing on the `k`-th element -/
theorem arrForEach_arr (pj : PJ) (p e : Nat) (es : LVals) (hok : Ok pj (.arr p e es)) (fuel : Nat)
    (hf : lenVs es < fuel) :
    ∃ its, View.arrForEach pj (View.iter { lim := e, off := p + 1 }) #[] fuel = .ok its ∧ its.size = lenVs es ∧
      Stands pj e es its.toList := by
  have hok' := hok
  simp only [Ok] at hok'
  obtain ⟨hpe, _, ⟨c, hc, hct, _⟩, hes⟩ := hok'
  obtain ⟨r, its, hr, hl, hst⟩ := arrForEach_elems pj es (View.iter { lim := e, off := p + 1 }) #[] (p + 1) (e - 1) fuel hes
    (by show e - 1 ≤ e; omega) (Or.inr ⟨c, hc, by rw [hct]; decide, by rw [hct]; exact tt_arrayEnd⟩)
    (Int.le_refl _) (by show ((p + 1 : Nat) : Int) + 0 = _; omega) hf
  have hl' : r.toList = its := by simpa using hl
  refine ⟨r, hr, ?_, by rw [hl']; exact hst⟩
  rw [← Array.length_toList, hl']
  exact stands_length es its hst

/-- **`Array.ForEach(fn)`, source level** (the `Array.ForEach` tie `GoDelete.arrForEach_sim`, second clause of
    `C14_delete_code_follows_source`, ∘ the element walk of the model, `arrForEach_arr` above — the read-only half of the
    walk behind `C14_array_delete`; there was no property theorem for `View.arrForEach`).  On a tape that holds the located
    array `.arr p e es` (NOP gaps anywhere): running `Array.ForEach` of `parsed_array.go` (as printed from /repo) on the
    array's view returns, leaves the tape alone, and the log shows that the callback was made exactly once per element, in
    order, each time with an iterator standing on that element (`Stands`: one past the element's first word, holding that
    word's tag and payload, the array's view, next `Advance` at the element's end).
    Discharged: the view premise (`e ≤ len(tape)`), the model fuel, the empty log.  `BufOK` is not needed (no string is
    read).  Remaining: the interpreter's loop budget `2·e + 6`. -/
theorem C12_source_arrForEach (pj : PJ) (p e : Nat) (es : LVals) (hok : Ok pj (.arr p e es)) (fuel : Nat)
    (hf : 2 * e + 6 ≤ fuel) :
    ∃ s its, runFun goFuns goArray_ForEach fuel
        ⟨arrStore pj { lim := e, off := p + 1 } [("fn.log", .ints [])], pj.tape⟩ = .ret s [] ∧
      s.tape = pj.tape ∧ GoDelete.logOf s.env = GoDelete.encIters its ∧ its.size = lenVs es ∧
      Stands pj e es its.toList := by
  obtain ⟨hpe, hle⟩ := SJ.SourceLevelB.arr_end_le hok
  have hlen : lenVs es ≤ e - 1 - (p + 1) := by
    have h := hok; simp only [Ok] at h
    exact lenVs_le pj es (p + 1) (e - 1) h.2.2.2
  obtain ⟨its, hr, hsize, hst⟩ := arrForEach_arr pj p e es hok (e - (p + 1) + 1) (by omega)
  have htie := arrForEach_sim pj { lim := e, off := p + 1 } hle
    (arrStore pj { lim := e, off := p + 1 } [("fn.log", .ints [])]) (RecvIn_arrStore pj _ _)
    (by simp [GoDelete.logOf, arrStore, bufEnv, Env.get]) fuel (e - (p + 1) + 1) (Nat.le_refl _) hf
  rw [hr] at htie
  obtain ⟨s, ho, ht, hlog⟩ := htie
  exact ⟨s, its, ho, ht, hlog, hsize, hst⟩

/-- `View.firstType` on the `Array` view of an array node: the type of the first element's tag, `TypeNone` for `[]` -/
theorem firstType_arr (pj : PJ) (p e : Nat) (es : LVals) (hok : Ok pj (.arr p e es)) :
    View.firstType pj { lim := e, off := p + 1 } =
      .ok (match es with | .nil => typeNone | .cons v _ => tagToType (tagOfL v)) := by
  have hok' := hok
  simp only [Ok] at hok'
  obtain ⟨hpe, _, ⟨c, hc, hct, _⟩, hes⟩ := hok'
  unfold View.firstType Iter.peekNext Iter.peekNextTag
  rw [bump_to (View.iter { lim := e, off := p + 1 }) (p + 1) (Int.le_refl _)
    (by show ((p + 1 : Nat) : Int) + 0 = _; omega)]
  simp only [Res.bind_ok]
  show (Iter.peekLoop pj e (p + 1) >>= fun t => Res.ok (tagToType t)) = _
  cases es with
  | nil =>
    simp only [OkElems] at hes
    rw [peekLoop_gap pj e hes (by omega), peekLoop_live pj e hc (by rw [hct]; decide) (by omega)]
    simp only [Res.bind_ok, hct, tt_arrayEnd]
  | cons v vs =>
    simp only [OkElems] at hes
    obtain ⟨g, hv, hfin, _⟩ := hes
    obtain ⟨w, hw, ht⟩ := ok_head pj v hv
    have hpf := pos_lt_fin v pj hv
    rw [peekLoop_gap pj e g (by omega), peekLoop_live pj e hw (by rw [ht]; exact tagOfL_ne_nop v) (by omega)]
    simp only [Res.bind_ok, ht]

/-- **`Array.FirstType()`, source level** (the `Array.FirstType` tie `GoDelete.arrFirstType_sim`, first clause of
    `C14_delete_code_follows_source`, ∘ `firstType_arr` above; there was no property theorem for `View.firstType`).  On a tape
    that holds the located array `.arr p e es` (NOP gaps anywhere, also before the first element): running `Array.FirstType`
    of `parsed_array.go` (as printed from /repo) on the array's view returns the `Type` of the first element's tag
    (`tagToTypeSpec`, the table `C12_tag_types` identifies with `TagToType`), and `TypeNone` for the empty array; the tape is
    untouched.
    Discharged: the view premise (`e ≤ len(tape)`).  No `BufOK`.  Remaining: the interpreter's loop budget `e + 2` (one
    unit per NOP word stepped over). -/
theorem C12_source_firstType (pj : PJ) (p e : Nat) (es : LVals) (hok : Ok pj (.arr p e es)) (fuel : Nat)
    (hf : e + 2 ≤ fuel) :
    ∃ s, runFun goFuns goArray_FirstType fuel ⟨arrStore pj { lim := e, off := p + 1 } [], pj.tape⟩ =
        .ret s [.u8 (match es with | .nil => typeNone | .cons v _ => tagToTypeSpec (tagOfL v))] ∧
      s.tape = pj.tape := by
  obtain ⟨_, hle⟩ := SJ.SourceLevelB.arr_end_le hok
  have htie := arrFirstType_sim pj { lim := e, off := p + 1 } hle (arrStore pj { lim := e, off := p + 1 } [])
    (RecvIn_arrStore pj _ _) fuel hf
  rw [firstType_arr pj p e es hok] at htie
  obtain ⟨s, ho, ht⟩ := htie
  refine ⟨s, ?_, ht⟩
  rw [ho]
  cases es with
  | nil => rfl
  | cons v vs => simp only [tagToType_spec]

end C12

/-! ## 2. C14 — `NextElementBytes` over gaps -/

section GapNEB
open SJ.GoObject SJ.WalkLayout SJ.Properties.C14

/-- two runs of `NextElementBytes` are the same for the caller: both return, with the same values (name, type, error), and
    leave the same tape; and when the error is `nil` they leave the same receiver `o` and the same `*dst` -/
def SameNE (o o' : Out) : Prop :=
  ∃ s s' vs, o = .ret s vs ∧ o' = .ret s' vs ∧ s.tape = s'.tape ∧
    (∀ nm ty, vs = [nm, ty, .bool false] →
      viewAt s.env "o" = viewAt s'.env "o" ∧ iterAt s.env "dst" = iterAt s'.env "dst")

theorem sameNE_of_simNE {pj : PJ} {d0 : Iter} {o o' : Out} {r : Res (View × Option (Bytes × Iter × UInt8))}
    (h : SimNE pj d0 o r) (h' : SimNE pj d0 o' r) (hs : r.safe = true) : SameNE o o' := by
  cases r with
  | ok x =>
    obtain ⟨v', x⟩ := x
    cases x with
    | none =>
      obtain ⟨s, ho, hi⟩ := h
      obtain ⟨s', ho', hi'⟩ := h'
      exact ⟨s, s', _, ho, ho', by rw [hi.tape, hi'.tape], fun _ _ _ => ⟨by rw [hi.view, hi'.view], by rw [hi.dst, hi'.dst]⟩⟩
    | some y =>
      obtain ⟨name, d, ty⟩ := y
      obtain ⟨s, ho, hi⟩ := h
      obtain ⟨s', ho', hi'⟩ := h'
      exact ⟨s, s', _, ho, ho', by rw [hi.tape, hi'.tape], fun _ _ _ => ⟨by rw [hi.view, hi'.view], by rw [hi.dst, hi'.dst]⟩⟩
  | error e =>
    obtain ⟨s, v1, d1, ho, hi⟩ := h
    obtain ⟨s', v2, d2, ho', hi'⟩ := h'
    refine ⟨s, s', _, ho, ho', by rw [hi.tape, hi'.tape], fun nm ty hvs => ?_⟩
    simp at hvs
  | panic => cases hs
  | diverge => cases hs

/-- **`NextElementBytes` does not misread a gap, source level** (`C14_gap_skipped_neb` ∘ the `NextElementBytes` tie
    `GoObject.nextElementBytes_sim`, the fifth clause of `C12_object_walk_follows_source`).  `[a, b)` is a gap of the tape (NOP
    words whose skip counts stay inside) ending inside the view `lim`.  Running `Object.NextElementBytes` of
    `parsed_object.go` (as printed from /repo, with its recursion over NOP words) on the receiver `{off = a, lim}` gives the
    caller exactly what running it on the receiver placed at the END of the gap, `{off = b, lim}`, gives: both runs return
    (neither panics, diverges or is stuck), with the same name bytes, the same `Type` and the same error; both leave the tape
    alone; and when the error is `nil` they leave the same receiver and the same `*dst` (`SameNE`).  `*dst` may hold anything
    before the call (`d0`).
    Discharged: the model fuels of the two runs (`C14_gap_skipped_neb` spends `k ≤ b − a` units on the gap: the run from `a`
    gets `lim − a + 1`, the run from `b` what is left, which is at least `lim − b + 1`), absence of panic
    (`nextElementBytes_safe`).  Remaining, all of the tie: `BufOK pj` (buffer lengths are Go `int`s — the key is read through
    `stringByteAt`), `lim ≤ len(tape)` (the view is a prefix of the tape), the interpreter's budget `lim − a + 1` (the depth
    of the recursion), the same for both runs. -/
theorem C14_source_gap_skipped_neb (pj : PJ) (hbuf : BufOK pj) (lim : Nat) {a b : Nat} (g : Gap pj a b) (hb : b ≤ lim)
    (hl : lim ≤ pj.tape.size) (d0 : Iter) (fuel : Nat) (hf : lim - a + 1 ≤ fuel) :
    SameNE (runFun goFuns goObject_NextElementBytes fuel ⟨neEnv { lim := lim, off := a } d0 pj, pj.tape⟩)
      (runFun goFuns goObject_NextElementBytes fuel ⟨neEnv { lim := lim, off := b } d0 pj, pj.tape⟩) := by
  obtain ⟨k, hk, h⟩ := C14_gap_skipped_neb pj lim g hb
  have hab := g.1
  have hm := h (lim - a + 1 - k)
  rw [show lim - a + 1 - k + k = lim - a + 1 by omega] at hm
  have t1 := nextElementBytes_sim pj hbuf { lim := lim, off := a } d0 hl fuel (lim - a + 1) hf (Nat.le_refl _)
  have t2 := nextElementBytes_sim pj hbuf { lim := lim, off := b } d0 hl fuel (lim - a + 1 - k)
    (by show lim - b + 1 ≤ fuel; omega) (by show lim - b + 1 ≤ lim - a + 1 - k; omega)
  rw [hm] at t1
  exact sameNE_of_simNE t1 t2 (nextElementBytes_safe pj (lim - b) { lim := lim, off := b } (lim - a + 1 - k)
    (Nat.le_refl _) (by omega) hl)

/-- **… and neither does `Object.NextElement`** (the same composition with `GoApi.nextElement_sim`, the `NextElement` clause of
    `C12_api_follows_source`: `NextElement` calls `NextElementBytes` and converts the name).  One more unit of interpreter
    fuel for the call. -/
theorem C14_source_gap_skipped_ne (pj : PJ) (hbuf : BufOK pj) (lim : Nat) {a b : Nat} (g : Gap pj a b) (hb : b ≤ lim)
    (hl : lim ≤ pj.tape.size) (d0 : Iter) (fuel : Nat) (hf : lim - a + 2 ≤ fuel) :
    SameNE (runFun goFuns goObject_NextElement fuel ⟨neEnv { lim := lim, off := a } d0 pj, pj.tape⟩)
      (runFun goFuns goObject_NextElement fuel ⟨neEnv { lim := lim, off := b } d0 pj, pj.tape⟩) := by
  obtain ⟨k, hk, h⟩ := C14_gap_skipped_neb pj lim g hb
  have hab := g.1
  have hm := h (lim - a + 1 - k)
  rw [show lim - a + 1 - k + k = lim - a + 1 by omega] at hm
  have t1 := SJ.GoApi.nextElement_sim pj hbuf { lim := lim, off := a } d0 _ hl fuel (lim - a + 1) hf (Nat.le_refl _)
    (NEInit_neEnv pj _ d0)
  have t2 := SJ.GoApi.nextElement_sim pj hbuf { lim := lim, off := b } d0 _ hl fuel (lim - a + 1 - k)
    (by show lim - b + 2 ≤ fuel; omega) (by show lim - b + 1 ≤ lim - a + 1 - k; omega) (NEInit_neEnv pj _ d0)
  rw [hm] at t1
  exact sameNE_of_simNE t1 t2 (nextElementBytes_safe pj (lim - b) { lim := lim, off := b } (lim - a + 1 - k)
    (Nat.le_refl _) (by omega) hl)

end GapNEB

/-! ## 3. C13 / C14 — edit, then read back -/

section EditRead
open SJ.Tables SJ.WalkLayout SJ.Lookup SJ.DeleteDoc SJ.MarshalExact SJ.RenderParse SJ.Numeric SJ.EditHistory
open SJ.GoObject SJ.GoMarshal SJ.GoArrMarshal SJ.GoDelete SJ.SourceLevelB SJ.SourceLevelE
open SJ.Properties.C12 SJ.Properties.C13 SJ.Properties.C14

mutual
/-- replacing a node by a value whose floats have a text keeps "every float has a text" -/
theorem floatsOk_subst (q : Nat) (nv : LVal) (hn : FloatsOk nv) : ∀ v : LVal, FloatsOk v → FloatsOk (substV q nv v)
  | .null p, h => by simp only [substV]; split; exact hn; exact h
  | .bool b p, h => by simp only [substV]; split; exact hn; exact h
  | .int w p, h => by simp only [substV]; split; exact hn; exact h
  | .uint w p, h => by simp only [substV]; split; exact hn; exact h
  | .float b f p, h => by simp only [substV]; split; exact hn; exact h
  | .str s p, h => by simp only [substV]; split; exact hn; exact h
  | .arr p e es, h => by
    simp only [substV]; split
    · exact hn
    · simp only [FloatsOk] at h ⊢; exact floatsOkVs_subst q nv hn es h
  | .obj p e ms, h => by
    simp only [substV]; split
    · exact hn
    · simp only [FloatsOk] at h ⊢; exact floatsOkMs_subst q nv hn ms h
theorem floatsOkVs_subst (q : Nat) (nv : LVal) (hn : FloatsOk nv) : ∀ vs : LVals, FloatsOkVs vs → FloatsOkVs (substVs q nv vs)
  | .nil, h => by simp only [substVs, FloatsOkVs]
  | .cons v vs, h => by
    simp only [FloatsOkVs, substVs] at h ⊢
    exact ⟨floatsOk_subst q nv hn v h.1, floatsOkVs_subst q nv hn vs h.2⟩
theorem floatsOkMs_subst (q : Nat) (nv : LVal) (hn : FloatsOk nv) : ∀ ms : LMems, FloatsOkMs ms → FloatsOkMs (substMs q nv ms)
  | .nil, h => by simp only [substMs, FloatsOkMs]
  | .cons pk k v ms, h => by
    simp only [FloatsOkMs, substMs] at h ⊢
    exact ⟨floatsOk_subst q nv hn v h.1, floatsOkMs_subst q nv hn ms h.2⟩
end

theorem floatsOk_filterVs (pred : Nat → Bool) : ∀ (vs : LVals) (n : Nat), FloatsOkVs vs → FloatsOkVs (filterVs pred n vs)
  | .nil, _, _ => by simp only [filterVs, FloatsOkVs]
  | .cons v vs, n, h => by
    simp only [FloatsOkVs] at h
    simp only [filterVs]
    split
    · exact floatsOk_filterVs pred vs (n + 1) h.2
    · simp only [FloatsOkVs]; exact ⟨h.1, floatsOk_filterVs pred vs (n + 1) h.2⟩

theorem floatsOk_filterMs (pred : Nat → Bytes → Bool) (ks : List Bytes) : ∀ (ms : LMems) (n : Nat),
    FloatsOkMs ms → FloatsOkMs (filterMs pred ks n ms)
  | .nil, _, _ => by simp only [filterMs, FloatsOkMs]
  | .cons pk k v ms, n, h => by
    simp only [FloatsOkMs] at h
    simp only [filterMs]
    split
    · simp only [FloatsOkMs]; exact ⟨h.1, floatsOk_filterMs pred ks ms n h.2⟩
    · split
      · exact floatsOk_filterMs pred ks ms (n + 1) h.2
      · simp only [FloatsOkMs]; exact ⟨h.1, floatsOk_filterMs pred ks ms (n + 1) h.2⟩

/-- the source-side reader of a whole document: on a tape holding `doc`, from any iterator standing on it whose view lies
    inside the tape, `Iter.MarshalJSONBuffer` prints the canonical text of `doc` (`C10_source_marshal_exact`, quantified over
    the reader) -/
theorem marshal_reader (pj : PJ) (doc : LVal) (hok : Ok pj doc) (hfl : FloatsOk doc) (hb : BufOK pj) :
    ∀ (j : Iter) (dst : Bytes) (F : Nat), OnNode pj doc j → j.lim ≤ pj.tape.size → 2 * pj.tape.size + j.lim + 25 ≤ F →
      ∃ st, runFun goFuns goIter_MarshalJSONBuffer F ⟨initEnv pj j dst, pj.tape⟩ =
          .ret st [.bytes (dst ++ renderJ (erase doc)), .bool false] ∧ st.tape = pj.tape :=
  fun j dst F hon hl hF => (SJ.SourceLevelA.C10_source_marshal_exact pj doc j dst hok hfl hon hb hl F hF).2

/-- **`SetInt`, then read back, source level** (the source-level counterpart of `C13_setInt_then_read`).  On a tape holding the
    located document `v` (gaps anywhere) with the receiver on the two-word scalar node at `q` whose tag passes the gate:
    running the regenerated `goIter_SetInt` with the argument `z` returns `nil`, and on the tape it leaves — read with the
    unchanged string buffer and message —
    * the receiver is where it was, now with tag `'l'` and `cur = uint64(z)`;
    * **typed read-back**: running the regenerated `Iter.Int` on the receiver the run left returns `int64(uint64(z))` — `z`
      itself when `−2^63 ≤ z < 2^63` (a Go `int64` always is) — and `nil`; receiver and tape untouched (`Iter.Int` via its tie
      `GoNum`, `C12_source_int_exact`);
    * **whole-document read-back**: from ANY iterator `j` standing on the document (`OnNode`) whose view lies inside the
      tape, the regenerated `Iter.MarshalJSONBuffer` returns `dst ++` the canonical text of `v` with exactly the node at `q`
      replaced by the integer, and `nil`; the iterator standing on the document's first word with the whole tape as its
      view (`iterOn`) is such an iterator.
    The property's reader `owalkValue` is a walker of the hand model without a source tie; as in
    `C13_source_history_readback` the reader here is `Iter.MarshalJSONBuffer` (tie `GoMarshal`).  It skips NOP words
    everywhere, so `Tight v` — which the property needs because `owalkValue` walks objects with `NextElementBytes` — is not
    needed.  Route: `C13_setInt` ∘ `SetInt` tie (`C13_source_setInt`), then `C12_int_exact` ∘ `Int` tie and
    `C10_marshal_exact` ∘ `MarshalJSONBuffer` tie on the resulting tape.
    Discharged: for `Iter.Int`, everything (the receiver keeps its view; the value word is the one just written); for the
    marshaller, `cur < 2^63`, `0 ≤ addNext`, non-divergence, `FloatsOk` of the edited document (from `FloatsOk v`).
    Remaining: `hl` (the editing view is a prefix of the tape), `FloatsOk v` (a NaN/Inf float elsewhere in the document has
    no JSON text), `BufOK pj` (buffer lengths are Go `int`s), `j.lim ≤ len(tape)`, the marshaller's loop budget. -/
theorem C13_source_setInt_then_read (pj : PJ) (v : LVal) (hok : Ok pj v) (q : Nat) (hnode : HasNode q (q + 2) v) (i : Iter)
    (hoff : i.off = q + 1) (hview : i.off < i.lim) (hl : i.lim ≤ pj.tape.size)
    (ht : inCase (caseOf swSetInt 0) i.t = true) (z : Int) (fuel : Nat) (hfl : FloatsOk v) (hb : BufOK pj) :
    ∃ s, runFun goFuns goIter_SetInt fuel
        { env := envOf "i" i ++ [("Strings.B", .bytes pj.strings), ("v", .int z)], tape := pj.tape } = .ret s [.bool false] ∧
      s.env.get "Strings.B" = some (.bytes pj.strings) ∧ s.tape.size = pj.tape.size ∧
      iterAt s.env "i" = some { i with t := tagInteger, cur := ofInt64 z } ∧
      Ok { tape := s.tape, strings := pj.strings, msg := pj.msg } (substV q (.int (ofInt64 z) q) v) ∧
      (∀ F, ∃ s', runFun goFuns goIter_Int F
            { env := envOf "i" { i with t := tagInteger, cur := ofInt64 z }, tape := s.tape } =
          .ret s' [.int (toInt64 (ofInt64 z)), .bool false] ∧ s'.tape = s.tape ∧
          iterAt s'.env "i" = some { i with t := tagInteger, cur := ofInt64 z }) ∧
      (-(2 ^ 63 : Int) ≤ z → z < 2 ^ 63 → toInt64 (ofInt64 z) = z) ∧
      (∀ (j : Iter) (dst : Bytes) (F : Nat),
        OnNode { tape := s.tape, strings := pj.strings, msg := pj.msg } (substV q (.int (ofInt64 z) q) v) j →
        j.lim ≤ s.tape.size → 2 * s.tape.size + j.lim + 25 ≤ F →
        ∃ st, runFun goFuns goIter_MarshalJSONBuffer F
            ⟨initEnv { tape := s.tape, strings := pj.strings, msg := pj.msg } j dst, s.tape⟩ =
          .ret st [.bytes (dst ++ renderJ (erase (substV q (.int (ofInt64 z) q) v))), .bool false] ∧
          st.tape = s.tape) ∧
      OnNode { tape := s.tape, strings := pj.strings, msg := pj.msg } (substV q (.int (ofInt64 z) q) v)
        (iterOn { tape := s.tape, strings := pj.strings, msg := pj.msg } v.pos) := by
  have hsz := node_in_tape pj q (q + 2) v hok hnode
  obtain ⟨pj', h1, hs, hm, hz, hw0, hw1, hfr⟩ := set2_spec pj i q hoff hview hsz (mkWord tagInteger 0) (ofInt64 z)
  have hset : i.setInt pj z = .ok (pj', { i with t := tagInteger, cur := ofInt64 z }) := by
    simp only [Iter.setInt, ht, if_true, h1, Res.bind_ok]
  obtain ⟨pj2, i2, hset2, hok', _⟩ := C13_setInt pj v hok q hnode i hoff hview ht z
  rw [hset] at hset2
  simp only [Res.ok.injEq, Prod.mk.injEq] at hset2
  obtain ⟨rfl, rfl⟩ := hset2
  have htie := (C13_set_follows_source pj i hl fuel).2.1 z
  rw [hset] at htie
  obtain ⟨s, ho, htp, hstr, hi', _⟩ := htie
  have he := pj_eta htp hs hm
  rw [he] at hok' hw1
  have hb' : BufOK { tape := s.tape, strings := pj.strings, msg := pj.msg } := hb
  have hfl' : FloatsOk (substV q (.int (ofInt64 z) q) v) := floatsOk_subst q _ (by simp only [FloatsOk]) v hfl
  refine ⟨s, ho, by rw [hstr, hs], by rw [htp, hz], hi', hok', fun F => ?_, toInt64_ofInt64 z,
    marshal_reader _ _ hok' hfl' hb', ?_⟩
  · -- typed read-back
    have hoff' : ({ i with t := tagInteger, cur := ofInt64 z } : Iter).off <
        ({ i with t := tagInteger, cur := ofInt64 z } : Iter).lim := hview
    have hlim' : ({ i with t := tagInteger, cur := ofInt64 z } : Iter).lim ≤
        (PJ.mk s.tape pj.strings pj.msg).tape.size := by show i.lim ≤ s.tape.size; rw [htp, hz]; exact hl
    have hget : s.tape[i.off]? = some (ofInt64 z) := by rw [hoff]; exact hw1
    obtain ⟨hlt, hval⟩ := Array.getElem?_eq_some_iff.mp hget
    have hst : stored ({ i with t := tagInteger, cur := ofInt64 z } : Iter).t
        ((PJ.mk s.tape pj.strings pj.msg).tape[({ i with t := tagInteger, cur := ofInt64 z } : Iter).off]'(Nat.lt_of_lt_of_le hoff' hlim')) =
        some ((toInt64 (ofInt64 z) : Int) : Rat) := by
      show stored tagInteger (s.tape[i.off]'_) = _
      rw [hval]
      unfold stored
      rw [if_neg (by decide), if_pos rfl]
    obtain ⟨s', hrun, hts, his⟩ := SJ.SourceLevelA.C12_source_int_exact hoff' hlim' hst F
    rw [truncQ_intCast, if_pos] at hrun
    · exact ⟨s', hrun, hts, his⟩
    · obtain ⟨r1, r2⟩ := SJ.Numeric.toInt64_range (ofInt64 z)
      rw [← cast_neg_pow63, ← cast_pow63]
      exact ⟨Rat.intCast_le_intCast.mpr r1, Rat.intCast_lt_intCast.mpr r2⟩
  · have hon := iterOn_onNode _ _ hok'
    rw [substV_pos q _ rfl v] at hon
    exact hon

/-- **`SetNull` on a container, then read back, source level** (the source-level counterpart of `C14_setNull_then_read`).  On a
    tape holding the located document `v` with the receiver on the object or array node `[q, e)`: running the regenerated
    `goIter_SetNull` returns `nil`, and on the tape it leaves (the node is now `null` followed by a gap of NOP words up to
    `e`), from ANY iterator `j` standing on the document whose view lies inside the tape — e.g. `iterOn` at the document's
    first word — the regenerated `Iter.MarshalJSONBuffer` returns `dst ++` the canonical text of `v` with exactly that
    container replaced by `null`, and `nil`: no member of the nulled container is resurrected, nothing after it is skipped.
    Reader and `Tight` as in `C13_source_setInt_then_read` (`owalkValue` has no tie; the marshaller skips gaps everywhere).
    Route: `C14_setNull_container` ∘ `SetNull` tie (`C14_source_setNull_container`), `C10_marshal_exact` ∘ marshal tie.
    Remaining: `hl`, `FloatsOk v`, `BufOK pj`, `j.lim ≤ len(tape)`, fuel `e − q + 1` for the fill loop and the marshaller's
    budget. -/
theorem C14_source_setNull_then_read (pj : PJ) (v : LVal) (hok : Ok pj v) (q e : Nat) (hnode : HasNode q e v)
    (hqe : q + 2 ≤ e) (hsmall : pj.tape.size < 2^56) (i : Iter) (hoff : i.off = q + 1) (hcur : i.cur.toNat = e)
    (hview : i.cur.toNat ≤ i.lim) (hl : i.lim ≤ pj.tape.size)
    (ht0 : inCase (caseOf swSetNull 0) i.t = false) (ht1 : inCase (caseOf swSetNull 1) i.t = false)
    (ht : inCase (caseOf swSetNull 2) i.t = true) (fuel : Nat) (hf : e - q + 1 ≤ fuel) (hfl : FloatsOk v) (hb : BufOK pj) :
    ∃ s, runFun goFuns goIter_SetNull fuel
        { env := envOf "i" i ++ [("Strings.B", .bytes pj.strings)], tape := pj.tape } = .ret s [.bool false] ∧
      s.env.get "Strings.B" = some (.bytes pj.strings) ∧ s.tape.size = pj.tape.size ∧
      Ok { tape := s.tape, strings := pj.strings, msg := pj.msg } (substV q (.null q) v) ∧
      (∀ (j : Iter) (dst : Bytes) (F : Nat),
        OnNode { tape := s.tape, strings := pj.strings, msg := pj.msg } (substV q (.null q) v) j →
        j.lim ≤ s.tape.size → 2 * s.tape.size + j.lim + 25 ≤ F →
        ∃ st, runFun goFuns goIter_MarshalJSONBuffer F
            ⟨initEnv { tape := s.tape, strings := pj.strings, msg := pj.msg } j dst, s.tape⟩ =
          .ret st [.bytes (dst ++ renderJ (erase (substV q (.null q) v))), .bool false] ∧ st.tape = s.tape) ∧
      OnNode { tape := s.tape, strings := pj.strings, msg := pj.msg } (substV q (.null q) v)
        (iterOn { tape := s.tape, strings := pj.strings, msg := pj.msg } v.pos) := by
  obtain ⟨s, ho, hok', hstr, hsize, _⟩ := C14_source_setNull_container pj v hok q e hnode hqe hsmall i hoff hcur hview hl
    ht0 ht1 ht fuel hf
  have hb' : BufOK { tape := s.tape, strings := pj.strings, msg := pj.msg } := hb
  have hfl' : FloatsOk (substV q (.null q) v) := floatsOk_subst q _ (by simp only [FloatsOk]) v hfl
  refine ⟨s, ho, hstr, hsize, hok', marshal_reader _ _ hok' hfl' hb', ?_⟩
  have hon := iterOn_onNode _ _ hok'
  rw [substV_pos q _ rfl v] at hon
  exact hon

/-- **`Array.DeleteElems`, then read back, source level** (array half of `C14_delete_then_read`).  On a tape holding the located
    array `.arr p e es`, with the callback answers `q` queued: running the regenerated `goArray_DeleteElems` on the array's
    view returns, and on the tape it leaves (`es'` = the elements for which deletion was not requested, `filterVs q 0 es`):
    * the tape holds the array `es'`, at the old positions;
    * **Advance-based walk**: running the regenerated `Array.ForEach` on the same view makes exactly one callback per
      SURVIVOR, in order, each with an iterator standing on it (`Stands` on the new tape) — no deleted element is visited, no
      survivor skipped (`C12_source_arrForEach` on the new tape; `Array.ForEach` is the `Advance` loop, the source-side
      counterpart of the property's `owalkArr`, which has no tie);
    * **text**: given `FloatsOk` and `BufOK`, the regenerated `Array.MarshalJSONBuffer` on that view returns `dst ++` the
      canonical text of the array of survivors, and `nil`.
    `TightVs es` of the property is not needed: both readers skip NOP words everywhere.
    Route: `C14_array_delete` ∘ `DeleteElems` tie (`C14_source_array_delete`, with the array as the whole document), then the
    `ForEach` and `Array.MarshalJSONBuffer` compositions on the resulting tape.
    Remaining: `len(tape) < 2^56` and `N ≥ e − (p+1)` queued answers (of the deletion), the three loop budgets, and for the
    text `FloatsOk`/`BufOK`. -/
theorem C14_source_delete_then_read_arr (pj : PJ) (p e : Nat) (es : LVals) (q : Nat → Bool) (hok : Ok pj (.arr p e es))
    (hsmall : pj.tape.size < 2^56) (N : Nat) (hN : e - (p + 1) ≤ N) (fuel : Nat) (hf : 2 * e + 7 ≤ fuel) :
    ∃ s, runFun goFuns goArray_DeleteElems fuel
        ⟨arrStore pj { lim := e, off := p + 1 } [("fn.results", .bools (answers N q)), ("fn.log", .ints [])], pj.tape⟩ =
          .ret s [] ∧
      s.tape.size = pj.tape.size ∧
      Ok { tape := s.tape, strings := pj.strings, msg := pj.msg } (.arr p e (filterVs q 0 es)) ∧
      (∀ F, 2 * e + 6 ≤ F →
        ∃ s' its, runFun goFuns goArray_ForEach F
            ⟨arrStore { tape := s.tape, strings := pj.strings, msg := pj.msg } { lim := e, off := p + 1 }
              [("fn.log", .ints [])], s.tape⟩ = .ret s' [] ∧
          s'.tape = s.tape ∧ GoDelete.logOf s'.env = GoDelete.encIters its ∧ its.size = lenVs (filterVs q 0 es) ∧
          Stands { tape := s.tape, strings := pj.strings, msg := pj.msg } e (filterVs q 0 es) its.toList) ∧
      (FloatsOk (.arr p e es) → BufOK pj → ∀ (dst : Bytes) (F : Nat), 4 * s.tape.size + e + 42 ≤ F →
        ∃ st, runFun goFuns goArray_MarshalJSONBuffer F
            ⟨arrEnv { tape := s.tape, strings := pj.strings, msg := pj.msg } { lim := e, off := p + 1 } dst, s.tape⟩ =
          .ret st [.bytes (dst ++ renderJ (erase (.arr p e (filterVs q 0 es)))), .bool false] ∧ st.tape = s.tape) := by
  obtain ⟨s, its, ho, hok', hsize, _⟩ := C14_source_array_delete pj (.arr p e es) hok p e es q
    (by simp [HasNode]) hok hsmall N hN fuel hf
  have hsub : substV p (.arr p e (filterVs q 0 es)) (.arr p e es) = .arr p e (filterVs q 0 es) := by
    simp only [substV, if_true]
  rw [hsub] at hok'
  refine ⟨s, ho, hsize, hok', fun F hF => ?_, fun hfl hb dst F hF => ?_⟩
  · exact C12_source_arrForEach _ p e _ hok' F hF
  · have hfl' : FloatsOk (.arr p e (filterVs q 0 es)) := by
      simp only [FloatsOk] at hfl ⊢
      exact floatsOk_filterVs q es 0 hfl
    exact SJ.SourceLevelA.C10_source_array_marshal_exact _ p e _ dst hok' hfl' hb F hF

/-- **`Object.DeleteElems`, then read back, source level** (object half of `C14_delete_then_read`).  On a tape holding the
    located object `.obj p e ms`, for a callback `pred n key` (its answer to the `n`-th call, made with `key`; the interpreter's
    callback answers from the queue `cbAnswers pred ks ms`) and a key filter `ks`: running the regenerated
    `goObject_DeleteElems` on the object's view returns `nil`, and on the tape it leaves (`ms'` = the survivors,
    `filterMs pred ks 0 ms`):
    * the tape holds the object `ms'`, members at their old positions;
    * **NextElementBytes-based walk** (needs `TightMs ms`, as the property does: `NextElementBytes` does not skip NOPs between
      a key and its value): calling the regenerated `Object.NextElement` again and again on the object's view lists exactly
      the survivors — key bytes, type, and a cursor restricted to the value and standing on it — in order
      (`C12_source_nextElement_walk` on the new tape; the property's `owalkObj` is this walk in the hand model);
    * **ForEach**: the regenerated `Object.ForEach` without a filter calls back exactly the survivors, in order, each with
      its own key and an iterator standing on its own value (`C12_source_forEach` on the new tape);
    * **text**: given `FloatsOk`, from any iterator standing on the object whose view lies inside the tape, the regenerated
      `Iter.MarshalJSONBuffer` returns `dst ++` the canonical text of the object of survivors, and `nil`.
    Route: `C14_object_delete` ∘ `DeleteElems` tie (`C14_source_object_delete_pred`, the object as the whole document), then
    the three reader compositions on the resulting tape.
    Remaining: `BufOK pj`, `len(tape) < 2^56`, `N ≥ e − (p+1)` queued answers, the loop budgets. -/
theorem C14_source_delete_then_read_obj (pj : PJ) (p e : Nat) (ms : LMems) (pred : Nat → Bytes → Bool) (ks : List Bytes)
    (hok : Ok pj (.obj p e ms)) (hsmall : pj.tape.size < 2^56) (hb : BufOK pj) (N : Nat) (hN : e - (p + 1) ≤ N)
    (fuel : Nat) (hf : 2 * e + 7 ≤ fuel) :
    ∃ s, runFun goFuns goObject_DeleteElems fuel
        ⟨objStore pj { lim := e, off := p + 1 } ks
          [("fn==nil", .bool false), ("fn.results", .bools (answers N (cbAnswers pred ks ms))), ("fn.log", .ints [])],
          pj.tape⟩ = .ret s [.bool false] ∧
      s.tape.size = pj.tape.size ∧
      Ok { tape := s.tape, strings := pj.strings, msg := pj.msg } (.obj p e (filterMs pred ks 0 ms)) ∧
      (TightMs ms → ∀ (d0 : Iter) (F n : Nat), e - p + 1 ≤ F → memCount (filterMs pred ks 0 ms) < n →
        srcElements F s.tape n
            (neEnv { lim := e, off := p + 1 } d0 { tape := s.tape, strings := pj.strings, msg := pj.msg }) =
          some ((membersOf (filterMs pred ks 0 ms)).map fun kv =>
            (kv.1, tagToTypeSpec (tagOfL kv.2),
              some (elemIter { tape := s.tape, strings := pj.strings, msg := pj.msg } kv.2)))) ∧
      (∀ F, 2 * e + 7 ≤ F →
        ∃ s', runFun goFuns goObject_ForEach F
            ⟨objStore { tape := s.tape, strings := pj.strings, msg := pj.msg } { lim := e, off := p + 1 } []
              [("fn.log", .ints [])], s.tape⟩ = .ret s' [.bool false] ∧
          s'.tape = s.tape ∧
          GoDelete.logOf s'.env = encNIs ((membersWithKeys [] (filterMs pred ks 0 ms)).map
            (cbOf { tape := s.tape, strings := pj.strings, msg := pj.msg } e)).toArray) ∧
      (FloatsOk (.obj p e ms) → ∀ (j : Iter) (dst : Bytes) (F : Nat),
        OnNode { tape := s.tape, strings := pj.strings, msg := pj.msg } (.obj p e (filterMs pred ks 0 ms)) j →
        j.lim ≤ s.tape.size → 2 * s.tape.size + j.lim + 25 ≤ F →
        ∃ st, runFun goFuns goIter_MarshalJSONBuffer F
            ⟨initEnv { tape := s.tape, strings := pj.strings, msg := pj.msg } j dst, s.tape⟩ =
          .ret st [.bytes (dst ++ renderJ (erase (.obj p e (filterMs pred ks 0 ms)))), .bool false] ∧
          st.tape = s.tape) := by
  obtain ⟨s, cbs, ho, hok', hsize, _⟩ := C14_source_object_delete_pred pj (.obj p e ms) hok p e ms pred ks
    (by simp [HasNode]) hok hsmall hb N hN fuel hf
  have hsub : substV p (.obj p e (filterMs pred ks 0 ms)) (.obj p e ms) = .obj p e (filterMs pred ks 0 ms) := by
    simp only [substV, if_true]
  rw [hsub] at hok'
  have hb' : BufOK { tape := s.tape, strings := pj.strings, msg := pj.msg } := hb
  refine ⟨s, ho, hsize, hok', fun ht d0 F n hF hn => ?_, fun F hF => ?_, fun hfl => ?_⟩
  · have hi := NEInit_neEnv { tape := s.tape, strings := pj.strings, msg := pj.msg } { lim := e, off := p + 1 } d0
    exact C12_source_nextElement_walk _ p e _ hok' (tightTop_of_tightMs _ (tight_filterMs pred ks ms 0 ht)) hb' d0 _
      hi.view hi.dst hi.strs hi.msg F hF n hn
  · obtain ⟨s', h1, h2, h3, _⟩ := C12_source_forEach _ p e _ [] hok' (Or.inl rfl) hb' F hF
    exact ⟨s', h1, h2, h3⟩
  · have hfl' : FloatsOk (.obj p e (filterMs pred ks 0 ms)) := by
      simp only [FloatsOk] at hfl ⊢
      exact floatsOk_filterMs pred ks ms 0 hfl
    exact marshal_reader _ _ hok' hfl' hb'

/-- **All source-side readers agree after a deletion** (`C14_delete_then_read`, both halves). -/
theorem C14_source_delete_then_read (pj : PJ) (p e : Nat) :
    (∀ (es : LVals) (q : Nat → Bool) (N fuel : Nat), Ok pj (.arr p e es) → pj.tape.size < 2^56 → e - (p + 1) ≤ N →
      2 * e + 7 ≤ fuel →
      ∃ s, runFun goFuns goArray_DeleteElems fuel
          ⟨arrStore pj { lim := e, off := p + 1 } [("fn.results", .bools (answers N q)), ("fn.log", .ints [])],
            pj.tape⟩ = .ret s [] ∧
        Ok { tape := s.tape, strings := pj.strings, msg := pj.msg } (.arr p e (filterVs q 0 es)) ∧
        ∀ F, 2 * e + 6 ≤ F →
          ∃ s' its, runFun goFuns goArray_ForEach F
              ⟨arrStore { tape := s.tape, strings := pj.strings, msg := pj.msg } { lim := e, off := p + 1 }
                [("fn.log", .ints [])], s.tape⟩ = .ret s' [] ∧
            s'.tape = s.tape ∧ GoDelete.logOf s'.env = GoDelete.encIters its ∧ its.size = lenVs (filterVs q 0 es) ∧
            Stands { tape := s.tape, strings := pj.strings, msg := pj.msg } e (filterVs q 0 es) its.toList) ∧
    (∀ (ms : LMems) (pred : Nat → Bytes → Bool) (ks : List Bytes) (N fuel : Nat), Ok pj (.obj p e ms) → TightMs ms →
      pj.tape.size < 2^56 → BufOK pj → e - (p + 1) ≤ N → 2 * e + 7 ≤ fuel →
      ∃ s, runFun goFuns goObject_DeleteElems fuel
          ⟨objStore pj { lim := e, off := p + 1 } ks
            [("fn==nil", .bool false), ("fn.results", .bools (answers N (cbAnswers pred ks ms))), ("fn.log", .ints [])],
            pj.tape⟩ = .ret s [.bool false] ∧
        Ok { tape := s.tape, strings := pj.strings, msg := pj.msg } (.obj p e (filterMs pred ks 0 ms)) ∧
        ∀ (d0 : Iter) (F n : Nat), e - p + 1 ≤ F → memCount (filterMs pred ks 0 ms) < n →
          srcElements F s.tape n
              (neEnv { lim := e, off := p + 1 } d0 { tape := s.tape, strings := pj.strings, msg := pj.msg }) =
            some ((membersOf (filterMs pred ks 0 ms)).map fun kv =>
              (kv.1, tagToTypeSpec (tagOfL kv.2),
                some (elemIter { tape := s.tape, strings := pj.strings, msg := pj.msg } kv.2)))) := by
  refine ⟨fun es q N fuel hok hsmall hN hf => ?_, fun ms pred ks N fuel hok ht hsmall hb hN hf => ?_⟩
  · obtain ⟨s, h1, _, h3, h4, _⟩ := C14_source_delete_then_read_arr pj p e es q hok hsmall N hN fuel hf
    exact ⟨s, h1, h3, h4⟩
  · obtain ⟨s, h1, _, h3, h4, _⟩ := C14_source_delete_then_read_obj pj p e ms pred ks hok hsmall hb N hN fuel hf
    exact ⟨s, h1, h3, h4 ht⟩

end EditRead

/-! ## 4. C18 — `appendFloat` prints exactly the shortest-digits contract -/

section C18
open SJ.FloatFmt SJ.FloatFmtProofs SJ.Spec SJ.F64 SJ.F64Round SJ.GoFloatFmt SJ.Properties.C18

/-- **What `appendFloat` prints, digit for digit, source level** (`C18_shortest_roundtrip`, `C18_fmtF_value`, `C18_fmtE_value` ∘
    the `appendFloat` tie `C18_format_follows_source`).  For every finite, non-zero float64 bit pattern, with `abs` the
    pattern without its sign bit: running `appendFloat(dst, f)` of `parsed_json.go` (with `appendFloatF`, `fmtF`, as printed
    from /repo) returns `dst ++ txt` and `nil`, where
    * `txt` is a number literal of the RFC 8259 grammar, nothing left over;
    * its sign is the float's sign bit;
    * its decimal value is EXACTLY `0.d₁d₂…dₙ × 10^dp` (`SameDecimal`: equal as rationals, not merely after rounding) for the
      digit string `d₁…dₙ`, `dp` that the shortest-digits contract of `ryuFtoaShortest` / `strconv.AppendFloat(…,'e',-1,64)`
      yields for `abs` (`FloatFmt.shortest`: the routines the Go code calls from the standard library, specified, not
      translated — the tie takes them by this contract too): neither the plain form (`fmtF`, with its zero padding) nor the
      exponent form (`fmtE` and the `e-0N` clean-up) adds, drops or alters a significant digit;
    * that digit string is well formed — not empty, decimal digits, first digit non-zero — and, correctly rounded, reads
      back to exactly `abs`.
    This is what the three property theorems give beyond `C18_source_roundtrip` (which only says that the text rounds back
    to the float): the identification of the printed decimal with the contract's digits, and the sign.  NOT given by any
    property theorem, hence not stated: that the digit string has at most 17 digits, and that no shorter digit string
    rounds to the float (`shortest` searches lengths 1, 2, … and takes the first hit, but no theorem of `Properties/C18`
    states minimality).
    Discharged: the exponent bound `|dp − 1| < 10^7` of `C18_fmtE_value` (from the magnitude guards of `roundDecimal`,
    `roundDecimal_some`), finiteness and the 63-bit bound of `abs`.  Remaining: `fuelOK`, the interpreter's loop budget. -/
theorem C18_source_shortest (dst : Bytes) (bits : UInt64) (fuel : Nat) (tape : Array UInt64)
    (hf : fuelOK fuel bits) (hfin : F64.isFinite bits = true) (h0 : bits &&& 0x7fffffffffffffff ≠ 0) :
    ∃ txt l st ds dp, runFun goFuns goappendFloat fuel ⟨[("dst", .bytes dst), ("f", .u64 bits)], tape⟩ =
        .ret st [.bytes (dst ++ txt), .bool false] ∧ st.tape = tape ∧
      Spec.numberLit txt.toList = some (l, []) ∧
      (litValue l).1 = ((bits >>> 63) != 0) ∧
      shortest (bits &&& 0x7fffffffffffffff) = { digits := ds, dp := dp } ∧
      ds ≠ [] ∧ (∀ d ∈ ds, d < 10) ∧ ds.head? ≠ some 0 ∧
      SameDecimal (litValue l).2.1 (litValue l).2.2 (natOfDigits ds) (dp - ds.length) ∧
      F64.roundDecimal false (natOfDigits ds) (dp - ds.length) = some (bits &&& 0x7fffffffffffffff) := by
  have habsn := abs_toNat bits
  have habsf := abs_finite bits hfin
  have heq := appendFloat_eq bits hfin
  generalize hneg : ((bits >>> 63) != 0) = neg at *
  generalize habs : bits &&& 0x7fffffffffffffff = abs at *
  have hlt : abs.toNat < 2 ^ 63 := by rw [habsn]; exact Nat.mod_lt _ (by decide)
  obtain ⟨wf, hrt⟩ := C18_shortest_roundtrip abs habsf hlt h0
  obtain ⟨_, g1, g2, _⟩ := roundDecimal_some false _ _ _ h0 hrt
  rw [numDigits_natOfDigits _ wf.ne wf.lt wf.hd] at g1 g2
  have htie := (C18_format_follows_source dst bits fuel tape hf).1
  by_cases hc : (decide (abs ≥ loBits) && decide (abs < hiBits)) = true ∨ abs = 0
  · rw [if_pos hc] at heq
    obtain ⟨l, hl, hsg, hsd⟩ := C18_fmtF_value neg (shortest abs) wf
    obtain ⟨st, hrun, htape⟩ := htie _ heq
    exact ⟨_, l, st, _, _, hrun, htape, hl, hsg, rfl, wf.ne, wf.lt, wf.hd, hsd, hrt⟩
  · rw [if_neg hc] at heq
    obtain ⟨l, hl, hsg, hsd⟩ := C18_fmtE_value neg (shortest abs) wf (by omega)
    obtain ⟨st, hrun, htape⟩ := htie _ heq
    exact ⟨_, l, st, _, _, hrun, htape, hl, hsg, rfl, wf.ne, wf.lt, wf.hd, hsd, hrt⟩

end C18

/-! ## the premises are satisfiable -/

section Examples
open SJ.Tables SJ.WalkLayout SJ.Lookup SJ.DeleteDoc SJ.GoObject SJ.GoDelete SJ.SourceLevelD SJ.SourceLevelE

/-- The premises of `C12_source_firstType`, `C12_source_arrForEach` are satisfiable: on the tape of `["a","b"]`
    (`SourceLevelD.arrPJ`), `FirstType` run on the source returns `TypeString`, and `ForEach` logs two callbacks. -/
example : (∃ s, runFun goFuns goArray_FirstType 100 ⟨arrStore arrPJ { lim := 6, off := 1 } [], arrPJ.tape⟩ =
      .ret s [.u8 typeString] ∧ s.tape = arrPJ.tape) ∧
    ∃ s its, runFun goFuns goArray_ForEach 100 ⟨arrStore arrPJ { lim := 6, off := 1 } [("fn.log", .ints [])], arrPJ.tape⟩ =
      .ret s [] ∧ GoDelete.logOf s.env = GoDelete.encIters its ∧ its.size = 2 := by
  refine ⟨?_, ?_⟩
  · obtain ⟨s, h1, h2⟩ := C12_source_firstType arrPJ 0 6 arrElems arr_ok 100 (by decide)
    exact ⟨s, h1, h2⟩
  · obtain ⟨s, its, h1, _, h3, h4, _⟩ := C12_source_arrForEach arrPJ 0 6 arrElems arr_ok 100 (by decide)
    exact ⟨s, its, h1, h3, h4⟩

/-- The premises of `C12_source_forEach` are satisfiable: on the tape of `{"a":{"b":7}}` (`Lookup.nestPJ`), `ForEach` with the
    filter `["a"]` run on the source logs one callback: name length 1, the iterator standing on the inner object. -/
example : ∃ s, runFun goFuns goObject_ForEach 100
      ⟨objStore nestPJ { lim := 10, off := 1 } [#[97]] [("fn.log", .ints [])], nestPJ.tape⟩ = .ret s [.bool false] ∧
    GoDelete.logOf s.env = encNI (#[97], skipIter nestPJ 10 (.obj 3 9 nestInner)) := by
  obtain ⟨s, h1, _, h3, _⟩ := C12_source_forEach nestPJ 0 10 nestMems [#[97]] nest_ok
    (Or.inr (by simp [memKeys, nestMems])) ⟨by decide, by decide⟩ 100 (by decide)
  refine ⟨s, h1, ?_⟩
  rw [h3]
  simp [membersWithKeys, nestMems, encNIs, cbOf]

/-- The premises of `C14_source_delete_then_read_arr` are satisfiable: deleting the first element of `["a","b"]` on the
    source, then `ForEach` on the source over the tape left, makes one callback. -/
example : ∃ s, runFun goFuns goArray_DeleteElems 100
      ⟨arrStore arrPJ { lim := 6, off := 1 } [("fn.results", .bools (answers 5 (fun k => k == 0))), ("fn.log", .ints [])],
        arrPJ.tape⟩ = .ret s [] ∧
    ∃ s' its, runFun goFuns goArray_ForEach 100
        ⟨arrStore { tape := s.tape, strings := arrPJ.strings, msg := arrPJ.msg } { lim := 6, off := 1 }
          [("fn.log", .ints [])], s.tape⟩ = .ret s' [] ∧ GoDelete.logOf s'.env = GoDelete.encIters its ∧ its.size = 1 := by
  obtain ⟨s, h1, _, _, h4, _⟩ := C14_source_delete_then_read_arr arrPJ 0 6 arrElems (fun k => k == 0) arr_ok (by decide) 5
    (by decide) 100 (by decide)
  obtain ⟨s', its, g1, _, g3, g4, _⟩ := h4 100 (by decide)
  exact ⟨s, h1, s', its, g1, g3, by rw [g4]; rfl⟩

end Examples

end SJ.SourceLevelF
