import SJ.Proofs.MachineSim
set_option linter.unusedVariables false
set_option linter.unusedSimpArgs false
/-
The loops of the simulation: `Spec.elements` against the array states and `Spec.members` against the object states,
and the induction on fuel that ties the three statements together.
-/
namespace SJ.TokenSim
open SJ SJ.ParseDefs SJ.Generated SJ.Layout SJ.Tables SJ.MachineSim

variable {E : Env}

/-! ## the specification's loops, unfolded once -/

theorem value_nil (f : Nat) : Spec.value f [] = .rej := by
  cases f <;> rw [Spec.value]

theorem elements_nil (f : Nat) (acc : List Spec.JVal) (first : Bool) : Spec.elements (f + 1) [] acc first = .rej := by
  rw [Spec.elements]
  · rw [value_nil]
  · intro r h; cases h

theorem elements_close (f : Nat) (r : List UInt8) (acc : List Spec.JVal) (first : Bool) :
    Spec.elements (f + 1) (93 :: r) acc first = if first then .acc (.arr acc.reverse) r else .rej := by
  rw [Spec.elements]

theorem elements_other (f : Nat) (c : UInt8) (r : List UInt8) (acc : List Spec.JVal) (first : Bool) (hc : c ≠ 93) :
    Spec.elements (f + 1) (c :: r) acc first =
      match Spec.value f (c :: r) with
      | .acc v rest =>
        (match Spec.skipWs rest with
         | [] => .rej
         | x :: r' => if x = 44 then Spec.elements f (Spec.skipWs r') (v :: acc) false
                      else if x = 93 then .acc (.arr (v :: acc).reverse) r' else .rej)
      | .rej => .rej
      | .out => .out := by
  rw [Spec.elements]
  · cases Spec.value f (c :: r) with
    | rej => rfl
    | out => rfl
    | acc v rest =>
      simp only
      split
      · rename_i h; rw [h]; simp
      · rename_i h; rw [h]; simp
      · rename_i h1 h2
        cases hs : Spec.skipWs rest with
        | nil => rfl
        | cons x r' =>
          simp only
          by_cases hx : x = 44
          · subst hx; exact absurd hs (h1 _)
          · by_cases hx2 : x = 93
            · subst hx2; exact absurd hs (h2 _)
            · rw [if_neg hx, if_neg hx2]
  · intro r' h; exact hc (List.cons.inj h).1

theorem members_nil (f : Nat) (acc : List (List UInt8 × Spec.JVal)) (first : Bool) :
    Spec.members (f + 1) [] acc first = .rej := by
  rw [Spec.members]
  · intro r h; cases h
  · intro r h; cases h

theorem members_close (f : Nat) (r : List UInt8) (acc : List (List UInt8 × Spec.JVal)) (first : Bool) :
    Spec.members (f + 1) (125 :: r) acc first = if first then .acc (.obj acc.reverse) r else .rej := by
  rw [Spec.members]

theorem members_other (f : Nat) (c : UInt8) (r : List UInt8) (acc : List (List UInt8 × Spec.JVal)) (first : Bool)
    (h1 : c ≠ 125) (h2 : c ≠ 34) : Spec.members (f + 1) (c :: r) acc first = .rej := by
  rw [Spec.members]
  · intro r' h; exact h1 (List.cons.inj h).1
  · intro r' h; exact h2 (List.cons.inj h).1

/-- what `members` does after a value -/
def memAfter (f : Nat) (acc : List (List UInt8 × Spec.JVal)) (k : List UInt8) (v : Spec.JVal) (sk : List UInt8) :
    Spec.Out Spec.JVal :=
  match sk with
  | [] => .rej
  | y :: r3 => if y = 44 then Spec.members f (Spec.skipWs r3) ((k, v) :: acc) false
               else if y = 125 then .acc (.obj ((k, v) :: acc).reverse) r3 else .rej

/-- what `members` does after a key -/
def memColon (f : Nat) (acc : List (List UInt8 × Spec.JVal)) (k : List UInt8) (sk : List UInt8) : Spec.Out Spec.JVal :=
  match sk with
  | [] => .rej
  | x :: r2 =>
    if x = 58 then
      match Spec.value f (Spec.skipWs r2) with
      | .acc v rest2 => memAfter f acc k v (Spec.skipWs rest2)
      | .rej => .rej
      | .out => .out
    else .rej

theorem members_key (f : Nat) (r : List UInt8) (acc : List (List UInt8 × Spec.JVal)) (first : Bool) :
    Spec.members (f + 1) (34 :: r) acc first =
      match Spec.stringBody ((34 :: r).length + 1) r [] false with
      | .acc k rest => memColon f acc k (Spec.skipWs rest)
      | .rej => .rej
      | .out => .out := by
  rw [Spec.members]
  cases Spec.stringBody ((34 :: r).length + 1) r [] false with
  | rej => rfl
  | out => rfl
  | acc k rest =>
    simp only
    unfold memColon
    split
    · rename_i r2 h
      rw [h]
      simp only [if_true]
      cases Spec.value f (Spec.skipWs r2) with
      | rej => rfl
      | out => rfl
      | acc v rest2 =>
        simp only
        unfold memAfter
        split
        · rename_i h; rw [h]; simp
        · rename_i h; rw [h]; simp
        · rename_i h1 h2
          cases hs : Spec.skipWs rest2 with
          | nil => rfl
          | cons y r3 =>
            simp only
            by_cases hx : y = 44
            · subst hx; exact absurd hs (h1 _)
            · by_cases hx2 : y = 125
              · subst hx2; exact absurd hs (h2 _)
              · rw [if_neg hx, if_neg hx2]
    · rename_i h1
      cases hs : Spec.skipWs rest with
      | nil => rfl
      | cons x r2 =>
        simp only
        by_cases hx : x = 58
        · subst hx; exact absurd hs (h1 _)
        · rw [if_neg hx]


/-! ## after a value inside a container -/

/-- a comma: the machine goes on to the next element / member -/
theorem comma_sim {a e p' : Nat} (W : Win E a e) (ha : a ≤ p') (hp' : p' ≤ e) (hr : E.Rdy p') {r : List UInt8}
    (hsk : Spec.skipWs (E.seg e p') = 44 :: r) {m : M} (nst : St)
    (hst : (m.st = .arrContinue ∧ nst = .arrValue) ∨ (m.st = .objContinue ∧ nst = .objKeyAfterComma)) (g : Ghost) :
    ∃ p2, p' + 1 ≤ p2 ∧ p2 ≤ e ∧ Spec.skipWs r = E.seg e p2 ∧ E.Rdy p2 ∧ (p2 < e → Spec.isWs (E.b p2) = false) ∧
      E.err p2 = E.err p' ∧ E.c p2 = E.c p' + 1 ∧ run E m g (E.c p') = run E { m with st := nst } g (E.c p2) := by
  obtain ⟨q, h1, h2, h3, h4, h5, h6, h7, h8⟩ := skip_to W ha hp' hr hsk
  have hqs : q < E.msg.size := Nat.lt_of_lt_of_le h2 W.he
  have hb : E.msg.getD q 0 = 44 := h3
  have hstr : isStructByte (E.b q) = true := by rw [h3, classify_struct]; decide
  obtain ⟨r1, r2, r3, r4⟩ := struct_step (g := g) (g2 := g) (m2 := { m with st := nst }) hqs h5 hstr
    (fun pk => by
      rcases hst with ⟨s1, s2⟩ | ⟨s1, s2⟩
      · rw [step_comma_arr s1 hb, s2]
      · rw [step_comma_obj s1 hb, s2])
    (fun pk => gstep_comma g (by rcases hst with ⟨s1, _⟩ | ⟨s1, _⟩; exact Or.inr s1; exact Or.inl s1) hb)
  obtain ⟨p2, s1, s2, s3, s4, s5, s6, s7⟩ := skipWs_sim W (e - (q + 1)) (q + 1) rfl (by omega) (by omega) r2
  refine ⟨p2, by omega, s2, by rw [h4]; exact s3, s4, s7, by rw [s6, r3, h7], by rw [s5, r4, h6], ?_⟩
  rw [← h6, r1, s5]

/-- a closing bracket / brace after a value -/
theorem closer_sim {a e p' : Nat} (W : Win E a e) (ha : a ≤ p') (hp' : p' ≤ e) (hr : E.Rdy p') {x : UInt8}
    {r : List UInt8} (hsk : Spec.skipWs (E.seg e p') = x :: r) {m : M} {ent : UInt64} {stk : List UInt64}
    (hx : (x = 93 ∧ m.st = .arrContinue) ∨ (x = 125 ∧ m.st = .objContinue)) (hs : m.stack = ent :: stk)
    (hok : StkOK m) (g : Ghost) :
    ∃ q m', p' ≤ q ∧ q < e ∧ r = E.seg e (q + 1) ∧ run E m g (E.c p') = run E m' (g.close m.tape.size) (E.c (q + 1)) ∧
      m'.st = retSt ent ∧ m'.stack = stk ∧ m'.tape.size = m.tape.size + 1 ∧ E.Rdy (q + 1) ∧ E.err (q + 1) = E.err p' ∧
      E.c (q + 1) = E.c p' + 1 ∧ ClosedAt E (q + 1) := by
  obtain ⟨q, h1, h2, h3, h4, h5, h6, h7, h8⟩ := skip_to W ha hp' hr hsk
  obtain ⟨m', k1, k2, k3, k4, k5, k6, k7, k8⟩ := close_step W h2 h5 g
    (by rcases hx with ⟨x1, x2⟩ | ⟨x1, x2⟩
        · left; exact ⟨by rw [h3, x1], Or.inr x2⟩
        · right; exact ⟨by rw [h3, x1], Or.inr x2⟩) hs hok
  exact ⟨q, m', h1, h2, h4, by rw [← h6]; exact k1, k2, k3, k4, k5, by rw [k6, h7], by rw [k7, h6], k8⟩

/-- anything else after a value (or nothing more in the window): the machine cannot go on -/
theorem cont_stuck {a e p' : Nat} (W : Win E a e) (ha : a ≤ p') (hp' : p' ≤ e) (hr : E.Rdy p') {m : M}
    (hic : InCont m.st) (hD : 2 ≤ m.stack.length)
    (hbad : ∀ x r, Spec.skipWs (E.seg e p') = x :: r → ∀ q pk, E.b q = x → m.step E.cfg E.msg q pk = none) :
    Dead E m (E.c p') := by
  obtain ⟨q, h1, h2, h3, h4, h5, h6, h7⟩ := skipWs_sim W (e - p') p' rfl ha hp' hr
  rw [← h5]
  refine dead_stuck W (by omega) h2 h4 h7 hic hD ?_
  intro hqe pk
  rw [seg_cons hqe W.he] at h3
  exact hbad _ _ h3 q pk rfl

theorem stkOK_of_adv {m m' : M} (hok : StkOK m) (hs : m'.stack = m.stack) (ht : m.tape.size ≤ m'.tape.size) :
    StkOK m' := by
  intro x hx
  rw [hs] at hx
  exact Nat.lt_of_lt_of_le (hok x hx) ht

/-! ## one more unit of fuel: arrays -/

theorem elems_step {a e f : Nat} (W : Win E a e) (IHv : ValueSim E a e f) (IHe : ElemsSim E a e f) :
    ElemsSim E a e (f + 1) := by
  intro p m g0 acc first pos rev fs ent stk hap hpe hr hnw hfuel hst hs hss hok hrev
  have hD : 2 ≤ m.stack.length := hss.len
  have hic : InCont m.st := by rw [hst]; cases first <;> simp <;> icd
  by_cases hge : ¬ p < e
  · rw [seg_nil (by omega), elements_nil]
    exact dead_stuck W hap hpe hr hnw hic hD (fun h => absurd h hge)
  have hlt : p < e := by omega
  have hps : p < E.msg.size := Nat.lt_of_lt_of_le hlt W.he
  have hnwb : isWsByte (E.b p) = false := by rw [← isWs_eq]; exact hnw hlt
  obtain ⟨pk0, hd0, _, _⟩ := tok_at hps hr hnwb
  by_cases h93 : E.b p = 93
  · rw [seg_cons hlt W.he, h93, elements_close]
    cases first with
    | true =>
      simp only [if_true]
      have hst' : m.st = .arrBegin := by simpa using hst
      obtain ⟨m', k1, k2, k3, k4, k5, k6, k7, k8⟩ := close_step W hlt hr (withF g0 (.arr pos rev :: fs))
        (Or.inl ⟨h93, Or.inl hst'⟩) hs hok.stk
      refine ⟨p + 1, m', .arr pos (m.tape.size + 1) (toLVals rev.reverse), rfl, by omega, by omega, ?_,
        erase_arr _ _ _ _ hrev, k5, k6, k2, k3, by omega, Prog.step k7 (by omega) (by omega), k8⟩
      rw [k1, close_arr]
    | false =>
      simp only [Bool.false_eq_true, if_false]
      have hst' : m.st = .arrValue := by simpa using hst
      apply dead_of_step_none hd0
      apply step_val_none (Or.inr (Or.inl hst'))
      apply value_bad
      rw [show E.msg.getD p 0 = 93 from h93]; decide
  · rw [seg_cons hlt W.he, elements_other _ _ _ _ _ h93, ← seg_cons hlt W.he]
    have hvst : IsValSt m.st (E.b p) := by
      cases first with
      | true => right; right; exact ⟨by simpa using hst, h93⟩
      | false => right; left; simpa using hst
    have hcont : contSt m.st = .arrContinue := by rw [hst]; cases first <;> rfl
    have hv := IHv p m (withF g0 (.arr pos rev :: fs)) hap hlt hr (hnw hlt) (by omega) hvst hss hok
    cases hval : Spec.value f (E.seg e p) with
    | out => trivial
    | rej => rw [hval] at hv; exact hv
    | acc v rest =>
      rw [hval] at hv
      obtain ⟨p', k1, k2, k3, k4⟩ := hv
      subst k1
      dsimp only
      cases hsk : Spec.skipWs (E.seg e p') with
      | nil =>
        dsimp only
        rcases k4 with hadv | ⟨_, hd⟩
        · obtain ⟨m', lv, a1, a2, a3, a4, a5, a6, a7, a8, a9⟩ := hadv
          refine dead_of_run a1 (cont_stuck W (by omega) k3 a3 (by rw [a5, hcont]; icd) (by rw [a6]; exact hD) ?_)
          intro x r hx; rw [hsk] at hx; cases hx
        · exact hd
      | cons x r =>
        dsimp only
        by_cases hx44 : x = 44
        · rw [if_pos hx44]; subst hx44
          have hgood : Good E e p' := ⟨44, r, hsk, Or.inl rfl⟩
          have hadv : AdvV E p m (withF g0 (.arr pos rev :: fs)) v p' := by
            rcases k4 with h | ⟨hng, _⟩
            · exact h
            · exact absurd hgood hng
          obtain ⟨m', lv, a1, a2, a3, a4, a5, a6, a7, a8, a9⟩ := hadv
          obtain ⟨p2, c1, c2, c3, c4, c5, c6, c7, c8⟩ := comma_sim W (by omega) k3 a3 hsk .arrValue
            (Or.inl ⟨by rw [a5, hcont], rfl⟩) ((withF g0 (.arr pos rev :: fs)).addVal lv)
          rw [c3]
          rw [addVal_arr] at a1 c8
          have hprog : Prog E m p { m' with st := St.arrValue } p2 := ⟨by omega, a8, by simp only; omega⟩
          have hI := IHe p2 { m' with st := .arrValue } g0 (v :: acc) false pos (lv :: rev) fs ent stk (by omega) c2 c4 c5
            (by simp only [a6]; omega) rfl (by rw [← hs, ← a6]) (by simp only [a6]; exact hss)
            (hok.of_prog hprog (fun x hx => Or.inl (by simpa [a6] using hx))) (by simp [a2, hrev])
          cases hel : Spec.elements f (E.seg e p2) (v :: acc) false with
          | out => trivial
          | rej => rw [hel] at hI; exact dead_of_run (a1.trans c8) hI
          | acc v2 rest2 =>
            rw [hel] at hI
            obtain ⟨p3, m3, lv3, d1, d2, d3, d4, d5, d6, d7, d8, d9, d10, d11, d12⟩ := hI
            refine ⟨p3, m3, lv3, d1, by omega, d3, ?_, d5, d6, ?_, d8, d9, by omega, hprog.trans d11, d12⟩
            · rw [a1, c8, d4]
            · rw [d7, c6, a4]
        · rw [if_neg hx44]
          by_cases hx93 : x = 93
          · rw [if_pos hx93]; subst hx93
            have hgood : Good E e p' := ⟨93, r, hsk, Or.inr (Or.inl rfl)⟩
            have hadv : AdvV E p m (withF g0 (.arr pos rev :: fs)) v p' := by
              rcases k4 with h | ⟨hng, _⟩
              · exact h
              · exact absurd hgood hng
            obtain ⟨m', lv, a1, a2, a3, a4, a5, a6, a7, a8, a9⟩ := hadv
            obtain ⟨q, m2, c1, c2, c3, c4, c5, c6, c7, c8, c9, c10, c11⟩ := closer_sim W (by omega) k3 a3 hsk
              (Or.inl ⟨rfl, by rw [a5, hcont]⟩) (by rw [a6]; exact hs) (stkOK_of_adv hok.stk a6 a8)
              ((withF g0 (.arr pos rev :: fs)).addVal lv)
            rw [addVal_arr] at a1 c4
            rw [close_arr] at c4
            refine ⟨q + 1, m2, .arr pos (m'.tape.size + 1) (toLVals (lv :: rev).reverse), c3, by omega, by omega,
              a1.trans c4, erase_arr _ _ _ _ (by simp [a2, hrev]), c8, by rw [c9, a4], c5, c6, by omega, ?_, c11⟩
            exact ⟨by omega, by omega, by omega⟩
          · rw [if_neg hx93]
            rcases k4 with hadv | ⟨_, hd⟩
            · obtain ⟨m', lv, a1, a2, a3, a4, a5, a6, a7, a8, a9⟩ := hadv
              refine dead_of_run a1 (cont_stuck W (by omega) k3 a3 (by rw [a5, hcont]; icd) (by rw [a6]; exact hD) ?_)
              intro x' r' hx' q pk hq
              rw [hsk] at hx'
              obtain ⟨rfl, _⟩ := List.cons.inj hx'
              exact fail_arrCont (by rw [a5, hcont]) (by rw [show E.msg.getD q 0 = x from hq]; exact hx44)
                (by rw [show E.msg.getD q 0 = x from hq]; exact hx93)
            · exact hd

/-! ## one more unit of fuel: objects -/

/-- result of a container loop started at `(m, g, p)` -/
def LoopRes (E : Env) (e p : Nat) (m : M) (g g0 : Ghost) (fs : List Frame) (ent : UInt64) (stk : List UInt64)
    (R : Spec.Out Spec.JVal) : Prop :=
  match R with
  | .acc v rest => ContAcc E e p m g g0 fs ent stk v rest
  | .rej => Dead E m (E.c p)
  | .out => True

theorem loopRes_of_run {e p p1 : Nat} {m m1 : M} {g g1 g0 : Ghost} {fs : List Frame} {ent : UInt64}
    {stk : List UInt64} {R : Spec.Out Spec.JVal} (hrun : run E m g (E.c p) = run E m1 g1 (E.c p1)) (hp : p ≤ p1)
    (herr : E.err p1 = E.err p) (hprog : Prog E m p m1 p1) (h : LoopRes E e p1 m1 g1 g0 fs ent stk R) :
    LoopRes E e p m g g0 fs ent stk R := by
  cases R with
  | out => trivial
  | rej => exact dead_of_run hrun h
  | acc v rest =>
    obtain ⟨p', m', lv, d1, d2, d3, d4, d5, d6, d7, d8, d9, d10, d11, d12⟩ := h
    exact ⟨p', m', lv, d1, by omega, d3, hrun.trans d4, d5, d6, d7.trans herr, d8, d9,
      by have := hprog.1; omega, hprog.trans d11, d12⟩

/-- after the value of a member -/
theorem mem_after_sim {a e f p2 p3 : Nat} (W : Win E a e) (IHm : MembersSim E a e f) {m2 : M} {g0 : Ghost}
    {acc : List (List UInt8 × Spec.JVal)} {pos : Nat} {rev : List (Nat × List UInt8 × LVal)} {fs : List Frame}
    {ent : UInt64} {stk : List UInt64} {L : Nat} {k : List UInt8} {v : Spec.JVal}
    (hap : a ≤ p2) (hp23 : p2 < p3) (hp3 : p3 ≤ e) (hfuel : (e - p3) + 4 ≤ f + 1 + m2.stack.length)
    (hst : m2.st = .objValue) (hs : m2.stack = ent :: stk) (hss : StackShape m2.stack) (hok : MOK E m2 p2)
    (hrev : rev.map (fun x => (x.2.1, erase x.2.2)) = acc.map (fun y => (y.1, ofSpec y.2)))
    (hva : AdvV E p2 m2 (withF g0 (.obj pos rev (some (L, k)) :: fs)) v p3 ∨
      (¬ Good E e p3 ∧ Dead E m2 (E.c p2))) :
    LoopRes E e p2 m2 (withF g0 (.obj pos rev (some (L, k)) :: fs)) g0 fs ent stk
      (memAfter f acc k v (Spec.skipWs (E.seg e p3))) := by
  have hD : 2 ≤ m2.stack.length := hss.len
  have hcont : contSt m2.st = .objContinue := by rw [hst]; rfl
  unfold memAfter
  cases hsk : Spec.skipWs (E.seg e p3) with
  | nil =>
    dsimp only
    rcases hva with hadv | ⟨_, hd⟩
    · obtain ⟨m', lv, a1, a2, a3, a4, a5, a6, a7, a8, a9⟩ := hadv
      refine dead_of_run a1 (cont_stuck W (by omega) hp3 a3 (by rw [a5, hcont]; icd) (by rw [a6]; exact hD) ?_)
      intro x r hx; rw [hsk] at hx; cases hx
    · exact hd
  | cons y r3 =>
    dsimp only
    by_cases hy44 : y = 44
    · rw [if_pos hy44]; subst hy44
      have hgood : Good E e p3 := ⟨44, r3, hsk, Or.inl rfl⟩
      have hadv : AdvV E p2 m2 (withF g0 (.obj pos rev (some (L, k)) :: fs)) v p3 := by
        rcases hva with h | ⟨hng, _⟩
        · exact h
        · exact absurd hgood hng
      obtain ⟨m', lv, a1, a2, a3, a4, a5, a6, a7, a8, a9⟩ := hadv
      obtain ⟨p4, c1, c2, c3, c4, c5, c6, c7, c8⟩ := comma_sim W (by omega) hp3 a3 hsk .objKeyAfterComma
        (Or.inr ⟨by rw [a5, hcont], rfl⟩) ((withF g0 (.obj pos rev (some (L, k)) :: fs)).addVal lv)
      rw [c3]
      rw [addVal_obj] at a1 c8
      have hprog : Prog E m2 p2 { m' with st := St.objKeyAfterComma } p4 := ⟨by omega, a8, by simp only; omega⟩
      have hI := IHm p4 { m' with st := .objKeyAfterComma } g0 ((k, v) :: acc) false pos ((L, k, lv) :: rev) fs ent stk
        (by omega) c2 c4 c5 (by simp only [a6]; omega) rfl (by rw [← hs, ← a6]) (by simp only [a6]; exact hss)
        (hok.of_prog hprog (fun x hx => Or.inl (by simpa [a6] using hx))) (by simp [a2, hrev])
      exact loopRes_of_run (a1.trans c8) (by omega) (by rw [c6, a4]) hprog hI
    · rw [if_neg hy44]
      by_cases hy125 : y = 125
      · rw [if_pos hy125]; subst hy125
        have hgood : Good E e p3 := ⟨125, r3, hsk, Or.inr (Or.inr rfl)⟩
        have hadv : AdvV E p2 m2 (withF g0 (.obj pos rev (some (L, k)) :: fs)) v p3 := by
          rcases hva with h | ⟨hng, _⟩
          · exact h
          · exact absurd hgood hng
        obtain ⟨m', lv, a1, a2, a3, a4, a5, a6, a7, a8, a9⟩ := hadv
        obtain ⟨q, m3, c1, c2, c3, c4, c5, c6, c7, c8, c9, c10, c11⟩ := closer_sim W (by omega) hp3 a3 hsk
          (Or.inr ⟨rfl, by rw [a5, hcont]⟩) (by rw [a6]; exact hs) (stkOK_of_adv hok.stk a6 a8)
          ((withF g0 (.obj pos rev (some (L, k)) :: fs)).addVal lv)
        rw [addVal_obj] at a1 c4
        rw [close_obj] at c4
        refine ⟨q + 1, m3, .obj pos (m'.tape.size + 1) (toLMems ((L, k, lv) :: rev).reverse), c3, by omega, by omega,
          a1.trans c4, erase_obj _ _ _ _ (by simp [a2, hrev]), c8, by rw [c9, a4], c5, c6, by omega, ?_, c11⟩
        exact ⟨by omega, by omega, by omega⟩
      · rw [if_neg hy125]
        rcases hva with hadv | ⟨_, hd⟩
        · obtain ⟨m', lv, a1, a2, a3, a4, a5, a6, a7, a8, a9⟩ := hadv
          refine dead_of_run a1 (cont_stuck W (by omega) hp3 a3 (by rw [a5, hcont]; icd) (by rw [a6]; exact hD) ?_)
          intro x' r' hx' q pk hq
          rw [hsk] at hx'
          obtain ⟨rfl, _⟩ := List.cons.inj hx'
          exact fail_objCont (by rw [a5, hcont]) (by rw [show E.msg.getD q 0 = y from hq]; exact hy44)
            (by rw [show E.msg.getD q 0 = y from hq]; exact hy125)
        · exact hd

/-- after the key of a member -/
theorem mem_colon_sim {a e f p' : Nat} (W : Win E a e) (IHv : ValueSim E a e f) (IHm : MembersSim E a e f) {m1 : M}
    {g0 : Ghost} {acc : List (List UInt8 × Spec.JVal)} {pos : Nat} {rev : List (Nat × List UInt8 × LVal)}
    {fs : List Frame} {ent : UInt64} {stk : List UInt64} {L : Nat} {k : List UInt8}
    (hap : a ≤ p') (hp' : p' ≤ e) (hr : E.Rdy p') (hfuel : (e - p') + 6 ≤ f + 1 + m1.stack.length)
    (hst : m1.st = .objKeyColon) (hs : m1.stack = ent :: stk) (hss : StackShape m1.stack) (hok : MOK E m1 p')
    (hrev : rev.map (fun x => (x.2.1, erase x.2.2)) = acc.map (fun y => (y.1, ofSpec y.2))) :
    LoopRes E e p' m1 (withF g0 (.obj pos rev (some (L, k)) :: fs)) g0 fs ent stk
      (memColon f acc k (Spec.skipWs (E.seg e p'))) := by
  have hD : 2 ≤ m1.stack.length := hss.len
  unfold memColon
  cases hsk : Spec.skipWs (E.seg e p') with
  | nil =>
    dsimp only
    refine cont_stuck W hap hp' hr (by rw [hst]; icd) hD ?_
    intro x r hx; rw [hsk] at hx; cases hx
  | cons x r2 =>
    dsimp only
    by_cases hx : x = 58
    · rw [if_pos hx]; subst hx
      obtain ⟨q, h1, h2, h3, h4, h5, h6, h7, h8⟩ := skip_to W hap hp' hr hsk
      have hqs : q < E.msg.size := Nat.lt_of_lt_of_le h2 W.he
      have hb : E.msg.getD q 0 = 58 := h3
      have hstr : isStructByte (E.b q) = true := by rw [h3, classify_struct]; decide
      obtain ⟨r1, r2', r3, r4⟩ := struct_step (g := withF g0 (.obj pos rev (some (L, k)) :: fs))
        (g2 := withF g0 (.obj pos rev (some (L, k)) :: fs)) (m2 := { m1 with st := .objValue }) hqs h5 hstr
        (fun pk => step_colon hst hb) (fun pk => gstep_colon _ hst)
      obtain ⟨p2, s1, s2, s3, s4, s5, s6, s7⟩ := skipWs_sim W (e - (q + 1)) (q + 1) rfl (by omega) (by omega) r2'
      rw [h4, s3]
      have hrun : run E m1 (withF g0 (.obj pos rev (some (L, k)) :: fs)) (E.c p') =
          run E { m1 with st := .objValue } (withF g0 (.obj pos rev (some (L, k)) :: fs)) (E.c p2) := by
        rw [← h6, r1, s5]
      have hprog : Prog E m1 p' { m1 with st := St.objValue } p2 :=
        ⟨by omega, Nat.le_refl _, by simp only; omega⟩
      have hok2 : MOK E { m1 with st := St.objValue } p2 := hok.of_prog hprog (fun x hx => Or.inl hx)
      have herr : E.err p2 = E.err p' := by rw [s6, r3, h7]
      by_cases hp2 : p2 < e
      · have hv := IHv p2 { m1 with st := .objValue } (withF g0 (.obj pos rev (some (L, k)) :: fs)) (by omega) hp2 s4
          (s7 hp2) (by simp only; omega) (Or.inl rfl) hss hok2
        cases hval : Spec.value f (E.seg e p2) with
        | out => trivial
        | rej => rw [hval] at hv; exact dead_of_run hrun hv
        | acc v rest2 =>
          rw [hval] at hv
          obtain ⟨p3, k1, k2, k3, k4⟩ := hv
          subst k1
          dsimp only
          exact loopRes_of_run hrun (by omega) herr hprog
            (mem_after_sim W IHm (by omega) k2 k3 (by simp only; omega) rfl hs hss hok2 hrev k4)
      · rw [seg_nil (by omega), value_nil]
        dsimp only
        exact dead_of_run hrun (dead_stuck W (by omega) s2 s4 s7 (by icd) hD (fun h => absurd h hp2))
    · rw [if_neg hx]
      refine cont_stuck W hap hp' hr (by rw [hst]; icd) hD ?_
      intro x' r' hx' q pk hq
      rw [hsk] at hx'
      obtain ⟨rfl, _⟩ := List.cons.inj hx'
      exact fail_colon hst (by rw [show E.msg.getD q 0 = x from hq]; exact hx)

theorem members_step {a e f : Nat} (W : Win E a e) (IHv : ValueSim E a e f) (IHm : MembersSim E a e f) :
    MembersSim E a e (f + 1) := by
  intro p m g0 acc first pos rev fs ent stk hap hpe hr hnw hfuel hst hs hss hok hrev
  have hD : 2 ≤ m.stack.length := hss.len
  have hic : InCont m.st := by rw [hst]; cases first <;> simp <;> icd
  have hkst : m.st = .objBegin ∨ m.st = .objKeyAfterComma := by
    rw [hst]; cases first <;> simp
  by_cases hge : ¬ p < e
  · rw [seg_nil (by omega), members_nil]
    exact dead_stuck W hap hpe hr hnw hic hD (fun h => absurd h hge)
  have hlt : p < e := by omega
  have hps : p < E.msg.size := Nat.lt_of_lt_of_le hlt W.he
  have hnwb : isWsByte (E.b p) = false := by rw [← isWs_eq]; exact hnw hlt
  obtain ⟨pk0, hd0, _, _⟩ := tok_at hps hr hnwb
  by_cases h125 : E.b p = 125
  · rw [seg_cons hlt W.he, h125, members_close]
    cases first with
    | true =>
      simp only [if_true]
      have hst' : m.st = .objBegin := by simpa using hst
      obtain ⟨m', k1, k2, k3, k4, k5, k6, k7, k8⟩ := close_step W hlt hr (withF g0 (.obj pos rev none :: fs))
        (Or.inr ⟨h125, Or.inl hst'⟩) hs hok.stk
      refine ⟨p + 1, m', .obj pos (m.tape.size + 1) (toLMems rev.reverse), rfl, by omega, by omega, ?_,
        erase_obj _ _ _ _ hrev, k5, k6, k2, k3, by omega, Prog.step k7 (by omega) (by omega), k8⟩
      rw [k1, close_obj]
    | false =>
      simp only [Bool.false_eq_true, if_false]
      have hst' : m.st = .objKeyAfterComma := by simpa using hst
      apply dead_of_step_none hd0
      apply fail_keyAfterComma hst'
      rw [show E.msg.getD p 0 = 125 from h125]; decide
  by_cases h34 : E.b p = 34
  · rw [seg_cons hlt W.he, h34, members_key]
    have hb' : E.msg.getD p 0 = 34 := h34
    cases hsb : Spec.stringBody ((34 :: E.seg e (p + 1)).length + 1) (E.seg e (p + 1)) [] false with
    | out => trivial
    | rej =>
      obtain ⟨pk, r, k1, k2⟩ := str_rej W hap hr hlt h34 (by simp only [List.length_cons]; omega) hsb
      exact dead_of_step_none' k1 (fun G => by rw [step_key hkst hb', parseString_none _ _ _ _ _ (k2 G)]; rfl)
    | acc k rest =>
      dsimp only
      obtain ⟨p', pk, k1, k2, k3, k4, k5, k6, k7, k8⟩ := str_acc W hap hr hlt h34 hsb
      subst k1
      -- the decoder accepted the key, or what follows is not markup (and then the member is rejected)
      rcases k8 with ⟨cl, hdec⟩ | ⟨hnm, hnone⟩
      · obtain ⟨m1, q1, q2, q3, q4⟩ := parseString_ok m E.cfg E.msg p pk _ _ hdec
        have hstep : m.step E.cfg E.msg p pk = some { m1 with st := .objKeyColon } := by
          rw [step_key hkst hb', q1]; rfl
        have hg : gstep m (withF g0 (.obj pos rev none :: fs)) E.msg p pk =
            withF g0 (.obj pos rev (some (m.tape.size, k)) :: fs) := by
          rw [gstep_key _ hkst hb']
          simp [gkey, hdec, setKey_obj]
        have hrun : run E m (withF g0 (.obj pos rev none :: fs)) (E.c p) =
            run E { m1 with st := .objKeyColon } (withF g0 (.obj pos rev (some (m.tape.size, k)) :: fs)) (E.c p') := by
          rw [run_step _ k7 hstep, hg]; rfl
        have hprog : Prog E m p { m1 with st := St.objKeyColon } p' :=
          Prog.step k6 (by simp only; omega) (by simp only; omega)
        exact loopRes_of_run hrun (by omega) k5 hprog
          (mem_colon_sim W IHv IHm (by omega) k3 k4 (by simp only [q3]; omega) rfl (by rw [← hs, ← q3])
            (by simp only [q3]; exact hss) (hok.of_prog hprog (fun x hx => Or.inl (by simpa [q3] using hx))) hrev)
      · have hdead : Dead E m (E.c p) :=
          dead_of_step_none' k7 (fun G => by rw [step_key hkst hb', parseString_none _ _ _ _ _ (hnone G)]; rfl)
        unfold memColon
        cases hsk : Spec.skipWs (E.seg e p') with
        | nil => exact hdead
        | cons x r2 =>
          dsimp only
          by_cases hx : x = 58
          · exfalso
            have := hnm x r2 hsk
            rw [hx, markup_spec] at this
            exact absurd this (by decide)
          · rw [if_neg hx]; exact hdead
  · rw [seg_cons hlt W.he, members_other _ _ _ _ _ h125 h34]
    apply dead_of_step_none hd0
    cases first with
    | true => exact fail_objBegin (by simpa using hst) h34 h125
    | false => exact fail_keyAfterComma (by simpa using hst) h34

/-! ## the induction on fuel -/

theorem sim_all {a e : Nat} (W : Win E a e) : ∀ fuel, ValueSim E a e fuel ∧ ElemsSim E a e fuel ∧ MembersSim E a e fuel
  | 0 => by
    refine ⟨?_, ?_, ?_⟩
    · intro p m g hap hpe hr hnw hfuel hst hss hok
      rw [Spec.value]
      have hic : InCont m.st := by
        rcases hst with h | h | ⟨h, _⟩ <;> rw [h] <;> icd
      exact dead_by_depth W hap (Nat.le_of_lt hpe) hic hss (by omega)
    · intro p m g0 acc first pos rev fs ent stk hap hpe hr hnw hfuel hst hs hss hok hrev
      rw [Spec.elements]
      have hic : InCont m.st := by rw [hst]; cases first <;> simp <;> icd
      exact dead_by_depth W hap hpe hic hss (by omega)
    · intro p m g0 acc first pos rev fs ent stk hap hpe hr hnw hfuel hst hs hss hok hrev
      rw [Spec.members]
      have hic : InCont m.st := by rw [hst]; cases first <;> simp <;> icd
      exact dead_by_depth W hap hpe hic hss (by omega)
  | f + 1 => by
    obtain ⟨hv, he, hm⟩ := sim_all W f
    exact ⟨value_step W he hm, elems_step W hv he, members_step W hv hm⟩

end SJ.TokenSim
