import SJ.Proofs.Stage2WFCore
set_option linter.unusedVariables false
/-
Stage2WF: the stage-2 machine writes a well-formed tape holding exactly the ghost document built alongside it.
-/
namespace SJ.Stage2WF
open SJ SJ.Generated SJ.ParseDefs SJ.Layout SJ.CopyIndep SJ.WalkLayout

/-! ## 14. The machine's primitive operations -/

theorem push2_0 {α} (t : Array α) (a b : α) : ((t.push a).push b)[t.size]? = some a := by
  rw [getElem?_push_lt' _ _ (by simp), Array.getElem?_push_size]

theorem push2_1 {α} (t : Array α) (a b : α) : ((t.push a).push b)[t.size + 1]? = some b := by
  have : t.size + 1 = (t.push a).size := by simp
  rw [this, Array.getElem?_push_size]

theorem push2_lt {α} (t : Array α) (a b : α) {k : Nat} (h : k < t.size) : ((t.push a).push b)[k]? = t[k]? := by
  rw [getElem?_push_lt' _ _ (by simp; omega), getElem?_push_lt' _ _ h]

theorem ext_push2 (t : Array UInt64) (s x msg : Bytes) (a b : UInt64) (p : Nat) :
    Ext ⟨t, s, msg⟩ ⟨(t.push a).push b, s ++ x, msg⟩ p :=
  ⟨rfl, ⟨x, rfl⟩, fun k hk _ => push2_lt t a b hk⟩

theorem ext_push2_0 (t : Array UInt64) (s msg : Bytes) (a b : UInt64) (p : Nat) :
    Ext ⟨t, s, msg⟩ ⟨(t.push a).push b, s, msg⟩ p :=
  ⟨rfl, ⟨#[], by simp⟩, fun k hk _ => push2_lt t a b hk⟩

theorem annotate_spec {m m1 : M} {at_ val : UInt64} (h : m.annotate at_ val = some m1) :
    at_.toNat < m.tape.size ∧ m1.stack = m.stack ∧ m1.st = m.st ∧ m1.strings = m.strings ∧
    m1.tape.size = m.tape.size ∧
    (∀ w, m.tape[at_.toNat]? = some w → m1.tape[at_.toNat]? = some (w ||| val)) ∧
    (∀ k, k ≠ at_.toNat → m1.tape[k]? = m.tape[k]?) := by
  unfold M.annotate at h
  split at h
  · rename_i hlt
    injection h with h
    subst h
    refine ⟨hlt, rfl, rfl, rfl, by simp, fun w hw => ?_, fun k hk => ?_⟩
    · simp only [Array.getElem?_set, if_true]
      have := (Array.getElem?_eq_some_iff.mp hw).2
      rw [this]
    · simp only [Array.getElem?_set]
      rw [if_neg (fun e => hk e.symm)]
  · cases h

/-- how far one step may grow the tape and the string buffer -/
def Grow (m m1 : M) (buf : Bytes) (idx peek : Nat) : Prop :=
  m.tape.size ≤ m1.tape.size ∧ m1.tape.size ≤ m.tape.size + 3 ∧
  (m1.strings.size = m.strings.size ∨
    ∃ close, idx + 1 ≤ close ∧ m1.strings.size + (idx + 1) ≤ m.strings.size + close ∧ close < buf.size ∧
      close < idx + 1 + peek)

theorem parseString_spec {m m1 : M} {cfg : Cfg} {buf : Bytes} {idx peek : Nat}
    (h : m.parseString cfg buf idx peek = some m1) (hS : m.strings.size + buf.size < 2^55) :
    ∃ dec close, decodeString buf (idx + 1) peek = some (dec, close) ∧ m1.stack = m.stack ∧ m1.st = m.st ∧
      m1.tape.size = m.tape.size + 2 ∧ Ext (pjOf m buf) (pjOf m1 buf) m.tape.size ∧
      StrAt (pjOf m1 buf) dec.toList m.tape.size ∧
      (cfg.copyStrings = true → InBuf (pjOf m1 buf) m.tape.size) ∧ Grow m m1 buf idx peek := by
  unfold M.parseString at h
  cases hd : decodeString buf (idx + 1) peek with
  | none => rw [hd] at h; cases h
  | some dc =>
    obtain ⟨dec, close⟩ := dc
    rw [hd] at h
    obtain ⟨d1, d2, d3, d4, d5, d6⟩ := decodeString_spec hd
    simp only [] at h
    refine ⟨dec, close, rfl, ?_⟩
    split at h
    · -- no copy
      rename_i hnc
      injection h with h
      subst h
      have hnc' : cfg.copyStrings = false ∧ close - (idx + 1) = dec.size := by
        simpa using hnc
      refine ⟨rfl, rfl, by simp [M.writeTape], ext_push2_0 _ _ _ _ _ _, ?_, ?_, ?_⟩
      · refine strAt_nocopy _ m.tape.size (idx + 1) close dec (by show close < 2^55; omega) d1
          (by show close ≤ buf.size; omega) (d6 hnc'.2.symm) ?_ ?_
        · exact push2_0 _ _ _
        · exact push2_1 _ _ _
      · intro hc; rw [hnc'.1] at hc; cases hc
      · exact ⟨by simp only [M.writeTape, Array.size_push]; omega, by simp only [M.writeTape, Array.size_push]; omega, Or.inl rfl⟩
    · -- copy
      rename_i hnc
      injection h with h
      subst h
      refine ⟨rfl, rfl, by simp [M.writeTape], ext_push2 _ _ _ _ _ _ _, ?_⟩
      have := strAt_copy (pjOf { st := m.st, tape := (m.tape.push (mkWord tagString (wSTRINGBUFBIT + UInt64.ofNat m.strings.size))).push (UInt64.ofNat dec.size), strings := m.strings ++ dec, stack := m.stack } buf)
        m.tape.size m.strings.size dec (by omega) (push2_0 _ _ _) (push2_1 _ _ _) ⟨m.strings, rfl, rfl⟩
      refine ⟨this.1, fun _ => this.2, by simp only [M.writeTape, Array.size_push]; omega, by simp only [M.writeTape, Array.size_push]; omega, Or.inr ⟨close, d1, ?_, d2, by omega⟩⟩
      simp only [Array.size_append]
      omega

/-! ## 15. The value cases shared by the object-value and array-value states -/

theorem grow_push (m : M) (w : UInt64) (buf : Bytes) (idx peek : Nat) (st : St) (stack : List UInt64) :
    Grow m { st := st, tape := m.tape.push w, strings := m.strings, stack := stack } buf idx peek :=
  ⟨by simp only [Array.size_push]; omega, by simp only [Array.size_push]; omega, Or.inl rfl⟩

theorem value_inv {cfg : Cfg} {buf : Bytes} {m m1 : M} {g : Ghost} {idx peek ret : Nat} {o : Option St}
    (hc : Core cfg.copyStrings buf m.tape m.strings m.stack g) (hrv : g.rootVal = none)
    (he : ExpectingHd g.frames) (hret : ret = retOf g.frames)
    (hS : m.strings.size + buf.size < 2^55)
    (h : m.value cfg buf idx peek ret = some (m1, o)) :
    Core cfg.copyStrings buf m1.tape m1.strings m1.stack (gvalue m g buf idx peek) ∧
    StOK (o.getD (contOf g.frames)) (gvalue m g buf idx peek) ∧
    Grow m m1 buf idx peek ∧ (∀ s, o = some s → s ≠ .rootStart) := by
  unfold M.value at h
  unfold gvalue
  simp only [] at h ⊢
  by_cases h34 : (buf.getD idx 0 == 34) = true
  · simp only [h34, if_true] at h ⊢
    cases hp : m.parseString cfg buf idx peek with
    | none => rw [hp] at h; cases h
    | some mp =>
      rw [hp] at h
      simp only [Option.map_some] at h
      injection h with h; injection h with e1 e2; subst e1; subst e2
      obtain ⟨dec, close, hd, s1, s2, s3, s4, s5, s6, s7⟩ := parseString_spec hp hS
      rw [hd]; simp only []
      refine ⟨?_, stOK_addVal g _ hrv he, s7, fun s e => by cases e⟩
      rw [s1]
      exact core_addVal hc hrv he s4 (Nat.le_refl _) ⟨s5, trivial, s6⟩ rfl (by simp only [LVal.fin]; omega)
  simp only [h34, Bool.false_eq_true, if_false] at h ⊢
  by_cases h116 : (buf.getD idx 0 == 116) = true
  · simp only [h116, if_true] at h ⊢
    split at h
    · injection h with h; injection h with e1 e2; subst e1; subst e2
      refine ⟨?_, stOK_addVal g _ hrv he, grow_push _ _ _ _ _ _ _, fun s e => by cases e⟩
      exact core_addVal hc hrv he (ext_push0 _ _ _ _ m.tape.size) (Nat.le_refl _)
        ⟨⟨_, Array.getElem?_push_size, by decide⟩, trivial, fun _ => trivial⟩ rfl (by simp [LVal.fin, M.writeTape])
    · cases h
  simp only [h116, Bool.false_eq_true, if_false] at h ⊢
  by_cases h102 : (buf.getD idx 0 == 102) = true
  · simp only [h102, if_true] at h ⊢
    split at h
    · injection h with h; injection h with e1 e2; subst e1; subst e2
      refine ⟨?_, stOK_addVal g _ hrv he, grow_push _ _ _ _ _ _ _, fun s e => by cases e⟩
      exact core_addVal hc hrv he (ext_push0 _ _ _ _ m.tape.size) (Nat.le_refl _)
        ⟨⟨_, Array.getElem?_push_size, by decide⟩, trivial, fun _ => trivial⟩ rfl (by simp [LVal.fin, M.writeTape])
    · cases h
  simp only [h102, Bool.false_eq_true, if_false] at h ⊢
  by_cases h110 : (buf.getD idx 0 == 110) = true
  · simp only [h110, if_true] at h ⊢
    split at h
    · injection h with h; injection h with e1 e2; subst e1; subst e2
      refine ⟨?_, stOK_addVal g _ hrv he, grow_push _ _ _ _ _ _ _, fun s e => by cases e⟩
      exact core_addVal hc hrv he (ext_push0 _ _ _ _ m.tape.size) (Nat.le_refl _)
        ⟨⟨_, Array.getElem?_push_size, by decide⟩, trivial, fun _ => trivial⟩ rfl (by simp [LVal.fin, M.writeTape])
    · cases h
  simp only [h110, Bool.false_eq_true, if_false] at h ⊢
  by_cases hnum : (buf.getD idx 0 == 45) = true ∨ 48 ≤ buf.getD idx 0 ∧ buf.getD idx 0 ≤ 57
  · simp only [hnum, if_true] at h ⊢
    cases hp : parseNumber buf idx with
    | none => rw [hp] at h; cases h
    | some tv =>
      obtain ⟨tg, v⟩ := tv
      rw [hp] at h
      simp only [] at h ⊢
      injection h with h; injection h with e1 e2; subst e1; subst e2
      obtain ⟨n1, n2, n3⟩ := numLeaf_good ⟨(m.tape.push tg).push v, m.strings, buf⟩ cfg.copyStrings m.tape.size
        (parseNumber_tag hp) (push2_0 _ _ _) (push2_1 _ _ _)
      refine ⟨?_, stOK_addVal g _ hrv he, ?_, fun s e => by cases e⟩
      · exact core_addVal hc hrv he (ext_push2_0 _ _ _ _ _ m.tape.size) (Nat.le_refl _) n1 n2
          (by rw [n3]; simp)
      · exact ⟨by simp only [Array.size_push]; omega, by simp only [Array.size_push]; omega, Or.inl rfl⟩
  simp only [hnum, if_false] at h ⊢
  by_cases h123 : (buf.getD idx 0 == 123) = true
  · simp only [h123, if_true] at h ⊢
    injection h with h; injection h with e1 e2; subst e1; subst e2
    have := (core_open hc hrv he).1
    rw [hret]
    exact ⟨this.1, this.2, grow_push _ _ _ _ _ _ _, fun s e => by injection e with e; subst e; intro e'; cases e'⟩
  simp only [h123, Bool.false_eq_true, if_false] at h ⊢
  by_cases h91 : (buf.getD idx 0 == 91) = true
  · simp only [h91, if_true] at h ⊢
    injection h with h; injection h with e1 e2; subst e1; subst e2
    have := (core_open hc hrv he).2
    rw [hret]
    exact ⟨this.1, this.2, grow_push _ _ _ _ _ _ _, fun s e => by injection e with e; subst e; intro e'; cases e'⟩
  simp only [h91, Bool.false_eq_true, if_false] at h
  cases h

/-! ## 16. `scopeEnd` -/

theorem retOf_lt (fs : List Frame) : retOf fs < 4 := by
  match fs with
  | [] => show 1 < 4; omega
  | .arr _ _ :: _ => show 3 < 4; omega
  | .obj _ _ _ :: _ => show 2 < 4; omega

theorem st_of_ret (fs : List Frame) :
    (if (retOf fs == cretAddressArrayConst) = true then St.arrContinue
      else if (retOf fs == cretAddressObjectConst) = true then St.objContinue else St.startContinue) = contOf fs := by
  match fs with
  | [] => rfl
  | .arr _ _ :: _ => rfl
  | .obj _ _ _ :: _ => rfl

theorem contOf_ne (fs : List Frame) : contOf fs ≠ .rootStart := by
  match fs with
  | [] => intro e; cases e
  | .arr _ _ :: _ => intro e; cases e
  | .obj _ _ _ :: _ => intro e; cases e

/-- what `scopeEnd` does to the tape when the top stack entry is `entry p ret` and the word at `p` is `mkWord t 0` -/
theorem scopeEnd_spec {m m1 : M} {c t : UInt8} {p ret : Nat} {rest : List UInt64}
    (hst : m.stack = entry p ret :: rest) (hp : p < m.tape.size) (hsz : m.tape.size + 2 < 2^56) (hret : ret < 4)
    (hw : m.tape[p]? = some (mkWord t 0)) (h : m.scopeEnd c = some m1) :
    m1.stack = rest ∧ m1.strings = m.strings ∧ m1.tape.size = m.tape.size + 1 ∧
    m1.tape[p]? = some (mkWord t (UInt64.ofNat (m.tape.size + 1))) ∧
    m1.tape[m.tape.size]? = some (mkWord c (UInt64.ofNat p)) ∧
    (∀ k, k < m.tape.size → k ≠ p → m1.tape[k]? = m.tape[k]?) ∧
    m1.st = (if (ret == cretAddressArrayConst) = true then St.arrContinue
      else if (ret == cretAddressObjectConst) = true then St.objContinue else St.startContinue) := by
  unfold M.scopeEnd at h
  rw [hst] at h
  simp only [] at h
  rw [entry_shr p ret (by omega) hret, entry_and p ret (by omega) hret] at h
  cases ha : M.annotate (({ m with stack := rest } : M).writeTape (UInt64.ofNat p) c) (UInt64.ofNat p)
      (({ m with stack := rest } : M).writeTape (UInt64.ofNat p) c).loc with
  | none => rw [ha] at h; cases h
  | some m2 =>
    rw [ha] at h
    simp only [] at h
    injection h with h
    subst h
    obtain ⟨a1, a2, a3, a4, a5, a6, a7⟩ := annotate_spec ha
    rw [ofNat_toNat (by omega)] at a1 a6 a7
    simp only [M.writeTape, M.loc, Array.size_push] at a1 a2 a3 a4 a5 a6 a7
    refine ⟨a2, a4, a5, ?_, ?_, ?_, rfl⟩
    · have := a6 (mkWord t 0) (by rw [getElem?_push_lt' _ _ hp]; exact hw)
      rw [this, mk_or]
    · rw [a7 m.tape.size (by omega), Array.getElem?_push_size]
    · intro k hk hne
      rw [a7 k hne, getElem?_push_lt' _ _ hk]

theorem scopeEnd_inv {copy : Bool} {buf : Bytes} {m m1 : M} {g : Ghost} {c : UInt8}
    (hc : Core copy buf m.tape m.strings m.stack g) (hrv : g.rootVal = none)
    (hk : (∃ p r fs, g.frames = .arr p r :: fs ∧ c = tagArrayEnd) ∨
          (∃ p r fs, g.frames = .obj p r none :: fs ∧ c = tagObjectEnd))
    (hsz : m.tape.size + 2 < 2^56) (h : m.scopeEnd c = some m1) :
    Core copy buf m1.tape m1.strings m1.stack (g.close m.tape.size) ∧ StOK m1.st (g.close m.tape.size) ∧
    m1.tape.size = m.tape.size + 1 ∧ m1.strings = m.strings ∧ m1.st ≠ .rootStart := by
  have hb := hc.body
  rw [hrv] at hb
  rcases hk with ⟨p, r, fs, hfr, hcc⟩ | ⟨p, r, fs, hfr, hcc⟩
  · rw [hfr] at hb
    simp only [Body, FramesOK, FrameOK] at hb
    have hle := elemsOK_le _ _ _ hb.1.2
    have hst := hc.stack
    rw [hfr] at hst
    simp only [stackOf, Frame.pos] at hst
    obtain ⟨s1, s2, s3, s4, s5, s6, s7⟩ := scopeEnd_spec hst (by omega) hsz (retOf_lt fs) hb.1.1 h
    subst hcc
    have := core_closeArr hc hrv hfr hsz s3 s4 s5 s6
    rw [s1, s2, s7, st_of_ret]
    exact ⟨this.1, this.2, s3, rfl, contOf_ne _⟩
  · rw [hfr] at hb
    simp only [Body, FramesOK, FrameOK] at hb
    have hle := memsOK_le _ _ _ hb.1.2
    have hst := hc.stack
    rw [hfr] at hst
    simp only [stackOf, Frame.pos] at hst
    obtain ⟨s1, s2, s3, s4, s5, s6, s7⟩ := scopeEnd_spec hst (by omega) hsz (retOf_lt fs) hb.1.1 h
    subst hcc
    have := core_closeObj hc hrv hfr hsz s3 s4 s5 s6
    rw [s1, s2, s7, st_of_ret]
    exact ⟨this.1, this.2, s3, rfl, contOf_ne _⟩

/-! ## 17. Root dispatch, re-opening a root -/

theorem rootDispatch_inv {copy : Bool} {buf : Bytes} {m m1 : M} {g : Ghost} {c : UInt8}
    (hc : Core copy buf m.tape m.strings m.stack g) (hfr : g.frames = []) (hrv : g.rootVal = none)
    (h : m.rootDispatch c = some m1) :
    Core copy buf m1.tape m1.strings m1.stack (groot m g c) ∧ StOK m1.st (groot m g c) ∧
    m1.tape.size = m.tape.size + 1 ∧ m1.strings = m.strings ∧ m1.st ≠ .rootStart := by
  unfold M.rootDispatch at h
  unfold groot
  have he : ExpectingHd g.frames := by rw [hfr]; trivial
  have ho := core_open hc hrv he
  rw [hfr] at ho
  by_cases h123 : (c == 123) = true
  · simp only [h123, if_true] at h ⊢
    injection h with h; subst h
    exact ⟨ho.1.1, ho.1.2, by simp [M.writeTape, M.push], rfl, fun e => by cases e⟩
  simp only [h123, Bool.false_eq_true, if_false] at h ⊢
  by_cases h91 : (c == 91) = true
  · simp only [h91, if_true] at h ⊢
    injection h with h; subst h
    exact ⟨ho.2.1, ho.2.2, by simp [M.writeTape, M.push], rfl, fun e => by cases e⟩
  simp only [h91, Bool.false_eq_true, if_false] at h
  cases h

theorem groot_size (m m' : M) (g : Ghost) (c : UInt8) (h : m.tape.size = m'.tape.size) : groot m g c = groot m' g c := by
  unfold groot; rw [h]

theorem reopenRoot_spec {m m1 : M} {q : Nat} (hst : m.stack = [entry q cretAddressStartConst])
    (hq : q < m.tape.size) (hsz : m.tape.size + 3 < 2^56) (hw : m.tape[q]? = some (mkWord tagRoot 0))
    (h : m.reopenRoot = some m1) :
    m1.stack = [entry (m.tape.size + 1) cretAddressStartConst] ∧ m1.strings = m.strings ∧ m1.st = m.st ∧
    m1.tape.size = m.tape.size + 2 ∧
    m1.tape[q]? = some (mkWord tagRoot (UInt64.ofNat (m.tape.size + 1))) ∧
    m1.tape[m.tape.size]? = some (mkWord tagRoot (UInt64.ofNat q)) ∧
    m1.tape[m.tape.size + 1]? = some (mkWord tagRoot 0) ∧
    (∀ k, k < m.tape.size → k ≠ q → m1.tape[k]? = m.tape[k]?) := by
  unfold M.reopenRoot at h
  rw [hst] at h
  simp only [] at h
  rw [entry_shr q _ (by omega) (by decide)] at h
  simp only [M.loc] at h
  rw [loc_succ] at h
  cases ha : M.annotate ({ m with stack := [] } : M) (UInt64.ofNat q) (UInt64.ofNat (m.tape.size + 1)) with
  | none => rw [ha] at h; cases h
  | some m2 =>
    rw [ha] at h
    simp only [] at h
    injection h with h
    subst h
    obtain ⟨a1, a2, a3, a4, a5, a6, a7⟩ := annotate_spec ha
    rw [ofNat_toNat (by omega)] at a1 a6 a7
    simp only [] at a1 a2 a3 a4 a5 a6 a7
    simp only [M.writeTape, M.push, M.loc, Array.size_push, a5, a2, a4, a3]
    refine ⟨rfl, trivial, trivial, trivial, ?_, ?_, ?_, ?_⟩
    · rw [push2_lt _ _ _ (by omega), a6 _ hw, mk_or]
    · rw [← a5, push2_0]; rfl
    · rw [← a5, push2_1]; rfl
    · intro k hk hne
      rw [push2_lt _ _ _ (by omega), a7 k hne]

theorem finish_spec {m m1 : M} {q : Nat} (hst : m.stack = [entry q cretAddressStartConst])
    (hq : q < m.tape.size) (hsz : m.tape.size + 3 < 2^56) (hw : m.tape[q]? = some (mkWord tagRoot 0))
    (h : m.finish = some m1) :
    m1.strings = m.strings ∧ m1.tape.size = m.tape.size + 1 ∧
    m1.tape[q]? = some (mkWord tagRoot (UInt64.ofNat (m.tape.size + 1))) ∧
    m1.tape[m.tape.size]? = some (mkWord tagRoot (UInt64.ofNat q)) ∧
    (∀ k, k < m.tape.size → k ≠ q → m1.tape[k]? = m.tape[k]?) := by
  unfold M.finish at h
  rw [hst] at h
  simp only [] at h
  rw [entry_shr q _ (by omega) (by decide)] at h
  simp only [M.loc] at h
  rw [loc_succ] at h
  cases ha : M.annotate ({ m with stack := [] } : M) (UInt64.ofNat q) (UInt64.ofNat (m.tape.size + 1)) with
  | none => rw [ha] at h; cases h
  | some m2 =>
    rw [ha] at h
    simp only [] at h
    injection h with h
    subst h
    obtain ⟨a1, a2, a3, a4, a5, a6, a7⟩ := annotate_spec ha
    rw [ofNat_toNat (by omega)] at a1 a6 a7
    simp only [] at a1 a2 a3 a4 a5 a6 a7
    simp only [M.writeTape, Array.size_push, a5, a4]
    refine ⟨trivial, trivial, ?_, ?_, ?_⟩
    · rw [getElem?_push_lt' _ _ (by omega), a6 _ hw, mk_or]
    · rw [← a5, Array.getElem?_push_size]; rfl
    · intro k hk hne
      rw [getElem?_push_lt' _ _ (by omega), a7 k hne]

/-! ## 18. One step -/

theorem reopen_inv {copy : Bool} {buf : Bytes} {m m1 : M} {g : Ghost} {v : LVal}
    (hc : Core copy buf m.tape m.strings m.stack g) (hfr : g.frames = []) (hrv : g.rootVal = some v)
    (hsz : m.tape.size + 3 < 2^56) (h : m.reopenRoot = some m1) :
    Core copy buf m1.tape m1.strings m1.stack (g.nextRoot (m.tape.size + 1)) ∧ m1.tape.size = m.tape.size + 2 ∧
    m1.strings = m.strings := by
  have hst := hc.stack
  rw [hfr] at hst
  simp only [stackOf] at hst
  have hq := core_rootPos_lt hc
  obtain ⟨s1, s2, s3, s4, s5, s6, s7, s8⟩ := reopenRoot_spec hst hq hsz hc.root h
  have hd := core_closeRoot (tape' := m1.tape) hc hrv (by omega) s5 s6 s8
  rw [s2]
  refine ⟨⟨?_, ?_, ?_, ?_⟩, s4, rfl⟩
  · rw [s1]; rfl
  · exact s7
  · simp only [Ghost.nextRoot, hrv]; exact hd
  · simp only [Ghost.nextRoot, Body, FramesOK]; omega

theorem key_inv {cfg : Cfg} {buf : Bytes} {m m1 : M} {g : Ghost} {idx peek : Nat} {mp : M}
    (hc : Core cfg.copyStrings buf m.tape m.strings m.stack g) (hrv : g.rootVal = none)
    (hfr : ∃ p r fs, g.frames = .obj p r none :: fs)
    (hS : m.strings.size + buf.size < 2^55)
    (h : (m.parseString cfg buf idx peek).map ({ · with st := .objKeyColon }) = some m1) :
    Inv cfg.copyStrings buf m1 (gkey m g buf idx peek) ∧ Grow m m1 buf idx peek ∧ m1.st ≠ .rootStart := by
  cases hp : m.parseString cfg buf idx peek with
  | none => rw [hp] at h; cases h
  | some mp =>
    rw [hp] at h
    simp only [Option.map_some] at h
    injection h with h; subst h
    obtain ⟨dec, close, hd, s1, s2, s3, s4, s5, s6, s7⟩ := parseString_spec hp hS
    obtain ⟨p, r, fs, hfr⟩ := hfr
    unfold gkey
    rw [hd]
    simp only []
    have := core_setKey hc hrv hfr s4 (Nat.le_refl _) s5 s6 s3
    refine ⟨⟨?_, this.2⟩, s7, fun e => by cases e⟩
    show Core cfg.copyStrings buf mp.tape mp.strings mp.stack _
    rw [s1]
    exact this.1

theorem valueState_inv {cfg : Cfg} {buf : Bytes} {m m1 : M} {g : Ghost} {idx peek ret : Nat} {d : St}
    (hc : Core cfg.copyStrings buf m.tape m.strings m.stack g) (hrv : g.rootVal = none)
    (he : ExpectingHd g.frames) (hret : ret = retOf g.frames) (hd : d = contOf g.frames)
    (hS : m.strings.size + buf.size < 2^55)
    (h : (match m.value cfg buf idx peek ret with
      | none => none
      | some (m', none) => some { m' with st := d }
      | some (m', some s) => some { m' with st := s }) = some m1) :
    Inv cfg.copyStrings buf m1 (gvalue m g buf idx peek) ∧ Grow m m1 buf idx peek ∧ m1.st ≠ .rootStart := by
  cases hv : m.value cfg buf idx peek ret with
  | none => rw [hv] at h; cases h
  | some mo =>
    obtain ⟨m', o⟩ := mo
    obtain ⟨v1, v2, v3, v4⟩ := value_inv hc hrv he hret hS hv
    rw [hv] at h
    cases o with
    | none =>
      simp only [] at h
      injection h with h; subst h
      exact ⟨⟨v1, by rw [hd]; exact v2⟩, v3, by rw [hd]; exact contOf_ne _⟩
    | some s =>
      simp only [] at h
      injection h with h; subst h
      exact ⟨⟨v1, v2⟩, v3, v4 s rfl⟩

theorem grow_st (m : M) (st : St) (buf : Bytes) (idx peek : Nat) : Grow m { m with st := st } buf idx peek :=
  ⟨Nat.le_refl _, by show m.tape.size ≤ m.tape.size + 3; omega, Or.inl rfl⟩

theorem grow_of {m m1 : M} {buf : Bytes} {idx peek : Nat} {n : Nat} (h1 : m1.tape.size = m.tape.size + n) (hn : n ≤ 3)
    (h2 : m1.strings = m.strings) : Grow m m1 buf idx peek :=
  ⟨by omega, by omega, Or.inl (by rw [h2])⟩

theorem step_inv {cfg : Cfg} {buf : Bytes} {m m1 : M} {g : Ghost} {idx peek : Nat}
    (hi : Inv cfg.copyStrings buf m g) (hT : m.tape.size + 3 < 2^56) (hS : m.strings.size + buf.size < 2^55)
    (h : m.step cfg buf idx peek = some m1) :
    Inv cfg.copyStrings buf m1 (gstep m g buf idx peek) ∧ Grow m m1 buf idx peek ∧ m1.st ≠ .rootStart := by
  obtain ⟨hc, hs⟩ := hi
  unfold M.step at h
  unfold gstep
  simp only [] at h ⊢
  cases hst : m.st <;> rw [hst] at hs h <;> simp only [] at h ⊢ <;> simp only [StOK] at hs
  · -- rootStart
    obtain ⟨r1, r2, r3, r4, r5⟩ := rootDispatch_inv hc hs.1 hs.2 h
    exact ⟨⟨r1, r2⟩, grow_of r3 (by omega) r4, r5⟩
  · -- objBegin
    by_cases h34 : (buf.getD idx 0 == 34) = true
    · simp only [h34, if_true] at h ⊢
      exact key_inv (mp := m) hc hs.1 hs.2 hS h
    simp only [h34, Bool.false_eq_true, if_false] at h ⊢
    by_cases h125 : (buf.getD idx 0 == 125) = true
    · simp only [h125, if_true] at h ⊢
      obtain ⟨p, r, fs, hfr⟩ := hs.2
      obtain ⟨r1, r2, r3, r4, r5⟩ := scopeEnd_inv hc hs.1 (Or.inr ⟨p, r, fs, hfr, eq_of_beq h125⟩) (by omega) h
      exact ⟨⟨r1, r2⟩, grow_of r3 (by omega) r4, r5⟩
    simp only [h125, Bool.false_eq_true, if_false] at h
    cases h
  · -- objKeyColon
    split at h
    · injection h with h; subst h
      exact ⟨⟨hc, hs⟩, grow_st _ _ _ _ _, fun e => by cases e⟩
    · cases h
  · -- objValue
    obtain ⟨p, r, pk, k, fs, hfr⟩ := hs.2
    exact valueState_inv hc hs.1 (by rw [hfr]; rfl) (by rw [hfr]; rfl) (by rw [hfr]; rfl) hS h
  · -- objContinue
    by_cases h44 : (buf.getD idx 0 == 44) = true
    · simp only [h44, if_true] at h ⊢
      injection h with h; subst h
      have h125 : (buf.getD idx 0 == 125) = false := by
        have : buf.getD idx 0 = 44 := by simpa using h44
        rw [this]; rfl
      simp only [h125, Bool.false_eq_true, if_false]
      exact ⟨⟨hc, hs⟩, grow_st _ _ _ _ _, fun e => by cases e⟩
    simp only [h44, Bool.false_eq_true, if_false] at h
    by_cases h125 : (buf.getD idx 0 == 125) = true
    · simp only [h125, if_true] at h ⊢
      obtain ⟨p, r, fs, hfr⟩ := hs.2
      obtain ⟨r1, r2, r3, r4, r5⟩ := scopeEnd_inv hc hs.1 (Or.inr ⟨p, r, fs, hfr, eq_of_beq h125⟩) (by omega) h
      exact ⟨⟨r1, r2⟩, grow_of r3 (by omega) r4, r5⟩
    simp only [h125, Bool.false_eq_true, if_false] at h
    cases h
  · -- objKeyAfterComma
    by_cases h34 : (buf.getD idx 0 == 34) = true
    · simp only [h34, if_true] at h ⊢
      exact key_inv (mp := m) hc hs.1 hs.2 hS h
    simp only [h34, Bool.false_eq_true, if_false] at h
    cases h
  · -- arrBegin
    obtain ⟨p, r, fs, hfr⟩ := hs.2
    by_cases h93 : (buf.getD idx 0 == 93) = true
    · simp only [h93, if_true] at h ⊢
      obtain ⟨r1, r2, r3, r4, r5⟩ := scopeEnd_inv hc hs.1 (Or.inl ⟨p, r, fs, hfr, eq_of_beq h93⟩) (by omega) h
      exact ⟨⟨r1, r2⟩, grow_of r3 (by omega) r4, r5⟩
    simp only [h93, Bool.false_eq_true, if_false] at h ⊢
    exact valueState_inv hc hs.1 (by rw [hfr]; trivial) (by rw [hfr]; rfl) (by rw [hfr]; rfl) hS h
  · -- arrValue
    obtain ⟨p, r, fs, hfr⟩ := hs.2
    exact valueState_inv hc hs.1 (by rw [hfr]; trivial) (by rw [hfr]; rfl) (by rw [hfr]; rfl) hS h
  · -- arrContinue
    obtain ⟨p, r, fs, hfr⟩ := hs.2
    by_cases h44 : (buf.getD idx 0 == 44) = true
    · simp only [h44, if_true] at h ⊢
      injection h with h; subst h
      have h93 : (buf.getD idx 0 == 93) = false := by
        have : buf.getD idx 0 = 44 := by simpa using h44
        rw [this]; rfl
      simp only [h93, Bool.false_eq_true, if_false]
      exact ⟨⟨hc, hs⟩, grow_st _ _ _ _ _, fun e => by cases e⟩
    simp only [h44, Bool.false_eq_true, if_false] at h
    by_cases h93 : (buf.getD idx 0 == 93) = true
    · simp only [h93, if_true] at h ⊢
      obtain ⟨r1, r2, r3, r4, r5⟩ := scopeEnd_inv hc hs.1 (Or.inl ⟨p, r, fs, hfr, eq_of_beq h93⟩) (by omega) h
      exact ⟨⟨r1, r2⟩, grow_of r3 (by omega) r4, r5⟩
    simp only [h93, Bool.false_eq_true, if_false] at h
    cases h
  · -- startContinue
    split at h
    · injection h with h; subst h
      exact ⟨⟨hc, hs⟩, grow_st _ _ _ _ _, fun e => by cases e⟩
    · cases h
  · -- ndSkip
    by_cases h10 : (buf.getD idx 0 == 10) = true
    · simp only [h10, if_true] at h ⊢
      injection h with h; subst h
      exact ⟨⟨hc, by rw [hst]; exact hs⟩, ⟨Nat.le_refl _, by omega, Or.inl rfl⟩, by rw [hst]; intro e; cases e⟩
    simp only [h10, Bool.false_eq_true, if_false] at h ⊢
    cases hr : m.reopenRoot with
    | none => rw [hr] at h; cases h
    | some m2 =>
      rw [hr] at h
      simp only [] at h
      obtain ⟨v, hv⟩ := hs.2
      obtain ⟨q1, q2, q3⟩ := reopen_inv hc hs.1 hv hT hr
      obtain ⟨r1, r2, r3, r4, r5⟩ := rootDispatch_inv q1 rfl rfl h
      rw [groot_size _ m2 _ _ (by simp only [Array.size_push]; omega)]
      exact ⟨⟨r1, r2⟩, grow_of (n := 3) (by omega) (by omega) (by rw [r4, q3]), r5⟩

/-! ## 19. The run -/

theorem inv_init (copy : Bool) (buf : Bytes) : Inv copy buf M.init {} := by
  refine ⟨⟨rfl, rfl, rfl, ?_⟩, rfl, rfl⟩
  show (1 : Nat) = 0 + 1
  rfl

theorem run_inv (cfg : Cfg) (buf : Bytes) (hb : buf.size < 2^50) : ∀ (L : List (Nat × Nat)) (m : M) (g : Ghost) (m' : M) (g' : Ghost),
    Inv cfg.copyStrings buf m g → m.tape.size + 3 * L.length + 3 < 2^56 → m.strings.size ≤ buf.size →
    (∀ a ∈ L, m.strings.size ≤ a.1) → L.Pairwise (fun a b => a.1 + a.2 ≤ b.1) →
    runMG cfg buf m g L = some (m', g') →
    Inv cfg.copyStrings buf m' g' ∧ m'.tape.size ≤ m.tape.size + 3 * L.length ∧ (L ≠ [] → m'.st ≠ .rootStart) ∧
    m'.strings.size ≤ buf.size
  | [], m, g, m', g', hi, hT, hS, hlo, hpw, hrun => by
    simp only [runMG] at hrun
    injection hrun with hrun; injection hrun with e1 e2
    subst e1; subst e2
    exact ⟨hi, by omega, fun h => absurd rfl h, hS⟩
  | (idx, peek) :: r, m, g, m', g', hi, hT, hS, hlo, hpw, hrun => by
    simp only [runMG] at hrun
    cases hstep : m.step cfg buf idx peek with
    | none => rw [hstep] at hrun; cases hrun
    | some m1 =>
      rw [hstep] at hrun
      simp only [] at hrun
      simp only [List.length_cons] at hT
      obtain ⟨i1, ⟨g1, g2, g3⟩, i3⟩ := step_inv hi (by omega) (by omega) hstep
      rw [List.pairwise_cons] at hpw
      have hidx := hlo (idx, peek) (List.mem_cons_self ..)
      simp only at hidx
      have hS1 : m1.strings.size ≤ buf.size ∧ ∀ a ∈ r, m1.strings.size ≤ a.1 := by
        rcases g3 with g3 | ⟨close, c1, c2, c3, c4⟩
        · refine ⟨by omega, fun a ha => ?_⟩
          have := hpw.1 a ha
          simp only at this
          omega
        · refine ⟨by omega, fun a ha => ?_⟩
          have := hpw.1 a ha
          simp only at this
          omega
      obtain ⟨r1, r2, r3, r4⟩ := run_inv cfg buf hb r m1 _ m' g' i1 (by omega) hS1.1 hS1.2 hpw.2 hrun
      refine ⟨r1, by simp only [List.length_cons]; omega, fun _ => ?_, r4⟩
      by_cases hr : r = []
      · subst hr
        simp only [runMG] at hrun
        injection hrun with hrun; injection hrun with e1 e2
        subst e1
        exact i3
      · exact r3 hr

/-! ## 20. `finish` -/

theorem stackOf_length (q : Nat) : ∀ fs : List Frame, (stackOf q fs).length = fs.length + 1
  | [] => rfl
  | f :: fs => by simp only [stackOf, List.length_cons, stackOf_length q fs]

/-- **Stage 2 writes a well-formed tape holding exactly the ghost document.**
    Added hypotheses (both hold for the index lists stage 1 produces): the list is not empty (on an empty list `finish`
    closes the empty initial root, which is not a `Gap`), and an index plus its peek value never passes the next index
    (so the decoded strings come from disjoint source ranges and the string buffer stays shorter than the message). -/
theorem stage2_wf (cfg : Cfg) (buf : Bytes) (L : List (Nat × Nat)) (m' m : M) (g : Ghost)
    (hb : buf.size < 2^50) (hL : L.length < 2^50) (hne : L ≠ [])
    (hpk : L.Pairwise (fun a b => a.1 + a.2 ≤ b.1))
    (hrun : runMG cfg buf M.init {} L = some (m', g)) (hfin : m'.finish = some m) :
    WalkLayout.OkRoots (pjOf m buf) g.roots 0 ∧ (∀ v ∈ g.roots, WalkLayout.Tight v) ∧
    (cfg.copyStrings = true → ∀ v ∈ g.roots, CopyIndep.Copied (pjOf m buf) v) := by
  have hT0 : M.init.tape.size = 1 := rfl
  obtain ⟨⟨hc, hs⟩, hsz, hst, _⟩ := run_inv cfg buf hb L M.init {} m' g (inv_init _ _) (by rw [hT0]; omega)
    (Nat.zero_le _) (fun a _ => Nat.zero_le _) hpk hrun
  have hst := hst hne
  rw [hT0] at hsz
  -- the stack has one entry, so no container is open
  have hstack := hc.stack
  have hfr : g.frames = [] := by
    have hlen : m'.stack.length = 1 := by
      unfold M.finish at hfin
      split at hfin
      · rename_i offset hs'; rw [hs']; rfl
      · cases hfin
    rw [hstack, stackOf_length] at hlen
    exact List.eq_nil_of_length_eq_zero (by omega)
  -- and the root holds a value
  obtain ⟨v, hrv⟩ : ∃ v, g.rootVal = some v := by
    cases hst' : m'.st <;> rw [hst'] at hs hst <;> simp only [StOK] at hs
    · exact absurd rfl hst
    all_goals first
      | exact hs.2
      | (obtain ⟨_, p, r, pk, k, fs, e⟩ := hs; rw [hfr] at e; cases e; done)
      | (obtain ⟨_, p, r, fs, e⟩ := hs; rw [hfr] at e; cases e; done)
  rw [hfr] at hstack
  simp only [stackOf] at hstack
  have hq := core_rootPos_lt hc
  obtain ⟨f1, f2, f3, f4, f5⟩ := finish_spec hstack hq (by omega) hc.root hfin
  have hd := core_closeRoot (tape' := m.tape) hc hrv (by omega) f3 f4 f5
  rw [← f1] at hd
  have hroots : g.roots = (v :: g.done).reverse ++ [] := by
    simp only [Ghost.roots, hrv, List.append_nil]
  have hfinal := doneOK_roots (pj := pjOf m buf) (copy := cfg.copyStrings) (v :: g.done) (m'.tape.size + 1) [] hd
    (by show Gap _ _ _; rw [show (pjOf m buf).tape.size = m'.tape.size + 1 from f2]; exact gap_refl _ _)
    (fun x hx => by cases hx)
  rw [← hroots] at hfinal
  exact ⟨hfinal.1, fun x hx => (hfinal.2 x hx).1, fun hcp x hx => (hfinal.2 x hx).2 hcp⟩

/-- the added hypothesis of `stage2_wf` follows from `PeekOK` for strictly increasing indices -/
theorem pairwise_of_peekOK {msg : Bytes} {idx : List Nat} {L : List (Nat × Nat)} (h : PeekOK msg idx L)
    (hs : idx.Pairwise (· < ·)) : L.Pairwise (fun a b => a.1 + a.2 ≤ b.1) := by
  have hs' : L.Pairwise (fun a b => a.1 < b.1) := by
    rw [← h.fst, List.pairwise_map] at hs
    exact hs
  rw [List.pairwise_iff_getElem] at hs' ⊢
  intro i j hi hj hij
  have h1 : i + 1 < L.length := by omega
  have hlt := hs' i (i + 1) hi h1 (by omega)
  have hle : (L[i + 1]).1 ≤ (L[j]).1 := by
    by_cases e : i + 1 = j
    · subst e; exact Nat.le_refl _
    · exact Nat.le_of_lt (hs' (i + 1) j h1 hj (by omega))
  have hij' := hs' i j hi hj hij
  rcases h.peek i h1 with hp | hp
  · rw [hp]; omega
  · rw [hp.1]; omega

/-- `stage2_wf` with the hypotheses the scanner side provides (`PeekOK`, strictly increasing indices) -/
theorem stage2_wf_peekOK (cfg : Cfg) (buf : Bytes) (idx : List Nat) (L : List (Nat × Nat)) (m' m : M) (g : Ghost)
    (hb : buf.size < 2^50) (hL : L.length < 2^50) (hne : L ≠ [])
    (hpk : PeekOK buf idx L) (hs : idx.Pairwise (· < ·))
    (hrun : runMG cfg buf M.init {} L = some (m', g)) (hfin : m'.finish = some m) :
    WalkLayout.OkRoots (pjOf m buf) g.roots 0 ∧ (∀ v ∈ g.roots, WalkLayout.Tight v) ∧
    (cfg.copyStrings = true → ∀ v ∈ g.roots, CopyIndep.Copied (pjOf m buf) v) :=
  stage2_wf cfg buf L m' m g hb hL hne (pairwise_of_peekOK hpk hs) hrun hfin

/-! ## 21. Size bounds of the finished machine -/

theorem finish_sizes {m' m : M} (h : m'.finish = some m) :
    m.tape.size = m'.tape.size + 1 ∧ m.strings = m'.strings := by
  unfold M.finish at h
  split at h
  · simp only [] at h
    split at h
    · cases h
    · rename_i m2 ha
      injection h with h
      subst h
      obtain ⟨a1, a2, a3, a4, a5, a6, a7⟩ := annotate_spec ha
      exact ⟨by simp only [M.writeTape, Array.size_push, a5], a4⟩
  · cases h

/-- the tape and the string buffer of the finished machine are bounded by the number of indices and the message -/
theorem stage2_sizes (cfg : Cfg) (buf : Bytes) (L : List (Nat × Nat)) (m' m : M) (g : Ghost)
    (hb : buf.size < 2^50) (hL : L.length < 2^50) (hne : L ≠ [])
    (hpk : L.Pairwise (fun a b => a.1 + a.2 ≤ b.1))
    (hrun : runMG cfg buf M.init {} L = some (m', g)) (hfin : m'.finish = some m) :
    m.tape.size ≤ 3 * L.length + 2 ∧ m.strings.size ≤ buf.size := by
  have hT0 : M.init.tape.size = 1 := rfl
  obtain ⟨_, hsz, _, hstr⟩ := run_inv cfg buf hb L M.init {} m' g (inv_init _ _) (by rw [hT0]; omega)
    (Nat.zero_le _) (fun a _ => Nat.zero_le _) hpk hrun
  rw [hT0] at hsz
  obtain ⟨f1, f2⟩ := finish_sizes hfin
  rw [f1, f2]
  exact ⟨by omega, hstr⟩

theorem stage2_sizes_peekOK (cfg : Cfg) (buf : Bytes) (idx : List Nat) (L : List (Nat × Nat)) (m' m : M) (g : Ghost)
    (hb : buf.size < 2^50) (hL : L.length < 2^50) (hne : L ≠ [])
    (hpk : PeekOK buf idx L) (hs : idx.Pairwise (· < ·))
    (hrun : runMG cfg buf M.init {} L = some (m', g)) (hfin : m'.finish = some m) :
    m.tape.size ≤ 3 * L.length + 2 ∧ m.strings.size ≤ buf.size :=
  stage2_sizes cfg buf L m' m g hb hL hne (pairwise_of_peekOK hpk hs) hrun hfin

end SJ.Stage2WF
