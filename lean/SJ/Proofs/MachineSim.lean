import SJ.Proofs.MachineSimString
set_option linter.unusedVariables false
set_option linter.unusedSimpArgs false
/-
The simulation: the stage-2 machine (with its ghost document) follows the specification's recursive descent
(`Spec.value` / `Spec.elements` / `Spec.members`) over a window of the message.
-/
namespace SJ.TokenSim
open SJ SJ.ParseDefs SJ.Generated SJ.Layout SJ.Tables SJ.MachineSim

variable {E : Env}

/-! ## bookkeeping predicates -/

/-- the stack below the current container: some inner entries (returning into an object or array), the entry of the
    root container (returning to `startContinue`), the root entry -/
def StackShape (stk : List UInt64) : Prop :=
  ∃ inner e1 e0, stk = inner ++ [e1, e0] ∧ retOf e1 = cretAddressStartConst ∧
    ∀ x ∈ inner, retOf x = cretAddressObjectConst ∨ retOf x = cretAddressArrayConst

theorem StackShape.len {stk : List UInt64} (h : StackShape stk) : 2 ≤ stk.length := by
  obtain ⟨inner, e1, e0, rfl, _, _⟩ := h
  simp

theorem StackShape.push {stk : List UInt64} (h : StackShape stk) (x : UInt64)
    (hx : retOf x = cretAddressObjectConst ∨ retOf x = cretAddressArrayConst) : StackShape (x :: stk) := by
  obtain ⟨inner, e1, e0, rfl, h1, h2⟩ := h
  refine ⟨x :: inner, e1, e0, rfl, h1, ?_⟩
  intro y hy
  rcases List.mem_cons.mp hy with rfl | hy
  · exact hx
  · exact h2 y hy

/-- tape size against the number of indices consumed, and recorded positions on the tape -/
structure MOK (E : Env) (m : M) (p : Nat) : Prop where
  tape : m.tape.size ≤ 3 * E.c p + 1
  stk : StkOK m

theorem tape_lt (h : MOK E m p) (hp : p ≤ E.msg.size) : m.tape.size < 2^62 := by
  have h1 := h.tape
  have h2 := cnt_le_self E.nd E.msg p
  have h3 : E.msg.size < 2^50 := E.hsz
  show m.tape.size < 4611686018427387904
  have : E.c p ≤ p := h2
  omega

/-- progress of the machine between two positions: indices consumed against tape growth -/
def Prog (E : Env) (m : M) (p : Nat) (m' : M) (p' : Nat) : Prop :=
  E.c p ≤ E.c p' ∧ m.tape.size ≤ m'.tape.size ∧ m'.tape.size + 3 * E.c p ≤ m.tape.size + 3 * E.c p'

theorem Prog.refl (m : M) (p : Nat) : Prog E m p m p := ⟨Nat.le_refl _, Nat.le_refl _, Nat.le_refl _⟩

theorem Prog.trans {m1 m2 m3 : M} {p1 p2 p3 : Nat} (h1 : Prog E m1 p1 m2 p2) (h2 : Prog E m2 p2 m3 p3) :
    Prog E m1 p1 m3 p3 := by
  obtain ⟨a1, a2, a3⟩ := h1
  obtain ⟨b1, b2, b3⟩ := h2
  exact ⟨by omega, by omega, by omega⟩

theorem Prog.of_eq {m m' : M} {p p' : Nat} (h1 : E.c p' = E.c p) (h2 : m'.tape.size = m.tape.size) :
    Prog E m p m' p' := ⟨by omega, by omega, by omega⟩

theorem Prog.step {m m' : M} {p p' : Nat} (h1 : E.c p' = E.c p + 1) (h2 : m.tape.size ≤ m'.tape.size)
    (h3 : m'.tape.size ≤ m.tape.size + 3) : Prog E m p m' p' := ⟨by omega, by omega, by omega⟩

theorem MOK.of_prog {m m' : M} {p p' : Nat} (h : MOK E m p) (hp : Prog E m p m' p')
    (hs : ∀ x ∈ m'.stack, x ∈ m.stack ∨ locOf x < m'.tape.size) : MOK E m' p' := by
  obtain ⟨a1, a2, a3⟩ := hp
  refine ⟨by have := h.tape; omega, ?_⟩
  intro x hx
  rcases hs x hx with h1 | h1
  · exact Nat.lt_of_lt_of_le (h.stk x h1) a2
  · exact h1

/-! ## single steps at a token -/

theorem struct_not_ws : ∀ b : UInt8, isStructByte b = true → isWsByte b = false := forall_u8 (by decide +kernel)

/-- a structural character consumed by one step -/
theorem struct_step {q : Nat} (hq : q < E.msg.size) (hr : E.Rdy q) (hs : isStructByte (E.b q) = true)
    {m m2 : M} {g g2 : Ghost} (hstep : ∀ pk, m.step E.cfg E.msg q pk = some m2)
    (hg : ∀ pk, gstep m g E.msg q pk = g2) :
    run E m g (E.c q) = run E m2 g2 (E.c (q + 1)) ∧ E.Rdy (q + 1) ∧ E.err (q + 1) = E.err q ∧
      E.c (q + 1) = E.c q + 1 := by
  obtain ⟨pk, h1, h2, _⟩ := tok_at hq hr (struct_not_ws _ hs)
  obtain ⟨k1, k2, k3⟩ := E.SF.struct q hq hr hs
  refine ⟨?_, k2, k3, h2⟩
  rw [run_step g h1 (hstep pk), hg pk, h2]; rfl

theorem dead_of_step_none' {m : M} {k p pk : Nat} {r : List (Nat × Nat)} (hl : E.L.drop k = (p, pk) :: r)
    (hs : Glob E → m.step E.cfg E.msg p pk = none) : Dead E m k := by
  intro G
  rw [hl]
  simp [runM, hs G]

/-- the machine is stuck at `q` (next token not acceptable in its state, or the window / the message ends inside a
    container) -/
theorem dead_stuck {a e q : Nat} (W : Win E a e) (ha : a ≤ q) (hq : q ≤ e) (hr : E.Rdy q)
    (hnw : q < e → Spec.isWs (E.b q) = false) {m : M} (hic : InCont m.st) (hD : 2 ≤ m.stack.length)
    (hfail : q < e → ∀ pk, m.step E.cfg E.msg q pk = none) : Dead E m (E.c q) := by
  by_cases hqe : q < e
  · have hqs : q < E.msg.size := Nat.lt_of_lt_of_le hqe W.he
    obtain ⟨pk, h1, _, _⟩ := tok_at hqs hr (by rw [← isWs_eq]; exact hnw hqe)
    exact dead_of_step_none h1 (hfail hqe pk)
  · have : q = e := by omega
    subst this
    rcases W.stop with hs | ⟨hnd, hs⟩
    · apply dead_of_end
      · rw [hs]; exact drop_end
      · exact finish_none_of_len hD
    · by_cases hes : q < E.msg.size
      · obtain ⟨k1, _, _⟩ := E.SF.nl q hes hr hnd hs
        obtain ⟨pk, h1, _, _⟩ := drop_at hes k1
        exact dead_of_step_none h1 (fail_nl hic hs)
      · apply dead_of_end
        · have : q = E.msg.size := by have := W.he; omega
          rw [this]; exact drop_end
        · exact finish_none_of_len hD

/-! ## counting: a step pops at most one entry -/

theorem step_stack_len {m m' : M} {cfg : Cfg} {buf : Bytes} {p pk : Nat} (h : m.step cfg buf p pk = some m') :
    m.stack.length ≤ m'.stack.length + 1 := by
  obtain ⟨_, _, k⟩ := step_cases h
  cases k with
  | keep _ _ hs => rw [hs]; omega
  | opn _ _ r _ hs => rw [hs]; simp
  | cls _ x hs _ => rw [hs]; simp
  | root _ _ hs => rw [hs]; simp
  | sc _ _ hs => rw [hs]; omega
  | ndnl _ _ hs => rw [hs]; omega
  | ndopen _ _ x rest hs _ hs' => rw [hs, hs']; simp

theorem runM_stack_len (cfg : Cfg) (buf : Bytes) : ∀ (l : List (Nat × Nat)) (m m' : M),
    runM cfg buf m l = some m' → m.stack.length ≤ m'.stack.length + l.length
  | [], m, m', h => by simp only [runM, Option.some.injEq] at h; subst h; simp
  | (p, pk) :: r, m, m', h => by
    simp only [runM] at h
    cases hs : m.step cfg buf p pk with
    | none => rw [hs] at h; cases h
    | some m1 =>
      rw [hs] at h
      have h1 := step_stack_len hs
      have h2 := runM_stack_len cfg buf r m1 m' h
      simp only [List.length_cons]; omega

theorem cnt_diff (p : Nat) : ∀ k, E.c (p + k) ≤ E.c p + k
  | 0 => Nat.le_refl _
  | k + 1 => by
    have h := cnt_diff p k
    have h2 := E.SF.cnt_succ (p + k)
    show cnt E.nd E.msg (p + (k + 1)) ≤ _
    rw [show p + (k + 1) = p + k + 1 by omega, h2]
    split <;> omega

/-- fewer bytes left in the window than containers to close -/
theorem dead_by_depth {a e p : Nat} (W : Win E a e) (ha : a ≤ p) (hp : p ≤ e) {m : M}
    (hD : (e - p) + 2 ≤ m.stack.length) : Dead E m (E.c p) := by
  rcases W.stop with hs | ⟨hnd, hs⟩
  · intro G
    cases hr : runM E.cfg E.msg m (E.L.drop (E.c p)) with
    | none => rfl
    | some m' =>
      have h1 := runM_stack_len _ _ _ _ _ hr
      have h2 : (E.L.drop (E.c p)).length ≤ e - p := by
        rw [List.length_drop, L_len, ← E.SF.cnt_size]
        have := cnt_diff (E := E) p (e - p)
        rw [show p + (e - p) = e by omega, hs] at this
        show cnt E.nd E.msg E.msg.size - _ ≤ _
        have h3 : E.c E.msg.size = cnt E.nd E.msg E.msg.size := rfl
        omega
      simp only [Option.bind_some]
      exact finish_none_of_len (by omega)
  · sorry

end SJ.TokenSim
