import SJ.Proofs.MachineSimString
set_option linter.unusedVariables false
set_option linter.unusedSimpArgs false
/-
The simulation: the stage-2 machine (with its ghost document) follows the specification's recursive descent
(`Spec.value` / `Spec.elements` / `Spec.members`) over a window of the message.
-/
namespace SJ.TokenSim
open SJ SJ.ParseDefs SJ.Generated SJ.Layout SJ.Tables SJ.MachineSim

variable {E : Env}

/-! ## bookkeeping predicates -/

/-- the stack below the current container: some inner entries (returning into an object or array), the entry of the
    root container (returning to `startContinue`), the root entry -/
def StackShape (stk : List UInt64) : Prop :=
  ∃ inner e1 e0, stk = inner ++ [e1, e0] ∧ retOf e1 = cretAddressStartConst ∧
    ∀ x ∈ inner, retOf x = cretAddressObjectConst ∨ retOf x = cretAddressArrayConst

theorem StackShape.len {stk : List UInt64} (h : StackShape stk) : 2 ≤ stk.length := by
  obtain ⟨inner, e1, e0, rfl, _, _⟩ := h
  simp

theorem StackShape.push {stk : List UInt64} (h : StackShape stk) (x : UInt64)
    (hx : retOf x = cretAddressObjectConst ∨ retOf x = cretAddressArrayConst) : StackShape (x :: stk) := by
  obtain ⟨inner, e1, e0, rfl, h1, h2⟩ := h
  refine ⟨x :: inner, e1, e0, rfl, h1, ?_⟩
  intro y hy
  rcases List.mem_cons.mp hy with rfl | hy
  · exact hx
  · exact h2 y hy

/-- tape size against the number of indices consumed, and recorded positions on the tape -/
structure MOK (E : Env) (m : M) (p : Nat) : Prop where
  tape : m.tape.size ≤ 3 * E.c p + 1
  stk : StkOK m

theorem tape_lt (h : MOK E m p) (hp : p ≤ E.msg.size) : m.tape.size < 2^62 := by
  have h1 := h.tape
  have h2 := cnt_le_self E.nd E.msg p
  have h3 : E.msg.size < 2^50 := E.hsz
  show m.tape.size < 4611686018427387904
  have : E.c p ≤ p := h2
  omega

/-- progress of the machine between two positions: indices consumed against tape growth -/
def Prog (E : Env) (m : M) (p : Nat) (m' : M) (p' : Nat) : Prop :=
  E.c p ≤ E.c p' ∧ m.tape.size ≤ m'.tape.size ∧ m'.tape.size + 3 * E.c p ≤ m.tape.size + 3 * E.c p'

theorem Prog.refl (m : M) (p : Nat) : Prog E m p m p := ⟨Nat.le_refl _, Nat.le_refl _, Nat.le_refl _⟩

theorem Prog.trans {m1 m2 m3 : M} {p1 p2 p3 : Nat} (h1 : Prog E m1 p1 m2 p2) (h2 : Prog E m2 p2 m3 p3) :
    Prog E m1 p1 m3 p3 := by
  obtain ⟨a1, a2, a3⟩ := h1
  obtain ⟨b1, b2, b3⟩ := h2
  exact ⟨by omega, by omega, by omega⟩

theorem Prog.of_eq {m m' : M} {p p' : Nat} (h1 : E.c p' = E.c p) (h2 : m'.tape.size = m.tape.size) :
    Prog E m p m' p' := ⟨by omega, by omega, by omega⟩

theorem Prog.step {m m' : M} {p p' : Nat} (h1 : E.c p' = E.c p + 1) (h2 : m.tape.size ≤ m'.tape.size)
    (h3 : m'.tape.size ≤ m.tape.size + 3) : Prog E m p m' p' := ⟨by omega, by omega, by omega⟩

theorem MOK.of_prog {m m' : M} {p p' : Nat} (h : MOK E m p) (hp : Prog E m p m' p')
    (hs : ∀ x ∈ m'.stack, x ∈ m.stack ∨ locOf x < m'.tape.size) : MOK E m' p' := by
  obtain ⟨a1, a2, a3⟩ := hp
  refine ⟨by have := h.tape; omega, ?_⟩
  intro x hx
  rcases hs x hx with h1 | h1
  · exact Nat.lt_of_lt_of_le (h.stk x h1) a2
  · exact h1

/-! ## single steps at a token -/

theorem struct_not_ws : ∀ b : UInt8, isStructByte b = true → isWsByte b = false := forall_u8 (by decide +kernel)

/-- a structural character consumed by one step -/
theorem struct_step {q : Nat} (hq : q < E.msg.size) (hr : E.Rdy q) (hs : isStructByte (E.b q) = true)
    {m m2 : M} {g g2 : Ghost} (hstep : ∀ pk, m.step E.cfg E.msg q pk = some m2)
    (hg : ∀ pk, gstep m g E.msg q pk = g2) :
    run E m g (E.c q) = run E m2 g2 (E.c (q + 1)) ∧ E.Rdy (q + 1) ∧ E.err (q + 1) = E.err q ∧
      E.c (q + 1) = E.c q + 1 := by
  obtain ⟨pk, h1, h2, _⟩ := tok_at hq hr (struct_not_ws _ hs)
  obtain ⟨k1, k2, k3⟩ := E.SF.struct q hq hr hs
  refine ⟨?_, k2, k3, h2⟩
  rw [run_step g h1 (hstep pk), hg pk, h2]; rfl

theorem dead_of_step_none' {m : M} {k p pk : Nat} {r : List (Nat × Nat)} (hl : E.L.drop k = (p, pk) :: r)
    (hs : Glob E → m.step E.cfg E.msg p pk = none) : Dead E m k := by
  intro G
  rw [hl]
  simp [runM, hs G]

/-- the machine is stuck at `q` (next token not acceptable in its state, or the window / the message ends inside a
    container) -/
theorem dead_stuck {a e q : Nat} (W : Win E a e) (ha : a ≤ q) (hq : q ≤ e) (hr : E.Rdy q)
    (hnw : q < e → Spec.isWs (E.b q) = false) {m : M} (hic : InCont m.st) (hD : 2 ≤ m.stack.length)
    (hfail : q < e → ∀ pk, m.step E.cfg E.msg q pk = none) : Dead E m (E.c q) := by
  by_cases hqe : q < e
  · have hqs : q < E.msg.size := Nat.lt_of_lt_of_le hqe W.he
    obtain ⟨pk, h1, _, _⟩ := tok_at hqs hr (by rw [← isWs_eq]; exact hnw hqe)
    exact dead_of_step_none h1 (hfail hqe pk)
  · have : q = e := by omega
    subst this
    rcases W.stop with hs | ⟨hnd, hs⟩
    · apply dead_of_end
      · rw [hs]; exact drop_end
      · exact finish_none_of_len hD
    · by_cases hes : q < E.msg.size
      · obtain ⟨k1, _, _⟩ := E.SF.nl q hes hr hnd hs
        obtain ⟨pk, h1, _, _⟩ := drop_at hes k1
        exact dead_of_step_none h1 (fail_nl hic hs)
      · apply dead_of_end
        · have : q = E.msg.size := by have := W.he; omega
          rw [this]; exact drop_end
        · exact finish_none_of_len hD

/-! ## counting: a step pops at most one entry -/

theorem step_stack_len {m m' : M} {cfg : Cfg} {buf : Bytes} {p pk : Nat} (h : m.step cfg buf p pk = some m') :
    m.stack.length ≤ m'.stack.length + 1 := by
  obtain ⟨_, _, k⟩ := step_cases h
  cases k with
  | keep _ _ hs => rw [hs]; omega
  | opn _ _ r _ hs _ => rw [hs]; simp; omega
  | cls _ x hs _ => rw [hs]; simp
  | root _ _ hs => rw [hs]; simp; omega
  | sc _ _ hs => rw [hs]; omega
  | ndnl _ _ hs => rw [hs]; omega
  | ndopen _ _ x rest hs _ hs' => rw [hs, hs']; simp

theorem runM_stack_len (cfg : Cfg) (buf : Bytes) : ∀ (l : List (Nat × Nat)) (m m' : M),
    runM cfg buf m l = some m' → m.stack.length ≤ m'.stack.length + l.length
  | [], m, m', h => by simp only [runM, Option.some.injEq] at h; subst h; simp
  | (p, pk) :: r, m, m', h => by
    simp only [runM] at h
    cases hs : m.step cfg buf p pk with
    | none => rw [hs] at h; cases h
    | some m1 =>
      rw [hs] at h
      have h1 := step_stack_len hs
      have h2 := runM_stack_len cfg buf r m1 m' h
      simp only [List.length_cons]; omega

theorem cnt_diff (p : Nat) : ∀ k, E.c (p + k) ≤ E.c p + k
  | 0 => Nat.le_refl _
  | k + 1 => by
    have h := cnt_diff p k
    have h2 := E.SF.cnt_succ (p + k)
    show cnt E.nd E.msg (p + (k + 1)) ≤ cnt E.nd E.msg p + (k + 1)
    rw [show p + (k + 1) = p + k + 1 by omega, h2]
    have h' : cnt E.nd E.msg (p + k) ≤ cnt E.nd E.msg p + k := h
    have h3 : (if emit E.nd E.msg (p + k) = true then 1 else 0) ≤ 1 := by split <;> omega
    omega

theorem s1Step_nl (s : S1State) :
    s1Step true s 10 = ({ bsOdd := false, inQuote := s.inQuote, prevPred := true, err := s.err || s.inQuote }, !s.inQuote) := by
  have h1 : isBackslashByte 10 = false := by decide +kernel
  have h2 : isQuoteByte 10 = false := by decide +kernel
  have h3 : isWsByte 10 = true := by decide +kernel
  have h4 : isStructByte 10 = false := by decide +kernel
  have h5 : isNewlineByte 10 = true := by decide +kernel
  have h6 : isCtrlByte 10 = true := by decide +kernel
  obtain ⟨a, b, c, d⟩ := s
  simp only [s1Step, h1, h2, h3, h4, h5, h6]
  cases a <;> cases b <;> cases c <;> cases d <;> rfl

/-- in ND mode a line feed is an index unless it lies inside a string (and then the error flag is set) -/
theorem nl_raw (nd : Bool) (msg : Bytes) (e : Nat) (hnd : nd = true) (he : e < msg.size) (hb : byteAt msg e = 10) :
    emit nd msg e = true ∨ (σ nd msg (e + 1)).err = true := by
  subst hnd
  have hb' : msg.getD e 0x20 = 10 := by
    have : msg.getD e 0x20 = msg.getD e 0 := by simp [Array.getD, he]
    rw [this]; exact hb
  have hs : Block.padStep true msg (Block.padSt true msg e) e = s1Step true (Block.padSt true msg e) 10 := by
    unfold Block.padStep; rw [hb']
  have h1 : emit true msg e = (s1Step true (Block.padSt true msg e) 10).2 := by
    show (Block.padStep true msg (Block.padSt true msg e) e).2 = _; rw [hs]
  have h2 : σ true msg (e + 1) = (s1Step true (Block.padSt true msg e) 10).1 := by
    show (Block.padStep true msg (Block.padSt true msg e) e).1 = _; rw [hs]
  rw [h1, h2, s1Step_nl]
  cases (Block.padSt true msg e).inQuote
  · left; rfl
  · right; simp

/-! ## the shape of the stack determines the kind of state -/

/-- inside a container the stack has the container shape; between documents it holds the root entry only -/
def Inv (m : M) : Prop := (InCont m.st ∧ StackShape m.stack) ∨ (¬ InCont m.st ∧ m.stack.length = 1)

theorem retSt_start {x : UInt64} (h : retOf x = cretAddressStartConst) : retSt x = .startContinue := by
  unfold retSt; rw [h]; rfl

theorem retSt_inCont {x : UInt64} (h : retOf x = cretAddressObjectConst ∨ retOf x = cretAddressArrayConst) :
    InCont (retSt x) := by
  unfold retSt
  rcases h with h | h <;> rw [h] <;> decide

theorem inv_step {m m' : M} {cfg : Cfg} {buf : Bytes} {p pk : Nat} (h : m.step cfg buf p pk = some m') (hi : Inv m) :
    Inv m' := by
  obtain ⟨_, _, k⟩ := step_cases h
  have one : ∀ {l : List UInt64}, l.length = 1 → ∃ x, l = [x] := by
    intro l hl
    match l, hl with
    | [x], _ => exact ⟨x, rfl⟩
  cases k with
  | keep h1 h2 hs =>
    rcases hi with ⟨_, a2⟩ | ⟨a1, _⟩
    · exact Or.inl ⟨h2, by rw [hs]; exact a2⟩
    · exact absurd h1 a1
  | opn h1 h2 r hr hs _ =>
    rcases hi with ⟨_, a2⟩ | ⟨a1, _⟩
    · refine Or.inl ⟨h2, ?_⟩
      rw [hs]
      exact a2.push _ (by rw [ent_ret' _ _ (by rcases hr with rfl | rfl <;> decide)]; exact hr)
    · exact absurd h1 a1
  | cls h1 x hs h2 =>
    rcases hi with ⟨_, a2⟩ | ⟨a1, _⟩
    · obtain ⟨inner, e1, e0, he, g1, g2⟩ := a2
      rw [hs] at he
      cases inner with
      | nil =>
        simp only [List.nil_append, List.cons.injEq] at he
        obtain ⟨rfl, he2⟩ := he
        right
        rw [h2, retSt_start g1, he2]
        exact ⟨by decide, rfl⟩
      | cons y inner' =>
        simp only [List.cons_append, List.cons.injEq] at he
        obtain ⟨rfl, he2⟩ := he
        left
        rw [h2]
        refine ⟨retSt_inCont (g2 x (by simp)), inner', e1, e0, he2, g1, fun z hz => g2 z (List.mem_cons_of_mem _ hz)⟩
    · exact absurd h1 a1
  | root h1 h2 hs =>
    rcases hi with ⟨a1, _⟩ | ⟨_, a2⟩
    · rw [h1] at a1; exact absurd a1 (by decide)
    · obtain ⟨x, hx⟩ := one a2
      refine Or.inl ⟨h2, [], _, x, by rw [hs, hx]; rfl, ent_ret' _ _ (by decide), fun z hz => by cases hz⟩
  | sc h1 h2 hs =>
    rcases hi with ⟨a1, _⟩ | ⟨_, a2⟩
    · rw [h1] at a1; exact absurd a1 (by decide)
    · exact Or.inr ⟨by rw [h2]; decide, by rw [hs]; exact a2⟩
  | ndnl h1 h2 hs =>
    rcases hi with ⟨a1, _⟩ | ⟨_, a2⟩
    · rw [h1] at a1; exact absurd a1 (by decide)
    · exact Or.inr ⟨by rw [h2]; decide, by rw [hs]; exact a2⟩
  | ndopen h1 h2 x rest hs hx hs' =>
    rcases hi with ⟨a1, _⟩ | ⟨_, a2⟩
    · rw [h1] at a1; exact absurd a1 (by decide)
    · rw [hs] at a2
      have hrest : rest = [] := by
        cases rest with
        | nil => rfl
        | cons _ _ => simp at a2
      refine Or.inl ⟨h2, [], _, _, by rw [hs', hrest]; rfl, ent_ret' _ _ (by decide), fun z hz => by cases hz⟩

theorem inv_runM (cfg : Cfg) (buf : Bytes) : ∀ (l : List (Nat × Nat)) (m m' : M),
    runM cfg buf m l = some m' → Inv m → Inv m'
  | [], m, m', h, hi => by simp only [runM, Option.some.injEq] at h; subst h; exact hi
  | (p, pk) :: r, m, m', h, hi => by
    simp only [runM] at h
    cases hs : m.step cfg buf p pk with
    | none => rw [hs] at h; cases h
    | some m1 =>
      rw [hs] at h
      exact inv_runM cfg buf r m1 m' h (inv_step hs hi)

theorem runM_append (cfg : Cfg) (buf : Bytes) : ∀ (l1 l2 : List (Nat × Nat)) (m : M),
    runM cfg buf m (l1 ++ l2) = (runM cfg buf m l1).bind (fun m1 => runM cfg buf m1 l2)
  | [], l2, m => by simp [runM]
  | (p, pk) :: r, l2, m => by
    simp only [List.cons_append, runM]
    cases m.step cfg buf p pk with
    | none => rfl
    | some m1 => exact runM_append cfg buf r l2 m1

theorem cnt_mono {p q : Nat} (h : p ≤ q) : E.c p ≤ E.c q := by
  obtain ⟨k, rfl⟩ : ∃ k, q = p + k := ⟨q - p, by omega⟩
  clear h
  induction k with
  | zero => exact Nat.le_refl _
  | succ k ih =>
    have h2 := E.SF.cnt_succ (p + k)
    show cnt E.nd E.msg p ≤ cnt E.nd E.msg (p + (k + 1))
    rw [show p + (k + 1) = p + k + 1 by omega, h2]
    have : cnt E.nd E.msg p ≤ cnt E.nd E.msg (p + k) := ih
    omega

/-- fewer bytes left in the window than containers to close -/
theorem dead_by_depth {a e p : Nat} (W : Win E a e) (ha : a ≤ p) (hp : p ≤ e) {m : M}
    (hic : InCont m.st) (hss : StackShape m.stack) (hD : (e - p) + 2 ≤ m.stack.length) : Dead E m (E.c p) := by
  by_cases hes : e = E.msg.size
  · intro G
    cases hr : runM E.cfg E.msg m (E.L.drop (E.c p)) with
    | none => rfl
    | some m' =>
      have h1 := runM_stack_len _ _ _ _ _ hr
      have h2 : (E.L.drop (E.c p)).length ≤ e - p := by
        rw [List.length_drop, L_len, ← E.SF.cnt_size]
        have := cnt_diff (E := E) p (e - p)
        rw [show p + (e - p) = e by omega, hes] at this
        show cnt E.nd E.msg E.msg.size - _ ≤ _
        have h3 : E.c E.msg.size = cnt E.nd E.msg E.msg.size := rfl
        omega
      simp only [Option.bind_some]
      exact finish_none_of_len (by omega)
  · have hlt : e < E.msg.size := by have := W.he; omega
    obtain ⟨hnd, hbe⟩ : E.nd = true ∧ E.b e = 10 := by
      rcases W.stop with h | h
      · exact absurd h hes
      · exact h
    intro G
    -- the line feed at `e` is an index
    have hem : E.em e = true := by
      rcases nl_raw E.nd E.msg e hnd hlt hbe with h | h
      · exact h
      · have := E.SF.errMono (e + 1) E.msg.size (by omega) h
        have h2 := G.err
        rw [show E.err E.msg.size = (σ E.nd E.msg E.msg.size).err from rfl, this] at h2
        cases h2
    obtain ⟨pk, d1, _, _⟩ := drop_at hlt hem
    -- split the remaining pairs at the line feed
    have hce : E.c p ≤ E.c e := cnt_mono hp
    have hsplit : E.L.drop (E.c p) = (E.L.drop (E.c p)).take (E.c e - E.c p) ++ E.L.drop (E.c e) := by
      conv => lhs; rw [← List.take_append_drop (E.c e - E.c p) (E.L.drop (E.c p))]
      rw [List.drop_drop]
      congr 2; omega
    rw [hsplit, runM_append]
    cases hr : runM E.cfg E.msg m ((E.L.drop (E.c p)).take (E.c e - E.c p)) with
    | none => rfl
    | some m1 =>
      simp only [Option.bind_some]
      have h1 := runM_stack_len _ _ _ _ _ hr
      have h2 : ((E.L.drop (E.c p)).take (E.c e - E.c p)).length ≤ e - p := by
        rw [List.length_take]
        have := cnt_diff (E := E) p (e - p)
        rw [show p + (e - p) = e by omega] at this
        have : E.c e - E.c p ≤ e - p := by omega
        exact Nat.le_trans (Nat.min_le_left _ _) this
      have hinv := inv_runM _ _ _ _ _ hr (Or.inl ⟨hic, hss⟩)
      have hic1 : InCont m1.st := by
        rcases hinv with ⟨h, _⟩ | ⟨_, h⟩
        · exact h
        · omega
      rw [d1]
      simp [runM, fail_nl hic1 hbe]

/-! ## the ghost document -/

/-- ghost with its frame list replaced -/
def withF (g : Ghost) (F : List Frame) : Ghost := { g with frames := F }

theorem withF_self (g : Ghost) : withF g g.frames = g := by cases g; rfl
theorem withF_withF (g : Ghost) (F F' : List Frame) : withF (withF g F) F' = withF g F' := rfl
theorem openArr_eq (g : Ghost) (L : Nat) : g.openArr L = withF g (.arr L [] :: g.frames) := rfl
theorem openObj_eq (g : Ghost) (L : Nat) : g.openObj L = withF g (.obj L [] none :: g.frames) := rfl
theorem addVal_arr (g : Ghost) (pos : Nat) (rev : List LVal) (fs : List Frame) (lv : LVal) :
    (withF g (.arr pos rev :: fs)).addVal lv = withF g (.arr pos (lv :: rev) :: fs) := rfl
theorem close_arr (g : Ghost) (pos : Nat) (rev : List LVal) (fs : List Frame) (L : Nat) :
    (withF g (.arr pos rev :: fs)).close L = (withF g fs).addVal (.arr pos (L + 1) (toLVals rev.reverse)) := rfl
theorem setKey_obj (g : Ghost) (pos : Nat) (rev : List (Nat × List UInt8 × LVal)) (k0 : Option (Nat × List UInt8))
    (fs : List Frame) (pk : Nat) (key : List UInt8) :
    (withF g (.obj pos rev k0 :: fs)).setKey pk key = withF g (.obj pos rev (some (pk, key)) :: fs) := rfl
theorem addVal_obj (g : Ghost) (pos : Nat) (rev : List (Nat × List UInt8 × LVal)) (pk : Nat) (key : List UInt8)
    (fs : List Frame) (lv : LVal) :
    (withF g (.obj pos rev (some (pk, key)) :: fs)).addVal lv = withF g (.obj pos ((pk, key, lv) :: rev) none :: fs) := rfl
theorem close_obj (g : Ghost) (pos : Nat) (rev : List (Nat × List UInt8 × LVal)) (k0 : Option (Nat × List UInt8))
    (fs : List Frame) (L : Nat) :
    (withF g (.obj pos rev k0 :: fs)).close L = (withF g fs).addVal (.obj pos (L + 1) (toLMems rev.reverse)) := rfl

theorem erase_toLVals : ∀ (l : List LVal) (l' : List Spec.JVal), l.map erase = l'.map ofSpec →
    eraseVals (toLVals l) = ofSpecList l'
  | [], [], _ => by simp [toLVals, eraseVals, ofSpecList]
  | [], _ :: _, h => by simp at h
  | _ :: _, [], h => by simp at h
  | x :: l, y :: l', h => by
    simp only [List.map_cons, List.cons.injEq] at h
    simp only [toLVals, eraseVals, ofSpecList, h.1, erase_toLVals l l' h.2]

theorem erase_toLMems : ∀ (l : List (Nat × List UInt8 × LVal)) (l' : List (List UInt8 × Spec.JVal)),
    l.map (fun x => (x.2.1, erase x.2.2)) = l'.map (fun y => (y.1, ofSpec y.2)) →
    eraseMems (toLMems l) = ofSpecMems l'
  | [], [], _ => by simp [toLMems, eraseMems, ofSpecMems]
  | [], _ :: _, h => by simp at h
  | _ :: _, [], h => by simp at h
  | (pk, k, v) :: l, (k', v') :: l', h => by
    simp only [List.map_cons, List.cons.injEq, Prod.mk.injEq] at h
    simp only [toLMems, eraseMems, ofSpecMems, h.1.1, h.1.2, erase_toLMems l l' h.2]

theorem erase_arr (pos fin : Nat) (rev : List LVal) (acc : List Spec.JVal) (h : rev.map erase = acc.map ofSpec) :
    erase (.arr pos fin (toLVals rev.reverse)) = ofSpec (.arr acc.reverse) := by
  simp only [erase, ofSpec]
  rw [erase_toLVals rev.reverse acc.reverse (by rw [List.map_reverse, List.map_reverse, h])]

theorem erase_obj (pos fin : Nat) (rev : List (Nat × List UInt8 × LVal)) (acc : List (List UInt8 × Spec.JVal))
    (h : rev.map (fun x => (x.2.1, erase x.2.2)) = acc.map (fun y => (y.1, ofSpec y.2))) :
    erase (.obj pos fin (toLMems rev.reverse)) = ofSpec (.obj acc.reverse) := by
  simp only [erase, ofSpec]
  rw [erase_toLMems rev.reverse acc.reverse (by rw [List.map_reverse, List.map_reverse, h])]

/-! ## the three simulation statements -/

/-- the last index before `p'` is a closing brace or bracket at `p' - 1` -/
def ClosedAt (E : Env) (p' : Nat) : Prop :=
  ∃ q, p' = q + 1 ∧ q < E.msg.size ∧ E.em q = true ∧ (E.b q = 125 ∨ E.b q = 93)

/-- the container whose stack entry is `ent` was consumed up to `p'`; `g0`/`fs` = the ghost outside the container -/
def ContAcc (E : Env) (e p : Nat) (m : M) (g g0 : Ghost) (fs : List Frame) (ent : UInt64) (stk : List UInt64)
    (v : Spec.JVal) (rest : List UInt8) : Prop :=
  ∃ p' m' lv, rest = E.seg e p' ∧ p < p' ∧ p' ≤ e ∧
    run E m g (E.c p) = run E m' ((withF g0 fs).addVal lv) (E.c p') ∧ erase lv = ofSpec v ∧ E.Rdy p' ∧
    E.err p' = E.err p ∧ m'.st = retSt ent ∧ m'.stack = stk ∧ E.c p < E.c p' ∧ Prog E m p m' p' ∧ ClosedAt E p'

def ValueSim (E : Env) (a e fuel : Nat) : Prop :=
  ∀ (p : Nat) (m : M) (g : Ghost), a ≤ p → p < e → E.Rdy p → Spec.isWs (E.b p) = false →
    (e - p) + 3 ≤ fuel + m.stack.length → IsValSt m.st (E.b p) → StackShape m.stack → MOK E m p →
    match Spec.value fuel (E.seg e p) with
    | .acc v rest => ValAcc E e p m g v rest
    | .rej => Dead E m (E.c p)
    | .out => True

def ElemsSim (E : Env) (a e fuel : Nat) : Prop :=
  ∀ (p : Nat) (m : M) (g0 : Ghost) (acc : List Spec.JVal) (first : Bool) (pos : Nat) (rev : List LVal)
    (fs : List Frame) (ent : UInt64) (stk : List UInt64),
    a ≤ p → p ≤ e → E.Rdy p → (p < e → Spec.isWs (E.b p) = false) →
    (e - p) + 4 ≤ fuel + m.stack.length → m.st = (if first then St.arrBegin else St.arrValue) →
    m.stack = ent :: stk → StackShape m.stack → MOK E m p → rev.map erase = acc.map ofSpec →
    match Spec.elements fuel (E.seg e p) acc first with
    | .acc v rest => ContAcc E e p m (withF g0 (.arr pos rev :: fs)) g0 fs ent stk v rest
    | .rej => Dead E m (E.c p)
    | .out => True

def MembersSim (E : Env) (a e fuel : Nat) : Prop :=
  ∀ (p : Nat) (m : M) (g0 : Ghost) (acc : List (List UInt8 × Spec.JVal)) (first : Bool) (pos : Nat)
    (rev : List (Nat × List UInt8 × LVal)) (fs : List Frame) (ent : UInt64) (stk : List UInt64),
    a ≤ p → p ≤ e → E.Rdy p → (p < e → Spec.isWs (E.b p) = false) →
    (e - p) + 4 ≤ fuel + m.stack.length → m.st = (if first then St.objBegin else St.objKeyAfterComma) →
    m.stack = ent :: stk → StackShape m.stack → MOK E m p →
    rev.map (fun x => (x.2.1, erase x.2.2)) = acc.map (fun y => (y.1, ofSpec y.2)) →
    match Spec.members fuel (E.seg e p) acc first with
    | .acc v rest => ContAcc E e p m (withF g0 (.obj pos rev none :: fs)) g0 fs ent stk v rest
    | .rej => Dead E m (E.c p)
    | .out => True

/-! ## helpers -/

theorem skip_to {a e p' : Nat} (W : Win E a e) (ha : a ≤ p') (hp : p' ≤ e) (hr : E.Rdy p') {x : UInt8} {r : List UInt8}
    (h : Spec.skipWs (E.seg e p') = x :: r) :
    ∃ q, p' ≤ q ∧ q < e ∧ E.b q = x ∧ r = E.seg e (q + 1) ∧ E.Rdy q ∧ E.c q = E.c p' ∧ E.err q = E.err p' ∧
      Spec.isWs (E.b q) = false := by
  obtain ⟨q, h1, h2, h3, h4, h5, h6, h7⟩ := skipWs_sim W (e - p') p' rfl ha hp hr
  rw [h3] at h
  have hq : q < e := by
    apply Nat.lt_of_not_le; intro hle
    rw [seg_nil hle] at h; cases h
  rw [seg_cons hq W.he] at h
  obtain ⟨k1, k2⟩ := List.cons.inj h
  exact ⟨q, h1, hq, k1, k2.symm, h4, h5, h6, h7 hq⟩

/-- `skipWs` lands at the window end -/
theorem skip_nil {a e p' : Nat} (W : Win E a e) (ha : a ≤ p') (hp : p' ≤ e) (hr : E.Rdy p')
    (h : Spec.skipWs (E.seg e p') = []) : E.Rdy e ∧ E.c e = E.c p' ∧ E.err e = E.err p' := by
  obtain ⟨q, h1, h2, h3, h4, h5, h6, h7⟩ := skipWs_sim W (e - p') p' rfl ha hp hr
  rw [h3] at h
  have hq : q = e := by
    apply Nat.le_antisymm h2
    apply Nat.le_of_not_lt; intro hlt
    rw [seg_cons hlt W.he] at h; cases h
  subst hq
  exact ⟨h4, h5, h6⟩

theorem close_step {a e q : Nat} (W : Win E a e) (hq : q < e) (hr : E.Rdy q) {m : M} {ent : UInt64}
    {stk : List UInt64} (g : Ghost)
    (hb : (E.b q = 93 ∧ (m.st = .arrBegin ∨ m.st = .arrContinue)) ∨ (E.b q = 125 ∧ (m.st = .objBegin ∨ m.st = .objContinue)))
    (hs : m.stack = ent :: stk) (hok : StkOK m) :
    ∃ m', run E m g (E.c q) = run E m' (g.close m.tape.size) (E.c (q + 1)) ∧ m'.st = retSt ent ∧ m'.stack = stk ∧
      m'.tape.size = m.tape.size + 1 ∧ E.Rdy (q + 1) ∧ E.err (q + 1) = E.err q ∧ E.c (q + 1) = E.c q + 1 ∧
      ClosedAt E (q + 1) := by
  have hqs : q < E.msg.size := Nat.lt_of_lt_of_le hq W.he
  have hst : isStructByte (E.b q) = true := by
    rcases hb with ⟨h, _⟩ | ⟨h, _⟩ <;> rw [h, classify_struct] <;> decide
  have hloc : locOf ent < m.tape.size := hok ent (by rw [hs]; simp)
  rcases hb with ⟨hb, hm⟩ | ⟨hb, hm⟩
  · obtain ⟨m', k1, k2, k3, k4⟩ := scopeEnd_ok m 93 ent stk hs hloc
    obtain ⟨r1, r2, r3, r4⟩ := struct_step (g := g) (g2 := g.close m.tape.size) hqs hr hst
      (fun pk => by rw [step_close_arr hm hb]; exact k1) (fun pk => gstep_close_arr g hm hb)
    exact ⟨m', r1, k4, k2, k3, r2, r3, r4, q, rfl, hqs, E.SF.tokStart q hqs hr (struct_not_ws _ hst), Or.inr hb⟩
  · obtain ⟨m', k1, k2, k3, k4⟩ := scopeEnd_ok m 125 ent stk hs hloc
    obtain ⟨r1, r2, r3, r4⟩ := struct_step (g := g) (g2 := g.close m.tape.size) hqs hr hst
      (fun pk => by rw [step_close_obj hm hb]; exact k1) (fun pk => gstep_close_obj g hm hb)
    exact ⟨m', r1, k4, k2, k3, r2, r3, r4, q, rfl, hqs, E.SF.tokStart q hqs hr (struct_not_ws _ hst), Or.inl hb⟩

theorem retSt_ent {n : Nat} (hn : n < 2^62) (s : St) : retSt (ent n (retCode s)) = contSt s := by
  have hr : retCode s < 4 := by cases s <;> decide
  unfold retSt
  rw [ent_ret hn hr]
  cases s <;> rfl

theorem retCode_cases (s : St) : retCode s = cretAddressObjectConst ∨ retCode s = cretAddressArrayConst := by
  cases s <;> simp [retCode]

/-- opening a container in a value state: the machine pushes the return entry and the inner loop runs -/
theorem open_sim {a e p : Nat} (W : Win E a e) (hap : a ≤ p) (hpe : p < e) (hr : E.Rdy p) {m : M} (g : Ghost)
    (hst : IsValSt m.st (E.b p)) (hss : StackShape m.stack) (hok : MOK E m p)
    (c : UInt8) (hc : E.b p = c) (nst : St) (F0 : Frame)
    (hcs : (c = 123 ∧ nst = .objBegin ∧ F0 = .obj m.tape.size [] none) ∨ (c = 91 ∧ nst = .arrBegin ∧ F0 = .arr m.tape.size []))
    (inner : Nat → Spec.Out Spec.JVal)
    (hinner : ∀ p1 m1, a ≤ p1 → p + 1 ≤ p1 → p1 ≤ e → E.Rdy p1 → (p1 < e → Spec.isWs (E.b p1) = false) →
      m1.st = nst → m1.stack = ent m.tape.size (retCode m.st) :: m.stack → StackShape m1.stack → MOK E m1 p1 →
      match inner p1 with
      | .acc v rest => ContAcc E e p1 m1 (withF g (F0 :: g.frames)) g g.frames (ent m.tape.size (retCode m.st)) m.stack v rest
      | .rej => Dead E m1 (E.c p1)
      | .out => True) :
    ∃ p1, p < p1 ∧ Spec.skipWs (E.seg e (p + 1)) = E.seg e p1 ∧
      match inner p1 with
      | .acc v rest => ValAcc E e p m g v rest
      | .rej => Dead E m (E.c p)
      | .out => True := by
  have hps : p < E.msg.size := Nat.lt_of_lt_of_le hpe W.he
  have htl := tape_lt hok (Nat.le_of_lt hps)
  have hstr : isStructByte (E.b p) = true := by
    rcases hcs with ⟨h, _, _⟩ | ⟨h, _, _⟩ <;> rw [hc, h, classify_struct] <;> decide
  let m1 : M := { (m.push (retCode m.st)).writeTape 0 c with st := nst }
  have hstep : ∀ pk, m.step E.cfg E.msg p pk = some m1 := by
    intro pk
    rcases hcs with ⟨h1, h2, _⟩ | ⟨h1, h2, _⟩
    · subst h1; subst h2
      exact step_val_open hst (value_obj m E.cfg E.msg p pk (retCode m.st) hc)
    · subst h1; subst h2
      exact step_val_open hst (value_arr m E.cfg E.msg p pk (retCode m.st) hc)
  have hg : ∀ pk, gstep m g E.msg p pk = withF g (F0 :: g.frames) := by
    intro pk
    rw [gstep_value m g E.msg p pk hst]
    have hcb : E.msg.getD p 0 = c := hc
    rcases hcs with ⟨h1, _, h3⟩ | ⟨h1, _, h3⟩
    · subst h1; rw [h3]; simp [gvalue, hcb]; rfl
    · subst h1; rw [h3]; simp [gvalue, hcb]; rfl
  obtain ⟨r1, r2, r3, r4⟩ := struct_step (g := g) hps hr hstr hstep hg
  obtain ⟨p1, s1, s2, s3, s4, s5, s6, s7⟩ := skipWs_sim W (e - (p + 1)) (p + 1) rfl (by omega) (by omega) r2
  refine ⟨p1, by omega, s3, ?_⟩
  have hm1s : m1.stack = ent m.tape.size (retCode m.st) :: m.stack := rfl
  have hm1t : m1.tape.size = m.tape.size + 1 := by simp [m1, M.writeTape, M.push]
  have hprog : Prog E m p m1 p1 := Prog.step (by rw [s5, r4]) (by omega) (by omega)
  have hmok : MOK E m1 p1 := by
    refine hok.of_prog hprog ?_
    intro x hx
    rw [hm1s] at hx
    rcases List.mem_cons.mp hx with rfl | hx
    · right; rw [ent_loc htl (by cases m.st <;> decide), hm1t]; omega
    · left; exact hx
  have hss1 : StackShape m1.stack := by
    rw [hm1s]
    refine hss.push _ ?_
    rw [ent_ret htl (by cases m.st <;> decide)]
    exact retCode_cases _
  have hI := hinner p1 m1 (by omega) s1 s2 s4 s7 rfl hm1s hss1 hmok
  have hrun : run E m g (E.c p) = run E m1 (withF g (F0 :: g.frames)) (E.c p1) := by rw [r1, s5]
  cases hin : inner p1 with
  | out => trivial
  | rej =>
    rw [hin] at hI
    exact dead_of_run hrun hI
  | acc v rest =>
    rw [hin] at hI
    obtain ⟨p', m', lv, k1, k2, k3, k4, k5, k6, k7, k8, k9, k10, k11, k12⟩ := hI
    refine ⟨p', k1, by omega, k3, Or.inl ⟨m', lv, ?_, k5, k6, ?_, ?_, k9, ?_, ?_, ?_⟩⟩
    · rw [hrun, k4, withF_self]
    · rw [k7, s6, r3]
    · rw [k8, retSt_ent htl]
    · have := hprog.1; omega
    · exact (hprog.trans k11).2.1
    · exact (hprog.trans k11).2.2

theorem all4 (f : Nat → UInt8) (a0 a1 a2 a3 : UInt8) :
    (∀ j (h : j < [a0, a1, a2, a3].length), f j = [a0, a1, a2, a3][j]) ↔ (f 0 = a0 ∧ f 1 = a1 ∧ f 2 = a2 ∧ f 3 = a3) := by
  constructor
  · intro h; exact ⟨h 0 (by simp), h 1 (by simp), h 2 (by simp), h 3 (by simp)⟩
  · rintro ⟨h0, h1, h2, h3⟩ j hj
    have : j = 0 ∨ j = 1 ∨ j = 2 ∨ j = 3 := by simp at hj; omega
    rcases this with rfl | rfl | rfl | rfl <;> simpa

theorem all5 (f : Nat → UInt8) (a0 a1 a2 a3 a4 : UInt8) :
    (∀ j (h : j < [a0, a1, a2, a3, a4].length), f j = [a0, a1, a2, a3, a4][j]) ↔
      (f 0 = a0 ∧ f 1 = a1 ∧ f 2 = a2 ∧ f 3 = a3 ∧ f 4 = a4) := by
  constructor
  · intro h; exact ⟨h 0 (by simp), h 1 (by simp), h 2 (by simp), h 3 (by simp), h 4 (by simp)⟩
  · rintro ⟨h0, h1, h2, h3, h4⟩ j hj
    have : j = 0 ∨ j = 1 ∨ j = 2 ∨ j = 3 ∨ j = 4 := by simp at hj; omega
    rcases this with rfl | rfl | rfl | rfl | rfl <;> simpa

theorem lit_true : "true".toUTF8.data.toList = [116, 114, 117, 101] := by decide
theorem lit_false : "false".toUTF8.data.toList = [102, 97, 108, 115, 101] := by decide
theorem lit_null : "null".toUTF8.data.toList = [110, 117, 108, 108] := by decide

/-! ## one more unit of fuel: values -/

theorem value_step {a e f : Nat} (W : Win E a e) (IHe : ElemsSim E a e f) (IHm : MembersSim E a e f) :
    ValueSim E a e (f + 1) := by
  intro p m g hap hpe hr hnw hfuel hst hss hok
  have hps : p < E.msg.size := Nat.lt_of_lt_of_le hpe W.he
  have hcons := seg_cons (E := E) hpe W.he
  have hnwb : isWsByte (E.b p) = false := by rw [← isWs_eq]; exact hnw
  obtain ⟨pk0, hd0, _, _⟩ := tok_at hps hr hnwb
  rw [hcons, Spec.value]
  by_cases h123 : (E.b p == 123) = true
  · rw [if_pos h123]
    have hb : E.b p = 123 := by simpa using h123
    obtain ⟨p1, k1, k2, k3⟩ := open_sim W hap hpe hr g hst hss hok 123 hb .objBegin (.obj m.tape.size [] none)
      (Or.inl ⟨rfl, rfl, rfl⟩) (fun p1 => Spec.members f (E.seg e p1) [] true)
      (fun p1 m1 h1 h2 h3 h4 h5 h6 h7 h8 h9 =>
        IHm p1 m1 g [] true m.tape.size [] g.frames _ _ h1 h3 h4 h5 (by rw [h7]; simp only [List.length_cons]; omega)
          (by rw [h6]; rfl) h7 h8 h9 rfl)
    rw [k2]; exact k3
  rw [if_neg h123]
  by_cases h91 : (E.b p == 91) = true
  · rw [if_pos h91]
    have hb : E.b p = 91 := by simpa using h91
    obtain ⟨p1, k1, k2, k3⟩ := open_sim W hap hpe hr g hst hss hok 91 hb .arrBegin (.arr m.tape.size [])
      (Or.inr ⟨rfl, rfl, rfl⟩) (fun p1 => Spec.elements f (E.seg e p1) [] true)
      (fun p1 m1 h1 h2 h3 h4 h5 h6 h7 h8 h9 =>
        IHe p1 m1 g [] true m.tape.size [] g.frames _ _ h1 h3 h4 h5 (by rw [h7]; simp only [List.length_cons]; omega)
          (by rw [h6]; rfl) h7 h8 h9 rfl)
    rw [k2]; exact k3
  rw [if_neg h91]
  by_cases h34 : (E.b p == 34) = true
  · rw [if_pos h34, ← hcons]
    have hb : E.b p = 34 := by simpa using h34
    have hb' : E.msg.getD p 0 = 34 := hb
    cases hsb : Spec.stringBody ((E.seg e p).length + 1) (E.seg e (p + 1)) [] false with
    | out => trivial
    | rej =>
      obtain ⟨pk, r, k1, k2⟩ := str_rej W hap hr hpe hb (by rw [seg_length W.he, seg_length W.he]; omega) hsb
      exact dead_of_step_none' k1 (fun G => step_val_none hst (by
        rw [value_str m E.cfg E.msg p pk _ hb', parseString_none _ _ _ _ _ (k2 G)]; rfl))
    | acc dec rest =>
      obtain ⟨p', pk, k1, k2, k3, k4, k5, k6, k7, k8⟩ := str_acc W hap hr hpe hb hsb
      refine ⟨p', k1, by omega, k3, ?_⟩
      rcases k8 with ⟨cl, hdec⟩ | ⟨hnm, hnone⟩
      · left
        obtain ⟨m1, q1, q2, q3, q4⟩ := parseString_ok m E.cfg E.msg p pk _ _ hdec
        have hstep := step_val_some hst (m1 := m1) (pk := pk) (by rw [value_str m E.cfg E.msg p pk _ hb', q1]; rfl)
        refine ⟨{ m1 with st := contSt m.st }, .str dec m.tape.size, ?_, by simp [erase, ofSpec], k4, k5, rfl, q3,
          by omega, by simp only; omega, by simp only; omega⟩
        rw [run_step g k7 hstep, gstep_value m g E.msg p pk hst]
        have : gvalue m g E.msg p pk = g.addVal (.str dec m.tape.size) := by
          simp [gvalue, hb', hdec]
        rw [this]; rfl
      · right
        refine ⟨?_, dead_of_step_none' k7 (fun G => step_val_none hst (by
          rw [value_str m E.cfg E.msg p pk _ hb', parseString_none _ _ _ _ _ (hnone G)]; rfl))⟩
        rintro ⟨x, r, hx, hx3⟩
        have := hnm x r hx
        rw [markup_spec] at this
        rcases hx3 with rfl | rfl | rfl <;> exact absurd this (by decide)
  rw [if_neg h34]
  by_cases h116 : (E.b p == 116) = true
  · rw [if_pos h116, ← hcons, lit_true]
    have hb : E.msg.getD p 0 = 116 := by simpa using h116
    have := atom_sim W hap hr hpe hnwb [116, 114, 117, 101] (by decide) (by decide +kernel) (isValidTrueAtom E.msg p)
      (by rw [validTrue_iff, all4 (fun j => E.b (p + j))]; rfl) g hst (.bool true) (.bool true m.tape.size) rfl 116
      (fun pk => value_true m E.cfg E.msg p pk _ hb) (fun pk => by simp [gvalue, hb])
    cases hl : Spec.literal [116, 114, 117, 101] (Spec.JVal.bool true) (E.seg e p) with
    | out => trivial
    | rej => rw [hl] at this; exact this
    | acc v' rest => rw [hl] at this; obtain ⟨rfl, h2⟩ := this; exact h2
  rw [if_neg h116]
  by_cases h102 : (E.b p == 102) = true
  · rw [if_pos h102, ← hcons, lit_false]
    have hb : E.msg.getD p 0 = 102 := by simpa using h102
    have := atom_sim W hap hr hpe hnwb [102, 97, 108, 115, 101] (by decide) (by decide +kernel) (isValidFalseAtom E.msg p)
      (by rw [validFalse_iff, all5 (fun j => E.b (p + j))]; rfl) g hst (.bool false) (.bool false m.tape.size) rfl 102
      (fun pk => value_false m E.cfg E.msg p pk _ hb) (fun pk => by simp [gvalue, hb])
    cases hl : Spec.literal [102, 97, 108, 115, 101] (Spec.JVal.bool false) (E.seg e p) with
    | out => trivial
    | rej => rw [hl] at this; exact this
    | acc v' rest => rw [hl] at this; obtain ⟨rfl, h2⟩ := this; exact h2
  rw [if_neg h102]
  by_cases h110 : (E.b p == 110) = true
  · rw [if_pos h110, ← hcons, lit_null]
    have hb : E.msg.getD p 0 = 110 := by simpa using h110
    have := atom_sim W hap hr hpe hnwb [110, 117, 108, 108] (by decide) (by decide +kernel) (isValidNullAtom E.msg p)
      (by rw [validNull_iff, all4 (fun j => E.b (p + j))]; rfl) g hst .null (.null m.tape.size) rfl 110
      (fun pk => value_null m E.cfg E.msg p pk _ hb) (fun pk => by simp [gvalue, hb])
    cases hl : Spec.literal [110, 117, 108, 108] Spec.JVal.null (E.seg e p) with
    | out => trivial
    | rej => rw [hl] at this; exact this
    | acc v' rest => rw [hl] at this; obtain ⟨rfl, h2⟩ := this; exact h2
  rw [if_neg h110]
  by_cases hnum : (E.b p == 45) = true ∨ Spec.isDigit (E.b p) = true
  · rw [if_pos hnum, ← hcons]
    have hc : E.b p = 45 ∨ SJ.isDigit (E.b p) = true := by
      rcases hnum with h | h
      · left; simpa using h
      · right; exact h
    have := num_sim W hap hr hpe hc g hst
    cases hnl : Spec.numberLit (E.seg e p) with
    | none => rw [hnl] at this; exact this
    | some lr =>
      obtain ⟨l, rest⟩ := lr
      rw [hnl] at this
      dsimp only at this ⊢
      cases hnv : Spec.numValue l with
      | none => rw [hnv] at this; exact this
      | some n => rw [hnv] at this; exact this
  rw [if_neg hnum]
  apply dead_of_step_none hd0
  apply step_val_none hst
  apply value_bad
  intro hbad
  have e1 : ¬ E.msg.getD p 0 = 34 := by simpa using h34
  have e2 : ¬ E.msg.getD p 0 = 116 := by simpa using h116
  have e3 : ¬ E.msg.getD p 0 = 102 := by simpa using h102
  have e4 : ¬ E.msg.getD p 0 = 110 := by simpa using h110
  have e7 : ¬ E.msg.getD p 0 = 123 := by simpa using h123
  have e8 : ¬ E.msg.getD p 0 = 91 := by simpa using h91
  rcases hbad with h | h | h | h | h | h | h | h
  · exact e1 h
  · exact e2 h
  · exact e3 h
  · exact e4 h
  · exact hnum (Or.inl (by simpa using h))
  · exact hnum (Or.inr h)
  · exact e7 h
  · exact e8 h

end SJ.TokenSim
