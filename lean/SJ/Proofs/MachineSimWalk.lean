import SJ.Proofs.MachineSimND
set_option linter.unusedVariables false
set_option linter.unusedSimpArgs false
/-
A walk over a line that is *not* guided by the specification (needed for lines the specification calls `outside`,
when a later line is rejected): token by token, either the machine fails, or the scanner is between tokens again
after the token the machine has just accepted.  At the end of the line the machine has failed or is back in
`startContinue` with the root entry only.
-/
namespace SJ.TokenSim
open SJ SJ.ParseDefs SJ.Generated SJ.Layout SJ.Tables SJ.MachineSim SJ.NumberProofs

variable {E : Env}

structure WInv (E : Env) (m : M) (p : Nat) : Prop where
  inv : Inv m
  stk : StkOK m
  tape : m.tape.size ≤ 3 * E.c p + 1

theorem retSt_cases (x : UInt64) : InCont (retSt x) ∨ retSt x = .startContinue := by
  unfold retSt
  split
  · left; icd
  · split
    · left; icd
    · right; rfl

/-- one step from a container state keeps the walk invariant -/
theorem winv_step {m m2 : M} {q q' pk : Nat} (h : WInv E m q) (hic : InCont m.st) (hq : q ≤ E.msg.size)
    (hs : m.step E.cfg E.msg q pk = some m2) (hc : E.c q' = E.c q + 1) :
    WInv E m2 q' ∧ (InCont m2.st ∨ m2.st = .startContinue) ∧ Prog E m q m2 q' := by
  have htl : m.tape.size < 2^62 := by
    have h1 := h.tape
    have h2 := cnt_le_self E.nd E.msg q
    have h3 : E.msg.size < 2^50 := E.hsz
    have : E.c q ≤ q := h2
    show m.tape.size < 4611686018427387904
    omega
  obtain ⟨t1, t2, k⟩ := step_cases hs
  have hprog : Prog E m q m2 q' := Prog.step hc t1 t2
  refine ⟨⟨inv_step hs h.inv, ?_, by have := h.tape; have := hprog.2.2; omega⟩, ?_, hprog⟩
  · intro x hx
    cases k with
    | keep _ _ hst => rw [hst] at hx; exact Nat.lt_of_lt_of_le (h.stk x hx) t1
    | opn _ _ r hr hst ht =>
      rw [hst] at hx
      rcases List.mem_cons.mp hx with rfl | hx
      · rw [ent_loc htl (by rcases hr with rfl | rfl <;> decide), ht]; omega
      · exact Nat.lt_of_lt_of_le (h.stk x hx) t1
    | cls _ y hst _ => exact Nat.lt_of_lt_of_le (h.stk x (by rw [hst]; exact List.mem_cons_of_mem _ hx)) t1
    | root h1 _ _ => rw [h1] at hic; exact absurd hic (by decide)
    | sc h1 _ _ => rw [h1] at hic; exact absurd hic (by decide)
    | ndnl h1 _ _ => rw [h1] at hic; exact absurd hic (by decide)
    | ndopen h1 _ _ _ _ _ _ => rw [h1] at hic; exact absurd hic (by decide)
  · cases k with
    | keep _ h2 _ => exact Or.inl h2
    | opn _ h2 _ _ _ _ => exact Or.inl h2
    | cls _ y _ h2 => rw [h2]; exact retSt_cases y
    | root h1 _ _ => rw [h1] at hic; exact absurd hic (by decide)
    | sc h1 _ _ => rw [h1] at hic; exact absurd hic (by decide)
    | ndnl h1 _ _ => rw [h1] at hic; exact absurd hic (by decide)
    | ndopen h1 _ _ _ _ _ _ => rw [h1] at hic; exact absurd hic (by decide)

theorem struct_bytes : ∀ b : UInt8, isStructByte b = false →
    b ≠ 44 ∧ b ≠ 58 ∧ b ≠ 91 ∧ b ≠ 93 ∧ b ≠ 123 ∧ b ≠ 125 := forall_u8 (by decide +kernel)

/-- a non-structural, non-quote token the machine accepts is a well-formed scalar: the scanner is between tokens after it -/
theorem scalar_inv {a e q : Nat} (W : Win E a e) (hq : q < e) (hr : E.Rdy q) (hnw : isWsByte (E.b q) = false)
    (hns : isStructByte (E.b q) = false) (hnq : E.b q ≠ 34) {m m2 : M} {pk : Nat} (hic : InCont m.st)
    (hs : m.step E.cfg E.msg q pk = some m2) :
    ∃ q', q < q' ∧ q' ≤ e ∧ E.Rdy q' ∧ E.c q' = E.c q + 1 ∧ E.err q' = E.err q := by
  obtain ⟨s44, s58, s91, s93, s123, s125⟩ := struct_bytes _ hns
  have hqs : q < E.msg.size := Nat.lt_of_lt_of_le hq W.he
  -- only a value state can accept such a byte
  have hval : IsValSt m.st (E.b q) := by
    cases hst : m.st with
    | rootStart => rw [hst] at hic; exact absurd hic (by decide)
    | startContinue => rw [hst] at hic; exact absurd hic (by decide)
    | ndSkip => rw [hst] at hic; exact absurd hic (by decide)
    | objBegin => rw [fail_objBegin hst hnq s125] at hs; cases hs
    | objKeyColon => rw [fail_colon hst s58] at hs; cases hs
    | objContinue => rw [fail_objCont hst s44 s125] at hs; cases hs
    | objKeyAfterComma => rw [fail_keyAfterComma hst hnq] at hs; cases hs
    | arrContinue => rw [fail_arrCont hst s44 s93] at hs; cases hs
    | objValue => exact Or.inl rfl
    | arrValue => exact Or.inr (Or.inl rfl)
    | arrBegin => exact Or.inr (Or.inr ⟨rfl, s93⟩)
  rw [step_value m E.cfg E.msg q pk hval] at hs
  have hvs : ∃ mo, m.value E.cfg E.msg q pk (retCode m.st) = some mo := by
    cases hv : m.value E.cfg E.msg q pk (retCode m.st) with
    | none => rw [hv] at hs; cases hs
    | some mo => exact ⟨mo, rfl⟩
  obtain ⟨mo, hv⟩ := hvs
  have hb' : ∀ k : UInt8, E.b q = k → E.msg.getD q 0 = k := fun k h => h
  -- which byte
  by_cases h116 : E.b q = 116
  · rw [value_true m E.cfg E.msg q pk _ (hb' _ h116)] at hv
    have hvalid : isValidTrueAtom E.msg q = true := by
      cases hh : isValidTrueAtom E.msg q with
      | true => rfl
      | false => rw [hh] at hv; cases hv
    obtain ⟨g1, ⟨b0, b1, b2, b3⟩, g3⟩ := (validTrue_iff _ _).mp hvalid
    have hplain : ∀ j, q ≤ j → j < q + 4 → plainByte (E.b j) = true := by
      intro j hj1 hj2
      have : j = q ∨ j = q + 1 ∨ j = q + 2 ∨ j = q + 3 := by omega
      rcases this with h | h | h | h <;> rw [h]
      · rw [show E.b q = 116 from b0]; decide +kernel
      · rw [show E.b (q + 1) = 114 from b1]; decide +kernel
      · rw [show E.b (q + 2) = 117 from b2]; decide +kernel
      · rw [show E.b (q + 3) = 101 from b3]; decide +kernel
    obtain ⟨r1, r2, r3, _⟩ := scalar_scan hr (show q < q + 4 by omega) (by omega) hplain
      (Or.inr ((follow_iff _).mp g3))
    refine ⟨q + 4, by omega, ?_, r1, r3, r2⟩
    apply Nat.le_of_not_lt; intro hlt
    rcases W.stop with hs' | ⟨_, hs'⟩
    · omega
    · have : e = q + 1 ∨ e = q + 2 ∨ e = q + 3 := by omega
      rcases this with rfl | rfl | rfl
      · rw [show E.b (q + 1) = 114 from b1] at hs'; cases hs'
      · rw [show E.b (q + 2) = 117 from b2] at hs'; cases hs'
      · rw [show E.b (q + 3) = 101 from b3] at hs'; cases hs'
  by_cases h110 : E.b q = 110
  · rw [value_null m E.cfg E.msg q pk _ (hb' _ h110)] at hv
    have hvalid : isValidNullAtom E.msg q = true := by
      cases hh : isValidNullAtom E.msg q with
      | true => rfl
      | false => rw [hh] at hv; cases hv
    obtain ⟨g1, ⟨b0, b1, b2, b3⟩, g3⟩ := (validNull_iff _ _).mp hvalid
    have hplain : ∀ j, q ≤ j → j < q + 4 → plainByte (E.b j) = true := by
      intro j hj1 hj2
      have : j = q ∨ j = q + 1 ∨ j = q + 2 ∨ j = q + 3 := by omega
      rcases this with h | h | h | h <;> rw [h]
      · rw [show E.b q = 110 from b0]; decide +kernel
      · rw [show E.b (q + 1) = 117 from b1]; decide +kernel
      · rw [show E.b (q + 2) = 108 from b2]; decide +kernel
      · rw [show E.b (q + 3) = 108 from b3]; decide +kernel
    obtain ⟨r1, r2, r3, _⟩ := scalar_scan hr (show q < q + 4 by omega) (by omega) hplain
      (Or.inr ((follow_iff _).mp g3))
    refine ⟨q + 4, by omega, ?_, r1, r3, r2⟩
    apply Nat.le_of_not_lt; intro hlt
    rcases W.stop with hs' | ⟨_, hs'⟩
    · omega
    · have : e = q + 1 ∨ e = q + 2 ∨ e = q + 3 := by omega
      rcases this with rfl | rfl | rfl
      · rw [show E.b (q + 1) = 117 from b1] at hs'; cases hs'
      · rw [show E.b (q + 2) = 108 from b2] at hs'; cases hs'
      · rw [show E.b (q + 3) = 108 from b3] at hs'; cases hs'
  by_cases h102 : E.b q = 102
  · rw [value_false m E.cfg E.msg q pk _ (hb' _ h102)] at hv
    have hvalid : isValidFalseAtom E.msg q = true := by
      cases hh : isValidFalseAtom E.msg q with
      | true => rfl
      | false => rw [hh] at hv; cases hv
    obtain ⟨g1, ⟨b0, b1, b2, b3, b4⟩, g3⟩ := (validFalse_iff _ _).mp hvalid
    have hplain : ∀ j, q ≤ j → j < q + 5 → plainByte (E.b j) = true := by
      intro j hj1 hj2
      have : j = q ∨ j = q + 1 ∨ j = q + 2 ∨ j = q + 3 ∨ j = q + 4 := by omega
      rcases this with h | h | h | h | h <;> rw [h]
      · rw [show E.b q = 102 from b0]; decide +kernel
      · rw [show E.b (q + 1) = 97 from b1]; decide +kernel
      · rw [show E.b (q + 2) = 108 from b2]; decide +kernel
      · rw [show E.b (q + 3) = 115 from b3]; decide +kernel
      · rw [show E.b (q + 4) = 101 from b4]; decide +kernel
    obtain ⟨r1, r2, r3, _⟩ := scalar_scan hr (show q < q + 5 by omega) (by omega) hplain
      (Or.inr ((follow_iff _).mp g3))
    refine ⟨q + 5, by omega, ?_, r1, r3, r2⟩
    apply Nat.le_of_not_lt; intro hlt
    rcases W.stop with hs' | ⟨_, hs'⟩
    · omega
    · have : e = q + 1 ∨ e = q + 2 ∨ e = q + 3 ∨ e = q + 4 := by omega
      rcases this with rfl | rfl | rfl | rfl
      · rw [show E.b (q + 1) = 97 from b1] at hs'; cases hs'
      · rw [show E.b (q + 2) = 108 from b2] at hs'; cases hs'
      · rw [show E.b (q + 3) = 115 from b3] at hs'; cases hs'
      · rw [show E.b (q + 4) = 101 from b4] at hs'; cases hs'
  by_cases hnum : E.b q = 45 ∨ SJ.isDigit (E.b q) = true
  · rw [value_num m E.cfg E.msg q pk _ hnum] at hv
    have hstart : NumStart (E.msg.toList.drop q) := by
      refine ⟨E.b q, E.seg E.msg.size (q + 1), ?_, hnum⟩
      rw [← seg_full]; exact seg_cons hqs (Nat.le_refl _)
    have hpn := parseNumber_spec E.msg q hstart
    cases hnl : Spec.numberLit (E.msg.toList.drop q) with
    | none => rw [hnl] at hpn; rw [hpn] at hv; cases hv
    | some lr =>
      obtain ⟨l, r⟩ := lr
      rw [hnl] at hpn
      dsimp only at hpn
      by_cases hstop : Stop r
      · obtain ⟨x, hx, hshape, _⟩ := shape_of_spec hnl
        have halpha := alpha_render hx.loose
        have hpos : 0 < x.render.length := by
          rw [render_length]
          have := List.length_pos_iff.mpr hx.ne
          omega
        have hlen : x.render.length + r.length = E.msg.size - q := by
          rw [← seg_length (E := E) (e := E.msg.size) (p := q) (Nat.le_refl _), seg_full, hshape, List.length_append]
        have hbyte : ∀ j, q ≤ j → j < q + x.render.length → ∃ hh : j - q < x.render.length, E.b j = x.render[j - q] := by
          intro j hj1 hj2
          have h1 := seg_get (E := E) (e := E.msg.size) (p := q) (k := j - q) (Nat.le_refl _) (by omega)
          rw [show q + (j - q) = j by omega, seg_full, hshape, List.getElem?_append_left (by omega)] at h1
          obtain ⟨hh, h2⟩ := List.getElem?_eq_some_iff.mp h1
          exact ⟨hh, h2.symm⟩
        have hplain : ∀ j, q ≤ j → j < q + x.render.length → plainByte (E.b j) = true := by
          intro j hj1 hj2
          obtain ⟨hh, h2⟩ := hbyte j hj1 hj2
          rw [h2]
          exact alpha_plain _ (halpha _ (List.getElem_mem _))
        have hrest : r = E.msg.toList.drop (q + x.render.length) := by
          rw [← List.drop_drop, hshape, List.drop_left]
        have hf : FollowWS E (q + x.render.length) := by
          by_cases hqs' : q + x.render.length < E.msg.size
          · right
            have h1 := seg_cons (E := E) (e := E.msg.size) hqs' (Nat.le_refl _)
            rw [seg_full, ← hrest] at h1
            rcases hstop with hs' | hs'
            · rw [h1] at hs'; cases hs'
            · rw [h1] at hs'
              exact eov_follow _ (by simpa using hs')
          · left; omega
        obtain ⟨r1, r2, r3, _⟩ := scalar_scan hr (show q < q + x.render.length by omega) (by omega) hplain hf
        refine ⟨q + x.render.length, by omega, ?_, r1, r3, r2⟩
        apply Nat.le_of_not_lt; intro hlt
        rcases W.stop with hs' | ⟨_, hs'⟩
        · omega
        · obtain ⟨hh, h2⟩ := hbyte e (by omega) hlt
          have := halpha _ (List.getElem_mem hh)
          rw [← h2, hs'] at this
          exact this.2 (by decide +kernel)
      · rw [if_neg hstop] at hpn; rw [hpn] at hv; cases hv
  · exfalso
    have := value_bad m E.cfg E.msg q pk (retCode m.st) (by
      intro hbad
      rcases hbad with h | h | h | h | h | h | h | h
      · exact hnq h
      · exact h116 h
      · exact h102 h
      · exact h110 h
      · exact hnum (Or.inl h)
      · exact hnum (Or.inr h)
      · exact s123 h
      · exact s91 h)
    rw [this] at hv; cases hv

/-- the walk: from a state inside the document (or just after it) at `p` to the end of the window -/
theorem walk {a e : Nat} (W : Win E a e) : ∀ (n p : Nat) (m : M) (g : Ghost), e - p = n → a ≤ p → p ≤ e → E.Rdy p →
    WInv E m p → (InCont m.st ∨ m.st = .startContinue) →
    Dead E m (E.c p) ∨
      ∃ m' g', run E m g (E.c p) = run E m' g' (E.c e) ∧ E.Rdy e ∧ WInv E m' e ∧
        (InCont m'.st ∨ m'.st = .startContinue) ∧ Prog E m p m' e := by
  intro n
  induction n using Nat.strongRecOn with
  | ind n ih =>
    intro p m g hn hap hpe hr hw hst
    obtain ⟨q, h1, h2, h3, h4, h5, h6, h7⟩ := skipWs_sim W (e - p) p rfl hap hpe hr
    by_cases hqe : q = e
    · right
      subst hqe
      exact ⟨m, g, by rw [h5], h4, ⟨hw.inv, hw.stk, by rw [h5]; exact hw.tape⟩, hst, Prog.of_eq h5 rfl⟩
    have hq : q < e := by omega
    have hqs : q < E.msg.size := Nat.lt_of_lt_of_le hq W.he
    have hnwq : isWsByte (E.b q) = false := by rw [← isWs_eq]; exact h7 hq
    obtain ⟨pk, d1, d2, _⟩ := tok_at hqs h4 hnwq
    rw [← h5]
    by_cases hsc : m.st = .startContinue
    · left
      exact dead_of_step_none d1 (fail_sc hsc (ws_ne_nl (h7 hq)))
    have hic : InCont m.st := by
      rcases hst with h | h
      · exact h
      · exact absurd h hsc
    cases hs : m.step E.cfg E.msg q pk with
    | none => left; exact dead_of_step_none d1 hs
    | some m2 =>
      have hwq : WInv E m q := ⟨hw.inv, hw.stk, by rw [h5]; exact hw.tape⟩
      -- common continuation: the token ends at `q'`
      have cont : ∀ q', q < q' → q' ≤ e → E.Rdy q' → E.c q' = E.c q + 1 →
          Dead E m (E.c q) ∨ ∃ m' g', run E m g (E.c q) = run E m' g' (E.c e) ∧ E.Rdy e ∧ WInv E m' e ∧
            (InCont m'.st ∨ m'.st = .startContinue) ∧ Prog E m p m' e := by
        intro q' hq1 hq2 hrq' hcq'
        obtain ⟨w1, w2, w3⟩ := winv_step hwq hic (Nat.le_of_lt hqs) hs hcq'
        have hrun : run E m g (E.c q) = run E m2 (gstep m g E.msg q pk) (E.c q') := by
          rw [run_step g d1 hs, hcq']; rfl
        rcases ih (e - q') (by omega) q' m2 (gstep m g E.msg q pk) rfl (by omega) hq2 hrq' w1 w2 with hd | ⟨m', g', r1, r2, r3, r4, r5⟩
        · left; exact dead_of_run hrun hd
        · right
          refine ⟨m', g', hrun.trans r1, r2, r3, r4, ?_⟩
          have hp1 : Prog E m p m q := Prog.of_eq h5 rfl
          exact hp1.trans (w3.trans r5)
      by_cases hstr : isStructByte (E.b q) = true
      · obtain ⟨k1, k2, k3⟩ := E.SF.struct q hqs h4 hstr
        exact cont (q + 1) (by omega) (by omega) k2 d2
      by_cases hquote : E.b q = 34
      · cases hcq : closeQ (E.msg.toList.drop (q + 1)) with
        | none =>
          left; intro G; exfalso
          have := E.SF.strOpen q hqs h4 hquote hcq
          rw [G.inQ] at this; cases this
        | some d =>
          obtain ⟨s1, s2, s3, s4, s5⟩ := E.SF.strClosed q d hqs h4 hquote hcq
          by_cases hin : q + 2 + d ≤ e
          · have hcn : E.c (q + 2 + d) = E.c (q + 1) :=
              E.SF.cnt_noemit (q + 1) (q + 2 + d) (by omega) (fun j hj1 hj2 => s2 j (by omega) (by omega))
            exact cont (q + 2 + d) (by omega) hin s3 (by rw [hcn, d2])
          · left; intro G; exfalso
            -- the string runs over the line feed at `e`
            have hes : e < E.msg.size := by omega
            have hbe : E.b e = 10 := by
              rcases W.stop with h | ⟨_, h⟩
              · omega
              · exact h
            have hget := closeQ_get _ _ hcq
            have hne : q + 1 + d ≠ e := by
              intro heq
              have h5' := seg_get (E := E) (e := E.msg.size) (p := q + 1) (k := d) (Nat.le_refl _) (by omega)
              rw [seg_full, hget, heq, hbe] at h5'
              cases h5'
            have herr : (σ E.nd E.msg (q + 2 + d)).err = true := by
              apply s5.mpr
              right
              refine ⟨e - (q + 1), by omega, ?_⟩
              rw [show q + 1 + (e - (q + 1)) = e by omega]
              have hbe' : byteAt E.msg e = 10 := hbe
              rw [hbe']; decide
            have := E.SF.errMono (q + 2 + d) E.msg.size s1 herr
            have h2' := G.err
            rw [show E.err E.msg.size = (σ E.nd E.msg E.msg.size).err from rfl, this] at h2'
            cases h2'
      · have hns : isStructByte (E.b q) = false := by
          cases h : isStructByte (E.b q) with
          | false => rfl
          | true => exact absurd h hstr
        obtain ⟨q', t1, t2, t3, t4, t5⟩ := scalar_inv W hq h4 hnwq hns hquote hic hs
        exact cont q' t1 t2 t3 t4

/-- the walk over a line the specification calls `outside` -/
theorem outsideWalk (E : Env) : OutsideWalk E := by
  intro a e m0 g0 ent0 W hr R hnb hct
  obtain ⟨q, h1, h2, h3, h4, h5, h6, h7⟩ := skipWs_sim W (e - a) a rfl (Nat.le_refl _) W.le hr
  have hq : q < e := by
    apply Nat.lt_of_not_le; intro hle
    apply hnb
    rw [h3, seg_nil hle]
  have hqs : q < E.msg.size := Nat.lt_of_lt_of_le hq W.he
  have hsk : Spec.skipWs (E.seg e a) = E.b q :: E.seg e (q + 1) := by rw [h3, seg_cons hq W.he]
  rw [containerText_cons _ _ _ hsk] at hct
  have hb : E.b q = 123 ∨ E.b q = 91 := by
    cases hh : decide (E.b q = 123 ∨ E.b q = 91) with
    | true => simpa using hh
    | false =>
      have : ¬ (E.b q = 123 ∨ E.b q = 91) := by simpa using hh
      rw [if_neg this] at hct; cases hct
  have R' : RootSt E m0 g0 q ent0 := ⟨R.st, R.stack, R.loc, by rw [h5]; exact R.tape, R.fr⟩
  obtain ⟨m1, ent1, ent0', L, d1, d2, d3, d4, d5, d6, d7, d8⟩ := root_dispatch R' (Nat.le_of_lt hqs) hb
  have hstr : isStructByte (E.b q) = true := by
    rcases hb with h | h <;> rw [h, classify_struct] <;> decide
  obtain ⟨r1, r2, r3, r4⟩ := struct_step (g := g0) hqs h4 hstr d1 d2
  have hic1 : InCont m1.st := by
    by_cases h : E.b q = 123
    · rw [d3, if_pos h]; icd
    · rw [d3, if_neg h]; icd
  have hw1 : WInv E m1 (q + 1) := by
    refine ⟨Or.inl ⟨hic1, ?_⟩, d6, by have := R'.tape; rw [r4]; omega⟩
    rw [d4]; exact ⟨[], ent1, ent0', rfl, d5, fun x hx => by cases hx⟩
  have hp01 : Prog E m0 a m1 (q + 1) := Prog.step (by rw [r4, h5]) d7 d8
  rcases walk W (e - (q + 1)) (q + 1) m1 _ rfl (by omega) (by omega) r2 hw1 (Or.inl hic1) with hd | ⟨m', g', w1, w2, w3, w4, w5⟩
  · left
    rw [← h5]
    exact dead_of_run r1 hd
  · have hrun : run E m0 g0 (E.c a) = run E m' g' (E.c e) := by rw [← h5, r1, w1]
    rcases w4 with hic | hsc
    · left
      have hD : 2 ≤ m'.stack.length := by
        rcases w3.inv with ⟨_, hss⟩ | ⟨hn, _⟩
        · exact hss.len
        · exact absurd hic hn
      exact dead_of_run hrun (dead_stuck W (by omega) (Nat.le_refl _) w2 (fun h => absurd h (Nat.lt_irrefl _)) hic hD
        (fun h => absurd h (Nat.lt_irrefl _)))
    · right
      have hlen : m'.stack.length = 1 := by
        rcases w3.inv with ⟨hi, _⟩ | ⟨_, hl⟩
        · rw [hsc] at hi; exact absurd hi (by decide)
        · exact hl
      obtain ⟨x, hx⟩ : ∃ x, m'.stack = [x] := by
        match hm : m'.stack, hlen with
        | [x], _ => exact ⟨x, rfl⟩
      exact ⟨m', g', x, hrun, hsc, hx, w3.stk, w2, hp01.trans w5⟩

end SJ.TokenSim
