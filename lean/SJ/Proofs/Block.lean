import SJ.Proofs.Kernels
set_option linter.unusedVariables false
/-
C06/C01 — the bit-parallel 64-byte block function assembled from the assembly fragments
(`oddBackslash`, `quoteTailAvx2` + `prefixXor`, `finalizeAvx2`) equals the per-position scalar scanner `s1Step`.

  §1-2  `packBits`/`ofBits` bit reading, generic "fold that emits one bit per step" (`fold_pack`, `runSt`)
  §3    `s1StepBits`, `scanRef`, `maskStep` (`blockStep false` with the lane masks abstracted: `rfl`)
  §4    `prefixXor x` bit i = parity of bits 0..i of x (`getLsbD_prefixXor`, window-doubling ladder; no bv_decide)
  §5    per-position reading of the three fragments and the main theorem `block_eq_scan`, `scan_err`
  §6    invariant form `block_rel` (`CarryRel`), and `block_eq_scan'` for carries given by their value sets
  §7    lift to bytes: `block_eq_bytes`, `block_eq_bytes_avx512`, `block_eq_bytes_enc`, `scanBlock_eq_list`

All statements are for all inputs.  No `bv_decide` is used in this file; the `bv_decide` axioms reported by
`#print axioms` come from `Kernels.oddBackslash_spec`, `Kernels.finalize_spec`, `Kernels.reassemble`.
The whole-message lift (`blocksScan` = `s1Scan`) is in `SJ/Proofs/BlockScan.lean`.
-/
namespace SJ.Block
open SJ SJ.Generated SJ.Kernels

/-! ## 1. Packing bits -/

/-- `ofBits` with a variable bound -/
def packBits (n : Nat) (f : Nat → Bool) : BitVec 64 :=
  (List.range n).foldl (fun acc i => if f i then acc ||| (1#64 <<< i) else acc) 0#64

theorem ofBits_eq_packBits (f : Nat → Bool) : ofBits f = packBits 64 f := rfl

theorem packBits_succ (n : Nat) (f : Nat → Bool) :
    packBits (n+1) f = if f n then packBits n f ||| (1#64 <<< n) else packBits n f := by
  simp only [packBits, List.range_succ, List.foldl_append, List.foldl_cons, List.foldl_nil]

theorem getLsbD_one_shl (n j : Nat) : (1#64 <<< n).getLsbD j = (decide (j < 64) && decide (j = n)) := by
  simp only [BitVec.getLsbD_shiftLeft, BitVec.getLsbD_one]
  by_cases h1 : j < 64 <;> by_cases h2 : j = n <;> by_cases h3 : j < n <;> simp [h1, h2, h3] <;> omega

theorem getLsbD_packBits (n : Nat) (f : Nat → Bool) (j : Nat) :
    (packBits n f).getLsbD j = (decide (j < n) && decide (j < 64) && f j) := by
  induction n with
  | zero => simp [packBits]
  | succ n ih =>
    rw [packBits_succ]
    split
    · rename_i h
      rw [BitVec.getLsbD_or, ih, getLsbD_one_shl]
      by_cases h1 : j < 64 <;> by_cases h2 : j = n <;> by_cases h3 : j < n <;> simp [h1, h2, h3, h] <;> omega
    · rename_i h
      rw [ih]
      by_cases h2 : j = n
      · subst h2; simp [h]
      · have : decide (j < n + 1) = decide (j < n) := by apply decide_eq_decide.mpr; omega
        rw [this]

theorem getLsbD_ofBits (f : Nat → Bool) (j : Nat) (h : j < 64) : (ofBits f).getLsbD j = f j := by
  rw [ofBits_eq_packBits, getLsbD_packBits]; simp [h]

theorem packBits_congr (n : Nat) (f g : Nat → Bool) (h : ∀ i, i < n → f i = g i) : packBits n f = packBits n g := by
  induction n with
  | zero => rfl
  | succ n ih =>
    rw [packBits_succ, packBits_succ, ih (fun i hi => h i (by omega)), h n (by omega)]

/-- a 64-bit vector is the packing of its bits -/
theorem eq_ofBits (x : BitVec 64) : x = ofBits (fun i => x.getLsbD i) := by
  apply BitVec.eq_of_getLsbD_eq
  intro i hi
  rw [getLsbD_ofBits _ _ hi]

theorem eq_ofBits_of (x : BitVec 64) (f : Nat → Bool) (h : ∀ i, i < 64 → x.getLsbD i = f i) : x = ofBits f := by
  apply BitVec.eq_of_getLsbD_eq
  intro i hi
  rw [getLsbD_ofBits _ _ hi, h i hi]

/-! ## 2. Generic "fold producing one bit per step" -/

/-- state before step `i` -/
def runSt {σ : Type} (step : σ → Nat → σ × Bool) (s0 : σ) : Nat → σ
  | 0 => s0
  | i+1 => (step (runSt step s0 i) i).1

theorem fold_pack {σ : Type} (step : σ → Nat → σ × Bool) (s0 : σ) (n : Nat) :
    (List.range n).foldl (fun (acc : BitVec 64 × σ) i =>
        (if (step acc.2 i).2 then acc.1 ||| (1#64 <<< i) else acc.1, (step acc.2 i).1)) (0#64, s0)
      = (packBits n (fun i => (step (runSt step s0 i) i).2), runSt step s0 n) := by
  induction n with
  | zero => rfl
  | succ n ih =>
    rw [List.range_succ, List.foldl_append, ih, packBits_succ]
    simp only [List.foldl_cons, List.foldl_nil, runSt]


/-! ## 3. The two sides -/

/-- `s1Step` with the byte predicates replaced by six bits -/
def s1StepBits (nd : Bool) (s : S1State) (bsB qB ctrlB wsB stB nlB : Bool) : S1State × Bool :=
  let bs := bsB
  let escaped := s.bsOdd && !bs
  let qbit := qB && !escaped
  let mask := s.inQuote != qbit
  let ws := wsB
  let s0 := stB && !mask
  let s1 := s0 || qbit
  let pred := s1 || ws
  let pseudo := s.prevPred && !ws && !mask
  let s2 := s1 || pseudo
  let fin := s2 && !(qbit && !mask)
  let nl := nd && nlB && !mask
  ({ bsOdd := if bs then !s.bsOdd else false,
     inQuote := mask,
     prevPred := pred,
     err := s.err || (ctrlB && mask) },
   fin || nl)

theorem s1Step_eq_bits (nd : Bool) (s : S1State) (b : UInt8) :
    s1Step nd s b = s1StepBits nd s (isBackslashByte b) (isQuoteByte b) (isCtrlByte b) (isWsByte b)
      (isStructByte b) (isNewlineByte b) := rfl

/-- the scalar step at position `i`, reading bit `i` of six class masks -/
def bitStep (nd : Bool) (bs q ctrl ws st nl : BitVec 64) (s : S1State) (i : Nat) : S1State × Bool :=
  s1StepBits nd s (bs.getLsbD i) (q.getLsbD i) (ctrl.getLsbD i) (ws.getLsbD i) (st.getLsbD i) (nl.getLsbD i)

/-- the scalar scanner over positions 0..63 of six class masks: emitted positions (as a mask) and final state -/
def scanRef (nd : Bool) (bs q ctrl ws st nl : BitVec 64) (s0 : S1State) : BitVec 64 × S1State :=
  (List.range 64).foldl (fun (acc : BitVec 64 × S1State) i =>
      let r := bitStep nd bs q ctrl ws st nl acc.2 i
      (if r.2 then acc.1 ||| (1#64 <<< i) else acc.1, r.1)) (0#64, s0)

/-- `blockStep false` with the six lane masks abstracted -/
def maskStep (nd : Bool) (bs q ctrl ws st nl : BitVec 64) (c : Carry) : BitVec 64 × Carry :=
  let ob := oddBackslash bs c.prevOdd
  let qt := quoteTailAvx2 prefixXor q ctrl ob.1 c.prevInQuote c.errMask
  let fz := finalizeAvx2 st ws qt.1 qt.2.1 c.prevPseudo
  let s := if nd then fz.1 ||| (nl &&& ~~~ qt.1) else fz.1
  (s, { prevOdd := ob.2, prevInQuote := qt.2.2.2, errMask := qt.2.2.1, prevPseudo := fz.2 })

theorem blockStep_eq_maskStep (nd : Bool) (blk : Bytes) (c : Carry) :
    blockStep false nd blk c =
      maskStep nd (laneMask isBackslashByte blk) (laneMask isQuoteByte blk) (laneMask isCtrlByte blk)
        (laneMask isWsByte blk) (laneMask isStructByte blk) (laneMask isNewlineByte blk) c := rfl

/-- `maskStep` in terms of the specifications of the fragments -/
theorem maskStep_eq (nd : Bool) (bs q ctrl ws st nl : BitVec 64) (c : Carry) :
    maskStep nd bs q ctrl ws st nl c =
      (let oe := (oddBackslash bs c.prevOdd).1
       let qb := ~~~ oe &&& q
       let qm := prefixXor qb ^^^ c.prevInQuote
       let fs := finalizeSpec st ws qm qb c.prevPseudo
       (if nd then fs.1 ||| (nl &&& ~~~ qm) else fs.1,
        { prevOdd := (oddBackslash bs c.prevOdd).2, prevInQuote := BitVec.sshiftRight qm 63,
          errMask := c.errMask ||| (ctrl &&& qm), prevPseudo := fs.2 })) := by
  simp only [maskStep, quoteTailAvx2, reassemble, finalize_spec]


/-! ## 4. `prefixXor` is the prefix parity -/

/-- parity of the bits of `x` in the window `(i - w, i]` (truncated at position 0) -/
def win (x : BitVec 64) : Nat → Nat → Bool
  | 0, _ => false
  | w+1, i => win x w i ^^ (decide (w ≤ i) && x.getLsbD (i - w))

theorem win_add (x : BitVec 64) (a b i : Nat) :
    win x (a + b) i = (win x a i ^^ (decide (a ≤ i) && win x b (i - a))) := by
  induction b with
  | zero => simp [win]
  | succ b ih =>
    rw [← Nat.add_assoc, win, ih, win]
    by_cases h : a ≤ i
    · have e1 : decide (a + b ≤ i) = decide (b ≤ i - a) := decide_eq_decide.mpr (by omega)
      have e2 : i - (a + b) = i - a - b := by omega
      rw [e1, e2]
      simp [h]
    · have e1 : decide (a + b ≤ i) = false := decide_eq_false (by omega)
      simp [h, e1]

/-- one rung of the ladder doubles the window -/
theorem ladder (x p : BitVec 64) (w : Nat) (hp : ∀ i, i < 64 → p.getLsbD i = win x w i) :
    ∀ i, i < 64 → (p ^^^ (p <<< w)).getLsbD i = win x (w + w) i := by
  intro i hi
  rw [win_add, BitVec.getLsbD_xor, BitVec.getLsbD_shiftLeft, hp i hi]
  by_cases h : w ≤ i
  · have : ¬ i < w := by omega
    rw [hp (i - w) (by omega)]
    simp [hi, h, this]
  · have : i < w := by omega
    simp [h, this]

theorem getLsbD_prefixXor (x : BitVec 64) (i : Nat) (hi : i < 64) :
    (prefixXor x).getLsbD i = win x 64 i := by
  have h1 : ∀ i, i < 64 → x.getLsbD i = win x 1 i := by
    intro i _; simp [win]
  exact ladder x _ 32 (ladder x _ 16 (ladder x _ 8 (ladder x _ 4 (ladder x _ 2 (ladder x _ 1 h1))))) i hi

theorem win_one (x : BitVec 64) (i : Nat) : win x 1 i = x.getLsbD i := by
  simp [win]

/-- forward recurrence of the 64-wide window parity -/
theorem win64_zero (x : BitVec 64) : win x 64 0 = x.getLsbD 0 := by
  have h := win_add x 1 63 0
  rw [win_one] at h
  simpa using h

theorem win64_succ (x : BitVec 64) (i : Nat) (hi : i + 1 < 64) :
    win x 64 (i + 1) = (win x 64 i ^^ x.getLsbD (i + 1)) := by
  have h1 : win x (1 + 64) (i + 1) = (win x 1 (i + 1) ^^ (decide (1 ≤ i + 1) && win x 64 (i + 1 - 1))) :=
    win_add x 1 64 (i + 1)
  have h2 : win x (64 + 1) (i + 1) = win x 64 (i + 1) := by
    rw [win]
    have : decide (64 ≤ i + 1) = false := decide_eq_false (by omega)
    rw [this, Bool.false_and, Bool.xor_false]
  rw [← h2, Nat.add_comm 64 1, h1, win_one]
  simp [Bool.xor_comm]


/-! ## 5. Per-position reading of the fragments -/

/-- carry encodings -/
def enc1 (b : Bool) : BitVec 64 := if b then 1#64 else 0#64
def encAll (b : Bool) : BitVec 64 := if b then BitVec.allOnes 64 else 0#64

section Compose
variable (nd : Bool) (bs q ctrl ws st nl : BitVec 64) (s0 : S1State)

/-- scanner state before position `i` -/
def stAt (i : Nat) : S1State := runSt (bitStep nd bs q ctrl ws st nl) s0 i

/-- odd_ends bit at position `i` -/
def oddEAt (i : Nat) : Bool := (stAt nd bs q ctrl ws st nl s0 i).bsOdd && !bs.getLsbD i
/-- quote_bits bit at position `i` -/
def qbitAt (i : Nat) : Bool := q.getLsbD i && !oddEAt nd bs q ctrl ws st nl s0 i
/-- quote_mask bit at position `i` -/
def maskAt (i : Nat) : Bool := (stAt nd bs q ctrl ws st nl s0 i).inQuote != qbitAt nd bs q ctrl ws st nl s0 i

theorem stAt_zero : stAt nd bs q ctrl ws st nl s0 0 = s0 := rfl

theorem stAt_succ (i : Nat) :
    stAt nd bs q ctrl ws st nl s0 (i+1) =
      (bitStep nd bs q ctrl ws st nl (stAt nd bs q ctrl ws st nl s0 i) i).1 := rfl

theorem scanRef_eq :
    scanRef nd bs q ctrl ws st nl s0 =
      (ofBits (fun i => (bitStep nd bs q ctrl ws st nl (stAt nd bs q ctrl ws st nl s0 i) i).2),
       stAt nd bs q ctrl ws st nl s0 64) :=
  fold_pack (bitStep nd bs q ctrl ws st nl) s0 64

theorem bsOdd_succ (i : Nat) :
    (stAt nd bs q ctrl ws st nl s0 (i+1)).bsOdd =
      (if bs.getLsbD i then !(stAt nd bs q ctrl ws st nl s0 i).bsOdd else false) := rfl

theorem inQuote_succ (i : Nat) :
    (stAt nd bs q ctrl ws st nl s0 (i+1)).inQuote = maskAt nd bs q ctrl ws st nl s0 i := rfl

theorem prevPred_succ (i : Nat) :
    (stAt nd bs q ctrl ws st nl s0 (i+1)).prevPred =
      (((st.getLsbD i && !maskAt nd bs q ctrl ws st nl s0 i) || qbitAt nd bs q ctrl ws st nl s0 i)
        || ws.getLsbD i) := rfl

theorem err_succ (i : Nat) :
    (stAt nd bs q ctrl ws st nl s0 (i+1)).err =
      ((stAt nd bs q ctrl ws st nl s0 i).err || (ctrl.getLsbD i && maskAt nd bs q ctrl ws st nl s0 i)) := rfl

theorem out_eq (i : Nat) :
    (bitStep nd bs q ctrl ws st nl (stAt nd bs q ctrl ws st nl s0 i) i).2 =
      (let m := maskAt nd bs q ctrl ws st nl s0 i
       let qb := qbitAt nd bs q ctrl ws st nl s0 i
       let s1 := (st.getLsbD i && !m) || qb
       let pseudo := (stAt nd bs q ctrl ws st nl s0 i).prevPred && !ws.getLsbD i && !m
       ((s1 || pseudo) && !(qb && !m)) || (nd && nl.getLsbD i && !m)) := rfl

/-- the step function of `Kernels.oddRef` -/
def oddStep (s : Bool) (i : Nat) : Bool × Bool := (if bs.getLsbD i then !s else false, s && !bs.getLsbD i)

theorem oddRef_eq (p : Bool) :
    oddRef bs p = (packBits 64 (fun i => (oddStep bs (runSt (oddStep bs) p i) i).2), runSt (oddStep bs) p 64) :=
  fold_pack (oddStep bs) p 64

theorem runSt_oddStep (i : Nat) :
    runSt (oddStep bs) s0.bsOdd i = (stAt nd bs q ctrl ws st nl s0 i).bsOdd := by
  induction i with
  | zero => rfl
  | succ i ih => rw [bsOdd_succ, ← ih]; rfl

/-- (A) `find_odd_backslash_sequences` per position -/
theorem oddBackslash_bits :
    oddBackslash bs (enc1 s0.bsOdd) =
      (ofBits (oddEAt nd bs q ctrl ws st nl s0), enc1 (stAt nd bs q ctrl ws st nl s0 64).bsOdd) := by
  unfold enc1
  have hp : packBits 64 (fun i => (oddStep bs (runSt (oddStep bs) s0.bsOdd i) i).2) =
      packBits 64 (oddEAt nd bs q ctrl ws st nl s0) := by
    apply packBits_congr
    intro i _
    simp only [oddStep, oddEAt, runSt_oddStep nd bs q ctrl ws st nl s0 i]
  rw [oddBackslash_spec, oddRef_eq, runSt_oddStep nd bs q ctrl ws st nl s0 64, ofBits_eq_packBits, hp]



theorem getLsbD_enc1 (b : Bool) (i : Nat) : (enc1 b).getLsbD i = (decide (i = 0) && b) := by
  cases b <;> simp [enc1, BitVec.getLsbD_one]

theorem getLsbD_encAll (b : Bool) (i : Nat) (hi : i < 64) : (encAll b).getLsbD i = b := by
  cases b
  · simp [encAll]
  · simp only [encAll, if_true, BitVec.getLsbD_allOnes, hi, decide_true]

/-- quote_bits per position -/
theorem quoteBits_bits (i : Nat) (hi : i < 64) :
    (~~~ ofBits (oddEAt nd bs q ctrl ws st nl s0) &&& q).getLsbD i = qbitAt nd bs q ctrl ws st nl s0 i := by
  rw [BitVec.getLsbD_and, BitVec.getLsbD_not, getLsbD_ofBits _ _ hi, qbitAt]
  simp [hi, Bool.and_comm]

/-- (B)+quote_mask per position: prefix parity of the quote bits, xor the carry -/
theorem quoteMask_bits (QB : BitVec 64)
    (hqb : ∀ i, i < 64 → QB.getLsbD i = qbitAt nd bs q ctrl ws st nl s0 i) (i : Nat) (hi : i < 64) :
    (prefixXor QB ^^^ encAll s0.inQuote).getLsbD i = maskAt nd bs q ctrl ws st nl s0 i := by
  rw [BitVec.getLsbD_xor, getLsbD_prefixXor _ _ hi, getLsbD_encAll _ _ hi]
  induction i with
  | zero =>
    rw [win64_zero, hqb 0 hi, maskAt, stAt_zero]
    cases s0.inQuote <;> cases qbitAt nd bs q ctrl ws st nl s0 0 <;> rfl
  | succ i ih =>
    have ih := ih (by omega)
    rw [win64_succ _ _ hi, hqb _ hi, maskAt, inQuote_succ, ← ih]
    cases win QB 64 i <;> cases s0.inQuote <;> cases qbitAt nd bs q ctrl ws st nl s0 (i+1) <;> rfl

/-- the shifted predecessor mask per position is the `prevPred` component of the scanner state -/
theorem shifted_bits (P : BitVec 64)
    (hP : ∀ i, i < 64 → P.getLsbD i = (stAt nd bs q ctrl ws st nl s0 (i+1)).prevPred) (i : Nat) (hi : i < 64) :
    ((P <<< 1) ||| enc1 s0.prevPred).getLsbD i = (stAt nd bs q ctrl ws st nl s0 i).prevPred := by
  rw [BitVec.getLsbD_or, BitVec.getLsbD_shiftLeft, getLsbD_enc1]
  cases i with
  | zero => simp [stAt_zero]
  | succ i =>
    have := hP i (by omega)
    simp [hi, this]

/-- (C) `finalize_structurals` per position (plus the ndjson newline term) -/
theorem structurals_bits (QB QM : BitVec 64)
    (hqb : ∀ i, i < 64 → QB.getLsbD i = qbitAt nd bs q ctrl ws st nl s0 i)
    (hqm : ∀ i, i < 64 → QM.getLsbD i = maskAt nd bs q ctrl ws st nl s0 i) (i : Nat) (hi : i < 64) :
    (if nd then (finalizeSpec st ws QM QB (enc1 s0.prevPred)).1 ||| (nl &&& ~~~ QM)
      else (finalizeSpec st ws QM QB (enc1 s0.prevPred)).1).getLsbD i =
      (bitStep nd bs q ctrl ws st nl (stAt nd bs q ctrl ws st nl s0 i) i).2 := by
  have hP : ∀ i, i < 64 → (st &&& ~~~ QM ||| QB ||| ws).getLsbD i =
      (stAt nd bs q ctrl ws st nl s0 (i+1)).prevPred := by
    intro j hj
    rw [prevPred_succ]
    simp only [BitVec.getLsbD_or, BitVec.getLsbD_and, BitVec.getLsbD_not, hqb j hj, hqm j hj, hj, decide_true,
      Bool.true_and]
  have hsh := shifted_bits nd bs q ctrl ws st nl s0 _ hP i hi
  rw [out_eq]
  cases nd
  · simp only [finalizeSpec, Bool.false_eq_true, if_false, BitVec.getLsbD_or, BitVec.getLsbD_and,
      BitVec.getLsbD_not, hsh, hqb i hi, hqm i hi, hi, decide_true, Bool.true_and, Bool.false_and, Bool.or_false]
  · simp only [finalizeSpec, if_true, BitVec.getLsbD_or, BitVec.getLsbD_and,
      BitVec.getLsbD_not, hsh, hqb i hi, hqm i hi, hi, decide_true, Bool.true_and]


theorem sshiftRight63 (x : BitVec 64) : BitVec.sshiftRight x 63 = encAll (x.getLsbD 63) := by
  apply BitVec.eq_of_getLsbD_eq
  intro i hi
  rw [BitVec.getLsbD_sshiftRight, getLsbD_encAll _ _ hi, BitVec.msb_eq_getLsbD_last]
  cases i with
  | zero => simp
  | succ i =>
    have h1 : ¬ (63 + (i + 1) < 64) := by omega
    have h2 : ¬ (64 ≤ i + 1) := by omega
    simp [h1, h2]

theorem ushiftRight63 (x : BitVec 64) : x >>> 63 = enc1 (x.getLsbD 63) := by
  apply BitVec.eq_of_getLsbD_eq
  intro i hi
  rw [BitVec.getLsbD_ushiftRight, getLsbD_enc1]
  cases i with
  | zero => simp
  | succ i =>
    have : x.getLsbD (63 + (i + 1)) = false := BitVec.getLsbD_of_ge _ _ (by omega)
    simp [this]

/-- the carried state of the block function as an encoding of the scanner state -/
def encCarry (s : S1State) (e : BitVec 64) : Carry :=
  { prevOdd := enc1 s.bsOdd, prevInQuote := encAll s.inQuote, errMask := e, prevPseudo := enc1 s.prevPred }

/-- the quote mask of the block as the scalar scanner sees it: bit `i` = `inQuote` after position `i` -/
def quoteMaskRef : BitVec 64 := ofBits (maskAt nd bs q ctrl ws st nl s0)

/-- **Main theorem (mask level).** For every six class masks and every carry that encodes a scanner state,
    the block function assembled from the assembly fragments produces exactly the positions emitted by the
    scalar scanner and the encoding of its final state; the error mask accumulates `ctrl ∧ quote_mask`. -/
theorem block_eq_scan (e : BitVec 64) :
    maskStep nd bs q ctrl ws st nl (encCarry s0 e) =
      ((scanRef nd bs q ctrl ws st nl s0).1,
       encCarry (scanRef nd bs q ctrl ws st nl s0).2 (e ||| (ctrl &&& quoteMaskRef nd bs q ctrl ws st nl s0))) := by
  have hqb := quoteBits_bits nd bs q ctrl ws st nl s0
  have hqm := quoteMask_bits nd bs q ctrl ws st nl s0 _ hqb
  have hQM : prefixXor (~~~ ofBits (oddEAt nd bs q ctrl ws st nl s0) &&& q) ^^^ encAll s0.inQuote =
      ofBits (maskAt nd bs q ctrl ws st nl s0) := eq_ofBits_of _ _ hqm
  have hst := structurals_bits nd bs q ctrl ws st nl s0 _ _ hqb hqm
  have hS := eq_ofBits_of _ _ hst
  rw [hQM] at hS
  have h63 : (ofBits (maskAt nd bs q ctrl ws st nl s0)).getLsbD 63 = (stAt nd bs q ctrl ws st nl s0 64).inQuote := by
    rw [getLsbD_ofBits _ _ (by omega), inQuote_succ]
  have hpp : (finalizeSpec st ws (ofBits (maskAt nd bs q ctrl ws st nl s0))
      (~~~ ofBits (oddEAt nd bs q ctrl ws st nl s0) &&& q) (enc1 s0.prevPred)).2 =
      enc1 (stAt nd bs q ctrl ws st nl s0 64).prevPred := by
    simp only [finalizeSpec]
    rw [ushiftRight63, prevPred_succ]
    simp only [BitVec.getLsbD_or, BitVec.getLsbD_and, BitVec.getLsbD_not, hqb 63 (by omega),
      getLsbD_ofBits _ _ (show 63 < 64 by omega), show (63 < 64) = True from by simp, decide_true, Bool.true_and]
  rw [maskStep_eq, scanRef_eq]
  simp only [encCarry, oddBackslash_bits nd bs q ctrl ws st nl s0, hQM, hS, sshiftRight63, h63, hpp, quoteMaskRef]


/-! ### the error flag -/

theorem one_shl_ne_zero (n : Nat) (hn : n < 64) : (1#64 <<< n) ≠ 0#64 := by
  intro h
  have h1 := getLsbD_one_shl n n
  rw [h] at h1
  simp [hn] at h1

theorem err_packBits (n : Nat) (hn : n ≤ 64) :
    (stAt nd bs q ctrl ws st nl s0 n).err =
      (s0.err || decide (packBits n (fun i => ctrl.getLsbD i && maskAt nd bs q ctrl ws st nl s0 i) ≠ 0#64)) := by
  induction n with
  | zero => simp [stAt_zero, packBits]
  | succ n ih =>
    rw [err_succ, ih (by omega), packBits_succ]
    cases hc : (ctrl.getLsbD n && maskAt nd bs q ctrl ws st nl s0 n)
    · simp
    · have := one_shl_ne_zero n (by omega)
      simp [BitVec.or_eq_zero_iff, this]

theorem ctrl_and_mask :
    ctrl &&& quoteMaskRef nd bs q ctrl ws st nl s0 =
      packBits 64 (fun i => ctrl.getLsbD i && maskAt nd bs q ctrl ws st nl s0 i) := by
  rw [← ofBits_eq_packBits]
  apply eq_ofBits_of
  intro i hi
  rw [BitVec.getLsbD_and, quoteMaskRef, getLsbD_ofBits _ _ hi]

/-- the scanner's final `err` flag is "some control character under the quote mask" -/
theorem scan_err :
    (scanRef nd bs q ctrl ws st nl s0).2.err =
      (s0.err || decide (ctrl &&& quoteMaskRef nd bs q ctrl ws st nl s0 ≠ 0#64)) := by
  rw [scanRef_eq, ctrl_and_mask]
  exact err_packBits nd bs q ctrl ws st nl s0 64 (by omega)

end Compose

/-! ## 6. The invariant form -/

/-- the carry of the block loop represents the scanner state `s` -/
def CarryRel (c : Carry) (s : S1State) : Prop :=
  c.prevOdd = enc1 s.bsOdd ∧ c.prevInQuote = encAll s.inQuote ∧ c.prevPseudo = enc1 s.prevPred ∧
    s.err = decide (c.errMask ≠ 0#64)

theorem carryRel_init : CarryRel {} {} := by
  refine ⟨rfl, rfl, rfl, ?_⟩
  decide

theorem carryRel_enc (c : Carry) (s : S1State) (h : CarryRel c s) : c = encCarry s c.errMask := by
  obtain ⟨h1, h2, h3, _⟩ := h
  cases c
  simp only [encCarry] at *
  simp only [h1, h2, h3]

/-- **Main theorem, invariant form.** If the carry represents the scanner state, then after one block the
    structural mask equals the positions the scanner emits and the new carry represents the new scanner state
    (the `err` flag being `errMask ≠ 0`). -/
theorem block_rel (nd : Bool) (bs q ctrl ws st nl : BitVec 64) (c : Carry) (s : S1State) (h : CarryRel c s) :
    (maskStep nd bs q ctrl ws st nl c).1 = (scanRef nd bs q ctrl ws st nl s).1 ∧
    CarryRel (maskStep nd bs q ctrl ws st nl c).2 (scanRef nd bs q ctrl ws st nl s).2 := by
  have hc := carryRel_enc c s h
  have he := scan_err nd bs q ctrl ws st nl s
  have hm := block_eq_scan nd bs q ctrl ws st nl s c.errMask
  rw [← hc] at hm
  rw [hm]
  generalize scanRef nd bs q ctrl ws st nl s = r at he
  generalize ctrl &&& quoteMaskRef nd bs q ctrl ws st nl s = x at he
  refine ⟨rfl, rfl, rfl, rfl, ?_⟩
  show r.2.err = decide (c.errMask ||| x ≠ 0#64)
  rw [he, h.2.2.2]
  by_cases h1 : c.errMask = 0#64 <;> by_cases h2 : x = 0#64 <;> simp [h1, h2, BitVec.or_eq_zero_iff]

/-- decoding of a carry -/
def decCarry (c : Carry) : S1State :=
  { bsOdd := c.prevOdd != 0#64, inQuote := c.prevInQuote != 0#64, prevPred := c.prevPseudo != 0#64,
    err := c.errMask != 0#64 }

theorem carryRel_dec (c : Carry) (h1 : c.prevOdd = 0#64 ∨ c.prevOdd = 1#64)
    (h2 : c.prevInQuote = 0#64 ∨ c.prevInQuote = BitVec.allOnes 64)
    (h3 : c.prevPseudo = 0#64 ∨ c.prevPseudo = 1#64) : CarryRel c (decCarry c) := by
  refine ⟨?_, ?_, ?_, ?_⟩
  · rcases h1 with h | h <;> simp only [decCarry, h] <;> decide
  · rcases h2 with h | h <;> simp only [decCarry, h] <;> decide
  · rcases h3 with h | h <;> simp only [decCarry, h] <;> decide
  · show (c.errMask != 0#64) = decide (c.errMask ≠ 0#64)
    by_cases h : c.errMask = 0#64 <;> simp [h]

/-- **Main theorem, as stated in the task**: for all masks and all carries with `prevOdd ∈ {0,1}`,
    `prevInQuote ∈ {0, allOnes}`, `prevPseudo ∈ {0,1}`. -/
theorem block_eq_scan' (nd : Bool) (bs q ctrl ws st nl : BitVec 64) (c : Carry)
    (h1 : c.prevOdd = 0#64 ∨ c.prevOdd = 1#64)
    (h2 : c.prevInQuote = 0#64 ∨ c.prevInQuote = BitVec.allOnes 64)
    (h3 : c.prevPseudo = 0#64 ∨ c.prevPseudo = 1#64) :
    maskStep nd bs q ctrl ws st nl c =
      ((scanRef nd bs q ctrl ws st nl (decCarry c)).1,
       encCarry (scanRef nd bs q ctrl ws st nl (decCarry c)).2
         (c.errMask ||| (ctrl &&& quoteMaskRef nd bs q ctrl ws st nl (decCarry c)))) ∧
    (scanRef nd bs q ctrl ws st nl (decCarry c)).2.err =
      decide ((maskStep nd bs q ctrl ws st nl c).2.errMask ≠ 0#64) := by
  have h := carryRel_dec c h1 h2 h3
  have hr := block_rel nd bs q ctrl ws st nl c _ h
  refine ⟨?_, hr.2.2.2.2⟩
  conv => lhs; rw [carryRel_enc c _ h]
  rw [block_eq_scan]


/-! ## 7. Lifting to bytes -/

theorem getLsbD_laneMask (p : UInt8 → Bool) (blk : Bytes) (i : Nat) (hi : i < 64) :
    (laneMask p blk).getLsbD i = p (blk.getD i 0x20) := getLsbD_ofBits _ i hi

theorem runSt_congr {σ : Type} (f g : σ → Nat → σ × Bool) (s0 : σ) (n : Nat)
    (h : ∀ i, i < n → ∀ s, f s i = g s i) : runSt f s0 n = runSt g s0 n := by
  induction n with
  | zero => rfl
  | succ n ih =>
    rw [runSt, runSt, ih (fun i hi => h i (by omega)), h n (by omega)]

/-- the scalar step at position `i` of a block (missing bytes read as the padding 0x20) -/
def byteStep (nd : Bool) (blk : Bytes) (s : S1State) (i : Nat) : S1State × Bool := s1Step nd s (blk.getD i 0x20)

/-- the scalar scanner `s1Step` over the 64 (padded) bytes of a block, emitted positions packed as a mask -/
def scanBlock (nd : Bool) (blk : Bytes) (s0 : S1State) : BitVec 64 × S1State :=
  (List.range 64).foldl (fun (acc : BitVec 64 × S1State) i =>
      let r := s1Step nd acc.2 (blk.getD i 0x20)
      (if r.2 then acc.1 ||| (1#64 <<< i) else acc.1, r.1)) (0#64, s0)

theorem scanBlock_eq (nd : Bool) (blk : Bytes) (s0 : S1State) :
    scanBlock nd blk s0 =
      (ofBits (fun i => (byteStep nd blk (runSt (byteStep nd blk) s0 i) i).2), runSt (byteStep nd blk) s0 64) :=
  fold_pack (byteStep nd blk) s0 64

theorem bitStep_lane (nd : Bool) (blk : Bytes) (i : Nat) (hi : i < 64) (s : S1State) :
    bitStep nd (laneMask isBackslashByte blk) (laneMask isQuoteByte blk) (laneMask isCtrlByte blk)
        (laneMask isWsByte blk) (laneMask isStructByte blk) (laneMask isNewlineByte blk) s i =
      byteStep nd blk s i := by
  simp only [bitStep, byteStep, s1Step_eq_bits, getLsbD_laneMask _ _ _ hi]

/-- the mask-level scanner on the lane masks of a block is the byte-level scanner on the block -/
theorem scanRef_lane (nd : Bool) (blk : Bytes) (s0 : S1State) :
    scanRef nd (laneMask isBackslashByte blk) (laneMask isQuoteByte blk) (laneMask isCtrlByte blk)
        (laneMask isWsByte blk) (laneMask isStructByte blk) (laneMask isNewlineByte blk) s0 =
      scanBlock nd blk s0 := by
  rw [scanRef_eq, scanBlock_eq, stAt, runSt_congr _ (byteStep nd blk) s0 64 (fun i hi s => bitStep_lane nd blk i hi s),
    ofBits_eq_packBits, ofBits_eq_packBits]
  rw [packBits_congr 64 _ (fun i => (byteStep nd blk (runSt (byteStep nd blk) s0 i) i).2)]
  intro i hi
  rw [stAt, runSt_congr _ (byteStep nd blk) s0 i (fun j hj s => bitStep_lane nd blk j (by omega) s),
    bitStep_lane nd blk i hi]

/-- **Main theorem (byte level), invariant form**: one 64-byte block of the bit-parallel function agrees with
    64 steps of the scalar scanner `s1Step` on the block's bytes. -/
theorem block_eq_bytes (nd : Bool) (blk : Bytes) (c : Carry) (s : S1State) (h : CarryRel c s) :
    (blockStep false nd blk c).1 = (scanBlock nd blk s).1 ∧
    CarryRel (blockStep false nd blk c).2 (scanBlock nd blk s).2 := by
  rw [blockStep_eq_maskStep, ← scanRef_lane]
  exact block_rel nd _ _ _ _ _ _ c s h

/-- the same for the AVX-512 family -/
theorem block_eq_bytes_avx512 (nd : Bool) (blk : Bytes) (c : Carry) (s : S1State) (h : CarryRel c s) :
    (blockStep true nd blk c).1 = (scanBlock nd blk s).1 ∧
    CarryRel (blockStep true nd blk c).2 (scanBlock nd blk s).2 := by
  have : blockStep true nd blk c = blockStep false nd blk c := by
    unfold blockStep kernels
    simp only [quoteTail_same, finalize_same, Bool.false_eq_true, if_false, if_true]
  rw [this]
  exact block_eq_bytes nd blk c s h


/-- equational form: the carry `encCarry s e` goes to the encoding of the scanner's final state -/
theorem block_eq_bytes_enc (nd : Bool) (blk : Bytes) (s : S1State) (e : BitVec 64) :
    blockStep false nd blk (encCarry s e) =
      ((scanBlock nd blk s).1,
       encCarry (scanBlock nd blk s).2
         (e ||| (laneMask isCtrlByte blk &&&
            quoteMaskRef nd (laneMask isBackslashByte blk) (laneMask isQuoteByte blk) (laneMask isCtrlByte blk)
              (laneMask isWsByte blk) (laneMask isStructByte blk) (laneMask isNewlineByte blk) s))) := by
  rw [blockStep_eq_maskStep, ← scanRef_lane]
  exact block_eq_scan nd _ _ _ _ _ _ s e

/-! ### the same scanner as a plain fold over the list of the 64 bytes -/

/-- `s1Step` folded over a list of bytes: final state and the list of "emit" flags -/
def scanList (nd : Bool) : S1State → List UInt8 → S1State × List Bool
  | s, [] => (s, [])
  | s, b :: bs => ((scanList nd (s1Step nd s b).1 bs).1, (s1Step nd s b).2 :: (scanList nd (s1Step nd s b).1 bs).2)

theorem scanList_append (nd : Bool) (s : S1State) (l : List UInt8) (b : UInt8) :
    scanList nd s (l ++ [b]) =
      ((s1Step nd (scanList nd s l).1 b).1, (scanList nd s l).2 ++ [(s1Step nd (scanList nd s l).1 b).2]) := by
  induction l generalizing s with
  | nil => rfl
  | cons a l ih => simp only [List.cons_append, scanList, ih]

/-- the 64 bytes of a block, padded with 0x20 -/
def blockBytes (blk : Bytes) : List UInt8 := (List.range 64).map (fun i => blk.getD i 0x20)

theorem scanList_range (nd : Bool) (blk : Bytes) (s0 : S1State) (n : Nat) :
    scanList nd s0 ((List.range n).map (fun i => blk.getD i 0x20)) =
      (runSt (byteStep nd blk) s0 n,
       (List.range n).map (fun i => (byteStep nd blk (runSt (byteStep nd blk) s0 i) i).2)) := by
  induction n with
  | zero => rfl
  | succ n ih =>
    rw [List.range_succ, List.map_append, List.map_cons, List.map_nil, scanList_append, ih]
    simp only [List.map_append, List.map_cons, List.map_nil, runSt, byteStep]

theorem scanBlock_eq_list (nd : Bool) (blk : Bytes) (s0 : S1State) :
    scanBlock nd blk s0 =
      (ofBits (fun i => (scanList nd s0 (blockBytes blk)).2.getD i false), (scanList nd s0 (blockBytes blk)).1) := by
  rw [scanBlock_eq, blockBytes, scanList_range, ofBits_eq_packBits, ofBits_eq_packBits]
  rw [packBits_congr 64 _ (fun i => ((List.range 64).map
      (fun i => (byteStep nd blk (runSt (byteStep nd blk) s0 i) i).2)).getD i false)]
  intro i hi
  simp [List.getD_eq_getElem?_getD, hi]

end SJ.Block
