import SJ.Proofs.ParseSpec
import SJ.Proofs.ScanLex
import SJ.Proofs.StrLex
import SJ.Proofs.Rounds
import SJ.Proofs.ParseWF
import SJ.Proofs.TrimEdgeAscii
/-
Final assembly of the whole-parser theorems: `Parse` / `ParseND` of the model against the RFC 8259 specification
(`Spec.containerText`, `Spec.ndText`), the interface hypotheses of `ParseSpec` discharged by `ScanLex`, `StrLex`,
`Rounds`, the tape statement supplied by `Stage2WF` / `ParseWF`.
-/
namespace SJ.ParseIff
open SJ SJ.ParseDefs SJ.Layout SJ.TrimEdge

theorem jsonTrim_toList (input : Bytes) : (jsonTrim input).toList = jsonTrimL input.toList := by
  simp [jsonTrim]

/-- the trimmed message has no JSON white space at its ends -/
theorem trimmed_of_edge (input : Bytes) (he : EdgeOK input) : ParseSpec.Trimmed (trimSpace input) := by
  rw [he]
  unfold ParseSpec.Trimmed
  by_cases h0 : (jsonTrim input).size = 0
  · exact Or.inl h0
  · right
    obtain ⟨h1, h2⟩ := jsonTrimL_ends input.toList
    have hl : (jsonTrim input).toList = jsonTrimL input.toList := jsonTrim_toList input
    have hsize : (jsonTrimL input.toList).length = (jsonTrim input).size := by rw [← hl]; simp
    constructor
    · cases hj : jsonTrimL input.toList with
      | nil => rw [hj] at hsize; simp at hsize; omega
      | cons x r =>
        have : (jsonTrim input).getD 0 0 = x := by
          rw [Array.getD_eq_getD_getElem?, ← Array.getElem?_toList, hl, hj]; rfl
        rw [this]; exact h1 x r hj
    · have hne : jsonTrimL input.toList ≠ [] := by
        intro e; rw [e] at hsize; simp at hsize; omega
      have hlast : (jsonTrimL input.toList).getLast? = some ((jsonTrim input).getD ((jsonTrim input).size - 1) 0) := by
        rw [List.getLast?_eq_getElem?, hsize, Array.getD_eq_getD_getElem?, ← Array.getElem?_toList, hl]
        have hlt : (jsonTrim input).size - 1 < (jsonTrimL input.toList).length := by omega
        rw [List.getElem?_eq_getElem hlt]; rfl
      exact h2 _ hlast

/-- **Accepted texts are parsed, to the grammar's value.** -/
theorem parse_accepts (cfg : Cfg) (input : Bytes) (he : EdgeOK input) (hsz : SizeOK (trimSpace input)) (v : Spec.JVal)
    (h : Spec.containerText (jsonTrim input).toList = .accept v) :
    ∃ pj lv, parse cfg input = .ok pj ∧ WalkLayout.OkRoots pj [lv] 0 ∧ WalkLayout.Tight lv ∧ erase lv = ofSpec v ∧
      (cfg.copyStrings = true → CopyIndep.Copied pj lv) ∧ WF pj [ofSpec v] ∧
      owalk pj = .ok [DecodeSound.toOVal (ofSpec v)] ∧ pj.msg = trimSpace input := by
  rw [← he] at h
  obtain ⟨idx, m', g, m, hs1, hrun, hfin, hpm, lv, hroots, hlv⟩ :=
    ParseSpec.parseMsg_accepts (fun nd msg => scanFacts nd msg) strFacts roundsFacts cfg (trimSpace input) hsz v h
  obtain ⟨⟨h1, h2, h3⟩, _, _⟩ := ParseWF.run_wf cfg false (trimSpace input) idx m' m g hsz hs1 hrun hfin
  rw [hroots] at h1 h2 h3
  have hp : parse cfg input = .ok (pjOf m (trimSpace input)) := by
    unfold parse; rw [parseAny_eq, hpm]
  obtain ⟨ds, hw, _, hwf, hds⟩ := Bridge.owalk_eq_decode _ [lv] h1 h2
  refine ⟨_, lv, hp, h1, h2 lv (by simp), hlv, fun hc => h3 hc lv (by simp), ?_, ?_, rfl⟩
  · simpa [hlv] using hwf
  · rw [hw, hds]; simp [hlv]

/-- **Everything else is rejected** (with an error and no result). -/
theorem parse_rejects (cfg : Cfg) (input : Bytes) (he : EdgeOK input) (hsz : SizeOK (trimSpace input))
    (h : Spec.containerText (jsonTrim input).toList = .reject) : parse cfg input = .error .generic := by
  rw [← he] at h
  have := ParseSpec.parseMsg_rejects (fun nd msg => scanFacts nd msg) strFacts roundsFacts cfg (trimSpace input) hsz h
  unfold parse; rw [parseAny_eq, this]

/-- **Parse succeeds iff the text is a JSON container text** (texts the specification declares outside the claim —
    ill-formed surrogate escapes, non-UTF-8 bytes inside strings — excepted). -/
theorem parse_iff (cfg : Cfg) (input : Bytes) (he : EdgeOK input) (hsz : SizeOK (trimSpace input))
    (hin : Spec.containerText (jsonTrim input).toList ≠ .outside) :
    (∃ pj, parse cfg input = .ok pj) ↔ ∃ v, Spec.containerText (jsonTrim input).toList = .accept v := by
  constructor
  · rintro ⟨pj, hp⟩
    cases hv : Spec.containerText (jsonTrim input).toList with
    | accept v => exact ⟨v, rfl⟩
    | reject => rw [parse_rejects cfg input he hsz hv] at hp; cases hp
    | outside => exact absurd hv hin
  · rintro ⟨v, hv⟩
    obtain ⟨pj, _, hp, _⟩ := parse_accepts cfg input he hsz v hv
    exact ⟨pj, hp⟩

/-- **ParseND: every non-blank line a container text ⇒ accepted, one root per line, in order, with the values.** -/
theorem parseND_accepts (cfg : Cfg) (input : Bytes) (he : EdgeOK input) (hsz : SizeOK (trimSpace input)) (vs : List Spec.JVal)
    (h : Spec.ndText (jsonTrim input).toList = .accept (.arr vs)) :
    ∃ pj lvs, parseND cfg input = .ok pj ∧ WalkLayout.OkRoots pj lvs 0 ∧ (∀ v ∈ lvs, WalkLayout.Tight v) ∧
      lvs.map erase = vs.map ofSpec ∧ (cfg.copyStrings = true → ∀ v ∈ lvs, CopyIndep.Copied pj v) ∧
      WF pj (vs.map ofSpec) ∧ owalk pj = .ok ((vs.map ofSpec).map DecodeSound.toOVal) := by
  have ht := trimmed_of_edge input he
  rw [← he] at h
  obtain ⟨idx, m', g, m, hs1, hrun, hfin, hpm, hroots⟩ :=
    ParseSpec.parseMsgND_accepts (fun nd msg => scanFacts nd msg) strFacts roundsFacts cfg (trimSpace input) hsz ht vs h
  obtain ⟨⟨h1, h2, h3⟩, _, _⟩ := ParseWF.run_wf cfg true (trimSpace input) idx m' m g hsz hs1 hrun hfin
  have hp : parseND cfg input = .ok (pjOf m (trimSpace input)) := by
    unfold parseND; rw [parseAny_eq, hpm]
  obtain ⟨ds, hw, _, hwf, hds⟩ := Bridge.owalk_eq_decode _ g.roots h1 h2
  refine ⟨_, g.roots, hp, h1, h2, hroots, h3, ?_, ?_⟩
  · rw [← hroots]; exact hwf
  · rw [hw, hds, hroots]

theorem parseND_rejects (cfg : Cfg) (input : Bytes) (he : EdgeOK input) (hsz : SizeOK (trimSpace input))
    (h : Spec.ndText (jsonTrim input).toList = .reject) : parseND cfg input = .error .generic := by
  have ht := trimmed_of_edge input he
  rw [← he] at h
  have := ParseSpec.parseMsgND_rejects (fun nd msg => scanFacts nd msg) strFacts roundsFacts cfg (trimSpace input) hsz ht h
  unfold parseND; rw [parseAny_eq, this]

end SJ.ParseIff
