import SJ.Proofs.Edit
/-
C13, the string case: `SetString`/`SetStringBytes` appends the new bytes to the string buffer and rewrites the two
words of the addressed value; every other value — including every other string, wherever it is stored — is
untouched.
-/
namespace SJ.Layout
open SJ SJ.Generated

/-- the word `SetStringBytes` writes: tag, buffer flag, offset (plain arithmetic on `toNat`) -/
theorem flagOr_toNat (n : UInt64) (h : n < 0x80000000000000) : (wSTRINGBUFBIT ||| n).toNat = 2^55 + n.toNat := by
  have h' : n.toNat < 2^55 := by rw [UInt64.lt_iff_toNat_lt] at h; exact h
  have e : wSTRINGBUFBIT.toNat = 1 <<< 55 := by decide
  rw [UInt64.toNat_or, e, ← Nat.shiftLeft_add_eq_or_of_lt h' 1]
  simp [Nat.shiftLeft_eq]
theorem strWord_eq (n : UInt64) : mkWord tagString wSTRINGBUFBIT ||| n = mkWord tagString (wSTRINGBUFBIT ||| n) := by
  unfold mkWord; exact UInt64.or_assoc _ _ _
theorem flagOr_lt (n : UInt64) (h : n < 0x80000000000000) : wSTRINGBUFBIT ||| n < 0x100000000000000 := by
  have h' : n.toNat < 2^55 := by rw [UInt64.lt_iff_toNat_lt] at h; exact h
  rw [UInt64.lt_iff_toNat_lt, flagOr_toNat n h]
  show 2^55 + n.toNat < 2^56
  omega
theorem strWord_tag (n : UInt64) (h : n < 0x80000000000000) :
    tagOf (mkWord tagString wSTRINGBUFBIT ||| n) = tagString := by
  rw [strWord_eq, tagOf_mkWord _ _ (flagOr_lt n h)]
theorem strWord_flag (n : UInt64) (h : n < 0x80000000000000) :
    (payloadOf (mkWord tagString wSTRINGBUFBIT ||| n) &&& wSTRINGBUFBIT == 0) = false := by
  have h' : n.toNat < 2^55 := by rw [UInt64.lt_iff_toNat_lt] at h; exact h
  rw [strWord_eq, payloadOf_mkWord _ _ (flagOr_lt n h)]
  have : ((wSTRINGBUFBIT ||| n) &&& wSTRINGBUFBIT).toNat ≠ 0 := by
    have e : wSTRINGBUFBIT.toNat = 2^55 := by decide
    rw [UInt64.toNat_and, flagOr_toNat n h, e]
    intro hz
    have ht : ((2^55 + n.toNat) &&& 2^55).testBit 55 = true := by
      rw [Nat.testBit_and, Nat.testBit_two_pow_add_eq, Nat.testBit_lt_two_pow h', Nat.testBit_two_pow_self]; rfl
    rw [hz] at ht
    simp at ht
  have hne : (wSTRINGBUFBIT ||| n) &&& wSTRINGBUFBIT ≠ 0 := fun hz => this (by rw [hz]; rfl)
  simpa using hne
theorem strWord_off (n : UInt64) (h : n < 0x80000000000000) :
    payloadOf (mkWord tagString wSTRINGBUFBIT ||| n) &&& wSTRINGBUFMASK = n := by
  have h' : n.toNat < 2^55 := by rw [UInt64.lt_iff_toNat_lt] at h; exact h
  rw [strWord_eq, payloadOf_mkWord _ _ (flagOr_lt n h)]
  apply UInt64.toNat_inj.mp
  have e : wSTRINGBUFMASK.toNat = 2^55 - 1 := by decide
  rw [UInt64.toNat_and, flagOr_toNat n h, e, Nat.and_two_pow_sub_one_eq_mod]
  omega

/-- appending to the string buffer changes no existing string reference -/
theorem stringByteAt_append (pj : PJ) (extra : Bytes) (o l : UInt64) (s : Bytes)
    (h : stringByteAt pj o l = .ok s) : stringByteAt { pj with strings := pj.strings ++ extra } o l = .ok s := by
  unfold stringByteAt at h ⊢
  by_cases hb : (o &&& wSTRINGBUFBIT == 0) = true
  · simp only [hb, if_true] at h ⊢; exact h
  · simp only [hb] at h ⊢
    simp only [Bool.false_eq_true, if_false] at h ⊢
    split at h
    · cases h
    · rename_i hc
      have hc1 : ¬ ((o &&& wSTRINGBUFMASK) + l).toNat > pj.strings.size := fun x => hc (Or.inl x)
      have hc2 : ¬ (o &&& wSTRINGBUFMASK) + l < (o &&& wSTRINGBUFMASK) := fun x => hc (Or.inr x)
      have : ¬ (((o &&& wSTRINGBUFMASK) + l).toNat > (pj.strings ++ extra).size ∨ (o &&& wSTRINGBUFMASK) + l < (o &&& wSTRINGBUFMASK)) := by
        simp only [Array.size_append]; intro x; rcases x with x | x
        · omega
        · exact hc2 x
      rw [if_neg this]
      simp only [Res.ok.injEq] at h ⊢
      rw [← h]
      simp only [slice]
      generalize (o &&& wSTRINGBUFMASK).toNat = a
      generalize ((o &&& wSTRINGBUFMASK) + l).toNat = b at hc1
      rw [Array.extract_append]
      have hz : b - pj.strings.size = 0 := by omega
      rw [hz]
      simp

/-- **C13 (strings).** For every located document `v` on the tape, every two-word scalar node at `q` and every
    iterator on it whose tag passes the gate: `SetStringBytes sv` succeeds, rewrites only the two words of that node
    and appends `sv` to the string buffer; the tape then holds `v` with exactly that node replaced by the string
    `sv` — all other strings, shared or not, still read as before. (`< 2^55`: the offset must fit below the flag.) -/
theorem setString_doc (pj : PJ) (v : LVal) (hok : Ok pj v) (q : Nat) (hnode : HasNode q (q + 2) v) (i : Iter)
    (hoff : i.off = q + 1) (hv : i.off < i.lim) (ht : inCase (caseOf swSetStringBytes 0) i.t = true) (sv : Bytes)
    (hsmall : pj.strings.size + sv.size < 2^55) :
    ∃ pj' i', i.setStringBytes pj sv = .ok (pj', i') ∧ Ok pj' (substV q (.str sv.toList q) v) ∧
      pj'.strings = pj.strings ++ sv ∧ pj'.msg = pj.msg ∧ pj'.tape.size = pj.tape.size := by
  have hsz := node_in_tape pj q (q+2) v hok hnode
  obtain ⟨pj1, h1, hs, hm, hz, hw0, hw1, hfr⟩ :=
    set2_spec pj i q hoff hv hsz (mkWord tagString wSTRINGBUFBIT ||| UInt64.ofNat pj.strings.size) (UInt64.ofNat sv.size)
  refine ⟨{ pj1 with strings := pj.strings ++ sv }, { i with t := tagString, cur := mkWord tagString wSTRINGBUFBIT ||| UInt64.ofNat pj.strings.size }, ?_, ?_, rfl, hm, hz⟩
  · simp only [Iter.setStringBytes, ht, if_true, h1, Res.bind_ok]
  · have hn55 : UInt64.ofNat pj.strings.size < 0x80000000000000 := by
      rw [UInt64.lt_iff_toNat_lt]
      have : (UInt64.ofNat pj.strings.size).toNat = pj.strings.size := by
        simp only [UInt64.toNat_ofNat']; exact Nat.mod_eq_of_lt (by omega)
      rw [this]; show pj.strings.size < 36028797018963968; omega
    have hA : AgreeOut pj { pj1 with strings := pj.strings ++ sv } q (q+2) :=
      ⟨fun k hk => hfr k (by omega) (by omega), fun o l s h => by
        have h' : stringByteAt { pj with strings := pj.strings ++ sv } o l = .ok s := stringByteAt_append pj sv o l s h
        simpa only [stringByteAt, hm] using h'⟩
    have hn : Ok { pj1 with strings := pj.strings ++ sv } (.str sv.toList q) := by
      simp only [Ok, StrAt]
      refine ⟨_, _, hw0, hw1, strWord_tag _ hn55, ?_⟩
      unfold stringByteAt
      rw [strWord_flag _ hn55]
      simp only [Bool.false_eq_true, if_false, strWord_off _ hn55]
      have hsum : (UInt64.ofNat pj.strings.size + UInt64.ofNat sv.size).toNat = pj.strings.size + sv.size := by
        simp only [UInt64.toNat_add, UInt64.toNat_ofNat']
        rw [Nat.mod_eq_of_lt (a := pj.strings.size) (by omega), Nat.mod_eq_of_lt (a := sv.size) (by omega)]
        exact Nat.mod_eq_of_lt (by omega)
      have hlo : (UInt64.ofNat pj.strings.size).toNat = pj.strings.size := by
        simp only [UInt64.toNat_ofNat']; exact Nat.mod_eq_of_lt (by omega)
      have hc : ¬ ((UInt64.ofNat pj.strings.size + UInt64.ofNat sv.size).toNat > (pj.strings ++ sv).size ∨
          UInt64.ofNat pj.strings.size + UInt64.ofNat sv.size < UInt64.ofNat pj.strings.size) := by
        rw [UInt64.lt_iff_toNat_lt, hsum, hlo]; simp only [Array.size_append]; omega
      rw [if_neg hc]
      simp only [slice, hsum, hlo, Res.ok.injEq]
      rw [Array.extract_append]
      simp
    exact (subst_ok hA hn rfl (Nat.le_refl _) (gap_refl _ _) v hok hnode).1

end SJ.Layout
