import SJ.Proofs.GoMarshalLemmas
set_option linter.unusedVariables false
set_option linter.unusedSimpArgs false
/-
GoMarshalStep — the cases of `switch i.t` in the write loop of `Iter.MarshalJSONBuffer` (see GoMarshal.lean).

  value cases (`SimS … (ValP … true)`: the case runs to its end with `valueDone = true`, or returns an error):
    `case_string`, `case_int`, `case_uint`, `case_float`, `case_null`, `case_true`, `case_false`,
    `objEnd_run`, `arrEnd_run` (stack check, pop: `pop_bot` keeps the bottom entry);
  cases that end in `continue` (`StepSimC`): `case_objStart`, `case_arrStart`, `case_end`, `root_tail_sim`;
  `root_sim`: the whole `case TagRoot` with its nested switch — `break tagswitch` (flag set by `.brkL`, caught and
    reset by the labelled switch: `catchL`, `Rep.clearBrk`), `break writeloop` (`catchL_brk`: passes through because
    the flag is not set), the two error returns, and the path that enters the root;
  `body_*`: the model's `WalkSafe.body` for one tag (`rfl` after rewriting the tag);
  `body_sim`: the tag switch followed by the section after it IS `WalkSafe.body`, for every tag (unknown tags included).
-/
namespace SJ.GoMarshal
open SJ SJ.GoSem SJ.Generated SJ.GoIter SJ.GoObject

attribute [local simp] exec exec1 execCases evalE evalEs isOneOf binop convert ofE copyFields bindParams
  iterFields runFun tblLookup

theorem Rep.setTmp {pj : PJ} {e : Env} {s : MState} (h : Rep pj e s) : Rep pj (e.set "tmpBuf" (.bytes #[])) s := by
  obtain ⟨d1, d2, d3, d4, d5⟩ := iterAt_get_i _ _ h.it
  refine ⟨?_, ?_, ?_, ?_, ?_, ?_, ?_⟩
  · apply iterAt_of_gets <;> simp [Env.get_set, *]
  all_goals simp [Env.get_set]
  · exact h.stack
  · exact h.dst
  · exact h.strs
  · exact h.msg
  · exact h.nobrk

/-- the property a value case establishes: `valueDone` is set -/
def ValP (pj : PJ) (L : Nat) (done : Bool) (e1 : Env) (s1 : MState) : Prop :=
  Rep pj e1 s1 ∧ Inv pj s1 ∧ s1.i.lim = L ∧ e1.get "valueDone" = some (.bool done)

theorem ErrOut.final {o : Out} (h : ErrOut o) : Out.final o = true := by
  obtain ⟨st, v, rfl⟩ := h; rfl

theorem SimS.catchL {pj : PJ} {P : Env → MState → Prop} {o : Out} {r : Res MState} (h : SimS pj P o r) :
    catchL o = o := by
  cases r with
  | ok s1 => obtain ⟨e1, rfl, _⟩ := h; rfl
  | error e => obtain ⟨st, v, rfl⟩ := h; rfl
  | panic => simp only [SimS] at h; subst h; rfl
  | diverge => exact h.elim

/-- a section followed by the rest of the body -/
theorem SimS.bind_step {pj : PJ} {L : Nat} {P : Env → MState → Prop} {o : Out} {r : Res MState}
    {k : MState → Res (MState ⊕ MState)} {rest : List Stmt} {f : Nat} (h : SimS pj P o r)
    (hk : ∀ e1 s1, P e1 s1 → StepSim pj L (exec goFuns f rest ⟨e1, pj.tape⟩) (k s1)) :
    StepSim pj L (match (generalizing := false) o with | .normal s' => exec goFuns f rest s' | o => o) (r >>= k) := by
  cases r with
  | ok s1 =>
    obtain ⟨e1, rfl, hp⟩ := h
    exact hk e1 s1 hp
  | error e => obtain ⟨st, v, rfl⟩ := h; exact ⟨st, v, rfl⟩
  | panic => simp only [SimS] at h; subst h; rfl
  | diverge => exact h.elim

/-! ### `case TagString` -/

def strRest : List Stmt := (tcase 1).drop 1
theorem tcase1_eq : tcase 1 = .callAssign ["sb", "err"] "i" "Iter.StringBytes" [] [] :: strRest := rfl

theorem strRest_ok (e : Env) (tape : Array UInt64) (f : Nat) (d b : Bytes) (hd : e.get "dst" = some (.bytes d))
    (hsb : e.get "sb" = some (.bytes b)) (herr : e.get "err" = some (.bool false))
    (htmp : e.get "tmpBuf" = some (.bytes #[])) :
    exec goFuns f strRest ⟨e, tape⟩ =
      .normal ⟨(((((e.set "dst" (.bytes (d.push 34))).set "dst" (.bytes (escapeBytes (d.push 34) b))).set "dst"
        (.bytes (Iter.quoted d b))).set "tmpBuf" (.bytes #[])).set "valueDone" (.bool true)), tape⟩ := by
  simp [strRest, tcase, tagSwitch, bodyL, firstLoop, goIter_MarshalJSONBuffer, hd, hsb, herr, htmp, Env.get_set, extCall,
    assignTargets, Iter.quoted]

theorem strRest_err (e : Env) (tape : Array UInt64) (f : Nat) (herr : e.get "err" = some (.bool true)) :
    exec goFuns f strRest ⟨e, tape⟩ = .ret ⟨e, tape⟩ [.bytes #[], .bool true] := by
  simp [strRest, tcase, tagSwitch, bodyL, firstLoop, goIter_MarshalJSONBuffer, herr]

theorem case_string (pj : PJ) (hb : BufOK pj) (e : Env) (s : MState) (f : Nat) (hR : Rep pj e s) (hI : Inv pj s)
    (hf : 1 ≤ f) :
    SimS pj (ValP pj s.i.lim true) (exec goFuns (f + 1) (tcase 1) ⟨e, pj.tape⟩)
      ((s.i.stringBytes pj).bind (fun sb => .ok { s with dst := Iter.quoted s.dst sb })) := by
  rw [tcase1_eq, exec]
  have hsb := call_val pj ⟨e, pj.tape⟩ s.i "Iter.StringBytes" goIter_StringBytes.body Val.bytes (.bytes #[]) "sb" "err"
    (by decide) (by decide) f (s.i.stringBytes pj) rfl (sb_simK pj s.i hI.lim hb f hf) hR.it hR.keeps
  cases hr : s.i.stringBytes pj with
  | ok b =>
    rw [hr] at hsb
    simp only [CallPost] at hsb
    rw [hsb]
    simp only [Res.bind_ok]
    have hR1 : Rep pj (((afterCall e pj s.i).set "sb" (.bytes b)).set "err" (.bool false)) s :=
      (hR.called.set "sb" _ (by decide)).set "err" _ (by decide)
    have hsb1 : (((afterCall e pj s.i).set "sb" (.bytes b)).set "err" (.bool false)).get "sb" = some (.bytes b) := by
      simp [Env.get_set]
    have herr1 : (((afterCall e pj s.i).set "sb" (.bytes b)).set "err" (.bool false)).get "err" =
        some (.bool false) := by simp [Env.get_set]
    generalize ((afterCall e pj s.i).set "sb" (.bytes b)).set "err" (.bool false) = e1 at hR1 hsb1 herr1
    rw [strRest_ok e1 pj.tape (f + 1) s.dst b hR1.dst hsb1 herr1 hR1.tmp]
    refine ⟨_, rfl, ?_, ⟨hI.lim, hI.cur, hI.bot⟩, rfl, Env.get_set_self _ _ _⟩
    exact ((((hR1.setDst _).setDst _).setDst (Iter.quoted s.dst b)).setTmp).set "valueDone" _ (by decide)
  | error er =>
    rw [hr] at hsb
    simp only [CallPost] at hsb
    rw [hsb]
    simp only []
    rw [strRest_err _ pj.tape (f + 1) (by simp [Env.get_set])]
    exact ⟨_, _, rfl⟩
  | panic =>
    rw [hr] at hsb
    simp only [CallPost] at hsb
    rw [hsb]
    simp [SimS, Res.bind]
  | diverge => rw [hr] at hsb; exact hsb.elim


/-! ### `case TagInteger`, `case TagUint`, `case TagFloat` -/

def intRest : List Stmt := (tcase 2).drop 1
theorem tcase2_eq : tcase 2 = .callAssign ["v", "err"] "i" "Iter.Int" [] [] :: intRest := rfl
def uintRest : List Stmt := (tcase 3).drop 1
theorem tcase3_eq : tcase 3 = .callAssign ["v", "err"] "i" "Iter.Uint" [] [] :: uintRest := rfl
def floatRest : List Stmt := (tcase 4).drop 1
theorem tcase4_eq : tcase 4 = .callAssign ["v", "err"] "i" "Iter.Float" [] [] :: floatRest := rfl

theorem intRest_ok (e : Env) (tape : Array UInt64) (f : Nat) (d : Bytes) (z : Int) (hd : e.get "dst" = some (.bytes d))
    (hv : e.get "v" = some (.int z)) (herr : e.get "err" = some (.bool false)) :
    exec goFuns f intRest ⟨e, tape⟩ =
      .normal ⟨(e.set "dst" (.bytes (d ++ intToAscii z))).set "valueDone" (.bool true), tape⟩ := by
  simp [intRest, tcase, tagSwitch, bodyL, firstLoop, goIter_MarshalJSONBuffer, hd, hv, herr, Env.get_set, extCall,
    assignTargets]

theorem intRest_err (e : Env) (tape : Array UInt64) (f : Nat) (herr : e.get "err" = some (.bool true)) :
    exec goFuns f intRest ⟨e, tape⟩ = .ret ⟨e, tape⟩ [.bytes #[], .bool true] := by
  simp [intRest, tcase, tagSwitch, bodyL, firstLoop, goIter_MarshalJSONBuffer, herr]

theorem uintRest_ok (e : Env) (tape : Array UInt64) (f : Nat) (d : Bytes) (w : UInt64) (hd : e.get "dst" = some (.bytes d))
    (hv : e.get "v" = some (.u64 w)) (herr : e.get "err" = some (.bool false)) :
    exec goFuns f uintRest ⟨e, tape⟩ =
      .normal ⟨(e.set "dst" (.bytes (d ++ FloatFmt.natToAscii w.toNat))).set "valueDone" (.bool true), tape⟩ := by
  simp [uintRest, tcase, tagSwitch, bodyL, firstLoop, goIter_MarshalJSONBuffer, hd, hv, herr, Env.get_set, extCall,
    assignTargets]

theorem uintRest_err (e : Env) (tape : Array UInt64) (f : Nat) (herr : e.get "err" = some (.bool true)) :
    exec goFuns f uintRest ⟨e, tape⟩ = .ret ⟨e, tape⟩ [.bytes #[], .bool true] := by
  simp [uintRest, tcase, tagSwitch, bodyL, firstLoop, goIter_MarshalJSONBuffer, herr]

theorem floatRest_ok (e : Env) (tape : Array UInt64) (f : Nat) (d : Bytes) (w : UInt64) (hd : e.get "dst" = some (.bytes d))
    (hv : e.get "v" = some (.u64 w)) (herr : e.get "err" = some (.bool false)) :
    exec goFuns f floatRest ⟨e, tape⟩ =
      match FloatFmt.appendFloat w with
      | some b => .normal ⟨((((e.set "dst" (.bytes (d ++ b))).set "err" (.bool false)).set "err.range" (.bool false)).set
          "valueDone" (.bool true)), tape⟩
      | none => .ret ⟨((e.set "dst" (.bytes #[])).set "err" (.bool true)).set "err.range" (.bool false), tape⟩
          [.bytes #[], .bool true] := by
  cases ha : FloatFmt.appendFloat w <;>
  simp [floatRest, tcase, tagSwitch, bodyL, firstLoop, goIter_MarshalJSONBuffer, hd, hv, herr, Env.get_set, extCall,
    assignTargets, ha]

theorem floatRest_err (e : Env) (tape : Array UInt64) (f : Nat) (herr : e.get "err" = some (.bool true)) :
    exec goFuns f floatRest ⟨e, tape⟩ = .ret ⟨e, tape⟩ [.bytes #[], .bool true] := by
  simp [floatRest, tcase, tagSwitch, bodyL, firstLoop, goIter_MarshalJSONBuffer, herr]


theorem case_int (pj : PJ) (e : Env) (s : MState) (f : Nat) (hR : Rep pj e s) (hI : Inv pj s) :
    SimS pj (ValP pj s.i.lim true) (exec goFuns (f + 1) (tcase 2) ⟨e, pj.tape⟩)
      ((s.i.int pj).bind (fun v => .ok { s with dst := s.dst ++ intToAscii v })) := by
  rw [tcase2_eq, exec]
  have hc := call_val pj ⟨e, pj.tape⟩ s.i "Iter.Int" goIter_Int.body Val.int (.int 0) "v" "err"
    (by decide) (by decide) f (s.i.int pj) rfl (int_simK pj s.i f) hR.it hR.keeps
  cases hr : s.i.int pj with
  | ok z =>
    rw [hr] at hc
    simp only [CallPost] at hc
    rw [hc]
    simp only [Res.bind_ok]
    have hR1 : Rep pj (((afterCall e pj s.i).set "v" (.int z)).set "err" (.bool false)) s :=
      (hR.called.set "v" _ (by decide)).set "err" _ (by decide)
    have hv1 : (((afterCall e pj s.i).set "v" (.int z)).set "err" (.bool false)).get "v" = some (.int z) := by
      simp [Env.get_set]
    have herr1 : (((afterCall e pj s.i).set "v" (.int z)).set "err" (.bool false)).get "err" =
        some (.bool false) := by simp [Env.get_set]
    generalize ((afterCall e pj s.i).set "v" (.int z)).set "err" (.bool false) = e1 at hR1 hv1 herr1
    rw [intRest_ok e1 pj.tape (f + 1) s.dst z hR1.dst hv1 herr1]
    exact ⟨_, rfl, (hR1.setDst _).set "valueDone" _ (by decide), ⟨hI.lim, hI.cur, hI.bot⟩, rfl, Env.get_set_self _ _ _⟩
  | error er =>
    rw [hr] at hc
    simp only [CallPost] at hc
    rw [hc]
    simp only []
    rw [intRest_err _ pj.tape (f + 1) (by simp [Env.get_set])]
    exact ⟨_, _, rfl⟩
  | panic =>
    rw [hr] at hc
    simp only [CallPost] at hc
    rw [hc]
    simp [SimS, Res.bind]
  | diverge => rw [hr] at hc; exact hc.elim

theorem case_uint (pj : PJ) (e : Env) (s : MState) (f : Nat) (hR : Rep pj e s) (hI : Inv pj s) :
    SimS pj (ValP pj s.i.lim true) (exec goFuns (f + 1) (tcase 3) ⟨e, pj.tape⟩)
      ((s.i.uint pj).bind (fun v => .ok { s with dst := s.dst ++ FloatFmt.natToAscii v })) := by
  rw [tcase3_eq, exec]
  have hc := call_val pj ⟨e, pj.tape⟩ s.i "Iter.Uint" goIter_Uint.body (fun n => Val.u64 (UInt64.ofNat n)) (.u64 0) "v" "err"
    (by decide) (by decide) f (s.i.uint pj) rfl (uint_simK pj s.i f) hR.it hR.keeps
  cases hr : s.i.uint pj with
  | ok n =>
    have hn := GoNum.uint_lt pj s.i n hr
    rw [hr] at hc
    simp only [CallPost] at hc
    rw [hc]
    simp only [Res.bind_ok]
    have hR1 : Rep pj (((afterCall e pj s.i).set "v" (.u64 (UInt64.ofNat n))).set "err" (.bool false)) s :=
      (hR.called.set "v" _ (by decide)).set "err" _ (by decide)
    have hv1 : (((afterCall e pj s.i).set "v" (.u64 (UInt64.ofNat n))).set "err" (.bool false)).get "v" =
        some (.u64 (UInt64.ofNat n)) := by simp [Env.get_set]
    have herr1 : (((afterCall e pj s.i).set "v" (.u64 (UInt64.ofNat n))).set "err" (.bool false)).get "err" =
        some (.bool false) := by simp [Env.get_set]
    generalize ((afterCall e pj s.i).set "v" (.u64 (UInt64.ofNat n))).set "err" (.bool false) = e1 at hR1 hv1 herr1
    rw [uintRest_ok e1 pj.tape (f + 1) s.dst _ hR1.dst hv1 herr1]
    have hnn : (UInt64.ofNat n).toNat = n := by
      simp only [UInt64.toNat_ofNat']
      exact Nat.mod_eq_of_lt hn
    rw [hnn]
    exact ⟨_, rfl, (hR1.setDst _).set "valueDone" _ (by decide), ⟨hI.lim, hI.cur, hI.bot⟩, rfl, Env.get_set_self _ _ _⟩
  | error er =>
    rw [hr] at hc
    simp only [CallPost] at hc
    rw [hc]
    simp only []
    rw [uintRest_err _ pj.tape (f + 1) (by simp [Env.get_set])]
    exact ⟨_, _, rfl⟩
  | panic =>
    rw [hr] at hc
    simp only [CallPost] at hc
    rw [hc]
    simp [SimS, Res.bind]
  | diverge => rw [hr] at hc; exact hc.elim

/-- the model's `TagFloat` case up to `cont` -/
def floatPart (pj : PJ) (s : MState) : Res MState :=
  (s.i.float pj).bind (fun v => match FloatFmt.appendFloat v with
    | none => .error .generic
    | some b => .ok { s with dst := s.dst ++ b })

theorem case_float (pj : PJ) (e : Env) (s : MState) (f : Nat) (hR : Rep pj e s) (hI : Inv pj s) :
    SimS pj (ValP pj s.i.lim true) (exec goFuns (f + 1) (tcase 4) ⟨e, pj.tape⟩) (floatPart pj s) := by
  rw [tcase4_eq, exec]
  unfold floatPart
  have hc := call_val pj ⟨e, pj.tape⟩ s.i "Iter.Float" goIter_Float.body Val.u64 (.u64 0) "v" "err"
    (by decide) (by decide) f (s.i.float pj) rfl (float_simK pj s.i f) hR.it hR.keeps
  cases hr : s.i.float pj with
  | ok w =>
    rw [hr] at hc
    simp only [CallPost] at hc
    rw [hc]
    simp only [Res.bind_ok]
    have hR1 : Rep pj (((afterCall e pj s.i).set "v" (.u64 w)).set "err" (.bool false)) s :=
      (hR.called.set "v" _ (by decide)).set "err" _ (by decide)
    have hv1 : (((afterCall e pj s.i).set "v" (.u64 w)).set "err" (.bool false)).get "v" = some (.u64 w) := by
      simp [Env.get_set]
    have herr1 : (((afterCall e pj s.i).set "v" (.u64 w)).set "err" (.bool false)).get "err" =
        some (.bool false) := by simp [Env.get_set]
    generalize ((afterCall e pj s.i).set "v" (.u64 w)).set "err" (.bool false) = e1 at hR1 hv1 herr1
    rw [floatRest_ok e1 pj.tape (f + 1) s.dst w hR1.dst hv1 herr1]
    cases ha : FloatFmt.appendFloat w with
    | some b =>
      simp only [Res.bind, ha, SimS]
      exact ⟨_, rfl, (((hR1.setDst _).set "err" _ (by decide)).set "err.range" _ (by decide)).set "valueDone" _ (by decide),
        ⟨hI.lim, hI.cur, hI.bot⟩, rfl, Env.get_set_self _ _ _⟩
    | none =>
      simp only [Res.bind, ha, SimS]
      exact ⟨_, _, rfl⟩
  | error er =>
    rw [hr] at hc
    simp only [CallPost] at hc
    rw [hc]
    simp only []
    rw [floatRest_err _ pj.tape (f + 1) (by simp [Env.get_set])]
    exact ⟨_, _, rfl⟩
  | panic =>
    rw [hr] at hc
    simp only [CallPost] at hc
    rw [hc]
    simp [SimS, Res.bind]
  | diverge => rw [hr] at hc; exact hc.elim


/-! ### `case TagNull`, `TagBoolTrue`, `TagBoolFalse` -/

theorem lit_null : ([110, 117, 108, 108].map UInt8.ofNat).toArray = "null".toUTF8.data := by decide
theorem lit_true : ([116, 114, 117, 101].map UInt8.ofNat).toArray = "true".toUTF8.data := by decide
theorem lit_false : ([102, 97, 108, 115, 101].map UInt8.ofNat).toArray = "false".toUTF8.data := by decide

theorem case_null (pj : PJ) (e : Env) (s : MState) (f : Nat) (hR : Rep pj e s) (hI : Inv pj s) :
    ∃ e1, exec goFuns f (tcase 5) ⟨e, pj.tape⟩ = .normal ⟨e1, pj.tape⟩ ∧
      ValP pj s.i.lim true e1 { s with dst := s.dst ++ "null".toUTF8.data } := by
  refine ⟨(e.set "dst" (.bytes (s.dst ++ "null".toUTF8.data))).set "valueDone" (.bool true), ?_,
    (hR.setDst _).set "valueDone" _ (by decide), ⟨hI.lim, hI.cur, hI.bot⟩, rfl, Env.get_set_self _ _ _⟩
  rw [← lit_null]
  simp [tcase, tagSwitch, bodyL, firstLoop, goIter_MarshalJSONBuffer, hR.dst]

theorem case_true (pj : PJ) (e : Env) (s : MState) (f : Nat) (hR : Rep pj e s) (hI : Inv pj s) :
    ∃ e1, exec goFuns f (tcase 6) ⟨e, pj.tape⟩ = .normal ⟨e1, pj.tape⟩ ∧
      ValP pj s.i.lim true e1 { s with dst := s.dst ++ "true".toUTF8.data } := by
  refine ⟨(e.set "dst" (.bytes (s.dst ++ "true".toUTF8.data))).set "valueDone" (.bool true), ?_,
    (hR.setDst _).set "valueDone" _ (by decide), ⟨hI.lim, hI.cur, hI.bot⟩, rfl, Env.get_set_self _ _ _⟩
  rw [← lit_true]
  simp [tcase, tagSwitch, bodyL, firstLoop, goIter_MarshalJSONBuffer, hR.dst]

theorem case_false (pj : PJ) (e : Env) (s : MState) (f : Nat) (hR : Rep pj e s) (hI : Inv pj s) :
    ∃ e1, exec goFuns f (tcase 7) ⟨e, pj.tape⟩ = .normal ⟨e1, pj.tape⟩ ∧
      ValP pj s.i.lim true e1 { s with dst := s.dst ++ "false".toUTF8.data } := by
  refine ⟨(e.set "dst" (.bytes (s.dst ++ "false".toUTF8.data))).set "valueDone" (.bool true), ?_,
    (hR.setDst _).set "valueDone" _ (by decide), ⟨hI.lim, hI.cur, hI.bot⟩, rfl, Env.get_set_self _ _ _⟩
  rw [← lit_false]
  simp [tcase, tagSwitch, bodyL, firstLoop, goIter_MarshalJSONBuffer, hR.dst]

/-! ### `case TagObjectEnd`, `case TagArrayEnd` -/

theorem pop_bot (st : Array UInt8) (h0 : st[0]? = some 0) (hb : st.back! ≠ 0) : st.pop[0]? = some 0 := by
  have hsz : 2 ≤ st.size := by
    by_cases h : 2 ≤ st.size
    · exact h
    · exfalso
      have h1 : st.size = 1 := by
        have : 0 < st.size := by
          by_cases h0' : 0 < st.size
          · exact h0'
          · simp at h0'; simp [h0'] at h0
        omega
      apply hb
      simp only [Array.back!, h1, getElem!_def, h0]
  have : (0 : Nat) < st.pop.size := by simp; omega
  rw [Array.getElem?_eq_getElem this, Array.getElem_pop]
  rw [Array.getElem?_eq_getElem (by omega)] at h0
  exact h0

theorem eval_popE (e : Env) (tape : Array UInt64) (st : Array UInt8) (hS : e.get "stack" = some (.bytes st))
    (hsz : 0 < st.size) :
    evalE ⟨e, tape⟩ (.sliceB (.v "stack") (.int 0) (.bin .sub (.lenB (.v "stack")) (.int 1))) = .val (.bytes st.pop) := by
  have h1 : (0 : Int) ≤ (st.size : Int) - 1 := by omega
  have h2 : ((st.size : Int) - 1).toNat = st.size - 1 := by omega
  have h3 : (1 : Int) ≤ st.size ∧ (st.size : Int) - 1 ≤ st.size := by omega
  simp [hS, h1, h2, h3, Array.extract_eq_pop]


def endRest (k : Nat) : List Stmt := (tcase k).drop 1

theorem objEnd_run (e : Env) (tape : Array UInt64) (f : Nat) (st d : Bytes) (hS : e.get "stack" = some (.bytes st))
    (hd : e.get "dst" = some (.bytes d)) (hsz : 0 < st.size) :
    exec goFuns f (tcase 9) ⟨e, tape⟩ =
      if st.back! = 2 then
        .normal ⟨((e.set "dst" (.bytes (d.push 125))).set "stack" (.bytes st.pop)).set "valueDone" (.bool true), tape⟩
      else .ret ⟨e.set "dst" (.bytes (d.push 125)), tape⟩ [.bytes (d.push 125), .bool true] := by
  have hS1 : (e.set "dst" (.bytes (d.push 125))).get "stack" = some (.bytes st) := by
    rw [Env.get_set_ne _ _ (by decide), hS]
  have htop := eval_top (e.set "dst" (.bytes (d.push 125))) tape st hS1 hsz
  have hpop := eval_popE (e.set "dst" (.bytes (d.push 125))) tape st hS1 hsz
  have hc : tcase 9 = [.assign "dst" (.pushB (.v "dst") (.u8 125)),
      .ite (.bin .ne topE (.u8 2)) [.ret [.v "dst", .bool true]] [],
      .assign "stack" (.sliceB (.v "stack") (.int 0) (.bin .sub (.lenB (.v "stack")) (.int 1))),
      .assign "valueDone" (.bool true)] := rfl
  have h125 : UInt8.ofNat 125 = 125 := rfl
  rw [hc, exec, exec1]
  simp only [evalE, hd, h125]
  rw [exec, exec1, evalE, htop]
  have a1 : (0 : Int) ≤ (st.size : Int) - 1 := by omega
  have a2 : ((st.size : Int) - 1).toNat = st.size - 1 := by omega
  have a3 : (1 : Int) ≤ st.size ∧ (st.size : Int) - 1 ≤ st.size := by omega
  by_cases h : st.back! = 2
  · simp [h, hS, Env.get_set, a1, a2, a3, Array.extract_eq_pop]
  · have hb : (st.back! != 2) = true := by simp [h]
    simp [h, hb, Env.get_set]

theorem arrEnd_run (e : Env) (tape : Array UInt64) (f : Nat) (st d : Bytes) (hS : e.get "stack" = some (.bytes st))
    (hd : e.get "dst" = some (.bytes d)) (hsz : 0 < st.size) :
    exec goFuns f (tcase 11) ⟨e, tape⟩ =
      if st.back! = 1 then
        .normal ⟨((e.set "dst" (.bytes (d.push 93))).set "stack" (.bytes st.pop)).set "valueDone" (.bool true), tape⟩
      else .ret ⟨e.set "dst" (.bytes (d.push 93)), tape⟩ [.bytes #[], .bool true] := by
  have hS1 : (e.set "dst" (.bytes (d.push 93))).get "stack" = some (.bytes st) := by
    rw [Env.get_set_ne _ _ (by decide), hS]
  have htop := eval_top (e.set "dst" (.bytes (d.push 93))) tape st hS1 hsz
  have hpop := eval_popE (e.set "dst" (.bytes (d.push 93))) tape st hS1 hsz
  have hc : tcase 11 = [.assign "dst" (.pushB (.v "dst") (.u8 93)),
      .ite (.bin .ne topE (.u8 1)) [.ret [.nilB, .bool true]] [],
      .assign "stack" (.sliceB (.v "stack") (.int 0) (.bin .sub (.lenB (.v "stack")) (.int 1))),
      .assign "valueDone" (.bool true)] := rfl
  have h93 : UInt8.ofNat 93 = 93 := rfl
  rw [hc, exec, exec1]
  simp only [evalE, hd, h93]
  rw [exec, exec1, evalE, htop]
  have a1 : (0 : Int) ≤ (st.size : Int) - 1 := by omega
  have a2 : ((st.size : Int) - 1).toNat = st.size - 1 := by omega
  have a3 : (1 : Int) ≤ st.size ∧ (st.size : Int) - 1 ≤ st.size := by omega
  by_cases h : st.back! = 1
  · simp [h, hS, Env.get_set, a1, a2, a3, Array.extract_eq_pop]
  · have hb : (st.back! != 1) = true := by simp [h]
    simp [h, hb, Env.get_set]


/-! ### `case TagObjectStart`, `case TagArrayStart`, `case TagEnd` -/

theorem Rep.setAddNext {pj : PJ} {e : Env} {s : MState} (h : Rep pj e s) (a : Int) :
    Rep pj (e.set "i.addNext" (.int a)) { s with i := { s.i with addNext := a } } := by
  obtain ⟨d1, d2, d3, d4, d5⟩ := iterAt_get_i _ _ h.it
  refine h.of_gets ?_ ?_ ?_ ?_ ?_ ?_ ?_
  · apply iterAt_of_gets <;> simp [Env.get_set, *]
  all_goals simp [Env.get_set]
  · exact h.stack
  · exact h.dst

theorem push_bot (st : Array UInt8) (x : UInt8) (h0 : st[0]? = some 0) : (st.push x)[0]? = some 0 := by
  have : 0 < st.size := by
    by_cases h0' : 0 < st.size
    · exact h0'
    · simp at h0'; simp [h0'] at h0
  rw [Array.getElem?_eq_getElem (by simp), Array.getElem_push_lt this]
  rw [Array.getElem?_eq_getElem this] at h0
  exact h0

theorem exec1_assign (funs : String → Option FunDef) (f : Nat) (n : String) (ex : Expr) (s : St) (v : Val)
    (h : evalE s ex = .val v) : exec1 funs f (.assign n ex) s = .normal { s with env := s.env.set n v } := by
  rw [exec1, h]

theorem objStart_pre (e : Env) (tape : Array UInt64) (f : Nat) (st d : Bytes) (hS : e.get "stack" = some (.bytes st))
    (hd : e.get "dst" = some (.bytes d)) :
    exec goFuns (f + 1) (tcase 8) ⟨e, tape⟩ =
      match exec1 goFuns (f + 1) (.call "i" "Iter.AdvanceInto" [])
        ⟨((e.set "dst" (.bytes (d.push 123))).set "stack" (.bytes (st.push 2))).set "i.addNext" (.int 0), tape⟩ with
      | .normal s' => .cont s'
      | o => o := by
  have hc : tcase 8 = [.assign "dst" (.pushB (.v "dst") (.u8 123)), .assign "stack" (.pushB (.v "stack") (.u8 2)),
    .assign "i.addNext" (.int 0), .call "i" "Iter.AdvanceInto" [], .cont] := rfl
  rw [hc, exec, exec1_assign _ _ _ _ _ (.bytes (d.push 123)) (by simp [hd])]
  simp only []
  rw [exec, exec1_assign _ _ _ _ _ (.bytes (st.push 2)) (by simp [hS, Env.get_set])]
  simp only []
  rw [exec, exec1_assign _ _ _ _ _ (.int 0) (by simp)]
  simp only []
  rw [exec]
  generalize exec1 goFuns (f + 1) (.call "i" "Iter.AdvanceInto" []) _ = out
  cases out <;> simp

theorem arrStart_pre (e : Env) (tape : Array UInt64) (f : Nat) (st d : Bytes) (hS : e.get "stack" = some (.bytes st))
    (hd : e.get "dst" = some (.bytes d)) :
    exec goFuns (f + 1) (tcase 10) ⟨e, tape⟩ =
      match exec1 goFuns (f + 1) (.call "i" "Iter.AdvanceInto" [])
        ⟨((e.set "dst" (.bytes (d.push 91))).set "stack" (.bytes (st.push 1))).set "i.addNext" (.int 0), tape⟩ with
      | .normal s' => .cont s'
      | o => o := by
  have hc : tcase 10 = [.assign "dst" (.pushB (.v "dst") (.u8 91)), .assign "stack" (.pushB (.v "stack") (.u8 1)),
    .assign "i.addNext" (.int 0), .call "i" "Iter.AdvanceInto" [], .cont] := rfl
  rw [hc, exec, exec1_assign _ _ _ _ _ (.bytes (d.push 91)) (by simp [hd])]
  simp only []
  rw [exec, exec1_assign _ _ _ _ _ (.bytes (st.push 1)) (by simp [hS, Env.get_set])]
  simp only []
  rw [exec, exec1_assign _ _ _ _ _ (.int 0) (by simp)]
  simp only []
  rw [exec]
  generalize exec1 goFuns (f + 1) (.call "i" "Iter.AdvanceInto" []) _ = out
  cases out <;> simp


/-- a case that ends in `continue` (or returns) -/
def StepSimC (pj : PJ) (L : Nat) (o : Out) (r : Res (MState ⊕ MState)) : Prop :=
  match r with
  | .ok (.inl s') => ∃ e', o = .cont ⟨e', pj.tape⟩ ∧ Rep pj e' s' ∧ Inv pj s' ∧ s'.i.lim = L
  | .ok (.inr _) => False
  | .error _ => ErrOut o
  | .panic => o = .panic
  | .diverge => False

/-- such a case inside the labelled switch, followed by the rest of the loop body (which it skips) -/
theorem StepSimC.finish {pj : PJ} {L : Nat} {o : Out} {r : Res (MState ⊕ MState)} (h : StepSimC pj L o r)
    (f : Nat) (rest : List Stmt) :
    StepSim pj L (match catchL o with | .normal s' => exec goFuns f rest s' | o => o) r := by
  cases r with
  | ok x =>
    cases x with
    | inl s' => obtain ⟨e', rfl, h1, h2, h3⟩ := h; exact ⟨e', Or.inr rfl, h1, h2, h3⟩
    | inr s' => exact h.elim
  | error e => obtain ⟨st, v, rfl⟩ := h; exact ⟨st, v, rfl⟩
  | panic => simp only [StepSimC] at h; subst h; rfl
  | diverge => exact h.elim

/-- `i.AdvanceInto(); continue` -/
theorem adv_cont (pj : PJ) (e : Env) (s : MState) (f : Nat) (hR : Rep pj e s) (hI : Inv pj s) (hf : s.i.lim + 8 ≤ f) :
    StepSimC pj s.i.lim
      (match exec1 goFuns (f + 1) (.call "i" "Iter.AdvanceInto" []) ⟨e, pj.tape⟩ with
        | .normal s' => .cont s'
        | o => o)
      (do let (i, _) ← s.i.advanceInto pj; .ok (.inl { s with i := i })) := by
  have hadv := call_adv pj ⟨e, pj.tape⟩ s.i f (by unfold fuelFor; omega) hI.lim hR.it rfl
  cases ha : s.i.advanceInto pj with
  | ok r =>
    obtain ⟨j', tg⟩ := r
    rw [ha] at hadv
    simp only [] at hadv
    rw [hadv]
    simp only [Res.bind_ok, StepSimC]
    obtain ⟨l1, l2⟩ := advanceInto_inv pj s.i j' tg ha
    refine ⟨_, rfl, hR.withIter j', ⟨?_, l2 hI.cur, hI.bot⟩, l1⟩
    simp only; rw [l1]; exact hI.lim
  | panic =>
    rw [ha] at hadv
    simp only [] at hadv
    rw [hadv]
    simp [StepSimC]
  | error e => rw [ha] at hadv; exact hadv.elim
  | diverge => rw [ha] at hadv; exact hadv.elim

theorem case_objStart (pj : PJ) (e : Env) (s : MState) (f : Nat) (hR : Rep pj e s) (hI : Inv pj s)
    (hf : s.i.lim + 8 ≤ f) :
    StepSimC pj s.i.lim (exec goFuns (f + 1) (tcase 8) ⟨e, pj.tape⟩)
      (do let (i, _) ← ({ s.i with addNext := 0 } : Iter).advanceInto pj
          .ok (.inl { i := i, dst := s.dst.push 123, stack := s.stack.push stackObject })) := by
  rw [objStart_pre e pj.tape f s.stack s.dst hR.stack hR.dst]
  have hR3 := ((hR.setDst (s.dst.push 123)).setStack (s.stack.push 2)).setAddNext 0
  exact adv_cont pj _ _ f hR3 ⟨hI.lim, hI.cur, push_bot _ _ hI.bot⟩ hf

theorem case_arrStart (pj : PJ) (e : Env) (s : MState) (f : Nat) (hR : Rep pj e s) (hI : Inv pj s)
    (hf : s.i.lim + 8 ≤ f) :
    StepSimC pj s.i.lim (exec goFuns (f + 1) (tcase 10) ⟨e, pj.tape⟩)
      (do let (i, _) ← ({ s.i with addNext := 0 } : Iter).advanceInto pj
          .ok (.inl { i := i, dst := s.dst.push 91, stack := s.stack.push stackArray })) := by
  rw [arrStart_pre e pj.tape f s.stack s.dst hR.stack hR.dst]
  have hR3 := ((hR.setDst (s.dst.push 91)).setStack (s.stack.push 1)).setAddNext 0
  exact adv_cont pj _ _ f hR3 ⟨hI.lim, hI.cur, push_bot _ _ hI.bot⟩ hf

def endD : Stmt := ((tcase 12).drop 1).headD .brk
theorem tcase12_eq : tcase 12 = [.callAssign ["#c3"] "i" "Iter.PeekNextTag" [] [], endD,
    .call "i" "Iter.AdvanceInto" [], .cont] := rfl

theorem endD_run (e : Env) (tape : Array UInt64) (f : Nat) (t : UInt8) (hc : e.get "#c3" = some (.u8 t)) :
    exec1 goFuns f endD ⟨e, tape⟩ = if t = 0 then .ret ⟨e, tape⟩ [.bytes #[], .bool true] else .normal ⟨e, tape⟩ := by
  by_cases h : t = 0
  · simp [endD, tcase, tagSwitch, bodyL, firstLoop, goIter_MarshalJSONBuffer, hc, h]
  · have hb : (t == 0) = false := by simp [h]
    simp [endD, tcase, tagSwitch, bodyL, firstLoop, goIter_MarshalJSONBuffer, hc, h, hb]

theorem case_end (pj : PJ) (e : Env) (s : MState) (f : Nat) (hR : Rep pj e s) (hI : Inv pj s)
    (hf : s.i.lim + 8 ≤ f) :
    StepSimC pj s.i.lim (exec goFuns (f + 1) (tcase 12) ⟨e, pj.tape⟩)
      (do let nt ← s.i.peekNextTag pj
          if nt == tagEnd then .error .generic else do
          let (i, _) ← s.i.advanceInto pj
          .ok (.inl { s with i := i })) := by
  rw [tcase12_eq, exec]
  have hpk := call_peek pj ⟨e, pj.tape⟩ s.i "#c3" (by decide) f (by unfold fuelFor; omega) hI.lim hR.it hR.keeps
  cases hp : s.i.peekNextTag pj with
  | ok nt =>
    rw [hp] at hpk
    simp only [] at hpk
    rw [hpk]
    simp only [Res.bind_ok]
    have hR3 : Rep pj ((afterCall e pj s.i).set "#c3" (.u8 nt)) s := (Rep.called hR).set "#c3" _ (by decide)
    have hc3 : ((afterCall e pj s.i).set "#c3" (.u8 nt)).get "#c3" = some (.u8 nt) := Env.get_set_self _ _ _
    generalize (afterCall e pj s.i).set "#c3" (.u8 nt) = e3 at hR3 hc3
    rw [exec, endD_run e3 pj.tape (f + 1) nt hc3]
    by_cases hnt : nt = 0
    · simp only [hnt, if_true, tagEnd, beq_self_eq_true, StepSimC]
      exact ⟨_, _, rfl⟩
    · have hnb : (nt == tagEnd) = false := by simp [tagEnd, hnt]
      simp only [hnt, if_false, hnb, Bool.false_eq_true]
      have := adv_cont pj e3 s f hR3 hI hf
      rw [exec]
      generalize exec1 goFuns (f + 1) (.call "i" "Iter.AdvanceInto" []) _ = out at this ⊢
      cases out <;> simpa using this
  | panic =>
    rw [hp] at hpk
    simp only [] at hpk
    rw [hpk]
    simp [StepSimC]
  | error e => rw [hp] at hpk; exact hpk.elim
  | diverge => rw [hp] at hpk; exact hpk.elim

/-! ### `case TagRoot` -/

def rootInner : List Stmt := match ((tcase 0).drop 1).headD .brk with | .ite _ t _ => t | _ => []
def rootTail : List Stmt := (tcase 0).drop 2
def rootPop : List Stmt := match (rootInner.drop 2).headD .brk with | .switch _ cs _ => ((cs.drop 0).headD ([], [])).2 | _ => []
theorem tcase0_eq : tcase 0 = .assign "isOpenRoot" (.bin .gt (.conv .int (.v "i.cur")) (.v "i.off")) ::
    .ite (.bin .gt (.lenB (.v "stack")) (.int 1)) rootInner [] :: rootTail := rfl
theorem rootInner_eq : rootInner = [.ite (.v "isOpenRoot") [.ret [.v "dst", .bool true]] [], .assign "l" topE,
    .switch (.v "l") [([.u8 3], rootPop), ([.u8 0], [.brk])] [.ret [.v "dst", .bool true]]] := rfl
theorem rootPop_eq : rootPop = [.callAssign ["#c2"] "i" "Iter.PeekNextTag" [] [],
    .ite (.bin .ne (.v "#c2") (.u8 0)) [.assign "dst" (.pushB (.v "dst") (.u8 10))] [],
    .assign "stack" (.sliceB (.v "stack") (.int 0) (.bin .sub (.lenB (.v "stack")) (.int 1))), .brkL "tagswitch"] := rfl
theorem rootTail_eq : rootTail = [.ite (.v "isOpenRoot") [.assign "i.addNext" (.int 0)] [],
    .call "i" "Iter.AdvanceInto" [], .assign "stack" (.pushB (.v "stack") (.u8 3)), .cont] := rfl

/-- `isOpenRoot` as the model computes it -/
def isOpen (i : Iter) : Bool := ((i.cur.toNat : Int) > i.off : Bool)

theorem root_open (e : Env) (tape : Array UInt64) (f : Nat) (i : Iter) (hI : iterAt e "i" = some i)
    (hcur : i.cur.toNat < 2^63) :
    exec1 goFuns f (.assign "isOpenRoot" (.bin .gt (.conv .int (.v "i.cur")) (.v "i.off"))) ⟨e, tape⟩ =
      .normal ⟨e.set "isOpenRoot" (.bool (isOpen i)), tape⟩ := by
  obtain ⟨d1, d2, d3, d4, d5⟩ := iterAt_get_i _ _ hI
  simp [d1, d3, toInt64_small _ hcur, isOpen]


/-- `i.AdvanceInto(); stack = append(stack, stackRoot); continue` -/
theorem adv_push_cont (pj : PJ) (e : Env) (s : MState) (f : Nat) (hR : Rep pj e s) (hI : Inv pj s)
    (hf : s.i.lim + 8 ≤ f) :
    StepSimC pj s.i.lim
      (exec goFuns (f + 1) [.call "i" "Iter.AdvanceInto" [], .assign "stack" (.pushB (.v "stack") (.u8 3)), .cont]
        ⟨e, pj.tape⟩)
      (do let (i, _) ← s.i.advanceInto pj; .ok (.inl { s with i := i, stack := s.stack.push stackRoot })) := by
  have hadv := call_adv pj ⟨e, pj.tape⟩ s.i f (by unfold fuelFor; omega) hI.lim hR.it rfl
  rw [exec]
  cases ha : s.i.advanceInto pj with
  | ok r =>
    obtain ⟨j', tg⟩ := r
    rw [ha] at hadv
    simp only [] at hadv
    rw [hadv]
    simp only [Res.bind_ok, StepSimC]
    obtain ⟨l1, l2⟩ := advanceInto_inv pj s.i j' tg ha
    have hR1 := hR.withIter j'
    rw [exec, exec1_assign _ _ _ _ _ (.bytes (s.stack.push 3)) (by simp [hR1.stack])]
    simp only [exec, exec1]
    refine ⟨_, rfl, hR1.setStack _, ⟨?_, l2 hI.cur, push_bot _ _ hI.bot⟩, l1⟩
    simp only; rw [l1]; exact hI.lim
  | panic =>
    rw [ha] at hadv
    simp only [] at hadv
    rw [hadv]
    simp [StepSimC]
  | error e => rw [ha] at hadv; exact hadv.elim
  | diverge => rw [ha] at hadv; exact hadv.elim

theorem root_tail_sim (pj : PJ) (e : Env) (s : MState) (f : Nat) (hR : Rep pj e s) (hI : Inv pj s)
    (ho : e.get "isOpenRoot" = some (.bool (isOpen s.i))) (hf : s.i.lim + 8 ≤ f) :
    StepSimC pj s.i.lim (exec goFuns (f + 1) rootTail ⟨e, pj.tape⟩)
      (do let (i, _) ← (if isOpen s.i then { s.i with addNext := 0 } else s.i).advanceInto pj
          .ok (.inl { s with i := i, stack := s.stack.push stackRoot })) := by
  rw [rootTail_eq, exec]
  cases hop : isOpen s.i with
  | true =>
    rw [hop] at ho
    have h1 : exec1 goFuns (f + 1) (.ite (.v "isOpenRoot") [.assign "i.addNext" (.int 0)] []) ⟨e, pj.tape⟩ =
        .normal ⟨e.set "i.addNext" (.int 0), pj.tape⟩ := by simp [ho]
    rw [h1]
    simp only [if_true]
    exact adv_push_cont pj _ _ f (hR.setAddNext 0) ⟨hI.lim, hI.cur, hI.bot⟩ hf
  | false =>
    rw [hop] at ho
    have h1 : exec1 goFuns (f + 1) (.ite (.v "isOpenRoot") [.assign "i.addNext" (.int 0)] []) ⟨e, pj.tape⟩ =
        .normal ⟨e, pj.tape⟩ := by simp [ho]
    rw [h1]
    simp only [Bool.false_eq_true, if_false]
    exact adv_push_cont pj _ _ f hR hI hf


theorem rootInner_open (e : Env) (tape : Array UInt64) (f : Nat) (d : Bytes)
    (ho : e.get "isOpenRoot" = some (.bool true)) (hd : e.get "dst" = some (.bytes d)) :
    exec goFuns f rootInner ⟨e, tape⟩ = .ret ⟨e, tape⟩ [.bytes d, .bool true] := by
  rw [rootInner_eq]
  simp [ho, hd]

theorem rootInner_run (e : Env) (tape : Array UInt64) (f : Nat) (st d : Bytes)
    (ho : e.get "isOpenRoot" = some (.bool false)) (hS : e.get "stack" = some (.bytes st))
    (hd : e.get "dst" = some (.bytes d)) (hsz : 0 < st.size) :
    exec goFuns f rootInner ⟨e, tape⟩ =
      if st.back! = 3 then
        (match exec goFuns f rootPop ⟨e.set "l" (.u8 st.back!), tape⟩ with
         | .normal s' => .normal s'
         | o => o)
      else if st.back! = 0 then .brk ⟨e.set "l" (.u8 st.back!), tape⟩
      else .ret ⟨e.set "l" (.u8 st.back!), tape⟩ [.bytes d, .bool true] := by
  have htop := eval_top e tape st hS hsz
  rw [rootInner_eq, exec]
  have h1 : exec1 goFuns f (.ite (.v "isOpenRoot") [.ret [.v "dst", .bool true]] []) ⟨e, tape⟩ = .normal ⟨e, tape⟩ := by
    simp [ho]
  rw [h1]
  simp only []
  rw [exec, exec1_assign _ _ _ _ _ _ htop]
  simp only []
  rw [exec, exec1]
  simp only [evalE, Env.get_set_self]
  by_cases h3 : st.back! = 3
  · simp [h3, -exec, -exec1]
    generalize exec goFuns f rootPop _ = out
    cases out <;> simp
  · have h3' : ¬ (3 : UInt8) = st.back! := fun h => h3 h.symm
    by_cases h0 : st.back! = 0
    · simp [h3, h3', h0]
    · have h0' : ¬ (0 : UInt8) = st.back! := fun h => h0 h.symm
      simp [h3, h3', h0, h0', Env.get_set, hd]

theorem rootPop_tail (e : Env) (tape : Array UInt64) (f : Nat) (nt : UInt8) (st d : Bytes)
    (hc : e.get "#c2" = some (.u8 nt)) (hS : e.get "stack" = some (.bytes st)) (hd : e.get "dst" = some (.bytes d))
    (hsz : 0 < st.size) :
    exec goFuns f (rootPop.drop 1) ⟨e, tape⟩ =
      .brk ⟨(((if nt = 0 then e else e.set "dst" (.bytes (d.push 10))).set "stack" (.bytes st.pop)).set "#break:tagswitch"
        (.bool true)), tape⟩ := by
  have a1 : (0 : Int) ≤ (st.size : Int) - 1 := by omega
  have a2 : ((st.size : Int) - 1).toNat = st.size - 1 := by omega
  have a3 : (1 : Int) ≤ st.size ∧ (st.size : Int) - 1 ≤ st.size := by omega
  rw [rootPop_eq]
  by_cases h : nt = 0
  · simp [h, hc, hS, a1, a2, a3, Array.extract_eq_pop]
  · have hb : (nt != 0) = true := by simp [h]
    simp [h, hb, hc, hS, hd, a1, a2, a3, Array.extract_eq_pop, Env.get_set]


theorem Rep.clearBrk {pj : PJ} {e : Env} {s : MState} (h : Rep pj e s) :
    Rep pj ((e.set "#break:tagswitch" (.bool true)).set "#break:tagswitch" (.bool false)) s := by
  obtain ⟨d1, d2, d3, d4, d5⟩ := iterAt_get_i _ _ h.it
  refine ⟨?_, ?_, ?_, ?_, ?_, ?_, ?_⟩
  · apply iterAt_of_gets <;> simp [Env.get_set, *]
  all_goals simp [Env.get_set]
  · exact h.stack
  · exact h.dst
  · exact h.strs
  · exact h.msg
  · exact h.tmp

theorem ite_len_gt1 (e : Env) (tape : Array UInt64) (f : Nat) (st : Bytes) (a b : List Stmt)
    (hS : e.get "stack" = some (.bytes st)) :
    exec1 goFuns f (.ite (.bin .gt (.lenB (.v "stack")) (.int 1)) a b) ⟨e, tape⟩ =
      if st.size > 1 then exec goFuns f a ⟨e, tape⟩ else exec goFuns f b ⟨e, tape⟩ := by
  rw [exec1]
  by_cases h : st.size > 1
  · have h' : (1 : Int) < st.size := by omega
    simp [hS, h, h', -exec]
  · have h' : ¬ (1 : Int) < st.size := by omega
    simp [hS, h, h', -exec]

theorem catchL_brk (e : Env) (tape : Array UInt64) (h : e.get "#break:tagswitch" ≠ some (.bool true)) :
    catchL (.brk ⟨e, tape⟩) = .brk ⟨e, tape⟩ := by
  unfold catchL
  simp only []
  try (split <;> first | rfl | (rename_i hh; exact absurd hh h))

theorem root_sim (pj : PJ) (e : Env) (s : MState) (f : Nat) (hR : Rep pj e s) (hI : Inv pj s)
    (hv : e.get "valueDone" = some (.bool false)) (ht : s.i.t = 114) (hf : s.i.lim + 8 ≤ f) :
    StepSim pj s.i.lim (exec goFuns (f + 1) (tagSwitch :: postSec) ⟨e, pj.tape⟩) (WalkSafe.body pj s) := by
  obtain ⟨d1, d2, d3, d4, d5⟩ := iterAt_get_i _ _ hR.it
  rw [ht] at d4
  rw [exec, sw_root e pj.tape (f + 1) d4, tcase0_eq, exec, root_open e pj.tape (f + 1) s.i hR.it hI.cur]
  simp only []
  have hR0 : Rep pj (e.set "isOpenRoot" (.bool (isOpen s.i))) s := hR.set _ _ (by decide)
  have ho0 : (e.set "isOpenRoot" (.bool (isOpen s.i))).get "isOpenRoot" = some (.bool (isOpen s.i)) :=
    Env.get_set_self _ _ _
  have hv0 : (e.set "isOpenRoot" (.bool (isOpen s.i))).get "valueDone" = some (.bool false) := by
    rw [Env.get_set_ne _ _ (by decide), hv]
  generalize e.set "isOpenRoot" (.bool (isOpen s.i)) = e0 at hR0 ho0 hv0
  rw [exec, ite_len_gt1 e0 pj.tape (f + 1) s.stack _ _ hR0.stack]
  have htr : (s.i.t == tagRoot) = true := by simp [ht, tagRoot]
  unfold WalkSafe.body
  simp only [htr, if_true]
  by_cases hsz : s.stack.size > 1
  · simp only [hsz, if_true]
    cases hop : isOpen s.i with
    | true =>
      rw [hop] at ho0
      have hop' : ((s.i.cur.toNat : Int) > s.i.off : Bool) = true := hop
      rw [rootInner_open e0 pj.tape (f + 1) s.dst ho0 hR0.dst]
      simp only [hop', if_true, StepSim, catchL]
      exact ⟨_, _, rfl⟩
    | false =>
      rw [hop] at ho0
      have hop' : ((s.i.cur.toNat : Int) > s.i.off : Bool) = false := hop
      rw [rootInner_run e0 pj.tape (f + 1) s.stack s.dst ho0 hR0.stack hR0.dst hI.pos]
      simp only [hop', Bool.false_eq_true, if_false]
      have hR1 : Rep pj (e0.set "l" (.u8 s.stack.back!)) s := hR0.set _ _ (by decide)
      have hv1 : (e0.set "l" (.u8 s.stack.back!)).get "valueDone" = some (.bool false) := by
        rw [Env.get_set_ne _ _ (by decide), hv0]
      generalize e0.set "l" (.u8 s.stack.back!) = e1 at hR1 hv1
      by_cases h3 : s.stack.back! = 3
      · have h3' : (s.stack.back! == stackRoot) = true := by simp [h3, stackRoot]
        simp only [h3, h3', if_true]
        rw [rootPop_eq, exec]
        have hpk := call_peek pj ⟨e1, pj.tape⟩ s.i "#c2" (by decide) f (by unfold fuelFor; omega) hI.lim hR1.it hR1.keeps
        cases hp : s.i.peekNextTag pj with
        | ok nt =>
          rw [hp] at hpk
          simp only [] at hpk
          rw [hpk]
          simp only [Res.bind_ok]
          have hR2 : Rep pj ((afterCall e1 pj s.i).set "#c2" (.u8 nt)) s := (Rep.called hR1).set "#c2" _ (by decide)
          have hc2 : ((afterCall e1 pj s.i).set "#c2" (.u8 nt)).get "#c2" = some (.u8 nt) := Env.get_set_self _ _ _
          have hv2 : ((afterCall e1 pj s.i).set "#c2" (.u8 nt)).get "valueDone" = some (.bool false) := by
            rw [Env.get_set_ne _ _ (by decide), get_afterCall_ne _ _ _ _ (by decide) (by decide) (by decide), hv1]
          generalize (afterCall e1 pj s.i).set "#c2" (.u8 nt) = e2 at hR2 hc2 hv2
          have htl := rootPop_tail e2 pj.tape (f + 1) nt s.stack s.dst hc2 hR2.stack hR2.dst hI.pos
          rw [rootPop_eq] at htl
          simp only [List.drop] at htl
          rw [htl]
          simp only [catchL, Env.get_set_self]
          -- the state the model continues with
          have hI' : Inv pj { s with dst := (if nt != tagEnd then s.dst.push 10 else s.dst), stack := s.stack.pop } :=
            ⟨hI.lim, hI.cur, pop_bot _ hI.bot (by rw [h3]; decide)⟩
          by_cases hnt : nt = 0
          · have hnb : (nt != tagEnd) = false := by simp [tagEnd, hnt]
            simp only [hnt, if_true, hnb, Bool.false_eq_true, if_false] at hI' ⊢
            have hR3 : Rep pj (((e2.set "stack" (.bytes s.stack.pop)).set "#break:tagswitch" (.bool true)).set
                "#break:tagswitch" (.bool false)) { s with stack := s.stack.pop } := (hR2.setStack _).clearBrk
            exact post_sim pj _ _ false f hR3 hI' (by
              rw [Env.get_set_ne _ _ (by decide), Env.get_set_ne _ _ (by decide), Env.get_set_ne _ _ (by decide), hv2]) hf
          · have hnb : (nt != tagEnd) = true := by simp [tagEnd, hnt]
            simp only [hnt, if_false, hnb, if_true] at hI' ⊢
            have hR3 : Rep pj ((((e2.set "dst" (.bytes (s.dst.push 10))).set "stack" (.bytes s.stack.pop)).set
                "#break:tagswitch" (.bool true)).set "#break:tagswitch" (.bool false))
                { s with dst := s.dst.push 10, stack := s.stack.pop } := ((hR2.setDst _).setStack _).clearBrk
            exact post_sim pj _ _ false f hR3 hI' (by
              rw [Env.get_set_ne _ _ (by decide), Env.get_set_ne _ _ (by decide), Env.get_set_ne _ _ (by decide),
                Env.get_set_ne _ _ (by decide), hv2]) hf
        | panic =>
          rw [hp] at hpk
          simp only [] at hpk
          rw [hpk]
          simp [StepSim, catchL, stackRoot, Res.bind]
        | error e => rw [hp] at hpk; exact hpk.elim
        | diverge => rw [hp] at hpk; exact hpk.elim
      · have h3' : (s.stack.back! == stackRoot) = false := by simp [h3, stackRoot]
        simp only [h3, h3', Bool.false_eq_true, if_false]
        by_cases h0 : s.stack.back! = 0
        · have h0' : (s.stack.back! == stackNone) = true := by simp [h0, stackNone]
          simp only [h0, h0', if_true]
          rw [catchL_brk _ _ hR1.nobrk]
          simp only [StepSim]
          exact ⟨e1, rfl, hR1, hI, rfl⟩
        · have h0' : (s.stack.back! == stackNone) = false := by simp [h0, stackNone]
          simp only [h0, h0', Bool.false_eq_true, if_false, catchL, StepSim]
          exact ⟨_, _, rfl⟩
  · simp only [hsz, if_false]
    simp only [exec]
    exact (root_tail_sim pj e0 s f hR0 hI ho0 hf).finish (f + 1) postSec


/-! ### the model's `switch`, one tag at a time -/

theorem body_string (pj : PJ) (s : MState) (ht : s.i.t = 34) : WalkSafe.body pj s =
    (do let sb ← s.i.stringBytes pj; WalkSafe.contF pj { s with dst := Iter.quoted s.dst sb }) := by
  unfold WalkSafe.body; simp only [ht]; rfl

theorem body_int (pj : PJ) (s : MState) (ht : s.i.t = 108) : WalkSafe.body pj s =
    (do let v ← s.i.int pj; WalkSafe.contF pj { s with dst := s.dst ++ intToAscii v }) := by
  unfold WalkSafe.body; simp only [ht]; rfl

theorem body_uint (pj : PJ) (s : MState) (ht : s.i.t = 117) : WalkSafe.body pj s =
    (do let v ← s.i.uint pj; WalkSafe.contF pj { s with dst := s.dst ++ FloatFmt.natToAscii v }) := by
  unfold WalkSafe.body; simp only [ht]; rfl

theorem body_float (pj : PJ) (s : MState) (ht : s.i.t = 100) : WalkSafe.body pj s =
    (do let v ← s.i.float pj
        match FloatFmt.appendFloat v with
        | none => .error .generic
        | some b => WalkSafe.contF pj { s with dst := s.dst ++ b }) := by
  unfold WalkSafe.body; simp only [ht]; rfl

theorem body_null (pj : PJ) (s : MState) (ht : s.i.t = 110) : WalkSafe.body pj s =
    WalkSafe.contF pj { s with dst := s.dst ++ "null".toUTF8.data } := by
  unfold WalkSafe.body; simp only [ht]; rfl

theorem body_true (pj : PJ) (s : MState) (ht : s.i.t = 116) : WalkSafe.body pj s =
    WalkSafe.contF pj { s with dst := s.dst ++ "true".toUTF8.data } := by
  unfold WalkSafe.body; simp only [ht]; rfl

theorem body_false (pj : PJ) (s : MState) (ht : s.i.t = 102) : WalkSafe.body pj s =
    WalkSafe.contF pj { s with dst := s.dst ++ "false".toUTF8.data } := by
  unfold WalkSafe.body; simp only [ht]; rfl

theorem body_objStart (pj : PJ) (s : MState) (ht : s.i.t = 123) : WalkSafe.body pj s =
    (do let (i, _) ← ({ s.i with addNext := 0 } : Iter).advanceInto pj
        .ok (.inl { i := i, dst := s.dst.push 123, stack := s.stack.push stackObject })) := by
  unfold WalkSafe.body; simp only [ht]; rfl

theorem body_objEnd (pj : PJ) (s : MState) (ht : s.i.t = 125) : WalkSafe.body pj s =
    (if s.stack.back! != stackObject then .error .generic
     else WalkSafe.contF pj { s with dst := s.dst.push 125, stack := s.stack.pop }) := by
  unfold WalkSafe.body; simp only [ht]; rfl

theorem body_arrStart (pj : PJ) (s : MState) (ht : s.i.t = 91) : WalkSafe.body pj s =
    (do let (i, _) ← ({ s.i with addNext := 0 } : Iter).advanceInto pj
        .ok (.inl { i := i, dst := s.dst.push 91, stack := s.stack.push stackArray })) := by
  unfold WalkSafe.body; simp only [ht]; rfl

theorem body_arrEnd (pj : PJ) (s : MState) (ht : s.i.t = 93) : WalkSafe.body pj s =
    (if s.stack.back! != stackArray then .error .generic
     else WalkSafe.contF pj { s with dst := s.dst.push 93, stack := s.stack.pop }) := by
  unfold WalkSafe.body; simp only [ht]; rfl

theorem body_end (pj : PJ) (s : MState) (ht : s.i.t = 0) : WalkSafe.body pj s =
    (do let nt ← s.i.peekNextTag pj
        if nt == tagEnd then .error .generic else do
        let (i, _) ← s.i.advanceInto pj
        .ok (.inl { s with i := i })) := by
  unfold WalkSafe.body; simp only [ht]; rfl

theorem body_other (pj : PJ) (s : MState)
    (h : s.i.t ∉ [114, 34, 108, 117, 100, 110, 116, 102, 123, 125, 91, 93, (0 : UInt8)]) :
    WalkSafe.body pj s = WalkSafe.contF pj s false := by
  simp only [List.mem_cons, List.not_mem_nil, or_false, not_or] at h
  obtain ⟨h1, h2, h3, h4, h5, h6, h7, h8, h9, h10, h11, h12, h13⟩ := h
  unfold WalkSafe.body
  simp [tagRoot, tagString, tagInteger, tagUint, tagFloat, tagNull, tagBoolTrue, tagBoolFalse, tagObjectStart,
    tagObjectEnd, tagArrayStart, tagArrayEnd, tagEnd, *]


/-- after a value case: the section after the switch, with `valueDone = done` -/
theorem val_then_post (pj : PJ) (s : MState) (f : Nat) (done : Bool) (hf : s.i.lim + 8 ≤ f) (e1 : Env) (s1 : MState)
    (hp : ValP pj s.i.lim done e1 s1) :
    StepSim pj s.i.lim (exec goFuns (f + 1) postSec ⟨e1, pj.tape⟩) (WalkSafe.contF pj s1 done) := by
  obtain ⟨h1, h2, h3, h4⟩ := hp
  rw [← h3]
  exact post_sim pj e1 s1 done f h1 h2 h4 (by rw [h3]; exact hf)

/-- the tag switch and what follows it, against the model's `switch` -/
theorem body_sim (pj : PJ) (hb : BufOK pj) (e : Env) (s : MState) (f : Nat) (hR : Rep pj e s) (hI : Inv pj s)
    (hv : e.get "valueDone" = some (.bool false)) (hf : s.i.lim + 8 ≤ f) :
    StepSim pj s.i.lim (exec goFuns (f + 1) (tagSwitch :: postSec) ⟨e, pj.tape⟩) (WalkSafe.body pj s) := by
  obtain ⟨d1, d2, d3, d4, d5⟩ := iterAt_get_i _ _ hR.it
  by_cases t1 : s.i.t = 114
  · exact root_sim pj e s f hR hI hv t1 hf
  by_cases t2 : s.i.t = 34
  · rw [t2] at d4
    have hc := case_string pj hb e s f hR hI (by omega)
    rw [exec, sw_string e pj.tape (f + 1) d4, hc.catchL, body_string pj s t2]
    have hm : (do let sb ← s.i.stringBytes pj; WalkSafe.contF pj { s with dst := Iter.quoted s.dst sb }) =
        ((s.i.stringBytes pj).bind (fun sb => .ok { s with dst := Iter.quoted s.dst sb }) >>=
          fun s1 => WalkSafe.contF pj s1 true) := by cases s.i.stringBytes pj <;> rfl
    rw [hm]
    exact hc.bind_step (val_then_post pj s f true hf)
  by_cases t3 : s.i.t = 108
  · rw [t3] at d4
    have hc := case_int pj e s f hR hI
    rw [exec, sw_int e pj.tape (f + 1) d4, hc.catchL, body_int pj s t3]
    have hm : (do let v ← s.i.int pj; WalkSafe.contF pj { s with dst := s.dst ++ intToAscii v }) =
        ((s.i.int pj).bind (fun v => .ok { s with dst := s.dst ++ intToAscii v }) >>=
          fun s1 => WalkSafe.contF pj s1 true) := by cases s.i.int pj <;> rfl
    rw [hm]
    exact hc.bind_step (val_then_post pj s f true hf)
  by_cases t4 : s.i.t = 117
  · rw [t4] at d4
    have hc := case_uint pj e s f hR hI
    rw [exec, sw_uint e pj.tape (f + 1) d4, hc.catchL, body_uint pj s t4]
    have hm : (do let v ← s.i.uint pj; WalkSafe.contF pj { s with dst := s.dst ++ FloatFmt.natToAscii v }) =
        ((s.i.uint pj).bind (fun v => .ok { s with dst := s.dst ++ FloatFmt.natToAscii v }) >>=
          fun s1 => WalkSafe.contF pj s1 true) := by cases s.i.uint pj <;> rfl
    rw [hm]
    exact hc.bind_step (val_then_post pj s f true hf)
  by_cases t5 : s.i.t = 100
  · rw [t5] at d4
    have hc := case_float pj e s f hR hI
    rw [exec, sw_float e pj.tape (f + 1) d4, hc.catchL, body_float pj s t5]
    have hm : (do let v ← s.i.float pj
                  match FloatFmt.appendFloat v with
                  | none => .error .generic
                  | some b => WalkSafe.contF pj { s with dst := s.dst ++ b }) =
        (floatPart pj s >>= fun s1 => WalkSafe.contF pj s1 true) := by
      unfold floatPart
      cases s.i.float pj with
      | ok v => cases hh : FloatFmt.appendFloat v <;> simp [Res.bind, bind, hh]
      | _ => rfl
    rw [hm]
    exact hc.bind_step (val_then_post pj s f true hf)
  by_cases t6 : s.i.t = 110
  · rw [t6] at d4
    obtain ⟨e1, he1, hp⟩ := case_null pj e s (f + 1) hR hI
    rw [exec, sw_null e pj.tape (f + 1) d4, he1, body_null pj s t6]
    exact val_then_post pj s f true hf e1 _ hp
  by_cases t7 : s.i.t = 116
  · rw [t7] at d4
    obtain ⟨e1, he1, hp⟩ := case_true pj e s (f + 1) hR hI
    rw [exec, sw_true e pj.tape (f + 1) d4, he1, body_true pj s t7]
    exact val_then_post pj s f true hf e1 _ hp
  by_cases t8 : s.i.t = 102
  · rw [t8] at d4
    obtain ⟨e1, he1, hp⟩ := case_false pj e s (f + 1) hR hI
    rw [exec, sw_false e pj.tape (f + 1) d4, he1, body_false pj s t8]
    exact val_then_post pj s f true hf e1 _ hp
  by_cases t9 : s.i.t = 123
  · rw [t9] at d4
    rw [exec, sw_objStart e pj.tape (f + 1) d4, body_objStart pj s t9]
    exact (case_objStart pj e s f hR hI hf).finish (f + 1) postSec
  by_cases t10 : s.i.t = 125
  · rw [t10] at d4
    rw [exec, sw_objEnd e pj.tape (f + 1) d4, body_objEnd pj s t10,
      objEnd_run e pj.tape (f + 1) s.stack s.dst hR.stack hR.dst hI.pos]
    by_cases h2 : s.stack.back! = 2
    · have h2' : (s.stack.back! != stackObject) = false := by simp [h2, stackObject]
      simp only [h2, h2', if_true, Bool.false_eq_true, if_false, catchL]
      refine val_then_post pj s f true hf _ _ ⟨((hR.setDst _).setStack _).set "valueDone" _ (by decide),
        ⟨hI.lim, hI.cur, pop_bot _ hI.bot (by rw [h2]; decide)⟩, rfl, Env.get_set_self _ _ _⟩
    · have h2' : (s.stack.back! != stackObject) = true := by simp [h2, stackObject]
      simp only [h2, h2', if_true, if_false, catchL, StepSim]
      exact ⟨_, _, rfl⟩
  by_cases t11 : s.i.t = 91
  · rw [t11] at d4
    rw [exec, sw_arrStart e pj.tape (f + 1) d4, body_arrStart pj s t11]
    exact (case_arrStart pj e s f hR hI hf).finish (f + 1) postSec
  by_cases t12 : s.i.t = 93
  · rw [t12] at d4
    rw [exec, sw_arrEnd e pj.tape (f + 1) d4, body_arrEnd pj s t12,
      arrEnd_run e pj.tape (f + 1) s.stack s.dst hR.stack hR.dst hI.pos]
    by_cases h2 : s.stack.back! = 1
    · have h2' : (s.stack.back! != stackArray) = false := by simp [h2, stackArray]
      simp only [h2, h2', if_true, Bool.false_eq_true, if_false, catchL]
      refine val_then_post pj s f true hf _ _ ⟨((hR.setDst _).setStack _).set "valueDone" _ (by decide),
        ⟨hI.lim, hI.cur, pop_bot _ hI.bot (by rw [h2]; decide)⟩, rfl, Env.get_set_self _ _ _⟩
    · have h2' : (s.stack.back! != stackArray) = true := by simp [h2, stackArray]
      simp only [h2, h2', if_true, if_false, catchL, StepSim]
      exact ⟨_, _, rfl⟩
  by_cases t13 : s.i.t = 0
  · rw [t13] at d4
    rw [exec, sw_end e pj.tape (f + 1) d4, body_end pj s t13]
    exact (case_end pj e s f hR hI hf).finish (f + 1) postSec
  · have hmem : s.i.t ∉ [114, 34, 108, 117, 100, 110, 116, 102, 123, 125, 91, 93, (0 : UInt8)] := by
      simp only [List.mem_cons, List.not_mem_nil, or_false, not_or]
      exact ⟨t1, t2, t3, t4, t5, t6, t7, t8, t9, t10, t11, t12, t13⟩
    rw [exec, sw_other e pj.tape (f + 1) s.i.t d4 hmem, body_other pj s hmem]
    exact val_then_post pj s f false hf e s ⟨hR, hI, rfl, hv⟩

end SJ.GoMarshal
