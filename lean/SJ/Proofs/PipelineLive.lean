import SJ.Proofs.Pipeline
/-
Schedule independence and termination of the hand-off protocol.
-/
namespace SJ.Pipeline

/-- what the consumer has seen so far is exactly buffers 0 … recvd-1, each with its own contents, in order -/
def SeenExact (s : St) : Prop := s.seen = ((List.range s.recvd).map fun k => (k, some k)).reverse

/-- bookkeeping of the terminator -/
structure TermInv (s : St) : Prop where
  recvT : s.termRecv = true → s.termSent = true ∧ s.recvd = s.sent

theorem seen_step (c : Cfg) (s s' : St) (e : Ev) (hi : Inv c s) (h : SeenExact s) (hs : step c s e = some s') : SeenExact s' := by
  cases e <;> simp only [step] at hs <;> split at hs <;> try (cases hs; exact h)
  all_goals try cases hs
  · rename_i hg
    unfold SeenExact at h ⊢
    simp only
    rw [List.range_succ, List.map_append, List.reverse_append, h]
    have := hi.stamps s.recvd (by have := hi.rel_hi; omega) (by have := hi.acq_lo; omega)
    simp [this]

theorem term_step (c : Cfg) (s s' : St) (e : Ev) (h : TermInv s) (hs : step c s e = some s') : TermInv s' := by
  cases e <;> simp only [step] at hs <;> split at hs <;> try (cases hs)
  · exact ⟨fun ht => h.recvT ht⟩
  · rename_i hg
    refine ⟨fun ht => ?_⟩
    have := h.recvT ht
    simp only [this.1] at hg
    simp at hg
  · rename_i hg
    refine ⟨fun ht => ?_⟩
    have := h.recvT ht
    simp [this.1] at hg
  · rename_i hg
    refine ⟨fun ht => ?_⟩
    simp only at ht
    simp [ht] at hg
  · rename_i hg
    refine ⟨fun ht => ?_⟩
    simp only at ht
    have := h.recvT ht
    omega
  · rename_i hg
    exact ⟨fun _ => ⟨hg.2.2.1, hg.2.1⟩⟩

theorem all_run (c : Cfg) (hc : c.cap + 2 ≤ c.slots) (evs : List Ev) :
    ∀ s s', Inv c s → SeenExact s → TermInv s → run c s evs = some s' → SeenExact s' ∧ TermInv s' := by
  induction evs with
  | nil => intro s s' _ h1 h2 hr; simp [run] at hr; subst hr; exact ⟨h1, h2⟩
  | cons e es ih =>
    intro s s' hi h1 h2 hr
    simp only [run] at hr
    split at hr
    · rename_i s1 hs1
      exact ih s1 s' (inv_step c hc s s1 e hi hs1) (seen_step c s s1 e hi h1 hs1) (term_step c s s1 e h2 hs1) hr
    · cases hr

/-- **Nothing lost, repeated, reordered or stale — exactly.** Under every schedule the consumer's receive
    history is buffers `0, 1, …, recvd−1`, each carrying the contents the producer stored for it. -/
theorem seen_exact (c : Cfg) (hc : c.cap + 2 ≤ c.slots) (evs : List Ev) (s : St) (hr : run c {} evs = some s) :
    s.seen = ((List.range s.recvd).map fun k => (k, some k)).reverse :=
  (all_run c hc evs {} s (inv_init c) (by simp [SeenExact]) ⟨by simp⟩ hr).1

/-- **Schedule independence of what stage 2 consumes.** Two complete executions (terminator received) in which
    stage 1 sent the same number of buffers — which the input alone determines — hand stage 2 exactly the same
    sequence of buffers, whatever the two interleavings were. Stage 2 is a deterministic function of that
    sequence (`Model.Stage2`), hence so is the outcome. -/
theorem schedule_independent (c : Cfg) (hc : c.cap + 2 ≤ c.slots) (evs₁ evs₂ : List Ev) (s₁ s₂ : St)
    (h₁ : run c {} evs₁ = some s₁) (h₂ : run c {} evs₂ = some s₂)
    (t₁ : s₁.termRecv = true) (t₂ : s₂.termRecv = true) (hn : s₁.sent = s₂.sent) : s₁.seen = s₂.seen := by
  have a₁ := all_run c hc evs₁ {} s₁ (inv_init c) (by simp [SeenExact]) ⟨by simp⟩ h₁
  have a₂ := all_run c hc evs₂ {} s₂ (inv_init c) (by simp [SeenExact]) ⟨by simp⟩ h₂
  rw [a₁.1, a₂.1, (a₁.2.recvT t₁).2, (a₂.2.recvT t₂).2, hn]

/-- **No deadlock.** In every reachable state in which the consumer has not yet received the terminator, some
    step is enabled — in particular the producer can always either hand over or terminate (also right after a
    stage-1 error) and a consumer that failed and merely drains can always go on draining. -/
theorem progress (c : Cfg) (hcap : 1 ≤ c.cap) (s : St) (hi : Inv c s) (ht : s.termRecv = false) :
    ∃ e, (step c s e).isSome = true := by
  by_cases hrel : s.released = s.recvd
  · exact ⟨.release, by simp [step, hrel, ht]⟩
  · have hr1 : s.released = s.recvd + 1 := by have := hi.rel_lo; have := hi.rel_hi; omega
    by_cases hq : s.recvd < s.sent
    · exact ⟨.recv, by simp [step, hr1, hq]⟩
    · have he : s.recvd = s.sent := by have := hi.rcv; omega
      by_cases hts : s.termSent = true
      · exact ⟨.recvTerm, by simp [step, hr1, he, hts, ht]⟩
      · refine ⟨.term, ?_⟩
        have : queued s < c.cap := by simp [queued, he, hts]; omega
        simp [step, hts, this]

/-- every step is counted by exactly one counter, so a run is as long as the sum of its counters -/
def steps (s : St) : Nat :=
  s.acquired + s.sent + s.released + s.recvd + (if s.termSent then 1 else 0) + (if s.termRecv then 1 else 0)

theorem steps_step (c : Cfg) (s s' : St) (e : Ev) (hs : step c s e = some s') : steps s' = steps s + 1 := by
  cases e <;> simp only [step] at hs <;> split at hs <;> try (cases hs)
  · simp only [steps]; split <;> split <;> omega
  · simp only [steps]; split <;> split <;> omega
  · rename_i hg
    have h1 : s.termSent = false := by simpa using hg.1
    simp only [steps, h1, Bool.false_eq_true, if_false, if_true]; split <;> omega
  · simp only [steps]; split <;> split <;> omega
  · simp only [steps]; split <;> split <;> omega
  · rename_i hg
    have h1 : s.termRecv = false := by simpa using hg.2.2.2
    simp only [steps, h1, Bool.false_eq_true, if_false, if_true]; try (split <;> omega)

theorem steps_run (c : Cfg) (evs : List Ev) : ∀ s s', run c s evs = some s' → steps s' = steps s + evs.length := by
  induction evs with
  | nil => intro s s' hr; simp [run] at hr; subst hr; simp
  | cons e es ih =>
    intro s s' hr
    simp only [run] at hr
    split at hr
    · rename_i s1 hs1
      rw [ih s1 s' hr, steps_step c s s1 e hs1]; simp; omega
    · cases hr

/-- **Termination.** A run in which stage 1 fills at most `n` buffers has at most `4n + 3` steps: with `progress`,
    every maximal run is finite and ends with the terminator received — also when either stage fails early. -/
theorem bounded_length (c : Cfg) (hc : c.cap + 2 ≤ c.slots) (evs : List Ev) (s : St) (hr : run c {} evs = some s)
    (n : Nat) (hn : s.acquired ≤ n) : evs.length ≤ 4 * n + 3 := by
  have hi := inv_run c hc evs {} s (inv_init c) hr
  have := steps_run c evs {} s hr
  have h0 : steps ({} : St) = 0 := rfl
  rw [h0] at this
  have h1 := hi.acq_lo; have h2 := hi.rcv; have h3 := hi.rel_hi
  simp only [steps] at this
  split at this <;> split at this <;> omega

end SJ.Pipeline
