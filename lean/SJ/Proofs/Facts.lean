import SJ.Generated.GoFacts
import SJ.Generated.Consts
/-
Expectations about the facts extracted from the Go source (switch case lists, package-level
variables, goroutine and pool sites, assignments of the parse entry points).  The hand-written model
reads the case lists directly; these theorems pin the lists to what the documentation promises, so an
edit of a type gate in the source changes a generated definition and fails here.
-/
namespace SJ.Facts
open SJ.Generated

def scalarNumStr : List Nat := [cTagFloat, cTagInteger, cTagUint, cTagString]

/-- same members, in any order -/
def sameMembers (a b : List Nat) : Bool := a.all (b.contains ·) && b.all (a.contains ·)

/-- SetFloat / SetInt / SetUInt / SetString(Bytes) accept exactly float, int, uint and string -/
theorem set_number_gates :
    [swSetFloat, swSetInt, swSetUInt, swSetStringBytes].all
      (fun sw => match sw with | [[l]] => sameMembers l scalarNumStr | _ => false) = true := by decide

/-- SetBool accepts exactly true, false and null -/
theorem set_bool_gate : swSetBool = [[[cTagBoolTrue, cTagBoolFalse, cTagNull]]] := by decide

/-- SetNull: one-word scalars; two-word scalars; objects, arrays **and roots**; error otherwise.
    The documentation of SetNull lists Bool, String, numbers, Objects and Arrays only; that root entries are
    accepted too is the known finding D10 of C13 (upstream's own test TestIter_SetNull_ObjArr/3 relies on it,
    so it is recorded, not repaired).  The theorem pins the list as it is, so any further change is noticed. -/
theorem set_null_gates :
    swSetNull = [[[cTagBoolTrue, cTagBoolFalse, cTagNull], [cTagString, cTagFloat, cTagInteger, cTagUint],
                  [cTagObjectStart, cTagArrayStart, cTagRoot], [256]]] := by decide

/-- calcNext: two-word values skip one entry; containers and roots skip to their end offset -/
theorem calc_next_cases :
    swCalcNext = [[[cTagInteger, cTagUint, cTagFloat, cTagString], [cTagRoot, cTagObjectStart, cTagArrayStart]]] := by decide

/-- Serialize and Deserialize switch over the same tag groups -/
theorem serialize_cases :
    swSerialize = [[[cTagNop], [cTagString], [cTagUint], [cTagInteger], [cTagFloat], [cTagNull, cTagBoolTrue, cTagBoolFalse],
                    [cTagObjectStart, cTagArrayStart, cTagRoot], [cTagObjectEnd, cTagArrayEnd, cTagEnd], [256]]] := by decide

/-- the first switch of Deserialize is the two-entry guard, the second the reconstruction -/
theorem deserialize_cases :
    swDeserialize = [[[cTagString, cTagFloat, cTagInteger, cTagUint, ctagFloatWithFlag]],
                     [[cTagNop], [cTagString], [cTagFloat, cTagInteger, cTagUint], [ctagFloatWithFlag],
                      [cTagNull, cTagBoolTrue, cTagBoolFalse, cTagEnd], [cTagObjectStart, cTagArrayStart], [cTagRoot],
                      [cTagObjectEnd, cTagArrayEnd], [256]]] := by decide

/-- package-level state: lookup tables (never written after init), sync.Pool, sync.Once, one shared decoder -/
theorem package_vars :
    packageVars.map (·.1) = ["ErrPathNotFound", "TagToType", "detailedPowersOfTen", "initSerializerOnce", "isNumberRune",
      "jsonMarkupTable", "s2FastWriters", "s2Readers", "s2Writers", "shouldEscape", "structuralOrWhitespaceNegated",
      "tagOpenToClose", "valToHex", "wantFeatures", "zDec", "zEncFast"] ∧
    (packageVars.filter (fun p => p.2 == "sync.Pool")).map (·.1) = ["s2FastWriters", "s2Readers", "s2Writers", "zEncFast"] ∧
    (packageVars.filter (fun p => p.2 == "sync.Once")).map (·.1) = ["initSerializerOnce"] := by decide

/-- the assignments to per-call parser state made by initialize, parseMessage and newInternalParsedJson:
    exactly the list the model of reuse was written from (every left-hand side is a field of the per-call `pj`) -/
theorem parse_assignments :
    parseAssignments = ["internalParsedJson.initialize:pj.Tape", "internalParsedJson.initialize:pj.Tape",
      "internalParsedJson.initialize:pj.Strings.B", "internalParsedJson.initialize:pj.Strings",
      "internalParsedJson.initialize:pj.containingScopeOffset", "internalParsedJson.initialize:pj.containingScopeOffset",
      "internalParsedJson.initialize:pj.indexesChan", "internalParsedJson.parseMessage:pj.Message",
      "internalParsedJson.parseMessage:pj.ndjson", "internalParsedJson.parseMessage:pj.ndjson",
      "internalParsedJson.parseMessage:pj.indexChans", "internalParsedJson.parseMessage:pj.buffersOffset",
      "newInternalParsedJson:pj.ParsedJson", "newInternalParsedJson:pj.ParsedJson.internal",
      "newInternalParsedJson:pj.copyStrings"] := by decide

/-- the parse entry points reset, on every call, the state that survives in a reused object -/
theorem parse_resets :
    ["internalParsedJson.initialize:pj.Tape", "internalParsedJson.initialize:pj.Strings.B",
     "internalParsedJson.initialize:pj.containingScopeOffset", "internalParsedJson.initialize:pj.indexesChan",
     "internalParsedJson.parseMessage:pj.Message", "internalParsedJson.parseMessage:pj.ndjson",
     "internalParsedJson.parseMessage:pj.buffersOffset", "newInternalParsedJson:pj.copyStrings"].all
      (fun a => parseAssignments.contains a) = true := by decide

/-- where goroutines are started -/
theorem go_sites :
    goStatements.eraseDups = ["ParseNDStream", "Serializer.Serialize", "Serializer.decBlock",
      "internalParsedJson.parseMessage", "serializeNDStream"] := by decide

/-- every pooled codec is returned by the function that took it (Get and Put sites pair up per function) -/
theorem pool_sites :
    poolSites = ["ParseNDStream:tmpPool.Get", "ParseNDStream:tmpPool.Put", "ParseNDStream:tmpPool.Put",
      "Serializer.decBlock:s2Readers.Get", "Serializer.decBlock:s2Readers.Put",
      "encBlock:s2FastWriters.Get", "encBlock:s2Writers.Get", "encBlock:put.Put", "encBlock:zEncFast.Get", "encBlock:zEncFast.Put",
      "serializeNDStream:dstPool.Get"] := by decide

end SJ.Facts
