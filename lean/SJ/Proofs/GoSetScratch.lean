import SJ.Proofs.GoIterBase
import SJ.Model.Access
set_option linter.unusedVariables false
namespace SJ.GoSet
open SJ SJ.GoSem SJ.Generated SJ.GoIter

attribute [local simp] exec exec1 execCases evalE evalEs Env.get Env.set isOneOf binop convert ofE copyFields bindParams
  iterFields runFun tblLookup

#check @UInt64.ofInt
#print UInt64.ofInt
#check @UInt64.ofInt_natCast
example (v : Int) : UInt64.ofInt v = ofInt64 v := by
  simp [ofInt64, UInt64.ofInt]

theorem t1 (pj : PJ) (i : Iter) (bits : UInt64) (fuel : Nat) (hl : i.lim ≤ pj.tape.size) :
   runFun goFuns goIter_SetFloat fuel { env := envOf "i" i ++ [("i.tape.Strings.B", .bytes pj.strings), ("v", .u64 bits)], tape := pj.tape } = .panic := by
  simp only [goIter_SetFloat, envOf]
  simp
  trace_state
  sorry
end SJ.GoSet
