import SJ.Proofs.GoIterBase
import SJ.Model.Access
set_option linter.unusedVariables false
namespace SJ.GoSet
open SJ SJ.GoSem SJ.Generated SJ.GoIter

theorem ofInt_eq_ofInt64 (v : Int) : UInt64.ofInt v = ofInt64 v := rfl

theorem ofInt_natCast (n : Nat) : UInt64.ofInt (n : Int) = UInt64.ofNat n := by
  apply UInt64.toNat_inj.mp
  simp [UInt64.ofInt]
  omega

theorem sub_ofNat (c : UInt64) (j : Nat) (h : j ≤ c.toNat) : c - UInt64.ofNat j = UInt64.ofNat (c.toNat - j) := by
  apply UInt64.toNat_inj.mp
  have := c.toNat_lt
  simp [UInt64.toNat_sub]
  omega

theorem set2_ok (pj : PJ) (i : Iter) (w0 w1 : UInt64) (h0 : 1 ≤ i.off) (h : i.off < pj.tape.size) :
    Iter.set2 pj i w0 w1 = .ok { pj with tape := (pj.tape.set (i.off - 1) w0 (by omega)).set i.off w1 (by simp; omega) } := by
  have h1 : i.off - 1 < pj.tape.size := by omega
  have h2 : ¬ i.off = 0 := by omega
  simp [Iter.set2, wr, h, h1, h2]

theorem set2_panic (pj : PJ) (i : Iter) (w0 w1 : UInt64) (h : i.off = 0 ∨ pj.tape.size ≤ i.off) :
    Iter.set2 pj i w0 w1 = .panic := by
  by_cases h0 : i.off = 0
  · simp [Iter.set2, h0]
  · have h2 : ¬ i.off < pj.tape.size := by omega
    by_cases h1 : i.off - 1 < pj.tape.size <;> simp [Iter.set2, wr, h0, h1, h2]


attribute [local simp] exec exec1 execCases evalE evalEs Env.get Env.set isOneOf binop convert ofE copyFields bindParams
  iterFields runFun tblLookup

def View1 (pj : PJ) (i : Iter) : Prop := i.off ≤ i.lim ∨ pj.tape.size < i.off
def View2 (pj : PJ) (i : Iter) : Prop := i.off < i.lim ∨ pj.tape.size ≤ i.off

def SimSet (pj : PJ) (i : Iter) (o : Out) (r : Res (PJ × Iter)) : Prop :=
  match r with
  | .ok (pj', i') => ∃ s, o = .ret s [.bool false] ∧ s.tape = pj'.tape ∧
      s.env.get "i.tape.Strings.B" = some (.bytes pj'.strings) ∧ iterAt s.env "i" = some i' ∧ pj'.msg = pj.msg
  | .error _ => ∃ s, o = .ret s [.bool true] ∧ s.tape = pj.tape ∧
      s.env.get "i.tape.Strings.B" = some (.bytes pj.strings) ∧ iterAt s.env "i" = some i
  | .panic => o = .panic
  | .diverge => False

-- case analysis shared by the two-word setters
set_option hygiene false in
macro "two_word" ht:ident hl:ident hv:ident : tactic => `(tactic| (
    simp only [$ht:ident, if_true]
    by_cases h0 : i.off = 0
    · simp [set2_panic _ _ _ _ (Or.inl h0), h0]
    · by_cases h1 : i.off < i.lim
      · have h2 : i.off < pj.tape.size := by omega
        have h3 : i.off - 1 < pj.tape.size := by omega
        have h4 : (1:Int) ≤ i.off ∧ (i.off:Int) - 1 < i.lim ∧ i.off - 1 < pj.tape.size := by omega
        rw [set2_ok _ _ _ _ (by omega) h2]
        simp [h1, h2, h3, h4, mkWord, iterAt, tagFloat, tagInteger, tagUint, tagString, tagNull, tagNop, wSTRINGBUFBIT, ofInt_natCast]
      · have h2 : pj.tape.size ≤ i.off := by omega
        have h5 : ¬ ((i.off:Int) < i.lim) := by omega
        rw [set2_panic _ _ _ _ (Or.inr h2)]
        by_cases h4 : (1:Int) ≤ i.off ∧ (i.off:Int) - 1 < i.lim ∧ i.off - 1 < pj.tape.size
        · simp [h4, h5]
        · simp [h4]))

theorem setFloat_sim (pj : PJ) (i : Iter) (bits : UInt64) (fuel : Nat) (hl : i.lim ≤ pj.tape.size) (hv : View2 pj i) :
   SimSet pj i (runFun goFuns goIter_SetFloat fuel { env := envOf "i" i ++ [("i.tape.Strings.B", .bytes pj.strings), ("v", .u64 bits)], tape := pj.tape })
     (i.setFloat pj bits) := by
  have hc : swSetFloat = [[[100, 108, 117, 34]]] := rfl
  simp only [goIter_SetFloat, envOf, Iter.setFloat, hc, caseOf, caseOfSw, inCase, SimSet, View2] at *
  simp
  simp only [← UInt8.toNat_inj, UInt8.reduceToNat, @eq_comm Nat _ i.t.toNat]
  by_cases ht : (i.t.toNat = 100 ∨ i.t.toNat = 108 ∨ i.t.toNat = 117 ∨ i.t.toNat = 34)
  · two_word ht hl hv
  · simp [ht, iterAt]

theorem setInt_sim (pj : PJ) (i : Iter) (v : Int) (fuel : Nat) (hl : i.lim ≤ pj.tape.size) (hv : View2 pj i) :
   SimSet pj i (runFun goFuns goIter_SetInt fuel { env := envOf "i" i ++ [("i.tape.Strings.B", .bytes pj.strings), ("v", .int v)], tape := pj.tape })
     (i.setInt pj v) := by
  have hc : swSetInt = [[[100, 108, 117, 34]]] := rfl
  simp only [goIter_SetInt, envOf, Iter.setInt, hc, caseOf, caseOfSw, inCase, SimSet, View2] at *
  simp
  simp only [← UInt8.toNat_inj, UInt8.reduceToNat, @eq_comm Nat _ i.t.toNat, ofInt_eq_ofInt64]
  by_cases ht : (i.t.toNat = 100 ∨ i.t.toNat = 108 ∨ i.t.toNat = 117 ∨ i.t.toNat = 34)
  · two_word ht hl hv
  · simp [ht, iterAt]

theorem setUInt_sim (pj : PJ) (i : Iter) (v : UInt64) (fuel : Nat) (hl : i.lim ≤ pj.tape.size) (hv : View2 pj i) :
   SimSet pj i (runFun goFuns goIter_SetUInt fuel { env := envOf "i" i ++ [("i.tape.Strings.B", .bytes pj.strings), ("v", .u64 v)], tape := pj.tape })
     (i.setUInt pj v) := by
  have hc : swSetUInt = [[[34, 100, 108, 117]]] := rfl
  simp only [goIter_SetUInt, envOf, Iter.setUInt, hc, caseOf, caseOfSw, inCase, SimSet, View2] at *
  simp
  simp only [← UInt8.toNat_inj, UInt8.reduceToNat, @eq_comm Nat _ i.t.toNat]
  by_cases ht : (i.t.toNat = 34 ∨ i.t.toNat = 100 ∨ i.t.toNat = 108 ∨ i.t.toNat = 117)
  · two_word ht hl hv
  · simp [ht, iterAt]

theorem setStringBytes_sim (pj : PJ) (i : Iter) (v : Bytes) (fuel : Nat) (hl : i.lim ≤ pj.tape.size) (hv : View2 pj i) :
   SimSet pj i (runFun goFuns goIter_SetStringBytes fuel { env := envOf "i" i ++ [("i.tape.Strings.B", .bytes pj.strings), ("v", .bytes v)], tape := pj.tape })
     (i.setStringBytes pj v) := by
  have hc : swSetStringBytes = [[[34, 100, 108, 117]]] := rfl
  simp only [goIter_SetStringBytes, envOf, Iter.setStringBytes, hc, caseOf, caseOfSw, inCase, SimSet, View2] at *
  simp
  simp only [← UInt8.toNat_inj, UInt8.reduceToNat, @eq_comm Nat _ i.t.toNat, ofInt_natCast]
  by_cases ht : (i.t.toNat = 34 ∨ i.t.toNat = 100 ∨ i.t.toNat = 108 ∨ i.t.toNat = 117)
  · two_word ht hl hv
  · simp [ht, iterAt]
end SJ.GoSet
