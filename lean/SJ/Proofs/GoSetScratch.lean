import SJ.Proofs.GoIterBase
import SJ.Model.Access
set_option linter.unusedVariables false
namespace SJ.GoSet
open SJ SJ.GoSem SJ.Generated SJ.GoIter

theorem ofInt_eq_ofInt64 (v : Int) : UInt64.ofInt v = ofInt64 v := rfl

theorem ofInt_natCast (n : Nat) : UInt64.ofInt (n : Int) = UInt64.ofNat n := by
  apply UInt64.toNat_inj.mp
  simp [UInt64.ofInt]
  omega

theorem sub_ofNat (c : UInt64) (j : Nat) (h : j ≤ c.toNat) : c - UInt64.ofNat j = UInt64.ofNat (c.toNat - j) := by
  apply UInt64.toNat_inj.mp
  have := c.toNat_lt
  simp [UInt64.toNat_sub]
  omega

theorem set2_ok (pj : PJ) (i : Iter) (w0 w1 : UInt64) (h0 : 1 ≤ i.off) (h : i.off < pj.tape.size) :
    Iter.set2 pj i w0 w1 = .ok { pj with tape := (pj.tape.set (i.off - 1) w0 (by omega)).set i.off w1 (by simp; omega) } := by
  have h1 : i.off - 1 < pj.tape.size := by omega
  have h2 : ¬ i.off = 0 := by omega
  simp [Iter.set2, wr, h, h1, h2]

theorem set2_panic (pj : PJ) (i : Iter) (w0 w1 : UInt64) (h : i.off = 0 ∨ pj.tape.size ≤ i.off) :
    Iter.set2 pj i w0 w1 = .panic := by
  by_cases h0 : i.off = 0
  · simp [Iter.set2, h0]
  · have h2 : ¬ i.off < pj.tape.size := by omega
    by_cases h1 : i.off - 1 < pj.tape.size <;> simp [Iter.set2, wr, h0, h1, h2]


attribute [local simp] exec exec1 execCases evalE evalEs Env.get Env.set isOneOf binop convert ofE copyFields bindParams
  iterFields runFun tblLookup

def View1 (pj : PJ) (i : Iter) : Prop := i.off ≤ i.lim ∨ pj.tape.size < i.off
def View2 (pj : PJ) (i : Iter) : Prop := i.off < i.lim ∨ pj.tape.size ≤ i.off

def SimSet (pj : PJ) (i : Iter) (o : Out) (r : Res (PJ × Iter)) : Prop :=
  match r with
  | .ok (pj', i') => ∃ s, o = .ret s [.bool false] ∧ s.tape = pj'.tape ∧
      s.env.get "i.tape.Strings.B" = some (.bytes pj'.strings) ∧ iterAt s.env "i" = some i' ∧ pj'.msg = pj.msg
  | .error _ => ∃ s, o = .ret s [.bool true] ∧ s.tape = pj.tape ∧
      s.env.get "i.tape.Strings.B" = some (.bytes pj.strings) ∧ iterAt s.env "i" = some i
  | .panic => o = .panic
  | .diverge => False

-- case analysis shared by the two-word setters
set_option hygiene false in
macro "two_word" ht:ident hl:ident hv:ident : tactic => `(tactic| (
    simp only [$ht:ident, if_true]
    by_cases h0 : i.off = 0
    · simp [set2_panic _ _ _ _ (Or.inl h0), h0]
    · by_cases h1 : i.off < i.lim
      · have h2 : i.off < pj.tape.size := by omega
        have h3 : i.off - 1 < pj.tape.size := by omega
        have h4 : (1:Int) ≤ i.off ∧ (i.off:Int) - 1 < i.lim ∧ i.off - 1 < pj.tape.size := by omega
        rw [set2_ok _ _ _ _ (by omega) h2]
        simp [h1, h2, h3, h4, mkWord, iterAt, tagFloat, tagInteger, tagUint, tagString, tagNull, tagNop, wSTRINGBUFBIT, ofInt_natCast]
      · have h2 : pj.tape.size ≤ i.off := by omega
        have h5 : ¬ ((i.off:Int) < i.lim) := by omega
        rw [set2_panic _ _ _ _ (Or.inr h2)]
        by_cases h4 : (1:Int) ≤ i.off ∧ (i.off:Int) - 1 < i.lim ∧ i.off - 1 < pj.tape.size
        · simp [h4, h5]
        · simp [h4]))

theorem setFloat_sim (pj : PJ) (i : Iter) (bits : UInt64) (fuel : Nat) (hl : i.lim ≤ pj.tape.size) (hv : View2 pj i) :
   SimSet pj i (runFun goFuns goIter_SetFloat fuel { env := envOf "i" i ++ [("i.tape.Strings.B", .bytes pj.strings), ("v", .u64 bits)], tape := pj.tape })
     (i.setFloat pj bits) := by
  have hc : swSetFloat = [[[100, 108, 117, 34]]] := rfl
  simp only [goIter_SetFloat, envOf, Iter.setFloat, hc, caseOf, caseOfSw, inCase, SimSet, View2] at *
  simp
  simp only [← UInt8.toNat_inj, UInt8.reduceToNat, @eq_comm Nat _ i.t.toNat]
  by_cases ht : (i.t.toNat = 100 ∨ i.t.toNat = 108 ∨ i.t.toNat = 117 ∨ i.t.toNat = 34)
  · two_word ht hl hv
  · simp [ht, iterAt]

theorem setInt_sim (pj : PJ) (i : Iter) (v : Int) (fuel : Nat) (hl : i.lim ≤ pj.tape.size) (hv : View2 pj i) :
   SimSet pj i (runFun goFuns goIter_SetInt fuel { env := envOf "i" i ++ [("i.tape.Strings.B", .bytes pj.strings), ("v", .int v)], tape := pj.tape })
     (i.setInt pj v) := by
  have hc : swSetInt = [[[100, 108, 117, 34]]] := rfl
  simp only [goIter_SetInt, envOf, Iter.setInt, hc, caseOf, caseOfSw, inCase, SimSet, View2] at *
  simp
  simp only [← UInt8.toNat_inj, UInt8.reduceToNat, @eq_comm Nat _ i.t.toNat, ofInt_eq_ofInt64]
  by_cases ht : (i.t.toNat = 100 ∨ i.t.toNat = 108 ∨ i.t.toNat = 117 ∨ i.t.toNat = 34)
  · two_word ht hl hv
  · simp [ht, iterAt]

theorem setUInt_sim (pj : PJ) (i : Iter) (v : UInt64) (fuel : Nat) (hl : i.lim ≤ pj.tape.size) (hv : View2 pj i) :
   SimSet pj i (runFun goFuns goIter_SetUInt fuel { env := envOf "i" i ++ [("i.tape.Strings.B", .bytes pj.strings), ("v", .u64 v)], tape := pj.tape })
     (i.setUInt pj v) := by
  have hc : swSetUInt = [[[34, 100, 108, 117]]] := rfl
  simp only [goIter_SetUInt, envOf, Iter.setUInt, hc, caseOf, caseOfSw, inCase, SimSet, View2] at *
  simp
  simp only [← UInt8.toNat_inj, UInt8.reduceToNat, @eq_comm Nat _ i.t.toNat]
  by_cases ht : (i.t.toNat = 34 ∨ i.t.toNat = 100 ∨ i.t.toNat = 108 ∨ i.t.toNat = 117)
  · two_word ht hl hv
  · simp [ht, iterAt]

theorem setStringBytes_sim (pj : PJ) (i : Iter) (v : Bytes) (fuel : Nat) (hl : i.lim ≤ pj.tape.size) (hv : View2 pj i) :
   SimSet pj i (runFun goFuns goIter_SetStringBytes fuel { env := envOf "i" i ++ [("i.tape.Strings.B", .bytes pj.strings), ("v", .bytes v)], tape := pj.tape })
     (i.setStringBytes pj v) := by
  have hc : swSetStringBytes = [[[34, 100, 108, 117]]] := rfl
  simp only [goIter_SetStringBytes, envOf, Iter.setStringBytes, hc, caseOf, caseOfSw, inCase, SimSet, View2] at *
  simp
  simp only [← UInt8.toNat_inj, UInt8.reduceToNat, @eq_comm Nat _ i.t.toNat, ofInt_natCast]
  by_cases ht : (i.t.toNat = 34 ∨ i.t.toNat = 100 ∨ i.t.toNat = 108 ∨ i.t.toNat = 117)
  · two_word ht hl hv
  · simp [ht, iterAt]

theorem wr_ok {α} (a : Array α) (k : Nat) (v : α) (h : k < a.size) : wr a k v = .ok (a.set k v h) := by simp [wr, h]
theorem wr_panic {α} (a : Array α) (k : Nat) (v : α) (h : a.size ≤ k) : wr a k v = .panic := by
  have : ¬ k < a.size := by omega
  simp [wr, this]

theorem setBool_sim (pj : PJ) (i : Iter) (v : Bool) (fuel : Nat) (hl : i.lim ≤ pj.tape.size) (hv : View1 pj i) :
   SimSet pj i (runFun goFuns goIter_SetBool fuel { env := envOf "i" i ++ [("i.tape.Strings.B", .bytes pj.strings), ("v", .bool v)], tape := pj.tape })
     (i.setBool pj v) := by
  have hc : swSetBool = [[[116, 102, 110]]] := rfl
  simp only [goIter_SetBool, envOf, Iter.setBool, hc, caseOf, caseOfSw, inCase, SimSet, View1] at *
  simp
  simp only [← UInt8.toNat_inj, UInt8.reduceToNat, @eq_comm Nat _ i.t.toNat]
  by_cases ht : (i.t.toNat = 116 ∨ i.t.toNat = 102 ∨ i.t.toNat = 110)
  · simp only [ht, if_true]
    by_cases h0 : i.off = 0
    · cases v <;> simp [h0]
    · by_cases h1 : i.off ≤ i.lim
      · have h3 : i.off - 1 < pj.tape.size := by omega
        have h4 : (1:Int) ≤ i.off ∧ (i.off:Int) - 1 < i.lim ∧ i.off - 1 < pj.tape.size := by omega
        rw [wr_ok _ _ _ h3]
        cases v <;> simp [h0, h3, h4, mkWord, iterAt, tagBoolTrue, tagBoolFalse]
      · have h2 : pj.tape.size ≤ i.off - 1 := by omega
        have h4 : ¬ ((1:Int) ≤ i.off ∧ (i.off:Int) - 1 < i.lim ∧ i.off - 1 < pj.tape.size) := by omega
        rw [wr_panic _ _ _ h2]
        cases v <;> simp [h0, h4]
  · simp [ht, iterAt]

/-! ## the NOP fill loop of `SetNull` -/

theorem nopFill_lt (tape : Array UInt64) (lo hi : Nat) (h : lo < hi) :
    Iter.nopFill tape lo hi = (wr tape lo (mkWord tagNop (UInt64.ofNat (hi - lo))) >>= fun t => Iter.nopFill t (lo + 1) hi) := by
  rw [Iter.nopFill]; simp [h]

theorem nopFill_ge (tape : Array UInt64) (lo hi : Nat) (h : ¬ lo < hi) : Iter.nopFill tape lo hi = .ok tape := by
  rw [Iter.nopFill]; simp [h]

theorem nopFill_panic : ∀ (n lo hi : Nat) (tape : Array UInt64), hi - lo ≤ n → lo < hi → tape.size < hi →
    Iter.nopFill tape lo hi = .panic := by
  intro n
  induction n with
  | zero => intro lo hi tape h1 h2; omega
  | succ n ih =>
    intro lo hi tape h1 h2 h3
    rw [nopFill_lt _ _ _ h2]
    by_cases hs : lo < tape.size
    · rw [wr_ok _ _ _ hs]
      simp only [Res.bind_ok]
      exact ih _ _ _ (by omega) (by omega) (by simpa using h3)
    · rw [wr_panic _ _ _ (by omega)]; rfl

def nopLoop : Stmt :=
  .forc [] (.bin .lt (.v "j") (.conv .int (.v "i.cur"))) [.assign "j" (.bin .add (.v "j") (.int 1))] [
    .tapeSet "i" (.v "j") (.bin .or (.bin .shl (.conv .u64 (.u8 78 /- TagNop -/)) (.int 56)) (.bin .sub (.v "i.cur") (.conv .u64 (.v "j"))))]

def envL (i : Iter) (strs : Bytes) (j : Int) : Env :=
  [("i.off", .int i.off), ("i.addNext", .int i.addNext), ("i.cur", .u64 i.cur), ("i.t", .u8 i.t), ("i.lim", .int i.lim),
   ("i.tape.Strings.B", .bytes strs), ("j", .int j)]

theorem nopLoop_ok (i : Iter) (strs : Bytes) (hcur : i.cur.toNat < 2^63) :
    ∀ (n j : Nat) (tape : Array UInt64) (fuel : Nat), i.cur.toNat - j ≤ n → n + 1 ≤ fuel →
      (j < i.cur.toNat → i.cur.toNat ≤ i.lim) → i.lim ≤ tape.size →
      ∃ t', Iter.nopFill tape j i.cur.toNat = .ok t' ∧
        exec1 goFuns fuel nopLoop { env := envL i strs j, tape := tape } =
          .normal { env := envL i strs (max j i.cur.toNat : Nat), tape := t' } := by
  intro n
  induction n with
  | zero =>
    intro j tape fuel h1 h2 h3 h4
    obtain ⟨f, rfl⟩ : ∃ f, fuel = f + 1 := ⟨fuel - 1, by omega⟩
    have hj : ¬ j < i.cur.toNat := by omega
    have hj' : ¬ ((j : Int) < i.cur.toNat) := by omega
    refine ⟨tape, nopFill_ge _ _ _ hj, ?_⟩
    have hm : max j i.cur.toNat = j := by omega
    simp [nopLoop, envL, toInt64_small _ hcur, hj', hm]
  | succ n ih =>
    intro j tape fuel h1 h2 h3 h4
    obtain ⟨f, rfl⟩ : ∃ f, fuel = f + 1 := ⟨fuel - 1, by omega⟩
    by_cases hj : j < i.cur.toNat
    · have hj' : ((j : Int) < i.cur.toNat) := by omega
      have hs : j < tape.size := by have := h3 hj; omega
      have hb : (j : Int) < i.lim ∧ j < tape.size := by have := h3 hj; omega
      obtain ⟨t', ht', he⟩ := ih (j + 1) (tape.set j (mkWord tagNop (UInt64.ofNat (i.cur.toNat - j))) hs) f (by omega) (by omega)
        (fun _ => h3 hj) (by simpa using h4)
      refine ⟨t', ?_, ?_⟩
      · rw [nopFill_lt _ _ _ hj, wr_ok _ _ _ hs]; exact ht'
      · have hm : max (j + 1) i.cur.toNat = max j i.cur.toNat := by omega
        rw [hm] at he
        simp only [nopLoop, envL] at he
        simp [nopLoop, envL, toInt64_small _ hcur, hj', hb, ofInt_natCast, sub_ofNat _ _ (Nat.le_of_lt hj)]
        simp [mkWord, tagNop] at he
        exact he
    · have hj' : ¬ ((j : Int) < i.cur.toNat) := by omega
      refine ⟨tape, nopFill_ge _ _ _ hj, ?_⟩
      have hm : max j i.cur.toNat = j := by omega
      simp [nopLoop, envL, toInt64_small _ hcur, hj', hm]

theorem nopLoop_panic (i : Iter) (strs : Bytes) (hcur : i.cur.toNat < 2^63) :
    ∀ (n j : Nat) (tape : Array UInt64) (fuel : Nat), i.cur.toNat - j ≤ n → n + 1 ≤ fuel →
      j < i.cur.toNat → i.lim < i.cur.toNat → i.lim ≤ tape.size →
      exec1 goFuns fuel nopLoop { env := envL i strs j, tape := tape } = .panic := by
  intro n
  induction n with
  | zero => intro j tape fuel h1 h2 h3; omega
  | succ n ih =>
    intro j tape fuel h1 h2 h3 h4 h5
    obtain ⟨f, rfl⟩ : ∃ f, fuel = f + 1 := ⟨fuel - 1, by omega⟩
    have hj' : ((j : Int) < i.cur.toNat) := by omega
    by_cases hb : j < i.lim ∧ j < tape.size
    · have he := ih (j + 1) (tape.set j (mkWord tagNop (UInt64.ofNat (i.cur.toNat - j))) hb.2) f (by omega) (by omega)
        (by omega) h4 (by simpa using h5)
      simp only [nopLoop, envL] at he
      simp [nopLoop, envL, toInt64_small _ hcur, hj', hb, ofInt_natCast, sub_ofNat _ _ (Nat.le_of_lt h3)]
      simp [mkWord, tagNop] at he
      exact he
    · simp [nopLoop, envL, toInt64_small _ hcur, hj', hb]

def ViewN (pj : PJ) (i : Iter) : Prop :=
  max i.off i.cur.toNat ≤ i.lim ∨ pj.tape.size < max i.off i.cur.toNat

structure SetNullPre (pj : PJ) (i : Iter) : Prop where
  one : i.t = tagBoolTrue ∨ i.t = tagBoolFalse ∨ i.t = tagNull → View1 pj i
  two : i.t = tagString ∨ i.t = tagFloat ∨ i.t = tagInteger ∨ i.t = tagUint → View2 pj i
  many : i.t = tagObjectStart ∨ i.t = tagArrayStart ∨ i.t = tagRoot → i.cur.toNat < 2^63 ∧ ViewN pj i

theorem setNull_sim (pj : PJ) (i : Iter) (fuel : Nat) (hl : i.lim ≤ pj.tape.size) (hpre : SetNullPre pj i)
    (hf : i.cur.toNat - i.off + 2 ≤ fuel) :
   SimSet pj i (runFun goFuns goIter_SetNull fuel { env := envOf "i" i ++ [("i.tape.Strings.B", .bytes pj.strings)], tape := pj.tape })
     (i.setNull pj) := by
  have hc : swSetNull = [[[116, 102, 110], [34, 100, 108, 117], [123, 91, 114], [256]]] := rfl
  obtain ⟨h1w, h2w, hNw⟩ := hpre
  obtain ⟨f, rfl⟩ : ∃ f, fuel = f + 1 := ⟨fuel - 1, by omega⟩
  simp only [goIter_SetNull, envOf, Iter.setNull, hc, caseOf, caseOfSw, inCase, SimSet, View1, View2,
    tagBoolTrue, tagBoolFalse, tagNull, tagString, tagFloat, tagInteger, tagUint, tagObjectStart, tagArrayStart, tagRoot] at *
  simp
  simp only [← UInt8.toNat_inj, UInt8.reduceToNat, @eq_comm Nat _ i.t.toNat] at *
  by_cases ht1 : (i.t.toNat = 116 ∨ i.t.toNat = 102 ∨ i.t.toNat = 110)
  · simp only [ht1, if_true]
    have hv := h1w ht1
    by_cases h0 : i.off = 0
    · simp [h0]
    · by_cases h1 : i.off ≤ i.lim
      · have h3 : i.off - 1 < pj.tape.size := by omega
        have h4 : (1:Int) ≤ i.off ∧ (i.off:Int) - 1 < i.lim ∧ i.off - 1 < pj.tape.size := by omega
        rw [wr_ok _ _ _ h3]
        simp [h0, h3, h4, mkWord, iterAt]
      · have h2 : pj.tape.size ≤ i.off - 1 := by omega
        have h4 : ¬ ((1:Int) ≤ i.off ∧ (i.off:Int) - 1 < i.lim ∧ i.off - 1 < pj.tape.size) := by omega
        rw [wr_panic _ _ _ h2]
        simp [h0, h4]
  · by_cases ht2 : (i.t.toNat = 34 ∨ i.t.toNat = 100 ∨ i.t.toNat = 108 ∨ i.t.toNat = 117)
    · have hv := h2w ht2
      simp only [ht1, if_false]
      two_word ht2 hl hv
    · by_cases ht3 : (i.t.toNat = 123 ∨ i.t.toNat = 91 ∨ i.t.toNat = 114)
      · simp only [ht1, ht2, ht3, if_true, if_false]
        obtain ⟨hcur, hN⟩ := hNw ht3
        have hw : mkWord 110 0 = ((110 : UInt64) <<< (56 : UInt64)) := by simp [mkWord]
        rw [hw]
        by_cases h0 : i.off = 0
        · simp [h0]
        · simp only [h0, if_false]
          by_cases hM : max i.off i.cur.toNat ≤ i.lim
          · have h3 : i.off - 1 < pj.tape.size := by omega
            have h4 : (1:Int) ≤ i.off ∧ (i.off:Int) - 1 < i.lim ∧ i.off - 1 < pj.tape.size := by omega
            obtain ⟨t', ht', he⟩ := nopLoop_ok { i with addNext := (i.cur.toNat : Int) - i.off } pj.strings hcur
              (i.cur.toNat - i.off) i.off (pj.tape.set (i.off - 1) ((110 : UInt64) <<< (56 : UInt64)) h3) f (Nat.le_refl _) (by omega)
              (fun _ => by simp only; omega) (by simpa using hl)
            simp only [envL, nopLoop] at he
            rw [wr_ok _ _ _ h3]
            simp only [Res.bind_ok]
            rw [ht']
            simp [h4, toInt64_small _ hcur, he, iterAt]
          · have hS : pj.tape.size < max i.off i.cur.toNat := by
              simp only [ViewN] at hN; omega
            by_cases h4 : (1:Int) ≤ i.off ∧ (i.off:Int) - 1 < i.lim ∧ i.off - 1 < pj.tape.size
            · have h3 : i.off - 1 < pj.tape.size := h4.2.2
              have he := nopLoop_panic { i with addNext := (i.cur.toNat : Int) - i.off } pj.strings hcur
                (i.cur.toNat - i.off) i.off (pj.tape.set (i.off - 1) ((110 : UInt64) <<< (56 : UInt64)) h3) f (Nat.le_refl _) (by omega)
                (by simp only; omega) (by simp only; omega) (by simpa using hl)
              simp only [envL, nopLoop] at he
              rw [wr_ok _ _ _ h3]
              simp only [Res.bind_ok]
              rw [nopFill_panic _ _ _ _ (Nat.le_refl _) (by omega) (by simp; omega)]
              simp [h4, toInt64_small _ hcur, he]
            · by_cases h3 : i.off - 1 < pj.tape.size
              · rw [wr_ok _ _ _ h3]
                simp only [Res.bind_ok]
                rw [nopFill_panic _ _ _ _ (Nat.le_refl _) (by omega) (by simp; omega)]
                simp [h4]
              · rw [wr_panic _ _ _ (by omega)]
                simp [h4]
      · simp [ht1, ht2, ht3, iterAt]
end SJ.GoSet
