import SJ.Proofs.ParseIff
import SJ.Proofs.StreamDocs
import SJ.Proofs.SpecTrim
/-
C08 in the words of the property: ParseND succeeds exactly when every non-blank line would be accepted by Parse.
-/
namespace SJ.NDLines
open SJ SJ.ParseDefs SJ.TrimEdge SJ.StreamDocs

theorem jsonTrim_list (l : List UInt8) : (jsonTrim l.toArray).toList = jsonTrimL l := by
  simp [jsonTrim]

/-- what is asked of a line for the per-line statement: its edges carry only JSON white space, it is short enough, and
    the specification does not declare it outside the claim -/
structure LineOK (l : List UInt8) : Prop where
  edge : EdgeOK l.toArray
  size : SizeOK (trimSpace l.toArray)
  inside : Spec.containerText l ≠ .outside

/-- `Parse` accepts the line iff the line is a container text -/
theorem line_parse_iff (cfg : Cfg) (l : List UInt8) (h : LineOK l) :
    (∃ pj, parse cfg l.toArray = .ok pj) ↔ ∃ v, Spec.containerText l = .accept v := by
  have hin : Spec.containerText (jsonTrim l.toArray).toList ≠ .outside := by
    rw [jsonTrim_list]
    intro e
    exact h.inside (SpecTrim.containerText_trim_outside l e)
  rw [ParseIff.parse_iff cfg l.toArray h.edge h.size hin, jsonTrim_list]
  constructor
  · rintro ⟨v, hv⟩; exact ⟨v, (SpecTrim.containerText_trim_accept l v).mp hv⟩
  · rintro ⟨v, hv⟩; exact ⟨v, (SpecTrim.containerText_trim_accept l v).mpr hv⟩

theorem map_accept_of_forall : ∀ (ls : List (List UInt8)), (∀ l ∈ ls, ∃ v, Spec.containerText l = .accept v) →
    ∃ vs : List Spec.JVal, ls.map Spec.containerText = vs.map Spec.Verdict.accept
  | [], _ => ⟨[], rfl⟩
  | l :: ls, h => by
    obtain ⟨v, hv⟩ := h l (by simp)
    obtain ⟨vs, hvs⟩ := map_accept_of_forall ls (fun x hx => h x (by simp [hx]))
    exact ⟨v :: vs, by simp [hv, hvs]⟩

theorem forall_of_map_accept : ∀ (ls : List (List UInt8)) (vs : List Spec.JVal),
    ls.map Spec.containerText = vs.map Spec.Verdict.accept → ∀ l ∈ ls, ∃ v, Spec.containerText l = .accept v
  | [], _, _, l, hl => by cases hl
  | a :: ls, [], h, _, _ => by simp at h
  | a :: ls, v :: vs, h, l, hl => by
    simp only [List.map_cons, List.cons.injEq] at h
    cases hl with
    | head => exact ⟨v, h.1⟩
    | tail _ hl' => exact forall_of_map_accept ls vs h.2 l hl'

/-- **ParseND succeeds exactly when there is a non-blank line and every non-blank line would be accepted by Parse.** -/
theorem parseND_iff_lines (cfg : Cfg) (input : Bytes) (he : EdgeOK input) (hsz : SizeOK (trimSpace input))
    (hin : Spec.ndText (jsonTrim input).toList ≠ .outside)
    (hl : ∀ l ∈ lines (jsonTrim input).toList, LineOK l) :
    (∃ pj, parseND cfg input = .ok pj) ↔
      (lines (jsonTrim input).toList ≠ [] ∧ ∀ l ∈ lines (jsonTrim input).toList, ∃ pj, parse cfg l.toArray = .ok pj) := by
  constructor
  · rintro ⟨pj, hp⟩
    cases hv : Spec.ndText (jsonTrim input).toList with
    | reject => rw [ParseIff.parseND_rejects cfg input he hsz hv] at hp; cases hp
    | outside => exact absurd hv hin
    | accept v =>
      obtain ⟨vs, rfl⟩ := ndText_accept_arr _ v hv
      obtain ⟨hne, hmap⟩ := (ndText_accept_iff _ vs).mp hv
      refine ⟨hne, fun l hlm => ?_⟩
      exact (line_parse_iff cfg l (hl l hlm)).mpr (forall_of_map_accept _ vs hmap l hlm)
  · rintro ⟨hne, hall⟩
    have hacc : ∀ l ∈ lines (jsonTrim input).toList, ∃ v, Spec.containerText l = .accept v :=
      fun l hlm => (line_parse_iff cfg l (hl l hlm)).mp (hall l hlm)
    obtain ⟨vs, hvs⟩ := map_accept_of_forall _ hacc
    have hnd : Spec.ndText (jsonTrim input).toList = .accept (.arr vs) := (ndText_accept_iff _ vs).mpr ⟨hne, hvs⟩
    obtain ⟨pj, _, hp, _⟩ := ParseIff.parseND_accepts cfg input he hsz vs hnd
    exact ⟨pj, hp⟩

end SJ.NDLines
